/-
  Proofs/SystemWordMix3.lean — SYSTEM LEVEL for the union grammar of TWENTY-TWO construct kinds
  (`PlainMix3`, the grammar of `C03_mix3_e2e`): the filter's theorem composed with the shell's
  pipeline.  The analogue of Proofs/SystemWordMix2.lean; the grammar-free lemmas are those of
  Proofs/SystemWord.lean, Proofs/SystemWordRun.lean (`delLines_word`, `run_of_decomp`) and
  Proofs/SystemWordGroup.lean (`posText_word`).

  The reference of a `PlainMix3` document threads FIVE quantities along the document (the
  definitions in force, the stack of label generators, the numbers of formulas and displayed
  equations in front, the position).  `envAfter`, `stkAfter`, `nFormulas`, `nDisplays`,
  `|render pre|` give their values behind a prefix `pre`; `marks_append3`, `flows_append3` split
  the reference at any segment boundary.

  `copied_run_mix3` (marks level): every run of character marks `some (c₀, p), some (c₁, p+1), …` of
      the reference `PlainMix3.marks` without a text-less mark in between whose first and last
      characters are no white space appears in the plain text as a contiguous block at some offset
      `off`, and the map entries there are `p+1, p+2, …` (`RunAt`).  This covers the text of `txt`
      segments (also the text of list items, of groups and of arguments of undeclared macros), the
      contents of `\verb`, the notes of citations, the titles of headings, and the ARGUMENTS of the
      uses of user macros where the body substitutes them (`bodyMarks` copies an argument at its own
      positions).  `copied_run_flows3`: the same for a stretch of a footnote body.
  `flagged_run_mix3`: such a run whose characters are those of the file at `p` (`src[p … p+l) = w`,
      decidable) and which does not start with a backslash, through filter AND shell.
  `flagged_word_mix3`: a stretch `w` of a `txt` segment (`segs = pre ++ .txt (a ++ w ++ b) :: post`,
      first and last character of `w` no white space), `p = |render pre| + |a|`: both facts are
      derived from the side conditions, conclusions as in `flagged_word_mix2`.
  `flagged_word_foot3`, `flagged_word_head3`: the same for a stretch of a footnote body / of the
      title of a heading (that it does not start with a backslash follows from the side
      conditions: the body of a footnote and a title are inert text).
  `sorted_words_mix3`: two words of `txt` segments are reported in the order of the file.

  NOT covered: what `PlainMix3` does not cover; flagged stretches that mix copied characters with
  replaced ones (`a–b`, `café` with `\'e`: the accent value is ONE character pinned to the
  backslash, the next copied character is 3 further — the map entries are not consecutive); text
  that comes from the BODY of a user macro (all its characters carry the position of the use or of
  the last argument token: no run); placeholders and labels.
-/
import YalafiVerif.Proofs.SystemWordGroup
import YalafiVerif.Proofs.PlainMix3Read
namespace Yalafi
namespace SystemWord

open PlainMacro Reports

/-! ### the state of the reference behind a prefix -/

/-- the definitions in force behind the segments `pre` -/
def envAfter : PlainMix3.Env → List PlainMix3.Seg → PlainMix3.Env
  | env, [] => env
  | env, .defn name n body :: rest => envAfter ((name, n, body) :: env) rest
  | env, _ :: rest => envAfter env rest

/-- the stack of label generators behind the segments `pre` -/
def stkAfter (st1 : PState) : List ItemGen → List PlainMix3.Seg → List ItemGen
  | stk, [] => stk
  | stk, .beg name :: rest => stkAfter st1 (PlainItem.begStk st1 stk name) rest
  | stk, .item _ :: rest => stkAfter st1 (PlainItem.itemStk stk) rest
  | stk, .en _ :: rest => stkAfter st1 (PlainItem.endStk stk) rest
  | stk, _ :: rest => stkAfter st1 stk rest

theorem render_append3 : ∀ (pre rest : List PlainMix3.Seg),
    PlainMix3.render (pre ++ rest) = PlainMix3.render pre ++ PlainMix3.render rest
  | [], _ => rfl
  | s :: pre, rest => by simp [PlainMix3.render, render_append3 pre rest]

theorem marks_append3' (T : PTables) (st1 : PState) (repls drepls : List Str) (rest : List PlainMix3.Seg) :
    ∀ (pre : List PlainMix3.Seg) (env : PlainMix3.Env) (stk : List ItemGen) (k k2 p k' k2' q : Nat),
      k' = k + PlainMix3.nFormulas pre → k2' = k2 + PlainMix3.nDisplays pre →
      q = p + (PlainMix3.render pre).length →
      PlainMix3.marks T st1 repls drepls env stk k k2 p (pre ++ rest)
        = PlainMix3.marks T st1 repls drepls env stk k k2 p pre
          ++ PlainMix3.marks T st1 repls drepls (envAfter env pre) (stkAfter st1 stk pre) k' k2' q rest := by
  intro pre
  induction pre with
  | nil =>
    intro env stk k k2 p k' k2' q hk hk2 hq
    simp only [PlainMix3.nFormulas, PlainMix3.nDisplays, PlainMix3.render, List.length_nil,
      Nat.add_zero] at hk hk2 hq
    subst hk; subst hk2; subst hq
    rfl
  | cons s pre ih =>
    intro env stk k k2 p k' k2' q hk hk2 hq
    have hq' : q = p + s.len + (PlainMix3.render pre).length := by
      simp only [PlainMix3.render, List.length_append] at hq
      simp only [PlainMix3.Seg.len]; omega
    cases s <;>
      (simp only [List.cons_append, PlainMix3.marks, envAfter, stkAfter, List.append_assoc]
       rw [ih _ _ _ _ _ k' k2' q (by simp [PlainMix3.nFormulas] at hk ⊢; omega)
          (by simp [PlainMix3.nDisplays] at hk2 ⊢; omega) (by first | exact hq' | (simp [PlainMix3.Seg.len, PlainMix3.Seg.render] at hq' ⊢; omega))])

/-- the reference of a document `pre ++ rest` -/
theorem marks_append3 (T : PTables) (st1 : PState) (repls drepls : List Str) (pre rest : List PlainMix3.Seg) :
    PlainMix3.marks T st1 repls drepls [] st1.itemStack 0 0 0 (pre ++ rest)
      = PlainMix3.marks T st1 repls drepls [] st1.itemStack 0 0 0 pre
        ++ PlainMix3.marks T st1 repls drepls (envAfter [] pre) (stkAfter st1 st1.itemStack pre)
            (PlainMix3.nFormulas pre) (PlainMix3.nDisplays pre) (PlainMix3.render pre).length rest :=
  marks_append3' T st1 repls drepls rest pre [] st1.itemStack 0 0 0 _ _ _ (Nat.zero_add _).symm
    (Nat.zero_add _).symm (Nat.zero_add _).symm

theorem flows_append3 (rest : List PlainMix3.Seg) : ∀ (pre : List PlainMix3.Seg) (p q : Nat),
    q = p + (PlainMix3.render pre).length →
    PlainMix3.flows p (pre ++ rest) = PlainMix3.flows p pre ++ PlainMix3.flows q rest := by
  intro pre
  induction pre with
  | nil =>
    intro p q hq
    simp only [PlainMix3.render, List.length_nil, Nat.add_zero] at hq
    subst hq; rfl
  | cons s pre ih =>
    intro p q hq
    have hq' : q = p + s.len + (PlainMix3.render pre).length := by
      simp only [PlainMix3.render, List.length_append] at hq
      simp only [PlainMix3.Seg.len]; omega
    cases s <;>
      (simp only [List.cons_append, PlainMix3.flows, List.append_assoc]
       rw [ih _ q (by first | exact hq' | (simp [PlainMix3.Seg.len, PlainMix3.Seg.render] at hq' ⊢; omega))])

theorem segsOk_drop3 (T : PTables) (st : PState) (rest : List PlainMix3.Seg) :
    ∀ (pre : List PlainMix3.Seg), PlainMix3.segsOk T st (pre ++ rest) = true → PlainMix3.segsOk T st rest = true
  | [], h => h
  | s :: pre, h => by
    cases s <;>
      (simp only [List.cons_append, PlainMix3.segsOk, Bool.and_eq_true] at h
       exact segsOk_drop3 T st rest pre h.2)

theorem textOkV_mid (T : PTables) (st : PState) (c : Char) (cs R : Str) :
    ∀ (a : Str), PlainMix3.textOkV T st (a ++ c :: cs) R = true → PlainMix3.okAtV T st c (cs ++ R) = true
  | [], h => by
    simp only [List.nil_append, PlainMix3.textOkV, Bool.and_eq_true] at h
    exact h.1
  | x :: a, h => by
    simp only [List.cons_append, PlainMix3.textOkV, Bool.and_eq_true] at h
    exact textOkV_mid T st c cs R a h.2

/-- a visible character of a `txt` segment is no backslash -/
theorem txt_not_backslash3 (T : PTables) (st : PState) (pre post : List PlainMix3.Seg) (a cs : Str) (c : Char)
    (h : PlainMix3.segsOk T st (pre ++ .txt (a ++ c :: cs) :: post) = true) (hc : isSpace c = false) :
    c ≠ '\\' := by
  have h1 := segsOk_drop3 T st _ pre h
  simp only [PlainMix3.segsOk, Bool.and_eq_true] at h1
  have h2 := textOkV_mid T st c cs _ a h1.1
  rcases PlainMix3.okAtV_snd h2 with h3 | h3
  · rw [hc] at h3; cases h3
  · intro he
    subst he
    have := h3.1
    revert this
    decide

theorem posText_length3 (p : Nat) (w : Str) : (posText p w).length = w.length := by
  rw [← List.length_map (f := (·.1)), posText_fst]

/-! ### `copied_run_contiguous` -/

/-- **`copied_run_contiguous`, main flow**: a run of character marks of the reference with
    consecutive positions and visible ends is a run of the filter's output -/
theorem copied_run_mix3 (T : PTables) (o : Options) (fs : FS) (thresh : Nat)
    (segs : List PlainMix3.Seg) (fuel : Nat) (st1 : PState) (repls drepls : List Str)
    (hdefs : o.defs = []) (hextr : o.extr = []) (hrepl : o.hasRepl = false) (hunkn : o.unkn = false)
    (hinit : initParser T fuel o (initialState T o false fs) = .ok ((), st1))
    (hok : PlainMix3.SegsOk T st1 repls drepls segs)
    (hf : (PlainMix3.render segs).length + PlainMix3.inserted [] 0 segs + 6 ≤ fuel)
    (A B : List Mark) (p : Nat) (w : Str)
    (hmarks : PlainMix3.marks T st1 repls drepls [] st1.itemStack 0 0 0 segs
      = A ++ ((posText p w).map some ++ B))
    (hw : wordEnds w = true) :
    ∃ r, tex2txt T fuel (PlainMix3.render segs) o false thresh fs = .ok r ∧
      r.txt.length = r.pos.length ∧
      ∃ off, off + w.length ≤ r.txt.length ∧ RunAt r.pos off w.length (p + 1) ∧
        (r.txt.drop off).take w.length = w := by
  obtain ⟨r, h1, h2, h3, _⟩ :=
    PlainMix3.tex2txt_mix3 T o fs thresh segs fuel st1 repls drepls hdefs hextr hrepl hunkn hinit hok hf
  refine ⟨r, h1, by rw [h2, h3]; simp, ?_⟩
  obtain ⟨hW, hlast⟩ := posText_word p hw
  obtain ⟨X, Y, hd⟩ := delLines_word A B (posText p w) hW hlast
  rw [← hmarks] at hd
  have hout : delLines (PlainMix3.marks T st1 repls drepls [] st1.itemStack 0 0 0 segs) ++ PlainMix3.flows 0 segs
      = X ++ (posText p w ++ (Y ++ PlainMix3.flows 0 segs)) := by rw [hd]; simp
  obtain ⟨b1, b2, b3⟩ := run_of_decomp _ X _ _ p hout (by rw [posText_snd, posText_length3])
  rw [posText_length3] at b1 b2 b3
  rw [posText_fst] at b3
  refine ⟨X.length, ?_, ?_, ?_⟩
  · rw [h2]; simpa using b1
  · rw [h3]; exact b2
  · rw [h2]; exact b3

/-- **`copied_run_contiguous`, footnotes**: a stretch of the detached flows with consecutive
    positions (a stretch of a footnote body) is a run of the filter's output -/
theorem copied_run_flows3 (T : PTables) (o : Options) (fs : FS) (thresh : Nat)
    (segs : List PlainMix3.Seg) (fuel : Nat) (st1 : PState) (repls drepls : List Str)
    (hdefs : o.defs = []) (hextr : o.extr = []) (hrepl : o.hasRepl = false) (hunkn : o.unkn = false)
    (hinit : initParser T fuel o (initialState T o false fs) = .ok ((), st1))
    (hok : PlainMix3.SegsOk T st1 repls drepls segs)
    (hf : (PlainMix3.render segs).length + PlainMix3.inserted [] 0 segs + 6 ≤ fuel)
    (F1 F2 : List (Char × Nat)) (p : Nat) (w : Str)
    (hflows : PlainMix3.flows 0 segs = F1 ++ (posText p w ++ F2)) :
    ∃ r, tex2txt T fuel (PlainMix3.render segs) o false thresh fs = .ok r ∧
      r.txt.length = r.pos.length ∧
      ∃ off, off + w.length ≤ r.txt.length ∧ RunAt r.pos off w.length (p + 1) ∧
        (r.txt.drop off).take w.length = w := by
  obtain ⟨r, h1, h2, h3, _⟩ :=
    PlainMix3.tex2txt_mix3 T o fs thresh segs fuel st1 repls drepls hdefs hextr hrepl hunkn hinit hok hf
  refine ⟨r, h1, by rw [h2, h3]; simp, ?_⟩
  have hout : delLines (PlainMix3.marks T st1 repls drepls [] st1.itemStack 0 0 0 segs) ++ PlainMix3.flows 0 segs
      = (delLines (PlainMix3.marks T st1 repls drepls [] st1.itemStack 0 0 0 segs) ++ F1)
        ++ (posText p w ++ F2) := by rw [hflows]; simp
  obtain ⟨b1, b2, b3⟩ := run_of_decomp _ _ _ _ p hout (by rw [posText_snd, posText_length3])
  rw [posText_length3] at b1 b2 b3
  rw [posText_fst] at b3
  refine ⟨(delLines (PlainMix3.marks T st1 repls drepls [] st1.itemStack 0 0 0 segs) ++ F1).length, ?_, ?_, ?_⟩
  · rw [h2]; simpa using b1
  · rw [h3]; exact b2
  · rw [h2]; exact b3

/-! ### from a run of the output to the reports of the shell -/

/-- the conclusion of the flagged-word theorems: the word stands at offset `p` of the file; the
    filter succeeds and the word is a run of its output; every flagged occurrence with the map
    entries of the word is reported at the word, in all formats -/
def FlaggedAt (T : PTables) (o : Options) (fs : FS) (thresh fuel : Nat) (src : Str) (p : Nat) (w : Str) : Prop :=
  (src.drop p).take w.length = w ∧ p + w.length ≤ src.length ∧
  ∃ r, tex2txt T fuel src o false thresh fs = .ok r ∧
    r.txt.length = r.pos.length ∧
    (∃ off, off + w.length ≤ r.txt.length ∧ RunAt r.pos off w.length (p + 1) ∧
      (r.txt.drop off).take w.length = w) ∧
    ∀ (off : Nat) (pad : List Int), RunAt r.pos off w.length (p + 1) →
      mapMatch (natMap r.pos ++ pad) src (off : Int) (some (.int w.length)) = .ok ((p : Int), (w.length : Int)) ∧
      reportAll (natMap r.pos ++ pad) src (off : Int) (some (.int w.length))
        = .ok (locate src (p : Int) (w.length : Int)) ∧
      WordReported src p w.length (locate src (p : Int) (w.length : Int)) ∧
      ((∀ c ∈ pad, 0 ≤ c) → HtmlWord src (natMap r.pos ++ pad) off w.length p)

/-- the shell's half: a run of the output that is the stretch `w` of the file at offset `p`, not
    starting with a backslash -/
theorem flaggedAt_of_run (T : PTables) (o : Options) (fs : FS) (thresh fuel : Nat) (src : Str) (p : Nat)
    (w : Str) (c : Char) (cs : Str) (hwc : w = c :: cs) (hc : c ≠ '\\')
    (hsrc : (src.drop p).take w.length = w)
    (hrun : ∃ r, tex2txt T fuel src o false thresh fs = .ok r ∧
      r.txt.length = r.pos.length ∧
      ∃ off, off + w.length ≤ r.txt.length ∧ RunAt r.pos off w.length (p + 1) ∧
        (r.txt.drop off).take w.length = w) :
    FlaggedAt T o fs thresh fuel src p w := by
  have hl : 1 ≤ w.length := by rw [hwc]; simp
  have hin : p + w.length ≤ src.length := by
    have := congrArg List.length hsrc
    rw [List.length_take, List.length_drop] at this
    omega
  have hget : src[p]? = some c := by
    have h0 := congrArg (fun l => l[0]?) hsrc
    simp only [hwc, List.length_cons] at h0
    rw [List.getElem?_take_of_lt (by omega), List.getElem?_drop] at h0
    simpa using h0
  obtain ⟨r, h1, h2, hoff⟩ := hrun
  refine ⟨hsrc, hin, r, h1, h2, hoff, ?_⟩
  intro off pad hr
  have hbs : ¬ (w.length = 1 ∧ src[p]? = some '\\') := by
    rintro ⟨_, hb⟩
    rw [hget] at hb
    cases hb
    exact hc rfl
  exact ⟨mapMatch_run _ r.pos pad off w.length _ hl hr hbs,
    reportAll_run _ r.pos pad off w.length _ hl hr hbs, locate_word _ _ w.length hl hin,
    fun hpad => html_run _ r.pos pad off w.length _ hl hr hbs (by omega) hpad⟩

/-- **a run of character marks of a `PlainMix3` document, through filter and shell**: the marks
    `some (c₀, p), some (c₁, p+1), …` of `w` stand in the reference, `w` has visible ends, does not
    start with a backslash and is the stretch of the file at offset `p` -/
theorem flagged_run_mix3 (T : PTables) (o : Options) (fs : FS) (thresh : Nat)
    (segs : List PlainMix3.Seg) (fuel : Nat) (st1 : PState) (repls drepls : List Str)
    (hdefs : o.defs = []) (hextr : o.extr = []) (hrepl : o.hasRepl = false) (hunkn : o.unkn = false)
    (hinit : initParser T fuel o (initialState T o false fs) = .ok ((), st1))
    (hok : PlainMix3.SegsOk T st1 repls drepls segs)
    (hf : (PlainMix3.render segs).length + PlainMix3.inserted [] 0 segs + 6 ≤ fuel)
    (A B : List Mark) (p : Nat) (w : Str)
    (hmarks : PlainMix3.marks T st1 repls drepls [] st1.itemStack 0 0 0 segs
      = A ++ ((posText p w).map some ++ B))
    (hw : wordEnds w = true) (hbs : w.head? ≠ some '\\')
    (hsrc : ((PlainMix3.render segs).drop p).take w.length = w) :
    FlaggedAt T o fs thresh fuel (PlainMix3.render segs) p w := by
  obtain ⟨⟨c, cs, hwc, _⟩, _⟩ := wordEnds_facts hw
  refine flaggedAt_of_run T o fs thresh fuel _ p w c cs hwc ?_ hsrc
    (copied_run_mix3 T o fs thresh segs fuel st1 repls drepls hdefs hextr hrepl hunkn hinit hok hf
      A B p w hmarks hw)
  intro he
  apply hbs
  rw [hwc, he]; rfl

/-- … and a stretch of the detached flows (a stretch of a footnote body) -/
theorem flagged_run_flows3 (T : PTables) (o : Options) (fs : FS) (thresh : Nat)
    (segs : List PlainMix3.Seg) (fuel : Nat) (st1 : PState) (repls drepls : List Str)
    (hdefs : o.defs = []) (hextr : o.extr = []) (hrepl : o.hasRepl = false) (hunkn : o.unkn = false)
    (hinit : initParser T fuel o (initialState T o false fs) = .ok ((), st1))
    (hok : PlainMix3.SegsOk T st1 repls drepls segs)
    (hf : (PlainMix3.render segs).length + PlainMix3.inserted [] 0 segs + 6 ≤ fuel)
    (F1 F2 : List (Char × Nat)) (p : Nat) (w : Str)
    (hflows : PlainMix3.flows 0 segs = F1 ++ (posText p w ++ F2))
    (hne : w ≠ []) (hbs : w.head? ≠ some '\\')
    (hsrc : ((PlainMix3.render segs).drop p).take w.length = w) :
    FlaggedAt T o fs thresh fuel (PlainMix3.render segs) p w := by
  cases w with
  | nil => exact absurd rfl hne
  | cons c cs =>
    refine flaggedAt_of_run T o fs thresh fuel _ p (c :: cs) c cs rfl ?_ hsrc
      (copied_run_flows3 T o fs thresh segs fuel st1 repls drepls hdefs hextr hrepl hunkn hinit hok hf
        F1 F2 p (c :: cs) hflows)
    intro he
    apply hbs
    rw [he]; rfl

/-! ### a flagged word of a `txt` segment, through filter and shell -/

/-- the file offset of the stretch behind `pre` and `a` -/
abbrev offOf (pre : List PlainMix3.Seg) (a : Str) : Nat := (PlainMix3.render pre).length + a.length

/-- **a flagged word of a `PlainMix3` document, through filter and shell** -/
theorem flagged_word_mix3 (T : PTables) (o : Options) (fs : FS) (thresh : Nat)
    (segs : List PlainMix3.Seg) (fuel : Nat) (st1 : PState) (repls drepls : List Str)
    (hdefs : o.defs = []) (hextr : o.extr = []) (hrepl : o.hasRepl = false) (hunkn : o.unkn = false)
    (hinit : initParser T fuel o (initialState T o false fs) = .ok ((), st1))
    (hok : PlainMix3.SegsOk T st1 repls drepls segs)
    (hf : (PlainMix3.render segs).length + PlainMix3.inserted [] 0 segs + 6 ≤ fuel)
    (pre post : List PlainMix3.Seg) (a w b : Str) (hsegs : segs = pre ++ .txt (a ++ (w ++ b)) :: post)
    (hw : wordEnds w = true) :
    FlaggedAt T o fs thresh fuel (PlainMix3.render segs) ((PlainMix3.render pre).length + a.length) w := by
  obtain ⟨⟨c, cs, hwc, hc⟩, _⟩ := wordEnds_facts hw
  have hsrc : PlainMix3.render segs
      = (PlainMix3.render pre ++ a) ++ (w ++ (b ++ PlainMix3.render post)) := by
    rw [hsegs, render_append3]; simp [PlainMix3.render, PlainMix3.Seg.render]
  have hplen : (PlainMix3.render pre ++ a).length = (PlainMix3.render pre).length + a.length := by simp
  have hword : ((PlainMix3.render segs).drop ((PlainMix3.render pre).length + a.length)).take w.length = w := by
    rw [hsrc, ← hplen, List.drop_left, List.take_left]
  have hmarks : PlainMix3.marks T st1 repls drepls [] st1.itemStack 0 0 0 segs
      = (PlainMix3.marks T st1 repls drepls [] st1.itemStack 0 0 0 pre
          ++ (posText (PlainMix3.render pre).length a).map some)
        ++ ((posText ((PlainMix3.render pre).length + a.length) w).map some
          ++ ((posText ((PlainMix3.render pre).length + a.length + w.length) b).map some
            ++ PlainMix3.marks T st1 repls drepls (envAfter [] pre) (stkAfter st1 st1.itemStack pre)
                (PlainMix3.nFormulas pre) (PlainMix3.nDisplays pre)
                ((PlainMix3.render pre).length + (a ++ (w ++ b)).length) post)) := by
    rw [hsegs, marks_append3]
    simp only [PlainMix3.marks, posText_append, List.map_append, List.append_assoc]
  refine flagged_run_mix3 T o fs thresh segs fuel st1 repls drepls hdefs hextr hrepl hunkn hinit hok hf
    _ _ _ w hmarks hw ?_ hword
  intro he
  rw [hwc] at he
  simp only [List.head?_cons, Option.some.injEq] at he
  have hs := hok.2.1
  rw [hsegs, hwc] at hs
  exact txt_not_backslash3 T st1 pre post a (cs ++ b) c (by simpa using hs) hc he

theorem textOk_mid_fn (T : PTables) (st : PState) (c : Char) (cs R : Str) :
    ∀ (a : Str), PlainFootnote.textOk T st (a ++ c :: cs) R = true → PlainFootnote.chrOk T st c (cs ++ R) = true
  | [], h => by
    simp only [List.nil_append, PlainFootnote.textOk, Bool.and_eq_true] at h
    exact h.1
  | x :: a, h => by
    simp only [List.cons_append, PlainFootnote.textOk, Bool.and_eq_true] at h
    exact textOk_mid_fn T st c cs R a h.2

/-- an inert character (of a footnote body, of a title) is no backslash -/
theorem chrOk_not_backslash {T : PTables} {st : PState} {c : Char} {X : Str}
    (h : PlainFootnote.chrOk T st c X = true) : c ≠ '\\' := by
  intro he
  subst he
  simp only [PlainFootnote.chrOk, Bool.and_eq_true, Bool.or_eq_true] at h
  rcases h.2 with h2 | h2
  · revert h2; decide
  · have := h2.1; revert this; decide

/-- **a flagged word of the title of a heading** (`\section{a w b}`; `w` with visible ends) -/
theorem flagged_word_head3 (T : PTables) (o : Options) (fs : FS) (thresh : Nat)
    (segs : List PlainMix3.Seg) (fuel : Nat) (st1 : PState) (repls drepls : List Str)
    (hdefs : o.defs = []) (hextr : o.extr = []) (hrepl : o.hasRepl = false) (hunkn : o.unkn = false)
    (hinit : initParser T fuel o (initialState T o false fs) = .ok ((), st1))
    (hok : PlainMix3.SegsOk T st1 repls drepls segs)
    (hf : (PlainMix3.render segs).length + PlainMix3.inserted [] 0 segs + 6 ≤ fuel)
    (pre post : List PlainMix3.Seg) (name a w b : Str) (hsegs : segs = pre ++ .head name (a ++ (w ++ b)) :: post)
    (hw : wordEnds w = true) :
    FlaggedAt T o fs thresh fuel (PlainMix3.render segs)
      ((PlainMix3.render pre).length + name.length + 2 + a.length) w := by
  have hbs : w.head? ≠ some '\\' := by
    obtain ⟨⟨c, cs, hwc, _⟩, _⟩ := wordEnds_facts hw
    have hs := hok.2.1
    rw [hsegs] at hs
    have h1 := segsOk_drop3 T st1 _ pre hs
    simp only [PlainMix3.segsOk, PlainHeading.headOk, Bool.and_eq_true] at h1
    have h2 := h1.1.1.1.1.2
    rw [hwc] at h2
    have h3 := textOk_mid_fn T st1 c (cs ++ b) _ a (by simpa using h2)
    rw [hwc]
    simp only [List.head?_cons, ne_eq, Option.some.injEq]
    exact chrOk_not_backslash h3
  have hsrc : PlainMix3.render segs
      = (PlainMix3.render pre ++ ('\\' :: (name ++ '{' :: a))) ++ (w ++ (b ++ '}' :: PlainMix3.render post)) := by
    rw [hsegs, render_append3]; simp [PlainMix3.render, PlainMix3.Seg.render]
  have hplen : (PlainMix3.render pre ++ ('\\' :: (name ++ '{' :: a))).length
      = (PlainMix3.render pre).length + name.length + 2 + a.length := by simp; omega
  have hword : ((PlainMix3.render segs).drop ((PlainMix3.render pre).length + name.length + 2 + a.length)).take
      w.length = w := by
    rw [hsrc, ← hplen, List.drop_left, List.take_left]
  have hmarks : PlainMix3.marks T st1 repls drepls [] st1.itemStack 0 0 0 segs
      = (PlainMix3.marks T st1 repls drepls [] st1.itemStack 0 0 0 pre
          ++ none :: (posText ((PlainMix3.render pre).length + name.length + 2) a).map some)
        ++ ((posText ((PlainMix3.render pre).length + name.length + 2 + a.length) w).map some
          ++ ((posText ((PlainMix3.render pre).length + name.length + 2 + a.length + w.length) b).map some
            ++ (PlainMix3.dotMarks T ((PlainMix3.render pre).length + name.length + 2) (a ++ (w ++ b))
            ++ PlainMix3.marks T st1 repls drepls (envAfter [] pre) (stkAfter st1 st1.itemStack pre)
                (PlainMix3.nFormulas pre) (PlainMix3.nDisplays pre)
                ((PlainMix3.render pre).length + (PlainMix3.Seg.head name (a ++ (w ++ b))).len) post))) := by
    rw [hsegs, marks_append3]
    simp only [PlainMix3.marks, PlainMix3.fixOf, posText_append, List.map_append, List.append_assoc,
      List.cons_append]
  exact flagged_run_mix3 T o fs thresh segs fuel st1 repls drepls hdefs hextr hrepl hunkn hinit hok hf
    _ _ _ w hmarks hw hbs hword

/-- **a flagged word of a footnote body** (`\footnote{a w b}`; `w` not empty) -/
theorem flagged_word_foot3 (T : PTables) (o : Options) (fs : FS) (thresh : Nat)
    (segs : List PlainMix3.Seg) (fuel : Nat) (st1 : PState) (repls drepls : List Str)
    (hdefs : o.defs = []) (hextr : o.extr = []) (hrepl : o.hasRepl = false) (hunkn : o.unkn = false)
    (hinit : initParser T fuel o (initialState T o false fs) = .ok ((), st1))
    (hok : PlainMix3.SegsOk T st1 repls drepls segs)
    (hf : (PlainMix3.render segs).length + PlainMix3.inserted [] 0 segs + 6 ≤ fuel)
    (pre post : List PlainMix3.Seg) (a w b : Str) (hsegs : segs = pre ++ .foot (a ++ (w ++ b)) :: post)
    (hne : w ≠ []) :
    FlaggedAt T o fs thresh fuel (PlainMix3.render segs)
      ((PlainMix3.render pre).length + 10 + a.length) w := by
  have hbs : w.head? ≠ some '\\' := by
    cases w with
    | nil => exact absurd rfl hne
    | cons c cs =>
      have hs := hok.2.1
      rw [hsegs] at hs
      have h1 := segsOk_drop3 T st1 _ pre hs
      simp only [PlainMix3.segsOk, PlainFootnote.footOk, Bool.and_eq_true] at h1
      have h2 := h1.1.1.1.2
      have h3 := textOk_mid_fn T st1 c (cs ++ b) _ a (by simpa using h2)
      simp only [List.head?_cons, ne_eq, Option.some.injEq]
      exact chrOk_not_backslash h3
  have hsrc : PlainMix3.render segs
      = (PlainMix3.render pre ++ ("\\footnote{".toList ++ a)) ++ (w ++ (b ++ '}' :: PlainMix3.render post)) := by
    rw [hsegs, render_append3]; simp [PlainMix3.render, PlainMix3.Seg.render]
  have hplen : (PlainMix3.render pre ++ ("\\footnote{".toList ++ a)).length
      = (PlainMix3.render pre).length + 10 + a.length := by simp; omega
  have hword : ((PlainMix3.render segs).drop ((PlainMix3.render pre).length + 10 + a.length)).take
      w.length = w := by
    rw [hsrc, ← hplen, List.drop_left, List.take_left]
  have hflows : PlainMix3.flows 0 segs
      = (PlainMix3.flows 0 pre ++ ([(nl, (PlainMix3.render pre).length + 10), (nl, (PlainMix3.render pre).length + 10),
            (nl, (PlainMix3.render pre).length + 10)] ++ posText ((PlainMix3.render pre).length + 10) a))
        ++ (posText ((PlainMix3.render pre).length + 10 + a.length) w
          ++ (posText ((PlainMix3.render pre).length + 10 + a.length + w.length) b
            ++ ([(nl, (PlainMix3.render pre).length + 10 + PlainFootnote.lastTokOff (a ++ (w ++ b)))]
            ++ PlainMix3.flows ((PlainMix3.render pre).length + (PlainMix3.Seg.foot (a ++ (w ++ b))).len) post))) := by
    rw [hsegs, flows_append3 _ pre 0 _ (Nat.zero_add _).symm]
    simp only [PlainMix3.flows, PlainFootnote.flowOut, posText_append, List.append_assoc]
  exact flagged_run_flows3 T o fs thresh segs fuel st1 repls drepls hdefs hextr hrepl hunkn hinit hok hf
    _ _ _ w hflows hne hbs hword

/-! ### (C) two flagged words are reported in the order of the file -/

/-- **(C)** two words of `txt` segments, the first one standing first in the file: both appear in
    the plain text, and whenever the proofreader flags them (matches `m1`, `m2` among any list `ms`
    of matches, offsets with the map entries of the words), the shell's sort puts `m1` in front of
    `m2` — wherever they stand in the plain text and in the proofreader's answer -/
theorem sorted_words_mix3 (T : PTables) (o : Options) (fs : FS) (thresh : Nat)
    (segs : List PlainMix3.Seg) (fuel : Nat) (st1 : PState) (repls drepls : List Str)
    (hdefs : o.defs = []) (hextr : o.extr = []) (hrepl : o.hasRepl = false) (hunkn : o.unkn = false)
    (hinit : initParser T fuel o (initialState T o false fs) = .ok ((), st1))
    (hok : PlainMix3.SegsOk T st1 repls drepls segs)
    (hf : (PlainMix3.render segs).length + PlainMix3.inserted [] 0 segs + 6 ≤ fuel)
    (pre1 post1 : List PlainMix3.Seg) (a1 w1 b1 : Str) (hsegs1 : segs = pre1 ++ .txt (a1 ++ (w1 ++ b1)) :: post1)
    (pre2 post2 : List PlainMix3.Seg) (a2 w2 b2 : Str) (hsegs2 : segs = pre2 ++ .txt (a2 ++ (w2 ++ b2)) :: post2)
    (hw1 : wordEnds w1 = true) (hw2 : wordEnds w2 = true)
    (hlt : (PlainMix3.render pre1).length + a1.length < (PlainMix3.render pre2).length + a2.length) :
    ∃ r, tex2txt T fuel (PlainMix3.render segs) o false thresh fs = .ok r ∧
      (∃ off1 off2, RunAt r.pos off1 w1.length ((PlainMix3.render pre1).length + a1.length + 1) ∧
        RunAt r.pos off2 w2.length ((PlainMix3.render pre2).length + a2.length + 1)) ∧
      ∀ (pad : List Int) (ms out : List RawMatch) (m1 m2 : RawMatch) (off1 off2 : Nat),
        sortMatches (natMap r.pos ++ pad) ms = .ok out → m1 ∈ ms → m2 ∈ ms →
        m1.offset = (off1 : Int) → m2.offset = (off2 : Int) →
        RunAt r.pos off1 w1.length ((PlainMix3.render pre1).length + a1.length + 1) →
        RunAt r.pos off2 w2.length ((PlainMix3.render pre2).length + a2.length + 1) →
        ∃ X Y Z, out = X ++ m1 :: (Y ++ m2 :: Z) := by
  obtain ⟨_, _, r, h1, _, ⟨off1, _, hr1, _⟩, _⟩ := flagged_word_mix3 T o fs thresh segs fuel st1 repls drepls
    hdefs hextr hrepl hunkn hinit hok hf pre1 post1 a1 w1 b1 hsegs1 hw1
  obtain ⟨_, _, r', h1', _, ⟨off2, _, hr2, _⟩, _⟩ := flagged_word_mix3 T o fs thresh segs fuel st1 repls drepls
    hdefs hextr hrepl hunkn hinit hok hf pre2 post2 a2 w2 b2 hsegs2 hw2
  have hrr : r' = r := by rw [h1] at h1'; cases h1'; rfl
  subst hrr
  obtain ⟨⟨c1, cs1, hc1, _⟩, _⟩ := wordEnds_facts hw1
  obtain ⟨⟨c2, cs2, hc2, _⟩, _⟩ := wordEnds_facts hw2
  have hl1 : 1 ≤ w1.length := by rw [hc1]; simp
  have hl2 : 1 ≤ w2.length := by rw [hc2]; simp
  refine ⟨r', h1, ⟨off1, off2, hr1, hr2⟩, ?_⟩
  intro pad ms out m1 m2 o1 o2 hs hm1 hm2 ho1 ho2 hq1 hq2
  exact runs_sorted r'.pos pad ms out hs m1 m2 hm1 hm2 o1 w1.length _ o2 w2.length _ ho1 ho2 hl1 hl2 hq1 hq2 hlt

end SystemWord
end Yalafi
