/-
  Proofs/PlainFaultAccent.lean — C08 at a TEXT-MODE ACCENT ON A NON-LETTER, end to end on the model.

  Document: `pre ++ \name ws arg ++ post` — `pre`, `post` inert text (`PlainFootnote.textOk`),
  `\name` an accent macro (`\'`, `\"`, `\c`, …), `ws` white space with at most one line break,
  `arg` = the character `c` or `{c}`, where `c` is NO ASCII letter (and no white space, none of
  `% # \ $ { }`, no special sequence of the tables starts there: it is scanned as one text token).

  What the model (= `Parser.expand_accent`) does: `arg_buffer` takes the argument, it is expanded (the
  character token comes back), its first character is no letter:
  `latex_error('text-mode accent for non-letter', tok.pos)` — the diagnostic at the backslash of the
  accent macro, the mark tokens are APPENDED TO THE OUTPUT (not pushed back), accent macro, white
  space and argument are consumed, nothing behind them is touched.  No Action token arises, so the
  blank-line removal deletes nothing (no condition on the mark).

  `accFaultOk` (computable), `AccFaultFacts`      side conditions
  `expandAccent_nonletter`, `seq_accfault_step`   expander
  `scanRun_accfault`                              scanner
  `tex2txt_accent_nonletter`                      end to end

  Side conditions (reasons)
    `pre`, `post`    inert text in their right context (`PlainFootnote.textOk`: no active character,
                     white space or none of `% # \ $ { }` with no special sequence matching)
    name             as in Proofs/PlainAccent.lean (`nameOk`; no special sequence matches at the
                     backslash; an accent macro and none of `\begin \end \item \verb \( \[`)
    `ws`             white space, at most one line break (two make a paragraph token: the argument
                     is void then and the accent yields the spacing character — no fault)
    `c`              no white space (a blank argument gives the spacing character — no fault), no
                     ASCII letter, none of `% # \ $ { }`, scanned as a one-character token
    braces           `{`, `}` are scanned as special tokens (real tables: yes)
    blank            the blank is no "active character" (the mark tokens start / end with a blank
                     and are sent through `expand_sequence`)
  NOT covered: an argument with more than one character (`\'{12}`: works in the model, the rest is
  copied), a macro as argument, the accent inside an argument of another macro or in maths.
-/
import YalafiVerif.Proofs.PlainFaultBase
namespace Yalafi
namespace PlainFault

open M PlainMacro
open PlainFootnote (TextRun CopyTok lineC LinesOf)
open PlainAccent (accTok letTok argT argStr nameOk accSteps accLen brOpt letPos wsSteps argSteps ScanRun)

/-- the message of the diagnostic -/
def errAccent : Str := "text-mode accent for non-letter".toList

/-! ### the expander -/

/-- **`expand_accent` on a non-letter**: the error is reported at the accent token, the mark tokens
    are returned, the argument is consumed -/
theorem expandAccent_nonletter (T : PTables) (fuel : Nat) (sp : List Tok)
    (hsp : ∀ t ∈ sp, isSpaceTok t = true) (br : Option (Nat × Nat)) (q : Nat) (c : Char)
    (rest : Buf) (tok : Tok) (st : PState)
    (hacc : (T.accents.find? (·.1 == tok.txt)).isSome = true)
    (hc1 : isSpace c = false) (hc2 : structuralChar c = false) (hc3 : isAsciiLetter c = false) :
    expandAccent T (fuel + 3) (sp ++ (argT br q c ++ rest)) tok st
      = .ok ((latexErrorToks T.toTables errAccent tok.pos st.latex.length, rest),
             { st with diags := st.diags ++ [latexErrorDiag errAccent tok.pos st.latex] }) := by
  have hst := hc2
  simp only [structuralChar, Bool.or_eq_false_iff, beq_eq_false_iff_ne] at hst
  obtain ⟨⟨⟨⟨⟨_, _⟩, _⟩, _⟩, h5⟩, h6⟩ := hst
  have hseq : expandSequence T (fuel + 2) [letTok q c] none [] st = .ok (([letTok q c], []), st) :=
    seq_plain_id T st none [letTok q c] (fuel + 2) (by simp)
      ⟨PlainAccent.plainTok_letTok q c hc2, Or.inr (by simp [expandShortMacro]), trivial⟩
      (by intro t ht; simp only [List.mem_singleton] at ht; subst ht; simp [letTok])
  obtain ⟨e, he⟩ := Option.isSome_iff_exists.mp hacc
  rw [expandAccent.eq_2]
  refine (M.bind_ok _ _ _ _ _ (PlainAccent.argBuffer_acc T.toTables sp hsp br q c h5 h6 rest tok.pos st)).trans ?_
  refine (M.bind_ok _ _ _ _ _ hseq).trans ?_
  simp only [he, Option.map_some, letTok, hc1, Bool.false_eq_true, if_false, hc3, Bool.not_false,
    if_true]
  rfl

/-- **the accent step on a non-letter**: accent token, white space and argument are replaced by
    the mark tokens in the output; one diagnostic.  Three units of fuel must remain. -/
theorem seq_accfault_step (T : PTables) (fuel : Nat) (p : Nat) (name : Str) (sp : List Tok)
    (hsp : ∀ t ∈ sp, isSpaceTok t = true) (br : Option (Nat × Nat)) (q : Nat) (c : Char)
    (rest : Buf) (envStop : Option Str) (out : List Tok) (st : PState)
    (hn : PlainAccent.AccName name)
    (hacc : (T.accents.find? (·.1 == '\\' :: name)).isSome = true)
    (hc1 : isSpace c = false) (hc2 : structuralChar c = false) (hc3 : isAsciiLetter c = false) :
    expandSequence T (fuel + 4) (accTok p name :: (sp ++ (argT br q c ++ rest))) envStop out st
      = expandSequence T (fuel + 3) rest envStop
          (out ++ latexErrorToks T.toTables errAccent p st.latex.length)
          { st with diags := st.diags ++ [latexErrorDiag errAccent p st.latex] } := by
  rw [expandSequence.eq_3]
  show M.bind' M.get _ st = _
  simp only [M.bind', M.get]
  have hk : (accTok p name).kind = .accent := rfl
  have t1 : txtIs (accTok p name) "$" = false := by simp [txtIs, accTok]
  have t2 : txtIs (accTok p name) "\\(" = false := by
    simpa [txtIs, accTok] using hn.n1
  have t3 : txtIs (accTok p name) "$$" = false := by simp [txtIs, accTok]
  have t4 : txtIs (accTok p name) "\\[" = false := by
    simpa [txtIs, accTok] using hn.n2
  simp only [hk, t1, t2, t3, t4, Bool.or_self, Bool.false_eq_true, if_false, if_true, reduceCtorEq,
    beq_iff_eq, beq_self_eq_true]
  refine (M.bind_ok _ _ _ _ _ (expandAccent_nonletter T fuel sp hsp br q c rest (accTok p name) st
    hacc hc1 hc2 hc3)).trans ?_
  rfl

/-! ### the side conditions -/

/-- the faulty accent call `\name ws c` / `\name ws {c}`, followed by `R` -/
def accCallOk (T : PTables) (name ws : Str) (br : Bool) (c : Char) (R : Str) : Bool :=
  nameOk name (ws ++ (argStr br c ++ R)) &&
  (matchSpecial T.toTables ('\\' :: (name ++ (ws ++ (argStr br c ++ R))))).isNone &&
  ('\\' :: name) != sBegin && ('\\' :: name) != sEnd && ('\\' :: name) != sItem &&
  ('\\' :: name) != sVerb && T.toTables.isAccent ('\\' :: name) &&
  ('\\' :: name) != "\\(".toList && ('\\' :: name) != "\\[".toList &&
  ws.all isSpace && decide (countNl ws < 2) &&
  (if br then braceAt T '{' (c :: '}' :: R) && braceAt T '}' R &&
              (matchSpecial T.toTables (c :: '}' :: R)).isNone
   else (matchSpecial T.toTables (c :: R)).isNone) &&
  !isSpace c && !structuralChar c && !isAsciiLetter c

/-- all side conditions on the document `pre ++ \name ws arg ++ post` -/
def accFaultOk (T : PTables) (st : PState) (pre name ws : Str) (br : Bool) (c : Char) (post : Str) : Bool :=
  PlainFootnote.textOk T st pre ('\\' :: (name ++ (ws ++ argStr br c)) ++ post) &&
  PlainFootnote.textOk T st post [] &&
  accCallOk T name ws br c post &&
  !(activeChars T st).contains [' ']

structure AccCallFacts (T : PTables) (name ws : Str) (br : Bool) (c : Char) (R : Str) : Prop where
  nm : nameOk name (ws ++ (argStr br c ++ R)) = true
  special : matchSpecial T.toTables ('\\' :: (name ++ (ws ++ (argStr br c ++ R)))) = none
  nBegin : ('\\' :: name) ≠ sBegin
  nEnd : ('\\' :: name) ≠ sEnd
  nItem : ('\\' :: name) ≠ sItem
  nVerb : ('\\' :: name) ≠ sVerb
  accent : T.toTables.isAccent ('\\' :: name) = true
  an : PlainAccent.AccName name
  wsp : ∀ x ∈ ws, isSpace x = true
  nl : countNl ws < 2
  arg : if br = true then braceAt T '{' (c :: '}' :: R) = true ∧ braceAt T '}' R = true ∧
          matchSpecial T.toTables (c :: '}' :: R) = none
        else matchSpecial T.toTables (c :: R) = none
  c1 : isSpace c = false
  c2 : structuralChar c = false
  c3 : isAsciiLetter c = false

theorem accCallFacts {T : PTables} {name ws : Str} {br : Bool} {c : Char} {R : Str}
    (h : accCallOk T name ws br c R = true) : AccCallFacts T name ws br c R := by
  simp only [accCallOk, Bool.and_eq_true, bne_iff_ne, ne_eq, Option.isNone_iff_eq_none,
    List.all_eq_true, decide_eq_true_eq, Bool.not_eq_true'] at h
  obtain ⟨⟨⟨⟨⟨⟨⟨⟨⟨⟨⟨⟨⟨⟨h1, h2⟩, h3⟩, h4⟩, h5⟩, h6⟩, h7⟩, h8⟩, h9⟩, h10⟩, h11⟩, h12⟩, h13⟩, h14⟩, h15⟩ := h
  refine ⟨h1, h2, h3, h4, h5, h6, h7, ⟨h8, h9⟩, h10, h11, ?_, h13, h14, h15⟩
  cases br with
  | true => simpa [and_assoc] using h12
  | false => simpa using h12

theorem isAccent_find (T : Tables) (k : Str) (h : T.isAccent k = true) :
    (T.accents.find? (·.1 == k)).isSome = true := by
  unfold Tables.isAccent at h
  rw [List.find?_isSome]
  simpa using h

/-! ### the scanner -/

theorem scanRun_argc (T : PTables) (src : Str) (q : Nat) (br : Bool) (c : Char) (R : Str)
    (hc1 : isSpace c = false) (hc2 : structuralChar c = false)
    (harg : if br = true then braceAt T '{' (c :: '}' :: R) = true ∧ braceAt T '}' R = true ∧
          matchSpecial T.toTables (c :: '}' :: R) = none
        else matchSpecial T.toTables (c :: R) = none) :
    ScanRun T.toTables src (argSteps br q c) q (argStr br c) R := by
  cases br with
  | false =>
    simp only [Bool.false_eq_true, if_false] at harg
    exact ScanRun.one _ _ _ c [] R _ (PlainAccent.nextToken_char T src q c R ⟨hc1, hc2, harg⟩) rfl
  | true =>
    simp only [if_true] at harg
    obtain ⟨b1, b2, hm⟩ := harg
    have r1 : ScanRun T.toTables src [{ tok := lbr q, len := 1 }] q ['{'] (([c] ++ ['}']) ++ R) :=
      ScanRun.one _ _ _ '{' [] _ _ (nextToken_brace T src q '{' _ (Or.inl rfl) b1) rfl
    have r2 : ScanRun T.toTables src [{ tok := letTok (q + 1) c, len := 1 }] (q + 1) [c] (['}'] ++ R) :=
      ScanRun.one _ _ _ c [] _ _ (PlainAccent.nextToken_char T src (q + 1) c _ ⟨hc1, hc2, hm⟩) rfl
    have r3 : ScanRun T.toTables src [{ tok := rbr (q + 2), len := 1 }] (q + 2) ['}'] R :=
      ScanRun.one _ _ _ '}' [] _ _ (nextToken_brace T src (q + 2) '}' _ (Or.inr rfl) b2) rfl
    exact ScanRun.append r1 (ScanRun.append r2 r3)

theorem argStr_head' (br : Bool) (c : Char) (hc : isSpace c = false) (R : Str) :
    (argStr br c ++ R).head?.all (fun d => !isSpace d) = true := by
  cases br <;> simp [argStr, hc, show isSpace '{' = false by decide]

/-- the source of the call -/
def accSrc (name ws : Str) (br : Bool) (c : Char) : Str := '\\' :: (name ++ (ws ++ argStr br c))

theorem accSrc_length (name ws : Str) (br : Bool) (c : Char) :
    (accSrc name ws br c).length = accLen name ws br := by
  have elen : (argStr br c).length = (argStr br 'x').length := by cases br <;> rfl
  simp only [accSrc, accLen, List.length_cons, List.length_append, elen]
  omega

/-- **the scanner on the faulty accent call** -/
theorem scanRun_accfault (T : PTables) (src : Str) (pos : Nat) (name ws : Str) (br : Bool) (c : Char)
    (R : Str) (F : AccCallFacts T name ws br c R) :
    ScanRun T.toTables src (accSteps pos name ws br c) pos (accSrc name ws br c) R := by
  have r1 : ScanRun T.toTables src [{ tok := accTok pos name, len := name.length + 1 }] pos
      ('\\' :: name) (ws ++ (argStr br c ++ R)) :=
    ScanRun.one _ _ _ '\\' name _ _
      (PlainAccent.nextToken_acc T src pos name _ F.nm F.special F.nBegin F.nEnd F.nItem F.nVerb F.accent) rfl
  have r2 := PlainAccent.scanRun_ws T src (pos + ('\\' :: name).length) ws (argStr br c ++ R) F.wsp F.nl
    (argStr_head' br c F.c1 R)
  have r3 := scanRun_argc T src (pos + ('\\' :: name).length + ws.length) br c R F.c1 F.c2 F.arg
  have r1' : ScanRun T.toTables src [{ tok := accTok pos name, len := name.length + 1 }] pos
      ('\\' :: name) ((ws ++ argStr br c) ++ R) := by
    rw [List.append_assoc]; exact r1
  have r := ScanRun.append r1' (ScanRun.append r2 r3)
  have e : '\\' :: name ++ (ws ++ argStr br c) = accSrc name ws br c := rfl
  rw [e] at r
  simpa [accSteps, List.length_cons, Nat.add_assoc] using r

theorem stepToks_accSteps (pos : Nat) (name ws : Str) (br : Bool) (c : Char) :
    stepToks (accSteps pos name ws br c) = accTok pos name ::
      ((wsSteps (pos + (name.length + 1)) ws).map (·.tok)
        ++ (argT (brOpt br (pos + (name.length + 1) + ws.length))
              (letPos br (pos + (name.length + 1) + ws.length)) c ++ [])) ∧
    stepDiags (accSteps pos name ws br c) = [] := by
  obtain ⟨h1, h2⟩ := stepToks_text _ (PlainAccent.accSteps_ok pos name ws br c)
  refine ⟨?_, h2⟩
  rw [h1]
  simp [accSteps, PlainAccent.argSteps_toks]

/-! ### end to end -/

/-- **C08 at a text-mode accent on a non-letter, end to end.**  `src = pre ++ \name ws arg ++ post`
    (`accFaultOk`).  Then `tex2txt` succeeds and

    * the text is `pre`, the COMPLETE mark `errMark` (`" " ++ T.mark ++ " "`, plus the message in
      verbose mode), `post` — accent macro and argument are dropped, nothing behind them is lost;
    * `pre` and `post` keep their own positions; the first `mx = min |mark| (|src| - P)` characters
      of the mark are mapped to the backslash of the accent macro (1-based `P + 1`), the others — if
      the mark is longer than the rest of the source — to the last position (`markPos1`);
    * exactly one diagnostic is added: "text-mode accent for non-letter" at the line and column of
      the backslash; nothing is reported as unknown. -/
theorem tex2txt_accent_nonletter (T : PTables) (o : Options) (fs : FS) (thresh : Nat)
    (pre name ws : Str) (br : Bool) (c : Char) (post : Str) (fuel : Nat) (st1 : PState)
    (hdefs : o.defs = []) (hextr : o.extr = []) (hrepl : o.hasRepl = false) (hunkn : o.unkn = false)
    (hinit : initParser T fuel o (initialState T o false fs) = .ok ((), st1))
    (hok : accFaultOk T st1 pre name ws br c post = true)
    (hf : (pre ++ (accSrc name ws br c ++ post)).length + 6 ≤ fuel) :
    let src := pre ++ (accSrc name ws br c ++ post)
    let P := pre.length
    let d := latexErrorDiag errAccent P src
    ∃ r, tex2txt T fuel src o false thresh fs = .ok r ∧
      r.txt = pre ++ (errMark T.toTables errAccent ++ post) ∧
      r.pos = List.range' 1 pre.length ++ (markPos1 T.toTables errAccent src.length P
        ++ List.range' (P + (accSrc name ws br c).length + 1) post.length) ∧
      r.unknowns = [] ∧ r.diags = st1.diags ++ [d] ∧
      d.msg = errAccent ∧ d.line = countNl pre + 1 ∧ d.col = (afterLastNl pre).length + 1 := by
  intro src P d
  simp only [accFaultOk, Bool.and_eq_true, Bool.not_eq_true'] at hok
  obtain ⟨⟨⟨hpre, hpost⟩, hcall⟩, hblank⟩ := hok
  have F := accCallFacts hcall
  have hne := (PlainAccent.macroLen_name name _ F.nm).2
  have hPn : P < src.length := by
    simp only [src, P, List.length_append, accSrc, List.length_cons]; omega
  obtain ⟨htk, hdg⟩ := stepToks_accSteps P name ws br c
  have hsp : ∀ t ∈ (wsSteps (P + (name.length + 1)) ws).map (·.tok), isSpaceTok t = true := by
    intro t ht
    have := PlainAccent.wsSteps_kind _ _ t ht
    simp [isSpaceTok, this]
  let stW := workState st1 src []
  let stX : PState := { stW with diags := stW.diags ++ [latexErrorDiag errAccent P src] }
  obtain ⟨r, h, h1, h2, h3, h4⟩ := fault_frame T o fs thresh pre (accSrc name ws br c) post fuel st1 stX
    (accSteps P name ws br c) (latexErrorToks T.toTables errAccent P src.length) 4
    hdefs hextr hrepl hunkn hinit hpre (by simp [accSrc, show isSpace '\\' = false by decide])
    (scanRun_accfault T src P name ws br c post F)
    (by rw [accSrc_length]; exact (PlainAccent.accSteps_length P name ws br c hne).1)
    hpost
    (by
      rw [htk]
      intro t ht
      simp only [List.mem_cons, List.mem_append, List.not_mem_nil, or_false] at ht
      rcases ht with rfl | ht | ht
      · simp [accTok]
      · have := PlainAccent.wsSteps_kind _ _ t ht
        simp [this]
      · cases br
        · simp only [brOpt, letPos, Bool.false_eq_true, if_false, argT, List.mem_singleton] at ht
          subst ht; simp [letTok]
        · simp only [brOpt, letPos, if_true, argT, List.mem_cons, List.not_mem_nil, or_false] at ht
          rcases ht with rfl | rfl | rfl <;> simp [lbr, letTok, rbr])
    rfl
    (by
      intro B _ g out
      refine ⟨g + 3, by omega, ?_⟩
      rw [htk, hdg]
      simp only [List.cons_append, List.append_assoc, List.nil_append]
      exact seq_accfault_step T g P name _ hsp _ _ c B none out stW F.an
        (isAccent_find T.toTables _ F.accent) F.c1 F.c2 F.c3)
    (by
      intro A B a b _ _ hA hB
      exact removeLines_noact A _ B (fun t ht => (hA t ht).notAction)
        (fun t ht => by
          have := (PlainMathOpen.latexErrorToks_kind T.toTables errAccent P src.length t ht).1
          simp [isAction, this])
        (fun t ht => (hB t ht).notAction))
    (by omega)
  obtain ⟨hl, hc⟩ := lineCol_after pre (accSrc name ws br c ++ post)
  refine ⟨r, h, ?_, ?_, h3, ?_, rfl, hl, hc⟩
  · rw [h1, PlainMathOpen.latexErrorToks_txtpos]
    simp [flowsToks, stX, stW, workState, rootState, getTxtPos]
  · rw [h2, PlainMathOpen.latexErrorToks_txtpos]
    simp only [markPos_map T.toTables errAccent src.length P hPn]
    simp [flowsToks, stX, stW, workState, rootState, getTxtPos, P]
  · rw [h4]
    simp [stX, stW, workState, rootState, d]

end PlainFault
end Yalafi
