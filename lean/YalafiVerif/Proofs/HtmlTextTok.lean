/-
  Proofs/HtmlTextTok.lean — a tokenizer for the tags of a page (`scan`, `tagsOf`), the placement discipline of
  pieces (`flow`: `esc` in text, `escTitle`/`escAttr`/`raw` inside a double-quoted attribute value), and the
  theorem that the tags of well-placed pieces depend on their shapes only (`scan_render`, `tagsOf_shape`,
  `tagsOf_blank`).  The tokenizer is conservative: every `<` in text opens a tag (HTML needs a letter, `/`, `!`
  or `?` behind it), a tag ends at the first `>` outside quotes, attribute values are left out of the token.
-/
import YalafiVerif.Proofs.HtmlTextEsc
namespace Yalafi
namespace HtmlText
open Html

/-! ### a tokenizer for the tags of a page -/

/-- where the tokenizer is: in text, inside a tag (outside attribute values), inside a double-quoted or a
    single-quoted attribute value; `acc` = the tag read so far, attribute values left out -/
inductive TokSt where
  | text
  | tag (acc : Str)
  | dq (acc : Str)
  | sq (acc : Str)
deriving Repr, DecidableEq, Inhabited

/-- one character: the new state and the tag that is completed by it, if any.  Conservative: EVERY `<` in
    text opens a tag; a tag ends at the first `>` outside quotes. -/
def step : TokSt → Char → TokSt × List Str
  | .text, c => if c == '<' then (.tag ['<'], []) else (.text, [])
  | .tag a, c =>
    if c == '>' then (.text, [a ++ ['>']])
    else if c == '"' then (.dq (a ++ ['"']), [])
    else if c == '\'' then (.sq (a ++ ['\'']), [])
    else (.tag (a ++ [c]), [])
  | .dq a, c => if c == '"' then (.tag (a ++ ['"']), []) else (.dq a, [])
  | .sq a, c => if c == '\'' then (.tag (a ++ ['\'']), []) else (.sq a, [])

def scan : TokSt → Str → TokSt × List Str
  | st, [] => (st, [])
  | st, c :: cs => ((scan (step st c).1 cs).1, (step st c).2 ++ (scan (step st c).1 cs).2)

/-- the tags of a page in order, each as it is written but with the attribute values left out
    (`<span style="" title="">`, `<br>`, `</span>`) -/
def tagsOf (s : Str) : List Str := (scan .text s).2

theorem scan_append (st : TokSt) (a b : Str) :
    scan st (a ++ b) = ((scan (scan st a).1 b).1, (scan st a).2 ++ (scan (scan st a).1 b).2) := by
  induction a generalizing st with
  | nil => simp [scan]
  | cons c cs ih => simp [scan, ih]

theorem scan_text_noLt (s : Str) (h : ∀ c ∈ s, c ≠ '<') : scan .text s = (.text, []) := by
  induction s with
  | nil => rfl
  | cons c cs ih =>
    have hc : (c == '<') = false := by simp [h c (by simp)]
    simp [scan, step, hc, ih (fun d hd => h d (by simp [hd]))]

theorem scan_dq_noQuote (a : Str) (s : Str) (h : ∀ c ∈ s, c ≠ '"') : scan (.dq a) s = (.dq a, []) := by
  induction s with
  | nil => rfl
  | cons c cs ih =>
    have hc : (c == '"') = false := by simp [h c (by simp)]
    simp [scan, step, hc, ih (fun d hd => h d (by simp [hd]))]

theorem scan_text_br : scan .text br = (.text, ["<br>".toList]) := by decide

theorem scan_text_protectHtml (s : Str) :
    scan .text (protectHtml s) = (.text, List.replicate (s.count '\n') "<br>".toList) := by
  rw [protectHtml_eq]
  induction s with
  | nil => rfl
  | cons c cs ih =>
    rw [List.flatMap_cons, scan_append]
    by_cases hc : c = '\n'
    · subst hc
      rw [phStep_nl, scan_text_br, ih]
      simp [List.replicate_succ]
    · rw [scan_text_noLt _ (phStep_noLt c hc), ih]
      have : (c == '\n') = false := by simp [hc]
      simp [List.count_cons, this]

/-! ### shapes: what the tags of a page depend on -/

/-- a piece without the content of its data: literals as they are, an `esc` piece by the number of its
    line breaks, attribute data by nothing at all -/
inductive Shape where
  | lit (s : Str)
  | raw (s : Str)
  | esc (nl : Nat)
  | escTitle
  | escAttr
deriving Repr, DecidableEq, Inhabited

def TPiece.shape : TPiece → Shape
  | .lit s => .lit s
  | .raw s => .raw s
  | .esc s => .esc (s.count '\n')
  | .escTitle _ => .escTitle
  | .escAttr _ => .escAttr

/-- the placement discipline: running the tokenizer over the LITERALS only, every `esc` piece must stand
    in text, every `escTitle`/`escAttr` piece inside a double-quoted attribute value, a `raw` piece inside
    a double-quoted value and be free of double quotes.  Result: the state behind the pieces. -/
def flowS : TokSt → List Shape → Option TokSt
  | st, [] => some st
  | st, .lit s :: ps => flowS (scan st s).1 ps
  | st, .esc _ :: ps => match st with
    | .text => flowS .text ps
    | _ => none
  | st, .escTitle :: ps => match st with
    | .dq a => flowS (.dq a) ps
    | _ => none
  | st, .escAttr :: ps => match st with
    | .dq a => flowS (.dq a) ps
    | _ => none
  | st, .raw s :: ps => match st with
    | .dq a => if s.all (· != '"') then flowS (.dq a) ps else none
    | _ => none

/-- the tags, computed from the literals and the numbers of line breaks alone -/
def skelS : TokSt → List Shape → List Str
  | _, [] => []
  | st, .lit s :: ps => (scan st s).2 ++ skelS (scan st s).1 ps
  | st, .esc n :: ps => List.replicate n "<br>".toList ++ skelS st ps
  | st, _ :: ps => skelS st ps

def flow (st : TokSt) (ps : List TPiece) : Option TokSt := flowS st (ps.map TPiece.shape)
def skel (st : TokSt) (ps : List TPiece) : List Str := skelS st (ps.map TPiece.shape)

theorem flowS_append (st : TokSt) (ps qs : List Shape) :
    flowS st (ps ++ qs) = (flowS st ps).bind (fun st' => flowS st' qs) := by
  induction ps generalizing st with
  | nil => simp [flowS]
  | cons p ps ih =>
    cases p <;> cases st <;> simp [flowS, ih]
    split <;> simp

theorem flow_append (st : TokSt) (ps qs : List TPiece) :
    flow st (ps ++ qs) = (flow st ps).bind (fun st' => flow st' qs) := by
  simp [flow, flowS_append]

theorem flow_append_of (st st' st'' : TokSt) (ps qs : List TPiece) (h1 : flow st ps = some st')
    (h2 : flow st' qs = some st'') : flow st (ps ++ qs) = some st'' := by
  rw [flow_append, h1]; exact h2

/-- the tokenizer over the rendered pieces, if they are placed well -/
theorem scan_render (ps : List TPiece) (st st' : TokSt) (h : flow st ps = some st') :
    scan st (renderPieces ps) = (st', skel st ps) := by
  induction ps generalizing st with
  | nil => simp [flow, flowS] at h; subst h; rfl
  | cons p ps ih =>
    have happ : renderPieces (p :: ps) = p.render ++ renderPieces ps := by simp [renderPieces]
    rw [happ, scan_append]
    cases p with
    | lit s =>
      have h' : flow (scan st s).1 ps = some st' := by simpa [flow, flowS, TPiece.shape] using h
      simp [TPiece.render, ih _ h', skel, skelS, TPiece.shape]
    | raw s =>
      cases st <;> simp [flow, flowS, TPiece.shape] at h
      rename_i a
      have hq : ∀ c ∈ s, c ≠ '"' := by
        intro c hc; have := h.1 c hc; simpa using this
      have h' : flow (.dq a) ps = some st' := h.2
      simp [TPiece.render, scan_dq_noQuote a s hq, ih _ h', skel, skelS, TPiece.shape]
    | esc s =>
      cases st <;> simp [flow, flowS, TPiece.shape] at h
      have h' : flow .text ps = some st' := h
      simp [TPiece.render, scan_text_protectHtml, ih _ h', skel, skelS, TPiece.shape]
    | escTitle s =>
      cases st <;> simp [flow, flowS, TPiece.shape] at h
      rename_i a
      have h' : flow (.dq a) ps = some st' := h
      have hq : ∀ c ∈ protectTitle s, c ≠ '"' := fun c hc => (protectTitle_safe s c hc).1
      simp [TPiece.render, scan_dq_noQuote a _ hq, ih _ h', skel, skelS, TPiece.shape]
    | escAttr s =>
      cases st <;> simp [flow, flowS, TPiece.shape] at h
      rename_i a
      have h' : flow (.dq a) ps = some st' := h
      have hq : ∀ c ∈ htmlEscape s, c ≠ '"' := fun c hc => (htmlEscape_safe s c hc).1
      simp [TPiece.render, scan_dq_noQuote a _ hq, ih _ h', skel, skelS, TPiece.shape]

/-- **the tags depend on the shapes only**: two well-placed piece lists with the same literals, the
    same numbers of line breaks in corresponding `esc` pieces and ANY data otherwise have the same tags -/
theorem tagsOf_shape (ps qs : List TPiece) (st' : TokSt) (h : flow .text ps = some st')
    (hs : qs.map TPiece.shape = ps.map TPiece.shape) :
    tagsOf (renderPieces qs) = tagsOf (renderPieces ps) := by
  have hq : flow .text qs = some st' := by simpa [flow, hs] using h
  simp [tagsOf, scan_render _ _ _ h, scan_render _ _ _ hq, skel, hs]

/-- every data character except the line breaks replaced by `x` -/
def blankStr (s : Str) : Str := s.map (fun c => if c == '\n' then '\n' else 'x')

def TPiece.blank : TPiece → TPiece
  | .lit s => .lit s
  | .raw s => .raw s
  | .esc s => .esc (blankStr s)
  | .escTitle s => .escTitle (blankStr s)
  | .escAttr s => .escAttr (blankStr s)

theorem count_blankStr (s : Str) : (blankStr s).count '\n' = s.count '\n' := by
  induction s with
  | nil => rfl
  | cons c cs ih =>
    simp only [blankStr, List.map_cons, List.count_cons] at ih ⊢
    rw [ih]
    by_cases hc : c = '\n' <;> simp [hc]

theorem shape_blank (p : TPiece) : p.blank.shape = p.shape := by
  cases p <;> simp [TPiece.blank, TPiece.shape, count_blankStr]

theorem tagsOf_blank (ps : List TPiece) (st' : TokSt) (h : flow .text ps = some st') :
    tagsOf (renderPieces (ps.map TPiece.blank)) = tagsOf (renderPieces ps) := by
  apply tagsOf_shape ps _ st' h
  simp [List.map_map, Function.comp_def, shape_blank]

end HtmlText
end Yalafi
