/-
  Proofs/PlainMix4Sem.lean — what the pieces of a source MEAN (fourth union grammar; header with the
  end-to-end statement and all side conditions: Proofs/PlainMix4E2E.lean).

  The scanner lemma (Proofs/PlainMix4Scan.lean) yields the pieces of the token buffer with their STATIC
  conditions and a structural link `Link T st1 ps items` to the items of the source.  Here everything
  that depends on the state is threaded along the link: the stored collections `l` of inline /
  display placeholders, the parser state `st` (its macro table changes at every definition, its
  `itemStack` at every list command) and the environment `env` of the definitions in force.

  `BS`                   every macro that is not declared in `st1` has a name with a backslash
  `marksOf_fOut`, `simple_fOut`, `simple_dispOut`   marks of a formula of the rich class / simplicity
  `CollOk`               the placeholders that are used have no line break (or are blank)
  `Sem`, `link_sem`      marks / simplicity / `Live` / fuel / unknown names / flows / formulas
-/
import YalafiVerif.Proofs.PlainMix4Scan
namespace Yalafi
namespace PlainMix4

open M
open PlainMacro hiding useSt useBody userMacro defSt
open PlainMix (ReplOk)
open PlainFootnote (flowToks addFlow)
open PlainMacroArgs (Group groupsFlat groupsOut GroupGood userMacro defSt useSt useN useBody GoodBody
  DigitOk Rel BodyLink GroupsLink normBody lookupDef defOf argSpans startCur bodyMarks groupMarks
  argsLen bodyInserted genOut genCur)
open PlainMathRich (mt mout fOut toMT MT hdTok ltTok shapeTxt fTxt anchor MItem)
open PlainUnkn2 (mcost)

/-! ### the names of user macros -/

/-- every macro that is not declared in `st1` has a name that starts with a backslash -/
def BS (st1 st : PState) : Prop :=
  ∀ nm m, lookupMacro st1 nm = none → lookupMacro st nm = some m → ∃ name, nm = '\\' :: name

theorem BS.refl (st1 : PState) : BS st1 st1 := by
  intro nm m h1 h2
  rw [h1] at h2; cases h2

theorem BS.of_macros {st1 st st' : PState} (h : BS st1 st) (hm : st'.macros = st.macros) : BS st1 st' := by
  intro nm m h1 h2
  exact h nm m h1 (by simpa [lookupMacro, hm] using h2)

theorem BS.defSt {st1 st : PState} (h : BS st1 st) (name : Str) (n : Nat) (body : List Tok) :
    BS st1 (defSt st name n body) := by
  intro nm m h1 h2
  rw [PlainMacroArgs.defSt, lookup_setMacro] at h2
  by_cases e : (userMacro ('\\' :: name) n body).name = nm
  · exact ⟨name, by rw [← e]; rfl⟩
  · rw [if_neg (by simpa using e)] at h2
    exact h nm m h1 h2

theorem BS.useSt {st1 st : PState} (h : BS st1 st) (name : Str) : BS st1 (useSt st name) := by
  unfold PlainMacroArgs.useSt
  split
  · exact h
  · exact h.of_macros rfl

theorem Rel.of_macros {st1 st st' : PState} {env : Env} (h : Rel st1 st env) (hm : st'.macros = st.macros) :
    Rel st1 st' env := by
  intro name hn
  have := h name hn
  simpa [lookupMacro, hm] using this

/-! ### the marks of a formula of the rich class -/

theorem tokMarks_mkFix (k : Kind) (hk : k ≠ .action) (q : Nat) (v : Str) :
    tokMarks (mkFix k q v) = v.map (fun c => some (c, q)) := by
  rw [tokMarks_nonaction _ (by cases k <;> simp_all [isAction, mkFix]),
    PlainMix.mkFix_restamp, tokChars_restamp]
  simp

theorem marksOf_fOut (T : PTables) (ph : Str) (p : Nat) (mb : List Tok) :
    marksOf (fOut T ph p mb)
      = none :: ((shapeTxt T mb ph).map (fun c => some (c, (hdTok mb).pos)) ++ [none]) := by
  unfold fOut shapeTxt inlineShape
  cases partPunct T mb <;> by_cases h0 : (hdTok mb).kind = .mathSpace <;>
    by_cases hl : (ltTok mb).kind = .mathSpace <;>
    simp [h0, hl, marksOf_cons, marksOf_append, tokMarks_mkAction, tokMarks_mkFix, mathSp, marksOf]

theorem simple_mkFix_char (k : Kind) (hk : k = .text ∨ k = .space) (q : Nat) (c : Char) :
    Simple (mkFix k q [c]) := by
  refine ⟨by rcases hk with rfl | rfl <;> simp [isAction, mkFix],
    by rcases hk with rfl | rfl <;> simp [isLang, mkFix], ?_⟩
  intro hn
  have : nl = c := by simpa [hasNl, mkFix] using hn
  subst this
  rfl

theorem simple_fOut (T : PTables) (ph : Str) (p : Nat) (mb : List Tok) (h : ReplOk ph) :
    ∀ t ∈ fOut T ph p mb, Simple t := by
  intro t ht
  unfold fOut inlineShape at ht
  simp only [List.mem_cons, List.mem_append, List.mem_singleton, List.not_mem_nil, or_false] at ht
  rcases ht with rfl | (((ht | rfl) | ht) | ht) | rfl
  · exact simple_mkAction p
  · split at ht
    · simp only [List.mem_singleton] at ht; subst ht
      exact simple_mkFix_char .space (Or.inr rfl) _ ' '
    · simp at ht
  · exact ⟨by simp [isAction, mkFix], by simp [isLang, mkFix], h⟩
  · split at ht
    · simp only [List.mem_singleton] at ht; subst ht
      exact simple_mkFix_char .text (Or.inl rfl) _ _
    · simp at ht
  · split at ht
    · simp only [List.mem_singleton] at ht; subst ht
      exact simple_mkFix_char .space (Or.inr rfl) _ ' '
    · simp at ht
  · exact simple_mkAction _

/-- the marks of a formula: `mathMarksR` of its maths tokens -/
theorem marksOf_math (T : PTables) (st : PState) (ph : Str) (p : Nat) (b : List Tok)
    (hany : (b.flatMap (mt T)).any (fun x => !x.sp) = true) :
    marksOf (fOut T ph p (b.flatMap (mout T st))) = mathMarksR T ph (b.flatMap (mt T)) := by
  have hmap := PlainMathRich.flatMap_mout_toMT T st b
  have hne : b.flatMap (mout T st) ≠ [] := by
    intro e
    rw [e] at hmap
    rw [← hmap] at hany
    simp at hany
  have hm : ∀ t ∈ b.flatMap (mout T st), isMathTok t = true := by
    intro t ht
    obtain ⟨x, _, hx⟩ := List.mem_flatMap.mp ht
    exact PlainMathRich.mout_math T st x t hx
  obtain ⟨e1, e2⟩ := PlainMathRich.shapeTxt_eq T _ ph hm hne
  rw [marksOf_fOut, e1, e2, hmap]
  rfl

/-! ### the semantics of the pieces -/

/-- the placeholders can be handled character by character by the blank-line removal (asked for
    only if there are `nm` formulas resp. `nd` displayed equations) -/
def CollOk (l : Colls) (nm nd : Nat) : Prop :=
  (nm ≠ 0 → ∀ r ∈ l.1, ReplOk r) ∧ (nd ≠ 0 → ∀ r ∈ l.2, ReplOk r)

theorem simple_dispOut (T : PTables) (ph : Str) (p q1 q2 : Nat) (s : Str) (h : ReplOk ph) :
    ∀ t ∈ PlainDisplay.dispOut T ph p q1 q2 s, Simple t := by
  intro t ht
  unfold PlainDisplay.dispOut PlainDisplay.partOut at ht
  have hbl : Simple (mkFix .space p [' ', ' ']) :=
    ⟨by simp [isAction, mkFix], by simp [isLang, mkFix], fun _ => (by decide : isBlank [' ', ' '] = true)⟩
  have hph : Simple (mkFix .text q1 ph) := ⟨by simp [isAction, mkFix], by simp [isLang, mkFix], h⟩
  cases hpc : PlainMath.punctChar T s with
  | none =>
    simp only [hpc, List.cons_append, List.nil_append, List.mem_cons, List.not_mem_nil, or_false] at ht
    rcases ht with rfl | rfl | rfl | rfl
    · exact simple_mkAction p
    · exact hbl
    · exact hph
    · exact simple_mkAction _
  | some c =>
    simp only [hpc, List.cons_append, List.nil_append, List.mem_cons, List.not_mem_nil, or_false] at ht
    rcases ht with rfl | rfl | rfl | rfl | rfl
    · exact simple_mkAction p
    · exact hbl
    · exact hph
    · exact simple_mkFix_char .text (Or.inl rfl) _ _
    · exact simple_mkAction _

/-! ### the last visible output character -/

open PlainItemL (pvOf pvAfter pstep pvOf_append pvOf_snoc)

/-- what the reference knows about the last visible output character is true -/
def PvRel (k : PvK) (pv : Option Char) : Prop := ∀ v, k = some v → pv = v

theorem PvRel.none {pv : Option Char} : PvRel none pv := fun _ h => nomatch h

theorem kText_blank : ∀ (s : Str) (k : PvK), s.all isSpace = true → kText k s = k
  | [], _, _ => rfl
  | c :: cs, k, h => by
    simp only [List.all_cons, Bool.and_eq_true] at h
    simp only [kText, List.foldl_cons, kChar, h.1, if_true]
    exact kText_blank cs k h.2

theorem PvRel.tok {k : PvK} {out : List Tok} {t : Tok} (hk : PvRel k (pvOf out))
    (hbc : isBlank t.txt = true ∨ ∃ c, t.txt = [c] ∧ isSpace c = false) :
    PvRel (kText k t.txt) (pvOf (out ++ [t])) := by
  rw [pvOf_snoc]
  rcases hbc with hb | ⟨c, hc, hs⟩
  · rw [kText_blank _ _ (by simpa [isBlank] using hb)]
    simpa [pstep, hb] using hk
  · intro v hv
    simp [kText, kChar, hc, hs] at hv
    subst hv
    simp [pstep, hc, isBlank, hs]

theorem pvAfter_blank (pv : Option Char) : ∀ h : List Tok, (∀ t ∈ h, isBlank t.txt = true) →
    pvAfter pv h = pv
  | [], _ => rfl
  | t :: ts, h => by
    have h1 := h t (List.mem_cons_self ..)
    simp only [pvAfter, List.foldl_cons, pstep, h1, if_true]
    exact pvAfter_blank pv ts (fun x hx => h x (List.mem_cons_of_mem _ hx))

theorem blank_of_marks {t : Tok} (hs : Simple t) (hm : (tokMarks t).all blankMark = true) :
    isBlank t.txt = true := by
  by_cases ha : isAction t = true
  · rw [hs.1 ha]; rfl
  · have ha' : isAction t = false := by simpa using ha
    rw [tokMarks_nonaction t ha', List.all_map] at hm
    rw [← all_tokChars]
    exact hm

theorem PvRel.marks {k : PvK} {out h : List Tok} (hk : PvRel k (pvOf out)) (hs : ∀ t ∈ h, Simple t) :
    PvRel (kMarks k (marksOf h)) (pvOf (out ++ h)) := by
  unfold kMarks
  split
  · rename_i hall
    rw [pvOf_append, pvAfter_blank]
    · exact hk
    · intro t ht
      refine blank_of_marks (hs t ht) ?_
      simp only [marksOf, List.all_flatMap, List.all_eq_true] at hall
      exact List.all_eq_true.mpr (hall t ht)
  · exact PvRel.none

theorem PvRel.action {k : PvK} {out : List Tok} (hk : PvRel k (pvOf out)) (p : Nat) :
    PvRel k (pvOf (out ++ [mkAction p])) := by
  rw [pvOf_snoc]
  simpa [pstep, mkAction, isBlank] using hk

theorem PvOk.nil (T : PTables) (out : List Tok) (st : PState) (l : Colls) : PvOk T out st l [] := by
  intro pre p sp b1 b2 lab pc suf e
  cases pre <;> simp at e

/-- what the pieces of a source mean, for a state and an environment that agree -/
structure Sem (T : PTables) (st : PState) (l : Colls) (env : Env) (k : PvK) (ps : List Piece)
    (items : List Item) : Prop where
  marks : marksOf (outP T st l ps) = refMarks T l env st.itemStack items
  simple : CollOk l (nMath ps) (nDisp ps) → ∀ t ∈ outP T st l ps, Simple t
  live : Live T st ps
  cost : cost st ps ≤ itemsLen items + refIns env items
  names : names st ps = refNames env items
  flows : charsOf ((flowsOf ps).map flowToks).flatten = refFlows items
  nmath : nMath ps = refNF items
  ndisp : nDisp ps = refND items
  pvok : ∀ out, PvRel k (pvOf out) → PvOk T out st l ps

theorem replOk_rotL {l : List Str} (h : ∀ r ∈ l, ReplOk r) : ∀ r ∈ rotL l, ReplOk r :=
  fun r hr => h r (PlainMath.mem_rotL l r hr)

theorem replOk_head {l : List Str} (h : ∀ r ∈ l, ReplOk r) : ReplOk (l.headD []) := by
  cases l with
  | nil => intro hn; simp [hasNl] at hn
  | cons a _ => exact h a (List.mem_cons_self ..)

theorem link_sem (T : PTables) (st1 : PState) {ps : List Piece} {items : List Item}
    (hl : Link T st1 ps items) :
    PiecesOk T st1 ps → ∀ (l : Colls) (st : PState) (env : Env) (k : PvK), StOk3 T st1 st → Rel st1 st env →
    BS st1 st → refOk env st.itemStack items = true → refPv T st.itemStack k items = true →
    Sem T st l env k ps items := by
  induction hl with
  | nil =>
    intro _ l st env k _ _ _ _ _
    exact ⟨rfl, fun _ => by simp [outP], trivial, by simp [cost], rfl, rfl, rfl, rfl,
      fun out _ => PvOk.nil T out st l⟩
  | tok t ps items hfix hshape hbc _ ih =>
    intro hok l st env k hst hrel hbs har hpv
    obtain ⟨hp, _, hrest⟩ := hok
    rw [refOk_chrItems] at har
    rw [refPv_chrItems] at hpv
    have I := ih hrest l st env (kText k t.txt) hst hrel hbs har hpv
    refine ⟨?_, ?_, ⟨trivial, I.live⟩, ?_, ?_, ?_, ?_, ?_, ?_⟩
    · simp only [outP]
      rw [marksOf_cons, tokMarks_nonaction _ hp.notAction, tokChars_nofix t hfix, refMarks_chrItems,
        I.marks]
    · intro hr x hx
      simp only [outP, List.mem_cons] at hx
      rcases hx with rfl | hx
      · exact simple_of_plain hp hshape
      · exact I.simple hr x hx
    · have := I.cost
      have h1 := List.length_pos_iff.mpr hshape.1
      simp only [cost, itemsLen_chrItems, refIns_chrItems]
      omega
    · simp only [names, nextSt, refNames_chrItems]
      exact I.names
    · simp only [flowsOf, refFlows_chrItems]
      exact I.flows
    · simp only [nMath, refNF_chrItems]
      exact I.nmath
    · simp only [nDisp, refND_chrItems]
      exact I.ndisp
    · exact fun out hk => PvOk.cons (fun _ => rfl) (by intros; simp) (I.pvok _ (PvRel.tok hk hbc))

  | fix pc ms len ps items hfx _ ih =>
    intro hok l st env k hst hrel hbs har hpv
    have hrest : PiecesOk T st1 ps := by
      cases pc <;> simp only [PiecesOk] at hok <;> first
        | exact hok.2 | exact hok.2.2 | exact hok.2.2.2 | exact hok.2.2.2.2 | exact hok.2.2.2.2.2
        | exact hok.2.2.2.2.2.2 | exact hok.2.2.2.2.2.2.2 | exact hok.2.2.2.2.2.2.2.2
        | exact hok.2.2.2.2.2.2.2.2.2 | exact hok.2.2.2.2.2.2.2.2.2.2
    simp only [refOk] at har
    simp only [refPv] at hpv
    have I := ih hrest l st env (kMarks k ms) hst hrel hbs har hpv
    obtain ⟨h, ho1, ho2, ho3⟩ := hfx.out
    obtain ⟨c, hc1, hc2⟩ := hfx.cost
    refine ⟨?_, ?_, ⟨hfx.live st, by rw [hfx.next]; exact I.live⟩, ?_, ?_, ?_, ?_, ?_, ?_⟩
    · rw [ho1, marksOf_append, ho2, I.marks]; rfl
    · intro hr x hx
      rw [ho1, List.mem_append] at hx
      rw [hfx.nmath, hfx.ndisp] at hr
      rcases hx with hx | hx
      · exact ho3 x hx
      · exact I.simple hr x hx
    · have := I.cost
      rw [hc1]
      simp only [itemsLen, refIns]
      omega
    · rw [hfx.names, hfx.next]
      simp only [refNames]
      exact I.names
    · rw [hfx.flows]
      simp only [refFlows]
      exact I.flows
    · rw [hfx.nmath]
      simp only [refNF]
      exact I.nmath
    · rw [hfx.ndisp]
      simp only [refND]
      exact I.ndisp
    · exact fun out hk => PvOk.cons (fun pre => ho1 st l pre) hfx.notL
        (I.pvok _ (by rw [← ho2]; exact PvRel.marks hk ho3))

  | cw p name sk len ps items hlen _ ih =>
    intro hok l st env k hst hrel hbs har hpv
    obtain ⟨hcw, _, _, hrest⟩ := hok
    simp only [refOk, Bool.and_eq_true] at har
    obtain ⟨har1, har2⟩ := har
    simp only [refPv] at hpv
    have I := ih hrest l (nextSt st (.cw p name sk)) env k (hst.of_eq rfl rfl rfl rfl rfl rfl rfl rfl rfl)
      (Rel.of_macros hrel rfl) (hbs.of_macros rfl) har2 hpv
    have hun : lookupMacro st1 ('\\' :: name) = none := hcw.undecl
    have hlive : lookupMacro st ('\\' :: name) = none := by
      have := hrel name hun
      cases hd : lookupDef env name with
      | none => rw [hd] at this; exact this
      | some nb => rw [hd] at har1; simp at har1
    refine ⟨?_, ?_, ⟨hlive, I.live⟩, ?_, ?_, ?_, ?_, ?_, ?_⟩
    · simp only [outP, refMarks]
      rw [marksOf_cons, tokMarks_mkAction, I.marks]; rfl
    · intro hr x hx
      simp only [outP, List.mem_cons] at hx
      rcases hx with rfl | hx
      · exact simple_mkAction p
      · exact I.simple hr x hx
    · have := I.cost
      simp only [cost, itemsLen, refIns]
      omega
    · simp only [names, refNames]
      rw [I.names]
    · simp only [flowsOf, refFlows]
      exact I.flows
    · simp only [nMath, refNF]
      exact I.nmath
    · simp only [nDisp, refND]
      exact I.ndisp
    · exact fun out hk => PvOk.cons (fun _ => rfl) (by intros; simp) (I.pvok _ (PvRel.action hk p))

  | math d1 b d2 m len ps items hm hlen _ ih =>
    intro hok l st env k hst hrel hbs har hpv
    obtain ⟨_, hany, hitems, _, hrest⟩ := hok
    simp only [refOk, Bool.and_eq_true, List.all_eq_true] at har
    obtain ⟨har1, har2⟩ := har
    simp only [refPv] at hpv
    have I := ih hrest (rotL l.1, l.2) st env none hst hrel hbs har2 hpv
    have hlive : ∀ t ∈ b, t.kind = .xmacro → lookupMacro st t.txt = none := by
      intro t ht hk
      have hun : lookupMacro st1 t.txt = none := by
        rcases hitems t ht with h | h | h | h | h | h
        · rw [h.kind] at hk; cases hk
        · rw [h] at hk; cases hk
        · exact h.undecl
        · rw [h.kind] at hk; cases hk
        · rw [h.kind] at hk; cases hk
        · rw [h.kind] at hk; cases hk
      cases hlk : lookupMacro st t.txt with
      | none => rfl
      | some mc =>
        exfalso
        obtain ⟨name, hname⟩ := hbs t.txt mc hun hlk
        have hmem : ({ pos := t.pos, txt := t.txt, sp := false } : MT) ∈ m := by
          rw [← hm]
          refine List.mem_flatMap.mpr ⟨t, ht, ?_⟩
          simp [PlainMathRich.mt, hk]
        have h1 := har1 _ hmem
        simp only [hname, liveTxt] at h1
        rw [hname] at hun hlk
        have := hrel name hun
        cases hd : lookupDef env name with
        | none => rw [hd] at this; rw [this] at hlk; cases hlk
        | some nb => rw [hd] at h1; simp at h1
    refine ⟨?_, ?_, ⟨hlive, I.live⟩, ?_, ?_, ?_, ?_, ?_, ?_⟩
    · simp only [outP, refMarks]
      rw [marksOf_append, marksOf_math T st _ _ b hany, hm, I.marks]
    · intro hr x hx
      simp only [outP, List.mem_append] at hx
      rcases hx with hx | hx
      · exact simple_fOut T _ _ _ (replOk_head (replOk_rotL (hr.1 (by simp [nMath])))) x hx
      · exact I.simple ⟨fun _ => replOk_rotL (hr.1 (by simp [nMath])), hr.2⟩ x hx
    · have := I.cost
      simp only [cost, itemsLen, refIns]
      omega
    · simp only [names, nextSt, refNames]
      exact I.names
    · simp only [flowsOf, refFlows]
      exact I.flows
    · simp only [nMath, refNF]
      rw [I.nmath]
    · simp only [nDisp, refND]
      exact I.ndisp
    · exact fun out hk => PvOk.cons (fun _ => rfl) (by intros; simp) (I.pvok _ PvRel.none)

  | foot fn lb b rb fl len ps items hfl hlen _ ih =>
    intro hok l st env k hst hrel hbs har hpv
    have hrest : PiecesOk T st1 ps := hok.2.2.2.2.2.2.2
    simp only [refOk] at har
    simp only [refPv] at hpv
    have I := ih hrest l (nextSt st (.foot fn lb b rb)) env k (hst.of_eq rfl rfl rfl rfl rfl rfl rfl rfl rfl)
      (Rel.of_macros hrel rfl) (hbs.of_macros rfl) har hpv
    refine ⟨?_, ?_, ⟨trivial, I.live⟩, ?_, ?_, ?_, ?_, ?_, ?_⟩
    · simp only [outP, refMarks]
      rw [marksOf_cons, tokMarks_mkAction, I.marks]; rfl
    · intro hr x hx
      simp only [outP, List.mem_cons] at hx
      rcases hx with rfl | hx
      · exact simple_mkAction _
      · exact I.simple hr x hx
    · have := I.cost
      simp only [cost, itemsLen, refIns]
      omega
    · simp only [names, refNames]
      exact I.names
    · simp only [flowsOf, refFlows, List.map_cons, List.flatten_cons, charsOf_append]
      rw [hfl, I.flows]
    · simp only [nMath, refNF]
      exact I.nmath
    · simp only [nDisp, refND]
      exact I.ndisp
    · exact fun out hk => PvOk.cons (fun _ => rfl) (by intros; simp) (I.pvok _ (PvRel.action hk fn.pos))

  | defn p q1 q2 q3 q4 q5 q6 q7 q8 name n body btoks ps items hb _ ih =>
    intro hok l st env k hst hrel hbs har hpv
    obtain ⟨_, hn, _, hgb, hrest⟩ := hok
    simp only [refOk] at har
    simp only [refPv] at hpv
    have I := ih hrest l (defSt st name n btoks) ((name, n, body) :: env) k (hst.defSt name n btoks hn hgb)
      (hrel.defSt name n body btoks hb) (hbs.defSt name n btoks) har hpv
    refine ⟨?_, ?_, ⟨trivial, I.live⟩, ?_, ?_, ?_, ?_, ?_, ?_⟩
    · simp only [outP, refMarks]
      rw [marksOf_cons, tokMarks_mkAction]
      show [none] ++ marksOf (outP T (defSt st name n btoks) l ps) = _
      rw [I.marks]; rfl
    · intro hr x hx
      simp only [outP, List.mem_cons] at hx
      rcases hx with rfl | hx
      · exact simple_mkAction p
      · exact I.simple hr x hx
    · have := I.cost
      simp only [cost, itemsLen, refIns]
      show 2 + PlainMix4.cost (defSt st name n btoks) ps ≤ _
      omega
    · simp only [names, refNames]
      exact I.names
    · simp only [flowsOf, refFlows]
      exact I.flows
    · simp only [nMath, refNF]
      exact I.nmath
    · simp only [nDisp, refND]
      exact I.ndisp
    · exact fun out hk => PvOk.cons (fun _ => rfl) (by intros; simp) (I.pvok _ (PvRel.action hk p))

  | ddef p q2 q q7 q8 name n body btoks ps items hb _ ih =>
    intro hok l st env k hst hrel hbs har hpv
    obtain ⟨hn, hgb, hrest⟩ := hok
    simp only [refOk] at har
    simp only [refPv] at hpv
    have I := ih hrest l (defSt st name n btoks) ((name, n, body) :: env) k (hst.defSt name n btoks hn hgb)
      (hrel.defSt name n body btoks hb) (hbs.defSt name n btoks) har hpv
    refine ⟨?_, ?_, ⟨trivial, I.live⟩, ?_, ?_, ?_, ?_, ?_, ?_⟩
    · simp only [outP, refMarks]
      rw [marksOf_cons, tokMarks_mkAction]
      show [none] ++ marksOf (outP T (defSt st name n btoks) l ps) = _
      rw [I.marks]; rfl
    · intro hr x hx
      simp only [outP, List.mem_cons] at hx
      rcases hx with rfl | hx
      · exact simple_mkAction p
      · exact I.simple hr x hx
    · have := I.cost
      simp only [cost, itemsLen, refIns]
      show 1 + PlainMix4.cost (defSt st name n btoks) ps ≤ _
      omega
    · simp only [names, refNames]
      exact I.names
    · simp only [flowsOf, refFlows]
      exact I.flows
    · simp only [nMath, refNF]
      exact I.nmath
    · simp only [nDisp, refND]
      exact I.ndisp
    · exact fun out hk => PvOk.cons (fun _ => rfl) (by intros; simp) (I.pvok _ (PvRel.action hk p))

  | call p q1 q2 name b fl len ps items hfl hlen _ ih =>
    intro hok l st env k hst hrel hbs har hpv
    have hrest : PiecesOk T st1 ps := hok.2.2.2.2.2
    simp only [refOk] at har
    simp only [refPv] at hpv
    have I := ih hrest l (nextSt st (.call p q1 q2 name b)) env k (hst.of_eq rfl rfl rfl rfl rfl rfl rfl rfl rfl)
      (Rel.of_macros hrel rfl) (hbs.of_macros rfl) har hpv
    refine ⟨?_, ?_, ⟨trivial, I.live⟩, ?_, ?_, ?_, ?_, ?_, ?_⟩
    · simp only [outP, refMarks]
      rw [marksOf_cons, tokMarks_mkAction, I.marks]; rfl
    · intro hr x hx
      simp only [outP, List.mem_cons] at hx
      rcases hx with rfl | hx
      · exact simple_mkAction _
      · exact I.simple hr x hx
    · have := I.cost
      simp only [cost, itemsLen, refIns]
      omega
    · simp only [names, refNames]
      exact I.names
    · simp only [flowsOf, refFlows, List.map_cons, List.flatten_cons, charsOf_append]
      rw [hfl, I.flows]
    · simp only [nMath, refNF]
      exact I.nmath
    · simp only [nDisp, refND]
      exact I.ndisp
    · exact fun out hk => PvOk.cons (fun _ => rfl) (by intros; simp) (I.pvok _ (PvRel.action hk p))
  | callO p b1 b2 q1 q2 name opt b fl len ps items hfl hlen _ ih =>
    intro hok l st env k hst hrel hbs har hpv
    have hrest : PiecesOk T st1 ps := hok.2.2.2.2.2.2
    simp only [refOk] at har
    simp only [refPv] at hpv
    have I := ih hrest l (nextSt st (.callO p b1 b2 q1 q2 name opt b)) env k
      (hst.of_eq rfl rfl rfl rfl rfl rfl rfl rfl rfl)
      (Rel.of_macros hrel rfl) (hbs.of_macros rfl) har hpv
    refine ⟨?_, ?_, ⟨trivial, I.live⟩, ?_, ?_, ?_, ?_, ?_, ?_⟩
    · simp only [outP, refMarks]
      rw [marksOf_cons, tokMarks_mkAction, I.marks]; rfl
    · intro hr x hx
      simp only [outP, List.mem_cons] at hx
      rcases hx with rfl | hx
      · exact simple_mkAction _
      · exact I.simple hr x hx
    · have := I.cost
      simp only [cost, itemsLen, refIns]
      omega
    · simp only [names, refNames]
      exact I.names
    · simp only [flowsOf, refFlows, List.map_cons, List.flatten_cons, charsOf_append]
      rw [hfl, I.flows]
    · simp only [nMath, refNF]
      exact I.nmath
    · simp only [nDisp, refND]
      exact I.ndisp
    · exact fun out hk => PvOk.cons (fun _ => rfl) (by intros; simp) (I.pvok _ (PvRel.action hk p))
  | use p name args gs ps items hne hgl _ ih =>
    intro hok l st env k hst hrel hbs har hpv
    obtain ⟨hn, _, hgg, hrest⟩ := hok
    simp only [refOk, Bool.and_eq_true, decide_eq_true_eq] at har
    obtain ⟨har1, har2⟩ := har
    have hus : (useSt st name).itemStack = st.itemStack := by
      unfold PlainMacroArgs.useSt; split <;> rfl
    simp only [refPv] at hpv
    have I := ih hrest l (useSt st name) env none (hst.useSt name) (hrel.useSt name) (hbs.useSt name)
      (by rw [hus]; exact har2) (by rw [hus]; exact hpv)
    have Im : marksOf (outP T (useSt st name) l ps) = refMarks T l env st.itemStack items := by
      have := I.marks
      rwa [hus] at this
    have hname := List.length_pos_iff.mpr hne
    have hR := hrel name hn.undecl
    have hlen := PlainMacroArgs.groupsLink_length hgl
    cases hbo : lookupDef env name with
    | none =>
      rw [hbo] at hR
      simp only [] at hR
      have e1 : useBody st p name gs = [] := by simp [useBody, hR]
      have e3 : useN st name = 0 := by simp [useN, hR]
      have e4 : defOf env name = (0, []) := by simp [defOf, hbo]
      obtain ⟨g1, g2, g3⟩ := PlainMacroArgs.groups_sem 0 hgl hgg
      refine ⟨?_, ?_, ⟨by show useN st name ≤ gs.length; rw [e3]; omega, I.live⟩, ?_, ?_, ?_, ?_, ?_, ?_⟩
      · simp only [outP, refMarks, e1, e3, e4, List.nil_append, bodyMarks]
        rw [marksOf_cons, tokMarks_mkAction, marksOf_append, g1]
        show [none] ++ (_ ++ marksOf (outP T (useSt st name) l ps)) = _
        rw [Im]; rfl
      · intro hr x hx
        simp only [outP, e1, e3, List.nil_append, List.mem_cons, List.mem_append] at hx
        rcases hx with rfl | hx | hx
        · exact simple_mkAction p
        · exact g3 x hx
        · exact I.simple hr x hx
      · have := I.cost
        simp only [cost, itemsLen, refIns, e1, e3, e4, List.length_nil, bodyInserted]
        show 2 + 0 + _ + PlainMix4.cost (useSt st name) ps ≤ _
        omega
      · simp only [names, refNames, hbo, hR, Option.isNone_none, if_true]
        show _ ++ PlainMix4.names (useSt st name) ps = _
        rw [I.names]
      · simp only [flowsOf, refFlows]
        exact I.flows
      · simp only [nMath, refNF]
        exact I.nmath
      · simp only [nDisp, refND]
        exact I.ndisp
      · exact fun out hk => PvOk.cons (hd := mkAction p :: (useBody st p name gs ++ groupsOut (gs.drop (useN st name))))
          (fun _ => by simp only [outP, nextSt, List.append_assoc, List.cons_append]) (by intros; simp) (I.pvok _ PvRel.none)
    | some nb =>
      obtain ⟨n, body⟩ := nb
      rw [hbo] at hR
      obtain ⟨bt, hlk, hbl⟩ := hR
      obtain ⟨n', bt', hm, hgb⟩ := hst.base.user _ _ hn.undecl hlk
      obtain ⟨rfl, rfl⟩ := PlainMacroArgs.userMacro_inj hm
      have e1 : useBody st p name gs
          = genOut ((gs.take n).map (·.toks)) bt (genCur ((gs.take n).map (·.toks)) bt p) := by
        simp [useBody, hlk, userMacro]
      have e3 : useN st name = n := by simp [useN, hlk, userMacro]
      have e4 : defOf env name = (n, body) := by simp [defOf, hbo]
      rw [e4] at har1
      simp only [] at har1
      obtain ⟨g1, g2, g3⟩ := PlainMacroArgs.groups_sem n hgl hgg
      obtain ⟨b1, b2, b3⟩ := PlainMacroArgs.body_sem _ _ n
        (PlainMacroArgs.argsSem_of_link hgl hgg n (by omega)) bt body hbl hgb.refs p
      rw [← e1] at b1 b2 b3
      refine ⟨?_, ?_, ⟨by show useN st name ≤ gs.length; rw [e3]; omega, I.live⟩, ?_, ?_, ?_, ?_, ?_, ?_⟩
      · simp only [outP, refMarks, e3, e4]
        rw [marksOf_cons, tokMarks_mkAction, marksOf_append, marksOf_append, b1, g1]
        show [none] ++ (_ ++ (_ ++ marksOf (outP T (useSt st name) l ps))) = _
        rw [Im]; rfl
      · intro hr x hx
        simp only [outP, e3, List.mem_cons, List.mem_append] at hx
        rcases hx with rfl | hx | hx | hx
        · exact simple_mkAction p
        · exact b3 x hx
        · exact g3 x hx
        · exact I.simple hr x hx
      · have := I.cost
        simp only [cost, itemsLen, refIns, e3, e4]
        show 2 + _ + _ + PlainMix4.cost (useSt st name) ps ≤ _
        omega
      · simp only [names, refNames, hbo, hlk, Option.isNone_some, Bool.false_eq_true, if_false,
          List.nil_append]
        show PlainMix4.names (useSt st name) ps = _
        exact I.names
      · simp only [flowsOf, refFlows]
        exact I.flows
      · simp only [nMath, refNF]
        exact I.nmath
      · simp only [nDisp, refND]
        exact I.ndisp
      · exact fun out hk => PvOk.cons (hd := mkAction p :: (useBody st p name gs ++ groupsOut (gs.drop (useN st name))))
          (fun _ => by simp only [outP, nextSt, List.append_assoc, List.cons_append]) (by intros; simp) (I.pvok _ PvRel.none)

  | disp ops d1 b d2 ms len ps items hms hlen _ ih =>
    intro hok l st env k hst hrel hbs har hpv
    have hrest : PiecesOk T st1 ps := hok.2.2.2.2.2.2.2
    simp only [refOk] at har
    simp only [refPv] at hpv
    have I := ih hrest (l.1, rotL l.2) st env none hst hrel hbs har hpv
    refine ⟨?_, ?_, ⟨trivial, I.live⟩, ?_, ?_, ?_, ?_, ?_, ?_⟩
    · simp only [outP, refMarks]
      rw [marksOf_append, hms, I.marks]
    · intro hr x hx
      simp only [outP, List.mem_append] at hx
      rcases hx with hx | hx
      · exact simple_dispOut T _ _ _ _ _ (replOk_head (replOk_rotL (hr.2 (by simp [nDisp])))) x hx
      · exact I.simple ⟨hr.1, fun _ => replOk_rotL (hr.2 (by simp [nDisp]))⟩ x hx
    · have := I.cost
      simp only [cost, itemsLen, refIns]
      omega
    · simp only [names, nextSt, refNames]
      exact I.names
    · simp only [flowsOf, refFlows]
      exact I.flows
    · simp only [nMath, refNF]
      exact I.nmath
    · simp only [nDisp, refND]
      rw [I.ndisp]
    · exact fun out hk => PvOk.cons (fun _ => rfl) (by intros; simp) (I.pvok _ PvRel.none)

  | beg p q1 q2 name nt ps items hb hlen _ ih =>
    intro hok l st env k hst hrel hbs har hpv
    obtain ⟨_, _, hrest⟩ := hok
    simp only [refOk, Bool.true_and] at har
    have heo : PlainItem.envOf st (bodyTxt nt) = PlainItem.envOf st1 name := by
      rw [hb]; simp [PlainItem.envOf, lookupEnv, hst.envs]
    have hstk : (nextSt st (.beg p q1 q2 nt)).itemStack = PlainItem.begStk st1 st.itemStack name := by
      rw [hb] at heo
      simp only [nextSt, PlainItem.begSt, PlainItem.begStk, PlainItem.styleOf, hb, heo]
    simp only [refPv] at hpv
    have I := ih hrest l (nextSt st (.beg p q1 q2 nt)) env
      (kMarks k (PlainItem.envMarks (PlainItem.envOf st1 name) p ++ [none])) (hst.of_eq rfl rfl rfl rfl rfl rfl rfl rfl rfl)
      (Rel.of_macros hrel rfl) (hbs.of_macros rfl) (by rw [hstk]; exact har) (by rw [hstk]; exact hpv)
    refine ⟨?_, ?_, ⟨trivial, I.live⟩, ?_, ?_, ?_, ?_, ?_, ?_⟩
    · simp only [outP, refMarks]
      rw [marksOf_cons, marksOf_cons, PlainItem.tokMarks_envOut, tokMarks_mkAction, I.marks, hstk, heo]
      simp
    · intro hr x hx
      simp only [outP, List.mem_cons] at hx
      rcases hx with rfl | rfl | hx
      · exact PlainItem.simple_envOut _ _
      · exact simple_mkAction p
      · exact I.simple hr x hx
    · have := I.cost
      simp only [cost, itemsLen, refIns]
      omega
    · simp only [names, refNames]
      exact I.names
    · simp only [flowsOf, refFlows]
      exact I.flows
    · simp only [nMath, refNF]
      exact I.nmath
    · simp only [nDisp, refND]
      exact I.ndisp
    · intro out hk
      have hm : marksOf [PlainItem.envOut (PlainItem.envOf st (bodyTxt nt)) p, mkAction p]
          = PlainItem.envMarks (PlainItem.envOf st1 name) p ++ [none] := by
        rw [marksOf_cons, marksOf_cons, PlainItem.tokMarks_envOut, tokMarks_mkAction, heo]; simp [marksOf]
      have hs : ∀ t ∈ [PlainItem.envOut (PlainItem.envOf st (bodyTxt nt)) p, mkAction p], Simple t := by
        intro t ht
        simp only [List.mem_cons, List.not_mem_nil, or_false] at ht
        rcases ht with rfl | rfl
        · exact PlainItem.simple_envOut _ _
        · exact simple_mkAction p
      have hr := PvRel.marks hk hs
      rw [hm] at hr
      exact PvOk.cons (fun _ => rfl) (by intros; simp) (I.pvok _ hr)

  | item p sp len ps items hlen _ ih =>
    intro hok l st env k hst hrel hbs har hpv
    obtain ⟨_, _, _, hrest⟩ := hok
    simp only [refOk, Bool.and_eq_true] at har
    obtain ⟨har1, har2⟩ := har
    have hlab : PlainItem.labelAt T st st.itemStack = true := by
      rw [labelAt_congr T hst.base.lang]; exact har1
    have hstk : (nextSt st (.item p sp)).itemStack = PlainItem.itemStk st.itemStack := by
      cases h : st.itemStack with
      | nil => simp only [nextSt, PlainItem.itemSt, h, PlainItem.itemStk]
      | cons g gs => simp only [nextSt, PlainItem.itemSt, h, PlainItem.itemStk]
    simp only [refPv] at hpv
    have I := ih hrest l (nextSt st (.item p sp)) env (kMarks k (itemMarks T p st.itemStack)) hst.itemSt
      (Rel.of_macros hrel (itemSt_fields st).2.1) (hbs.of_macros (itemSt_fields st).2.1)
      (by rw [hstk]; exact har2) (by rw [hstk]; exact hpv)
    refine ⟨?_, ?_, ⟨hlab, I.live⟩, ?_, ?_, ?_, ?_, ?_, ?_⟩
    · simp only [outP, refMarks, itemMarks]
      rw [marksOf_cons, marksOf_cons, marksOf_cons, marksOf_cons, tokMarks_mkAction,
        PlainItem.tokMarks_labTok, I.marks, hstk]
      have e : tokMarks (PlainItem.spTok p) = [some (' ', p)] := rfl
      simp [e]
    · intro hr x hx
      simp only [outP, List.mem_cons] at hx
      rcases hx with rfl | rfl | rfl | rfl | hx
      · exact simple_mkAction p
      · exact PlainItem.simple_spTok p
      · exact PlainItem.simple_labTok p _ (PlainItem.labelAt_hasNl hlab)
      · exact PlainItem.simple_spTok p
      · exact I.simple hr x hx
    · have := I.cost
      simp only [cost, itemsLen, refIns]
      omega
    · simp only [names, refNames]
      exact I.names
    · simp only [flowsOf, refFlows]
      exact I.flows
    · simp only [nMath, refNF]
      exact I.nmath
    · simp only [nDisp, refND]
      exact I.ndisp
    · intro out hk
      have hm : marksOf [mkAction p, PlainItem.spTok p, PlainItem.labTok p (PlainItem.labOf T st.itemStack),
            PlainItem.spTok p] = itemMarks T p st.itemStack := by
        rw [marksOf_cons, marksOf_cons, marksOf_cons, marksOf_cons, tokMarks_mkAction,
          PlainItem.tokMarks_labTok]
        have e : tokMarks (PlainItem.spTok p) = [some (' ', p)] := rfl
        simp [e, itemMarks, marksOf]
      have hs : ∀ t ∈ [mkAction p, PlainItem.spTok p, PlainItem.labTok p (PlainItem.labOf T st.itemStack),
            PlainItem.spTok p], Simple t := by
        intro t ht
        simp only [List.mem_cons, List.not_mem_nil, or_false] at ht
        rcases ht with rfl | rfl | rfl | rfl
        · exact simple_mkAction p
        · exact PlainItem.simple_spTok p
        · exact PlainItem.simple_labTok p _ (PlainItem.labelAt_hasNl hlab)
        · exact PlainItem.simple_spTok p
      have hr := PvRel.marks hk hs
      rw [hm] at hr
      exact PvOk.cons (fun _ => rfl) (by intros; simp) (I.pvok _ hr)

  | en p q1 q2 name nt ps items hb hlen _ ih =>
    intro hok l st env k hst hrel hbs har hpv
    obtain ⟨_, _, hrest⟩ := hok
    simp only [refOk, Bool.true_and] at har
    have heo : PlainItem.envOf st (bodyTxt nt) = PlainItem.envOf st1 name := by
      rw [hb]; simp [PlainItem.envOf, lookupEnv, hst.envs]
    have hstk : (nextSt st (.en p q1 q2 nt)).itemStack = PlainItem.endStk st.itemStack := by
      simp only [nextSt, PlainItem.endSt, PlainItem.endStk]
      split <;> rfl
    simp only [refPv] at hpv
    have I := ih hrest l (nextSt st (.en p q1 q2 nt)) env
      (kMarks k (PlainItem.envMarks (PlainItem.envOf st1 name) p)) hst.endSt
      (Rel.of_macros hrel (endSt_fields st).2.1) (hbs.of_macros (endSt_fields st).2.1)
      (by rw [hstk]; exact har) (by rw [hstk]; exact hpv)
    refine ⟨?_, ?_, ⟨trivial, I.live⟩, ?_, ?_, ?_, ?_, ?_, ?_⟩
    · simp only [outP, refMarks]
      rw [marksOf_cons, PlainItem.tokMarks_envOut, I.marks, hstk, heo]
    · intro hr x hx
      simp only [outP, List.mem_cons] at hx
      rcases hx with rfl | hx
      · exact PlainItem.simple_envOut _ _
      · exact I.simple hr x hx
    · have := I.cost
      simp only [cost, itemsLen, refIns]
      omega
    · simp only [names, refNames]
      exact I.names
    · simp only [flowsOf, refFlows]
      exact I.flows
    · simp only [nMath, refNF]
      exact I.nmath
    · simp only [nDisp, refND]
      exact I.ndisp
    · intro out hk
      have hm : marksOf [PlainItem.envOut (PlainItem.envOf st (bodyTxt nt)) p]
          = PlainItem.envMarks (PlainItem.envOf st1 name) p := by
        rw [marksOf_cons, PlainItem.tokMarks_envOut, heo]; simp [marksOf]
      have hs : ∀ t ∈ [PlainItem.envOut (PlainItem.envOf st (bodyTxt nt)) p], Simple t := by
        intro t ht
        simp only [List.mem_cons, List.not_mem_nil, or_false] at ht
        subst ht
        exact PlainItem.simple_envOut _ _
      have hr := PvRel.marks hk hs
      rw [hm] at hr
      exact PvOk.cons (fun _ => rfl) (by intros; simp) (I.pvok _ hr)

  | denv ops p q1 q2 nt b p' q1' q2' nt' ms len ps items hms hlen _ ih =>
    intro hok l st env k hst hrel hbs har hpv
    have hrest : PiecesOk T st1 ps := hok.2.2.2.2.2.2.2.2.2.2
    simp only [refOk] at har
    simp only [refPv] at hpv
    have I := ih hrest (l.1, rotL l.2) st env none hst hrel hbs har hpv
    refine ⟨?_, ?_, ⟨trivial, I.live⟩, ?_, ?_, ?_, ?_, ?_, ?_⟩
    · simp only [outP, refMarks]
      rw [← hms, ← I.marks]
      simp only [marksOf_cons, marksOf_append, List.append_assoc]
    · intro hr x hx
      simp only [outP, List.mem_cons, List.mem_append] at hx
      rcases hx with rfl | rfl | hx | hx
      · exact simple_mkAction p
      · exact simple_mkAction p
      · exact simple_dispOut T _ _ _ _ _ (replOk_head (replOk_rotL (hr.2 (by simp [nDisp])))) x hx
      · exact I.simple ⟨hr.1, fun _ => replOk_rotL (hr.2 (by simp [nDisp]))⟩ x hx
    · have := I.cost
      simp only [cost, itemsLen, refIns]
      omega
    · simp only [names, nextSt, refNames]
      exact I.names
    · simp only [flowsOf, refFlows]
      exact I.flows
    · simp only [nMath, refNF]
      exact I.nmath
    · simp only [nDisp, refND]
      rw [I.ndisp]
    · exact fun out hk => PvOk.cons (hd := mkAction p :: mkAction p :: PlainDisplay.dispOut T ((rotL l.2).headD []) p
          (PlainDisplay.elemPos T ops b) (PlainMath.firstPos (PlainMath.mathToks b)) (PlainMath.bodyTxt (PlainMath.mathToks b)))
        (fun _ => rfl) (by intros; simp) (I.pvok _ PvRel.none)
  | ubeg p q1 q2 name nt len ps items hb hlen _ ih =>
    intro hok l st env k hst hrel hbs har hpv
    obtain ⟨_, _, hrest⟩ := hok
    simp only [refOk] at har
    simp only [refPv] at hpv
    have I := ih hrest l (nextSt st (.ubeg p q1 q2 nt)) env k (hst.of_eq rfl rfl rfl rfl rfl rfl rfl rfl rfl)
      (Rel.of_macros hrel rfl) (hbs.of_macros rfl) har hpv
    refine ⟨?_, ?_, ⟨trivial, I.live⟩, ?_, ?_, ?_, ?_, ?_, ?_⟩
    · simp only [outP, refMarks]
      rw [marksOf_cons, tokMarks_mkAction, I.marks]; rfl
    · intro hr x hx
      simp only [outP, List.mem_cons] at hx
      rcases hx with rfl | hx
      · exact simple_mkAction p
      · exact I.simple hr x hx
    · have := I.cost
      simp only [cost, itemsLen, refIns]
      omega
    · simp only [names, refNames]
      rw [I.names, hb]
    · simp only [flowsOf, refFlows]
      exact I.flows
    · simp only [nMath, refNF]
      exact I.nmath
    · simp only [nDisp, refND]
      exact I.ndisp
    · exact fun out hk => PvOk.cons (fun _ => rfl) (by intros; simp) (I.pvok _ (PvRel.action hk p))
  | itemL p sp b1 b2 lab pc ms len label ps items hms hsim hpvl hlen _ ih =>
    intro hok l st env k hst hrel hbs har hpv
    obtain ⟨_, _, _, _, hrest⟩ := hok
    simp only [refOk] at har
    simp only [refPv, Bool.and_eq_true] at hpv
    obtain ⟨hpc, hpv2⟩ := hpv
    have I := ih hrest l st env (kItemL k label pc) hst hrel hbs har hpv2
    refine ⟨?_, ?_, ⟨trivial, I.live⟩, ?_, ?_, ?_, ?_, ?_, ?_⟩
    · simp only [outP, refMarks]
      rw [marksOf_append, hms, I.marks]
    · intro hr x hx
      simp only [outP, List.mem_append] at hx
      rcases hx with hx | hx
      · exact hsim x hx
      · exact I.simple hr x hx
    · have := I.cost
      simp only [cost, itemsLen, refIns]
      omega
    · simp only [names, nextSt, refNames]
      exact I.names
    · simp only [flowsOf, refFlows]
      exact I.flows
    · simp only [nMath, refNF]
      exact I.nmath
    · simp only [nDisp, refND]
      exact I.ndisp
    · intro out hk
      cases k with
      | none => simp [pcOk] at hpc
      | some v =>
        have hv : pvOf out = v := hk v rfl
        have hpc' : PlainItemL.punctOf T (pvOf out) = pc := by
          rw [hv]; simpa [pcOk] using hpc
        refine PvOk.consL hpc' (I.pvok _ ?_)
        intro w hw
        simp only [kItemL, Option.map_some, Option.some.injEq] at hw
        rw [pvOf_append, PlainItemL.pvAfter_itemLOut, hpvl, hv, hw]

end PlainMix4
end Yalafi
