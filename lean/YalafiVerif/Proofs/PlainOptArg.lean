/-
  Proofs/PlainOptArg.lean — C09 "`\renewcommand` (with parameter count and optional default)", C04, end to
  end on the model, for documents that consist of inert text, definitions WITH AN OPTIONAL FIRST
  PARAMETER `\kw{\name}[n][dflt]{body}` (`kw` = `newcommand`, `renewcommand`, … any keyword declared like
  `\newcommand`) and uses `\name[a1]{a2}…{am}` / `\name{a2}…{am}`.
  (Definitions without default value: Proofs/PlainMacroArgs.lean; the expander level of this file:
  Proofs/PlainOptArgExp.lean.)

  Documents
    `OSeg`, `orender`          text | `.defn kw name n dflt body ↦ \kw{\name}[n][dflt]{body}` |
                               `.use name opt args ↦ \name[a1]{a2}…` (`opt = some a1`) or `\name{a2}…`
    `osegsOk`, `oarityOk`, `OSegsOk`   all side conditions (computable)
  Reference output
    `Sp`, `spOf`, `dfltSp`, `firstSp`, `ostartCur`, `obodyMarks`, `osegMarks`, `osegUnknowns`;
    `PlainMacro.delLines`
  Scanner        `OkSrcO`, `OLink`, `scanSteps_opt`, `scan_opt`
  Meaning        `ORel`, `otail_sem`, `obody_sem`, `olink_sem`
  Lifts          `parserWork_opt`, `parse_opt`, `tex2txt_opt_src`, `tex2txt_renewcommand_default`

  The end-to-end statement (`tex2txt_renewcommand_default`).  `tex2txt` succeeds; text and (1-based)
  positions are `delLines (osegMarks [] 0 segs)`:
    * a text character is copied with its own position; a definition leaves one Action mark and comes
      into force BEHIND it (a redefinition — with `\renewcommand` or again with `\newcommand`, the model
      does not distinguish them — affects later uses only: the latest earlier definition counts);
    * a use of a name whose definition in force is `(n, dflt, body)`: one Action mark and the body in
      which `#1` is
        - the text of `a1`, every character with its own source position (inside the brackets), if the
          use has `[a1]`;
        - the DEFAULT `dflt`, EVERY CHARACTER AT THE POSITION OF THE BACKSLASH OF THE USE, if it has not
          (`collectArgs` stamps the default tokens with the position of the macro token and `fix`);
      `#k`, `k ≥ 2`, is the text of the (k-1)-th brace group with its own positions; a literal
      character of the body carries the position `cur` as in PlainMacroArgs (`generate_replacements`):
      the start of the argument referenced LAST in the body for the text in front of the first
      reference, the last token of the argument substituted before for the text behind a reference —
      for the default both are the backslash of the use; every substituted argument stands between two
      Action marks; the brace groups beyond the (n-1)-th are copied;
    * a use (without `[…]`) of a name that is not (yet) defined: an Action mark, all groups copied, the
      name goes to the unknowns list;
    * then `remove_pure_action_lines` (`delLines`); no diagnostic is added.

  Side conditions (all in `OSegsOk T st1 segs`, decidable; `st1` = state after `Parser.__init__`)
    `noEmptyActive T st1`      (Proofs/PlainUnknown.lean)
    text segments              `textOk`: inert in their right context
    definitions (`odefOk`)     the keyword `kw` is scanned as a control word (`cwOk` for the empty macro
                               table), is not `\def`, and is declared in `st1` like `\newcommand`
                               (`*AOOA`, handler `h_newcommand`; real tables: `newcommand`,
                               `renewcommand`); `\name`, the braces, `[`, the digit, `]` as in
                               PlainMacroArgs; `1 ≤ n ≤ 9` (with `n = 0` the handler reports "illegal
                               default value"); the second `[` and `]` are scanned as one-character text
                               tokens; `dflt` is not empty (an empty `[]` means "no default"), consists
                               of `inertChar`s and contains no `]`; body as in PlainMacroArgs
    uses (`ouseOk`)            the name as in PlainMacroArgs; `[a1]` directly behind the name: brackets
                               scanned as text tokens, `a1` non-empty, inert, without `]`; the groups as
                               in PlainMacroArgs; a use without `[a1]` has at least one group (so that no
                               white space behind the name is involved)
    `oarityOk [] segs`         every use has at least `n - 1` groups; only a DEFINED name is followed by
                               `[a1]` (behind an undefined name `[a1]` would be copied as text)
    options                    no --defs, --extr, --repl, --unkn; single-language mode
    fuel                       `|orender segs| + osegInserted [] 0 segs + 6 ≤ fuel`

  NOT covered: definitions without default in the same document (PlainMacroArgs; the two classes are
  not merged); `n = 0` with default (LaTeX error), empty default `[]`; `]`, braces, macros in defaults and
  optional arguments; `\renewcommand*`; white space between the name and `[`/`{`; a use of a name with
  default that is followed by neither `[` nor `{`; what PlainMacroArgs does not cover either.
-/
import YalafiVerif.Proofs.PlainOptArgExp
namespace Yalafi
namespace PlainOptArg

open M
open PlainMacro (lbr rbr NoBrace restamp braceAt Shape bodyTxt Mark tokChars tokMarks marksOf charsOf
  delLines hasNl_single inertChar_facts takeWhile_append_stop1 nextToken_brace scanSteps_step
  NameOk nameOk_of_cwFacts ncDeclOk)
open PlainMacroArgs (BP bodyStr argsStr argsLen argSpans spanEnd lastTokStart groupMarks argMarks txtAt bpOk
  argsOk RunFacts scanSteps_run normBody tailStr bodyStr_norm TailOk normBody_ok TailLink BodyLink
  scanSteps_body BodyRun ArgFacts GroupsLink argFacts_of_run argsStr_length ArgsRun scanSteps_args
  nextToken_txt txtAt_structural digit_ne_rbr groupsLink_ne groupsLink_get groupsLink_length groups_sem
  marksOf_plain genOut_plain_run genCur_plain_run mem_groupsFlat charsOf_cons' bodyTxt_of_chars
  argAt headPos lastPos genCur genOut RefsOk Group groupsFlat GroupOk txtTok groupsOut GroupGood digitChar
  BodyTok GoodBody DigitOk)

/-! ### the documents -/

/-- a segment of the source: a run of text, a definition `\kw{\name}[n][dflt]{body}`, a use
    `\name[a1]{a2}…{am}` (`opt = some a1`) or `\name{a2}…{am}` (`opt = none`) -/
inductive OSeg where
  | txt (s : Str)
  | defn (kw name : Str) (n : Nat) (dflt : Str) (body : List BP)
  | use (name : Str) (opt : Option Str) (args : List Str)
deriving Repr, DecidableEq

/-- `[a1]` -/
def optStr : Option Str → Str
  | none => []
  | some a => '[' :: (a ++ [']'])

def optLen : Option Str → Nat
  | none => 0
  | some a => a.length + 2

def OSeg.render : OSeg → Str
  | .txt s => s
  | .defn kw name n dflt body =>
    '\\' :: (kw ++ '{' :: '\\' :: (name ++ '}' :: '[' :: digitChar n :: ']' :: '[' ::
      (dflt ++ ']' :: '{' :: (bodyStr body ++ ['}']))))
  | .use name opt args => '\\' :: (name ++ (optStr opt ++ argsStr args))

/-- the source text -/
def orender : List OSeg → Str
  | [] => []
  | s :: rest => s.render ++ orender rest

/-- source length of a definition -/
def defLen (kw name dflt : Str) (body : List BP) : Nat :=
  kw.length + name.length + dflt.length + (bodyStr body).length + 11

/-! ### the reference output -/

/-- an actual argument in the output: its characters with their positions, the position of its first
    and of its last token -/
abbrev Sp := List (Char × Nat) × Nat × Nat

/-- an argument that stands in the source: every character at its own position -/
def spOf (sp : Nat × Str) : Sp := (posText sp.1 sp.2, sp.1, spanEnd sp)

/-- the default value, substituted by a use at position `p`: every character at `p` -/
def dfltSp (p : Nat) (d : Str) : Sp := (d.map (fun c => (c, p)), p, p)

/-- the first actual argument of a use at `p` whose name ends in front of position `q` -/
def firstSp (p q : Nat) (dflt : Str) : Option Str → Sp
  | none => dfltSp p dflt
  | some a => spOf (q + 1, a)

def spAt (spans : List Sp) (k : Nat) : Sp := (spans[k - 1]?).getD ([], 0, 0)

def oargMarks (sp : Sp) : List Mark := none :: (sp.1.map some ++ [none])

/-- where the literal text in front of the first `#k` goes -/
def ostartCur (spans : List Sp) : Nat → List BP → Nat
  | cur, [] => cur
  | cur, .lit _ :: rest => ostartCur spans cur rest
  | _, .par k :: rest => ostartCur spans (spAt spans k).2.1 rest

/-- the expansion of a body -/
def obodyMarks (spans : List Sp) : Nat → List BP → List Mark
  | _, [] => []
  | cur, .lit s :: rest => s.map (fun c => some (c, cur)) ++ obodyMarks spans cur rest
  | _, .par k :: rest => oargMarks (spAt spans k) ++ obodyMarks spans (spAt spans k).2.2 rest

/-- the definitions in force: name, number of parameters, default value, body; latest first -/
abbrev OEnv := List (Str × Nat × Str × List BP)

def olookup (env : OEnv) (name : Str) : Option (Nat × Str × List BP) :=
  (env.find? (·.1 == name)).map (·.2)

/-- the latest definition of `name`; `(0, [], [])` if there is none -/
def odefOf (env : OEnv) (name : Str) : Nat × Str × List BP := (olookup env name).getD (0, [], [])

/-- the actual arguments of the use `\name[a1]{a2}…` / `\name{a2}…` at position `p` -/
def useSpans (env : OEnv) (p : Nat) (name : Str) (opt : Option Str) (args : List Str) : List Sp :=
  firstSp p (p + name.length + 1) (odefOf env name).2.1 opt
    :: (argSpans (p + name.length + 1 + optLen opt) args).map spOf

/-- the marks of a document that starts at position `p`, `env` being the definitions in force -/
def osegMarks : OEnv → Nat → List OSeg → List Mark
  | _, _, [] => []
  | env, p, .txt s :: rest => (posText p s).map some ++ osegMarks env (p + s.length) rest
  | env, p, .defn kw name n dflt body :: rest =>
    none :: osegMarks ((name, n, dflt, body) :: env) (p + defLen kw name dflt body) rest
  | env, p, .use name opt args :: rest =>
    none :: (obodyMarks (useSpans env p name opt args)
              (ostartCur (useSpans env p name opt args) p (odefOf env name).2.2) (odefOf env name).2.2
      ++ (groupMarks ((argSpans (p + name.length + 1 + optLen opt) args).drop ((odefOf env name).1 - 1))
      ++ osegMarks env (p + (name.length + 1 + optLen opt + argsLen args)) rest))

/-- the names (with backslash) used while undefined -/
def osegUnknowns : OEnv → List OSeg → List Str
  | _, [] => []
  | env, .txt _ :: rest => osegUnknowns env rest
  | env, .defn _ name n dflt body :: rest => osegUnknowns ((name, n, dflt, body) :: env) rest
  | env, .use name _ _ :: rest =>
    (if (olookup env name).isNone then [('\\' :: name)] else []) ++ osegUnknowns env rest

/-- tokens inserted by a body (upper bound) -/
def obodyInserted (spans : List Sp) : List BP → Nat
  | [] => 0
  | .lit s :: rest => s.length + obodyInserted spans rest
  | .par k :: rest => (spAt spans k).1.length + 2 + obodyInserted spans rest

def osegInserted : OEnv → Nat → List OSeg → Nat
  | _, _, [] => 0
  | env, p, .txt s :: rest => osegInserted env (p + s.length) rest
  | env, p, .defn kw name n dflt body :: rest =>
    osegInserted ((name, n, dflt, body) :: env) (p + defLen kw name dflt body) rest
  | env, p, .use name opt args :: rest =>
    obodyInserted (useSpans env p name opt args) (odefOf env name).2.2
      + osegInserted env (p + (name.length + 1 + optLen opt + argsLen args)) rest

/-- every use has at least `n - 1` groups; only a defined name is followed by `[a1]` -/
def oarityOk : OEnv → List OSeg → Bool
  | _, [] => true
  | env, .txt _ :: rest => oarityOk env rest
  | env, .defn _ name n dflt body :: rest => oarityOk ((name, n, dflt, body) :: env) rest
  | env, .use name opt args :: rest =>
    decide ((odefOf env name).1 - 1 ≤ args.length) && ((olookup env name).isSome || opt.isNone)
      && oarityOk env rest

/-! ### the side conditions -/

/-- the text of a default value / an optional argument: not empty, inert, no `]` -/
def runOk (T : PTables) (st : PState) (a : Str) : Bool :=
  !a.isEmpty && a.all (inertChar T st) && a.all (· != ']')

/-- the keyword is declared like `\newcommand` -/
def kwDeclOk (st : PState) (kw : Str) : Bool :=
  match lookupMacro st ('\\' :: kw) with
  | some m => ncDeclOk m
  | none => false

/-- `\kw{\name}[n][dflt]{body}`, followed by `R` -/
def odefOk (T : PTables) (st : PState) (kw name : Str) (n : Nat) (dflt : Str) (body : List BP) (R : Str) :
    Bool :=
  cwOk T ({ macros := [] } : PState) kw
    ('{' :: '\\' :: (name ++ '}' :: '[' :: digitChar n :: ']' :: '[' :: (dflt ++ ']' :: '{' ::
      (bodyStr body ++ '}' :: R)))) &&
  kwDeclOk st kw &&
  braceAt T '{' ('\\' :: (name ++ '}' :: '[' :: digitChar n :: ']' :: '[' :: (dflt ++ ']' :: '{' ::
    (bodyStr body ++ '}' :: R)))) &&
  cwOk T st name ('}' :: '[' :: digitChar n :: ']' :: '[' :: (dflt ++ ']' :: '{' :: (bodyStr body ++ '}' :: R))) &&
  !st.newcommandIgnore.contains ('\\' :: name) &&
  braceAt T '}' ('[' :: digitChar n :: ']' :: '[' :: (dflt ++ ']' :: '{' :: (bodyStr body ++ '}' :: R))) &&
  txtAt T '[' (digitChar n :: ']' :: '[' :: (dflt ++ ']' :: '{' :: (bodyStr body ++ '}' :: R))) &&
  txtAt T (digitChar n) (']' :: '[' :: (dflt ++ ']' :: '{' :: (bodyStr body ++ '}' :: R))) &&
  txtAt T ']' ('[' :: (dflt ++ ']' :: '{' :: (bodyStr body ++ '}' :: R))) &&
  decide (1 ≤ n) && decide (n ≤ 9) && decimalValue T.toTables.decimalZeros (digitChar n) == some n &&
  !(activeChars T st).contains [digitChar n] &&
  txtAt T '[' (dflt ++ ']' :: '{' :: (bodyStr body ++ '}' :: R)) &&
  runOk T st dflt &&
  txtAt T ']' ('{' :: (bodyStr body ++ '}' :: R)) &&
  braceAt T '{' (bodyStr body ++ '}' :: R) &&
  !(bodyStr body).isEmpty && body.all (bpOk T st n) &&
  braceAt T '}' R

/-- `[a1]`, followed by `R` -/
def optOk (T : PTables) (st : PState) : Option Str → Str → Bool
  | none, _ => true
  | some a, R => txtAt T '[' (a ++ ']' :: R) && runOk T st a && txtAt T ']' R

/-- `\name[a1]{a2}…{am}` / `\name{a2}…{am}`, followed by `R` -/
def ouseOk (T : PTables) (st : PState) (name : Str) (opt : Option Str) (args : List Str) (R : Str) : Bool :=
  cwOk T st name (optStr opt ++ (argsStr args ++ R)) && !st.newcommandIgnore.contains ('\\' :: name) &&
  optOk T st opt (argsStr args ++ R) && (opt.isSome || !args.isEmpty) && argsOk T st args R

def osegsOk (T : PTables) (st : PState) : List OSeg → Bool
  | [] => true
  | .txt s :: rest => textOk T st s (orender rest) && osegsOk T st rest
  | .defn kw name n dflt body :: rest => odefOk T st kw name n dflt body (orender rest) && osegsOk T st rest
  | .use name opt args :: rest => ouseOk T st name opt args (orender rest) && osegsOk T st rest

/-! ### items and well-formed sources -/

inductive OItem where
  | chr (c : Char) (p : Nat)
  | defn (p : Nat) (kw name : Str) (n : Nat) (dflt : Str) (body : List BP)
  | use (p : Nat) (name : Str) (opt : Option Str) (args : List Str)

def ochrItems : Nat → Str → List OItem
  | _, [] => []
  | p, c :: cs => .chr c p :: ochrItems (p + 1) cs

def oitemsOf : Nat → List OSeg → List OItem
  | _, [] => []
  | p, .txt s :: rest => ochrItems p s ++ oitemsOf (p + s.length) rest
  | p, .defn kw name n dflt body :: rest =>
    .defn p kw name n dflt body :: oitemsOf (p + defLen kw name dflt body) rest
  | p, .use name opt args :: rest =>
    .use p name opt args :: oitemsOf (p + (name.length + 1 + optLen opt + argsLen args)) rest

inductive OkSrcO (T : PTables) (st : PState) : Nat → Str → List OItem → Prop
  | nil (p : Nat) : OkSrcO T st p [] []
  | chr (p : Nat) (c : Char) (cs : Str) (items : List OItem) :
      okAt T st c cs = true → OkSrcO T st (p + 1) cs items →
      OkSrcO T st p (c :: cs) (.chr c p :: items)
  | defn (p : Nat) (kw name : Str) (n : Nat) (dflt : Str) (body : List BP) (R : Str) (items : List OItem) :
      odefOk T st kw name n dflt body R = true →
      OkSrcO T st (p + defLen kw name dflt body) R items →
      OkSrcO T st p ('\\' :: (kw ++ '{' :: '\\' :: (name ++ '}' :: '[' :: digitChar n :: ']' :: '[' ::
          (dflt ++ ']' :: '{' :: (bodyStr body ++ '}' :: R)))))
        (.defn p kw name n dflt body :: items)
  | use (p : Nat) (name : Str) (opt : Option Str) (args : List Str) (R : Str) (items : List OItem) :
      ouseOk T st name opt args R = true →
      OkSrcO T st (p + (name.length + 1 + optLen opt + argsLen args)) R items →
      OkSrcO T st p ('\\' :: (name ++ (optStr opt ++ (argsStr args ++ R)))) (.use p name opt args :: items)

theorem OkSrcO_text (T : PTables) (st : PState) (R : Str) (items : List OItem) :
    ∀ (s : Str) (p : Nat), OkSrcO T st (p + s.length) R items → textOk T st s R = true →
      OkSrcO T st p (s ++ R) (ochrItems p s ++ items)
  | [], _, hR, _ => hR
  | c :: cs, p, hR, h => by
    simp only [textOk, Bool.and_eq_true] at h
    have hR' : OkSrcO T st (p + 1 + cs.length) R items := by
      have e : p + 1 + cs.length = p + (c :: cs).length := by simp; omega
      rw [e]; exact hR
    exact OkSrcO.chr p c (cs ++ R) _ h.1 (OkSrcO_text T st R items cs (p + 1) hR' h.2)

theorem OkSrcO_of_segsOk (T : PTables) (st : PState) :
    ∀ (segs : List OSeg) (p : Nat), osegsOk T st segs = true →
      OkSrcO T st p (orender segs) (oitemsOf p segs)
  | [], p, _ => .nil p
  | .txt s :: rest, p, h => by
    simp only [osegsOk, Bool.and_eq_true] at h
    exact OkSrcO_text T st _ _ s p (OkSrcO_of_segsOk T st rest _ h.2) h.1
  | .defn kw name n dflt body :: rest, p, h => by
    simp only [osegsOk, Bool.and_eq_true] at h
    have := OkSrcO.defn p kw name n dflt body (orender rest) _ h.1 (OkSrcO_of_segsOk T st rest _ h.2)
    simpa [orender, OSeg.render, oitemsOf] using this
  | .use name opt args :: rest, p, h => by
    simp only [osegsOk, Bool.and_eq_true] at h
    have := OkSrcO.use p name opt args (orender rest) _ h.1 (OkSrcO_of_segsOk T st rest _ h.2)
    simpa [orender, OSeg.render, oitemsOf] using this

/-- white space in front can be dropped -/
theorem OkSrcO_drop_space (T : PTables) (st : PState) :
    ∀ (k : Nat) (p : Nat) (s : Str) (items : List OItem), k ≤ s.length → OkSrcO T st p s items →
      (∀ x ∈ s.take k, isSpace x = true) →
      ∃ items', items = ochrItems p (s.take k) ++ items' ∧ OkSrcO T st (p + k) (s.drop k) items'
  | 0, _, _, items, _, h, _ => ⟨items, rfl, h⟩
  | k + 1, _, [], _, hk, _, _ => by simp at hk
  | k + 1, p, c :: cs, _, hk, h, hsp => by
    have hc : isSpace c = true := hsp c (by simp)
    cases h with
    | chr _ _ _ items0 _ h2 =>
      obtain ⟨items', e, h3⟩ := OkSrcO_drop_space T st k (p + 1) cs items0 (by simpa using hk) h2
        (fun x hx => hsp x (by simp [hx]))
      refine ⟨items', by simp [ochrItems, e], ?_⟩
      have e : p + (k + 1) = p + 1 + k := by omega
      rw [e]; exact h3
    | defn _ kw name n dflt body R _ _ _ => exact absurd hc (by decide)
    | use _ name opt args R _ _ _ => exact absurd hc (by decide)

/-! ### pieces and items -/

/-- the tokens `dt` spell the default value `dflt` -/
def DLink (dt : List Tok) (dflt : Str) : Prop := (∀ u ∈ dt, PlainTok u ∧ Shape u) ∧ bodyTxt dt = dflt

/-- the optional argument of a use whose name ends in front of position `q` -/
def OptLink (q : Nat) : Opt → Option Str → Prop
  | none, none => True
  | some o, some a => o.1 = q ∧ o.2.2 = q + 1 + a.length ∧ ArgFacts (q + 1) a o.2.1
  | _, _ => False

inductive OLink : List OPiece → List OItem → Prop
  | nil : OLink [] []
  | tok (t : Tok) (ps : List OPiece) (items : List OItem) :
      t.fix = false → Shape t → OLink ps items → OLink (.tok t :: ps) (ochrItems t.pos t.txt ++ items)
  | defn (p q1 q2 q3 q4 q5 q6 r1 r2 q7 q8 : Nat) (kw name : Str) (n : Nat) (dflt : Str) (body : List BP)
      (dt btoks : List Tok) (ps : List OPiece) (items : List OItem) :
      DLink dt dflt → BodyLink btoks (normBody body) → OLink ps items →
      OLink (.defn kw p q1 q2 q3 q4 q5 q6 r1 r2 q7 q8 name n dt btoks :: ps)
        (.defn p kw name n dflt body :: items)
  | use (p : Nat) (name : Str) (opt : Opt) (a : Option Str) (args : List Str) (gs : List Group)
      (ps : List OPiece) (items : List OItem) :
      name ≠ [] → OptLink (p + name.length + 1) opt a →
      GroupsLink (p + name.length + 1 + optLen a) gs args → OLink ps items →
      OLink (.use p name opt gs :: ps) (.use p name a args :: items)

/-- what the scanner loop yields on a well-formed source -/
structure OScanFacts (T : PTables) (st : PState) (rest : Str) (items : List OItem)
    (steps : List ScanStep) : Prop where
  ok : ∀ s ∈ steps, s.diag = none ∧ s.extra = []
  pieces : ∃ ps, steps.map (·.tok) = oflat ps ∧ OPiecesOk T st ps ∧ OLink ps items
  first : ∀ s ss, steps = s :: ss → s.tok.txt = firstTokTxtM rest
  len : steps.length ≤ rest.length

theorem OScanFacts_nil (T : PTables) (st : PState) : OScanFacts T st [] [] [] :=
  ⟨by simp, ⟨[], rfl, trivial, .nil⟩, by simp, by simp⟩

structure RunOkFacts (T : PTables) (st : PState) (a : Str) : Prop where
  ne : a ≠ []
  inert : ∀ c ∈ a, inertChar T st c = true
  nbr : ∀ c ∈ a, c ≠ ']'

theorem runOkFacts {T : PTables} {st : PState} {a : Str} (h : runOk T st a = true) : RunOkFacts T st a := by
  simp only [runOk, Bool.and_eq_true, Bool.not_eq_true', List.all_eq_true, bne_iff_ne, ne_eq] at h
  exact ⟨by simpa using h.1.1, h.1.2, h.2⟩

/-- the tokens of a run of inert characters without `]` -/
theorem goodRun_of_run {T : PTables} {st : PState} {q : Nat} {a : Str} {steps : List ScanStep}
    (B : RunFacts T st q a steps) (A : RunOkFacts T st a) : GoodRun T st (steps.map (·.tok)) := by
  refine ⟨by simpa using B.ne A.ne, ?_⟩
  intro t ht
  obtain ⟨y, hy, rfl⟩ := List.mem_map.mp ht
  refine ⟨(B.ok y hy).2.2.1, (B.ok y hy).2.2.2.1, ?_⟩
  intro e
  -- the character `]` would occur in the text
  have hc : ∀ cp ∈ charsOf (steps.map (·.tok)), cp.1 ∈ a := by
    rw [B.chars]
    intro cp hcp
    have := List.mem_map_of_mem (f := (·.1)) hcp
    rw [posText_fst] at this
    exact this
  have h1 : (tokChars y.tok).map (·.1) = [']'] := by rw [PlainMacro.tokChars_fst, e]
  have h2 : ∃ cp ∈ tokChars y.tok, cp.1 = ']' := by
    cases htc : tokChars y.tok with
    | nil => rw [htc] at h1; simp at h1
    | cons cp l =>
      rw [htc] at h1
      simp only [List.map_cons, List.cons.injEq] at h1
      exact ⟨cp, List.mem_cons_self .., h1.1⟩
  obtain ⟨cp, hcp, hcp1⟩ := h2
  have : cp ∈ charsOf (steps.map (·.tok)) := by
    simp only [charsOf, List.mem_flatMap]
    exact ⟨y.tok, List.mem_map_of_mem hy, hcp⟩
  exact A.nbr _ (hc cp this) hcp1

structure ODefFacts (T : PTables) (st : PState) (kw name : Str) (n : Nat) (dflt : Str) (body : List BP)
    (R : Str) : Prop where
  kwc : CwFacts T ({ macros := [] } : PState) kw
    ('{' :: '\\' :: (name ++ '}' :: '[' :: digitChar n :: ']' :: '[' :: (dflt ++ ']' :: '{' ::
      (bodyStr body ++ '}' :: R))))
  kwDecl : kwDeclOk st kw = true
  b1 : braceAt T '{' ('\\' :: (name ++ '}' :: '[' :: digitChar n :: ']' :: '[' :: (dflt ++ ']' :: '{' ::
    (bodyStr body ++ '}' :: R)))) = true
  cw : CwFacts T st name ('}' :: '[' :: digitChar n :: ']' :: '[' :: (dflt ++ ']' :: '{' ::
    (bodyStr body ++ '}' :: R)))
  ign : st.newcommandIgnore.contains ('\\' :: name) = false
  b2 : braceAt T '}' ('[' :: digitChar n :: ']' :: '[' :: (dflt ++ ']' :: '{' :: (bodyStr body ++ '}' :: R))) = true
  t1 : txtAt T '[' (digitChar n :: ']' :: '[' :: (dflt ++ ']' :: '{' :: (bodyStr body ++ '}' :: R))) = true
  t2 : txtAt T (digitChar n) (']' :: '[' :: (dflt ++ ']' :: '{' :: (bodyStr body ++ '}' :: R))) = true
  t3 : txtAt T ']' ('[' :: (dflt ++ ']' :: '{' :: (bodyStr body ++ '}' :: R))) = true
  n1 : 1 ≤ n
  n9 : n ≤ 9
  dv : decimalValue T.toTables.decimalZeros (digitChar n) = some n
  nAct : (activeChars T st).contains [digitChar n] = false
  t4 : txtAt T '[' (dflt ++ ']' :: '{' :: (bodyStr body ++ '}' :: R)) = true
  run : RunOkFacts T st dflt
  t5 : txtAt T ']' ('{' :: (bodyStr body ++ '}' :: R)) = true
  b3 : braceAt T '{' (bodyStr body ++ '}' :: R) = true
  bne : bodyStr body ≠ []
  bok : body.all (bpOk T st n) = true
  b4 : braceAt T '}' R = true

theorem odefFacts {T : PTables} {st : PState} {kw name : Str} {n : Nat} {dflt : Str} {body : List BP} {R : Str}
    (h : odefOk T st kw name n dflt body R = true) : ODefFacts T st kw name n dflt body R := by
  simp only [odefOk, Bool.and_eq_true, Bool.not_eq_true', decide_eq_true_eq, beq_iff_eq] at h
  obtain ⟨⟨⟨⟨⟨⟨⟨⟨⟨⟨⟨⟨⟨⟨⟨⟨⟨⟨⟨h1, h2⟩, h3⟩, h4⟩, h5⟩, h6⟩, h7⟩, h8⟩, h9⟩, h10⟩, h11⟩, h12⟩, h13⟩, h14⟩, h15⟩,
    h16⟩, h17⟩, h18⟩, h19⟩, h20⟩ := h
  exact ⟨cwFacts h1, h2, h3, cwFacts h4, h5, h6, h7, h8, h9, h10, h11, h12, h13, h14, runOkFacts h15, h16,
    h17, by simpa using h18, h19, h20⟩

theorem ODefFacts.digit {T : PTables} {st : PState} {kw name : Str} {n : Nat} {dflt : Str} {body : List BP}
    {R : Str} (D : ODefFacts T st kw name n dflt body R) : DigitOk T st n :=
  ⟨D.dv, digit_ne_rbr n D.n9,
   fun p => plainTok_of_head (txtTok p (digitChar n)) (digitChar n) [] rfl (Or.inl rfl) (txtAt_structural D.t2),
   D.nAct⟩

theorem ODefFacts.kwOk {T : PTables} {st : PState} {kw name : Str} {n : Nat} {dflt : Str} {body : List BP}
    {R : Str} (D : ODefFacts T st kw name n dflt body R) : KwOk st kw := by
  refine ⟨D.kwc.nDef, ?_⟩
  have := D.kwDecl
  unfold kwDeclOk at this
  split at this
  · exact ⟨_, ‹_›, this⟩
  · cases this

structure OUseFacts (T : PTables) (st : PState) (name : Str) (opt : Option Str) (args : List Str) (R : Str) :
    Prop where
  cw : CwFacts T st name (optStr opt ++ (argsStr args ++ R))
  ign : st.newcommandIgnore.contains ('\\' :: name) = false
  optc : optOk T st opt (argsStr args ++ R) = true
  ne : opt = none → args ≠ []
  args : argsOk T st args R = true

theorem ouseFacts {T : PTables} {st : PState} {name : Str} {opt : Option Str} {args : List Str} {R : Str}
    (h : ouseOk T st name opt args R = true) : OUseFacts T st name opt args R := by
  simp only [ouseOk, Bool.and_eq_true, Bool.not_eq_true', Bool.or_eq_true] at h
  obtain ⟨⟨⟨⟨h1, h2⟩, h3⟩, h4⟩, h5⟩ := h
  refine ⟨cwFacts h1, h2, h3, ?_, h5⟩
  intro ho
  rcases h4 with h4 | h4
  · rw [ho] at h4; cases h4
  · simpa using h4

theorem first_cw (name R : Str) (pos : Nat) (htw : (name ++ R).takeWhile macroChar = name) :
    (cwTok pos name).txt = firstTokTxtM ('\\' :: (name ++ R)) := by
  simp [firstTokTxtM, cwTok, htw, show isSpace '\\' = false by decide]

theorem optLink_none (q : Nat) : OptLink q none none := trivial

/-- the scanner loop on a well-formed source -/
theorem scanSteps_opt (T : PTables) (st : PState) (src : Str) :
    ∀ (n fuel pos : Nat) (rest : Str) (items : List OItem),
    rest.length ≤ n → rest.length ≤ fuel → OkSrcO T st pos rest items →
    (scanSteps T.toTables src fuel pos rest).2 = true ∧
    OScanFacts T st rest items (scanSteps T.toTables src fuel pos rest).1 := by
  intro n
  induction n with
  | zero =>
    intro fuel pos rest items hn _ hok
    cases rest with
    | nil => cases hok; exact ⟨by simp [scanSteps], by simpa [scanSteps] using OScanFacts_nil T st⟩
    | cons c cs => simp at hn
  | succ n ih =>
    intro fuel pos rest items hn hf hok
    cases rest with
    | nil => cases hok; exact ⟨by simp [scanSteps], by simpa [scanSteps] using OScanFacts_nil T st⟩
    | cons c cs =>
      obtain ⟨fuel, rfl⟩ : ∃ f, fuel = f + 1 := ⟨fuel - 1, by simp at hf; omega⟩
      have hok0 := hok
      cases hok with
      | chr _ _ _ items' hat hsub0 =>
        have hsnd := okAt_snd hat
        obtain ⟨hp, hone⟩ := nextToken_text T src pos c cs hsnd
        generalize hs : nextToken T.toTables src pos (c :: cs) = s at hp hone
        have h1 := hp.len_pos
        have h2 := hp.len_le
        have hsub : ∃ items1, OItem.chr c pos :: items' = ochrItems pos ((c :: cs).take s.len) ++ items1 ∧
            OkSrcO T st (pos + s.len) ((c :: cs).drop s.len) items1 := by
          by_cases hsp : isSpace c = true
          · refine OkSrcO_drop_space T st s.len pos (c :: cs) _ h2 hok0 ?_
            intro x hx
            rw [← hp.txt, hp.first] at hx
            simp only [firstTokTxt, hsp, if_true] at hx
            exact mem_takeWhile_imp _ _ _ hx
          · have := (hone (by simpa using hsp)).1
            rw [this]
            exact ⟨items', rfl, hsub0⟩
        obtain ⟨items1, hitems1, hsub⟩ := hsub
        rw [scanSteps_step T.toTables src fuel pos c cs s hs (by omega)]
        have hl : ((c :: cs).drop s.len).length ≤ fuel := by
          simp only [List.length_drop]; simp only [List.length_cons] at hf h2 ⊢; omega
        have hl' : ((c :: cs).drop s.len).length ≤ n := by
          simp only [List.length_drop]; simp only [List.length_cons] at hn h2 ⊢; omega
        obtain ⟨i1, I⟩ := ih fuel (pos + s.len) ((c :: cs).drop s.len) items1 hl' hl hsub
        obtain ⟨ps', hflat, hpok, hlink⟩ := I.pieces
        have hne : s.tok.txt ≠ [] := by
          rw [hp.txt]
          intro h0
          have := congrArg List.length h0
          simp only [List.length_take, List.length_nil] at this
          omega
        refine ⟨i1, ?_, ?_, ?_, ?_⟩
        · intro x hx
          rcases List.mem_cons.mp hx with rfl | hx
          · exact ⟨hp.diag, hp.extra⟩
          · exact I.ok x hx
        · refine ⟨.tok s.tok :: ps', by simp [oflat, OPiece.toks, hflat], ⟨hp.tok, ?_, hpok⟩, ?_⟩
          · -- the short-macro branch
            rw [← hflat]
            have hact := hat
            simp only [okAt, Bool.and_eq_true, Bool.or_eq_true, Bool.not_eq_true'] at hact
            rcases hact.1 with hna | ⟨hns, hk⟩
            · left
              have : s.tok.txt = c :: (cs.take (s.len - 1)) := by
                rw [hp.txt]
                obtain ⟨k, hk⟩ : ∃ k, s.len = k + 1 := ⟨s.len - 1, by omega⟩
                rw [hk]; simp
              rw [this]
              exact not_active_cons T st c _ hna
            · right
              have hlen := (hone hns).1
              have htxt : s.tok.txt = [c] := by rw [hp.txt, hlen]; rfl
              have i4 := I.first
              rw [hlen] at i4 ⊢
              simp only [List.drop_succ_cons, List.drop_zero] at i4 ⊢
              cases hr : (scanSteps T.toTables src fuel (pos + 1) cs).1 with
              | nil => rfl
              | cons s2 ss =>
                simp only [List.map_cons]
                apply expandShortMacro_none
                rw [htxt, i4 s2 ss hr]
                rcases hk with hk | hk
                · cases cs with
                  | nil => cases fuel <;> simp [scanSteps] at hr
                  | cons => simp at hk
                · simpa using hk
          · rw [hitems1, ← hp.txt, ← hp.pos]
            refine .tok s.tok ps' items1 hp.fix ⟨hne, ?_⟩ hlink
            intro hnl
            by_cases hsp : isSpace c = true
            · rw [hp.first]
              simp only [firstTokTxt, hsp, if_true, isBlank, List.all_eq_true]
              exact fun x hx => mem_takeWhile_imp _ _ _ hx
            · have hsp' : isSpace c = false := by simpa using hsp
              have := (hone hsp').1
              rw [hp.txt, this] at hnl
              simp only [List.take_succ_cons, List.take_zero] at hnl
              rw [hasNl_single c hsp'] at hnl; cases hnl
        · intro s' ss' he
          simp only [List.cons.injEq] at he
          rw [← he.1, hp.first]
          refine (firstTokTxtM_of_text c cs ?_).symm
          rcases hsnd with h | h
          · exact Or.inl h
          · exact Or.inr h.1
        · have := I.len
          simp only [List.length_cons, List.length_drop] at this h2 ⊢
          omega
      | defn _ kw name nn dflt body R items' hd hsub =>
        have D := odefFacts hd
        have hbl : (bodyStr body).length = ((normBody body).1 ++ tailStr (normBody body).2).length := by
          rw [← bodyStr_norm]
        simp only [List.length_cons, List.length_append] at hf hn
        obtain ⟨g, hg⟩ : ∃ g, fuel = g + 7 := ⟨fuel - 7, by omega⟩
        -- the eight tokens in front of the default value
        have hn1 := nextToken_cw T _ src pos kw _ D.kwc
        have hn2 := nextToken_brace T src (pos + (kw.length + 1)) '{' _ (Or.inl rfl) D.b1
        have hn3 := nextToken_cw T st src (pos + (kw.length + 1) + 1) name _ D.cw
        have hn4 := nextToken_brace T src (pos + (kw.length + 1) + 1 + (name.length + 1)) '}' _ (Or.inr rfl) D.b2
        have hn5 := nextToken_txt T src (pos + (kw.length + 1) + 1 + (name.length + 1) + 1) '[' _ D.t1
        have hn6 := nextToken_txt T src (pos + (kw.length + 1) + 1 + (name.length + 1) + 1 + 1) (digitChar nn) _ D.t2
        have hn7 := nextToken_txt T src (pos + (kw.length + 1) + 1 + (name.length + 1) + 1 + 1 + 1) ']' _ D.t3
        have hn8 := nextToken_txt T src (pos + (kw.length + 1) + 1 + (name.length + 1) + 1 + 1 + 1 + 1) '[' _ D.t4
        -- the default value
        obtain ⟨dsteps, Dr, hdrun⟩ := scanSteps_run T st src ']' ('{' :: (bodyStr body ++ '}' :: R)) (by decide)
          dflt.length dflt (pos + (kw.length + 1) + 1 + (name.length + 1) + 1 + 1 + 1 + 1 + 1) g
          (Nat.le_refl _) (by omega) D.run.inert
        have hDl := Dr.len
        obtain ⟨g1, hg1⟩ : ∃ g1, g - dsteps.length = g1 + 2 := ⟨g - dsteps.length - 2, by omega⟩
        have hn9 := nextToken_txt T src
          (pos + (kw.length + 1) + 1 + (name.length + 1) + 1 + 1 + 1 + 1 + 1 + dflt.length) ']' _ D.t5
        have hn10 := nextToken_brace T src
          (pos + (kw.length + 1) + 1 + (name.length + 1) + 1 + 1 + 1 + 1 + 1 + dflt.length + 1) '{' _
          (Or.inl rfl) D.b3
        obtain ⟨hb1, hb2⟩ := normBody_ok T st nn body D.bok
        obtain ⟨bsteps, B, hrun⟩ := scanSteps_body T st src nn R (normBody body)
          (pos + (kw.length + 1) + 1 + (name.length + 1) + 1 + 1 + 1 + 1 + 1 + dflt.length + 1 + 1) g1
          (by omega) hb1 hb2
        rw [← bodyStr_norm] at hrun
        have hBl := B.len
        obtain ⟨g', hg'⟩ : ∃ g', g1 - bsteps.length = g' + 1 := ⟨g1 - bsteps.length - 1, by omega⟩
        have hn11 := nextToken_brace T src
          (pos + (kw.length + 1) + 1 + (name.length + 1) + 1 + 1 + 1 + 1 + 1 + dflt.length + 1 + 1
            + (bodyStr body).length) '}' R (Or.inr rfl) D.b4
        have hpos : pos + (kw.length + 1) + 1 + (name.length + 1) + 1 + 1 + 1 + 1 + 1 + dflt.length + 1 + 1
              + (bodyStr body).length + 1
            = pos + defLen kw name dflt body := by unfold defLen; omega
        obtain ⟨i1, I⟩ := ih g' (pos + defLen kw name dflt body) R items'
          (by unfold defLen at *; omega) (by omega) hsub
        obtain ⟨ps', hflat, hpok, hlink⟩ := I.pieces
        have hd1 : ('\\' :: (kw ++ '{' :: '\\' :: (name ++ '}' :: '[' :: digitChar nn :: ']' :: '[' ::
              (dflt ++ ']' :: '{' :: (bodyStr body ++ '}' :: R))))).drop (kw.length + 1)
            = '{' :: '\\' :: (name ++ '}' :: '[' :: digitChar nn :: ']' :: '[' ::
              (dflt ++ ']' :: '{' :: (bodyStr body ++ '}' :: R))) := by simp
        have hd3 : ('\\' :: (name ++ '}' :: '[' :: digitChar nn :: ']' :: '[' ::
              (dflt ++ ']' :: '{' :: (bodyStr body ++ '}' :: R)))).drop (name.length + 1)
            = '}' :: '[' :: digitChar nn :: ']' :: '[' :: (dflt ++ ']' :: '{' :: (bodyStr body ++ '}' :: R)) := by
          simp
        have hsteps : scanSteps T.toTables src (fuel + 1) pos
              ('\\' :: (kw ++ '{' :: '\\' :: (name ++ '}' :: '[' :: digitChar nn :: ']' :: '[' ::
                (dflt ++ ']' :: '{' :: (bodyStr body ++ '}' :: R)))))
            = ({ tok := cwTok pos kw, len := kw.length + 1 } ::
               { tok := { kind := .special, pos := pos + (kw.length + 1), txt := ['{'] }, len := 1 } ::
               { tok := cwTok (pos + (kw.length + 1) + 1) name, len := name.length + 1 } ::
               { tok := { kind := .special, pos := pos + (kw.length + 1) + 1 + (name.length + 1), txt := ['}'] },
                 len := 1 } ::
               { tok := txtTok (pos + (kw.length + 1) + 1 + (name.length + 1) + 1) '[', len := 1 } ::
               { tok := txtTok (pos + (kw.length + 1) + 1 + (name.length + 1) + 1 + 1) (digitChar nn), len := 1 } ::
               { tok := txtTok (pos + (kw.length + 1) + 1 + (name.length + 1) + 1 + 1 + 1) ']', len := 1 } ::
               { tok := txtTok (pos + (kw.length + 1) + 1 + (name.length + 1) + 1 + 1 + 1 + 1) '[', len := 1 } ::
               (dsteps ++
                 { tok := txtTok (pos + (kw.length + 1) + 1 + (name.length + 1) + 1 + 1 + 1 + 1 + 1 + dflt.length)
                     ']', len := 1 } ::
                 { tok := { kind := .special,
                            pos := pos + (kw.length + 1) + 1 + (name.length + 1) + 1 + 1 + 1 + 1 + 1
                              + dflt.length + 1,
                            txt := ['{'] }, len := 1 } ::
                 (bsteps ++
                   { tok := { kind := .special,
                              pos := pos + (kw.length + 1) + 1 + (name.length + 1) + 1 + 1 + 1 + 1 + 1
                                + dflt.length + 1 + 1 + (bodyStr body).length,
                              txt := ['}'] }, len := 1 } ::
                   (scanSteps T.toTables src g' (pos + defLen kw name dflt body) R).1)),
               (scanSteps T.toTables src g' (pos + defLen kw name dflt body) R).2) := by
          rw [hg, scanSteps_step T.toTables src (g + 7) pos _ _ _ hn1 (by simp), hd1]
          simp only []
          rw [scanSteps_step T.toTables src (g + 6) _ _ _ _ hn2 (by simp)]
          simp only [List.drop_succ_cons, List.drop_zero]
          rw [scanSteps_step T.toTables src (g + 5) _ _ _ _ hn3 (by simp), hd3]
          simp only []
          rw [scanSteps_step T.toTables src (g + 4) _ _ _ _ hn4 (by simp)]
          simp only [List.drop_succ_cons, List.drop_zero]
          rw [scanSteps_step T.toTables src (g + 3) _ _ _ _ hn5 (by simp)]
          simp only [List.drop_succ_cons, List.drop_zero]
          rw [scanSteps_step T.toTables src (g + 2) _ _ _ _ hn6 (by simp)]
          simp only [List.drop_succ_cons, List.drop_zero]
          rw [scanSteps_step T.toTables src (g + 1) _ _ _ _ hn7 (by simp)]
          simp only [List.drop_succ_cons, List.drop_zero]
          rw [scanSteps_step T.toTables src g _ _ _ _ hn8 (by simp)]
          simp only [List.drop_succ_cons, List.drop_zero]
          rw [hdrun, hg1, scanSteps_step T.toTables src (g1 + 1) _ _ _ _ hn9 (by simp)]
          simp only [List.drop_succ_cons, List.drop_zero]
          rw [scanSteps_step T.toTables src g1 _ _ _ _ hn10 (by simp)]
          simp only [List.drop_succ_cons, List.drop_zero]
          rw [hrun, hg', scanSteps_step T.toTables src g' _ _ _ _ hn11 (by simp)]
          simp only [List.drop_succ_cons, List.drop_zero, hpos]
        rw [hsteps]
        refine ⟨i1, ?_, ?_, ?_, ?_⟩
        · intro x hx
          simp only [List.mem_cons, List.mem_append] at hx
          rcases hx with rfl | rfl | rfl | rfl | rfl | rfl | rfl | rfl | hx | rfl | rfl | hx | rfl | hx
          · exact ⟨rfl, rfl⟩
          · exact ⟨rfl, rfl⟩
          · exact ⟨rfl, rfl⟩
          · exact ⟨rfl, rfl⟩
          · exact ⟨rfl, rfl⟩
          · exact ⟨rfl, rfl⟩
          · exact ⟨rfl, rfl⟩
          · exact ⟨rfl, rfl⟩
          · exact ⟨(Dr.ok x hx).1, (Dr.ok x hx).2.1⟩
          · exact ⟨rfl, rfl⟩
          · exact ⟨rfl, rfl⟩
          · exact B.ok x hx
          · exact ⟨rfl, rfl⟩
          · exact I.ok x hx
        · refine ⟨.defn kw pos (pos + (kw.length + 1)) (pos + (kw.length + 1) + 1)
              (pos + (kw.length + 1) + 1 + (name.length + 1))
              (pos + (kw.length + 1) + 1 + (name.length + 1) + 1)
              (pos + (kw.length + 1) + 1 + (name.length + 1) + 1 + 1)
              (pos + (kw.length + 1) + 1 + (name.length + 1) + 1 + 1 + 1)
              (pos + (kw.length + 1) + 1 + (name.length + 1) + 1 + 1 + 1 + 1)
              (pos + (kw.length + 1) + 1 + (name.length + 1) + 1 + 1 + 1 + 1 + 1 + dflt.length)
              (pos + (kw.length + 1) + 1 + (name.length + 1) + 1 + 1 + 1 + 1 + 1 + dflt.length + 1)
              (pos + (kw.length + 1) + 1 + (name.length + 1) + 1 + 1 + 1 + 1 + 1 + dflt.length + 1 + 1
                + (bodyStr body).length) name nn
              (dsteps.map (·.tok)) (bsteps.map (·.tok)) :: ps',
            ?_, ⟨D.kwOk, nameOk_of_cwFacts D.cw D.ign, D.digit, D.n1, goodRun_of_run Dr D.run, ⟨?_, ?_⟩, hpok⟩, ?_⟩
          · simp [oflat, OPiece.toks, hflat, lbr, rbr]
          · have := B.ne (by rw [← bodyStr_norm]; exact D.bne)
            simpa using this
          · intro t ht
            obtain ⟨x, hx, rfl⟩ := List.mem_map.mp ht
            exact B.toks x hx
          · refine .defn _ _ _ _ _ _ _ _ _ _ _ kw name nn dflt body _ _ ps' items' ⟨?_, ?_⟩ B.link hlink
            · intro u hu
              obtain ⟨y, hy, rfl⟩ := List.mem_map.mp hu
              exact ⟨(Dr.ok y hy).2.2.1, (Dr.ok y hy).2.2.2.2⟩
            · exact bodyTxt_of_chars _ _ _ Dr.chars
        · intro s' ss' he
          simp only [List.cons.injEq] at he
          rw [← he.1]
          exact first_cw kw _ pos D.kwc.tw
        · have := I.len
          simp only [List.length_cons, List.length_append] at this ⊢
          omega
      | use _ name opt args R items' hu hsub =>
        have U := ouseFacts hu
        have hn1 := nextToken_cw T st src pos name _ U.cw
        have hd1 : ('\\' :: (name ++ (optStr opt ++ (argsStr args ++ R)))).drop (name.length + 1)
            = optStr opt ++ (argsStr args ++ R) := by simp
        have hne := List.length_pos_iff.mpr U.cw.ne
        have hfirst := first_cw name (optStr opt ++ (argsStr args ++ R)) pos U.cw.tw
        simp only [List.length_cons, List.length_append, argsStr_length] at hf hn
        rw [scanSteps_step T.toTables src fuel pos _ _ _ hn1 (by simp), hd1]
        simp only []
        cases opt with
        | none =>
          simp only [optStr, optLen, List.nil_append, List.length_nil, Nat.add_zero, Nat.zero_add] at hf hn hsub ⊢
          obtain ⟨asteps, A, hrun⟩ := scanSteps_args T st src R args (pos + (name.length + 1)) fuel
            (by omega) U.args
          have hAl := A.len
          have hpos : pos + (name.length + 1) + argsLen args = pos + (name.length + 1 + argsLen args) := by omega
          obtain ⟨i1, I⟩ := ih (fuel - asteps.length) (pos + (name.length + 1 + argsLen args)) R items'
            (by omega) (by omega) hsub
          obtain ⟨ps', hflat, hpok, hlink⟩ := I.pieces
          obtain ⟨gs, hgs1, hgs2, hgs3⟩ := A.gs
          rw [hrun, hpos]
          refine ⟨i1, ?_, ?_, ?_, ?_⟩
          · intro x hx
            simp only [List.mem_cons, List.mem_append] at hx
            rcases hx with rfl | hx | hx
            · exact ⟨rfl, rfl⟩
            · exact A.ok x hx
            · exact I.ok x hx
          · have e : pos + (name.length + 1) = pos + name.length + 1 + optLen none := by
              simp only [optLen]; omega
            refine ⟨.use pos name none gs :: ps', by simp [oflat, OPiece.toks, optFlat, hflat, hgs1],
              ⟨nameOk_of_cwFacts U.cw U.ign, (fun o ho => nomatch ho),
                (fun _ => groupsLink_ne hgs3 (U.ne rfl)), hgs2, hpok⟩, ?_⟩
            exact .use pos name none none args gs ps' items' U.cw.ne trivial (by rw [← e]; exact hgs3) hlink
          · intro s' ss' he
            simp only [List.cons.injEq] at he
            rw [← he.1]; exact hfirst
          · have := I.len
            simp only [List.length_cons, List.length_append, argsStr_length] at this ⊢
            omega
        | some a =>
          have hO := U.optc
          simp only [optOk, Bool.and_eq_true] at hO
          obtain ⟨⟨ho1, ho2⟩, ho3⟩ := hO
          have RA := runOkFacts ho2
          simp only [optStr, optLen, List.cons_append, List.append_assoc, List.length_cons, List.length_append,
            List.length_nil, List.nil_append] at hf hn hsub ⊢
          obtain ⟨f, rfl⟩ : ∃ f, fuel = f + 1 := ⟨fuel - 1, by omega⟩
          have hb1 := nextToken_txt T src (pos + (name.length + 1)) '[' _ ho1
          obtain ⟨osteps, Or, horun⟩ := scanSteps_run T st src ']' (argsStr args ++ R) (by decide)
            a.length a (pos + (name.length + 1) + 1) f (Nat.le_refl _) (by omega) RA.inert
          have hOl := Or.len
          obtain ⟨f1, hf1⟩ : ∃ f1, f - osteps.length = f1 + 1 := ⟨f - osteps.length - 1, by omega⟩
          have hb2 := nextToken_txt T src (pos + (name.length + 1) + 1 + a.length) ']' _ ho3
          obtain ⟨asteps, A, hrun⟩ := scanSteps_args T st src R args
            (pos + (name.length + 1) + 1 + a.length + 1) f1 (by omega) U.args
          have hAl := A.len
          have hpos : pos + (name.length + 1) + 1 + a.length + 1 + argsLen args
              = pos + (name.length + 1 + (a.length + 2) + argsLen args) := by omega
          obtain ⟨i1, I⟩ := ih (f1 - asteps.length) (pos + (name.length + 1 + (a.length + 2) + argsLen args))
            R items' (by omega) (by omega) hsub
          obtain ⟨ps', hflat, hpok, hlink⟩ := I.pieces
          obtain ⟨gs, hgs1, hgs2, hgs3⟩ := A.gs
          rw [scanSteps_step T.toTables src f _ _ _ _ hb1 (by simp)]
          simp only [List.drop_succ_cons, List.drop_zero]
          rw [horun, hf1, scanSteps_step T.toTables src f1 _ _ _ _ hb2 (by simp)]
          simp only [List.drop_succ_cons, List.drop_zero]
          rw [hrun, hpos]
          refine ⟨i1, ?_, ?_, ?_, ?_⟩
          · intro x hx
            simp only [List.mem_cons, List.mem_append] at hx
            rcases hx with rfl | rfl | hx | rfl | hx | hx
            · exact ⟨rfl, rfl⟩
            · exact ⟨rfl, rfl⟩
            · exact ⟨(Or.ok x hx).1, (Or.ok x hx).2.1⟩
            · exact ⟨rfl, rfl⟩
            · exact A.ok x hx
            · exact I.ok x hx
          · have e : pos + (name.length + 1) + 1 + a.length + 1 = pos + name.length + 1 + optLen (some a) := by
              simp only [optLen]; omega
            refine ⟨.use pos name (some (pos + (name.length + 1), osteps.map (·.tok),
                  pos + (name.length + 1) + 1 + a.length)) gs :: ps',
              by simp [oflat, OPiece.toks, optFlat, hflat, hgs1],
              ⟨nameOk_of_cwFacts U.cw U.ign, ?_, (fun ho => nomatch ho), hgs2, hpok⟩, ?_⟩
            · intro o ho
              cases ho
              exact goodRun_of_run Or RA
            · refine .use pos name _ (some a) args gs ps' items' U.cw.ne ⟨?_, ?_, ?_⟩
                (by rw [← e]; exact hgs3) hlink
              · simp only []; omega
              · simp only []; omega
              · have := argFacts_of_run Or RA.ne
                have e2 : pos + name.length + 1 + 1 = pos + (name.length + 1) + 1 := by omega
                rw [e2]; exact this
          · intro s' ss' he
            simp only [List.cons.injEq] at he
            rw [← he.1]; simpa [optStr] using hfirst
          · have := I.len
            simp only [List.length_cons, List.length_append, argsStr_length] at this ⊢
            omega

end PlainOptArg
end Yalafi
