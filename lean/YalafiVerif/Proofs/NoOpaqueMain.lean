/-
  Proofs/NoOpaqueMain.lean — the induction on fuel for the NoOpaque bundle, and `initParser`, `parse`, `tex2txt`:
  under `TOk T` (no opaque module, no opaque handler in the tables) the filter model never ends in
  `.crash "opaque module (not modelled)"` or `.crash "opaque handler (not modelled)"`.
-/
import YalafiVerif.Proofs.NoOpaqueStep
import YalafiVerif.Proofs.NoOpaqueHandler
set_option linter.unusedVariables false
namespace Yalafi
namespace NoOpaque
open M

variable {T : PTables}

theorem allGood_zero : AllGood T 0 := by
  refine { seq := ?_, text := ?_, envName := ?_, begin_ := ?_, end_ := ?_, macro_ := ?_, args := ?_, item := ?_, accent := ?_, work := ?_, init := ?_, modParams := ?_, keyvals := ?_, value := ?_, expandKv := ?_, modDesc := ?_, handler := ?_, mathSec := ?_, inline := ?_, dispLoop := ?_, display := ?_ }
  · intros; rw [expandSequence.eq_1]; exact Good_outOfFuel
  · intros; rw [getTextExpanded.eq_1]; exact Good_outOfFuel
  · intros; rw [getEnvironmentName.eq_1]; exact Good_outOfFuel
  · intros; rw [beginEnvironment.eq_1]; exact Good_outOfFuel
  · intros; rw [endEnvironment.eq_1]; exact Good_outOfFuel
  · intros; rw [expandMacro.eq_1]; exact Good_outOfFuel
  · intros; rw [expandArguments.eq_1]; exact Good_outOfFuel
  · intros; rw [expandItem.eq_1]; exact Good_outOfFuel
  · intros; rw [expandAccent.eq_1]; exact Good_outOfFuel
  · intros; rw [parserWork.eq_1]; exact Good_outOfFuel
  · intros; rw [initPackage.eq_1]; exact Good_outOfFuel
  · intros; rw [modifyParameters.eq_1]; exact Good_outOfFuel
  · intros; rw [parseKeyvals.eq_1]; exact Good_outOfFuel
  · intros; rw [parseValue.eq_1]; exact Good_outOfFuel
  · intros; rw [expandKeyvals.eq_1]; exact Good_outOfFuel
  · intros; rw [modifyDescription.eq_1]; exact Good_outOfFuel
  · intros; rw [callHandler.eq_1]; exact Good_outOfFuel
  · intros; rw [expandMathSection.eq_1]; exact Good_outOfFuel
  · intros; rw [expandInlineMath.eq_1]; exact Good_outOfFuel
  · intros; rw [displayLoop.eq_1]; exact Good_outOfFuel
  · intros; rw [expandDisplayMath.eq_1]; exact Good_outOfFuel

/-- the bundle, for every fuel -/
theorem allGood (hT : TOk T) : ∀ fuel, AllGood T fuel := by
  intro fuel
  induction fuel with
  | zero => exact allGood_zero
  | succ fuel IH =>
    exact {
      seq := seq_step fuel IH,
      text := text_step fuel IH,
      envName := envName_step fuel IH,
      begin_ := begin_step fuel IH,
      end_ := end_step fuel IH,
      macro_ := macro_step fuel IH,
      args := args_step fuel IH,
      item := item_step fuel IH,
      accent := accent_step fuel IH,
      work := work_step fuel IH,
      init := init_step hT fuel IH,
      modParams := modParams_step fuel IH,
      keyvals := keyvals_step fuel IH,
      value := value_step fuel IH,
      expandKv := expandKv_step fuel IH,
      modDesc := modDesc_step fuel IH,
      handler := handler_step hT fuel IH,
      mathSec := mathSec_step fuel IH,
      inline := inline_step fuel IH,
      dispLoop := dispLoop_step fuel IH,
      display := display_step fuel IH }

/-! ### `Parser.__init__`, `Parser.parse`, `tex2txt` -/

theorem initialState_StOk (o : Options) (multi : Bool) (fs : FS) : StOk (initialState T o multi fs) :=
  ⟨AOk_nil, AOk_nil⟩

theorem builtinModule_ModOk (hT : TOk T) (o : Options) : ModOk (builtinModule T o) := by
  refine ⟨rfl, ?_, ?_⟩
  · intro d hd
    apply hT.defs d
    simp only [builtinModule, List.mem_append] at hd
    rcases hd with hd | hd
    · simp [hd]
    · split at hd
      · simp [hd]
      · cases hd
  · intro d hd
    apply hT.defs d
    simp only [builtinModule] at hd
    simp [hd]

theorem getPackages_ModOk (hT : TOk T) (cls : Bool) (packs : Str) :
    ∀ nm ∈ getPackages T cls packs, ModOk nm.2 := by
  intro nm hnm
  unfold getPackages at hnm
  split at hnm
  · cases hnm
  · simp only [List.mem_flatten, List.mem_map] at hnm
    obtain ⟨l, ⟨p, hp, rfl⟩, hl⟩ := hnm
    split at hl
    · obtain ⟨m, hm, rfl⟩ := List.mem_map.1 hl
      exact findModule_ModOk hT cls m
    · simp only [List.mem_singleton] at hl
      subst hl
      exact findModule_ModOk hT cls p

theorem Good_initParser (hT : TOk T) (fuel : Nat) (o : Options) : Good (initParser T fuel o) := by
  have A := allGood hT fuel
  unfold initParser
  refine Good_bind (A.init _ _ _ _ _ (builtinModule_ModOk hT o)) (fun _ => ?_)
  dsimp only
  have key : ∀ (mods : List (Str × ModuleDef)), (∀ nm ∈ mods, ModOk nm.2) →
      Good (mods.forM (fun nm => (do let _ ← initPackage T fuel nm.1 nm.2 false [] 0; pure () : M Unit))) := by
    intro mods
    induction mods with
    | nil => intro _; exact Good_pure _
    | cons nm rest ih =>
      intro hm
      show Good ((do let _ ← initPackage T fuel nm.1 nm.2 false [] 0; pure () : M Unit) >>= fun _ => rest.forM _)
      refine Good_bind (Good_bind (A.init _ _ _ _ _ (hm nm (List.mem_cons_self ..))) (fun _ => Good_pure _))
        (fun _ => ih (fun nm' h' => hm nm' (List.mem_cons_of_mem _ h')))
  apply key
  intro nm hnm
  rcases List.mem_append.1 hnm with h' | h'
  · exact getPackages_ModOk hT _ _ nm h'
  · exact getPackages_ModOk hT _ _ nm h'

theorem Good_parse (hT : TOk T) (fuel : Nat) (latex define : Str) (extract : List Str) :
    Good (parse T fuel latex define extract) := by
  have A := allGood hT fuel
  simp only [parse]
  good A
  all_goals
    refine ⟨?_⟩
    intro s hs
    exact StOk_initExtractions T s extract hs

/-- the filter model never ends in one of the two `opaque …` crash markers -/
theorem tex2txt_noOpaque (hT : TOk T) (fuel : Nat) (latex : Str) (o : Options) (multi : Bool) (thresh : Nat)
    (fs : FS) :
    tex2txt T fuel latex o multi thresh fs ≠ .crash mMod ∧ tex2txt T fuel latex o multi thresh fs ≠ .crash mHan := by
  have hrun : GoodO ((initParser T fuel o >>= fun _ => parse T fuel latex o.defs
      (if o.extr.isEmpty then [] else (splitOn ',' o.extr []).map (fun s => '\\' :: s)))
        (initialState T o multi fs)) :=
    (Good_bind (Good_initParser hT fuel o) (fun _ => Good_parse hT fuel latex o.defs _)).run _
      (initialState_StOk o multi fs)
  unfold tex2txt
  dsimp only
  revert hrun
  generalize ((initParser T fuel o >>= fun _ => parse T fuel latex o.defs
    (if o.extr.isEmpty then [] else (splitOn ',' o.extr []).map (fun s => '\\' :: s)))
      (initialState T o multi fs)) = out
  intro hrun
  rcases out with ⟨toks, st⟩ | m | c | _
  · dsimp only
    cases multi with
    | false => simp
    | true =>
      simp only [Bool.not_true, Bool.false_eq_true, if_false]
      split
      · constructor <;> (intro h; injection h with h; revert h; decide)
      · constructor <;> (intro h; cases h)
  · constructor <;> (intro h; cases h)
  · constructor
    · intro h; injection h with h; exact hrun.1 h
    · intro h; injection h with h; exact hrun.2 h
  · constructor <;> (intro h; cases h)

end NoOpaque
end Yalafi
