/-
  Proofs/PlainOptArgE2E.lean — the meaning of the token buffers of Proofs/PlainOptArg.lean in terms of the
  source, and the lifts to `parserWork`, `parse`, `tex2txt` (see the header of Proofs/PlainOptArg.lean).
-/
import YalafiVerif.Proofs.PlainOptArg
namespace Yalafi
namespace PlainOptArg

open M
open PlainMacro (lbr rbr NoBrace restamp Shape bodyTxt Mark tokChars tokMarks marksOf charsOf
  delLines NameOk ncDeclOk)
open PlainMacroArgs (BP bodyStr argsStr argsLen argSpans spanEnd lastTokStart groupMarks argMarks bpOk
  normBody tailStr bodyStr_norm TailLink BodyLink ArgFacts GroupsLink argsStr_length
  groupsLink_ne groupsLink_get groupsLink_length groups_sem
  marksOf_plain genOut_plain_run genCur_plain_run mem_groupsFlat charsOf_cons' bodyTxt_of_chars
  argAt headPos lastPos genCur genOut RefsOk Group groupsFlat GroupOk txtTok groupsOut GroupGood digitChar
  BodyTok GoodBody DigitOk charsOf_fst spanAt)

/-! ### the reference on items -/

def orefMarks : OEnv → List OItem → List Mark
  | _, [] => []
  | env, .chr c p :: rest => some (c, p) :: orefMarks env rest
  | env, .defn _ _ name n dflt body :: rest => none :: orefMarks ((name, n, dflt, body) :: env) rest
  | env, .use p name opt args :: rest =>
    none :: (obodyMarks (useSpans env p name opt args)
              (ostartCur (useSpans env p name opt args) p (odefOf env name).2.2) (odefOf env name).2.2
      ++ (groupMarks ((argSpans (p + name.length + 1 + optLen opt) args).drop ((odefOf env name).1 - 1))
      ++ orefMarks env rest))

def orefUnknowns : OEnv → List OItem → List Str
  | _, [] => []
  | env, .chr _ _ :: rest => orefUnknowns env rest
  | env, .defn _ _ name n dflt body :: rest => orefUnknowns ((name, n, dflt, body) :: env) rest
  | env, .use _ name _ _ :: rest =>
    (if (olookup env name).isNone then [('\\' :: name)] else []) ++ orefUnknowns env rest

def orefInserted : OEnv → List OItem → Nat
  | _, [] => 0
  | env, .chr _ _ :: rest => orefInserted env rest
  | env, .defn _ _ name n dflt body :: rest => orefInserted ((name, n, dflt, body) :: env) rest
  | env, .use p name opt args :: rest =>
    obodyInserted (useSpans env p name opt args) (odefOf env name).2.2 + orefInserted env rest

def orefArity : OEnv → List OItem → Bool
  | _, [] => true
  | env, .chr _ _ :: rest => orefArity env rest
  | env, .defn _ _ name n dflt body :: rest => orefArity ((name, n, dflt, body) :: env) rest
  | env, .use _ name opt args :: rest =>
    decide ((odefOf env name).1 - 1 ≤ args.length) && ((olookup env name).isSome || opt.isNone)
      && orefArity env rest

def oitemsLen : List OItem → Nat
  | [] => 0
  | .chr _ _ :: rest => 1 + oitemsLen rest
  | .defn _ kw name _ dflt body :: rest => defLen kw name dflt body + oitemsLen rest
  | .use _ name opt args :: rest => name.length + 1 + optLen opt + argsLen args + oitemsLen rest

/-- the state and the environment agree on the names that are not declared in `st1` -/
def ORel (st1 st : PState) (env : OEnv) : Prop :=
  ∀ name, lookupMacro st1 ('\\' :: name) = none →
    match olookup env name with
    | some d => 1 ≤ d.1 ∧ ∃ dt b, lookupMacro st ('\\' :: name) = some (optMacro ('\\' :: name) d.1 dt b) ∧
        DLink dt d.2.1 ∧ BodyLink b (normBody d.2.2)
    | none => lookupMacro st ('\\' :: name) = none

theorem ORel_init (st1 st : PState) (h : st.macros = st1.macros) : ORel st1 st [] := by
  intro name hn
  simp only [olookup, List.find?_nil, Option.map_none]
  simpa [lookupMacro, h] using hn

theorem olookup_cons (env : OEnv) (n' : Str) (d : Nat × Str × List BP) (name : Str) :
    olookup ((n', d) :: env) name = if n' == name then some d else olookup env name := by
  unfold olookup
  rw [List.find?_cons]
  by_cases h : (n' == name) = true
  · simp [h]
  · simp [h]

theorem ORel.defSt {st1 st : PState} {env : OEnv} (h : ORel st1 st env) (name : Str) (n : Nat)
    (dflt : Str) (body : List BP) (dt btoks : List Tok) (hn1 : 1 ≤ n) (hd : DLink dt dflt)
    (hb : BodyLink btoks (normBody body)) :
    ORel st1 (odefSt st name n dt btoks) ((name, n, dflt, body) :: env) := by
  intro name' hn
  rw [olookup_cons, odefSt, PlainMacro.lookup_setMacro]
  by_cases e : name = name'
  · subst e
    simp only [beq_self_eq_true, if_true, optMacro]
    exact ⟨hn1, dt, btoks, rfl, hd, hb⟩
  · have e1 : (name == name') = false := by simpa using e
    have e2 : ((optMacro ('\\' :: name) n dt btoks).name == '\\' :: name') = false := by
      simpa [optMacro] using e
    rw [e1, e2]
    exact h name' hn

theorem ORel.useSt {st1 st : PState} {env : OEnv} (h : ORel st1 st env) (name : Str) :
    ORel st1 (ouseSt st name) env := by
  unfold ouseSt
  split
  · exact h
  · exact h

/-! ### what an expansion means -/

def otailMarks (spans : List Sp) : List (Nat × Str) → List Mark
  | [] => []
  | ks :: r =>
    oargMarks (spAt spans ks.1) ++
      (ks.2.map (fun c => some (c, (spAt spans ks.1).2.2)) ++ otailMarks spans r)

def otailCur (spans : List Sp) : Nat → List (Nat × Str) → Nat
  | cur, [] => cur
  | _, ks :: r => otailCur spans (spAt spans ks.1).2.1 r

def otailInserted (spans : List Sp) : List (Nat × Str) → Nat
  | [] => 0
  | ks :: r => (spAt spans ks.1).1.length + 2 + ks.2.length + otailInserted spans r

theorem obodyMarks_norm (spans : List Sp) : ∀ (body : List BP) (cur : Nat),
    obodyMarks spans cur body
      = (normBody body).1.map (fun c => some (c, cur)) ++ otailMarks spans (normBody body).2
  | [], _ => rfl
  | .lit s :: rest, cur => by
    simp only [obodyMarks, normBody, obodyMarks_norm spans rest cur, List.map_append, List.append_assoc]
  | .par k :: rest, cur => by
    simp only [obodyMarks, normBody, obodyMarks_norm spans rest _, otailMarks, List.map_nil, List.nil_append]

theorem ostartCur_norm (spans : List Sp) : ∀ (body : List BP) (cur : Nat),
    ostartCur spans cur body = otailCur spans cur (normBody body).2
  | [], _ => rfl
  | .lit s :: rest, cur => by simp only [ostartCur, normBody, ostartCur_norm spans rest cur]
  | .par k :: rest, cur => by simp only [ostartCur, normBody, otailCur, ostartCur_norm spans rest _]

theorem obodyInserted_norm (spans : List Sp) : ∀ (body : List BP),
    obodyInserted spans body = (normBody body).1.length + otailInserted spans (normBody body).2
  | [] => rfl
  | .lit s :: rest => by
    simp only [obodyInserted, normBody, obodyInserted_norm spans rest, List.length_append]; omega
  | .par k :: rest => by
    simp only [obodyInserted, normBody, obodyInserted_norm spans rest, otailInserted, List.length_nil]; omega

/-- what is needed of the actual arguments: the k-th one spells the k-th span -/
def OArgsSem (A : List (List Tok)) (spans : List Sp) (n : Nat) : Prop :=
  ∀ k, 1 ≤ k → k ≤ n →
    charsOf (argAt A k) = (spAt spans k).1 ∧ headPos (argAt A k) = (spAt spans k).2.1 ∧
    lastPos (argAt A k) = (spAt spans k).2.2 ∧ (∀ t ∈ argAt A k, Shape t) ∧ ∀ t ∈ argAt A k, PlainTok t

theorem length_le_chars (ts : List Tok) (h : ∀ t ∈ ts, Shape t) : ts.length ≤ (charsOf ts).length := by
  have := PlainMacro.length_le_bodyTxt ts h
  rw [← charsOf_fst, List.length_map] at this
  exact this

theorem otail_sem (A : List (List Tok)) (spans : List Sp) (n : Nat) (hA : OArgsSem A spans n) :
    ∀ {b : List Tok} {l : List (Nat × Str)}, TailLink b l → RefsOk n b → ∀ cur : Nat,
      marksOf (genOut A b cur) = otailMarks spans l ∧ genCur A b cur = otailCur spans cur l ∧
      (genOut A b cur).length ≤ otailInserted spans l ∧
      (∀ t ∈ genOut A b cur, PlainMacro.Simple t) := by
  intro b l hl
  induction hl with
  | nil => intro _ cur; exact ⟨rfl, rfl, Nat.le_refl _, by simp [genOut]⟩
  | cons t k ts s b rest hk hts hs _ ih =>
    intro hr cur
    obtain ⟨k1, k2⟩ := hr t (List.mem_cons_self ..) k hk
    obtain ⟨Fc, Fh, Fl, Fs, hpl⟩ := hA k k1 k2
    have hr' : RefsOk n b := fun x hx => hr x (List.mem_cons_of_mem _ (List.mem_append_right _ hx))
    have htp : ∀ u ∈ ts, PlainTok u := fun u hu => (hts u hu).1
    obtain ⟨i1, i2, i3, i4⟩ := ih hr' (lastPos (argAt A k))
    have e1 : genOut A (t :: (ts ++ b)) cur
        = mkAction (headPos (argAt A k)) :: (argAt A k ++ mkAction (lastPos (argAt A k)) ::
            (ts.map (restamp (lastPos (argAt A k))) ++ genOut A b (lastPos (argAt A k)))) := by
      simp only [genOut, hk, genOut_plain_run A b _ ts htp]
    refine ⟨?_, ?_, ?_, ?_⟩
    · rw [e1, PlainMacro.marksOf_cons, PlainMacro.tokMarks_mkAction, PlainMacro.marksOf_append,
        PlainMacro.marksOf_cons, PlainMacro.tokMarks_mkAction, PlainMacro.marksOf_append,
        marksOf_plain _ hpl, Fc, PlainMacro.marksOf_restamp _ ts htp, hs, i1, Fl]
      simp [otailMarks, oargMarks]
    · simp only [genCur, hk, genCur_plain_run A b _ ts htp, otailCur]
      have := (ih hr' (headPos (argAt A k))).2.1
      rw [this, Fh]
    · rw [e1]
      have h1 : (argAt A k).length ≤ (spAt spans k).1.length := by
        have := length_le_chars (argAt A k) Fs
        rw [Fc] at this
        exact this
      have h2 : ts.length ≤ s.length := by
        have := PlainMacro.length_le_bodyTxt ts (fun u hu => (hts u hu).2)
        rw [hs] at this; exact this
      simp only [List.length_cons, List.length_append, List.length_map, otailInserted]
      omega
    · rw [e1]
      intro u hu
      simp only [List.mem_cons, List.mem_append, List.mem_map] at hu
      rcases hu with rfl | hu | rfl | ⟨v, hv, rfl⟩ | hu
      · exact PlainMacro.simple_mkAction _
      · exact PlainMacro.simple_of_plain (hpl u hu) (Fs u hu)
      · exact PlainMacro.simple_mkAction _
      · exact PlainMacro.simple_of_plain (PlainMacro.plainTok_restamp _ v (hts v hv).1) (hts v hv).2
      · exact i4 u hu

/-- **what an expansion means**: the marks of `genOut` are the reference `obodyMarks` -/
theorem obody_sem (A : List (List Tok)) (spans : List Sp) (n : Nat) (hA : OArgsSem A spans n)
    (b : List Tok) (body : List BP) (hl : BodyLink b (normBody body)) (hr : RefsOk n b) (p : Nat) :
    marksOf (genOut A b (genCur A b p)) = obodyMarks spans (ostartCur spans p body) body ∧
    (genOut A b (genCur A b p)).length ≤ obodyInserted spans body ∧
    (∀ t ∈ genOut A b (genCur A b p), PlainMacro.Simple t) := by
  obtain ⟨ts, b', rfl, hts, htxt, htl⟩ := hl
  have htp : ∀ u ∈ ts, PlainTok u := fun u hu => (hts u hu).1
  have hr' : RefsOk n b' := fun x hx => hr x (List.mem_append_right _ hx)
  rw [genCur_plain_run A b' p ts htp, genOut_plain_run A b' _ ts htp, obodyMarks_norm, ostartCur_norm,
    obodyInserted_norm]
  obtain ⟨i1, _, i3, i4⟩ := otail_sem A spans n hA htl hr' (genCur A b' p)
  have hcur := (otail_sem A spans n hA htl hr' p).2.1
  refine ⟨?_, ?_, ?_⟩
  · rw [PlainMacro.marksOf_append, PlainMacro.marksOf_restamp _ ts htp, htxt, i1, hcur]
  · have h2 : ts.length ≤ (normBody body).1.length := by
      have := PlainMacro.length_le_bodyTxt ts (fun u hu => (hts u hu).2)
      rw [htxt] at this; exact this
    simp only [List.length_append, List.length_map]
    omega
  · intro u hu
    simp only [List.mem_append, List.mem_map] at hu
    rcases hu with ⟨v, hv, rfl⟩ | hu
    · exact PlainMacro.simple_of_plain (PlainMacro.plainTok_restamp _ v (hts v hv).1) (hts v hv).2
    · exact i4 u hu

/-! ### the actual arguments of a use -/

theorem charsOf_restamp (p : Nat) : ∀ dt : List Tok,
    charsOf (dt.map (restamp p)) = (bodyTxt dt).map (fun c => (c, p))
  | [] => rfl
  | t :: dt => by
    rw [List.map_cons, PlainMacro.charsOf_cons, PlainMacro.tokChars_restamp, charsOf_restamp p dt]
    simp [bodyTxt]

theorem headPos_restamp (p : Nat) (dt : List Tok) (h : dt ≠ []) : headPos (dt.map (restamp p)) = p := by
  cases dt with
  | nil => exact absurd rfl h
  | cons t ts => rfl

theorem lastPos_restamp (p : Nat) (dt : List Tok) (h : dt ≠ []) : lastPos (dt.map (restamp p)) = p := by
  unfold lastPos
  rw [List.getLast?_map]
  cases hl : dt.getLast? with
  | none => exact absurd (List.getLast?_eq_none_iff.mp hl) h
  | some x => rfl

theorem argAt_cons (x : List Tok) (l : List (List Tok)) (k : Nat) (hk : 2 ≤ k) :
    argAt (x :: l) k = argAt l (k - 1) := by
  obtain ⟨j, rfl⟩ : ∃ j, k = j + 2 := ⟨k - 2, by omega⟩
  simp [argAt]

theorem spAt_cons (x : Sp) (l : List Sp) (k : Nat) (hk : 2 ≤ k) : spAt (x :: l) k = spAt l (k - 1) := by
  obtain ⟨j, rfl⟩ : ∃ j, k = j + 2 := ⟨k - 2, by omega⟩
  simp [spAt]

/-- the arguments of a use spell the spans of the reference -/
theorem oargsSem_of_link {T : PTables} {st : PState} {p q : Nat} {dflt : Str} {dt : List Tok}
    {opt : Opt} {a : Option Str} {gs : List Group} {args : List Str} {qa : Nat}
    (hd : DLink dt dflt) (hdne : dt ≠ []) (ho : OptLink q opt a)
    (hop : ∀ o, opt = some o → GoodRun T st o.2.1)
    (h : GroupsLink qa gs args) (hg : ∀ g ∈ gs, GroupGood T st g) (n : Nat) (hn : n - 1 ≤ gs.length) :
    OArgsSem (firstArg p dt opt :: (gs.take (n - 1)).map (·.toks))
      (firstSp p q dflt a :: (argSpans qa args).map spOf) n := by
  intro k k1 k2
  by_cases hk : k = 1
  · subst hk
    have e1 : argAt (firstArg p dt opt :: (gs.take (n - 1)).map (·.toks)) 1 = firstArg p dt opt := rfl
    have e2 : spAt (firstSp p q dflt a :: (argSpans qa args).map spOf) 1 = firstSp p q dflt a := rfl
    rw [e1, e2]
    cases opt with
    | none =>
      cases a with
      | some _ => exact absurd ho (by simp [OptLink])
      | none =>
        simp only [firstArg, firstSp, dfltSp]
        refine ⟨by rw [charsOf_restamp, hd.2], headPos_restamp p dt hdne, lastPos_restamp p dt hdne, ?_, ?_⟩
        · intro t ht
          obtain ⟨u, hu, rfl⟩ := List.mem_map.mp ht
          exact (hd.1 u hu).2
        · intro t ht
          obtain ⟨u, hu, rfl⟩ := List.mem_map.mp ht
          exact PlainMacro.plainTok_restamp p u (hd.1 u hu).1
    | some o =>
      cases a with
      | none => exact absurd ho (by simp [OptLink])
      | some a1 =>
        obtain ⟨_, _, F⟩ := ho
        simp only [firstArg, firstSp, spOf]
        exact ⟨F.chars, F.head, F.last, F.shape, fun t ht => ((hop o rfl).2 t ht).1⟩
  · have hk2 : 2 ≤ k := by omega
    rw [argAt_cons _ _ k hk2, spAt_cons _ _ k hk2]
    have hlt : k - 1 - 1 < gs.length := by omega
    have hget : ((gs.take (n - 1)).map (·.toks))[k - 1 - 1]? = some (gs[k - 1 - 1]).toks := by
      rw [List.getElem?_map, List.getElem?_take_of_lt (by omega), List.getElem?_eq_getElem hlt]
      rfl
    obtain ⟨sp, h1, h2⟩ := groupsLink_get h (k - 1 - 1) gs[k - 1 - 1] (List.getElem?_eq_getElem hlt)
    have e1 : argAt ((gs.take (n - 1)).map (·.toks)) (k - 1) = (gs[k - 1 - 1]).toks := by
      simp only [argAt, hget, Option.getD_some]
    have e2 : spAt ((argSpans qa args).map spOf) (k - 1) = spOf sp := by
      simp only [spAt, List.getElem?_map, h1, Option.map_some, Option.getD_some]
    rw [e1, e2]
    exact ⟨h2.chars, h2.head, h2.last, h2.shape, fun t ht => ((hg _ (List.getElem_mem hlt)).2 t ht).1⟩

/-! ### what the pieces mean -/

theorem orefMarks_chrItems (env : OEnv) (items : List OItem) : ∀ (s : Str) (p : Nat),
    orefMarks env (ochrItems p s ++ items) = (posText p s).map some ++ orefMarks env items
  | [], _ => rfl
  | c :: cs, p => by
    simp only [ochrItems, List.cons_append, orefMarks, posText, List.map_cons,
      orefMarks_chrItems env items cs (p + 1)]

theorem orefUnknowns_chrItems (env : OEnv) (items : List OItem) : ∀ (s : Str) (p : Nat),
    orefUnknowns env (ochrItems p s ++ items) = orefUnknowns env items
  | [], _ => rfl
  | c :: cs, p => by
    simp only [ochrItems, List.cons_append, orefUnknowns, orefUnknowns_chrItems env items cs (p + 1)]

theorem orefInserted_chrItems (env : OEnv) (items : List OItem) : ∀ (s : Str) (p : Nat),
    orefInserted env (ochrItems p s ++ items) = orefInserted env items
  | [], _ => rfl
  | c :: cs, p => by
    simp only [ochrItems, List.cons_append, orefInserted, orefInserted_chrItems env items cs (p + 1)]

theorem orefArity_chrItems (env : OEnv) (items : List OItem) : ∀ (s : Str) (p : Nat),
    orefArity env (ochrItems p s ++ items) = orefArity env items
  | [], _ => rfl
  | c :: cs, p => by
    simp only [ochrItems, List.cons_append, orefArity, orefArity_chrItems env items cs (p + 1)]

theorem oitemsLen_chrItems (items : List OItem) : ∀ (s : Str) (p : Nat),
    oitemsLen (ochrItems p s ++ items) = s.length + oitemsLen items
  | [], _ => by simp [ochrItems]
  | c :: cs, p => by
    simp only [ochrItems, List.cons_append, oitemsLen, oitemsLen_chrItems items cs (p + 1), List.length_cons]
    omega

theorem optMacro_inj {nm : Str} {n n' : Nat} {dt dt' b b' : List Tok} (hn : 1 ≤ n) (hn' : 1 ≤ n')
    (h : optMacro nm n dt b = optMacro nm n' dt' b') : n = n' ∧ dt = dt' ∧ b = b' := by
  have h1 := congrArg MacroDef.repl h
  have h2 := congrArg (fun m => m.args.length) h
  have h3 := congrArg MacroDef.defaults h
  simp only [optMacro, List.length_cons, List.length_replicate, List.cons.injEq, and_true] at h1 h2 h3
  exact ⟨by omega, h3, h1⟩

/-- what the pieces of a source mean, for a state and an environment that agree -/
structure OSem (st : PState) (env : OEnv) (ps : List OPiece) (items : List OItem) : Prop where
  marks : marksOf (ooutP st ps) = orefMarks env items
  simple : ∀ t ∈ ooutP st ps, PlainMacro.Simple t
  cost : ocost st ps ≤ oitemsLen items + orefInserted env items
  unk : (ofinalSt st ps).unknowns = (orefUnknowns env items).foldl addU st.unknowns
  arity : OArityOk st ps

theorem optLen_of_link {q : Nat} {opt : Opt} {a : Option Str} (h : OptLink q opt a) :
    (opt = none ↔ a = none) := by
  cases opt <;> cases a <;> simp_all [OptLink]

theorem olink_sem (T : PTables) (st1 : PState) {ps : List OPiece} {items : List OItem} (hl : OLink ps items) :
    OPiecesOk T st1 ps → ∀ (st : PState) (env : OEnv), OStOk T st1 st → ORel st1 st env →
    orefArity env items = true → OSem st env ps items := by
  induction hl with
  | nil => intro _ st env _ _ _; exact ⟨rfl, by simp [ooutP], by simp [ocost], rfl, trivial⟩
  | tok t ps items hfix hshape _ ih =>
    intro hok st env hst hrel har
    obtain ⟨hp, _, hrest⟩ := hok
    rw [orefArity_chrItems] at har
    have I := ih hrest st env hst hrel har
    refine ⟨?_, ?_, ?_, ?_, I.arity⟩
    · simp only [ooutP]
      rw [PlainMacro.marksOf_cons, PlainMacro.tokMarks_nonaction _ hp.notAction,
        PlainMacro.tokChars_nofix t hfix, orefMarks_chrItems, I.marks]
    · intro x hx
      simp only [ooutP, List.mem_cons] at hx
      rcases hx with rfl | hx
      · exact PlainMacro.simple_of_plain hp hshape
      · exact I.simple x hx
    · have := I.cost
      have h1 := List.length_pos_iff.mpr hshape.1
      simp only [ocost, oitemsLen_chrItems, orefInserted_chrItems]
      omega
    · simp only [ofinalSt, orefUnknowns_chrItems]
      exact I.unk
  | defn p q1 q2 q3 q4 q5 q6 r1 r2 q7 q8 kw name n dflt body dt btoks ps items hd hb _ ih =>
    intro hok st env hst hrel har
    obtain ⟨_, hn, _, hn1, hdt, hgb, hrest⟩ := hok
    simp only [orefArity] at har
    have I := ih hrest (odefSt st name n dt btoks) ((name, n, dflt, body) :: env)
      (hst.defSt name n dt btoks hn hn1 hdt hgb) (hrel.defSt name n dflt body dt btoks hn1 hd hb) har
    refine ⟨?_, ?_, ?_, ?_, I.arity⟩
    · simp only [ooutP, orefMarks]
      rw [PlainMacro.marksOf_cons, PlainMacro.tokMarks_mkAction, I.marks]; rfl
    · intro x hx
      simp only [ooutP, List.mem_cons] at hx
      rcases hx with rfl | hx
      · exact PlainMacro.simple_mkAction p
      · exact I.simple x hx
    · have := I.cost
      simp only [ocost, oitemsLen, orefInserted, defLen]
      omega
    · simp only [ofinalSt, orefUnknowns]
      exact I.unk
  | use p name opt a args gs ps items hne hol hgl _ ih =>
    intro hok st env hst hrel har
    obtain ⟨hn, hopt, _, hgg, hrest⟩ := hok
    simp only [orefArity, Bool.and_eq_true, decide_eq_true_eq, Bool.or_eq_true] at har
    obtain ⟨⟨har1, har0⟩, har2⟩ := har
    have I := ih hrest (ouseSt st name) env (hst.useSt name) (hrel.useSt name) har2
    have hname := List.length_pos_iff.mpr hne
    have hR := hrel name hn.undecl
    have hlen := groupsLink_length hgl
    cases hbo : olookup env name with
    | none =>
      rw [hbo] at hR
      simp only [] at hR
      have ha : a = none := by
        rcases har0 with h | h
        · rw [hbo] at h; cases h
        · simpa using h
      subst ha
      have ho : opt = none := (optLen_of_link hol).mpr rfl
      subst ho
      have e1 : ouseBody st p name none gs = [] := by simp [ouseBody, hR]
      have e2 : ouseSt st name = { st with unknowns := addU st.unknowns ('\\' :: name) } := by
        simp [ouseSt, hR]
      have e3 : ouseN st name = 0 := by simp [ouseN, hR]
      have e4 : odefOf env name = (0, [], []) := by simp [odefOf, hbo]
      obtain ⟨g1, g2, g3⟩ := groups_sem 0 hgl hgg
      refine ⟨?_, ?_, ?_, ?_, ?_⟩
      · simp only [ooutP, orefMarks, e1, e3, e4, List.nil_append, obodyMarks, Nat.zero_sub]
        rw [PlainMacro.marksOf_cons, PlainMacro.tokMarks_mkAction, PlainMacro.marksOf_append, g1, I.marks]; rfl
      · intro x hx
        simp only [ooutP, e1, e3, List.nil_append, List.mem_cons, List.mem_append] at hx
        rcases hx with rfl | hx | hx
        · exact PlainMacro.simple_mkAction p
        · exact g3 x hx
        · exact I.simple x hx
      · have := I.cost
        simp only [ocost, oitemsLen, orefInserted, e1, e3, e4, List.length_nil, obodyInserted]
        omega
      · simp only [ofinalSt, orefUnknowns, hbo, Option.isNone_none, if_true, List.singleton_append,
          List.foldl_cons]
        rw [I.unk, e2]
      · exact ⟨fun _ => rfl, by rw [e3]; omega, I.arity⟩
    | some d =>
      obtain ⟨n, dflt, body⟩ := d
      rw [hbo] at hR
      obtain ⟨hn1, dt, bt, hlk, hdl, hbl⟩ := hR
      simp only [] at hn1 hlk hdl hbl
      obtain ⟨n', dt', bt', hm, hn1', hdt', hgb⟩ := hst.user _ _ hn.undecl hlk
      obtain ⟨rfl, rfl, rfl⟩ := optMacro_inj hn1 hn1' hm
      have hal : (optMacro ('\\' :: name) n dt bt).args.length - 1 = n - 1 := by simp [optMacro]
      have e1 : ouseBody st p name opt gs
          = genOut (firstArg p dt opt :: (gs.take (n - 1)).map (·.toks)) bt
              (genCur (firstArg p dt opt :: (gs.take (n - 1)).map (·.toks)) bt p) := by
        simp only [ouseBody, hlk, hal]
        rfl
      have e2 : ouseSt st name = st := by simp [ouseSt, hlk]
      have e3 : ouseN st name = n - 1 := by simp [ouseN, hlk, hal]
      have e4 : odefOf env name = (n, dflt, body) := by simp [odefOf, hbo]
      rw [e4] at har1
      simp only [] at har1
      obtain ⟨g1, g2, g3⟩ := groups_sem (n - 1) hgl hgg
      have hsem := oargsSem_of_link (p := p) (q := p + name.length + 1) (qa := p + name.length + 1 + optLen a)
        hdl hdt'.1 hol hopt hgl hgg n (by omega)
      obtain ⟨b1, b2, b3⟩ := obody_sem _ _ n hsem bt body hbl hgb.refs p
      rw [← e1] at b1 b2 b3
      have hsp : useSpans env p name a args
          = firstSp p (p + name.length + 1) dflt a :: (argSpans (p + name.length + 1 + optLen a) args).map spOf := by
        simp only [useSpans, e4]
      refine ⟨?_, ?_, ?_, ?_, ?_⟩
      · simp only [ooutP, orefMarks, e3, e4, hsp]
        rw [PlainMacro.marksOf_cons, PlainMacro.tokMarks_mkAction, PlainMacro.marksOf_append,
          PlainMacro.marksOf_append, b1, g1, I.marks]; rfl
      · intro x hx
        simp only [ooutP, e3, List.mem_cons, List.mem_append] at hx
        rcases hx with rfl | hx | hx | hx
        · exact PlainMacro.simple_mkAction p
        · exact b3 x hx
        · exact g3 x hx
        · exact I.simple x hx
      · have := I.cost
        have hI : orefInserted env (.use p name a args :: items)
            = obodyInserted (firstSp p (p + name.length + 1) dflt a
                :: (argSpans (p + name.length + 1 + optLen a) args).map spOf) body
              + orefInserted env items := by
          simp only [orefInserted, useSpans, e4]
        rw [hI]
        simp only [ocost, oitemsLen, e3]
        omega
      · simp only [ofinalSt, orefUnknowns, hbo, Option.isNone_some, Bool.false_eq_true, if_false,
          List.nil_append]
        rw [I.unk, e2]
      · exact ⟨fun h => absurd (hlk.symm.trans h) (by simp), by rw [e3]; omega, I.arity⟩

/-! ### `scan`, `parserWork`, `parse`, `tex2txt` -/

theorem OkSrcO_len {T : PTables} {st : PState} {p : Nat} {s : Str} {items : List OItem}
    (h : OkSrcO T st p s items) : oitemsLen items = s.length := by
  induction h with
  | nil p => rfl
  | chr p c cs items _ _ ih => simp only [oitemsLen, ih, List.length_cons]; omega
  | defn p kw name n dflt body R items _ _ ih =>
    simp only [oitemsLen, ih, List.length_cons, List.length_append, defLen]; omega
  | use p name opt args R items _ _ ih =>
    cases opt <;>
      simp only [oitemsLen, ih, List.length_cons, List.length_append, argsStr_length, optStr, optLen,
        List.length_nil] <;> omega

theorem scan_opt (T : PTables) (st : PState) (src : Str) (items : List OItem)
    (h : OkSrcO T st 0 src items) :
    (scan T.toTables src).diags = [] ∧
    ∃ ps, (scan T.toTables src).toks = oflat ps ∧ OPiecesOk T st ps ∧ OLink ps items := by
  obtain ⟨_, F⟩ := scanSteps_opt T st src src.length src.length 0 src items (Nat.le_refl _)
    (Nat.le_refl _) h
  have he := flatten_tok_extra (scanSteps T.toTables src src.length 0 src).1 (fun s hs => (F.ok s hs).2)
  have hd := flatten_diag_nil (scanSteps T.toTables src src.length 0 src).1 (fun s hs => (F.ok s hs).1)
  obtain ⟨ps, h1, h2, h3⟩ := F.pieces
  simp only [scan]
  rw [he, hd]
  exact ⟨rfl, ps, h1, h2, h3⟩

theorem bodyTok_notComment {T : PTables} {st : PState} {n : Nat} {x : Tok} (h : BodyTok T st n x) :
    x.kind ≠ .comment := by
  rcases h with ⟨h1, _⟩ | ⟨k, hk, _⟩
  · exact h1.notComment
  · intro e
    simp [argRef, e] at hk

theorem OPiecesOk.notComment {T : PTables} {st : PState} : ∀ {ps : List OPiece}, OPiecesOk T st ps →
    ∀ t ∈ oflat ps, t.kind ≠ .comment
  | [], _, _, h => by simp [oflat] at h
  | .tok t :: rest, hok, x, hx => by
    simp only [oflat, OPiece.toks, List.singleton_append, List.mem_cons] at hx
    rcases hx with rfl | hx
    · exact hok.1.notComment
    · exact OPiecesOk.notComment hok.2.2 x hx
  | .defn kw p q1 q2 q3 q4 q5 q6 r1 r2 q7 q8 name n dt body :: rest, hok, x, hx => by
    obtain ⟨_, _, _, _, hdt, hb, hrest⟩ := hok
    simp only [oflat, OPiece.toks, List.cons_append, List.append_assoc, List.mem_cons,
      List.mem_append, List.nil_append] at hx
    rcases hx with rfl | rfl | rfl | rfl | rfl | rfl | rfl | rfl | hx | rfl | rfl | hx | rfl | hx
    · simp [cwTok]
    · simp [lbr]
    · simp [cwTok]
    · simp [rbr]
    · simp [txtTok]
    · simp [txtTok]
    · simp [txtTok]
    · simp [txtTok]
    · exact (hdt.2 x hx).1.notComment
    · simp [txtTok]
    · simp [lbr]
    · exact bodyTok_notComment (hb.2 x hx)
    · simp [rbr]
    · exact OPiecesOk.notComment hrest x hx
  | .use p name opt gs :: rest, hok, x, hx => by
    obtain ⟨_, hopt, _, hg, hrest⟩ := hok
    simp only [oflat, OPiece.toks, List.cons_append, List.append_assoc, List.mem_cons, List.mem_append] at hx
    rcases hx with rfl | hx | hx | hx
    · simp [cwTok]
    · cases opt with
      | none => simp [optFlat] at hx
      | some o =>
        simp only [optFlat, List.mem_cons, List.mem_append, List.not_mem_nil, or_false] at hx
        rcases hx with rfl | hx | rfl
        · simp [txtTok]
        · exact ((hopt o rfl).2 x hx).1.notComment
        · simp [txtTok]
    · obtain ⟨g, hgm, h⟩ := mem_groupsFlat hx
      rcases h with rfl | rfl | h
      · simp [lbr]
      · simp [rbr]
      · exact ((hg g hgm).2 x h).1.notComment
    · exact OPiecesOk.notComment hrest x hx

theorem ofinalSt_eq : ∀ (ps : List OPiece) (st : PState),
    ofinalSt st ps = { st with macros := (ofinalSt st ps).macros, unknowns := (ofinalSt st ps).unknowns }
  | [], st => rfl
  | .tok _ :: rest, st => ofinalSt_eq rest st
  | .defn _ _ _ _ _ _ _ _ _ _ _ _ name n dt body :: rest, st => by
    have := ofinalSt_eq rest (odefSt st name n dt body)
    simp only [ofinalSt]
    rw [this]
    rfl
  | .use _ name _ _ :: rest, st => by
    have := ofinalSt_eq rest (ouseSt st name)
    simp only [ofinalSt]
    rw [this]
    unfold ouseSt
    split <;> rfl

theorem OStOk.of_eq (T : PTables) {st st' : PState} (hl : st'.langStack = st.langStack)
    (hi : st'.newcommandIgnore = st.newcommandIgnore) (hm : st'.macros = st.macros) : OStOk T st st' := by
  have hlk : ∀ nm, lookupMacro st' nm = lookupMacro st nm := fun nm => by simp [lookupMacro, hm]
  exact ⟨hl, hi, fun nm m h => by rw [hlk]; exact h,
    fun nm m h1 h2 => by rw [hlk, h1] at h2; cases h2⟩

/-- **`parserWork` on a well-formed source.** -/
theorem parserWork_opt (T : PTables) (st : PState) (src : Str) (fuel : Nat) (items : List OItem)
    (hf : src.length + orefInserted [] items + 6 ≤ fuel) (ha : noEmptyActive T st = true)
    (h : OkSrcO T st 0 src items) (har : orefArity [] items = true) :
    ∃ r macros', parserWork T fuel src st
        = .ok (r, { st with macros := macros',
                            unknowns := (orefUnknowns [] items).foldl addU st.unknowns }) ∧
      charsOf r = delLines (orefMarks [] items) := by
  obtain ⟨f, rfl⟩ : ∃ f, fuel = f + 1 := ⟨fuel - 1, by omega⟩
  obtain ⟨hd, ps, hflat, hpok, hlink⟩ := scan_opt T st src items h
  have hstok : OStOk T st { st with latex := src, nest := st.nest + 1 } := OStOk.of_eq T rfl rfl rfl
  have S := olink_sem T st hlink hpok { st with latex := src, nest := st.nest + 1 } [] hstok
    (ORel_init st _ rfl) har
  have hlen := OkSrcO_len h
  have hs := seq_opt T none st ha ps f [] { st with latex := src, nest := st.nest + 1 }
    (by have := S.cost; omega) hpok S.arity hstok
  rw [List.nil_append] at hs
  obtain ⟨r, hr, hchars⟩ := PlainMacro.removeLines_simple _ S.simple
  rw [hr] at hs
  simp only [] at hs
  rw [S.marks] at hchars
  refine ⟨r, (ofinalSt { st with latex := src, nest := st.nest + 1 } ps).macros, ?_, hchars⟩
  rw [parserWork.eq_2]
  refine (M.bind_ok _ _ _ _ _ (rfl : M.get st = _)).trans ?_
  refine (M.bind_ok _ _ _ _ _ (rfl : M.modify _ _ = _)).trans ?_
  refine (M.bind_ok _ _ _ _ _ (rfl : M.modify _ _ = _)).trans ?_
  refine (M.bind_ok _ _ _ _ _ (rfl : M.get _ = _)).trans ?_
  simp only [hd, List.append_nil]
  rw [skipPass_nocomment _ _ _ (fun t ht' => hpok.notComment t (by rw [← hflat]; exact ht'))]
  simp only []
  refine (M.bind_ok _ _ _ _ _ (rfl : (pure _ : M (List Tok)) _ = _)).trans ?_
  rw [hflat]
  refine (M.bind_ok _ _ _ _ _ hs).trans ?_
  refine (M.bind_ok _ _ _ _ _ (rfl : M.modify _ _ = _)).trans ?_
  show Outcome.ok _ = _
  rw [ofinalSt_eq ps, S.unk]
  simp only [Nat.add_sub_cancel]

theorem okAt_congr' (T : PTables) (st st' : PState) (hl : st'.langStack = st.langStack) (c : Char) (cs : Str) :
    okAt T st' c cs = okAt T st c cs := by
  simp only [okAt, activeChars_congr T st st' hl, shortKeys_congr T st st' hl]

/-- the conditions depend on the state only through the language stack, the macro table and the list
    of protected names -/
theorem OkSrcO.congr {T : PTables} {st st' : PState} (hl : st'.langStack = st.langStack)
    (hm : st'.macros = st.macros) (hi : st'.newcommandIgnore = st.newcommandIgnore)
    {p : Nat} {s : Str} {items : List OItem} (h : OkSrcO T st p s items) : OkSrcO T st' p s items := by
  have hinert : inertChar T st' = inertChar T st := by
    funext c; simp only [inertChar, activeChars_congr T st st' hl]
  have hrun : ∀ a, runOk T st' a = runOk T st a := fun a => by simp only [runOk, hinert]
  induction h with
  | nil p => exact .nil p
  | chr p c cs items hat _ ih =>
    refine .chr p c cs items ?_ ih
    rw [← hat]
    exact okAt_congr' T st st' hl c cs
  | defn p kw name n dflt body R items hd _ ih =>
    refine .defn p kw name n dflt body R items ?_ ih
    rw [← hd]
    have hb : bpOk T st' n = bpOk T st n := by
      funext b; cases b <;> simp only [bpOk, hinert]
    simp only [odefOk, cwOk, kwDeclOk, lookupMacro, hm, hi, hb, hrun, activeChars_congr T st st' hl]
  | use p name opt args R items hu _ ih =>
    refine .use p name opt args R items ?_ ih
    rw [← hu]
    have ho : optOk T st' opt (argsStr args ++ R) = optOk T st opt (argsStr args ++ R) := by
      cases opt <;> simp only [optOk, hrun]
    simp only [ouseOk, cwOk, lookupMacro, hm, hi, ho, PlainMacroArgs.argsOk_congr T st st' hinert]

theorem parse_opt (T : PTables) (st : PState) (src : Str) (fuel : Nat) (items : List OItem)
    (hf : src.length + orefInserted [] items + 6 ≤ fuel) (ha : noEmptyActive T st = true)
    (h : OkSrcO T st 0 src items) (har : orefArity [] items = true) :
    ∃ r macros', parse T fuel src [] [] st
        = .ok (r, { st with extracted := [], unknowns := (orefUnknowns [] items).eraseDups,
                            foreign := false, nest := 0, macros := macros' }) ∧
      charsOf r = delLines (orefMarks [] items) := by
  have h' : OkSrcO T { st with extracted := [], unknowns := [], foreign := false, nest := 0 } 0 src items :=
    OkSrcO.congr (st := st)
      (st' := { st with extracted := [], unknowns := [], foreign := false, nest := 0 }) rfl rfl rfl h
  obtain ⟨r, macros', hw, hc⟩ := parserWork_opt T
    { st with extracted := [], unknowns := [], foreign := false, nest := 0 } src fuel items hf
    ((noEmptyActive_congr T st _ rfl).trans ha) h' har
  refine ⟨r, macros', ?_, hc⟩
  unfold parse
  simp only [List.isEmpty_nil, Bool.not_true, Bool.false_eq_true, if_false, if_true]
  refine (M.bind_ok _ _ _ _ _ (rfl : M.modify _ _ = _)).trans ?_
  refine (M.bind_ok _ _ _ _ _ (rfl : (pure _ : M (List Tok)) _ = _)).trans ?_
  refine (M.bind_ok _ _ _ _ _ (rfl : M.modify _ _ = _)).trans ?_
  refine (M.bind_ok _ _ _ _ _ hw).trans ?_
  refine (M.bind_ok _ _ _ _ _ (rfl : M.get _ = _)).trans ?_
  show Outcome.ok _ = _
  simp [foldl_addU_nil]

theorem tex2txt_opt_src (T : PTables) (o : Options) (fs : FS) (thresh : Nat) (src : Str) (fuel : Nat)
    (st1 : PState) (items : List OItem)
    (hdefs : o.defs = []) (hextr : o.extr = []) (hrepl : o.hasRepl = false) (hunkn : o.unkn = false)
    (hinit : initParser T fuel o (initialState T o false fs) = .ok ((), st1))
    (ha : noEmptyActive T st1 = true) (h : OkSrcO T st1 0 src items)
    (har : orefArity [] items = true)
    (hf : src.length + orefInserted [] items + 6 ≤ fuel) :
    ∃ toks, tex2txt T fuel src o false thresh fs
        = .ok { toks := toks, txt := (delLines (orefMarks [] items)).map (·.1),
                pos := (delLines (orefMarks [] items)).map (·.2 + 1), parts := [],
                unknowns := (orefUnknowns [] items).eraseDups, diags := st1.diags, foreign := false } := by
  obtain ⟨r, macros', hp, hc⟩ := parse_opt T st1 src fuel items hf ha h har
  refine ⟨r, ?_⟩
  have hrun : (initParser T fuel o >>= fun _ => parse T fuel src o.defs
        (if o.extr.isEmpty then [] else (splitOn ',' o.extr []).map (fun s => '\\' :: s)))
        (initialState T o false fs)
      = .ok (r, { st1 with extracted := [], unknowns := (orefUnknowns [] items).eraseDups,
                           foreign := false, nest := 0, macros := macros' }) := by
    refine (M.bind_ok _ _ _ _ _ hinit).trans ?_
    rw [hdefs, hextr]
    exact hp
  unfold tex2txt
  simp only []
  rw [hrun]
  simp only [hrepl, hunkn, Bool.not_false, if_true, Bool.false_eq_true, if_false,
    PlainMacro.getTxtPos_charsOf, hc, List.map_map]
  rfl

/-! ### the reference on the level of segments -/

theorem orefMarks_itemsOf : ∀ (segs : List OSeg) (env : OEnv) (p : Nat),
    orefMarks env (oitemsOf p segs) = osegMarks env p segs
  | [], _, _ => rfl
  | .txt s :: rest, env, p => by
    simp only [oitemsOf, osegMarks, orefMarks_chrItems, orefMarks_itemsOf rest]
  | .defn kw name n dflt body :: rest, env, p => by
    simp only [oitemsOf, osegMarks, orefMarks, orefMarks_itemsOf rest]
  | .use name opt args :: rest, env, p => by
    simp only [oitemsOf, osegMarks, orefMarks, orefMarks_itemsOf rest]

theorem orefUnknowns_itemsOf : ∀ (segs : List OSeg) (env : OEnv) (p : Nat),
    orefUnknowns env (oitemsOf p segs) = osegUnknowns env segs
  | [], _, _ => rfl
  | .txt s :: rest, env, p => by
    simp only [oitemsOf, osegUnknowns, orefUnknowns_chrItems, orefUnknowns_itemsOf rest]
  | .defn kw name n dflt body :: rest, env, p => by
    simp only [oitemsOf, osegUnknowns, orefUnknowns, orefUnknowns_itemsOf rest]
  | .use name opt args :: rest, env, p => by
    simp only [oitemsOf, osegUnknowns, orefUnknowns, orefUnknowns_itemsOf rest]

theorem orefInserted_itemsOf : ∀ (segs : List OSeg) (env : OEnv) (p : Nat),
    orefInserted env (oitemsOf p segs) = osegInserted env p segs
  | [], _, _ => rfl
  | .txt s :: rest, env, p => by
    simp only [oitemsOf, osegInserted, orefInserted_chrItems, orefInserted_itemsOf rest]
  | .defn kw name n dflt body :: rest, env, p => by
    simp only [oitemsOf, osegInserted, orefInserted, orefInserted_itemsOf rest]
  | .use name opt args :: rest, env, p => by
    simp only [oitemsOf, osegInserted, orefInserted, orefInserted_itemsOf rest]

theorem orefArity_itemsOf : ∀ (segs : List OSeg) (env : OEnv) (p : Nat),
    orefArity env (oitemsOf p segs) = oarityOk env segs
  | [], _, _ => rfl
  | .txt s :: rest, env, p => by
    simp only [oitemsOf, oarityOk, orefArity_chrItems, orefArity_itemsOf rest]
  | .defn kw name n dflt body :: rest, env, p => by
    simp only [oitemsOf, oarityOk, orefArity, orefArity_itemsOf rest]
  | .use name opt args :: rest, env, p => by
    simp only [oitemsOf, oarityOk, orefArity, orefArity_itemsOf rest]

/-- all side conditions on the tables, the initialised parser state and the document -/
def OSegsOk (T : PTables) (st : PState) (segs : List OSeg) : Prop :=
  noEmptyActive T st = true ∧ osegsOk T st segs = true ∧ oarityOk [] segs = true

instance (T : PTables) (st : PState) (segs : List OSeg) : Decidable (OSegsOk T st segs) := by
  unfold OSegsOk; infer_instance

/-- **C09 / C04 end to end, definitions with an optional first parameter and a default value.** -/
theorem tex2txt_renewcommand_default (T : PTables) (o : Options) (fs : FS) (thresh : Nat) (segs : List OSeg)
    (fuel : Nat) (st1 : PState)
    (hdefs : o.defs = []) (hextr : o.extr = []) (hrepl : o.hasRepl = false) (hunkn : o.unkn = false)
    (hinit : initParser T fuel o (initialState T o false fs) = .ok ((), st1))
    (hok : OSegsOk T st1 segs) (hf : (orender segs).length + osegInserted [] 0 segs + 6 ≤ fuel) :
    ∃ r, tex2txt T fuel (orender segs) o false thresh fs = .ok r ∧
      r.txt = (delLines (osegMarks [] 0 segs)).map (·.1) ∧
      r.pos = (delLines (osegMarks [] 0 segs)).map (·.2 + 1) ∧
      r.unknowns = (osegUnknowns [] segs).eraseDups ∧
      r.diags = st1.diags ∧ r.parts = [] := by
  obtain ⟨ha, hsegs, har⟩ := hok
  have hsrc := OkSrcO_of_segsOk T st1 segs 0 hsegs
  obtain ⟨toks, ht⟩ := tex2txt_opt_src T o fs thresh (orender segs) fuel st1 _ hdefs hextr hrepl hunkn
    hinit ha hsrc (by rw [orefArity_itemsOf]; exact har)
    (by rw [orefInserted_itemsOf]; exact hf)
  rw [orefMarks_itemsOf, orefUnknowns_itemsOf] at ht
  exact ⟨_, ht, rfl, rfl, rfl, rfl, rfl⟩

end PlainOptArg
end Yalafi
