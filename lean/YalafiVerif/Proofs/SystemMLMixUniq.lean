/-
  Proofs/SystemMLMixUniq.lean — SYSTEM LEVEL, multi-language mode, documents of
  `C12_mixed_languages_e2e`: "EXACTLY ONE request" for a flagged word, although the pieces hold
  placeholders whose map entries repeat a position.

  A short inclusion `incl` (a section of at most `thresh` words that was cut out of the surrounding
  piece) is a piece of its own AND is represented in the surrounding piece by a placeholder, whose
  map entries are (`phChars`): the position of the first character of `incl` if that is white space,
  then — once per character of the placeholder — the position `phPos incl` of the FIRST VISIBLE
  character of `incl`, then the position of the last character if that is white space (`phSet`; a
  blank inclusion is repeated verbatim).  So a position occurs twice among all requests only if it is
  in `phSet` of an inclusion.

    `renderFrom_count`     a position that is in no `phSet` occurs in the rendered pieces as often as in
                           the sections of the plan
    `rendered_count_le_one`, `pieces_count_le_one`   … hence at most once, among all requests
    `phSet_visible`        a position of a VISIBLE text character that is in `phSet incl` is `phPos incl`
    `word_section`         the word is a block of ONE section `s` of the document
    `two_free`             of two different visible positions of the word at most one is `phPos` of an
                           inclusion (both would be `phPos s`)
    `run_unique_mlmix`     if `2 ≤ |w|`, or if the first character of `w` is not the first visible
                           character of a non-blank inclusion that was replaced by a placeholder: the
                           request and the offset of the run `RunAt pos off |w| (q+1)` are unique
  For `|w| = 1` uniqueness FAILS when `w` is the first visible character of a short inclusion: in
  `This is \foreignlanguage{french}{un mot} and …` the entry `34` (the `u`) stands once in the request
  `fr: un mot` and five times (under `L-L-L`) in the request `en-GB: This is L-L-L and `
  (Properties/SystemMLMixStmt.lean, `C14_mlmix_single_char_not_unique`).
-/
import YalafiVerif.Proofs.SystemMLMixE2E
namespace Yalafi
namespace PlainLangMix
namespace Sys

open SystemWord Reports Html SystemML
open LinesLang (Item Mark ch isLg delLines)
open PlainLang (groupSecs shiftParts groupSecs_perm zip_fst_snd posText_mem posText_pairwise)
open PlainForeign (secsItems lcOf idxOf_lt not_blank_any)

/-! ### the positions of a placeholder -/

/-- the position of the first visible character of an inclusion -/
def phPos (incl : Sec) : Nat := (incl.pos[idxOf (fun c => !isSpace c) incl.txt]?).getD 0

/-- the positions that the representation of the inclusion `incl` in the surrounding piece carries -/
def phSet (incl : Sec) : List Nat :=
  if isBlank incl.txt then incl.pos else (phChars ['x'] incl).2

theorem ph_count (lang : Str) (a : Acc) (incl : Sec) (x : Nat) (h : x ∉ phSet incl) :
    (addComp lang a (.ph incl)).pos.count x = a.pos.count x := by
  simp only [addComp]
  split
  · rename_i hb
    simp only [phSet, hb, if_true] at h
    simp [List.count_append, List.count_eq_zero.mpr h]
  · rename_i hb
    simp only [phSet, hb, Bool.false_eq_true, if_false] at h
    simp only [List.count_append]
    have : x ∉ (phChars ((rotate ((lcGet a.lc (checkParserLang (a.lc.map (·.1)) lang)).getD [])).headD []) incl).2 := by
      intro hx
      apply h
      simp only [phChars, List.mem_append, List.mem_replicate] at hx ⊢
      rcases hx with (hx | ⟨_, hx⟩) | hx
      · exact Or.inl (Or.inl hx)
      · exact Or.inl (Or.inr ⟨by simp, hx⟩)
      · exact Or.inr hx
    rw [List.count_eq_zero.mpr this]
    rfl

theorem fold_count (lang : Str) (x : Nat) : ∀ (comps : List Comp) (a : Acc),
    (∀ incl, Comp.ph incl ∈ comps → x ∉ phSet incl) →
    (comps.foldl (addComp lang) a).pos.count x
      = a.pos.count x + ((comps.flatMap compOwn).flatMap (·.pos)).count x
  | [], a, _ => by simp
  | c :: cs, a, h => by
    simp only [List.foldl_cons]
    rw [fold_count lang x cs _ (fun incl hi => h incl (List.mem_cons_of_mem _ hi))]
    cases c with
    | own s =>
      simp [addComp, compOwn, List.count_append]
      omega
    | ph incl =>
      rw [ph_count lang a incl x (h incl (List.mem_cons_self ..))]
      simp [compOwn]

theorem renderFrom_count (x : Nat) : ∀ (gs : List Group) (a : Acc),
    (∀ g ∈ gs, ∀ incl, Comp.ph incl ∈ g.comps → x ∉ phSet incl) →
    ((renderFrom a gs).flatMap (·.pos)).count x
      ≤ a.pos.count x + ((planSecs gs).flatMap (·.pos)).count x
  | [], a, _ => by simp [renderFrom]
  | g :: gs, a, h => by
    have ih := renderFrom_count x gs ⟨[], [], (g.comps.foldl (addComp g.lang) a).lc⟩
      (fun g' hg' => h g' (List.mem_cons_of_mem _ hg'))
    simp only [renderFrom, List.flatMap_append, List.flatMap_cons, List.count_append, accSec]
    rw [fold_count g.lang x g.comps a (h g (List.mem_cons_self ..))]
    simp only [planSecs, groupOwn, List.flatMap_cons, List.flatMap_append, List.count_append,
      List.count_nil] at ih ⊢
    omega

/-! ### a position that is in no `phSet` occurs at most once among all requests -/

theorem sec_pos_eq (s : Sec) (h : s.pos.length = s.txt.length) : s.pos = (secChars s).map (·.2) := by
  simp only [secChars]
  exact (List.map_snd_zip (Nat.le_of_eq h)).symm

theorem refSecs_wf (T : PTables) (main : Str) (segs : List Seg) : ∀ s ∈ refSecs T main segs, SecWf s :=
  secsItems_wf _ _ _ _ _

theorem refSecs_pos_nodup (T : PTables) (main : Str) (segs : List Seg) :
    ((refSecs T main segs).flatMap (·.pos)).Nodup := by
  have h1 : (refSecs T main segs).flatMap (·.pos)
      = ((refSecs T main segs).flatMap secChars).map (·.2) := by
    rw [List.map_flatMap]
    exact SystemML.flatMap_congr' _ _ _ (fun s hs => sec_pos_eq s (refSecs_wf T main segs s hs).len)
  rw [h1, (refSecs_chars T main segs).1]
  exact (refPlan_once T main 0 segs).2.1

theorem rendered_count_le_one (T : PTables) (main : Str) (thresh : Nat) (lc : LangChange) (segs : List Seg)
    (x : Nat) (hfree : ∀ g ∈ refPlan T main thresh segs, ∀ incl, Comp.ph incl ∈ g.comps → x ∉ phSet incl) :
    ((renderGroups lc (refPlan T main thresh segs)).flatMap (·.pos)).count x ≤ 1 := by
  have h := renderFrom_count x (refPlan T main thresh segs) ⟨[], [], lc⟩ hfree
  have hp : ((planSecs (refPlan T main thresh segs)).flatMap (·.pos)).count x
      = ((refSecs T main segs).flatMap (·.pos)).count x :=
    ((planOf_perm thresh (refSecs T main segs)).flatMap_right _).count_eq x
  have hn := (refSecs_pos_nodup T main segs).count (a := x)
  rw [hp] at h
  simp only [List.count_nil, Nat.zero_add] at h
  unfold renderGroups
  split at hn <;> omega

theorem count_map_succ (l : List Nat) (x : Nat) : (l.map (· + 1)).count (x + 1) = l.count x := by
  induction l with
  | nil => rfl
  | cons y l ih => simp [List.count_cons, ih]

theorem pieces_count_le_one (T : PTables) (main : Str) (thresh : Nat) (lc : LangChange) (segs : List Seg)
    (x : Nat) (hfree : ∀ g ∈ refPlan T main thresh segs, ∀ incl, Comp.ph incl ∈ g.comps → x ∉ phSet incl) :
    ((shellPieces (refParts T main thresh lc segs)).flatMap (·.2.2)).count (x + 1) ≤ 1 := by
  have hsub := SystemML.shellPieces_sublist (refParts T main thresh lc segs)
    (refParts_lengths T main thresh lc segs)
  have h1 := hsub.count_le (x + 1)
  have h2 : (PlainLang.partChars (refParts T main thresh lc segs)).map (·.2)
      = ((((groupSecs (renderGroups lc (refPlan T main thresh segs))).flatMap (·.2)).flatMap
          PlainLang.tpChars).map (·.2)).map (· + 1) := by
    unfold refParts
    rw [PlainLang.partChars_shift, List.map_map, List.map_map]
    rfl
  have hperm := (((groupSecs_perm (renderGroups lc (refPlan T main thresh segs))).flatMap_right
    PlainLang.tpChars).map (·.2)).count_eq x
  have h3 : (((renderGroups lc (refPlan T main thresh segs)).map (fun s => (s.txt, s.pos))).flatMap
      PlainLang.tpChars).map (·.2) = (renderGroups lc (refPlan T main thresh segs)).flatMap (·.pos) := by
    rw [List.flatMap_map, List.map_flatMap]
    exact SystemML.flatMap_congr' _ _ _ (fun s hs =>
      (sec_pos_eq s (renderGroups_len T main thresh lc segs s hs)).symm)
  rw [h2, count_map_succ, hperm, h3] at h1
  exact Nat.le_trans h1 (rendered_count_le_one T main thresh lc segs x hfree)

/-! ### from "at most once" to the index and the offset -/

theorem count_index : ∀ {l : List Nat} {v : Nat}, l.count v ≤ 1 → ∀ {o o' : Nat},
    l[o]? = some v → l[o']? = some v → o = o'
  | [], _, _, o, _, ho, _ => by simp at ho
  | y :: l, v, h, o, o', ho, ho' => by
    rw [List.count_cons] at h
    cases o with
    | zero =>
      cases o' with
      | zero => rfl
      | succ o' =>
        simp only [List.getElem?_cons_zero, Option.some.injEq] at ho
        simp only [List.getElem?_cons_succ] at ho'
        have := List.count_pos_iff.mpr (List.mem_of_getElem? ho')
        subst ho
        simp at h
        omega
    | succ o =>
      cases o' with
      | zero =>
        simp only [List.getElem?_cons_zero, Option.some.injEq] at ho'
        simp only [List.getElem?_cons_succ] at ho
        have := List.count_pos_iff.mpr (List.mem_of_getElem? ho)
        subst ho'
        simp at h
        omega
      | succ o' =>
        simp only [List.getElem?_cons_succ] at ho ho'
        rw [count_index (l := l) (by omega) ho ho']

theorem count_flatMap_index {α} (f : α → List Nat) (v : Nat) : ∀ (l : List α), (l.flatMap f).count v ≤ 1 →
    ∀ (i j : Nat) (a b : α), l[i]? = some a → l[j]? = some b → v ∈ f a → v ∈ f b → i = j
  | [], _, i, j, a, b, hi, _, _, _ => by simp at hi
  | x :: l, h, i, j, a, b, hi, hj, ha, hb => by
    simp only [List.flatMap_cons, List.count_append] at h
    cases i with
    | zero =>
      cases j with
      | zero => rfl
      | succ j =>
        simp only [List.getElem?_cons_zero, Option.some.injEq] at hi
        simp only [List.getElem?_cons_succ] at hj
        subst hi
        have h1 := List.count_pos_iff.mpr ha
        have h2 := List.count_pos_iff.mpr (List.mem_flatMap.mpr ⟨b, List.mem_of_getElem? hj, hb⟩)
        omega
    | succ i =>
      cases j with
      | zero =>
        simp only [List.getElem?_cons_zero, Option.some.injEq] at hj
        simp only [List.getElem?_cons_succ] at hi
        subst hj
        have h1 := List.count_pos_iff.mpr hb
        have h2 := List.count_pos_iff.mpr (List.mem_flatMap.mpr ⟨a, List.mem_of_getElem? hi, ha⟩)
        omega
      | succ j =>
        simp only [List.getElem?_cons_succ] at hi hj
        rw [count_flatMap_index f v l (by omega) i j a b hi hj ha hb]

theorem piece_count_le {α} (f : α → List Nat) (v : Nat) (l : List α) (a : α) (h : a ∈ l) :
    (f a).count v ≤ (l.flatMap f).count v := by
  obtain ⟨A, B, rfl⟩ := List.append_of_mem h
  simp only [List.flatMap_append, List.flatMap_cons, List.count_append]
  omega

/-- if the entry number `k` of the run occurs at most once among all requests, the request and the
    offset of the run are determined -/
theorem run_unique_at (pieces : List Req) (q l k : Nat) (hk : k < l)
    (hc : (pieces.flatMap (·.2.2)).count (q + k + 1) ≤ 1)
    (i j : Nat) (pc pc' : Req) (off off' : Nat) (hi : pieces[i]? = some pc) (hj : pieces[j]? = some pc')
    (hr : RunAt pc.2.2 off l (q + 1)) (hr' : RunAt pc'.2.2 off' l (q + 1)) : i = j ∧ off = off' := by
  have a := hr.get k hk
  have b := hr'.get k hk
  have e : q + 1 + k = q + k + 1 := by omega
  rw [e] at a b
  have hij := count_flatMap_index (fun pc : Req => pc.2.2) (q + k + 1) pieces hc i j pc pc' hi hj
    (List.mem_of_getElem? a) (List.mem_of_getElem? b)
  subst hij
  rw [hi] at hj
  cases hj
  have hpc := piece_count_le (fun pc : Req => pc.2.2) (q + k + 1) pieces pc (List.mem_of_getElem? hi)
  have := count_index (Nat.le_trans hpc hc) a b
  exact ⟨rfl, by omega⟩

/-! ### the positions of a placeholder are `phPos` or positions of white space -/

theorem concat_of_ne_nil {α} : ∀ (l : List α), l ≠ [] → ∃ L b, l = L ++ [b]
  | [], h => absurd rfl h
  | [a], _ => ⟨[], a, rfl⟩
  | a :: b :: l, _ => by
    obtain ⟨L, c, h⟩ := concat_of_ne_nil (b :: l) (by simp)
    exact ⟨a :: L, c, by rw [h]; rfl⟩

theorem phSet_mem (incl : Sec) (hw : SecWf incl) (x : Nat) (hx : x ∈ phSet incl) :
    (isBlank incl.txt = false ∧ x = phPos incl) ∨ ∃ c, isSpace c = true ∧ (c, x) ∈ secChars incl := by
  unfold phSet at hx
  split at hx
  · rename_i hb
    right
    obtain ⟨i, hi, hget⟩ := List.getElem_of_mem hx
    have hi' : i < incl.txt.length := by rw [← hw.len]; exact hi
    refine ⟨incl.txt[i], ?_, ?_⟩
    · unfold isBlank at hb
      exact (List.all_eq_true.mp hb) _ (List.getElem_mem hi')
    · simp only [secChars]
      rw [← hget]
      have : i < (incl.txt.zip incl.pos).length := by simp [List.length_zip]; omega
      have h2 := List.getElem_mem this
      rwa [List.getElem_zip] at h2
  · rename_i hb
    have hb' : isBlank incl.txt = false := by simpa using hb
    obtain ⟨ti, cl, htxt⟩ := concat_of_ne_nil incl.txt hw.ne
    have hpne : incl.pos ≠ [] := by
      intro e
      have := hw.len
      rw [e, htxt] at this
      simp at this
    obtain ⟨pi, pl, hpos⟩ := concat_of_ne_nil incl.pos hpne
    have hlen : ti.length = pi.length := by
      have := hw.len
      rw [htxt, hpos] at this
      simp at this
      omega
    have hzip : secChars incl = ti.zip pi ++ [(cl, pl)] := by
      simp only [secChars, htxt, hpos]
      rw [List.zip_append hlen]
      rfl
    simp only [phChars, List.mem_append, List.mem_replicate] at hx
    rcases hx with (hx | ⟨_, hx⟩) | hx
    · right
      split at hx
      · rename_i hs
        simp only [List.mem_singleton] at hx
        cases hti : ti with
        | nil =>
          have hpi : pi = [] := by
            cases pi with
            | nil => rfl
            | cons _ _ => rw [hti] at hlen; simp at hlen
          rw [hti] at htxt
          rw [hpi] at hpos
          rw [htxt] at hs
          rw [hpos] at hx
          refine ⟨cl, by simpa using hs, ?_⟩
          rw [hzip, hti, hpi, hx]
          simp
        | cons c0 cs =>
          cases hpi : pi with
          | nil => rw [hti, hpi] at hlen; simp at hlen
          | cons p0 ps =>
            rw [hti] at htxt
            rw [hpi] at hpos
            rw [htxt] at hs
            rw [hpos] at hx
            refine ⟨c0, by simpa using hs, ?_⟩
            rw [hzip, hti, hpi, hx]
            simp
      · cases hx
    · exact Or.inl ⟨hb', hx⟩
    · right
      split at hx
      · rename_i hs
        simp only [List.mem_singleton] at hx
        rw [htxt] at hs
        rw [hpos] at hx
        refine ⟨cl, by simpa using hs, ?_⟩
        rw [hzip, hx]
        simp
      · cases hx

theorem phPos_mem (incl : Sec) (hw : SecWf incl) (hb : isBlank incl.txt = false) : phPos incl ∈ incl.pos := by
  have hlt := idxOf_lt (fun c => !isSpace c) incl.txt (not_blank_any incl.txt hb)
  have hlt' : idxOf (fun c => !isSpace c) incl.txt < incl.pos.length := by rw [hw.len]; exact hlt
  unfold phPos
  rw [List.getElem?_eq_getElem hlt']
  exact List.getElem_mem hlt'

theorem textChars_fun (segs : List Seg) (c c' : Char) (x : Nat) (h : (c, x) ∈ textChars 0 segs)
    (h' : (c', x) ∈ textChars 0 segs) : c = c' := by
  have a := (textChars_render segs 0 (c, x) h).2
  have b := (textChars_render segs 0 (c', x) h').2
  rw [a] at b
  exact Option.some.inj b

/-- a position of a VISIBLE text character that a placeholder carries is the position of the first
    visible character of the inclusion -/
theorem phSet_visible (T : PTables) (main : Str) (segs : List Seg) (incl : Sec)
    (hincl : incl ∈ refSecs T main segs) (c0 : Char) (x : Nat) (hc : (c0, x) ∈ textChars 0 segs)
    (hv : isSpace c0 = false) (hx : x ∈ phSet incl) : isBlank incl.txt = false ∧ x = phPos incl := by
  rcases phSet_mem incl (refSecs_wf T main segs incl hincl) x hx with h | ⟨c, hcs, hm⟩
  · exact h
  · exfalso
    have := (refSecs_lang T main segs incl hincl (c, x) hm).1
    have e := textChars_fun segs c c0 x this hc
    rw [e, hv] at hcs
    cases hcs

/-! ### the word is a block of one section -/

theorem word_section (T : PTables) (main : Str) (segs pre post : List Seg) (sg : Seg) (d : Nat)
    (a w b : Str) (hsegs : segs = pre ++ sg :: post) (hd : hostOff sg = some d)
    (ht : hostText sg = a ++ (w ++ b)) (hw : wordEnds w = true) :
    ∃ s ∈ refSecs T main segs, ∃ C D,
      secChars s = C ++ (posText ((render pre).length + d + a.length) w ++ D) := by
  obtain ⟨hW, hlast⟩ := posText_word ((render pre).length + d + a.length) hw
  obtain ⟨A, B, hm⟩ := marks_word T segs pre post sg d a w b hsegs hd ht
  obtain ⟨X, Y, hdl⟩ := SystemML.delLines_word A B (posText ((render pre).length + d + a.length) w) hW hlast
  rw [← hm] at hdl
  have hne : posText ((render pre).length + d + a.length) w ≠ [] := by
    obtain ⟨w0, W', h0, _⟩ := hW
    rw [h0]; simp
  obtain ⟨s, hs, C, D, hst, hsp⟩ := secsItems_block X [main] false false [] _ Y hne
  rw [← hdl] at hs
  exact ⟨s, hs, C, D, by simp only [secChars, hst, hsp, zip_fst_snd]⟩

/-- two sections of the document that share a position are the same section -/
theorem sec_share (T : PTables) (main : Str) (segs : List Seg) (s1 s2 : Sec)
    (h1 : s1 ∈ refSecs T main segs) (h2 : s2 ∈ refSecs T main segs) (x : Nat)
    (hx1 : x ∈ s1.pos) (hx2 : x ∈ s2.pos) : s1 = s2 := by
  obtain ⟨i, hi, hgi⟩ := List.getElem_of_mem h1
  obtain ⟨j, hj, hgj⟩ := List.getElem_of_mem h2
  have e1 : (refSecs T main segs)[i]? = some s1 := by rw [List.getElem?_eq_getElem hi, hgi]
  have e2 : (refSecs T main segs)[j]? = some s2 := by rw [List.getElem?_eq_getElem hj, hgj]
  have := SystemML.nodup_flatMap_index (fun s : Sec => s.pos) _ (refSecs_pos_nodup T main segs) i j s1 s2 x
    e1 e2 hx1 hx2
  subst this
  rw [e1] at e2
  exact Option.some.inj e2

/-! ### exactly one request -/

/-- **exactly one request, exactly one offset**: if the word has at least two characters, or if its
    first character is not the first visible character of a non-blank inclusion that is represented
    by a placeholder, then the run `RunAt pos off |w| (q+1)` stands in one request of the shell only,
    at one offset only -/
theorem run_unique_mlmix (T : PTables) (main : Str) (thresh : Nat) (lc : LangChange)
    (segs pre post : List Seg) (sg : Seg) (d : Nat) (a w b : Str)
    (hsegs : segs = pre ++ sg :: post) (hd : hostOff sg = some d) (ht : hostText sg = a ++ (w ++ b))
    (hw : wordEnds w = true)
    (hfree : 2 ≤ w.length ∨ ∀ g ∈ refPlan T main thresh segs, ∀ incl, Comp.ph incl ∈ g.comps →
      isBlank incl.txt = false → phPos incl ≠ (render pre).length + d + a.length) :
    ∀ (i j : Nat) (pc pc' : Req) (off off' : Nat),
      (shellPieces (refParts T main thresh lc segs))[i]? = some pc →
      (shellPieces (refParts T main thresh lc segs))[j]? = some pc' →
      RunAt pc.2.2 off w.length ((render pre).length + d + a.length + 1) →
      RunAt pc'.2.2 off' w.length ((render pre).length + d + a.length + 1) → i = j ∧ off = off' := by
  intro i j pc pc' off off' hi hj hr hr'
  obtain ⟨s, hs, C, D, hsc⟩ := word_section T main segs pre post sg d a w b hsegs hd ht hw
  obtain ⟨⟨w0, W', h0, hv0⟩, hlast⟩ := posText_word ((render pre).length + d + a.length) hw
  have hswf := refSecs_wf T main segs s hs
  -- the characters of the word are text characters of the document, in `s`
  have hin : ∀ cp ∈ posText ((render pre).length + d + a.length) w,
      cp ∈ textChars 0 segs ∧ cp.2 ∈ s.pos := by
    intro cp hcp
    have hm : cp ∈ secChars s := by rw [hsc]; simp [hcp]
    refine ⟨(refSecs_lang T main segs s hs cp hm).1, ?_⟩
    rw [sec_pos_eq s hswf.len]
    exact List.mem_map_of_mem hm
  -- a visible character of the word whose position is no `phPos` decides
  have claim : ∀ cp ∈ posText ((render pre).length + d + a.length) w, isSpace cp.1 = false →
      (∀ g ∈ refPlan T main thresh segs, ∀ incl, Comp.ph incl ∈ g.comps →
        isBlank incl.txt = false → phPos incl ≠ cp.2) → i = j ∧ off = off' := by
    intro cp hcp hv hne
    have hb := posText_mem w _ cp hcp
    have hfree' : ∀ g ∈ refPlan T main thresh segs, ∀ incl, Comp.ph incl ∈ g.comps → cp.2 ∉ phSet incl := by
      intro g hg incl hc hx
      have hincl : incl ∈ refSecs T main segs := planOf_comp_mem thresh _ g hg (.ph incl) hc
      obtain ⟨k1, k2⟩ := phSet_visible T main segs incl hincl cp.1 cp.2 (hin cp hcp).1 hv hx
      exact hne g hg incl hc k1 k2.symm
    have hcount := pieces_count_le_one T main thresh lc segs cp.2 hfree'
    have e : cp.2 = (render pre).length + d + a.length + (cp.2 - ((render pre).length + d + a.length)) := by
      omega
    rw [e] at hcount
    exact run_unique_at _ _ w.length (cp.2 - ((render pre).length + d + a.length)) (by omega) hcount
      i j pc pc' off off' hi hj hr hr'
  have hw0 : w0 ∈ posText ((render pre).length + d + a.length) w := by rw [h0]; simp
  have hq : w0.2 = (render pre).length + d + a.length := by
    obtain ⟨⟨c, cs, hc, _⟩, _⟩ := wordEnds_facts hw
    have hh : (posText ((render pre).length + d + a.length) w).head? = some w0 := by rw [h0]; rfl
    rw [hc] at hh
    simp only [posText, List.head?_cons, Option.some.injEq] at hh
    rw [← hh]
  by_cases hfirst : ∀ g ∈ refPlan T main thresh segs, ∀ incl, Comp.ph incl ∈ g.comps →
      isBlank incl.txt = false → phPos incl ≠ w0.2
  · exact claim w0 hw0 hv0 hfirst
  · -- the first character is the first visible character of a short inclusion: the last one is not
    have h2 : 2 ≤ w.length := by
      rcases hfree with h | h
      · exact h
      · rw [← hq] at h; exact absurd h hfirst
    have hlw : (posText ((render pre).length + d + a.length) w).length = w.length := by
      rw [← List.length_map (f := (·.1)), posText_fst]
    have hW' : W' ≠ [] := by
      intro e
      rw [h0, e] at hlw
      simp at hlw
      omega
    obtain ⟨L, wl, hL⟩ := concat_of_ne_nil W' hW'
    have hwl : wl ∈ posText ((render pre).length + d + a.length) w := by rw [h0, hL]; simp
    have hvl : isSpace wl.1 = false := by
      apply hlast wl
      rw [h0, hL, ← List.cons_append]
      exact List.getLast?_concat
    have hlt : w0.2 < wl.2 := by
      have hpw := posText_pairwise w ((render pre).length + d + a.length)
      rw [h0, hL] at hpw
      exact (List.pairwise_cons.mp hpw).1 wl (by simp)
    apply claim wl hwl hvl
    intro g' hg' incl' hc' hb' he'
    apply hfirst
    intro g hg incl hc hb he
    have hi1 : incl ∈ refSecs T main segs := planOf_comp_mem thresh _ g hg (.ph incl) hc
    have hi2 : incl' ∈ refSecs T main segs := planOf_comp_mem thresh _ g' hg' (.ph incl') hc'
    have m1 := phPos_mem incl (refSecs_wf T main segs incl hi1) hb
    have m2 := phPos_mem incl' (refSecs_wf T main segs incl' hi2) hb'
    rw [he] at m1
    rw [he'] at m2
    have e1 := sec_share T main segs incl s hi1 hs w0.2 m1 (hin w0 hw0).2
    have e2 := sec_share T main segs incl' s hi2 hs wl.2 m2 (hin wl hwl).2
    rw [e1] at he
    rw [e2] at he'
    omega

/-- computable: no non-blank inclusion that is represented by a placeholder has its first visible
    character at position `q` -/
def phFree (plan : List Group) (q : Nat) : Bool :=
  plan.all (fun g => g.comps.all (fun c =>
    match c with
    | .ph incl => isBlank incl.txt || (phPos incl != q)
    | .own _ => true))

theorem phFree_spec (plan : List Group) (q : Nat) (h : phFree plan q = true) :
    ∀ g ∈ plan, ∀ incl, Comp.ph incl ∈ g.comps → isBlank incl.txt = false → phPos incl ≠ q := by
  intro g hg incl hc hb
  simp only [phFree, List.all_eq_true] at h
  have := h g hg (.ph incl) hc
  simp only [hb, Bool.false_or, bne_iff_ne, ne_eq] at this
  exact this

/-- **exactly one request, end to end** (documents of `C12_mixed_languages_e2e`); the statement is
    explained at `C14_flagged_word_mlmix_unique` -/
theorem flagged_word_mlmix_unique (T : PTables) (o : Options) (fs : FS) (thresh : Nat) (segs : List Seg)
    (fuel : Nat) (st1 : PState)
    (hdefs : o.defs = []) (hextr : o.extr = []) (hrepl : o.hasRepl = false)
    (hinit : initParser T fuel o (initialState T o true fs) = .ok ((), st1))
    (hml : st1.multiLanguage = true) (hstk : st1.langStack ≠ [])
    (hlc : lcOk (lcOf st1) = true)
    (hok : segsOk T st1 segs = true)
    (hf : (render segs).length + 2 ≤ fuel)
    (pre post : List Seg) (sg : Seg) (d : Nat) (a w b : Str) (hsegs : segs = pre ++ sg :: post)
    (hd : hostOff sg = some d) (ht : hostText sg = a ++ (w ++ b)) (hw : wordEnds w = true)
    (hfree : 2 ≤ w.length ∨
      phFree (refPlan T o.lang thresh segs) ((render pre).length + d + a.length) = true) :
    ∃ r, tex2txt T fuel (render segs) o true thresh fs = .ok r ∧
      ∀ (i j : Nat) (pc pc' : Req) (off off' : Nat),
        (shellPieces r.parts)[i]? = some pc → (shellPieces r.parts)[j]? = some pc' →
        RunAt pc.2.2 off w.length ((render pre).length + d + a.length + 1) →
        RunAt pc'.2.2 off' w.length ((render pre).length + d + a.length + 1) → i = j ∧ off = off' := by
  obtain ⟨r, h1, h2, _⟩ := tex2txt_mix T o fs thresh segs fuel st1 hdefs hextr hrepl
    hinit hml hstk hlc hok hf
  refine ⟨r, h1, ?_⟩
  rw [h2]
  exact run_unique_mlmix T o.lang thresh (lcOf st1) segs pre post sg d a w b hsegs hd ht hw
    (hfree.imp id (phFree_spec _ _))

end Sys
end PlainLangMix
end Yalafi
