/-
  Proofs/PlainComment.lean — C03 "hidden text never leaks" and C05 "text flow" for `%` comments,
  end to end on the model: the text of a comment never appears in the output; a comment ends at
  its line break and also swallows the white space at the beginning of the next line (as TeX
  does), unless the next line is blank — then the line break (the paragraph break) is kept.

  What the model does with a comment (checked against `yalafi/parser.py`, `expand_sequence`:
  `elif type(tok) is defs.CommentToken: pass`): the scanner makes one CommentToken of the span
  `commentLen`, the expander *drops* it — no Action token is left.  Hence the blank-line removal
  `remove_pure_action_lines` sees no Action token and is the identity: there are NO line
  conditions; trailing comments, comment-only lines, several comments in a row, a comment at the
  very end of the source are all covered by the one statement below.

  Spec level (independent of the scanner)
    `commentSpan rest`       the characters a comment takes that starts at the head of `rest`
    `stripComments src`      the reference output: characters outside comments with their positions
    `comments src`           start and span of the comments, as the left-to-right pass finds them
    `comText T st src`       the class of sources (computable): at every offset outside a comment
                             an ordinary comment starts (`comTokOk`) or an inert character stands
                             (`okAtC` = `inertAt` of Proofs/Plain.lean with a comment allowed behind)
    `Seg`, `render`, `segsOk`        documents as lists of text segments and comments
    `stateOk`, `segsOkSimple`        per-character / per-comment sufficient conditions
  Results
    `commentSpan_eq_commentLen`      the span is what `scan_comment` consumes
    `strip_text/_com/_eof`           the reference on a text segment / a comment `%t⏎` / a comment at
                                     the end of the source without line break
    `strip_get`                      every output character is the source character at its position
    `strip_avoids_comments`          no output position lies inside a comment span
    `scan_com`, `seq_com`            scanner and expander loop on a source of the class
    `parserWork_com`, `parse_com`    the lifts (unchanged state)
    `tex2txt_com_text`               `tex2txt`, complete result record, for a source of the class
    `tex2txt_comments`               `tex2txt` for `render segs`
    `comText_of_segsOk`, `segsOk_of_simple`

  Side conditions of the end-to-end theorems
    options / fuel           as in `tex2txt_plain_text`: no --defs, --extr, --repl, --unkn,
                             single-language mode, `src.length + 2 ≤ fuel`
    text characters          `okAtC`: white space, or no structural character (`% # \ $ { }`) and no
                             special sequence matches there; not an active character of the
                             language settings, or one that forms no short macro with the token
                             behind it (which may be a comment token)
    comments (`comTokOk`)    the text of the comment token does not start with `st1.skipBegin`
                             (`%%% LT-SKIP-BEGIN`; with `--nosp` the marker is `x` and the condition
                             is void) — otherwise the skip pre-pass of `parser_work` deletes
                             everything up to `%%% LT-SKIP-END`; and the token text is no active
                             character (no short macro starts with `%`) — otherwise
                             `expand_sequence` would hand it to `expand_short_macro`
    `Seg.com t`              `t` contains no line break (it is the text up to the line break); the
                             line break behind it is inert like a text character (it survives if a
                             blank line follows)
-/
import YalafiVerif.Proofs.Plain
namespace Yalafi
namespace Comment

open M

/-! ### the specification -/

/-- the number of characters a comment takes that starts at the head of `rest` (`rest = '%' :: _`):
    the `%`, the text up to the next line break (or the end of the source), and — unless the white
    space behind the line break contains another line break (a blank line follows) — the line break
    and all white space behind it -/
def commentSpan (rest : Str) : Nat :=
  let body := rest.tail.takeWhile (· != nl)
  match rest.tail.dropWhile (· != nl) with
  | [] => 1 + body.length
  | _ :: more =>
    let sp := more.takeWhile isSpace
    if hasNl sp then 1 + body.length else 1 + body.length + 1 + sp.length

/-- reference: delete the comments.  `skip` counts the characters of a comment that are still to
    be passed over; every other character is kept with its own position. -/
def stripA : Nat → Str → Nat → List (Char × Nat)
  | _, [], _ => []
  | skip + 1, _ :: cs, i => stripA skip cs (i + 1)
  | 0, c :: cs, i =>
    if c == '%' then stripA (commentSpan (c :: cs) - 1) cs (i + 1)
    else (c, i) :: stripA 0 cs (i + 1)

/-- the characters of `src` outside comments, each with its (0-based) source position -/
def stripComments (src : Str) : List (Char × Nat) := stripA 0 src 0

/-- the text of the comment token that starts at the head of `rest` -/
def comTxt (rest : Str) : Str := rest.take (commentSpan rest)

/-- the text of the first scanner token of a text of the class: a run of white space, a comment,
    or one character -/
def firstTokTxtC : Str → Str
  | [] => []
  | d :: ds =>
    if isSpace d then (d :: ds).takeWhile isSpace
    else if d == '%' then comTxt (d :: ds)
    else [d]

/-- the text character `c`, followed by `cs` (the whole rest of the source), is inert; this is
    `inertAt` of Proofs/Plain.lean, except that the token behind `c` may be a comment -/
def okAtC (T : PTables) (st : PState) (c : Char) (cs : Str) : Bool :=
  (!(activeChars T st).contains [c] ||
    (!isSpace c && (cs.isEmpty || !(shortKeys T st).contains (c :: firstTokTxtC cs)))) &&
  (isSpace c || (!structuralChar c && (matchSpecial T.toTables (c :: cs)).isNone))

/-- the comment token with text `txt` is an ordinary comment: it does not start with the marker
    `%%% LT-SKIP-BEGIN` of the skip pre-pass, and it is no "active character" of the language
    settings (no short macro starts with `%`) -/
def comTokOk (T : PTables) (st : PState) (txt : Str) : Bool :=
  !startsWith txt st.skipBegin && !(activeChars T st).contains txt

/-- the class of texts: at every offset that is not inside a comment there is a `%` that starts an
    ordinary comment, or an inert character -/
def comTextA (T : PTables) (st : PState) : Nat → Str → Bool
  | _, [] => true
  | skip + 1, _ :: cs => comTextA T st skip cs
  | 0, c :: cs =>
    if c == '%' then comTokOk T st (comTxt (c :: cs)) && comTextA T st (commentSpan (c :: cs) - 1) cs
    else okAtC T st c cs && comTextA T st 0 cs

def comText (T : PTables) (st : PState) (s : Str) : Bool := comTextA T st 0 s

/-- the characters of a text that starts at source position `p`, each with its position -/
def posText (p : Nat) : Str → List (Char × Nat)
  | [] => []
  | c :: cs => (c, p) :: posText (p + 1) cs

theorem posText_fst : ∀ (p : Nat) (s : Str), (posText p s).map (·.1) = s
  | _, [] => rfl
  | p, c :: cs => by simp [posText, posText_fst (p + 1) cs]

theorem posText_snd : ∀ (p : Nat) (s : Str), (posText p s).map (·.2) = List.range' p s.length
  | _, [] => rfl
  | p, c :: cs => by simp [posText, posText_snd (p + 1) cs, List.range'_succ]

/-! ### `commentSpan` is what `scan_comment` consumes -/

theorem drop_length_takeWhile {α} (p : α → Bool) :
    ∀ l : List α, l.drop (l.takeWhile p).length = l.dropWhile p
  | [] => rfl
  | a :: l => by
    by_cases h : p a = true
    · simp [h, drop_length_takeWhile p l]
    · simp [h]

theorem commentSpan_eq_commentLen (rest : Str) : commentSpan rest = commentLen rest := by
  cases rest with
  | nil => rfl
  | cons c cs =>
    simp only [commentSpan, commentLen, List.tail_cons]
    rw [show (c :: cs).drop (1 + (cs.takeWhile (· != nl)).length) = cs.dropWhile (· != nl) from by
      rw [Nat.add_comm, List.drop_succ_cons, drop_length_takeWhile]]
    cases cs.dropWhile (· != nl) <;> rfl

theorem commentSpan_bounds (c : Char) (cs : Str) :
    1 ≤ commentSpan (c :: cs) ∧ commentSpan (c :: cs) ≤ (c :: cs).length := by
  rw [commentSpan_eq_commentLen]
  exact ScannerAux.commentLen_bounds c cs

/-! ### the `skip` counter -/

theorem stripA_nil (n i : Nat) : stripA n [] i = [] := by cases n <;> rfl

theorem stripA_skip : ∀ (n : Nat) (s : Str) (i : Nat), stripA n s i = stripA 0 (s.drop n) (i + n)
  | 0, s, i => by simp
  | n + 1, [], i => by simp [stripA_nil]
  | n + 1, c :: cs, i => by
    rw [stripA, stripA_skip n cs (i + 1)]
    simp [Nat.add_assoc, Nat.add_comm 1 n]

theorem comTextA_nil (T : PTables) (st : PState) (n : Nat) : comTextA T st n [] = true := by
  cases n <;> rfl

theorem comTextA_skip (T : PTables) (st : PState) : ∀ (n : Nat) (s : Str),
    comTextA T st n s = comTextA T st 0 (s.drop n)
  | 0, s => by simp
  | n + 1, [] => by simp [comTextA_nil]
  | n + 1, c :: cs => by
    rw [comTextA, comTextA_skip T st n cs]
    simp

/-- the defining equations of the reference -/
theorem strip_nil (i : Nat) : stripA 0 [] i = [] := rfl

theorem strip_char (c : Char) (cs : Str) (i : Nat) (h : c ≠ '%') :
    stripA 0 (c :: cs) i = (c, i) :: stripA 0 cs (i + 1) := by
  simp [stripA, h]

theorem strip_percent (cs : Str) (i : Nat) :
    stripA 0 ('%' :: cs) i
      = stripA 0 (('%' :: cs).drop (commentSpan ('%' :: cs))) (i + commentSpan ('%' :: cs)) := by
  obtain ⟨k, hk⟩ : ∃ k, commentSpan ('%' :: cs) = k + 1 :=
    ⟨commentSpan ('%' :: cs) - 1, by have := (commentSpan_bounds '%' cs).1; omega⟩
  simp only [stripA, beq_self_eq_true, if_true]
  rw [stripA_skip, hk]
  simp [Nat.add_assoc, Nat.add_comm 1 k]

theorem comText_percent_eq (T : PTables) (st : PState) (cs : Str) :
    comTextA T st 0 ('%' :: cs)
      = (comTokOk T st (comTxt ('%' :: cs)) &&
         comTextA T st 0 (('%' :: cs).drop (commentSpan ('%' :: cs)))) := by
  obtain ⟨k, hk⟩ : ∃ k, commentSpan ('%' :: cs) = k + 1 :=
    ⟨commentSpan ('%' :: cs) - 1, by have := (commentSpan_bounds '%' cs).1; omega⟩
  simp only [comTextA, beq_self_eq_true, if_true]
  rw [comTextA_skip, hk]
  simp

theorem comText_percent (T : PTables) (st : PState) (cs : Str)
    (h : comTextA T st 0 ('%' :: cs) = true) :
    comTokOk T st (comTxt ('%' :: cs)) = true ∧
    comTextA T st 0 (('%' :: cs).drop (commentSpan ('%' :: cs))) = true := by
  rw [comText_percent_eq, Bool.and_eq_true] at h
  exact h

theorem okAtC_ne_percent {T : PTables} {st : PState} {c : Char} {cs : Str}
    (h : okAtC T st c cs = true) : c ≠ '%' := by
  intro e
  subst e
  simp [okAtC, structuralChar, show isSpace '%' = false by decide] at h

theorem comText_char (T : PTables) (st : PState) (c : Char) (cs : Str) (hc : c ≠ '%')
    (h : comTextA T st 0 (c :: cs) = true) :
    okAtC T st c cs = true ∧ comTextA T st 0 cs = true := by
  simpa [comTextA, hc] using h

/-- a run of characters without `%` in a text of the class -/
theorem drop_text (T : PTables) (st : PState) : ∀ (k : Nat) (s : Str),
    (∀ x ∈ s.take k, x ≠ '%') →
    (comTextA T st 0 s = true → comTextA T st 0 (s.drop k) = true) ∧
    (∀ i, stripA 0 s i = posText i (s.take k) ++ stripA 0 (s.drop k) (i + k))
  | 0, s, _ => by simp [posText]
  | k + 1, [], _ => by simp [posText, stripA]
  | k + 1, c :: cs, hx => by
    have hc : c ≠ '%' := hx c (by simp)
    obtain ⟨i1, i2⟩ := drop_text T st k cs (fun x hx' => hx x (by simp [hx']))
    refine ⟨fun h => ?_, fun i => ?_⟩
    · simpa using i1 (comText_char T st c cs hc h).2
    · rw [strip_char c cs i hc, i2 (i + 1)]
      simp [posText, Nat.add_assoc, Nat.add_comm 1 k]

/-! ### the token buffers -/

def notCom (t : Tok) : Bool := t.kind != .comment

/-- a comment token that `expandSequence` drops and the skip pre-pass does not look at -/
structure ComTok (T : PTables) (st : PState) (t : Tok) : Prop where
  kind : t.kind = .comment
  head : ∃ tl, t.txt = '%' :: tl
  nskip : startsWith t.txt st.skipBegin = false
  nact : (activeChars T st).contains t.txt = false

/-- a buffer of plain tokens (copied by `expandSequence`) and comment tokens (dropped) -/
def CSeq (T : PTables) (st : PState) : List Tok → Prop
  | [] => True
  | t :: rest => ((PlainTok t ∧ PassTok T st t rest) ∨ ComTok T st t) ∧ CSeq T st rest

theorem notCom_plain {t : Tok} (h : PlainTok t) : notCom t = true := by
  unfold Comment.notCom
  rcases h.kind with hk | hk | hk <;> simp [hk]

theorem ComTok.notCom {T : PTables} {st : PState} {t : Tok} (h : ComTok T st t) : notCom t = false := by
  simp [Comment.notCom, h.kind]

theorem CSeq.congr {T : PTables} {st st' : PState} (hl : st'.langStack = st.langStack)
    (hs : st'.skipBegin = st.skipBegin) : ∀ {toks : List Tok}, CSeq T st toks → CSeq T st' toks
  | [], _ => trivial
  | t :: rest, h => by
    refine ⟨?_, CSeq.congr hl hs h.2⟩
    rcases h.1 with ⟨h1, h2⟩ | hc
    · left
      refine ⟨h1, ?_⟩
      unfold PassTok
      rw [activeChars_congr T st st' hl, expandShortMacro_congr T st st' hl]
      exact h2
    · right
      exact ⟨hc.kind, hc.head, by rw [hs]; exact hc.nskip,
        by rw [activeChars_congr T st st' hl]; exact hc.nact⟩

/-- the tokens that are kept are plain -/
theorem CSeq.plain {T : PTables} {st : PState} : ∀ {toks : List Tok}, CSeq T st toks →
    ∀ t ∈ toks.filter notCom, PlainTok t
  | [], _, _, h => by simp at h
  | x :: rest, hs, t, ht => by
    rw [List.filter_cons] at ht
    rcases hs.1 with ⟨hp, _⟩ | hc
    · rw [notCom_plain hp, if_pos rfl] at ht
      rcases List.mem_cons.mp ht with rfl | ht
      · exact hp
      · exact CSeq.plain hs.2 t ht
    · rw [hc.notCom] at ht
      exact CSeq.plain hs.2 t ht

/-- the skip pre-pass does not see a begin marker -/
theorem CSeq.nobegin {T : PTables} {st : PState} : ∀ {toks : List Tok}, CSeq T st toks →
    ∀ t ∈ toks, (t.kind == .comment && startsWith t.txt st.skipBegin) = false
  | [], _, _, h => nomatch h
  | x :: rest, hs, t, ht => by
    rcases List.mem_cons.mp ht with rfl | ht
    · rcases hs.1 with ⟨hp, _⟩ | hc
      · have := hp.notComment
        simp [this]
      · simp [hc.nskip]
    · exact CSeq.nobegin hs.2 t ht

/-! ### one scanner step -/

theorem okAtC_snd {T : PTables} {st : PState} {c : Char} {cs : Str} (h : okAtC T st c cs = true) :
    isSpace c = true ∨ (structuralChar c = false ∧ matchSpecial T.toTables (c :: cs) = none) := by
  simp only [okAtC, Bool.and_eq_true, Bool.or_eq_true] at h
  rcases h.2 with h | ⟨h1, h2⟩
  · exact Or.inl h
  · refine Or.inr ⟨by simpa using h1, ?_⟩
    cases hx : matchSpecial T.toTables (c :: cs) with
    | none => rfl
    | some _ => rw [hx] at h2; simp at h2

/-- `nextToken_plain` of Proofs/Plain.lean needs only the second half of `inertAt` -/
theorem nextToken_text (T : PTables) (src : Str) (pos : Nat) (c : Char) (cs : Str)
    (hc : isSpace c = true ∨ (structuralChar c = false ∧ matchSpecial T.toTables (c :: cs) = none)) :
    PlainStep pos (c :: cs) (nextToken T.toTables src pos (c :: cs)) ∧
    (isSpace c = false → (nextToken T.toTables src pos (c :: cs)).len = 1) := by
  unfold nextToken
  by_cases hsp : isSpace c = true
  · simp only [hsp, if_true]
    have hne : (c :: cs).takeWhile isSpace = c :: cs.takeWhile isSpace := by
      simp [hsp]
    refine ⟨⟨rfl, rfl, ?_, ?_, ?_, rfl, rfl, ?_, ?_⟩, fun h0 => by simp at h0⟩
    · simp [scanSpace, hne]
    · exact ScannerAux.length_takeWhile_le' _ _
    · refine plainTok_of_head _ c (cs.takeWhile isSpace) ?_ ?_ (structuralChar_of_isSpace c hsp)
      · simp only [scanSpace]; exact hne
      · simp only [scanSpace]; split
        · exact Or.inr (Or.inl rfl)
        · exact Or.inr (Or.inr rfl)
    · simp only [scanSpace]
      exact (ScannerAux.take_length_takeWhile _ _).symm
    · simp only [scanSpace, firstTokTxt, hsp, if_true]
  · rcases hc with hc | ⟨hst, hm'⟩
    · exact absurd hc hsp
    · have hst' := hst
      simp only [structuralChar, Bool.or_eq_false_iff, beq_eq_false_iff_ne] at hst'
      obtain ⟨⟨⟨⟨⟨h1, h2⟩, h3⟩, _⟩, _⟩, _⟩ := hst'
      simp only [hsp, Bool.false_eq_true, if_false, beq_iff_eq, h1, h2, h3, hm']
      refine ⟨⟨rfl, rfl, Nat.le_refl _, by simp, ?_, rfl, rfl, by simp, ?_⟩, by simp⟩
      · exact plainTok_of_head _ c [] rfl (Or.inl rfl) hst
      · simp only [firstTokTxt, hsp, Bool.false_eq_true, if_false]

/-- the scanner on a `%` -/
theorem nextToken_percent (T : PTables) (src : Str) (pos : Nat) (cs : Str) :
    nextToken T.toTables src pos ('%' :: cs)
      = { tok := { kind := .comment, pos := pos, txt := comTxt ('%' :: cs) },
          len := commentSpan ('%' :: cs) } := by
  simp [nextToken, show isSpace '%' = false by decide, scanComment, comTxt, commentSpan_eq_commentLen]

theorem firstTokTxtC_of_text (c : Char) (cs : Str) (h : c ≠ '%') :
    firstTokTxtC (c :: cs) = firstTokTxt (c :: cs) := by
  unfold firstTokTxtC firstTokTxt
  by_cases hsp : isSpace c = true
  · simp [hsp]
  · simp [hsp, h]

theorem mem_takeWhile_imp {α} (p : α → Bool) : ∀ (l : List α) (x : α), x ∈ l.takeWhile p → p x = true
  | [], _, h => by simp at h
  | a :: l, x, h => by
    rw [List.takeWhile_cons] at h
    split at h
    · rcases List.mem_cons.mp h with rfl | h
      · assumption
      · exact mem_takeWhile_imp p l x h
    · simp at h

theorem isSpace_ne_percent {c : Char} (h : isSpace c = true) : c ≠ '%' := by
  intro e; subst e; exact absurd h (by decide)

/-! ### the scanner loop -/

theorem unzip_posText_append (p : Nat) (s : Str) (X : List (Char × Nat)) :
    ((posText p s ++ X).map (·.1), (posText p s ++ X).map (·.2))
      = (s ++ X.map (·.1), List.range' p s.length ++ X.map (·.2)) := by
  simp only [List.map_append, posText_fst, posText_snd]

/-- the scanner loop on a text of the class: complete, no diagnostics, the buffer is one that
    `seq_com` below handles, and the tokens that are no comments spell the reference output, with
    the source positions; at most one token per character -/
theorem scanSteps_com (T : PTables) (st : PState) (src : Str) :
    ∀ (fuel pos : Nat) (rest : Str), rest.length ≤ fuel → comTextA T st 0 rest = true →
    (scanSteps T.toTables src fuel pos rest).2 = true ∧
    (∀ s ∈ (scanSteps T.toTables src fuel pos rest).1,
        s.diag = none ∧ s.extra = [] ∧ s.tok.txt ≠ [] ∧ s.tok.fix = false) ∧
    CSeq T st ((scanSteps T.toTables src fuel pos rest).1.map (·.tok)) ∧
    (∀ s ss, (scanSteps T.toTables src fuel pos rest).1 = s :: ss → s.tok.txt = firstTokTxtC rest) ∧
    getTxtPos (((scanSteps T.toTables src fuel pos rest).1.map (·.tok)).filter notCom)
      = ((stripA 0 rest pos).map (·.1), (stripA 0 rest pos).map (·.2)) ∧
    (scanSteps T.toTables src fuel pos rest).1.length ≤ rest.length := by
  intro fuel
  induction fuel with
  | zero =>
    intro pos rest hf _
    cases rest with
    | nil => simp [scanSteps, getTxtPos, CSeq, stripA]
    | cons c cs => simp at hf
  | succ fuel ih =>
    intro pos rest hf hin
    cases rest with
    | nil => simp [scanSteps, getTxtPos, CSeq, stripA]
    | cons c cs =>
      by_cases hpc : c = '%'
      · -- a comment
        subst hpc
        obtain ⟨hck, hsub⟩ := comText_percent T st cs hin
        obtain ⟨b1, b2⟩ := commentSpan_bounds '%' cs
        have hl : (('%' :: cs).drop (commentSpan ('%' :: cs))).length ≤ fuel := by
          simp only [List.length_drop]; simp only [List.length_cons] at hf b2 ⊢; omega
        simp only [scanSteps, nextToken_percent]
        rw [if_neg (by simp; omega)]
        obtain ⟨i1, i2, i3, i4, i5, i6⟩ := ih (pos + commentSpan ('%' :: cs)) _ hl hsub
        have hne : comTxt ('%' :: cs) ≠ [] := by
          intro h0
          have := congrArg List.length h0
          simp only [comTxt, List.length_take, List.length_nil] at this
          omega
        have hhead : ∃ tl, comTxt ('%' :: cs) = '%' :: tl := by
          obtain ⟨k, hk⟩ : ∃ k, commentSpan ('%' :: cs) = k + 1 := ⟨commentSpan ('%' :: cs) - 1, by omega⟩
          exact ⟨cs.take k, by simp [comTxt, hk]⟩
        simp only [comTokOk, Bool.and_eq_true, Bool.not_eq_true'] at hck
        have hct : ComTok T st { kind := .comment, pos := pos, txt := comTxt ('%' :: cs) } :=
          ⟨rfl, hhead, hck.1, hck.2⟩
        refine ⟨i1, ?_, ?_, ?_, ?_, ?_⟩
        · intro x hx
          rcases List.mem_cons.mp hx with rfl | hx
          · exact ⟨rfl, rfl, hne, rfl⟩
          · exact i2 x hx
        · simp only [List.map_cons]
          exact ⟨Or.inr hct, i3⟩
        · intro s' ss' he
          simp only [List.cons.injEq] at he
          rw [← he.1]
          simp [firstTokTxtC, show isSpace '%' = false by decide]
        · simp only [List.map_cons, List.filter_cons, hct.notCom, Bool.false_eq_true, if_false]
          rw [i5, strip_percent]
        · simp only [List.length_cons, List.length_drop] at i6 b2 ⊢
          omega
      · -- a text character
        obtain ⟨hat, _⟩ := comText_char T st c cs hpc hin
        have hsnd := okAtC_snd hat
        obtain ⟨hp, hone⟩ := nextToken_text T src pos c cs hsnd
        generalize hs : nextToken T.toTables src pos (c :: cs) = s at hp hone
        have h1 := hp.len_pos
        have h2 := hp.len_le
        -- the characters of the token are no `%`
        have hnp : ∀ x ∈ (c :: cs).take s.len, x ≠ '%' := by
          intro x hx
          by_cases hsp : isSpace c = true
          · rw [← hp.txt, hp.first] at hx
            simp only [firstTokTxt, hsp, if_true] at hx
            exact isSpace_ne_percent (mem_takeWhile_imp _ _ _ hx)
          · rw [hone (by simpa using hsp)] at hx
            simp only [List.take_succ_cons, List.take_zero, List.mem_singleton] at hx
            rw [hx]; exact hpc
        obtain ⟨d1, d2⟩ := drop_text T st s.len (c :: cs) hnp
        simp only [scanSteps, hs]
        rw [if_neg (by simp; omega)]
        have hl : ((c :: cs).drop s.len).length ≤ fuel := by
          simp only [List.length_drop]; simp only [List.length_cons] at hf h2 ⊢; omega
        obtain ⟨i1, i2, i3, i4, i5, i6⟩ := ih (pos + s.len) ((c :: cs).drop s.len) hl (d1 hin)
        refine ⟨i1, ?_, ?_, ?_, ?_, ?_⟩
        · intro x hx
          rcases List.mem_cons.mp hx with rfl | hx
          · refine ⟨hp.diag, hp.extra, ?_, hp.fix⟩
            rw [hp.txt]
            intro h0
            have := congrArg List.length h0
            simp only [List.length_take, List.length_nil] at this
            omega
          · exact i2 x hx
        · simp only [List.map_cons]
          refine ⟨Or.inl ⟨hp.tok, ?_⟩, i3⟩
          -- the short-macro branch
          have hact := hat
          simp only [okAtC, Bool.and_eq_true, Bool.or_eq_true, Bool.not_eq_true'] at hact
          rcases hact.1 with hna | ⟨hns, hk⟩
          · left
            have : s.tok.txt = c :: (cs.take (s.len - 1)) := by
              rw [hp.txt]
              obtain ⟨k, hk⟩ : ∃ k, s.len = k + 1 := ⟨s.len - 1, by omega⟩
              rw [hk]; simp
            rw [this]
            exact not_active_cons T st c _ hna
          · right
            have hlen := hone hns
            have htxt : s.tok.txt = [c] := by rw [hp.txt, hlen]; rfl
            rw [hlen] at i4 ⊢
            simp only [List.drop_succ_cons, List.drop_zero] at i4 ⊢
            cases hr : (scanSteps T.toTables src fuel (pos + 1) cs).1 with
            | nil => rfl
            | cons s2 ss =>
              simp only [List.map_cons]
              apply expandShortMacro_none
              rw [htxt, i4 s2 ss hr]
              rcases hk with hk | hk
              · cases cs with
                | nil => cases fuel <;> simp [scanSteps] at hr
                | cons => simp at hk
              · simpa using hk
        · intro s' ss' he
          simp only [List.cons.injEq] at he
          rw [← he.1, hp.first]
          exact (firstTokTxtC_of_text c cs hpc).symm
        · simp only [List.map_cons, List.filter_cons, notCom_plain hp.tok, if_true]
          rw [getTxtPos_cons_plain _ _ hp.fix, i5, hp.pos, hp.txt, d2 pos, unzip_posText_append]
        · simp only [List.length_cons, List.length_drop] at i6 ⊢
          omega

/-- `scan` on a text of the class -/
theorem scan_com (T : PTables) (st : PState) (src : Str) (h : comText T st src = true) :
    (scan T.toTables src).complete = true ∧ (scan T.toTables src).diags = [] ∧
    CSeq T st (scan T.toTables src).toks ∧
    (∀ t ∈ (scan T.toTables src).toks, t.txt ≠ [] ∧ t.fix = false) ∧
    getTxtPos ((scan T.toTables src).toks.filter notCom)
      = ((stripComments src).map (·.1), (stripComments src).map (·.2)) ∧
    (scan T.toTables src).toks.length ≤ src.length := by
  obtain ⟨a, b, c, _, d, e⟩ := scanSteps_com T st src src.length 0 src (Nat.le_refl _) h
  have he := flatten_tok_extra (scanSteps T.toTables src src.length 0 src).1 (fun s hs => (b s hs).2.1)
  have hd := flatten_diag_nil (scanSteps T.toTables src src.length 0 src).1 (fun s hs => (b s hs).1)
  simp only [scan]
  rw [he, hd]
  refine ⟨a, rfl, c, ?_, d, ?_⟩
  · intro t ht
    obtain ⟨s, hs, rfl⟩ := List.mem_map.mp ht
    exact ⟨(b s hs).2.2.1, (b s hs).2.2.2⟩
  · simpa using e

/-! ### `expandSequence` -/

/-- a comment token is dropped; it costs one iteration -/
theorem seq_com_step (T : PTables) (fuel : Nat) (tok : Tok) (rest : Buf) (envStop : Option Str)
    (out : List Tok) (st : PState) (h : ComTok T st tok) :
    expandSequence T (fuel + 1) (tok :: rest) envStop out st
      = expandSequence T fuel rest envStop out st := by
  obtain ⟨hk, ⟨tl, ht⟩, _, hc⟩ := h
  have n1 : txtIs tok "$" = false := by simp [txtIs, ht]
  have n2 : txtIs tok "\\(" = false := by simp [txtIs, ht]
  have n3 : txtIs tok "$$" = false := by simp [txtIs, ht]
  have n4 : txtIs tok "\\[" = false := by simp [txtIs, ht]
  have n5 : txtIs tok "\\\\" = false := by simp [txtIs, ht]
  have n6 : txtIs tok "{" = false := by simp [txtIs, ht]
  have n7 : txtIs tok "}" = false := by simp [txtIs, ht]
  rw [expandSequence.eq_3]
  show M.bind' M.get _ st = _
  simp only [M.bind', M.get]
  simp only [hk, n1, n2, n3, n4, n5, n6, n7, hc, Bool.or_self, Bool.false_eq_true, if_false,
    reduceCtorEq, beq_iff_eq, beq_self_eq_true, if_true]

/-- the loop on a buffer of plain tokens and comments: the comments are dropped; every token
    costs one unit of fuel and the final call (empty buffer, blank-line removal) one more -/
theorem seq_com (T : PTables) (st : PState) (envStop : Option Str) :
    ∀ (toks : List Tok) (fuel : Nat) (out : List Tok), toks.length + 1 ≤ fuel →
      CSeq T st toks →
      expandSequence T fuel toks envStop out st
        = match removeLines (out ++ toks.filter notCom) with
          | some r => .ok ((r, []), st)
          | none => .outOfFuel := by
  intro toks
  induction toks with
  | nil =>
    intro fuel out hf _
    obtain ⟨f, rfl⟩ : ∃ f, fuel = f + 1 := ⟨fuel - 1, by simp at hf; omega⟩
    rw [expandSequence.eq_2, List.filter_nil, List.append_nil]
    cases removeLines out <;> rfl
  | cons t ts ih =>
    intro fuel out hf hp
    obtain ⟨f, rfl⟩ : ∃ f, fuel = f + 1 := ⟨fuel - 1, by simp at hf; omega⟩
    rcases hp.1 with ⟨h1, h2⟩ | hc
    · rw [seq_plain_step T f t ts envStop out st h1 h2,
        ih f (out ++ [t]) (by simp at hf ⊢; omega) hp.2, List.filter_cons, notCom_plain h1,
        if_pos rfl, List.append_assoc, List.singleton_append]
    · rw [seq_com_step T f t ts envStop out st hc, ih f out (by simp at hf ⊢; omega) hp.2,
        List.filter_cons, hc.notCom]
      rfl

/-- no Action token is produced: the blank-line removal at the end of the loop is the identity -/
theorem seq_com_id (T : PTables) (st : PState) (envStop : Option Str) (toks : List Tok) (fuel : Nat)
    (hf : toks.length + 1 ≤ fuel) (hp : CSeq T st toks) (hne : ∀ t ∈ toks, t.txt ≠ []) :
    expandSequence T fuel toks envStop [] st = .ok ((toks.filter notCom, []), st) := by
  rw [seq_com T st envStop toks fuel [] hf hp, List.nil_append,
    removeLines_noaction_id _ (fun t ht => (hp.plain t ht).notAction),
    filter_keepOut_id _ (fun t ht => hne t (List.mem_filter.mp ht).1)]

/-! ### `parserWork`, `parse`, `tex2txt` -/

/-- the skip pre-pass keeps everything if no comment token starts with the begin marker -/
theorem skipPass_nobegin (st : PState) (fuel : Nat) (toks : List Tok)
    (h : ∀ t ∈ toks, (t.kind == .comment && startsWith t.txt st.skipBegin) = false) :
    skipPass st (fuel + 1) toks [] = (toks, none, []) := by
  have hpre : toks.takeWhile
      (fun t => !(t.kind == .comment && startsWith t.txt st.skipBegin)) = toks := by
    apply takeWhile_all
    intro t ht
    simp [h t ht]
  simp only [skipPass, hpre, List.drop_length, List.nil_append]

/-- the result tokens: the scanner tokens without the comment tokens -/
def comOut (T : Tables) (src : Str) : List Tok := (scan T src).toks.filter notCom

/-- **comments on `parserWork`.**  On a text of the class `parserWork` returns the scanner tokens
    without the comment tokens, and the *unchanged* state.  Fuel: one unit for `parserWork`, one
    per token (at most one per character) and one for the final call of the loop. -/
theorem parserWork_com (T : PTables) (st : PState) (src : Str) (fuel : Nat)
    (hf : src.length + 2 ≤ fuel) (h : comText T st src = true) :
    parserWork T fuel src st = .ok (comOut T.toTables src, st) := by
  obtain ⟨f, rfl⟩ : ∃ f, fuel = f + 1 := ⟨fuel - 1, by omega⟩
  obtain ⟨_, hd, hseq, ht, _, hl⟩ := scan_com T st src h
  rw [parserWork.eq_2]
  refine (M.bind_ok _ _ _ _ _ (rfl : M.get st = _)).trans ?_
  refine (M.bind_ok _ _ _ _ _ (rfl : M.modify _ _ = _)).trans ?_
  refine (M.bind_ok _ _ _ _ _ (rfl : M.modify _ _ = _)).trans ?_
  refine (M.bind_ok _ _ _ _ _ (rfl : M.get _ = _)).trans ?_
  simp only [hd, List.append_nil]
  rw [skipPass_nobegin { st with latex := src, nest := st.nest + 1 } _ _
    (fun t ht' => hseq.nobegin t ht')]
  simp only []
  refine (M.bind_ok _ _ _ _ _ (rfl : (pure _ : M (List Tok)) _ = _)).trans ?_
  have hseq' : CSeq T { st with latex := src, nest := st.nest + 1 } (scan T.toTables src).toks :=
    CSeq.congr (st := st) (st' := { st with latex := src, nest := st.nest + 1 }) rfl rfl hseq
  have hs := seq_com_id T { st with latex := src, nest := st.nest + 1 } none _ f (by omega)
    hseq' (fun t ht' => (ht t ht').1)
  refine (M.bind_ok _ _ _ _ _ hs).trans ?_
  refine (M.bind_ok _ _ _ _ _ (rfl : M.modify _ _ = _)).trans ?_
  show Outcome.ok _ = _
  simp only [Nat.add_sub_cancel, comOut]

/-- text and positions of the result tokens are the reference output -/
theorem comOut_txtpos (T : PTables) (st : PState) (src : Str) (h : comText T st src = true) :
    getTxtPos (comOut T.toTables src) = ((stripComments src).map (·.1), (stripComments src).map (·.2)) :=
  (scan_com T st src h).2.2.2.2.1

/-- the class depends on the state only through the language stack and the skip marker -/
theorem comTextA_congr (T : PTables) (st st' : PState) (hl : st'.langStack = st.langStack)
    (hs : st'.skipBegin = st.skipBegin) :
    ∀ (s : Str) (n : Nat), comTextA T st' n s = comTextA T st n s := by
  intro s
  induction s with
  | nil => intro n; rw [comTextA_nil, comTextA_nil]
  | cons c cs ih =>
    intro n
    cases n with
    | succ n => simp only [comTextA, ih]
    | zero =>
      simp only [comTextA, okAtC, comTokOk, activeChars_congr T st st' hl,
        shortKeys_congr T st st' hl, hs, ih]

theorem parse_com (T : PTables) (st : PState) (src : Str) (fuel : Nat)
    (hf : src.length + 2 ≤ fuel) (h : comText T st src = true) :
    parse T fuel src [] [] st
      = .ok (comOut T.toTables src,
             { st with extracted := [], unknowns := [], foreign := false, nest := 0 }) := by
  unfold parse
  simp only [List.isEmpty_nil, Bool.not_true, Bool.false_eq_true, if_false, if_true]
  refine (M.bind_ok _ _ _ _ _ (rfl : M.modify _ _ = _)).trans ?_
  refine (M.bind_ok _ _ _ _ _ (rfl : (pure _ : M (List Tok)) _ = _)).trans ?_
  refine (M.bind_ok _ _ _ _ _ (rfl : M.modify _ _ = _)).trans ?_
  have hw := parserWork_com T
    { st with extracted := [], unknowns := [], foreign := false, nest := 0 } src fuel hf
    ((comTextA_congr T st
      { st with extracted := [], unknowns := [], foreign := false, nest := 0 } rfl rfl src 0).trans h)
  refine (M.bind_ok _ _ _ _ _ hw).trans ?_
  refine (M.bind_ok _ _ _ _ _ (rfl : M.get _ = _)).trans ?_
  show Outcome.ok _ = _
  simp

/-- **Comments on `tex2txt`, complete result record (source form).**  `st1` is the state after
    `Parser.__init__`; no `--defs`, `--extr`, `--repl`, `--unkn`; single-language mode. -/
theorem tex2txt_com_text (T : PTables) (o : Options) (fs : FS) (thresh : Nat) (src : Str)
    (fuel : Nat) (st1 : PState)
    (hdefs : o.defs = []) (hextr : o.extr = []) (hrepl : o.hasRepl = false)
    (hunkn : o.unkn = false)
    (hinit : initParser T fuel o (initialState T o false fs) = .ok ((), st1))
    (h : comText T st1 src = true) (hf : src.length + 2 ≤ fuel) :
    tex2txt T fuel src o false thresh fs
      = .ok { toks := comOut T.toTables src, txt := (stripComments src).map (·.1),
              pos := (stripComments src).map (·.2 + 1), parts := [], unknowns := [],
              diags := st1.diags, foreign := false } := by
  have hrun : (initParser T fuel o >>= fun _ => parse T fuel src o.defs
        (if o.extr.isEmpty then [] else (splitOn ',' o.extr []).map (fun s => '\\' :: s)))
        (initialState T o false fs)
      = .ok (comOut T.toTables src,
             { st1 with extracted := [], unknowns := [], foreign := false, nest := 0 }) := by
    refine (M.bind_ok _ _ _ _ _ hinit).trans ?_
    rw [hdefs, hextr]
    exact parse_com T st1 src fuel hf h
  unfold tex2txt
  simp only []
  rw [hrun]
  simp only [hrepl, hunkn, Bool.not_false, if_true, Bool.false_eq_true, if_false,
    comOut_txtpos T st1 src h, List.map_map]
  rfl

/-! ### documents: text segments and comments -/

/-- a segment of the source: a run of text, a comment `%text⏎` (from `%` to the end of the line,
    line break included), or a comment `%text` at the very end of the source, without line break -/
inductive Seg where
  | txt (s : Str)
  | com (text : Str)
  | comEof (text : Str)
deriving Repr, DecidableEq

def Seg.render : Seg → Str
  | .txt s => s
  | .com t => '%' :: (t ++ [nl])
  | .comEof t => '%' :: t

/-- the source text -/
def render : List Seg → Str
  | [] => []
  | s :: rest => s.render ++ render rest

def noNl (t : Str) : Bool := t.all (· != nl)

/-- the text `s`, followed by `R`, is inert -/
def textOk (T : PTables) (st : PState) : Str → Str → Bool
  | [], _ => true
  | c :: cs, R => okAtC T st c (cs ++ R) && textOk T st cs R

/-- well-formed documents: every segment is fine in front of the rendering of the following ones.
    * a text segment is inert (`okAtC` for every character, with the whole rest of the source
      behind it; in particular it contains no `%`);
    * a comment text contains no line break, the comment token the scanner makes of it
      (`comTxt`: the comment and — unless a blank line follows — the line break and the white space
      behind it) is an ordinary comment (`comTokOk`), and the line break that ends it is inert
      like a text character (it may survive: when a blank line follows);
    * `comEof` is the last segment. -/
def segsOk (T : PTables) (st : PState) : List Seg → Bool
  | [] => true
  | .txt s :: rest => textOk T st s (render rest) && segsOk T st rest
  | .com t :: rest =>
    noNl t && comTokOk T st (comTxt ('%' :: (t ++ nl :: render rest))) &&
    okAtC T st nl (render rest) && segsOk T st rest
  | .comEof t :: rest => rest.isEmpty && noNl t && comTokOk T st ('%' :: t)

theorem takeWhile_noNl (t R : Str) (h : noNl t = true) :
    (t ++ nl :: R).takeWhile (· != nl) = t ∧ (t ++ nl :: R).dropWhile (· != nl) = nl :: R := by
  induction t with
  | nil => simp
  | cons c cs ih =>
    simp only [noNl, List.all_cons, Bool.and_eq_true] at h
    have := ih h.2
    simp [h.1, this.1, this.2]

theorem takeWhile_noNl_end (t : Str) (h : noNl t = true) :
    t.takeWhile (· != nl) = t ∧ t.dropWhile (· != nl) = [] := by
  induction t with
  | nil => simp
  | cons c cs ih =>
    simp only [noNl, List.all_cons, Bool.and_eq_true] at h
    have := ih h.2
    simp [h.1, this.1, this.2]

/-- the span of a comment `%t⏎` in front of `R` -/
theorem span_com (t R : Str) (h : noNl t = true) :
    commentSpan ('%' :: (t ++ nl :: R))
      = if hasNl (R.takeWhile isSpace) then t.length + 1
        else t.length + 2 + (R.takeWhile isSpace).length := by
  obtain ⟨h1, h2⟩ := takeWhile_noNl t R h
  simp only [commentSpan, List.tail_cons, h1, h2]
  split <;> omega

/-- the span of a comment `%t` at the end of the source -/
theorem span_eof (t : Str) (h : noNl t = true) : commentSpan ('%' :: t) = t.length + 1 := by
  obtain ⟨h1, h2⟩ := takeWhile_noNl_end t h
  simp only [commentSpan, List.tail_cons, h1, h2]
  omega

/-- the text of the comment token -/
theorem comTxt_com (t R : Str) (h : noNl t = true) :
    comTxt ('%' :: (t ++ nl :: R))
      = if hasNl (R.takeWhile isSpace) then '%' :: t
        else '%' :: (t ++ nl :: R.takeWhile isSpace) := by
  unfold comTxt
  rw [span_com t R h]
  split
  · simp
  · rw [show t.length + 2 + (R.takeWhile isSpace).length
        = (t.length + (1 + (R.takeWhile isSpace).length)) + 1 by omega, List.take_succ_cons,
      List.take_append, List.take_of_length_le (by omega)]
    simp [Nat.add_sub_cancel_left, Nat.add_comm 1, ScannerAux.take_length_takeWhile]

theorem comTxt_eof (t : Str) (h : noNl t = true) : comTxt ('%' :: t) = '%' :: t := by
  unfold comTxt
  rw [span_eof t h]
  simp

/-- **the reference on a comment `%t⏎`**: nothing of `%t` is kept; if a blank line follows, the
    line break is kept, otherwise the line break and the white space at the beginning of the next
    line are deleted, too -/
theorem strip_com (t R : Str) (i : Nat) (h : noNl t = true) :
    stripA 0 ('%' :: (t ++ nl :: R)) i
      = if hasNl (R.takeWhile isSpace) then stripA 0 (nl :: R) (i + (t.length + 1))
        else stripA 0 (R.dropWhile isSpace) (i + (t.length + 2 + (R.takeWhile isSpace).length)) := by
  rw [strip_percent, span_com t R h]
  split
  · simp
  · rw [show t.length + 2 + (R.takeWhile isSpace).length
        = (t.length + (1 + (R.takeWhile isSpace).length)) + 1 by omega, List.drop_succ_cons,
      List.drop_append, List.drop_of_length_le (by omega)]
    simp [Nat.add_sub_cancel_left, Nat.add_comm 1, drop_length_takeWhile]

/-- **the reference on a comment `%t` at the end of the source**: nothing is kept -/
theorem strip_eof (t : Str) (i : Nat) (h : noNl t = true) : stripA 0 ('%' :: t) i = [] := by
  rw [strip_percent, span_eof t h]
  simp [stripA]

/-- **the reference on text**: copied with its positions -/
theorem strip_text (s R : Str) (i : Nat) (h : ∀ c ∈ s, c ≠ '%') :
    stripA 0 (s ++ R) i = posText i s ++ stripA 0 R (i + s.length) := by
  induction s generalizing i with
  | nil => simp [posText]
  | cons c cs ih =>
    rw [List.cons_append, strip_char c _ i (h c (by simp)), ih (i + 1) (fun x hx => h x (by simp [hx]))]
    simp [posText, Nat.add_assoc, Nat.add_comm 1]

theorem textOk_comText (T : PTables) (st : PState) (R : Str) (hR : comTextA T st 0 R = true) :
    ∀ s : Str, textOk T st s R = true → comTextA T st 0 (s ++ R) = true
  | [], _ => hR
  | c :: cs, h => by
    simp only [textOk, Bool.and_eq_true] at h
    have hc := okAtC_ne_percent h.1
    simp only [List.cons_append, comTextA, beq_iff_eq, hc, if_false, Bool.and_eq_true]
    exact ⟨h.1, textOk_comText T st R hR cs h.2⟩

theorem comText_com (T : PTables) (st : PState) (t R : Str) (h : noNl t = true)
    (hk : comTokOk T st (comTxt ('%' :: (t ++ nl :: R))) = true)
    (hn : okAtC T st nl R = true) (hR : comTextA T st 0 R = true) :
    comTextA T st 0 ('%' :: (t ++ nl :: R)) = true := by
  rw [comText_percent_eq, hk, Bool.true_and, span_com t R h]
  split
  · have : ('%' :: (t ++ nl :: R)).drop (t.length + 1) = nl :: R := by simp
    rw [this]
    simp only [comTextA, show (nl == '%') = false by decide, Bool.false_eq_true, if_false,
      Bool.and_eq_true]
    exact ⟨hn, hR⟩
  · have : ('%' :: (t ++ nl :: R)).drop (t.length + 2 + (R.takeWhile isSpace).length)
        = R.drop (R.takeWhile isSpace).length := by
      rw [show t.length + 2 + (R.takeWhile isSpace).length
          = (t.length + (1 + (R.takeWhile isSpace).length)) + 1 by omega, List.drop_succ_cons,
        List.drop_append, List.drop_of_length_le (by omega)]
      simp [Nat.add_sub_cancel_left, Nat.add_comm 1]
    rw [this]
    refine (drop_text T st _ R ?_).1 hR
    intro x hx
    rw [ScannerAux.take_length_takeWhile] at hx
    exact isSpace_ne_percent (mem_takeWhile_imp _ _ _ hx)

theorem comText_of_segsOk (T : PTables) (st : PState) :
    ∀ segs : List Seg, segsOk T st segs = true → comText T st (render segs) = true
  | [], _ => rfl
  | .txt s :: rest, h => by
    simp only [segsOk, Bool.and_eq_true] at h
    exact textOk_comText T st _ (comText_of_segsOk T st rest h.2) s h.1
  | .com t :: rest, h => by
    simp only [segsOk, Bool.and_eq_true] at h
    obtain ⟨⟨⟨h1, h2⟩, h3⟩, h4⟩ := h
    have := comText_com T st t (render rest) h1 h2 h3 (comText_of_segsOk T st rest h4)
    simpa [render, Seg.render, comText] using this
  | .comEof t :: rest, h => by
    simp only [segsOk, Bool.and_eq_true] at h
    obtain ⟨⟨h1, h2⟩, h3⟩ := h
    have hr : rest = [] := by simpa using h1
    subst hr
    simp only [render, Seg.render, List.append_nil, comText]
    rw [comText_percent_eq, comTxt_eof t h2, h3, span_eof t h2]
    simp [comTextA]

/-! ### the end-to-end statement -/

/-- **C03 / C05 for comments, end to end.**  The document is a sequence of inert text segments and
    comments `%text⏎` (possibly a last comment `%text` without line break), well-formed in the
    sense of `segsOk` (computable; all side conditions); `st1` is the state after
    `Parser.__init__`; no `--defs`, `--extr`, `--repl`, `--unkn`; single-language mode.  With one
    unit of fuel per source character plus two, `tex2txt` succeeds and

    * the output text and position map are the reference `stripComments`: the source with, for every
      comment, the span `commentSpan` from its `%` on deleted — what that is for the segments is
      `strip_text`, `strip_com`, `strip_eof`; every remaining character keeps its own source
      position (1-based); see also `strip_get` and `strip_avoids_comments`;
    * nothing is reported as unknown and no diagnostic is added;
    * the result tokens are the scanner tokens without the comment tokens (no line is removed:
      a comment leaves no Action token, so `remove_pure_action_lines` changes nothing). -/
theorem tex2txt_comments (T : PTables) (o : Options) (fs : FS) (thresh : Nat)
    (segs : List Seg) (fuel : Nat) (st1 : PState)
    (hdefs : o.defs = []) (hextr : o.extr = []) (hrepl : o.hasRepl = false)
    (hunkn : o.unkn = false)
    (hinit : initParser T fuel o (initialState T o false fs) = .ok ((), st1))
    (hok : segsOk T st1 segs = true) (hf : (render segs).length + 2 ≤ fuel) :
    ∃ r, tex2txt T fuel (render segs) o false thresh fs = .ok r ∧
      r.txt = (stripComments (render segs)).map (·.1) ∧
      r.pos = (stripComments (render segs)).map (·.2 + 1) ∧
      r.unknowns = [] ∧ r.diags = st1.diags ∧
      r.toks = (scan T.toTables (render segs)).toks.filter notCom :=
  ⟨_, tex2txt_com_text T o fs thresh (render segs) fuel st1 hdefs hextr hrepl hunkn hinit
    (comText_of_segsOk T st1 segs hok) hf, rfl, rfl, rfl, rfl, rfl⟩

/-! ### what the reference keeps -/

/-- every pair of the reference is a character of the source with its own position -/
theorem stripA_get : ∀ (s : Str) (n i : Nat) (cp : Char × Nat), cp ∈ stripA n s i →
    ∃ j, cp.2 = i + j ∧ n ≤ j ∧ s[j]? = some cp.1
  | [], n, i, cp, h => by simp [stripA_nil] at h
  | c :: cs, n + 1, i, cp, h => by
    rw [stripA] at h
    obtain ⟨j, h1, h2, h3⟩ := stripA_get cs n (i + 1) cp h
    exact ⟨j + 1, by omega, by omega, by simpa using h3⟩
  | c :: cs, 0, i, cp, h => by
    rw [stripA] at h
    split at h
    · obtain ⟨j, h1, _, h3⟩ := stripA_get cs _ (i + 1) cp h
      exact ⟨j + 1, by omega, by omega, by simpa using h3⟩
    · rcases List.mem_cons.mp h with rfl | h
      · exact ⟨0, rfl, Nat.le_refl _, rfl⟩
      · obtain ⟨j, h1, _, h3⟩ := stripA_get cs 0 (i + 1) cp h
        exact ⟨j + 1, by omega, by omega, by simpa using h3⟩

/-- every character of the output is the source character at the position it is mapped to -/
theorem strip_get (src : Str) (cp : Char × Nat) (h : cp ∈ stripComments src) : src[cp.2]? = some cp.1 := by
  obtain ⟨j, h1, _, h3⟩ := stripA_get src 0 0 cp h
  rw [h1, Nat.zero_add]; exact h3

/-- the comments of a source, as the left-to-right pass finds them: start position and span -/
def commentsA : Nat → Str → Nat → List (Nat × Nat)
  | _, [], _ => []
  | skip + 1, _ :: cs, i => commentsA skip cs (i + 1)
  | 0, c :: cs, i =>
    if c == '%' then (i, commentSpan (c :: cs)) :: commentsA (commentSpan (c :: cs) - 1) cs (i + 1)
    else commentsA 0 cs (i + 1)

def comments (src : Str) : List (Nat × Nat) := commentsA 0 src 0

theorem commentsA_nil (n i : Nat) : commentsA n [] i = [] := by cases n <;> rfl

theorem commentsA_ge : ∀ (s : Str) (n i : Nat) (q : Nat × Nat), q ∈ commentsA n s i → i + n ≤ q.1
  | [], n, i, q, h => by simp [commentsA_nil] at h
  | c :: cs, n + 1, i, q, h => by
    rw [commentsA] at h
    have := commentsA_ge cs n (i + 1) q h
    omega
  | c :: cs, 0, i, q, h => by
    rw [commentsA] at h
    split at h
    · rcases List.mem_cons.mp h with rfl | h
      · simp
      · have := commentsA_ge cs _ (i + 1) q h
        omega
    · have := commentsA_ge cs 0 (i + 1) q h
      omega

/-- no position of the output lies inside a comment span -/
theorem stripA_avoids : ∀ (s : Str) (n i : Nat) (cp : Char × Nat) (q : Nat × Nat),
    cp ∈ stripA n s i → q ∈ commentsA n s i → cp.2 < q.1 ∨ q.1 + q.2 ≤ cp.2
  | [], n, i, cp, q, h, _ => by simp [stripA_nil] at h
  | c :: cs, n + 1, i, cp, q, h, hq => by
    rw [stripA] at h
    rw [commentsA] at hq
    exact stripA_avoids cs n (i + 1) cp q h hq
  | c :: cs, 0, i, cp, q, h, hq => by
    rw [stripA] at h
    rw [commentsA] at hq
    split at h
    · rename_i hc
      rw [if_pos hc] at hq
      rcases List.mem_cons.mp hq with rfl | hq
      · obtain ⟨j, h1, h2, _⟩ := stripA_get cs _ (i + 1) cp h
        right
        have := (commentSpan_bounds c cs).1
        simp only
        omega
      · exact stripA_avoids cs _ (i + 1) cp q h hq
    · rename_i hc
      rw [if_neg hc] at hq
      rcases List.mem_cons.mp h with rfl | h
      · left
        have := commentsA_ge cs 0 (i + 1) q hq
        simp only
        omega
      · exact stripA_avoids cs 0 (i + 1) cp q h hq

/-- **hidden text does not leak**: no character of the output is mapped to a position inside a
    comment (from its `%` to the end of what `scan_comment` consumes) -/
theorem strip_avoids_comments (src : Str) (cp : Char × Nat) (q : Nat × Nat)
    (h : cp ∈ stripComments src) (hq : q ∈ comments src) : cp.2 < q.1 ∨ q.1 + q.2 ≤ cp.2 :=
  stripA_avoids src 0 0 cp q h hq

/-! ### simpler sufficient conditions -/

theorem startsWith_append_nl : ∀ (a p w : Str), startsWith a p = false → hasNl p = false →
    startsWith (a ++ nl :: w) p = false
  | _, [], _, h, _ => by simp [startsWith] at h
  | [], q :: ps, w, _, hp => by
    have : q ≠ nl := by
      intro e; subst e; simp [hasNl] at hp
    simp [startsWith, Ne.symm this]
  | x :: xs, q :: ps, w, h, hp => by
    have hp' : hasNl ps = false := by
      simp only [hasNl, List.contains_cons, Bool.or_eq_false_iff] at hp ⊢
      exact hp.2
    simp only [startsWith, Bool.and_eq_false_iff] at h
    simp only [List.cons_append, startsWith, Bool.and_eq_false_iff]
    rcases h with h | h
    · exact Or.inl h
    · exact Or.inr (startsWith_append_nl xs ps w h hp')

/-- global conditions on the state: `%` is no active character of the language settings, the
    marker of the skip pre-pass contains no line break, and a line break is an inert character -/
def stateOk (T : PTables) (st : PState) : Bool :=
  !(activeChars T st).contains ['%'] && !hasNl st.skipBegin && inertChar T st nl

/-- text segments of inert characters (`inertChar` of Proofs/Plain.lean); comment texts without
    line break such that `%text` does not start with the skip marker -/
def segsOkSimple (T : PTables) (st : PState) : List Seg → Bool
  | [] => true
  | .txt s :: rest => s.all (inertChar T st) && segsOkSimple T st rest
  | .com t :: rest => noNl t && !startsWith ('%' :: t) st.skipBegin && segsOkSimple T st rest
  | .comEof t :: rest => rest.isEmpty && noNl t && !startsWith ('%' :: t) st.skipBegin

theorem okAtC_of_inertChar (T : PTables) (st : PState) (c : Char) (cs : Str)
    (h : inertChar T st c = true) : okAtC T st c cs = true := by
  unfold inertChar at h
  unfold okAtC
  simp only [Bool.and_eq_true, Bool.or_eq_true] at h ⊢
  refine ⟨Or.inl h.1, ?_⟩
  rcases h.2 with hs | ⟨h1, h2⟩
  · exact Or.inl hs
  · exact Or.inr ⟨h1, by rw [matchSpecial_none_of_startsNoSpecial _ _ _ h2]; rfl⟩

theorem textOk_of_inertChar (T : PTables) (st : PState) (R : Str) :
    ∀ s : Str, s.all (inertChar T st) = true → textOk T st s R = true
  | [], _ => rfl
  | c :: cs, h => by
    simp only [List.all_cons, Bool.and_eq_true] at h
    simp only [textOk, Bool.and_eq_true]
    exact ⟨okAtC_of_inertChar T st c _ h.1, textOk_of_inertChar T st R cs h.2⟩

theorem segsOk_of_simple (T : PTables) (st : PState) (hst : stateOk T st = true) :
    ∀ segs : List Seg, segsOkSimple T st segs = true → segsOk T st segs = true
  | [], _ => rfl
  | .txt s :: rest, h => by
    simp only [segsOkSimple, Bool.and_eq_true] at h
    simp only [segsOk, Bool.and_eq_true]
    exact ⟨textOk_of_inertChar T st _ s h.1, segsOk_of_simple T st hst rest h.2⟩
  | .com t :: rest, h => by
    simp only [segsOkSimple, Bool.and_eq_true, Bool.not_eq_true'] at h
    obtain ⟨⟨h1, h2⟩, h3⟩ := h
    have hst0 := hst
    simp only [stateOk, Bool.and_eq_true, Bool.not_eq_true'] at hst
    obtain ⟨⟨s1, s2⟩, s3⟩ := hst
    simp only [segsOk, Bool.and_eq_true]
    refine ⟨⟨⟨h1, ?_⟩, okAtC_of_inertChar T st nl _ s3⟩, segsOk_of_simple T st hst0 rest h3⟩
    rw [comTxt_com t _ h1]
    simp only [comTokOk, Bool.and_eq_true, Bool.not_eq_true']
    split
    · exact ⟨h2, not_active_cons T st '%' _ s1⟩
    · refine ⟨?_, not_active_cons T st '%' _ s1⟩
      rw [← List.cons_append]
      exact startsWith_append_nl _ _ _ h2 s2
  | .comEof t :: rest, h => by
    simp only [segsOkSimple, Bool.and_eq_true, Bool.not_eq_true'] at h
    obtain ⟨⟨h1, h2⟩, h3⟩ := h
    simp only [stateOk, Bool.and_eq_true, Bool.not_eq_true'] at hst
    simp only [segsOk, comTokOk, Bool.and_eq_true, Bool.not_eq_true']
    exact ⟨⟨h1, h2⟩, h3, not_active_cons T st '%' _ hst.1.1⟩

/-! ### the hypotheses can be met

  Small concrete tables (`PlainExample.tinyT` with the markers of the skip pre-pass); the real
  tables are used in the recorded `#eval`s below only, so that this file does not depend on the
  generated file. -/

namespace CommentExample
open PlainExample

def tinyC : PTables :=
  { tinyT with commentSkipBegin := "%%% LT-SKIP-BEGIN".toList,
               commentSkipEnd := "%%% LT-SKIP-END".toList }

def stC : PState := initialState tinyC oEn false []

/-- two trailing comments: the first is followed by an indented line, the second by a blank line -/
def segs : List Seg :=
  [.txt "Alpha ".toList, .com " note one".toList, .txt "  beta gamma ".toList,
   .com " two".toList, .txt "\nDelta.".toList]

example : render segs = "Alpha % note one\n  beta gamma % two\n\nDelta.".toList := by decide

/-- `Parser.__init__` succeeds (on the tiny tables it leaves the initial state unchanged) … -/
theorem initParser_tinyC : initParser tinyC 50 oEn (initialState tinyC oEn false []) = .ok ((), stC) := by
  with_unfolding_all rfl

/-- … the document is well-formed (43 characters, fuel 45 would do) … -/
theorem segs_ok : segsOk tinyC stC segs = true := by decide

example : stateOk tinyC stC = true ∧ segsOkSimple tinyC stC segs = true := by decide

/-- … the comments are found at the (0-based) positions 6 and 30; the first one takes the line
    break and the indentation of the next line (13 characters), the second one stops in front of
    the line break because a blank line follows (5 characters) … -/
theorem segs_comments : comments (render segs) = [(6, 13), (30, 5)] := by decide

/-- … the reference output … -/
theorem segs_ref : stripComments (render segs)
    = "Alpha beta gamma \n\nDelta.".toList.zip
        [0, 1, 2, 3, 4, 5, 19, 20, 21, 22, 23, 24, 25, 26, 27, 28, 29, 35, 36, 37, 38, 39, 40, 41, 42] := by
  decide

/-- … and the end-to-end statement applies: the texts ` note one` and ` two` are gone, the second
    line is joined to the first one, the paragraph break is kept. -/
example : ∃ r, tex2txt tinyC 50 (render segs) oEn false 0 [] = .ok r ∧
    r.txt = "Alpha beta gamma \n\nDelta.".toList ∧
    r.pos = [1, 2, 3, 4, 5, 6, 20, 21, 22, 23, 24, 25, 26, 27, 28, 29, 30, 36, 37, 38, 39, 40, 41, 42, 43] ∧
    r.unknowns = [] ∧ r.diags = [] := by
  obtain ⟨r, h1, h2, h3, h4, h5, _⟩ := tex2txt_comments tinyC oEn [] 0 segs 50 stC rfl rfl rfl rfl
    initParser_tinyC segs_ok (by decide)
  refine ⟨r, h1, ?_, ?_, h4, h5⟩
  · rw [h2, segs_ref]; decide
  · rw [h3, segs_ref]; decide

/-- comment-only lines, two comments in a row, a comment at the very end of the source -/
def segs2 : List Seg :=
  [.txt "a\n  ".toList, .com " only".toList, .txt "  b ".toList, .com "x".toList, .com "y".toList,
   .txt "c ".toList, .comEof " end".toList]

example : render segs2 = "a\n  % only\n  b %x\n%y\nc % end".toList := by decide
example : segsOk tinyC stC segs2 = true := by decide
example : (stripComments (render segs2)).map (·.1) = "a\n  b c ".toList := by decide
example : (stripComments (render segs2)).map (·.2) = [0, 1, 2, 3, 13, 14, 21, 22] := by decide

/-- the side conditions reject what they should: a comment that starts with the marker of the
    skip pre-pass, a line break inside a comment text, a `comEof` that is not the last segment,
    a `%` or a macro in a text segment -/
example : segsOk tinyC stC [.txt "a ".toList, .com "%% LT-SKIP-BEGIN".toList, .txt "b".toList] = false := by
  decide
example : segsOk tinyC stC [.txt "a ".toList, .com "%% LT-SKIP-BEGI".toList, .txt "b".toList] = true := by
  decide
example : segsOk tinyC stC [.com "a\nb".toList] = false := by decide
example : segsOk tinyC stC [.comEof "a".toList, .txt "b".toList] = false := by decide
example : segsOk tinyC stC [.txt "50% x".toList] = false := by decide
example : segsOk tinyC stC [.txt "a\\foo".toList, .com "x".toList] = false := by decide
/-- with the tables of `PlainExample.tinyT` (no skip markers: the empty marker is a prefix of every
    comment) every comment starts a skip section -/
example : segsOk tinyT stEn [.com "x".toList] = false := by decide

/-
  Recorded `#eval`s.

  * tiny tables: `tex2txt tinyC 50 (render segs) oEn false 0 []` gives the text
    "Alpha beta gamma \n\nDelta.", positions [1..6, 20..30, 36..43], no unknowns, no diagnostics;
    fuel 44 is still enough (5 scanner tokens less than characters), the bound is not tight here
    (it is for sources without white-space runs and comments, see Proofs/Plain.lean).
    `render segs2` gives "a\n  b c " with positions [1, 2, 3, 4, 14, 15, 22, 23].
  * real tables (`import YalafiVerif.Generated.Tables`, `T := Generated.theTables`,
    `o := { lang := "en".toList }`, `initParser T 2000 o (initialState T o false []) = .ok ((), st1)`):
    `st1.skipBegin = "%%% LT-SKIP-BEGIN"`, `stateOk T st1 = true`, `segsOk T st1 segs = true`,
    `segsOkSimple T st1 segs = true`.  For each of the following sources `comText T st1 src = true`
    and `tex2txt T 3000 src o false 3 []` returns exactly `stripComments src` (positions + 1), no
    unknowns, no diagnostics:
      "Alpha % note one\n  beta gamma % two\n\nDelta."  ↦ "Alpha beta gamma \n\nDelta."
                                            [1..6, 20..30, 36..43], comments = [(6,13), (30,5)]
      "a % c\n  b"         (indented line)           ↦ "a b"        [1,2,9]       comments [(2,6)]
      "a % c\n\nb"         (blank line)              ↦ "a \n\nb"    [1,2,6,7,8]   comments [(2,3)]
      "a % c\n  \nb"       (blank line with spaces)  ↦ "a \n  \nb"  [1,2,6..10]   comments [(2,3)]
      "a % c\n% d\nb"      (two comments in a row)   ↦ "a b"        [1,2,11]      [(2,4), (6,4)]
      "a % c\n  % d\n  b"                            ↦ "a b"        [1,2,15]      [(2,6), (8,6)]
      "a % c"  /  "a %"    (end of the source)       ↦ "a "         [1,2]         [(2,3)] / [(2,1)]
      "a\n% only\nb"       (comment-only line)       ↦ "a\nb"       [1,2,10]      [(2,7)]
      "a\n  % only\n  b"                             ↦ "a\n  b"     [1,2,3,4,14]  [(4,9)]
      "% first\nb"                                   ↦ "b"          [9]           [(0,8)]
      "a\n\n% only\n\nb"                             ↦ "a\n\n\n\nb" [1,2,3,10,11,12] [(3,6)]
      "a %\n\nb"                                     ↦ "a \n\nb"    [1,2,4,5,6]   [(2,1)]
      "a %% x % y\nb"      (`%` inside a comment)    ↦ "a b"        [1,2,12]      [(2,9)]
      "a % $x$ \\foo {\n b" (anything inside a comment) ↦ "a b"      [1,2,17]      [(2,14)]
      "a % c\n\t  b"       (tab)                     ↦ "a b"        [1,2,10]      [(2,7)]
    `comTokOk` is needed: "a %%% LT-SKIP-BEGIN\nb\n%%% LT-SKIP-END\nc" is not in the class; the model
    returns "a c" (positions [1,2,39]), the reference would keep `b`.
  * `parserWork T 5 "a%c\nb" st1` is `ok` (3 tokens + 2), `parserWork T 4 …` is `outOfFuel`.
-/

end CommentExample

end Comment
end Yalafi
