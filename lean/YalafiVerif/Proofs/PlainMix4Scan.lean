/-
  Proofs/PlainMix4Scan.lean — the scanner on the fourth union grammar: ONE lemma `scanSteps_mix4` by
  induction over the source (`OkSrc`).  It yields the pieces of the token buffer, their static
  conditions `PiecesOk T st ps` and the structural relation `Link T st ps items` between the pieces
  and the items of the source; everything that depends on the parser state is left to
  Proofs/PlainMix4Sem.lean (`link_sem`).  `ScanFacts` also records the text of the first token, and
  what the source starts with if the first token is white space or a comment (`firstK`, `firstC`:
  needed behind a control word and behind `\item`, `headOk_of_scan`).  Header with the end-to-end
  statement and all side conditions: Proofs/PlainMix4E2E.lean.
-/
import YalafiVerif.Proofs.PlainMix4Src
namespace Yalafi
namespace PlainMix4

open M
open PlainMacro
open PlainMix (spcOk cwOkU comOk verbOkU droppable dropComToks dropComToks_cons dropComToks_com
  commentLen_rest simple_special_val nextToken_space SpcFacts spcFacts nextToken_spc ComFacts comFacts
  nextToken_com CwUFacts cwUFacts nextToken_sp VerbFacts verbFacts nextToken_verbU)
open PlainFootnote (lastTokOff flowOut CopyTok flowToks)
open PlainMacroArgs (BP bodyStr argsStr lookupDef defOf argSpans argsLen digitChar Group groupsFlat
  GroupGood BodyLink normBody GroupsLink txtTok)
open PlainMathRich (MT mtoks mt)
open PlainUnkn2 (mcost)

/-! ### the first token of a well-formed source -/

theorem macroLen_cw (name X : Str) (hne : name ≠ []) (htw : (name ++ X).takeWhile macroChar = name) :
    macroLen ('\\' :: (name ++ X)) = name.length + 1 := by
  obtain ⟨k, hk⟩ : ∃ k, name.length = k + 1 :=
    ⟨name.length - 1, by have := List.length_pos_iff.mpr hne; omega⟩
  simp only [macroLen, List.tail_cons, htw, hk]
  simp; omega

theorem firstTokTxtV_name (T : Tables) (name X : Str)
    (hlen : macroLen ('\\' :: (name ++ X)) = name.length + 1)
    (hm : matchSpecial T ('\\' :: (name ++ X)) = none) (hv : ('\\' :: name) ≠ sVerb) :
    firstTokTxtV T ('\\' :: (name ++ X)) = '\\' :: name := by
  have htake : ('\\' :: (name ++ X)).take (name.length + 1) = '\\' :: name := by simp
  have hv' : (('\\' :: name) == sVerb) = false := beq_eq_false_iff_ne.mpr hv
  simp only [firstTokTxtV, show isSpace '\\' = false by decide, Bool.false_eq_true, if_false,
    show ('\\' == '%') = false by decide, hm, beq_self_eq_true, if_true, hlen, htake, hv']

theorem firstTokTxtV_cw (T : Tables) (name X : Str) (hne : name ≠ [])
    (htw : (name ++ X).takeWhile macroChar = name)
    (hm : matchSpecial T ('\\' :: (name ++ X)) = none) (hv : ('\\' :: name) ≠ sVerb) :
    firstTokTxtV T ('\\' :: (name ++ X)) = '\\' :: name :=
  firstTokTxtV_name T name X (macroLen_cw name X hne htw) hm hv

theorem firstTokTxtV_spec (T : Tables) (c : Char) (tl X : Str) (h1 : isSpace c = false) (h2 : c ≠ '%')
    (hm : matchSpecial T (c :: (tl ++ X)) = some (c :: tl)) :
    firstTokTxtV T (c :: (tl ++ X)) = c :: tl := by
  simp [firstTokTxtV, h1, h2, hm]

theorem firstTokTxtV_verb (T : PTables) (d : Char) (s R : Str) (h : VerbFacts T d s R) :
    firstTokTxtV T.toTables ('\\' :: 'v' :: 'e' :: 'r' :: 'b' :: d :: (s ++ d :: R)) = s := by
  have h1 := nextToken_sVerb T.toTables [] 0 d (s ++ d :: R) h.nmc h.ms
  have h2 := nextToken_verbU T [] 0 d s R h
  have h3 : scanVerb T.toTables [] 0 ('\\' :: 'v' :: 'e' :: 'r' :: 'b' :: d :: (s ++ d :: R))
      = { tok := { kind := .verb false, pos := 0 + 6, txt := s }, len := s.length + 7 } :=
    h1.symm.trans h2
  have hlen : macroLen ('\\' :: 'v' :: 'e' :: 'r' :: 'b' :: d :: (s ++ d :: R)) = 5 := by
    simp [macroLen, h.nmc, show macroChar 'v' = true by decide,
      show macroChar 'e' = true by decide, show macroChar 'r' = true by decide,
      show macroChar 'b' = true by decide]
  have hv : (['\\', 'v', 'e', 'r', 'b'] == sVerb) = true := by decide
  simp only [firstTokTxtV, show isSpace '\\' = false by decide, Bool.false_eq_true, if_false,
    show ('\\' == '%') = false by decide, h.ms, beq_self_eq_true, if_true, hlen, List.take_succ_cons,
    List.take_zero, hv, h3]

theorem firstTokTxtV_of_text (T : Tables) (c : Char) (cs : Str)
    (h : isSpace c = true ∨ (structuralChar c = false ∧ matchSpecial T (c :: cs) = none)) :
    firstTokTxtV T (c :: cs) = firstTokTxt (c :: cs) := by
  unfold firstTokTxtV firstTokTxt
  by_cases hsp : isSpace c = true
  · simp [hsp]
  · rcases h with h | ⟨h, hm⟩
    · exact absurd h hsp
    · have h1 : c ≠ '\\' := by
        intro e; subst e; exact absurd h (by decide)
      have h2 : c ≠ '%' := by
        intro e; subst e; exact absurd h (by decide)
      simp [hsp, h1, h2, hm]

theorem okAtV_snd {T : PTables} {st : PState} {c : Char} {cs : Str} (h : okAtV T st c cs = true) :
    isSpace c = true ∨ (structuralChar c = false ∧ matchSpecial T.toTables (c :: cs) = none) := by
  simp only [okAtV, Bool.and_eq_true, Bool.or_eq_true] at h
  rcases h.2 with h | ⟨h1, h2⟩
  · exact Or.inl h
  · refine Or.inr ⟨by simpa using h1, ?_⟩
    cases hx : matchSpecial T.toTables (c :: cs) with
    | none => rfl
    | some _ => rw [hx] at h2; simp at h2

/-! ### pieces and items -/

/-- a stateless piece of `len` source characters with the marks `ms`: what it emits and costs does
    not depend on the state -/
structure IsFix (T : PTables) (pc : Piece) (ms : List Mark) (len : Nat) : Prop where
  out : ∃ h : List Tok, (∀ st l rest, outP T st l (pc :: rest) = h ++ outP T st l rest) ∧
          marksOf h = ms ∧ (∀ t ∈ h, Simple t)
  next : ∀ st, nextSt st pc = st
  live : ∀ st, liveHead T st pc
  cost : ∃ c, (∀ st rest, cost st (pc :: rest) = c + cost st rest) ∧ c ≤ len
  names : ∀ st rest, names st (pc :: rest) = names (nextSt st pc) rest
  flows : ∀ rest, flowsOf (pc :: rest) = flowsOf rest
  nmath : ∀ rest, nMath (pc :: rest) = nMath rest
  ndisp : ∀ rest, nDisp (pc :: rest) = nDisp rest
  notL : ∀ p sp b1 b2 lab c, pc ≠ .itemL p sp b1 b2 lab c

/-- the marks of what `expand_display_math` returns for a simple equation -/
theorem marksOf_dispOut (T : PTables) (ph : Str) (p q1 q2 : Nat) (s : Str) :
    marksOf (PlainDisplay.dispOut T ph p q1 q2 s)
      = none :: some (' ', p) :: some (' ', p) ::
          (ph.map (fun c => some (c, q1)) ++
            ((PlainMath.punctChar T s).toList.map (fun c => some (c, q2)) ++ [none])) := by
  have hfix : ∀ (k : Kind) (q : Nat) (v : Str), k ≠ .action →
      tokMarks (mkFix k q v) = v.map (fun c => some (c, q)) := by
    intro k q v hk
    rw [tokMarks_nonaction _ (by cases k <;> simp_all [isAction, mkFix]),
      PlainMix.mkFix_restamp, tokChars_restamp]
    simp
  unfold PlainDisplay.dispOut PlainDisplay.partOut
  cases PlainMath.punctChar T s <;>
    simp [marksOf_cons, marksOf_append, tokMarks_mkAction, hfix, marksOf]

/-- the token buffer (pieces) of a source (items) -/
inductive Link (T : PTables) (st1 : PState) : List Piece → List Item → Prop
  | nil : Link T st1 [] []
  | tok (t : Tok) (ps : List Piece) (items : List Item) :
      t.fix = false → Shape t → (isBlank t.txt = true ∨ ∃ c, t.txt = [c] ∧ isSpace c = false) →
      Link T st1 ps items → Link T st1 (.tok t :: ps) (chrItems t.pos t.txt ++ items)
  | fix (pc : Piece) (ms : List Mark) (len : Nat) (ps : List Piece) (items : List Item) :
      IsFix T pc ms len → Link T st1 ps items → Link T st1 (pc :: ps) (.fix ms len :: items)
  | cw (p : Nat) (name : Str) (sk : List Tok) (len : Nat) (ps : List Piece) (items : List Item) :
      2 ≤ len → Link T st1 ps items → Link T st1 (.cw p name sk :: ps) (.cw name len :: items)
  | math (d1 : Tok) (b : List Tok) (d2 : Tok) (m : List MT) (len : Nat) (ps : List Piece)
      (items : List Item) :
      b.flatMap (mt T) = m → mcost b + 2 ≤ len → Link T st1 ps items →
      Link T st1 (.math d1 b d2 :: ps) (.math m len :: items)
  | foot (fn lb : Tok) (b : List Tok) (rb : Tok) (fl : List (Char × Nat)) (len : Nat)
      (ps : List Piece) (items : List Item) :
      charsOf (flowToks b) = fl → b.length + 6 ≤ len → Link T st1 ps items →
      Link T st1 (.foot fn lb b rb :: ps) (.foot fl len :: items)
  | defn (p q1 q2 q3 q4 q5 q6 q7 q8 : Nat) (name : Str) (n : Nat) (body : List BP) (btoks : List Tok)
      (ps : List Piece) (items : List Item) :
      BodyLink btoks (normBody body) → Link T st1 ps items →
      Link T st1 (.defn p q1 q2 q3 q4 q5 q6 q7 q8 name n btoks :: ps) (.defn p name n body :: items)
  | ddef (p q2 q q7 q8 : Nat) (name : Str) (n : Nat) (body : List BP) (btoks : List Tok)
      (ps : List Piece) (items : List Item) :
      BodyLink btoks (normBody body) → Link T st1 ps items →
      Link T st1 (.ddef p q2 q q7 q8 name n btoks :: ps) (.ddef p name n body :: items)
  | call (p q1 q2 : Nat) (name : Str) (b : List Tok) (fl : List (Char × Nat)) (len : Nat)
      (ps : List Piece) (items : List Item) :
      charsOf (flowToks b) = fl → b.length + 4 ≤ len → Link T st1 ps items →
      Link T st1 (.call p q1 q2 name b :: ps) (.foot fl len :: items)
  | callO (p b1 b2 q1 q2 : Nat) (name : Str) (opt b : List Tok) (fl : List (Char × Nat)) (len : Nat)
      (ps : List Piece) (items : List Item) :
      charsOf (flowToks b) = fl → b.length + 4 ≤ len → Link T st1 ps items →
      Link T st1 (.callO p b1 b2 q1 q2 name opt b :: ps) (.foot fl len :: items)
  | use (p : Nat) (name : Str) (args : List Str) (gs : List Group) (ps : List Piece)
      (items : List Item) :
      name ≠ [] → GroupsLink (p + name.length + 1) gs args → Link T st1 ps items →
      Link T st1 (.use p name gs :: ps) (.use p name args :: items)
  | disp (ops : List Str) (d1 : Tok) (b : List Tok) (d2 : Tok) (ms : Str → List Mark) (len : Nat)
      (ps : List Piece) (items : List Item) :
      (∀ ph, marksOf (PlainDisplay.dispOut T ph d1.pos (PlainDisplay.elemPos T ops b)
          (PlainMath.firstPos (PlainMath.mathToks b)) (PlainMath.bodyTxt (PlainMath.mathToks b))) = ms ph) →
      b.length + 3 ≤ len → Link T st1 ps items →
      Link T st1 (.disp ops d1 b d2 :: ps) (.disp ms len :: items)
  | denv (ops : List Str) (p q1 q2 : Nat) (nt b : List Tok) (p' q1' q2' : Nat) (nt' : List Tok)
      (ms : Str → List Mark) (len : Nat) (ps : List Piece) (items : List Item) :
      (∀ ph, marksOf (mkAction p :: mkAction p ::
          PlainDisplay.dispOut T ph p (PlainDisplay.elemPos T ops b)
            (PlainMath.firstPos (PlainMath.mathToks b)) (PlainMath.bodyTxt (PlainMath.mathToks b))) = ms ph) →
      b.length + nt.length + nt'.length + 11 ≤ len → Link T st1 ps items →
      Link T st1 (.denv ops p q1 q2 nt b p' q1' q2' nt' :: ps) (.disp ms len :: items)
  | beg (p q1 q2 : Nat) (name : Str) (nt : List Tok) (ps : List Piece) (items : List Item) :
      bodyTxt nt = name → nt.length ≤ name.length → Link T st1 ps items →
      Link T st1 (.beg p q1 q2 nt :: ps)
        (.stk (fun _ => PlainItem.envMarks (PlainItem.envOf st1 name) p ++ [none])
          (fun stk => PlainItem.begStk st1 stk name) (fun _ => true) (name.length + 8) :: items)
  | item (p : Nat) (sp : List Tok) (len : Nat) (ps : List Piece) (items : List Item) :
      5 ≤ len → Link T st1 ps items →
      Link T st1 (.item p sp :: ps)
        (.stk (itemMarks T p) PlainItem.itemStk (fun stk => PlainItem.labelAt T st1 stk) len :: items)
  | itemL (p : Nat) (sp : List Tok) (b1 b2 : Nat) (lab : List Tok) (pc : Option Char) (ms : List Mark)
      (len : Nat) (label : Str) (ps : List Piece) (items : List Item) :
      marksOf (PlainItemL.itemLOut p (PlainItemL.labArg b1 lab) pc) = ms →
      (∀ t ∈ PlainItemL.itemLOut p (PlainItemL.labArg b1 lab) pc, Simple t) →
      (∀ pv, PlainItemL.pvAfter pv (PlainItemL.labArg b1 lab) = PlainItemL.pvText pv label) →
      (PlainItemL.labArg b1 lab).length + 7 ≤ len + 1 → Link T st1 ps items →
      Link T st1 (.itemL p sp b1 b2 lab pc :: ps) (.itemL ms len pc label :: items)
  | ubeg (p q1 q2 : Nat) (name : Str) (nt : List Tok) (len : Nat) (ps : List Piece) (items : List Item) :
      bodyTxt nt = name → nt.length + 2 ≤ len → Link T st1 ps items →
      Link T st1 (.ubeg p q1 q2 nt :: ps) (.ubeg name len :: items)
  | en (p q1 q2 : Nat) (name : Str) (nt : List Tok) (ps : List Piece) (items : List Item) :
      bodyTxt nt = name → nt.length ≤ name.length → Link T st1 ps items →
      Link T st1 (.en p q1 q2 nt :: ps)
        (.stk (fun _ => PlainItem.envMarks (PlainItem.envOf st1 name) p) PlainItem.endStk (fun _ => true)
          (name.length + 6) :: items)

theorem flat_dropComs (T : PTables) (st : PState) : ∀ ps : List Piece, PiecesOk T st ps →
    flat (dropComs ps) = dropComToks (flat ps)
  | [], _ => rfl
  | .com t :: rest, h => by
    simp only [dropComs, flat, Piece.toks, List.singleton_append]
    rw [dropComToks_com _ _ h.1.kind]
    exact flat_dropComs T st rest h.2
  | .tok t :: rest, h => by
    simp only [dropComs, flat, Piece.toks, List.singleton_append]
    rw [dropComToks_cons _ _ h.1.notComment]
  | .spc t :: rest, h => by
    simp only [dropComs, flat, Piece.toks, List.singleton_append]
    rw [dropComToks_cons _ _ (by rw [h.1.1]; simp)]
  | .br t :: rest, h => by
    simp only [dropComs, flat, Piece.toks, List.singleton_append]
    rw [dropComToks_cons _ _ (by rw [h.1.kind]; simp)]
  | .cw p name sk :: rest, h => by
    simp only [dropComs, flat, Piece.toks, List.cons_append]
    rw [dropComToks_cons _ _ (by simp [cwTok])]
  | .van p q1 q2 name key repl :: rest, h => by
    simp only [dropComs, flat, Piece.toks, List.cons_append]
    rw [dropComToks_cons _ _ (by simp [cwTok])]
  | .verb t :: rest, h => by
    simp only [dropComs, flat, Piece.toks, List.singleton_append]
    rw [dropComToks_cons _ _ (by rw [h.1]; simp)]
  | .math d1 b d2 :: rest, h => by
    simp only [dropComs, flat, Piece.toks, List.cons_append]
    rw [dropComToks_cons _ _ (by rcases h.1.kind with e | e <;> simp [e])]
  | .ref p q1 q2 name key repl :: rest, h => by
    simp only [dropComs, flat, Piece.toks, List.cons_append]
    rw [dropComToks_cons _ _ (by simp [cwTok])]
  | .cite p q1 q2 name key :: rest, h => by
    simp only [dropComs, flat, Piece.toks, List.cons_append]
    rw [dropComToks_cons _ _ (by simp [cwTok])]
  | .citeN p b1 b2 q1 q2 name note key :: rest, h => by
    simp only [dropComs, flat, Piece.toks, List.cons_append]
    rw [dropComToks_cons _ _ (by simp [cwTok])]
  | .foot fn lb b rb :: rest, h => by
    simp only [dropComs, flat, Piece.toks, List.cons_append]
    rw [dropComToks_cons _ _ (by rw [h.1.kind]; simp)]
  | .head hd lb b rb :: rest, h => by
    simp only [dropComs, flat, Piece.toks, List.cons_append]
    rw [dropComToks_cons _ _ (by rw [h.1.kind]; simp)]
  | .acc p name sp bo q l :: rest, h => by
    simp only [dropComs, flat, Piece.toks, List.cons_append]
    rw [dropComToks_cons _ _ (by simp [PlainAccent.accTok])]
  | .defn p q1 q2 q3 q4 q5 q6 q7 q8 name n body :: rest, h => by
    simp only [dropComs, flat, Piece.toks, List.cons_append]
    rw [dropComToks_cons _ _ (by simp [cwTok])]
  | .ddef p q2 q q7 q8 name n body :: rest, h => by
    simp only [dropComs, flat, Piece.toks, List.cons_append]
    rw [dropComToks_cons _ _ (by simp [cwTok])]
  | .ppar p sp :: rest, h => by
    simp only [dropComs, flat, Piece.toks, List.cons_append]
    rw [dropComToks_cons _ _ (by simp [cwTok])]
  | .pbeg p q1 q2 q3 q4 nt ag :: rest, h => by
    simp only [dropComs, flat, Piece.toks, List.cons_append]
    rw [dropComToks_cons _ _ (by simp [PlainItem.begTok])]
  | .pen p q1 q2 nt :: rest, h => by
    simp only [dropComs, flat, Piece.toks, List.cons_append]
    rw [dropComToks_cons _ _ (by simp [PlainItem.endTok])]
  | .call p q1 q2 name b :: rest, h => by
    simp only [dropComs, flat, Piece.toks, List.cons_append]
    rw [dropComToks_cons _ _ (by simp [cwTok])]
  | .callO p b1 b2 q1 q2 name opt b :: rest, h => by
    simp only [dropComs, flat, Piece.toks, List.cons_append]
    rw [dropComToks_cons _ _ (by simp [cwTok])]
  | .fen p q1 q2 nt :: rest, h => by
    simp only [dropComs, flat, Piece.toks, List.cons_append]
    rw [dropComToks_cons _ _ (by simp [PlainItem.endTok])]
  | .fbegN p q1 q2 b1 b2 nt note :: rest, h => by
    simp only [dropComs, flat, Piece.toks, List.cons_append]
    rw [dropComToks_cons _ _ (by simp [PlainItem.begTok])]
  | .fbeg p q1 q2 nt sp :: rest, h => by
    simp only [dropComs, flat, Piece.toks, List.cons_append]
    rw [dropComToks_cons _ _ (by simp [PlainItem.begTok])]
  | .use p name gs :: rest, h => by
    simp only [dropComs, flat, Piece.toks, List.cons_append]
    rw [dropComToks_cons _ _ (by simp [cwTok])]
  | .disp ops d1 b d2 :: rest, h => by
    simp only [dropComs, flat, Piece.toks, List.cons_append]
    rw [dropComToks_cons _ _ (by rw [h.2.2.2.1.kind]; simp)]
  | .beg p q1 q2 nt :: rest, h => by
    simp only [dropComs, flat, Piece.toks, List.cons_append]
    rw [dropComToks_cons _ _ (by simp [PlainItem.begTok])]
  | .denv ops p q1 q2 nt b p' q1' q2' nt' :: rest, h => by
    simp only [dropComs, flat, Piece.toks, List.cons_append]
    rw [dropComToks_cons _ _ (by simp [PlainItem.begTok])]
  | .item p sp :: rest, h => by
    simp only [dropComs, flat, Piece.toks, List.cons_append]
    rw [dropComToks_cons _ _ (by simp [PlainItem.itemTok])]
  | .itemL p sp b1 b2 lab pc :: rest, h => by
    simp only [dropComs, flat, Piece.toks, List.cons_append]
    rw [dropComToks_cons _ _ (by simp [PlainItem.itemTok])]
  | .ubeg p q1 q2 nt :: rest, h => by
    simp only [dropComs, flat, Piece.toks, List.cons_append]
    rw [dropComToks_cons _ _ (by simp [PlainItem.begTok])]
  | .uen p q1 q2 nt :: rest, h => by
    simp only [dropComs, flat, Piece.toks, List.cons_append]
    rw [dropComToks_cons _ _ (by simp [PlainItem.endTok])]
  | .en p q1 q2 nt :: rest, h => by
    simp only [dropComs, flat, Piece.toks, List.cons_append]
    rw [dropComToks_cons _ _ (by simp [PlainItem.endTok])]

/-! ### the scanner loop -/

/-- what the scanner loop yields on a well-formed source -/
structure ScanFacts (T : PTables) (st : PState) (rest : Str) (items : List Item)
    (steps : List ScanStep) : Prop where
  ok : ∀ s ∈ steps, s.diag = none ∧ s.extra = []
  pieces : ∃ ps, steps.map (·.tok) = flat ps ∧ PiecesOk T st ps ∧ Link T st ps items
  first : ∀ s ss, steps = s :: ss → s.tok.txt = firstTokTxtV T.toTables rest
  firstK : ∀ t ts, dropComToks (steps.map (·.tok)) = t :: ts → droppable t = true →
    ∃ c cs, rest = c :: cs ∧ isSpace c = true ∧ countNl (rest.takeWhile isSpace) < 2
  firstC : ∀ s ss, steps = s :: ss → s.tok.kind = .comment → ∃ ds, rest = '%' :: ds

theorem ScanFacts_nil (T : PTables) (st : PState) : ScanFacts T st [] [] [] :=
  ⟨by simp, ⟨[], rfl, trivial, .nil⟩, by simp, by simp [dropComToks], by simp⟩

/-- a piece whose first token is neither a comment nor dropped by `skip_space`, in front of a
    scanned rest -/
theorem ScanFacts.prepend {T : PTables} {st : PState} {whole R : Str} {items' : List Item}
    {steps' : List ScanStep} (I : ScanFacts T st R items' steps') (pc : Piece) (it : List Item)
    (s0 : ScanStep) (ss0 : List ScanStep)
    (hok0 : ∀ s ∈ s0 :: ss0, s.diag = none ∧ s.extra = [])
    (htoks : (s0 :: ss0).map (·.tok) = pc.toks)
    (hstat : ∀ ps, steps'.map (·.tok) = flat ps → PiecesOk T st ps → Link T st ps items' →
      PiecesOk T st (pc :: ps) ∧ Link T st (pc :: ps) (it ++ items'))
    (hfirst : s0.tok.txt = firstTokTxtV T.toTables whole)
    (hnc : s0.tok.kind ≠ .comment)
    (hK : droppable s0.tok = true →
      ∃ c cs, whole = c :: cs ∧ isSpace c = true ∧ countNl (whole.takeWhile isSpace) < 2) :
    ScanFacts T st whole (it ++ items') ((s0 :: ss0) ++ steps') := by
  obtain ⟨ps', hflat, hpok, hlink⟩ := I.pieces
  obtain ⟨h1, h2⟩ := hstat ps' hflat hpok hlink
  refine ⟨?_, ⟨pc :: ps', ?_, h1, h2⟩, ?_, ?_, ?_⟩
  · intro s hs
    rcases List.mem_append.mp hs with hs | hs
    · exact hok0 s hs
    · exact I.ok s hs
  · rw [List.map_append, htoks, hflat]; rfl
  · intro s ss he
    simp only [List.cons_append, List.cons.injEq] at he
    rw [← he.1]; exact hfirst
  · intro t ts he hdr
    rw [List.cons_append, List.map_cons, dropComToks_cons _ _ hnc] at he
    simp only [List.cons.injEq] at he
    rw [← he.1] at hdr
    exact hK hdr
  · intro s ss he hc
    simp only [List.cons_append, List.cons.injEq] at he
    rw [← he.1] at hc
    exact absurd hc hnc

/-- the first token that is no comment behind a control word (and the white space `sp` behind it)
    is not dropped by `skip_space` -/
theorem head_not_droppable {T : PTables} {st : PState} {R : Str} {items : List Item}
    {steps : List ScanStep} (I : ScanFacts T st R items steps) {ps : List Piece}
    (hflat : steps.map (·.tok) = flat ps) (hpok : PiecesOk T st ps)
    (hR : ∀ d ds, R = d :: ds → isSpace d = true → 2 ≤ countNl (R.takeWhile isSpace)) :
    ∀ t ts, flat (dropComs ps) = t :: ts → droppable t = false := by
  intro t ts hft
  cases hb : droppable t with
  | false => rfl
  | true =>
    exfalso
    rw [flat_dropComs T st ps hpok, ← hflat] at hft
    obtain ⟨d, ds, hRd, h1, h2⟩ := I.firstK t ts hft hb
    have := hR d ds hRd h1
    omega

/-- the first token of a buffer that `skip_space` would pass is a white-space or comment token -/
theorem head_space_kind (T : PTables) (st : PState) : ∀ ps : List Piece, PiecesOk T st ps →
    ∀ t ts, flat ps = t :: ts → isSpaceTok t = true → t.kind = .space ∨ t.kind = .comment
  | [], _, t, ts, h, _ => by simp [flat] at h
  | .tok u :: rest, hok, t, ts, h, hs => by
    simp only [flat, Piece.toks, List.singleton_append, List.cons.injEq] at h
    obtain ⟨rfl, _⟩ := h
    rcases hok.1.kind with k | k | k
    · simp [isSpaceTok, k] at hs
    · exact Or.inl k
    · simp [isSpaceTok, k] at hs
  | .spc u :: rest, hok, t, ts, h, hs => by
    simp only [flat, Piece.toks, List.singleton_append, List.cons.injEq] at h
    obtain ⟨rfl, _⟩ := h
    have k := hok.1.1
    simp [isSpaceTok, k] at hs
  | .br u :: rest, hok, t, ts, h, hs => by
    simp only [flat, Piece.toks, List.singleton_append, List.cons.injEq] at h
    obtain ⟨rfl, _⟩ := h
    have k := hok.1.kind
    simp [isSpaceTok, k] at hs
  | .cw p name sk :: rest, hok, t, ts, h, hs => by
    simp only [flat, Piece.toks, List.cons_append, List.cons.injEq] at h
    obtain ⟨rfl, _⟩ := h
    simp [isSpaceTok, cwTok] at hs
  | .van p q1 q2 name key repl :: rest, hok, t, ts, h, hs => by
    simp only [flat, Piece.toks, List.cons_append, List.cons.injEq] at h
    obtain ⟨rfl, _⟩ := h
    simp [isSpaceTok, cwTok] at hs
  | .com u :: rest, hok, t, ts, h, hs => by
    simp only [flat, Piece.toks, List.singleton_append, List.cons.injEq] at h
    obtain ⟨rfl, _⟩ := h
    exact Or.inr hok.1.kind
  | .verb u :: rest, hok, t, ts, h, hs => by
    simp only [flat, Piece.toks, List.singleton_append, List.cons.injEq] at h
    obtain ⟨rfl, _⟩ := h
    have k := hok.1
    simp [isSpaceTok, k] at hs
  | .math d1 b d2 :: rest, hok, t, ts, h, hs => by
    simp only [flat, Piece.toks, List.cons_append, List.cons.injEq] at h
    obtain ⟨rfl, _⟩ := h
    rcases hok.1.kind with k | k <;> simp [isSpaceTok, k] at hs
  | .ref p q1 q2 name key repl :: rest, hok, t, ts, h, hs => by
    simp only [flat, Piece.toks, List.cons_append, List.cons.injEq] at h
    obtain ⟨rfl, _⟩ := h
    simp [isSpaceTok, cwTok] at hs
  | .cite p q1 q2 name key :: rest, hok, t, ts, h, hs => by
    simp only [flat, Piece.toks, List.cons_append, List.cons.injEq] at h
    obtain ⟨rfl, _⟩ := h
    simp [isSpaceTok, cwTok] at hs
  | .citeN p b1 b2 q1 q2 name note key :: rest, hok, t, ts, h, hs => by
    simp only [flat, Piece.toks, List.cons_append, List.cons.injEq] at h
    obtain ⟨rfl, _⟩ := h
    simp [isSpaceTok, cwTok] at hs
  | .foot fn lb b rb :: rest, hok, t, ts, h, hs => by
    simp only [flat, Piece.toks, List.cons_append, List.cons.injEq] at h
    obtain ⟨rfl, _⟩ := h
    have k := hok.1.kind
    simp [isSpaceTok, k] at hs
  | .head hd lb b rb :: rest, hok, t, ts, h, hs => by
    simp only [flat, Piece.toks, List.cons_append, List.cons.injEq] at h
    obtain ⟨rfl, _⟩ := h
    have k := hok.1.kind
    simp [isSpaceTok, k] at hs
  | .acc p name sp bo q l :: rest, hok, t, ts, h, hs => by
    simp only [flat, Piece.toks, List.cons_append, List.cons.injEq] at h
    obtain ⟨rfl, _⟩ := h
    simp [isSpaceTok, PlainAccent.accTok] at hs
  | .defn p q1 q2 q3 q4 q5 q6 q7 q8 name n body :: rest, hok, t, ts, h, hs => by
    simp only [flat, Piece.toks, List.cons_append, List.cons.injEq] at h
    obtain ⟨rfl, _⟩ := h
    simp [isSpaceTok, cwTok] at hs
  | .ddef p q2 q q7 q8 name n body :: rest, hok, t, ts, h, hs => by
    simp only [flat, Piece.toks, List.cons_append, List.cons.injEq] at h
    obtain ⟨rfl, _⟩ := h
    simp [isSpaceTok, cwTok] at hs
  | .ppar p sp :: rest, hok, t, ts, h, hs => by
    simp only [flat, Piece.toks, List.cons_append, List.cons.injEq] at h
    obtain ⟨rfl, _⟩ := h
    simp [isSpaceTok, cwTok] at hs
  | .pbeg p q1 q2 q3 q4 nt ag :: rest, hok, t, ts, h, hs => by
    simp only [flat, Piece.toks, List.cons_append, List.cons.injEq] at h
    obtain ⟨rfl, _⟩ := h
    simp [isSpaceTok, PlainItem.begTok] at hs
  | .pen p q1 q2 nt :: rest, hok, t, ts, h, hs => by
    simp only [flat, Piece.toks, List.cons_append, List.cons.injEq] at h
    obtain ⟨rfl, _⟩ := h
    simp [isSpaceTok, PlainItem.endTok] at hs
  | .call p q1 q2 name b :: rest, hok, t, ts, h, hs => by
    simp only [flat, Piece.toks, List.cons_append, List.cons.injEq] at h
    obtain ⟨rfl, _⟩ := h
    simp [isSpaceTok, cwTok] at hs
  | .callO p b1 b2 q1 q2 name opt b :: rest, hok, t, ts, h, hs => by
    simp only [flat, Piece.toks, List.cons_append, List.cons.injEq] at h
    obtain ⟨rfl, _⟩ := h
    simp [isSpaceTok, cwTok] at hs
  | .fen p q1 q2 nt :: rest, hok, t, ts, h, hs => by
    simp only [flat, Piece.toks, List.cons_append, List.cons.injEq] at h
    obtain ⟨rfl, _⟩ := h
    simp [isSpaceTok, PlainItem.endTok] at hs
  | .fbegN p q1 q2 b1 b2 nt note :: rest, hok, t, ts, h, hs => by
    simp only [flat, Piece.toks, List.cons_append, List.cons.injEq] at h
    obtain ⟨rfl, _⟩ := h
    simp [isSpaceTok, PlainItem.begTok] at hs
  | .fbeg p q1 q2 nt sp :: rest, hok, t, ts, h, hs => by
    simp only [flat, Piece.toks, List.cons_append, List.cons.injEq] at h
    obtain ⟨rfl, _⟩ := h
    simp [isSpaceTok, PlainItem.begTok] at hs
  | .use p name gs :: rest, hok, t, ts, h, hs => by
    simp only [flat, Piece.toks, List.cons_append, List.cons.injEq] at h
    obtain ⟨rfl, _⟩ := h
    simp [isSpaceTok, cwTok] at hs
  | .disp ops d1 b d2 :: rest, hok, t, ts, h, hs => by
    simp only [flat, Piece.toks, List.cons_append, List.cons.injEq] at h
    obtain ⟨rfl, _⟩ := h
    have k := hok.2.2.2.1.kind
    simp [isSpaceTok, k] at hs
  | .beg p q1 q2 nt :: rest, hok, t, ts, h, hs => by
    simp only [flat, Piece.toks, List.cons_append, List.cons.injEq] at h
    obtain ⟨rfl, _⟩ := h
    simp [isSpaceTok, PlainItem.begTok] at hs
  | .denv ops p q1 q2 nt b p' q1' q2' nt' :: rest, hok, t, ts, h, hs => by
    simp only [flat, Piece.toks, List.cons_append, List.cons.injEq] at h
    obtain ⟨rfl, _⟩ := h
    simp [isSpaceTok, PlainItem.begTok] at hs
  | .item p sp :: rest, hok, t, ts, h, hs => by
    simp only [flat, Piece.toks, List.cons_append, List.cons.injEq] at h
    obtain ⟨rfl, _⟩ := h
    simp [isSpaceTok, PlainItem.itemTok] at hs
  | .itemL p sp b1 b2 lab pc :: rest, hok, t, ts, h, hs => by
    simp only [flat, Piece.toks, List.cons_append, List.cons.injEq] at h
    obtain ⟨rfl, _⟩ := h
    simp [isSpaceTok, PlainItem.itemTok] at hs
  | .ubeg p q1 q2 nt :: rest, hok, t, ts, h, hs => by
    simp only [flat, Piece.toks, List.cons_append, List.cons.injEq] at h
    obtain ⟨rfl, _⟩ := h
    simp [isSpaceTok, PlainItem.begTok] at hs
  | .uen p q1 q2 nt :: rest, hok, t, ts, h, hs => by
    simp only [flat, Piece.toks, List.cons_append, List.cons.injEq] at h
    obtain ⟨rfl, _⟩ := h
    simp [isSpaceTok, PlainItem.endTok] at hs
  | .en p q1 q2 nt :: rest, hok, t, ts, h, hs => by
    simp only [flat, Piece.toks, List.cons_append, List.cons.injEq] at h
    obtain ⟨rfl, _⟩ := h
    simp [isSpaceTok, PlainItem.endTok] at hs

/-- the head of the token buffer behind `\item` and its white space: the rest of the source starts
    with a visible character that is neither `%` nor `[`, and its first token is not `[` -/
theorem headOk_of_scan {T : PTables} {st : PState} {R : Str} {items : List Item}
    {steps : List ScanStep} (I : ScanFacts T st R items steps) {ps : List Piece}
    (hflat : steps.map (·.tok) = flat ps) (hpok : PiecesOk T st ps)
    (hR : R.head?.all (fun d => !isSpace d && d != '[') = true)
    (hc : R.head?.all (fun d => d != '%') = true) (hb : firstTokTxtV T.toTables R ≠ ['[']) :
    PlainItem.HeadOk (flat ps) := by
  cases hfp : flat ps with
  | nil => exact ⟨fun t h => by simp at h, fun t h => by simp at h⟩
  | cons t ts =>
    cases hst : steps with
    | nil => rw [hst, hfp] at hflat; simp at hflat
    | cons s ss =>
      have ht : s.tok = t := by
        rw [hst, hfp] at hflat
        simp only [List.map_cons, List.cons.injEq] at hflat
        exact hflat.1
      refine ⟨fun t' h => ?_, fun t' h => ?_⟩
      · simp only [List.head?_cons, Option.some.injEq] at h
        subst h
        cases hsp : isSpaceTok t with
        | false => rfl
        | true =>
          exfalso
          rcases head_space_kind T st ps hpok t ts hfp hsp with k | k
          · have hd : droppable t = true := by simp [droppable, isSpaceTok, isLangK, k]
            have hft : dropComToks (steps.map (·.tok)) = t :: ts := by
              rw [hflat, hfp, dropComToks_cons _ _ (by simp [k])]
            obtain ⟨d, ds, hRd, h1, _⟩ := I.firstK t ts hft hd
            rw [hRd] at hR
            simp [h1] at hR
          · obtain ⟨ds, hRd⟩ := I.firstC s ss hst (by rw [ht]; exact k)
            rw [hRd] at hc
            simp at hc
      · simp only [List.head?_cons, Option.some.injEq] at h
        subst h
        unfold txtIs
        rw [← ht, I.first s ss hst]
        simpa using hb

theorem headVis_kind (t : Tok) (h : isSpaceTok t = false) :
    t.kind ≠ .space ∧ t.kind ≠ .comment ∧ t.kind ≠ .void ∧ isLangK t = false := by
  cases hk : t.kind <;> simp_all [isSpaceTok, isLangK]

/-- the head of the token buffer behind `\par` and its white space: the rest of the source does not
    start with skippable white space or a comment -/
theorem headVis_of_scan {T : PTables} {st : PState} {R : Str} {items : List Item}
    {steps : List ScanStep} (I : ScanFacts T st R items steps) {ps : List Piece}
    (hflat : steps.map (·.tok) = flat ps) (hpok : PiecesOk T st ps)
    (hR : PlainThm.headSp R = false) (hc : R.head?.all (fun d => d != '%') = true) :
    PlainParEnv.HeadVis (flat ps) := by
  intro t h
  cases hfp : flat ps with
  | nil => rw [hfp] at h; simp at h
  | cons t' ts =>
    have htt : t = t' := by rw [hfp] at h; simpa using h.symm
    rw [htt]
    apply headVis_kind
    cases hst : steps with
    | nil => rw [hst, hfp] at hflat; simp at hflat
    | cons s ss =>
      have ht : s.tok = t' := by
        rw [hst, hfp] at hflat
        simp only [List.map_cons, List.cons.injEq] at hflat
        exact hflat.1
      cases hsp : isSpaceTok t' with
      | false => rfl
      | true =>
        exfalso
        rcases head_space_kind T st ps hpok t' ts hfp hsp with k | k
        · have hd : droppable t' = true := by simp [droppable, isSpaceTok, isLangK, k]
          have hft : dropComToks (steps.map (·.tok)) = t' :: ts := by
            rw [hflat, hfp, dropComToks_cons _ _ (by simp [k])]
          obtain ⟨d, ds, hRd, h1, h2⟩ := I.firstK t' ts hft hd
          rw [hRd] at hR h2
          simp [PlainThm.headSp, h1] at hR
          simp [h1] at h2
          omega
        · obtain ⟨ds, hRd⟩ := I.firstC s ss hst (by rw [ht]; exact k)
          rw [hRd] at hc
          simp at hc
theorem charsOf_eq_zip (ts : List Tok) : charsOf ts = (getTxtPos ts).1.zip (getTxtPos ts).2 := by
  rw [getTxtPos_charsOf]
  exact (PlainRef.zip_fst_snd (charsOf ts)).symm

theorem charsOf_flowToks (b : List Tok) (h l : Tok) (body : Str) (p : Nat)
    (hh : b.head? = some h) (hl : b.getLast? = some l)
    (hb : getTxtPos b = (body, List.range' p body.length))
    (hhp : h.pos = p) (hlp : l.pos = p + lastTokOff body) :
    charsOf (flowToks b) = flowOut p body := by
  rw [charsOf_eq_zip, PlainFootnote.getTxtPos_flowToks b h l body p hh hl hb, hhp, hlp]
  simp only [flowOut]
  rw [List.zip_append (by simp), List.zip_append (by simp), PlainRef.zip_range'_posText]
  rfl

theorem marksOf_dotToks (T : PTables) (title : Str) (q : Nat) :
    marksOf (PlainHeading.dotToks T title (q + lastTokOff title)) = dotMarks T q title := by
  unfold PlainHeading.dotToks dotMarks
  split
  · rw [marksOf_cons, tokMarks_nonaction _ (by simp [isAction, PlainHeading.dotTok, mkTok]),
      tokChars_nofix _ rfl]
    simp [PlainHeading.dotTok, mkTok, posText, marksOf]
  · rfl

/-- the static facts of the simplest stateless pieces -/
theorem isFix_of (T : PTables) (pc : Piece) (ms : List Mark) (len c : Nat) (h : List Tok)
    (hout : ∀ st l rest, outP T st l (pc :: rest) = h ++ outP T st l rest)
    (hms : marksOf h = ms) (hs : ∀ t ∈ h, Simple t)
    (hnext : ∀ st, nextSt st pc = st) (hlive : ∀ st, liveHead T st pc)
    (hcost : ∀ st rest, cost st (pc :: rest) = c + cost st rest) (hc : c ≤ len)
    (hnames : ∀ st rest, names st (pc :: rest) = names (nextSt st pc) rest)
    (hflows : ∀ rest, flowsOf (pc :: rest) = flowsOf rest)
    (hnm : ∀ rest, nMath (pc :: rest) = nMath rest)
    (hnd : ∀ rest, nDisp (pc :: rest) = nDisp rest := by intro rest; rfl)
    (hnl : ∀ p sp b1 b2 lab c, pc ≠ .itemL p sp b1 b2 lab c := by intros; simp) : IsFix T pc ms len :=
  ⟨⟨h, hout, hms, hs⟩, hnext, hlive, ⟨c, hcost, hc⟩, hnames, hflows, hnm, hnd, hnl⟩

/-- **the scanner loop on a well-formed source** (one lemma for all kinds of segments) -/
theorem scanSteps_mix4 (T : PTables) (st : PState) (src : Str) :
    ∀ (n fuel pos : Nat) (rest : Str) (items : List Item),
    rest.length ≤ n → rest.length ≤ fuel → OkSrc T st pos rest items →
    (scanSteps T.toTables src fuel pos rest).2 = true ∧
    ScanFacts T st rest items (scanSteps T.toTables src fuel pos rest).1 := by
  intro n
  induction n with
  | zero =>
    intro fuel pos rest items hn _ hok
    cases rest with
    | nil => cases hok; exact ⟨by simp [scanSteps], by simpa [scanSteps] using ScanFacts_nil T st⟩
    | cons c cs => simp at hn
  | succ n ih =>
    intro fuel pos rest items hn hf hok
    cases rest with
    | nil => cases hok; exact ⟨by simp [scanSteps], by simpa [scanSteps] using ScanFacts_nil T st⟩
    | cons c cs =>
      obtain ⟨fuel, rfl⟩ : ∃ f, fuel = f + 1 := ⟨fuel - 1, by simp at hf; omega⟩
      have hok0 := hok
      cases hok with
      | chr _ _ _ items0 hat hsub0 =>
        have hsnd := okAtV_snd hat
        obtain ⟨hp, hone⟩ := nextToken_text T src pos c cs hsnd
        have hspace := nextToken_space T.toTables src pos c cs
        generalize hs : nextToken T.toTables src pos (c :: cs) = s at hp hone hspace
        have h1 := hp.len_pos
        have h2 := hp.len_le
        have hsub : ∃ items1, Item.chr c pos :: items0 = chrItems pos ((c :: cs).take s.len) ++ items1 ∧
            OkSrc T st (pos + s.len) ((c :: cs).drop s.len) items1 := by
          by_cases hsp : isSpace c = true
          · refine OkSrc_drop_space T st s.len pos (c :: cs) _ h2 hok0 ?_
            intro x hx
            rw [← hp.txt, hp.first] at hx
            simp only [firstTokTxt, hsp, if_true] at hx
            exact mem_takeWhile_imp _ _ _ hx
          · have := (hone (by simpa using hsp)).1
            rw [this]
            exact ⟨items0, rfl, hsub0⟩
        obtain ⟨items1, hitems, hsub⟩ := hsub
        rw [scanSteps_step T.toTables src fuel pos c cs s hs (by omega)]
        have hl : ((c :: cs).drop s.len).length ≤ fuel := by
          simp only [List.length_drop]; simp only [List.length_cons] at hf h2 ⊢; omega
        have hl' : ((c :: cs).drop s.len).length ≤ n := by
          simp only [List.length_drop]; simp only [List.length_cons] at hn h2 ⊢; omega
        obtain ⟨i1, I⟩ := ih fuel (pos + s.len) ((c :: cs).drop s.len) items1 hl' hl hsub
        have hne : s.tok.txt ≠ [] := by
          rw [hp.txt]
          intro h0
          have := congrArg List.length h0
          simp only [List.length_take, List.length_nil] at this
          omega
        have hshape : Shape s.tok := by
          refine ⟨hne, ?_⟩
          intro hnl
          by_cases hsp : isSpace c = true
          · rw [hp.first]
            simp only [firstTokTxt, hsp, if_true, isBlank, List.all_eq_true]
            exact fun x hx => mem_takeWhile_imp _ _ _ hx
          · have hsp' : isSpace c = false := by simpa using hsp
            have := (hone hsp').1
            rw [hp.txt, this] at hnl
            simp only [List.take_succ_cons, List.take_zero] at hnl
            rw [hasNl_single c hsp'] at hnl; cases hnl
        rw [hitems]
        refine ⟨i1, ScanFacts.prepend I (.tok s.tok) _ s [] ?_ rfl ?_ ?_ hp.tok.notComment ?_⟩
        · intro x hx
          simp only [List.mem_singleton] at hx
          subst hx; exact ⟨hp.diag, hp.extra⟩
        · intro ps hflat hpok hlink
          refine ⟨⟨hp.tok, ?_, hpok⟩, ?_⟩
          · -- the short-macro branch
            rw [← hflat]
            have hact := hat
            simp only [okAtV, Bool.and_eq_true, Bool.or_eq_true, Bool.not_eq_true'] at hact
            rcases hact.1 with hna | ⟨hns, hk⟩
            · left
              have : s.tok.txt = c :: (cs.take (s.len - 1)) := by
                rw [hp.txt]
                obtain ⟨k, hk⟩ : ∃ k, s.len = k + 1 := ⟨s.len - 1, by omega⟩
                rw [hk]; simp
              rw [this]
              exact not_active_cons T st c _ hna
            · right
              have hlen := (hone hns).1
              have htxt : s.tok.txt = [c] := by rw [hp.txt, hlen]; rfl
              have i4 := I.first
              rw [hlen] at i4 ⊢
              simp only [List.drop_succ_cons, List.drop_zero] at i4 ⊢
              cases hr : (scanSteps T.toTables src fuel (pos + 1) cs).1 with
              | nil => rfl
              | cons s2 ss =>
                simp only [List.map_cons]
                apply expandShortMacro_none
                rw [htxt, i4 s2 ss hr]
                rcases hk with hk | hk
                · cases cs with
                  | nil => cases fuel <;> simp [scanSteps] at hr
                  | cons => simp at hk
                · simpa using hk
          · have hbc : isBlank s.tok.txt = true ∨ ∃ c, s.tok.txt = [c] ∧ isSpace c = false := by
              by_cases hsp : isSpace c = true
              · left
                rw [hp.first]
                simp only [firstTokTxt, hsp, if_true, isBlank, List.all_eq_true]
                exact fun x hx => mem_takeWhile_imp _ _ _ hx
              · have hsp' : isSpace c = false := by simpa using hsp
                right
                refine ⟨c, ?_, hsp'⟩
                rw [hp.txt, (hone hsp').1]; rfl
            have := Link.tok s.tok ps items1 hp.fix hshape hbc hlink
            rw [hp.pos, hp.txt] at this
            exact this
        · rw [hp.first]
          exact (firstTokTxtV_of_text T.toTables c cs hsnd).symm
        · intro hdr
          refine ⟨c, cs, rfl, ?_⟩
          by_cases hsp : isSpace c = true
          · refine ⟨hsp, ?_⟩
            rw [hspace hsp] at hdr
            simp only [scanSpace] at hdr
            cases hlt : decide (countNl ((c :: cs).takeWhile isSpace) < 2) with
            | true => simpa using hlt
            | false =>
              have : ¬ countNl ((c :: cs).takeWhile isSpace) < 2 := by simpa using hlt
              simp [droppable, isSpaceTok, this] at hdr
          · have hk := (hone (by simpa using hsp)).2
            simp [droppable, isSpaceTok, hk] at hdr
      | spc _ _ tl R items' hd hsub =>
        have S := spcFacts hd
        have hnt := nextToken_spc T src pos c tl R S
        simp only [List.length_cons, List.length_append] at hn hf
        obtain ⟨i1, I⟩ := ih fuel (pos + (tl.length + 1)) R items' (by omega) (by omega) hsub
        have hsteps : scanSteps T.toTables src (fuel + 1) pos (c :: (tl ++ R))
            = ({ tok := { kind := .special, pos := pos, txt := c :: tl }, len := tl.length + 1 } ::
                (scanSteps T.toTables src fuel (pos + (tl.length + 1)) R).1,
               (scanSteps T.toTables src fuel (pos + (tl.length + 1)) R).2) := by
          rw [scanSteps_step T.toTables src fuel pos c _ _ hnt (by simp)]
          simp
        rw [hsteps]
        refine ⟨i1, ScanFacts.prepend I (.spc { kind := .special, pos := pos, txt := c :: tl })
          [.fix (fixOf T st pos (.spc (c :: tl))) (tl.length + 1)] _ [] ?_ rfl ?_ ?_ (by simp) ?_⟩
        · intro x hx
          simp only [List.mem_singleton] at hx
          subst hx; exact ⟨rfl, rfl⟩
        · intro ps hflat hpok hlink
          refine ⟨⟨⟨rfl, S.key⟩, hpok⟩, Link.fix _ _ _ _ _ ?_ hlink⟩
          refine isFix_of T _ _ _ 1 (expTok T.toTables { kind := .special, pos := pos, txt := c :: tl })
            (fun _ _ _ => rfl) ?_ ?_ (fun _ => rfl) (fun _ => trivial) (fun _ _ => rfl) (by omega)
            (fun _ _ => rfl) (fun _ => rfl) (fun _ => rfl)
          · simp only [expTok, beq_self_eq_true, if_true, fixOf]
            rw [marksOf_cons, tokMarks_mkAction, marksOf_cons, tokMarks_nonaction _ rfl,
              tokChars_nofix _ rfl]
            simp [marksOf]
          · intro x hx
            simp only [expTok, beq_self_eq_true, if_true, List.mem_cons, List.not_mem_nil, or_false] at hx
            rcases hx with rfl | rfl
            · exact simple_mkAction pos
            · exact simple_special_val _ _ _ S.val
        · exact (firstTokTxtV_spec T.toTables c tl R S.nsp S.npc S.ms).symm
        · intro hdr
          simp [droppable, isSpaceTok] at hdr
      | br _ _ _ items' hc hd hsub =>
        have hnt := nextToken_brace T src pos c cs hc hd
        simp only [List.length_cons] at hn hf
        obtain ⟨i1, I⟩ := ih fuel (pos + 1) cs items' (by omega) (by omega) hsub
        have hsteps : scanSteps T.toTables src (fuel + 1) pos (c :: cs)
            = ({ tok := { kind := .special, pos := pos, txt := [c] }, len := 1 } ::
                (scanSteps T.toTables src fuel (pos + 1) cs).1,
               (scanSteps T.toTables src fuel (pos + 1) cs).2) := by
          rw [scanSteps_step T.toTables src fuel pos c _ _ hnt (by simp)]
          simp
        rw [hsteps]
        have hm : matchSpecial T.toTables (c :: cs) = some [c] := by simpa [braceAt] using hd
        refine ⟨i1, ScanFacts.prepend I (.br { kind := .special, pos := pos, txt := [c] })
          [.fix [none] 1] _ [] ?_ rfl ?_ ?_ (by simp) ?_⟩
        · intro x hx
          simp only [List.mem_singleton] at hx
          subst hx; exact ⟨rfl, rfl⟩
        · intro ps hflat hpok hlink
          refine ⟨⟨⟨rfl, by rcases hc with rfl | rfl <;> simp⟩, hpok⟩, Link.fix _ _ _ _ _ ?_ hlink⟩
          exact isFix_of T _ _ _ 1 [mkAction pos] (fun _ _ _ => rfl) rfl
            (fun x hx => by simp only [List.mem_singleton] at hx; subst hx; exact simple_mkAction pos)
            (fun _ => rfl) (fun _ => trivial) (fun _ _ => rfl) (by omega)
            (fun _ _ => rfl) (fun _ => rfl) (fun _ => rfl)
        · have := firstTokTxtV_spec T.toTables c [] cs
            (by rcases hc with rfl | rfl <;> decide) (by rcases hc with rfl | rfl <;> decide)
            (by simpa using hm)
          simpa using this.symm
        · intro hdr
          simp [droppable, isSpaceTok] at hdr
      | cw _ name sp R items' hd hsub =>
        have C := cwUFacts hd
        have hname := List.length_pos_iff.mpr C.cw.ne
        have hn1 := nextToken_cw T st src pos name (sp ++ R) C.cw
        simp only [List.length_cons, List.length_append] at hf hn
        have hR : ∀ d ds, R = d :: ds → isSpace d = true → 2 ≤ countNl (R.takeWhile isSpace) :=
          fun d ds e h => (C.head d ds e h).2
        have hfirst : (cwTok pos name).txt = firstTokTxtV T.toTables ('\\' :: (name ++ (sp ++ R))) :=
          (firstTokTxtV_cw T.toTables name (sp ++ R) C.cw.ne C.cw.tw C.cw.special C.cw.nVerb).symm
        cases sp with
        | nil =>
          simp only [List.length_nil, Nat.add_zero, List.nil_append] at hsub hf hn hn1 hfirst ⊢
          obtain ⟨i1, I⟩ := ih fuel (pos + (name.length + 1)) R items' (by omega) (by omega) hsub
          have hsteps : scanSteps T.toTables src (fuel + 1) pos ('\\' :: (name ++ R))
              = ({ tok := cwTok pos name, len := name.length + 1 } ::
                  (scanSteps T.toTables src fuel (pos + (name.length + 1)) R).1,
                 (scanSteps T.toTables src fuel (pos + (name.length + 1)) R).2) := by
            rw [scanSteps_step T.toTables src fuel pos _ _ _ hn1 (by simp)]
            simp
          rw [hsteps]
          refine ⟨i1, ScanFacts.prepend I (.cw pos name []) [.cw name (name.length + 1)] _ [] ?_ rfl ?_
            hfirst (by simp [cwTok]) ?_⟩
          · intro x hx
            simp only [List.mem_singleton] at hx
            subst hx; exact ⟨rfl, rfl⟩
          · intro ps hflat hpok hlink
            exact ⟨⟨cwTokOk_cwTok C.cw pos, by simp, head_not_droppable I hflat hpok hR, hpok⟩,
              Link.cw _ _ _ _ _ _ (by omega) hlink⟩
          · intro hdr
            simp [droppable, isSpaceTok, cwTok] at hdr
        | cons x xs =>
          simp only [List.length_cons] at hsub hf hn
          obtain ⟨g, rfl⟩ : ∃ g, fuel = g + 1 := ⟨fuel - 1, by omega⟩
          have hnsp : ∀ d ds, R = d :: ds → isSpace d = false := by
            intro d ds e
            cases hd' : isSpace d with
            | false => rfl
            | true => exact absurd (C.head d ds e hd').1 (by simp)
          have hn2 := nextToken_sp T.toTables src (pos + (name.length + 1)) x xs R C.white C.nls hnsp
          have hpos : pos + (name.length + 1) + (xs.length + 1) = pos + (name.length + 1 + (xs.length + 1)) := by
            omega
          obtain ⟨i1, I⟩ := ih g (pos + (name.length + 1 + (xs.length + 1))) R items'
            (by omega) (by omega) hsub
          have hsteps : scanSteps T.toTables src (g + 1 + 1) pos ('\\' :: (name ++ (x :: xs ++ R)))
              = ({ tok := cwTok pos name, len := name.length + 1 } ::
                 { tok := { kind := .space, pos := pos + (name.length + 1), txt := x :: xs },
                   len := xs.length + 1 } ::
                  (scanSteps T.toTables src g (pos + (name.length + 1 + (xs.length + 1))) R).1,
                 (scanSteps T.toTables src g (pos + (name.length + 1 + (xs.length + 1))) R).2) := by
            rw [scanSteps_step T.toTables src (g + 1) pos _ _ _ hn1 (by simp)]
            have hd1 : ('\\' :: (name ++ (x :: xs ++ R))).drop (name.length + 1) = x :: (xs ++ R) := by
              simp
            simp only [hd1]
            rw [scanSteps_step T.toTables src g _ _ _ _ hn2 (by simp)]
            simp [hpos]
          rw [hsteps]
          refine ⟨i1, ScanFacts.prepend I
            (.cw pos name [{ kind := .space, pos := pos + (name.length + 1), txt := x :: xs }])
            [.cw name (name.length + 1 + (xs.length + 1))] _
            [{ tok := { kind := .space, pos := pos + (name.length + 1), txt := x :: xs },
               len := xs.length + 1 }] ?_ rfl ?_ hfirst (by simp [cwTok]) ?_⟩
          · intro y hy
            simp only [List.mem_cons, List.not_mem_nil, or_false] at hy
            rcases hy with rfl | rfl <;> exact ⟨rfl, rfl⟩
          · intro ps hflat hpok hlink
            exact ⟨⟨cwTokOk_cwTok C.cw pos, by simp [droppable, isSpaceTok, isLangK],
              head_not_droppable I hflat hpok hR, hpok⟩, Link.cw _ _ _ _ _ _ (by omega) hlink⟩
          · intro hdr
            simp [droppable, isSpaceTok, cwTok] at hdr
      | van _ name key R items' hd hsub =>
        have V := PlainVanish.vanFacts hd
        have hname := List.length_pos_iff.mpr V.cw.ne
        simp only [List.length_cons, List.length_append] at hf hn
        obtain ⟨g, hg⟩ : ∃ g, fuel = g + 1 := ⟨fuel - 1, by omega⟩
        have hn1 := nextToken_cw T _ src pos name _ V.cw
        have hn2 := nextToken_brace T src (pos + (name.length + 1)) '{' _ (Or.inl rfl) V.b1
        have hn3 := nextToken_brace T src (pos + (name.length + 1) + 1 + key.length) '}' R
          (Or.inr rfl) V.b2
        obtain ⟨bsteps, B, hrun⟩ := PlainVanish.scanSteps_key T src R key.length key
          (pos + (name.length + 1) + 1) g (Nat.le_refl _) (by omega) V.key
        have hBl := B.len
        obtain ⟨g', hg'⟩ : ∃ g', g - bsteps.length = g' + 1 := ⟨g - bsteps.length - 1, by omega⟩
        have hpos : pos + (name.length + 1) + 1 + key.length + 1 = pos + PlainVanish.vanLen name key := by
          simp only [PlainVanish.vanLen]; omega
        obtain ⟨i1, I⟩ := ih g' (pos + PlainVanish.vanLen name key) R items' (by omega) (by omega) hsub
        have hd1 : ('\\' :: (name ++ '{' :: (key ++ '}' :: R))).drop (name.length + 1)
            = '{' :: (key ++ '}' :: R) := by simp
        have hsteps : scanSteps T.toTables src (fuel + 1) pos
              ('\\' :: (name ++ '{' :: (key ++ '}' :: R)))
            = (({ tok := cwTok pos name, len := name.length + 1 } ::
               ({ tok := { kind := .special, pos := pos + (name.length + 1), txt := ['{'] }, len := 1 } ::
               (bsteps ++
                 [{ tok := { kind := .special, pos := pos + (name.length + 1) + 1 + key.length, txt := ['}'] }, len := 1 }]))) ++
                 (scanSteps T.toTables src g' (pos + PlainVanish.vanLen name key) R).1,
               (scanSteps T.toTables src g' (pos + PlainVanish.vanLen name key) R).2) := by
          rw [hg, scanSteps_step T.toTables src (g + 1) pos _ _ _ hn1 (by simp), hd1]
          simp only []
          rw [scanSteps_step T.toTables src g _ _ _ _ hn2 (by simp)]
          simp only [List.drop_succ_cons, List.drop_zero]
          rw [hrun, hg', scanSteps_step T.toTables src g' _ _ _ _ hn3 (by simp)]
          simp only [List.drop_succ_cons, List.drop_zero, hpos]
          simp
        rw [hsteps]
        obtain ⟨hvoid, hvlen⟩ := V.vn.repl
        refine ⟨i1, ScanFacts.prepend I
          (.van pos (pos + (name.length + 1)) (pos + (name.length + 1) + 1 + key.length) name
              (bsteps.map (·.tok)) (PlainVanish.replOf st name))
          [.fix [none] (PlainVanish.vanLen name key)] _ _ ?_ ?_ ?_ ?_ (by simp [cwTok]) ?_⟩
        · intro x hx
          simp only [List.mem_cons, List.mem_append, List.not_mem_nil, or_false] at hx
          rcases hx with rfl | rfl | hx | rfl
          · exact ⟨rfl, rfl⟩
          · exact ⟨rfl, rfl⟩
          · exact ⟨(B.ok x hx).1, (B.ok x hx).2.1⟩
          · exact ⟨rfl, rfl⟩
        · simp [Piece.toks, lbr, rbr]
        · intro ps hflat hpok hlink
          refine ⟨⟨V.vn, rfl, ?_, hpok⟩, Link.fix _ _ _ _ _ ?_ hlink⟩
          · intro t ht
            obtain ⟨x, hx, rfl⟩ := List.mem_map.mp ht
            exact (B.ok x hx).2.2
          · refine isFix_of T _ _ _ (2 + (PlainVanish.replOf st name).length)
              (mkAction pos :: (PlainVanish.replOf st name).map (restamp pos))
              (fun _ _ _ => rfl) ?_ ?_ (fun _ => rfl) (fun _ => trivial) (fun _ _ => rfl)
              (by simp only [PlainVanish.vanLen]; omega) (fun _ _ => rfl) (fun _ => rfl) (fun _ => rfl)
            · rw [marksOf_cons, tokMarks_mkAction, PlainVanish.marksOf_voids _ _ hvoid]
              rfl
            · intro x hx
              simp only [List.mem_cons] at hx
              rcases hx with rfl | hx
              · exact simple_mkAction pos
              · obtain ⟨u, hu, rfl⟩ := List.mem_map.mp hx
                exact PlainVanish.simple_void pos u (hvoid u hu)
        · exact (firstTokTxtV_cw T.toTables name _ V.cw.ne V.cw.tw V.cw.special V.cw.nVerb).symm
        · intro hdr
          simp [droppable, isSpaceTok, cwTok] at hdr
      | com _ body R items' hd hsub =>
        have C := comFacts hd
        have hnt := nextToken_com T st src pos body R C
        simp only [List.length_cons, List.length_append] at hn hf
        obtain ⟨i1, I⟩ := ih fuel (pos + (body.length + 1)) R items' (by omega) (by omega) hsub
        obtain ⟨ps', hflat, hpok, hlink⟩ := I.pieces
        have hsteps : scanSteps T.toTables src (fuel + 1) pos ('%' :: (body ++ R))
            = ({ tok := { kind := .comment, pos := pos, txt := '%' :: body }, len := body.length + 1 } ::
                (scanSteps T.toTables src fuel (pos + (body.length + 1)) R).1,
               (scanSteps T.toTables src fuel (pos + (body.length + 1)) R).2) := by
          rw [scanSteps_step T.toTables src fuel pos _ _ _ hnt (by simp)]
          simp
        rw [hsteps]
        refine ⟨i1, ?_, ?_, ?_, ?_, fun _ _ _ _ => ⟨body ++ R, rfl⟩⟩
        · intro x hx
          rcases List.mem_cons.mp hx with rfl | hx
          · exact ⟨rfl, rfl⟩
          · exact I.ok x hx
        · refine ⟨.com { kind := .comment, pos := pos, txt := '%' :: body } :: ps',
            by simp [flat, Piece.toks, hflat], ⟨⟨rfl, ⟨body, rfl⟩, C.nskip, C.nact⟩, hpok⟩,
            Link.fix _ _ _ _ _ ?_ hlink⟩
          exact isFix_of T _ _ _ 1 [] (fun _ _ _ => rfl) rfl (by simp) (fun _ => rfl)
            (fun _ => trivial) (fun _ _ => rfl) (by omega) (fun _ _ => rfl) (fun _ => rfl) (fun _ => rfl)
        · intro s' ss' he
          simp only [List.cons.injEq] at he
          rw [← he.1]
          simp [firstTokTxtV, C.len, show isSpace '%' = false by decide]
        · intro t ts he hdr
          rw [List.map_cons, dropComToks_com _ _ rfl] at he
          obtain ⟨d, ds, hRd, h1, h2⟩ := I.firstK t ts he hdr
          have := commentLen_rest body R C.len d ds hRd h1
          omega
      | verb _ d s R items' hd hsub =>
        have V := verbFacts hd
        have hnt := nextToken_verbU T src pos d s R V
        simp only [List.length_cons, List.length_append] at hn hf
        obtain ⟨i1, I⟩ := ih fuel (pos + (s.length + 7)) R items' (by omega) (by omega) hsub
        have hsteps : scanSteps T.toTables src (fuel + 1) pos
              ('\\' :: 'v' :: 'e' :: 'r' :: 'b' :: d :: (s ++ d :: R))
            = ({ tok := { kind := .verb false, pos := pos + 6, txt := s }, len := s.length + 7 } ::
                (scanSteps T.toTables src fuel (pos + (s.length + 7)) R).1,
               (scanSteps T.toTables src fuel (pos + (s.length + 7)) R).2) := by
          rw [scanSteps_step T.toTables src fuel pos _ _ _ hnt (by simp)]
          have := drop_verb d s R
          simp only []
          rw [show ('\\' :: 'v' :: 'e' :: 'r' :: 'b' :: d :: (s ++ d :: R)) = sVerb ++ d :: (s ++ d :: R) from rfl,
            this]
        rw [hsteps]
        refine ⟨i1, ScanFacts.prepend I (.verb { kind := .verb false, pos := pos + 6, txt := s })
          [.fix (fixOf T st pos (.verb d s)) (s.length + 7)] _ [] ?_ rfl ?_ ?_ (by simp) ?_⟩
        · intro x hx
          simp only [List.mem_singleton] at hx
          subst hx; exact ⟨rfl, rfl⟩
        · intro ps hflat hpok hlink
          refine ⟨⟨rfl, hpok⟩, Link.fix _ _ _ _ _ ?_ hlink⟩
          refine isFix_of T _ _ _ 1 (expTokV { kind := .verb false, pos := pos + 6, txt := s })
            (fun _ _ _ => rfl) ?_ ?_ (fun _ => rfl) (fun _ => trivial) (fun _ _ => rfl) (by omega)
            (fun _ _ => rfl) (fun _ => rfl) (fun _ => rfl)
          · simp only [expTokV, beq_self_eq_true, if_true, fixOf]
            rw [marksOf_cons, tokMarks_mkAction, marksOf_cons, tokMarks_nonaction _ rfl,
              tokChars_nofix _ rfl]
            simp [marksOf]
          · intro x hx
            simp only [expTokV, beq_self_eq_true, if_true, List.mem_cons, List.not_mem_nil, or_false] at hx
            rcases hx with rfl | rfl
            · exact simple_mkAction _
            · exact simple_special_val _ _ _ (fun h => by rw [V.noNl] at h; cases h)
        · exact (firstTokTxtV_verb T d s R V).symm
        · intro hdr
          simp [droppable, isSpaceTok] at hdr
      | math _ k _ tl X R m items' ho hd hm hvis hsub =>
        obtain ⟨o1, o2, o3⟩ := ho.facts
        have hnt := PlainMathRich.nextToken_spec T src pos c tl X o1 o2 o3 (PlainMathRich.delimAt_eq hd)
        have hXlen := PlainMathRich.MOk_len hm
        simp only [List.length_cons, List.length_append] at hf hn
        have hdrop : (c :: (tl ++ X)).drop (tl.length + 1) = X := by simp
        obtain ⟨bsteps, s2, B, hrun⟩ := PlainMathRich.scanSteps_rbody T st src k k (pos + (tl.length + 1))
          X R m fuel (Nat.le_refl _) (by omega) hm
        have hBl := B.len
        obtain ⟨i1, I⟩ := ih (fuel - bsteps.length - 1) (pos + (tl.length + 1) + k) R items'
          (by omega) (by omega) hsub
        have hsteps : scanSteps T.toTables src (fuel + 1) pos (c :: (tl ++ X))
            = (({ tok := { kind := .special, pos := pos, txt := c :: tl }, len := tl.length + 1 } ::
                (bsteps ++ [s2])) ++
                  (scanSteps T.toTables src (fuel - bsteps.length - 1) (pos + (tl.length + 1) + k) R).1,
               (scanSteps T.toTables src (fuel - bsteps.length - 1) (pos + (tl.length + 1) + k) R).2) := by
          rw [scanSteps_step T.toTables src fuel pos _ _ _ hnt (by simp)]
          simp only [hdrop]
          rw [hrun]
          simp
        rw [hsteps]
        refine ⟨i1, ScanFacts.prepend I
          (.math { kind := .special, pos := pos, txt := c :: tl } (bsteps.map (·.tok)) s2.tok)
          [.math m (tl.length + 1 + k)] _ _ ?_ ?_ ?_ ?_ (by simp) ?_⟩
        · intro x hx
          simp only [List.mem_cons, List.mem_append, List.not_mem_nil, or_false] at hx
          rcases hx with rfl | hx | rfl
          · exact ⟨rfl, rfl⟩
          · exact ⟨(B.ok x hx).1, (B.ok x hx).2.1⟩
          · exact B.ok2
        · simp [Piece.toks]
        · intro ps hflat hpok hlink
          refine ⟨⟨⟨Or.inl rfl, ho⟩, by rw [B.abs]; exact hvis, ?_, B.close, hpok⟩,
            Link.math _ _ _ _ _ _ _ B.abs (by have := B.cost; omega) hlink⟩
          intro t ht
          obtain ⟨x, hx, rfl⟩ := List.mem_map.mp ht
          exact (B.ok x hx).2.2
        · exact (firstTokTxtV_spec T.toTables c tl X o1 o2 (PlainMathRich.delimAt_eq hd)).symm
        · intro hdr
          simp [droppable, isSpaceTok] at hdr
      | ref _ name key R items' hd hsub =>
        have V := PlainRef.refFacts hd
        have hname := List.length_pos_iff.mpr V.cw.ne
        simp only [List.length_cons, List.length_append] at hf hn
        have hn1 := nextToken_cw T _ src pos name _ V.cw
        obtain ⟨ksteps, B, hrun⟩ := PlainRef.scanSteps_braced T src (pos + (name.length + 1)) fuel key R
          (by omega) V.br
        have hBl := B.len
        have hpos : pos + (name.length + 1) + (key.length + 2) = pos + PlainRef.callLen name key := by
          simp only [PlainRef.callLen]; omega
        obtain ⟨i1, I⟩ := ih (fuel - ksteps.length - 2) (pos + PlainRef.callLen name key) R items'
          (by omega) (by omega) hsub
        have hd1 : ('\\' :: (name ++ '{' :: (key ++ '}' :: R))).drop (name.length + 1)
            = '{' :: (key ++ '}' :: R) := by simp
        rw [scanSteps_step T.toTables src fuel pos _ _ _ hn1 (by simp), hd1]
        simp only []
        rw [hrun, hpos]
        obtain ⟨hph, hrne, hrlen⟩ := V.rn.repl
        have e : ∀ X : List ScanStep,
            { tok := cwTok pos name, len := name.length + 1 } ::
              ({ tok := lbr (pos + (name.length + 1)), len := 1 } ::
                (ksteps ++ { tok := rbr (pos + (name.length + 1) + 1 + key.length), len := 1 } :: X))
            = ({ tok := cwTok pos name, len := name.length + 1 } ::
              ({ tok := lbr (pos + (name.length + 1)), len := 1 } ::
                (ksteps ++ [{ tok := rbr (pos + (name.length + 1) + 1 + key.length), len := 1 }]))) ++ X := by
          intro X; simp
        rw [e]
        refine ⟨i1, ScanFacts.prepend I
          (.ref pos (pos + (name.length + 1)) (pos + (name.length + 1) + 1 + key.length) name
              (ksteps.map (·.tok)) (PlainRef.replOf st name))
          [.fix (fixOf T st pos (.ref name key)) (PlainRef.callLen name key)] _ _ ?_ ?_ ?_ ?_
          (by simp [cwTok]) ?_⟩
        · intro x hx
          simp only [List.mem_cons, List.mem_append, List.not_mem_nil, or_false] at hx
          rcases hx with rfl | rfl | hx | rfl
          · exact ⟨rfl, rfl⟩
          · exact ⟨rfl, rfl⟩
          · exact ⟨(B.ok x hx).1, (B.ok x hx).2.1⟩
          · exact ⟨rfl, rfl⟩
        · simp [Piece.toks]
        · intro ps hflat hpok hlink
          refine ⟨⟨V.rn, rfl, PlainRef.KeyRun.toks B, hpok⟩, Link.fix _ _ _ _ _ ?_ hlink⟩
          refine isFix_of T _ _ _ (2 + (PlainRef.replOf st name).length)
            (mkAction pos :: (PlainRef.replOf st name).map (restamp pos))
            (fun _ _ _ => rfl) ?_ ?_ (fun _ => rfl) (fun _ => trivial) (fun _ _ => rfl)
            (by simp only [PlainRef.callLen]; omega) (fun _ _ => rfl) (fun _ => rfl) (fun _ => rfl)
          · rw [marksOf_cons, tokMarks_mkAction, marksOf_restamp _ _ (fun t ht => (hph t ht).plain)]
            rfl
          · intro x hx
            simp only [List.mem_cons] at hx
            rcases hx with rfl | hx
            · exact simple_mkAction pos
            · obtain ⟨u, hu, rfl⟩ := List.mem_map.mp hx
              exact PlainRef.simple_restamp pos (hph u hu)
        · exact (firstTokTxtV_cw T.toTables name _ V.cw.ne V.cw.tw V.cw.special V.cw.nVerb).symm
        · intro hdr
          simp [droppable, isSpaceTok, cwTok] at hdr
      | cite _ name key R items' hd hS hsub =>
        have V := PlainRef.citeFacts hd
        have S := PlainRef.stateFacts hS
        have hname := List.length_pos_iff.mpr V.cw.ne
        simp only [List.length_cons, List.length_append] at hf hn
        have hn1 := nextToken_cw T _ src pos name _ V.cw
        obtain ⟨ksteps, B, hrun⟩ := PlainRef.scanSteps_braced T src (pos + (name.length + 1)) fuel key R
          (by omega) V.br
        have hBl := B.len
        have hpos : pos + (name.length + 1) + (key.length + 2) = pos + PlainRef.callLen name key := by
          simp only [PlainRef.callLen]; omega
        obtain ⟨i1, I⟩ := ih (fuel - ksteps.length - 2) (pos + PlainRef.callLen name key) R items'
          (by omega) (by omega) hsub
        have hd1 : ('\\' :: (name ++ '{' :: (key ++ '}' :: R))).drop (name.length + 1)
            = '{' :: (key ++ '}' :: R) := by simp
        rw [scanSteps_step T.toTables src fuel pos _ _ _ hn1 (by simp), hd1]
        simp only []
        rw [hrun, hpos]
        have e : ∀ X : List ScanStep,
            { tok := cwTok pos name, len := name.length + 1 } ::
              ({ tok := lbr (pos + (name.length + 1)), len := 1 } ::
                (ksteps ++ { tok := rbr (pos + (name.length + 1) + 1 + key.length), len := 1 } :: X))
            = ({ tok := cwTok pos name, len := name.length + 1 } ::
              ({ tok := lbr (pos + (name.length + 1)), len := 1 } ::
                (ksteps ++ [{ tok := rbr (pos + (name.length + 1) + 1 + key.length), len := 1 }]))) ++ X := by
          intro X; simp
        rw [e]
        refine ⟨i1, ScanFacts.prepend I
          (.cite pos (pos + (name.length + 1)) (pos + (name.length + 1) + 1 + key.length) name
              (ksteps.map (·.tok)))
          [.fix (fixOf T st pos (.cite name key)) (PlainRef.callLen name key)] _ _ ?_ ?_ ?_ ?_
          (by simp [cwTok]) ?_⟩
        · intro x hx
          simp only [List.mem_cons, List.mem_append, List.not_mem_nil, or_false] at hx
          rcases hx with rfl | rfl | hx | rfl
          · exact ⟨rfl, rfl⟩
          · exact ⟨rfl, rfl⟩
          · exact ⟨(B.ok x hx).1, (B.ok x hx).2.1⟩
          · exact ⟨rfl, rfl⟩
        · simp [Piece.toks]
        · intro ps hflat hpok hlink
          refine ⟨⟨V.cn, PlainRef.KeyRun.toks B, S, hpok⟩, Link.fix _ _ _ _ _ ?_ hlink⟩
          refine isFix_of T _ _ _ 4 (mkAction pos :: PlainRef.citeToks pos)
            (fun _ _ _ => rfl) ?_ ?_ (fun _ => rfl) (fun _ => trivial) (fun _ _ => rfl)
            (by simp only [PlainRef.callLen]; omega) (fun _ _ => rfl) (fun _ => rfl) (fun _ => rfl)
          · rw [marksOf_cons, tokMarks_mkAction, PlainRef.marksOf_citeToks]
            rfl
          · intro x hx
            simp only [PlainRef.citeToks, List.mem_cons, List.not_mem_nil, or_false] at hx
            rcases hx with rfl | rfl | rfl
            · exact simple_mkAction pos
            · exact PlainRef.simple_vis _ rfl (by simp [mkFix]; decide)
            · exact simple_mkAction pos
        · exact (firstTokTxtV_cw T.toTables name _ V.cw.ne V.cw.tw V.cw.special V.cw.nVerb).symm
        · intro hdr
          simp [droppable, isSpaceTok, cwTok] at hdr
      | citeN _ name note key R items' hd hS hsub =>
        have V := PlainRef.citeNFacts hd
        have S := PlainRef.stateFacts hS
        have hname := List.length_pos_iff.mpr V.cw.ne
        simp only [List.length_cons, List.length_append] at hf hn
        have hn1 := nextToken_cw T _ src pos name _ V.cw
        obtain ⟨nsteps, N, hnrun⟩ := PlainRef.scanSteps_note T st src (pos + (name.length + 1)) fuel note
          ('{' :: (key ++ '}' :: R)) (by omega) V.lb V.txt V.rb
        have hNl := N.len
        obtain ⟨ksteps, B, hrun⟩ := PlainRef.scanSteps_braced T src
          (pos + (name.length + 1) + (note.length + 2)) (fuel - nsteps.length - 2) key R
          (by omega) V.br
        have hBl := B.len
        have hpos : pos + (name.length + 1) + (note.length + 2) + (key.length + 2)
            = pos + PlainRef.callNLen name note key := by
          simp only [PlainRef.callNLen]; omega
        obtain ⟨i1, I⟩ := ih (fuel - nsteps.length - 2 - ksteps.length - 2)
          (pos + PlainRef.callNLen name note key) R items' (by omega) (by omega) hsub
        have hd1 : ('\\' :: (name ++ '[' :: (note ++ ']' :: '{' :: (key ++ '}' :: R)))).drop
            (name.length + 1) = '[' :: (note ++ ']' :: '{' :: (key ++ '}' :: R)) := by simp
        rw [scanSteps_step T.toTables src fuel pos _ _ _ hn1 (by simp), hd1]
        simp only []
        rw [hnrun, hrun, hpos]
        have hnne : nsteps.map (·.tok) ≠ [] := by
          intro e
          exact V.ne (N.nil_iff (by simpa using e))
        have hnote : ∀ t ∈ nsteps.map (·.tok), CopyTok T st t ∧ t.txt ≠ [']'] := by
          intro t ht
          obtain ⟨x, hx, rfl⟩ := List.mem_map.mp ht
          refine ⟨(N.ok x hx).2.2, ?_⟩
          intro e
          have hmem := PlainRef.mem_txt_of_getTxtPos (c := ']') ht (by rw [e]; simp)
          rw [N.txt] at hmem
          exact V.nrb hmem
        have hlast : PlainRef.lastPos (nsteps.map (·.tok))
            = pos + (name.length + 1) + 1 + lastTokOff note := by
          cases hgl : (nsteps.map (·.tok)).getLast? with
          | none => exact absurd (List.getLast?_eq_none_iff.mp hgl) hnne
          | some l => rw [PlainRef.lastPos_of_getLast hgl, N.last l hgl]
        have e : ∀ X : List ScanStep,
            { tok := cwTok pos name, len := name.length + 1 } ::
              ({ tok := PlainRef.chTok (pos + (name.length + 1)) '[', len := 1 } ::
                (nsteps ++ { tok := PlainRef.chTok (pos + (name.length + 1) + 1 + note.length) ']', len := 1 } ::
                  ({ tok := lbr (pos + (name.length + 1) + (note.length + 2)), len := 1 } ::
                    (ksteps ++ { tok := rbr (pos + (name.length + 1) + (note.length + 2) + 1 + key.length),
                                 len := 1 } :: X))))
            = ({ tok := cwTok pos name, len := name.length + 1 } ::
              ({ tok := PlainRef.chTok (pos + (name.length + 1)) '[', len := 1 } ::
                (nsteps ++ { tok := PlainRef.chTok (pos + (name.length + 1) + 1 + note.length) ']', len := 1 } ::
                  ({ tok := lbr (pos + (name.length + 1) + (note.length + 2)), len := 1 } ::
                    (ksteps ++ [{ tok := rbr (pos + (name.length + 1) + (note.length + 2) + 1 + key.length), len := 1 }]))))) ++ X := by
          intro X; simp
        rw [e]
        refine ⟨i1, ScanFacts.prepend I
          (.citeN pos (pos + (name.length + 1)) (pos + (name.length + 1) + 1 + note.length)
              (pos + (name.length + 1) + (note.length + 2))
              (pos + (name.length + 1) + (note.length + 2) + 1 + key.length) name
              (nsteps.map (·.tok)) (ksteps.map (·.tok)))
          [.fix (fixOf T st pos (.citeN name note key)) (PlainRef.callNLen name note key)] _ _ ?_ ?_ ?_ ?_
          (by simp [cwTok]) ?_⟩
        · intro x hx
          simp only [List.mem_cons, List.mem_append, List.not_mem_nil, or_false] at hx
          rcases hx with rfl | rfl | hx | rfl | rfl | hx | rfl
          · exact ⟨rfl, rfl⟩
          · exact ⟨rfl, rfl⟩
          · exact ⟨(N.ok x hx).1, (N.ok x hx).2.1⟩
          · exact ⟨rfl, rfl⟩
          · exact ⟨rfl, rfl⟩
          · exact ⟨(B.ok x hx).1, (B.ok x hx).2.1⟩
          · exact ⟨rfl, rfl⟩
        · simp [Piece.toks]
        · intro ps hflat hpok hlink
          refine ⟨⟨V.cn, hnne, hnote, PlainRef.KeyRun.toks B, S, hpok⟩, Link.fix _ _ _ _ _ ?_ hlink⟩
          refine isFix_of T _ _ _ (6 + (nsteps.map (·.tok)).length)
            (mkAction pos :: PlainRef.citeNToks pos (nsteps.map (·.tok)))
            (fun _ _ _ => rfl) ?_ ?_ (fun _ => rfl) (fun _ => trivial) (fun _ _ => rfl)
            (by simp only [PlainRef.callNLen, List.length_map]; omega) (fun _ _ => rfl) (fun _ => rfl)
            (fun _ => rfl)
          · rw [marksOf_cons, tokMarks_mkAction,
              PlainRef.marksOf_citeNToks pos _ _ note _ (PlainRef.marksOf_textrun N) hlast]
            have e : pos + (name.length + 1) + 1 = pos + name.length + 2 := by omega
            simp [fixOf, e]
          · intro x hx
            simp only [PlainRef.citeNToks, List.mem_cons, List.mem_append, List.not_mem_nil,
              or_false] at hx
            rcases hx with rfl | rfl | rfl | hx | rfl | rfl
            · exact simple_mkAction pos
            · exact PlainRef.simple_vis _ rfl (by simp [mkFix]; decide)
            · exact ⟨fun ha => by simp [isAction, mkFix] at ha, rfl, fun _ => by simp [mkFix]; decide⟩
            · exact PlainRef.simple_of_copy (hnote x hx).1
            · exact PlainRef.simple_vis _ rfl (by simp [mkTok]; decide)
            · exact simple_mkAction _
        · exact (firstTokTxtV_cw T.toTables name _ V.cw.ne V.cw.tw V.cw.special V.cw.nVerb).symm
        · intro hdr
          simp [droppable, isSpaceTok, cwTok] at hdr
      | foot _ body R items' hd hS hsub =>
        have F := PlainFootnote.footFacts hd
        have S := PlainFootnote.stateFacts hS
        simp only [List.length_cons, List.length_append] at hf hn
        have hn1 : nextToken T.toTables src pos
            ('\\' :: 'f' :: 'o' :: 'o' :: 't' :: 'n' :: 'o' :: 't' :: 'e' :: '{' :: (body ++ '}' :: R))
            = { tok := { kind := .xmacro, pos := pos, txt := PlainFootnote.sFootnote }, len := 9 } :=
          PlainFootnote.nextToken_footnote T.toTables src pos (body ++ '}' :: R) F.special F.nAccent
        obtain ⟨k1, hk1, hn2⟩ := PlainFootnote.nextToken_brace T src (pos + 9) '{' (body ++ '}' :: R)
          (Or.inl rfl) F.lb
        obtain ⟨k2, hk2, hn3⟩ := PlainFootnote.nextToken_brace T src (pos + 10 + body.length) '}' R
          (Or.inr rfl) F.rb
        obtain ⟨f, rfl⟩ : ∃ f, fuel = f + 1 := ⟨fuel - 1, by omega⟩
        obtain ⟨bsteps, B, hrun⟩ := PlainFootnote.scanSteps_textrun T st src ('}' :: R) (by simp; decide)
          body.length body (pos + 10) f (Nat.le_refl _) (by omega) F.text
        have hBl := B.len
        obtain ⟨g, hg⟩ : ∃ g, f - bsteps.length = g + 1 := ⟨f - bsteps.length - 1, by omega⟩
        obtain ⟨i1, I⟩ := ih g (pos + (body.length + 11)) R items' (by omega) (by omega) hsub
        have hpos2 : pos + 10 + body.length + 1 = pos + (body.length + 11) := by omega
        have hsteps : scanSteps T.toTables src (f + 1 + 1) pos
              ('\\' :: 'f' :: 'o' :: 'o' :: 't' :: 'n' :: 'o' :: 't' :: 'e' :: '{' :: (body ++ '}' :: R))
            = (({ tok := { kind := .xmacro, pos := pos, txt := PlainFootnote.sFootnote }, len := 9 } ::
                ({ tok := { kind := k1, pos := pos + 9, txt := ['{'] }, len := 1 } ::
                (bsteps ++
                  [{ tok := { kind := k2, pos := pos + 10 + body.length, txt := ['}'] }, len := 1 }]))) ++
                  (scanSteps T.toTables src g (pos + (body.length + 11)) R).1,
               (scanSteps T.toTables src g (pos + (body.length + 11)) R).2) := by
          rw [scanSteps_step T.toTables src (f + 1) pos _ _ _ hn1 (by simp)]
          simp only [List.drop_succ_cons, List.drop_zero]
          rw [scanSteps_step T.toTables src f _ _ _ _ hn2 (by simp)]
          simp only [List.drop_succ_cons, List.drop_zero]
          rw [show pos + 9 + 1 = pos + 10 by omega, hrun, hg,
            scanSteps_step T.toTables src g _ _ _ _ hn3 (by simp)]
          simp only [List.drop_succ_cons, List.drop_zero, hpos2]
          simp
        rw [hsteps]
        have hc : ∀ t ∈ bsteps.map (·.tok), CopyTok T st t := by
          intro t ht
          obtain ⟨x, hx, rfl⟩ := List.mem_map.mp ht
          exact (B.ok x hx).2.2
        have hbne : bsteps.map (·.tok) ≠ [] := by
          intro e
          exact F.ne (B.nil_iff (by simpa using e))
        obtain ⟨h, hh⟩ : ∃ h, (bsteps.map (·.tok)).head? = some h := by
          cases hx : bsteps.map (·.tok) with
          | nil => exact absurd hx hbne
          | cons a _ => exact ⟨a, rfl⟩
        obtain ⟨l, hl⟩ : ∃ l, (bsteps.map (·.tok)).getLast? = some l := by
          cases hx : (bsteps.map (·.tok)).getLast? with
          | none => rw [List.getLast?_eq_none_iff] at hx; exact absurd hx hbne
          | some a => exact ⟨a, rfl⟩
        have hhp : h.pos = pos + 10 := by
          cases hx : bsteps.map (·.tok) with
          | nil => exact absurd hx hbne
          | cons a as =>
            rw [hx] at hh
            simp only [List.head?_cons, Option.some.injEq] at hh
            rw [← hh]; exact B.first a as hx
        have hlp : l.pos = pos + 10 + lastTokOff body := B.last l hl
        refine ⟨i1, ScanFacts.prepend I
          (.foot { kind := .xmacro, pos := pos, txt := PlainFootnote.sFootnote }
              { kind := k1, pos := pos + 9, txt := ['{'] } (bsteps.map (·.tok))
              { kind := k2, pos := pos + 10 + body.length, txt := ['}'] })
          [.foot (flowOut (pos + 10) body) (body.length + 11)] _ _ ?_ ?_ ?_ ?_ (by simp) ?_⟩
        · intro x hx
          simp only [List.mem_cons, List.mem_append, List.not_mem_nil, or_false] at hx
          rcases hx with rfl | rfl | hx | rfl
          · exact ⟨rfl, rfl⟩
          · exact ⟨rfl, rfl⟩
          · exact ⟨(B.ok x hx).1, (B.ok x hx).2.1⟩
          · exact ⟨rfl, rfl⟩
        · simp [Piece.toks]
        · intro ps hflat hpok hlink
          exact ⟨⟨⟨rfl, rfl⟩, ⟨hk1, rfl⟩, ⟨hk2, rfl⟩, hbne, hc,
              PlainFootnote.flowSafe_of_lines _ body (fun t ht => (hc t ht).txt_ne) B.lines F.lines,
              S, hpok⟩,
            Link.foot _ _ _ _ _ _ _ _ (charsOf_flowToks _ h l body (pos + 10) hh hl B.txt hhp hlp)
              (by simp only [List.length_map]; omega) hlink⟩
        · have htw : (['f', 'o', 'o', 't', 'n', 'o', 't', 'e'] ++ '{' :: (body ++ '}' :: R)).takeWhile
              macroChar = ['f', 'o', 'o', 't', 'n', 'o', 't', 'e'] :=
            takeWhile_append_stop _ _ _ (by decide)
              (by simp only [List.head?_cons, Option.all_some]; decide)
          exact (firstTokTxtV_cw T.toTables ['f', 'o', 'o', 't', 'n', 'o', 't', 'e'] _ (by simp) htw
            F.special (by decide)).symm
        · intro hdr
          simp [droppable, isSpaceTok] at hdr
      | head _ name title R items' hd hS hsub =>
        have F := PlainHeading.headFacts hd
        have S := PlainHeading.stateFacts hS
        have hname := List.length_pos_iff.mpr F.ne
        simp only [List.length_cons, List.length_append] at hf hn
        have hn1 := PlainHeading.nextToken_name T st src pos name title R F
        obtain ⟨k1, hk1, hn2⟩ := PlainFootnote.nextToken_brace T src (pos + (name.length + 1)) '{'
          (title ++ '}' :: R) (Or.inl rfl) F.lb
        obtain ⟨k2, hk2, hn3⟩ := PlainFootnote.nextToken_brace T src
          (pos + name.length + 2 + title.length) '}' R (Or.inr rfl) F.rb
        obtain ⟨f, rfl⟩ : ∃ f, fuel = f + 1 := ⟨fuel - 1, by omega⟩
        obtain ⟨bsteps, B, hrun⟩ := PlainFootnote.scanSteps_textrun T st src ('}' :: R)
          (by simp; decide) title.length title (pos + name.length + 2) f (Nat.le_refl _) (by omega) F.text
        have hBl := B.len
        obtain ⟨g, hg⟩ : ∃ g, f - bsteps.length = g + 1 := ⟨f - bsteps.length - 1, by omega⟩
        obtain ⟨i1, I⟩ := ih g (pos + (name.length + title.length + 3)) R items'
          (by omega) (by omega) hsub
        have hpos2 : pos + name.length + 2 + title.length + 1 = pos + (name.length + title.length + 3) := by
          omega
        have hd1 : ('\\' :: (name ++ '{' :: (title ++ '}' :: R))).drop (name.length + 1)
            = '{' :: (title ++ '}' :: R) := by simp
        have hsteps : scanSteps T.toTables src (f + 1 + 1) pos
              ('\\' :: (name ++ '{' :: (title ++ '}' :: R)))
            = (({ tok := cwTok pos name, len := name.length + 1 } ::
                ({ tok := { kind := k1, pos := pos + (name.length + 1), txt := ['{'] }, len := 1 } ::
                (bsteps ++
                  [{ tok := { kind := k2, pos := pos + name.length + 2 + title.length, txt := ['}'] }, len := 1 }]))) ++ (scanSteps T.toTables src g (pos + (name.length + title.length + 3)) R).1,
               (scanSteps T.toTables src g (pos + (name.length + title.length + 3)) R).2) := by
          rw [scanSteps_step T.toTables src (f + 1) pos _ _ _ hn1 (by simp), hd1]
          simp only []
          rw [scanSteps_step T.toTables src f _ _ _ _ hn2 (by simp)]
          simp only [List.drop_succ_cons, List.drop_zero]
          rw [show pos + (name.length + 1) + 1 = pos + name.length + 2 by omega, hrun, hg,
            scanSteps_step T.toTables src g _ _ _ _ hn3 (by simp)]
          simp only [List.drop_succ_cons, List.drop_zero, hpos2]
          simp
        rw [hsteps]
        have hc : ∀ t ∈ bsteps.map (·.tok), CopyTok T st t := by
          intro t ht
          obtain ⟨x, hx, rfl⟩ := List.mem_map.mp ht
          exact (B.ok x hx).2.2
        have hne : title ≠ [] := by
          intro e
          have := F.vis
          rw [e] at this
          simp [isBlank] at this
        have hbne : bsteps.map (·.tok) ≠ [] := by
          intro e
          exact hne (B.nil_iff (by simpa using e))
        obtain ⟨l, hl⟩ : ∃ l, (bsteps.map (·.tok)).getLast? = some l := by
          cases hx : (bsteps.map (·.tok)).getLast? with
          | none => rw [List.getLast?_eq_none_iff] at hx; exact absurd hx hbne
          | some a => exact ⟨a, rfl⟩
        have hlp : PlainHeading.lastPos (bsteps.map (·.tok))
            = pos + name.length + 2 + lastTokOff title := by
          simp only [PlainHeading.lastPos, hl, Option.map_some, Option.getD_some]
          exact B.last l hl
        have htxt : (getTxtPos (bsteps.map (·.tok))).1 = title := by rw [B.txt]
        refine ⟨i1, ScanFacts.prepend I
          (.head (cwTok pos name) { kind := k1, pos := pos + (name.length + 1), txt := ['{'] }
              (bsteps.map (·.tok))
              { kind := k2, pos := pos + name.length + 2 + title.length, txt := ['}'] })
          [.fix (fixOf T st pos (.head name title)) (name.length + title.length + 3)] _ _ ?_ ?_ ?_ ?_
          (by simp [cwTok]) ?_⟩
        · intro x hx
          simp only [List.mem_cons, List.mem_append, List.not_mem_nil, or_false] at hx
          rcases hx with rfl | rfl | hx | rfl
          · exact ⟨rfl, rfl⟩
          · exact ⟨rfl, rfl⟩
          · exact ⟨(B.ok x hx).1, (B.ok x hx).2.1⟩
          · exact ⟨rfl, rfl⟩
        · simp [Piece.toks]
        · intro ps hflat hpok hlink
          refine ⟨⟨PlainHeading.hdTok_cwTok F pos, ⟨hk1, rfl⟩, ⟨hk2, rfl⟩, hbne, hc, S, hpok⟩,
            Link.fix _ _ _ _ _ ?_ hlink⟩
          refine isFix_of T _ _ _ ((bsteps.map (·.tok)).length + 3)
            (PlainHeading.headOut T (cwTok pos name) (bsteps.map (·.tok)))
            (fun _ _ _ => rfl) ?_ ?_ (fun _ => rfl) (fun _ => trivial) (fun _ _ => rfl)
            (by simp only [List.length_map]; omega) (fun _ _ => rfl) (fun _ => rfl) (fun _ => rfl)
          · simp only [PlainHeading.headOut, fixOf]
            rw [marksOf_cons, tokMarks_mkAction, marksOf_append, PlainRef.marksOf_textrun B, htxt, hlp,
              marksOf_dotToks]
            rfl
          · intro x hx
            simp only [PlainHeading.headOut, List.mem_cons, List.mem_append] at hx
            rcases hx with rfl | hx | hx
            · exact simple_mkAction _
            · exact PlainRef.simple_of_copy (hc x hx)
            · exact PlainRef.simple_of_copy (PlainHeading.copyTok_dotToks S _ _ x hx)
        · exact (firstTokTxtV_cw T.toTables name _ F.ne (takeWhile_append_stop _ _ _ F.all rfl) F.special
            F.nVerb).symm
        · intro hdr
          simp [droppable, isSpaceTok, cwTok] at hdr
      | acc _ name ws bo l R items' hd hnlok hsub =>
        have F := PlainAccent.accOkFacts hd
        obtain ⟨u, hu⟩ := Option.isSome_iff_exists.mp F.val
        have hl := (PlainAccent.accFacts hu).letter
        obtain ⟨hmlen, hne⟩ := PlainAccent.macroLen_name _ _ F.nm
        obtain ⟨hsl, hal⟩ := PlainAccent.accSteps_length pos name ws bo l hne
        have hrl : ('\\' :: (name ++ (ws ++ (PlainAccent.argStr bo l ++ R)))).length
            = PlainAccent.accLen name ws bo + R.length := by
          have elen : (PlainAccent.argStr bo l).length = (PlainAccent.argStr bo 'x').length := by
            cases bo <;> rfl
          simp only [PlainAccent.accLen, List.length_append, List.length_cons, elen]; omega
        rw [hrl] at hf hn
        obtain ⟨g, hg⟩ : ∃ g, fuel + 1 = g + (PlainAccent.accSteps pos name ws bo l).length :=
          ⟨fuel + 1 - (PlainAccent.accSteps pos name ws bo l).length, by omega⟩
        rw [hg, PlainAccent.scanRun_acc T src pos name ws bo l R F hl g]
        obtain ⟨i1, I⟩ := ih g (pos + PlainAccent.accLen name ws bo) R items' (by omega) (by omega) hsub
        refine ⟨i1, ?_⟩
        have hsteps : PlainAccent.accSteps pos name ws bo l
            = { tok := PlainAccent.accTok pos name, len := name.length + 1 } ::
              (PlainAccent.wsSteps (pos + (name.length + 1)) ws
                ++ PlainAccent.argSteps bo (pos + (name.length + 1) + ws.length) l) := rfl
        rw [hsteps]
        refine ScanFacts.prepend I
          (.acc pos name ((PlainAccent.wsSteps (pos + (name.length + 1)) ws).map (·.tok))
              (PlainAccent.brOpt bo (pos + (name.length + 1) + ws.length))
              (PlainAccent.letPos bo (pos + (name.length + 1) + ws.length)) l)
          [.fix (fixOf T st pos (.acc name ws bo l)) (PlainAccent.accLen name ws bo)] _ _ ?_ ?_ ?_ ?_
          (by simp [PlainAccent.accTok]) ?_
        · intro x hx
          exact PlainAccent.accSteps_ok pos name ws bo l x (by rw [hsteps]; exact hx)
        · simp [Piece.toks, PlainAccent.argSteps_toks]
        · intro ps hflat hpok hlink
          refine ⟨⟨F.an, PlainAccent.wsSteps_kind _ _, F.val, hpok⟩, Link.fix _ _ _ _ _ ?_ hlink⟩
          refine isFix_of T _ _ _ 3 [PlainAccent.resTok pos (PlainAccent.accVal T name l)]
            (fun _ _ _ => rfl) ?_ ?_ (fun _ => rfl) (fun _ => trivial) (fun _ _ => rfl) (by omega)
            (fun _ _ => rfl) (fun _ => rfl) (fun _ => rfl)
          · rw [marksOf_cons, tokMarks_nonaction _ (by simp [isAction, PlainAccent.resTok]),
              PlainAccent.tokChars_resTok]
            simp [fixOf, marksOf]
          · intro x hx
            simp only [List.mem_singleton] at hx
            subst hx
            refine ⟨by simp [isAction, PlainAccent.resTok], by simp [isLang, PlainAccent.resTok], ?_⟩
            intro hnl
            simp only [accNlOk, Bool.or_eq_true, Bool.not_eq_true'] at hnlok
            simp only [PlainAccent.resTok] at hnl ⊢
            rcases hnlok with h | h
            · rw [h] at hnl; cases hnl
            · exact h
        · simp only [firstTokTxtV_name T.toTables name _ hmlen F.special F.nVerb, PlainAccent.accTok]
        · intro hdr
          simp [droppable, isSpaceTok, PlainAccent.accTok] at hdr

      | defn _ name nn body R items' hd hnc hsub =>
        have D := PlainMacroArgs.defFacts hd
        have hbl : (bodyStr body).length
            = ((normBody body).1 ++ PlainMacroArgs.tailStr (normBody body).2).length := by
          rw [← PlainMacroArgs.bodyStr_norm]
        simp only [List.length_cons, List.length_append, ncName_eq] at hf hn
        obtain ⟨g, hg⟩ : ∃ g, fuel = g + 7 := ⟨fuel - 7, by omega⟩
        have hn1 := nextToken_nc T src pos _ D.ncSpecial D.ncAccent
        have hn2 := nextToken_brace T src (pos + 11) '{' _ (Or.inl rfl) D.b1
        have hn3 := nextToken_cw T st src (pos + 11 + 1) name _ D.cw
        have hn4 := nextToken_brace T src (pos + 11 + 1 + (name.length + 1)) '}' _ (Or.inr rfl) D.b2
        have hn5 := PlainMacroArgs.nextToken_txt T src (pos + 11 + 1 + (name.length + 1) + 1) '[' _ D.t1
        have hn6 := PlainMacroArgs.nextToken_txt T src (pos + 11 + 1 + (name.length + 1) + 1 + 1)
          (digitChar nn) _ D.t2
        have hn7 := PlainMacroArgs.nextToken_txt T src (pos + 11 + 1 + (name.length + 1) + 1 + 1 + 1) ']' _
          D.t3
        have hn8 := nextToken_brace T src (pos + 11 + 1 + (name.length + 1) + 1 + 1 + 1 + 1) '{' _
          (Or.inl rfl) D.b3
        have hn9 := nextToken_brace T src
          (pos + 11 + 1 + (name.length + 1) + 1 + 1 + 1 + 1 + 1 + (bodyStr body).length) '}' R
          (Or.inr rfl) D.b4
        obtain ⟨hb1, hb2⟩ := PlainMacroArgs.normBody_ok T st nn body D.bok
        obtain ⟨bsteps, B, hrun⟩ := PlainMacroArgs.scanSteps_body T st src nn R (normBody body)
          (pos + 11 + 1 + (name.length + 1) + 1 + 1 + 1 + 1 + 1) g (by omega) hb1 hb2
        rw [← PlainMacroArgs.bodyStr_norm] at hrun
        have hBl := B.len
        obtain ⟨g', hg'⟩ : ∃ g', g - bsteps.length = g' + 1 := ⟨g - bsteps.length - 1, by omega⟩
        have hpos : pos + 11 + 1 + (name.length + 1) + 1 + 1 + 1 + 1 + 1 + (bodyStr body).length + 1
            = pos + (name.length + (bodyStr body).length + 19) := by omega
        obtain ⟨i1, I⟩ := ih g' (pos + (name.length + (bodyStr body).length + 19)) R items'
          (by omega) (by omega) hsub
        have hd1 : ('\\' :: (ncName ++ '{' :: '\\' :: (name ++ '}' :: '[' :: digitChar nn :: ']' :: '{' ::
              (bodyStr body ++ '}' :: R)))).drop 11
            = '{' :: '\\' :: (name ++ '}' :: '[' :: digitChar nn :: ']' :: '{' :: (bodyStr body ++ '}' :: R)) := by
          rw [ncName_eq]; rfl
        have hd3 : ('\\' :: (name ++ '}' :: '[' :: digitChar nn :: ']' :: '{' :: (bodyStr body ++ '}' :: R))).drop
              (name.length + 1)
            = '}' :: '[' :: digitChar nn :: ']' :: '{' :: (bodyStr body ++ '}' :: R) := by simp
        have hsteps : scanSteps T.toTables src (fuel + 1) pos
              ('\\' :: (ncName ++ '{' :: '\\' :: (name ++ '}' :: '[' :: digitChar nn :: ']' :: '{' ::
                (bodyStr body ++ '}' :: R))))
            = (({ tok := cwTok pos ncName, len := 11 } ::
               ({ tok := { kind := .special, pos := pos + 11, txt := ['{'] }, len := 1 } ::
               { tok := cwTok (pos + 11 + 1) name, len := name.length + 1 } ::
               { tok := { kind := .special, pos := pos + 11 + 1 + (name.length + 1), txt := ['}'] }, len := 1 } ::
               { tok := txtTok (pos + 11 + 1 + (name.length + 1) + 1) '[', len := 1 } ::
               { tok := txtTok (pos + 11 + 1 + (name.length + 1) + 1 + 1) (digitChar nn), len := 1 } ::
               { tok := txtTok (pos + 11 + 1 + (name.length + 1) + 1 + 1 + 1) ']', len := 1 } ::
               { tok := { kind := .special, pos := pos + 11 + 1 + (name.length + 1) + 1 + 1 + 1 + 1, txt := ['{'] }, len := 1 } ::
               (bsteps ++
                 [{ tok := { kind := .special, pos := pos + 11 + 1 + (name.length + 1) + 1 + 1 + 1 + 1 + 1 + (bodyStr body).length, txt := ['}'] }, len := 1 }]))) ++
                 (scanSteps T.toTables src g' (pos + (name.length + (bodyStr body).length + 19)) R).1,
               (scanSteps T.toTables src g' (pos + (name.length + (bodyStr body).length + 19)) R).2) := by
          rw [hg, scanSteps_step T.toTables src (g + 7) pos _ _ _ hn1 (by simp), hd1]
          simp only []
          rw [scanSteps_step T.toTables src (g + 6) (pos + 11) _ _ _ hn2 (by simp)]
          simp only [List.drop_succ_cons, List.drop_zero]
          rw [scanSteps_step T.toTables src (g + 5) (pos + 11 + 1) _ _ _ hn3 (by simp), hd3]
          simp only []
          rw [scanSteps_step T.toTables src (g + 4) _ _ _ _ hn4 (by simp)]
          simp only [List.drop_succ_cons, List.drop_zero]
          rw [scanSteps_step T.toTables src (g + 3) _ _ _ _ hn5 (by simp)]
          simp only [List.drop_succ_cons, List.drop_zero]
          rw [scanSteps_step T.toTables src (g + 2) _ _ _ _ hn6 (by simp)]
          simp only [List.drop_succ_cons, List.drop_zero]
          rw [scanSteps_step T.toTables src (g + 1) _ _ _ _ hn7 (by simp)]
          simp only [List.drop_succ_cons, List.drop_zero]
          rw [scanSteps_step T.toTables src g _ _ _ _ hn8 (by simp)]
          simp only [List.drop_succ_cons, List.drop_zero]
          rw [hrun, hg', scanSteps_step T.toTables src g' _ _ _ _ hn9 (by simp)]
          simp only [List.drop_succ_cons, List.drop_zero, hpos]
          simp
        rw [hsteps]
        refine ⟨i1, ScanFacts.prepend I
          (.defn pos (pos + 11) (pos + 11 + 1) (pos + 11 + 1 + (name.length + 1))
              (pos + 11 + 1 + (name.length + 1) + 1) (pos + 11 + 1 + (name.length + 1) + 1 + 1)
              (pos + 11 + 1 + (name.length + 1) + 1 + 1 + 1) (pos + 11 + 1 + (name.length + 1) + 1 + 1 + 1 + 1)
              (pos + 11 + 1 + (name.length + 1) + 1 + 1 + 1 + 1 + 1 + (bodyStr body).length) name nn
              (bsteps.map (·.tok)))
          [.defn pos name nn body] _ _ ?_ ?_ ?_ ?_ (by simp [cwTok]) ?_⟩
        · intro x hx
          simp only [List.mem_cons, List.mem_append, List.not_mem_nil, or_false] at hx
          rcases hx with rfl | rfl | rfl | rfl | rfl | rfl | rfl | rfl | hx | rfl
          · exact ⟨rfl, rfl⟩
          · exact ⟨rfl, rfl⟩
          · exact ⟨rfl, rfl⟩
          · exact ⟨rfl, rfl⟩
          · exact ⟨rfl, rfl⟩
          · exact ⟨rfl, rfl⟩
          · exact ⟨rfl, rfl⟩
          · exact ⟨rfl, rfl⟩
          · exact B.ok x hx
          · exact ⟨rfl, rfl⟩
        · simp [Piece.toks, lbr, rbr]
        · intro ps hflat hpok hlink
          refine ⟨⟨NcOk_of_ncOk hnc, nameOk_of_cwFacts D.cw D.ign, D.digit, ⟨?_, ?_⟩, hpok⟩,
            Link.defn _ _ _ _ _ _ _ _ _ name nn body _ ps items' B.link hlink⟩
          · have := B.ne (by rw [← PlainMacroArgs.bodyStr_norm]; exact D.bne)
            simpa using this
          · intro t ht
            obtain ⟨x, hx, rfl⟩ := List.mem_map.mp ht
            exact B.toks x hx
        · have htw : (ncName ++ '{' :: '\\' :: (name ++ '}' :: '[' :: digitChar nn :: ']' :: '{' ::
                (bodyStr body ++ '}' :: R))).takeWhile macroChar
              = ncName := takeWhile_append_stop _ _ _ (by decide) rfl
          exact (firstTokTxtV_cw T.toTables ncName _ (by decide) htw D.ncSpecial (by decide)).symm
        · intro hdr
          simp [droppable, isSpaceTok, cwTok] at hdr
      | ddef _ name nn body R items' hd hsub =>
        have D := PlainDefTex.ddefFacts hd
        have hbl : (bodyStr body).length
            = ((normBody body).1 ++ PlainMacroArgs.tailStr (normBody body).2).length := by
          rw [← PlainMacroArgs.bodyStr_norm]
        simp only [List.length_cons, List.length_append, PlainDefTex.defName_eq,
          PlainDefTex.paramStr_length] at hf hn
        obtain ⟨g, hg⟩ : ∃ g, fuel = g + nn + 2 := ⟨fuel - nn - 2, by omega⟩
        have hn1 := PlainDefTex.nextToken_def T src pos _ D.dSpecial D.dAccent
        have hn2 := nextToken_cw T st src (pos + 4) name _ D.cw
        have hn3 := nextToken_brace T src (pos + 4 + (name.length + 1) + 2 * nn) '{' _ (Or.inl rfl) D.b3
        have hn4 := nextToken_brace T src
          (pos + 4 + (name.length + 1) + 2 * nn + 1 + (bodyStr body).length) '}' R (Or.inr rfl) D.b4
        obtain ⟨hb1, hb2⟩ := PlainMacroArgs.normBody_ok T st nn body D.bok
        obtain ⟨bsteps, B, hrun⟩ := PlainMacroArgs.scanSteps_body T st src nn R (normBody body)
          (pos + 4 + (name.length + 1) + 2 * nn + 1) g (by omega) hb1 hb2
        rw [← PlainMacroArgs.bodyStr_norm] at hrun
        have hBl := B.len
        obtain ⟨g', hg'⟩ : ∃ g', g - bsteps.length = g' + 1 := ⟨g - bsteps.length - 1, by omega⟩
        have hpos : pos + 4 + (name.length + 1) + 2 * nn + 1 + (bodyStr body).length + 1
            = pos + (name.length + (bodyStr body).length + 2 * nn + 7) := by omega
        obtain ⟨i1, I⟩ := ih g' (pos + (name.length + (bodyStr body).length + 2 * nn + 7)) R items'
          (by omega) (by omega) hsub
        have hd1 : ('\\' :: (PlainDefTex.defName ++ '\\' :: (name ++ (PlainDefTex.paramStr 1 nn ++ '{' :: (bodyStr body ++ '}' :: R))))).drop 4
            = '\\' :: (name ++ (PlainDefTex.paramStr 1 nn ++ '{' :: (bodyStr body ++ '}' :: R))) := by
          rw [PlainDefTex.defName_eq]; rfl
        have hd2 : ('\\' :: (name ++ (PlainDefTex.paramStr 1 nn ++ '{' :: (bodyStr body ++ '}' :: R)))).drop (name.length + 1)
            = PlainDefTex.paramStr 1 nn ++ '{' :: (bodyStr body ++ '}' :: R) := by simp
        have hsteps : scanSteps T.toTables src (fuel + 1) pos
              ('\\' :: (PlainDefTex.defName ++ '\\' :: (name ++ (PlainDefTex.paramStr 1 nn ++ '{' :: (bodyStr body ++ '}' :: R)))))
            = (({ tok := cwTok pos PlainDefTex.defName, len := 4 } ::
               ({ tok := cwTok (pos + 4) name, len := name.length + 1 } ::
               ((PlainDefTex.paramToks (pos + 4 + (name.length + 1)) 1 nn).map (fun t => ({ tok := t, len := 2 } : ScanStep)) ++
               { tok := { kind := .special, pos := pos + 4 + (name.length + 1) + 2 * nn, txt := ['{'] }, len := 1 } ::
               (bsteps ++
                 [{ tok := { kind := .special, pos := pos + 4 + (name.length + 1) + 2 * nn + 1 + (bodyStr body).length, txt := ['}'] }, len := 1 }])))) ++
                 (scanSteps T.toTables src g' (pos + (name.length + (bodyStr body).length + 2 * nn + 7)) R).1,
               (scanSteps T.toTables src g' (pos + (name.length + (bodyStr body).length + 2 * nn + 7)) R).2) := by
          rw [hg, scanSteps_step T.toTables src (g + nn + 2) pos _ _ _ hn1 (by simp), hd1]
          simp only []
          rw [scanSteps_step T.toTables src (g + nn + 1) (pos + 4) _ _ _ hn2 (by simp), hd2]
          simp only []
          rw [PlainDefTex.scanSteps_params T.toTables src _ nn 1 _ (g + nn + 1) (by omega) D.params,
            show g + nn + 1 - nn = g + 1 by omega,
            scanSteps_step T.toTables src g _ _ _ _ hn3 (by simp)]
          simp only [List.drop_succ_cons, List.drop_zero]
          rw [hrun, hg', scanSteps_step T.toTables src g' _ _ _ _ hn4 (by simp)]
          simp only [List.drop_succ_cons, List.drop_zero, hpos]
          simp
        have hpm : ∀ q, ((PlainDefTex.paramToks q 1 nn).map (fun t => ({ tok := t, len := 2 } : ScanStep))).map (·.tok)
            = PlainDefTex.paramToks q 1 nn := by
          intro q; simp [List.map_map, Function.comp_def]
        rw [hsteps]
        refine ⟨i1, ScanFacts.prepend I
          (.ddef pos (pos + 4) (pos + 4 + (name.length + 1)) (pos + 4 + (name.length + 1) + 2 * nn)
              (pos + 4 + (name.length + 1) + 2 * nn + 1 + (bodyStr body).length) name nn
              (bsteps.map (·.tok)))
          [.ddef pos name nn body] _ _ ?_ ?_ ?_ ?_ (by simp [cwTok]) ?_⟩
        · intro x hx
          simp only [List.mem_cons, List.mem_append, List.mem_map, List.not_mem_nil, or_false] at hx
          rcases hx with rfl | rfl | ⟨t, _, rfl⟩ | rfl | hx | rfl
          · exact ⟨rfl, rfl⟩
          · exact ⟨rfl, rfl⟩
          · exact ⟨rfl, rfl⟩
          · exact ⟨rfl, rfl⟩
          · exact B.ok x hx
          · exact ⟨rfl, rfl⟩
        · simp [Piece.toks, lbr, rbr, hpm]
        · intro ps hflat hpok hlink
          refine ⟨⟨nameOk_of_cwFacts D.cw D.ign, ⟨?_, ?_⟩, hpok⟩,
            Link.ddef _ _ _ _ _ name nn body _ ps items' B.link hlink⟩
          · have := B.ne (by rw [← PlainMacroArgs.bodyStr_norm]; exact D.bne)
            simpa using this
          · intro t ht
            obtain ⟨x, hx, rfl⟩ := List.mem_map.mp ht
            exact B.toks x hx
        · have htw : (PlainDefTex.defName ++ '\\' :: (name ++ (PlainDefTex.paramStr 1 nn ++ '{' :: (bodyStr body ++ '}' :: R)))).takeWhile macroChar
              = PlainDefTex.defName := takeWhile_append_stop _ _ _ (by decide) rfl
          exact (firstTokTxtV_cw T.toTables PlainDefTex.defName _ (by decide) htw D.dSpecial (by decide)).symm
        · intro hdr
          simp [droppable, isSpaceTok, cwTok] at hdr
      | ppar _ ws R items' hd hsub =>
        simp only [parOkV, Bool.and_eq_true] at hd
        obtain ⟨⟨hd1, hd2⟩, hd3⟩ := hd
        have V := PlainParEnv.parFacts hd1
        have hpo := PlainParEnv.ParOk_of_parOk hd2
        simp only [List.length_cons, List.length_append, PlainParEnv.parName_len] at hf hn
        have hn1 := nextToken_cw T _ src pos PlainParEnv.parName _ V.cw
        rw [PlainParEnv.parName_len] at hn1
        have hwl := PlainThm.wsSteps_len (pos + 4) ws
        have hrun3 := PlainParEnv.scanSteps_wsP T src (pos + 4) fuel ws R V.blank V.nls V.whole (by omega)
        have hpos : pos + 4 + ws.length = pos + (ws.length + 4) := by omega
        rw [hpos] at hrun3
        obtain ⟨i1, I⟩ := ih (fuel - (PlainThm.wsSteps (pos + 4) ws).length) (pos + (ws.length + 4)) R
          items' (by omega) (by omega) hsub
        have hdr1 : ('\\' :: (PlainParEnv.parName ++ (ws ++ R))).drop 4 = ws ++ R := rfl
        have hsteps : scanSteps T.toTables src (fuel + 1) pos ('\\' :: (PlainParEnv.parName ++ (ws ++ R)))
            = (({ tok := cwTok pos PlainParEnv.parName, len := 4 } :: PlainThm.wsSteps (pos + 4) ws) ++
                 (scanSteps T.toTables src (fuel - (PlainThm.wsSteps (pos + 4) ws).length)
                   (pos + (ws.length + 4)) R).1,
               (scanSteps T.toTables src (fuel - (PlainThm.wsSteps (pos + 4) ws).length)
                   (pos + (ws.length + 4)) R).2) := by
          rw [scanSteps_step T.toTables src fuel pos _ _ _ hn1 (by simp), hdr1]
          simp only []
          rw [hrun3]
          simp
        rw [hsteps]
        have hsp : PlainThm.SpToks ((PlainThm.wsSteps (pos + 4) ws).map (·.tok)) := by
          intro t ht
          obtain ⟨x, hx, rfl⟩ := List.mem_map.mp ht
          exact (PlainThm.wsSteps_ok _ _ x hx).2.2
        refine ⟨i1, ScanFacts.prepend I (.ppar pos ((PlainThm.wsSteps (pos + 4) ws).map (·.tok)))
          [.fix (fixOf T st pos (.ppar ws)) (ws.length + 4)] _ _ ?_ ?_ ?_ ?_ (by simp [cwTok]) ?_⟩
        · intro x hx
          simp only [List.mem_cons] at hx
          rcases hx with rfl | hx
          · exact ⟨rfl, rfl⟩
          · exact ⟨(PlainThm.wsSteps_ok _ _ x hx).1, (PlainThm.wsSteps_ok _ _ x hx).2.1⟩
        · simp [Piece.toks]
        · intro ps hflat hpok hlink
          refine ⟨⟨hpo, hsp, headVis_of_scan I hflat hpok V.head hd3, hpok⟩,
            Link.fix _ _ _ _ _ ?_ hlink⟩
          refine isFix_of T _ _ _ 3 [mkAction pos, PlainThm.parTok pos]
            (fun _ _ _ => rfl) ?_ ?_ (fun _ => rfl) (fun _ => trivial) (fun _ _ => rfl)
            (by omega) (fun _ _ => rfl) (fun _ => rfl) (fun _ => rfl)
          · rw [marksOf_cons, tokMarks_mkAction, marksOf_cons, PlainThm.tokMarks_parTok]
            rfl
          · intro x hx
            simp only [List.mem_cons, List.not_mem_nil, or_false] at hx
            rcases hx with rfl | rfl
            · exact simple_mkAction pos
            · exact PlainThm.simple_parTok pos
        · exact (firstTokTxtV_cw T.toTables PlainParEnv.parName _ (by decide) V.cw.tw V.cw.special
            V.cw.nVerb).symm
        · intro hdr
          simp [droppable, isSpaceTok, cwTok] at hdr
      | pbeg _ name arg R items' hd hsub =>
        have V := PlainParEnv.begFacts hd
        have hbl : PlainItem.nBegin.length = 5 := rfl
        simp only [List.length_cons, List.length_append, hbl] at hf hn
        have hn1 := PlainItem.nextToken_begin T src pos _ V.special V.noverb
        obtain ⟨nst, N, hrun1⟩ := PlainThm.scanSteps_bracedText T st src (pos + 6) fuel name _ (by omega) V.nm
        have hNl := N.len
        obtain ⟨ast, B, hrun2⟩ := PlainThm.scanSteps_bracedText T st src (pos + 6 + (name.length + 2))
          (fuel - nst.length - 2) arg _ (by omega) V.ag
        have hBl := B.len
        have hpos : pos + 6 + (name.length + 2) + (arg.length + 2)
            = pos + (name.length + arg.length + 10) := by omega
        rw [hpos] at hrun2
        obtain ⟨i1, I⟩ := ih (fuel - nst.length - 2 - ast.length - 2)
          (pos + (name.length + arg.length + 10)) R items' (by omega) (by omega) hsub
        have hdr1 : ('\\' :: (PlainItem.nBegin ++ '{' :: (name ++ '}' :: '{' :: (arg ++ '}' :: R)))).drop 6
            = '{' :: (name ++ '}' :: '{' :: (arg ++ '}' :: R)) := rfl
        have hsteps : scanSteps T.toTables src (fuel + 1) pos
              ('\\' :: (PlainItem.nBegin ++ '{' :: (name ++ '}' :: '{' :: (arg ++ '}' :: R))))
            = (({ tok := PlainItem.begTok pos, len := 6 } ::
               ({ tok := lbr (pos + 6), len := 1 } ::
               (nst ++ { tok := rbr (pos + 6 + 1 + name.length), len := 1 } ::
                 { tok := lbr (pos + 6 + (name.length + 2)), len := 1 } ::
                 (ast ++ [{ tok := rbr (pos + 6 + (name.length + 2) + 1 + arg.length), len := 1 }])))) ++
                 (scanSteps T.toTables src (fuel - nst.length - 2 - ast.length - 2)
                   (pos + (name.length + arg.length + 10)) R).1,
               (scanSteps T.toTables src (fuel - nst.length - 2 - ast.length - 2)
                   (pos + (name.length + arg.length + 10)) R).2) := by
          rw [scanSteps_step T.toTables src fuel pos _ _ _ hn1 (by simp), hdr1]
          simp only []
          rw [hrun1, hrun2]
          simp
        rw [hsteps]
        obtain ⟨hN, eN⟩ := PlainThm.nameToks_of_run N V.nm.ne
        refine ⟨i1, ScanFacts.prepend I
          (.pbeg pos (pos + 6) (pos + 6 + 1 + name.length) (pos + 6 + (name.length + 2))
            (pos + 6 + (name.length + 2) + 1 + arg.length) (nst.map (·.tok)) (ast.map (·.tok)))
          [.fix (fixOf T st pos (.pbeg name arg)) (name.length + arg.length + 10)] _ _ ?_ ?_ ?_ ?_
          (by simp [PlainItem.begTok]) ?_⟩
        · intro x hx
          simp only [List.mem_cons, List.mem_append, List.not_mem_nil, or_false] at hx
          rcases hx with rfl | rfl | hx | rfl | rfl | hx | rfl
          · exact ⟨rfl, rfl⟩
          · exact ⟨rfl, rfl⟩
          · exact ⟨(N.ok x hx).1, (N.ok x hx).2.1⟩
          · exact ⟨rfl, rfl⟩
          · exact ⟨rfl, rfl⟩
          · exact ⟨(B.ok x hx).1, (B.ok x hx).2.1⟩
          · exact ⟨rfl, rfl⟩
        · simp [Piece.toks]
        · intro ps hflat hpok hlink
          refine ⟨⟨hN, by rw [eN]; exact V.env, ?_, hpok⟩, Link.fix _ _ _ _ _ ?_ hlink⟩
          · intro t ht
            obtain ⟨x, hx, rfl⟩ := List.mem_map.mp ht
            have hc : PlainFootnote.CopyTok T st x.tok := (B.ok x hx).2.2
            exact ⟨PlainMacro.plainTok_noBrace hc.plain, hc.plain.notComment⟩
          · refine isFix_of T _ _ _ (3 + (nst.map (·.tok)).length) [PlainThm.parTok pos, mkAction pos]
              (fun _ _ _ => rfl) ?_ ?_ (fun _ => rfl) (fun _ => trivial) (fun _ _ => rfl)
              (by simp only [List.length_map]; omega) (fun _ _ => rfl) (fun _ => rfl) (fun _ => rfl)
            · rw [marksOf_cons, PlainThm.tokMarks_parTok, marksOf_cons, tokMarks_mkAction]
              rfl
            · intro x hx
              simp only [List.mem_cons, List.not_mem_nil, or_false] at hx
              rcases hx with rfl | rfl
              · exact PlainThm.simple_parTok pos
              · exact simple_mkAction pos
        · have htw : (PlainItem.nBegin ++ '{' :: (name ++ '}' :: '{' :: (arg ++ '}' :: R))).takeWhile macroChar
              = PlainItem.nBegin := takeWhile_append_stop _ _ _ (by decide) rfl
          show sBegin = _
          rw [PlainItem.sBegin_eq]
          exact (firstTokTxtV_cw T.toTables PlainItem.nBegin _ (by decide) htw V.special (by decide)).symm
        · intro hdr
          simp [droppable, isSpaceTok, PlainItem.begTok] at hdr
      | pen _ name R items' hd hsub =>
        have V := PlainParEnv.endFacts hd
        have hel : PlainItem.nEnd.length = 3 := rfl
        simp only [List.length_cons, List.length_append, hel] at hf hn
        have hn1 := PlainItem.nextToken_end T src pos _ V.special
        obtain ⟨nst, N, hrun1⟩ := PlainThm.scanSteps_bracedText T st src (pos + 4) fuel name _ (by omega) V.nm
        have hNl := N.len
        have hpos : pos + 4 + (name.length + 2) = pos + (name.length + 6) := by omega
        rw [hpos] at hrun1
        obtain ⟨i1, I⟩ := ih (fuel - nst.length - 2) (pos + (name.length + 6)) R items' (by omega)
          (by omega) hsub
        have hdr1 : ('\\' :: (PlainItem.nEnd ++ '{' :: (name ++ '}' :: R))).drop 4 = '{' :: (name ++ '}' :: R) := rfl
        have hsteps : scanSteps T.toTables src (fuel + 1) pos
              ('\\' :: (PlainItem.nEnd ++ '{' :: (name ++ '}' :: R)))
            = (({ tok := PlainItem.endTok pos, len := 4 } ::
               ({ tok := lbr (pos + 4), len := 1 } ::
               (nst ++ [{ tok := rbr (pos + 4 + 1 + name.length), len := 1 }]))) ++
                 (scanSteps T.toTables src (fuel - nst.length - 2) (pos + (name.length + 6)) R).1,
               (scanSteps T.toTables src (fuel - nst.length - 2) (pos + (name.length + 6)) R).2) := by
          rw [scanSteps_step T.toTables src fuel pos _ _ _ hn1 (by simp), hdr1]
          simp only []
          rw [hrun1]
          simp
        rw [hsteps]
        obtain ⟨hN, eN⟩ := PlainThm.nameToks_of_run N V.nm.ne
        refine ⟨i1, ScanFacts.prepend I
          (.pen pos (pos + 4) (pos + 4 + 1 + name.length) (nst.map (·.tok)))
          [.fix (fixOf T st pos (.pen name)) (name.length + 6)] _ _ ?_ ?_ ?_ ?_
          (by simp [PlainItem.endTok]) ?_⟩
        · intro x hx
          simp only [List.mem_cons, List.mem_append, List.not_mem_nil, or_false] at hx
          rcases hx with rfl | rfl | hx | rfl
          · exact ⟨rfl, rfl⟩
          · exact ⟨rfl, rfl⟩
          · exact ⟨(N.ok x hx).1, (N.ok x hx).2.1⟩
          · exact ⟨rfl, rfl⟩
        · simp [Piece.toks]
        · intro ps hflat hpok hlink
          refine ⟨⟨hN, by rw [eN]; exact V.env, hpok⟩, Link.fix _ _ _ _ _ ?_ hlink⟩
          refine isFix_of T _ _ _ (2 + (nst.map (·.tok)).length) [PlainThm.parTok pos]
            (fun _ _ _ => rfl) ?_ ?_ (fun _ => rfl) (fun _ => trivial) (fun _ _ => rfl)
            (by simp only [List.length_map]; omega) (fun _ _ => rfl) (fun _ => rfl) (fun _ => rfl)
          · rw [marksOf_cons, PlainThm.tokMarks_parTok]
            rfl
          · intro x hx
            simp only [List.mem_cons, List.not_mem_nil, or_false] at hx
            subst hx
            exact PlainThm.simple_parTok pos
        · have htw : (PlainItem.nEnd ++ '{' :: (name ++ '}' :: R)).takeWhile macroChar = PlainItem.nEnd :=
            takeWhile_append_stop _ _ _ (by decide) rfl
          show sEnd = _
          rw [PlainItem.sEnd_eq]
          exact (firstTokTxtV_cw T.toTables PlainItem.nEnd _ (by decide) htw V.special (by decide)).symm
        · intro hdr
          simp [droppable, isSpaceTok, PlainItem.endTok] at hdr
      | call _ name body R items' hd hS hsub =>
        have V := PlainFlows.callFacts hd
        have S : PlainExtract.StateFacts T st := PlainExtract.stateFacts hS
        have hnl : 1 ≤ name.length := List.length_pos_iff.mpr V.cw.ne
        simp only [List.length_cons, List.length_append] at hf hn
        have hn1 := nextToken_cw T _ src pos name _ V.cw
        obtain ⟨bst, B, hrun1⟩ := PlainThm.scanSteps_bracedText T st src (pos + (name.length + 1)) fuel
          body R (by omega) V.bt
        have hBl := B.len
        have hpos : pos + (name.length + 1) + (body.length + 2) = pos + (name.length + body.length + 3) := by
          omega
        rw [hpos] at hrun1
        obtain ⟨i1, I⟩ := ih (fuel - bst.length - 2) (pos + (name.length + body.length + 3)) R items'
          (by omega) (by omega) hsub
        obtain ⟨hbne, hbc, hsafe, hfo⟩ := PlainFlows.flow_of_run B V.bt.ne V.lines
        have e2 : pos + (name.length + 1) + 1 = pos + name.length + 2 := by omega
        rw [e2] at hfo
        have hsteps : scanSteps T.toTables src (fuel + 1) pos ('\\' :: (name ++ '{' :: (body ++ '}' :: R)))
            = (({ tok := cwTok pos name, len := name.length + 1 } ::
                ({ tok := lbr (pos + (name.length + 1)), len := 1 } ::
                (bst ++ [{ tok := rbr (pos + (name.length + 1) + 1 + body.length), len := 1 }]))) ++
                  (scanSteps T.toTables src (fuel - bst.length - 2)
                    (pos + (name.length + body.length + 3)) R).1,
               (scanSteps T.toTables src (fuel - bst.length - 2)
                    (pos + (name.length + body.length + 3)) R).2) := by
          rw [scanSteps_step T.toTables src fuel pos _ _ _ hn1 (by simp), PlainFlows.drop_name]
          simp only []
          rw [hrun1]
          simp
        rw [hsteps]
        refine ⟨i1, ScanFacts.prepend I
          (.call pos (pos + (name.length + 1)) (pos + (name.length + 1) + 1 + body.length) name
            (bst.map (·.tok)))
          [.foot (flowOut (pos + name.length + 2) body) (name.length + body.length + 3)] _ _
          ?_ ?_ ?_ ?_ (by simp [cwTok]) ?_⟩
        · intro x hx
          simp only [List.mem_cons, List.mem_append, List.not_mem_nil, or_false] at hx
          rcases hx with rfl | rfl | hx | rfl
          · exact ⟨rfl, rfl⟩
          · exact ⟨rfl, rfl⟩
          · exact ⟨(B.ok x hx).1, (B.ok x hx).2.1⟩
          · exact ⟨rfl, rfl⟩
        · simp [Piece.toks]
        · intro ps hflat hpok hlink
          exact ⟨⟨V.fn, hbne, hbc, hsafe, S.single, hpok⟩,
            Link.call _ _ _ _ _ _ _ _ _
              (by rw [charsOf_eq_zip, hfo]; exact PlainRef.zip_fst_snd _)
              (by simp only [List.length_map]; omega) hlink⟩
        · exact (firstTokTxtV_cw T.toTables name _ V.cw.ne V.cw.tw V.cw.special V.cw.nVerb).symm
        · intro hdr
          simp [droppable, isSpaceTok, cwTok] at hdr
      | callO _ name opt body R items' hd hS hsub =>
        have V := PlainFlows.callOFacts hd
        have S : PlainExtract.StateFacts T st := PlainExtract.stateFacts hS
        have hnl : 1 ≤ name.length := List.length_pos_iff.mpr V.cw.ne
        simp only [List.length_cons, List.length_append] at hf hn
        have hn1 := nextToken_cw T _ src pos name _ V.cw
        obtain ⟨ost, O, hrun0⟩ := PlainRef.scanSteps_note T st src (pos + (name.length + 1)) fuel opt _
          (by omega) V.op.lb V.op.txt V.op.rb
        have hOl := O.len
        obtain ⟨bst, B, hrun1⟩ := PlainThm.scanSteps_bracedText T st src
          (pos + (name.length + 1) + (opt.length + 2)) (fuel - ost.length - 2) body R (by omega) V.bt
        have hBl := B.len
        have hpos : pos + (name.length + 1) + (opt.length + 2) + (body.length + 2)
            = pos + (name.length + opt.length + body.length + 5) := by omega
        rw [hpos] at hrun1
        obtain ⟨i1, I⟩ := ih (fuel - ost.length - 2 - bst.length - 2)
          (pos + (name.length + opt.length + body.length + 5)) R items' (by omega) (by omega) hsub
        obtain ⟨hbne, hbc, hsafe, hfo⟩ := PlainFlows.flow_of_run B V.bt.ne V.lines
        have hopt := PlainFlows.optToks_of_run O V.op.nrb
        have e2 : pos + (name.length + 1) + (opt.length + 2) + 1 = pos + name.length + opt.length + 4 := by
          omega
        rw [e2] at hfo
        rw [scanSteps_step T.toTables src fuel pos _ _ _ hn1 (by simp), PlainFlows.drop_name]
        simp only []
        rw [hrun0, hrun1]
        have e : ∀ X : List ScanStep,
            { tok := cwTok pos name, len := name.length + 1 } ::
              ({ tok := PlainRef.chTok (pos + (name.length + 1)) '[', len := 1 } ::
                (ost ++ { tok := PlainRef.chTok (pos + (name.length + 1) + 1 + opt.length) ']', len := 1 } ::
                  ({ tok := lbr (pos + (name.length + 1) + (opt.length + 2)), len := 1 } ::
                    (bst ++ { tok := rbr (pos + (name.length + 1) + (opt.length + 2) + 1 + body.length),
                                 len := 1 } :: X))))
            = ({ tok := cwTok pos name, len := name.length + 1 } ::
              ({ tok := PlainRef.chTok (pos + (name.length + 1)) '[', len := 1 } ::
                (ost ++ { tok := PlainRef.chTok (pos + (name.length + 1) + 1 + opt.length) ']', len := 1 } ::
                  ({ tok := lbr (pos + (name.length + 1) + (opt.length + 2)), len := 1 } ::
                    (bst ++ [{ tok := rbr (pos + (name.length + 1) + (opt.length + 2) + 1 + body.length), len := 1 }]))))) ++ X := by
          intro X; simp
        rw [e]
        refine ⟨i1, ScanFacts.prepend I
          (.callO pos (pos + (name.length + 1)) (pos + (name.length + 1) + 1 + opt.length)
              (pos + (name.length + 1) + (opt.length + 2))
              (pos + (name.length + 1) + (opt.length + 2) + 1 + body.length) name
              (ost.map (·.tok)) (bst.map (·.tok)))
          [.foot (flowOut (pos + name.length + opt.length + 4) body)
            (name.length + opt.length + body.length + 5)] _ _ ?_ ?_ ?_ ?_ (by simp [cwTok]) ?_⟩
        · intro x hx
          simp only [List.mem_cons, List.mem_append, List.not_mem_nil, or_false] at hx
          rcases hx with rfl | rfl | hx | rfl | rfl | hx | rfl
          · exact ⟨rfl, rfl⟩
          · exact ⟨rfl, rfl⟩
          · exact ⟨(O.ok x hx).1, (O.ok x hx).2.1⟩
          · exact ⟨rfl, rfl⟩
          · exact ⟨rfl, rfl⟩
          · exact ⟨(B.ok x hx).1, (B.ok x hx).2.1⟩
          · exact ⟨rfl, rfl⟩
        · simp [Piece.toks]
        · intro ps hflat hpok hlink
          exact ⟨⟨V.fn, hopt, hbne, hbc, hsafe, S.single, hpok⟩,
            Link.callO _ _ _ _ _ _ _ _ _ _ _ _
              (by rw [charsOf_eq_zip, hfo]; exact PlainRef.zip_fst_snd _)
              (by simp only [List.length_map]; omega) hlink⟩
        · exact (firstTokTxtV_cw T.toTables name _ V.cw.ne V.cw.tw V.cw.special V.cw.nVerb).symm
        · intro hdr
          simp [droppable, isSpaceTok, cwTok] at hdr
      | fen _ name R items' hd hsub =>
        have V := PlainFlows.endFacts hd
        simp only [List.length_cons, List.length_append, PlainItem.nEnd] at hf hn
        have hn1 := PlainItem.nextToken_end T src pos _ V.special
        obtain ⟨nst, N, hrun1⟩ := PlainThm.scanSteps_bracedText T st src (pos + 4) fuel name _
          (by omega) V.nm
        have hNl := N.len
        have hpos : pos + 4 + (name.length + 2) = pos + (name.length + 6) := by omega
        rw [hpos] at hrun1
        obtain ⟨i1, I⟩ := ih (fuel - nst.length - 2) (pos + (name.length + 6)) R items' (by omega)
          (by omega) hsub
        have hd1 : ('\\' :: (PlainItem.nEnd ++ '{' :: (name ++ '}' :: R))).drop 4
            = '{' :: (name ++ '}' :: R) := rfl
        rw [scanSteps_step T.toTables src fuel pos _ _ _ hn1 (by simp), hd1]
        simp only []
        rw [hrun1]
        obtain ⟨hN, eN⟩ := PlainThm.nameToks_of_run N V.nm.ne
        have e : ∀ X : List ScanStep,
            { tok := PlainItem.endTok pos, len := 4 } ::
              ({ tok := lbr (pos + 4), len := 1 } ::
                (nst ++ { tok := rbr (pos + 4 + 1 + name.length), len := 1 } :: X))
            = ({ tok := PlainItem.endTok pos, len := 4 } ::
              ({ tok := lbr (pos + 4), len := 1 } ::
                (nst ++ [{ tok := rbr (pos + 4 + 1 + name.length), len := 1 }]))) ++ X := by
          intro X; simp
        rw [e]
        refine ⟨i1, ScanFacts.prepend I
          (.fen pos (pos + 4) (pos + 4 + 1 + name.length) (nst.map (·.tok)))
          [.fix [none] (name.length + 6)] _ _ ?_ ?_ ?_ ?_ (by simp [PlainItem.endTok]) ?_⟩
        · intro x hx
          simp only [List.mem_cons, List.mem_append, List.not_mem_nil, or_false] at hx
          rcases hx with rfl | rfl | hx | rfl
          · exact ⟨rfl, rfl⟩
          · exact ⟨rfl, rfl⟩
          · exact ⟨(N.ok x hx).1, (N.ok x hx).2.1⟩
          · exact ⟨rfl, rfl⟩
        · simp [Piece.toks]
        · intro ps hflat hpok hlink
          refine ⟨⟨hN, by rw [eN]; exact V.env, hpok⟩, Link.fix _ _ _ _ _ ?_ hlink⟩
          refine isFix_of T _ _ _ ((nst.map (·.tok)).length + 2) [mkAction pos]
            (fun _ _ _ => rfl) ?_ ?_ (fun _ => rfl) (fun _ => trivial) (fun _ _ => rfl)
            (by simp only [List.length_map]; omega) (fun _ _ => rfl) (fun _ => rfl) (fun _ => rfl)
          · rw [marksOf_cons, tokMarks_mkAction]; rfl
          · intro x hx
            simp only [List.mem_singleton] at hx
            subst hx; exact simple_mkAction pos
        · have htw : (PlainItem.nEnd ++ '{' :: (name ++ '}' :: R)).takeWhile macroChar = PlainItem.nEnd :=
            takeWhile_append_stop _ _ _ (by decide) rfl
          show sEnd = _
          rw [PlainItem.sEnd_eq]
          exact (firstTokTxtV_cw T.toTables PlainItem.nEnd _ (by decide) htw V.special (by decide)).symm
        · intro hdr
          simp [droppable, isSpaceTok, PlainItem.endTok] at hdr
      | fbegN _ name note R items' hd hsub =>
        have V := PlainFlows.begNFacts hd
        simp only [List.length_cons, List.length_append, PlainItem.nBegin] at hf hn
        have hn1 := PlainItem.nextToken_begin T src pos _ V.special V.noverb
        obtain ⟨nst, N, hrun1⟩ := PlainThm.scanSteps_bracedText T st src (pos + 6) fuel name _
          (by omega) V.nm
        have hNl := N.len
        obtain ⟨ost, B, hrun2⟩ := PlainRef.scanSteps_note T st src (pos + 6 + (name.length + 2))
          (fuel - nst.length - 2) note R (by omega) V.op.lb V.op.txt V.op.rb
        have hBl := B.len
        have hpos : pos + 6 + (name.length + 2) + (note.length + 2)
            = pos + (name.length + note.length + 10) := by omega
        rw [hpos] at hrun2
        obtain ⟨i1, I⟩ := ih (fuel - nst.length - 2 - ost.length - 2)
          (pos + (name.length + note.length + 10)) R items' (by omega) (by omega) hsub
        have hd1 : ('\\' :: (PlainItem.nBegin ++ '{' :: (name ++ '}' :: '[' :: (note ++ ']' :: R)))).drop 6
            = '{' :: (name ++ '}' :: '[' :: (note ++ ']' :: R)) := rfl
        rw [scanSteps_step T.toTables src fuel pos _ _ _ hn1 (by simp), hd1]
        simp only []
        rw [hrun1, hrun2]
        obtain ⟨hN, eN⟩ := PlainThm.nameToks_of_run N V.nm.ne
        have hnote := PlainFlows.optToks_of_run B V.op.nrb
        have e : ∀ X : List ScanStep,
            { tok := PlainItem.begTok pos, len := 6 } ::
              ({ tok := lbr (pos + 6), len := 1 } ::
                (nst ++ { tok := rbr (pos + 6 + 1 + name.length), len := 1 } ::
                  ({ tok := PlainRef.chTok (pos + 6 + (name.length + 2)) '[', len := 1 } ::
                    (ost ++ { tok := PlainRef.chTok (pos + 6 + (name.length + 2) + 1 + note.length) ']', len := 1 } :: X))))
            = ({ tok := PlainItem.begTok pos, len := 6 } ::
              ({ tok := lbr (pos + 6), len := 1 } ::
                (nst ++ { tok := rbr (pos + 6 + 1 + name.length), len := 1 } ::
                  ({ tok := PlainRef.chTok (pos + 6 + (name.length + 2)) '[', len := 1 } ::
                    (ost ++ [{ tok := PlainRef.chTok (pos + 6 + (name.length + 2) + 1 + note.length) ']', len := 1 }]))))) ++ X := by
          intro X; simp
        rw [e]
        refine ⟨i1, ScanFacts.prepend I
          (.fbegN pos (pos + 6) (pos + 6 + 1 + name.length) (pos + 6 + (name.length + 2))
            (pos + 6 + (name.length + 2) + 1 + note.length) (nst.map (·.tok)) (ost.map (·.tok)))
          [.fix [none, none] (name.length + note.length + 10)] _ _ ?_ ?_ ?_ ?_
          (by simp [PlainItem.begTok]) ?_⟩
        · intro x hx
          simp only [List.mem_cons, List.mem_append, List.not_mem_nil, or_false] at hx
          rcases hx with rfl | rfl | hx | rfl | rfl | hx | rfl
          · exact ⟨rfl, rfl⟩
          · exact ⟨rfl, rfl⟩
          · exact ⟨(N.ok x hx).1, (N.ok x hx).2.1⟩
          · exact ⟨rfl, rfl⟩
          · exact ⟨rfl, rfl⟩
          · exact ⟨(B.ok x hx).1, (B.ok x hx).2.1⟩
          · exact ⟨rfl, rfl⟩
        · simp [Piece.toks]
        · intro ps hflat hpok hlink
          refine ⟨⟨hN, by rw [eN]; exact V.env, hnote, hpok⟩, Link.fix _ _ _ _ _ ?_ hlink⟩
          refine isFix_of T _ _ _ ((nst.map (·.tok)).length + 3) [mkAction pos, mkAction pos]
            (fun _ _ _ => rfl) ?_ ?_ (fun _ => rfl) (fun _ => trivial) (fun _ _ => rfl)
            (by simp only [List.length_map]; omega) (fun _ _ => rfl) (fun _ => rfl) (fun _ => rfl)
          · rw [marksOf_cons, tokMarks_mkAction, marksOf_cons, tokMarks_mkAction]; rfl
          · intro x hx
            simp only [List.mem_cons, List.not_mem_nil, or_false] at hx
            rcases hx with rfl | rfl <;> exact simple_mkAction pos
        · have htw : (PlainItem.nBegin ++ '{' :: (name ++ '}' :: '[' :: (note ++ ']' :: R))).takeWhile macroChar
              = PlainItem.nBegin := takeWhile_append_stop _ _ _ (by decide) rfl
          show sBegin = _
          rw [PlainItem.sBegin_eq]
          exact (firstTokTxtV_cw T.toTables PlainItem.nBegin _ (by decide) htw V.special (by decide)).symm
        · intro hdr
          simp [droppable, isSpaceTok, PlainItem.begTok] at hdr
      | fbeg _ name ws R items' hd hsub =>
        simp only [fbegOk, Bool.and_eq_true, bne_iff_ne, ne_eq] at hd
        obtain ⟨⟨⟨hd0, hR⟩, hpc⟩, hbr⟩ := hd
        have V := PlainFlows.begFacts hd0
        simp only [List.length_cons, List.length_append, PlainItem.nBegin] at hf hn
        have hn1 := PlainItem.nextToken_begin T src pos _ V.special V.noverb
        obtain ⟨nst, N, hrun1⟩ := PlainThm.scanSteps_bracedText T st src (pos + 6) fuel name _
          (by omega) V.nm
        have hNl := N.len
        have hwl := PlainThm.wsSteps_len (pos + 6 + (name.length + 2)) ws
        have hrun3 := PlainThm.scanSteps_ws T src (pos + 6 + (name.length + 2))
          (fuel - nst.length - 2) ws R V.ws (by omega)
        have hpos : pos + 6 + (name.length + 2) + ws.length = pos + (name.length + ws.length + 8) := by
          omega
        rw [hpos] at hrun3
        obtain ⟨i1, I⟩ := ih
          (fuel - nst.length - 2 - (PlainThm.wsSteps (pos + 6 + (name.length + 2)) ws).length)
          (pos + (name.length + ws.length + 8)) R items' (by omega) (by omega) hsub
        have hd1 : ('\\' :: (PlainItem.nBegin ++ '{' :: (name ++ '}' :: (ws ++ R)))).drop 6
            = '{' :: (name ++ '}' :: (ws ++ R)) := rfl
        rw [scanSteps_step T.toTables src fuel pos _ _ _ hn1 (by simp), hd1]
        simp only []
        rw [hrun1, hrun3]
        obtain ⟨hN, eN⟩ := PlainThm.nameToks_of_run N V.nm.ne
        have hsp : PlainThm.SpToks ((PlainThm.wsSteps (pos + 6 + (name.length + 2)) ws).map (·.tok)) := by
          intro t ht
          obtain ⟨x, hx, rfl⟩ := List.mem_map.mp ht
          exact (PlainThm.wsSteps_ok _ _ x hx).2.2
        have e : ∀ X : List ScanStep,
            { tok := PlainItem.begTok pos, len := 6 } ::
              ({ tok := lbr (pos + 6), len := 1 } ::
                (nst ++ { tok := rbr (pos + 6 + 1 + name.length), len := 1 } ::
                  (PlainThm.wsSteps (pos + 6 + (name.length + 2)) ws ++ X)))
            = ({ tok := PlainItem.begTok pos, len := 6 } ::
              ({ tok := lbr (pos + 6), len := 1 } ::
                (nst ++ { tok := rbr (pos + 6 + 1 + name.length), len := 1 } ::
                  PlainThm.wsSteps (pos + 6 + (name.length + 2)) ws))) ++ X := by
          intro X; simp
        rw [e]
        refine ⟨i1, ScanFacts.prepend I
          (.fbeg pos (pos + 6) (pos + 6 + 1 + name.length) (nst.map (·.tok))
            ((PlainThm.wsSteps (pos + 6 + (name.length + 2)) ws).map (·.tok)))
          [.fix [none, none] (name.length + ws.length + 8)] _ _ ?_ ?_ ?_ ?_
          (by simp [PlainItem.begTok]) ?_⟩
        · intro x hx
          simp only [List.mem_cons, List.mem_append] at hx
          rcases hx with rfl | rfl | hx | rfl | hx
          · exact ⟨rfl, rfl⟩
          · exact ⟨rfl, rfl⟩
          · exact ⟨(N.ok x hx).1, (N.ok x hx).2.1⟩
          · exact ⟨rfl, rfl⟩
          · exact ⟨(PlainThm.wsSteps_ok _ _ x hx).1, (PlainThm.wsSteps_ok _ _ x hx).2.1⟩
        · simp [Piece.toks]
        · intro ps hflat hpok hlink
          refine ⟨⟨hN, by rw [eN]; exact V.env, hsp, headOk_of_scan I hflat hpok hR hpc hbr, hpok⟩,
            Link.fix _ _ _ _ _ ?_ hlink⟩
          refine isFix_of T _ _ _ ((nst.map (·.tok)).length + 3) [mkAction pos, mkAction pos]
            (fun _ _ _ => rfl) ?_ ?_ (fun _ => rfl) (fun _ => trivial) (fun _ _ => rfl)
            (by simp only [List.length_map]; omega) (fun _ _ => rfl) (fun _ => rfl) (fun _ => rfl)
          · rw [marksOf_cons, tokMarks_mkAction, marksOf_cons, tokMarks_mkAction]; rfl
          · intro x hx
            simp only [List.mem_cons, List.not_mem_nil, or_false] at hx
            rcases hx with rfl | rfl <;> exact simple_mkAction pos
        · have htw : (PlainItem.nBegin ++ '{' :: (name ++ '}' :: (ws ++ R))).takeWhile macroChar
              = PlainItem.nBegin := takeWhile_append_stop _ _ _ (by decide) rfl
          show sBegin = _
          rw [PlainItem.sBegin_eq]
          exact (firstTokTxtV_cw T.toTables PlainItem.nBegin _ (by decide) htw V.special (by decide)).symm
        · intro hdr
          simp [droppable, isSpaceTok, PlainItem.begTok] at hdr
      | use _ name args R items' hu hsub =>
        have U := PlainMacroArgs.useFacts hu
        have hn1 := nextToken_cw T st src pos name _ U.cw
        have hd1 : ('\\' :: (name ++ (argsStr args ++ R))).drop (name.length + 1) = argsStr args ++ R := by simp
        have hne := List.length_pos_iff.mpr U.cw.ne
        simp only [List.length_cons, List.length_append, PlainMacroArgs.argsStr_length] at hf hn
        obtain ⟨asteps, A, hrun⟩ := PlainMacroArgs.scanSteps_args T st src R args (pos + (name.length + 1))
          fuel (by omega) U.args
        have hAl := A.len
        have hpos : pos + (name.length + 1) + argsLen args = pos + (name.length + 1 + argsLen args) := by omega
        obtain ⟨i1, I⟩ := ih (fuel - asteps.length) (pos + (name.length + 1 + argsLen args)) R items'
          (by omega) (by omega) hsub
        obtain ⟨gs, hgs1, hgs2, hgs3⟩ := A.gs
        rw [scanSteps_step T.toTables src fuel pos _ _ _ hn1 (by simp), hd1]
        simp only []
        rw [hrun, hpos]
        have e : ∀ X : List ScanStep,
            { tok := cwTok pos name, len := name.length + 1 } :: (asteps ++ X)
              = ({ tok := cwTok pos name, len := name.length + 1 } :: asteps) ++ X := by
          intro X; rfl
        rw [e]
        refine ⟨i1, ScanFacts.prepend I (.use pos name gs) [.use pos name args] _ _ ?_ ?_ ?_ ?_
          (by simp [cwTok]) ?_⟩
        · intro x hx
          simp only [List.mem_cons] at hx
          rcases hx with rfl | hx
          · exact ⟨rfl, rfl⟩
          · exact A.ok x hx
        · simp [Piece.toks, hgs1]
        · intro ps hflat hpok hlink
          have e : pos + (name.length + 1) = pos + name.length + 1 := by omega
          exact ⟨⟨nameOk_of_cwFacts U.cw U.ign, PlainMacroArgs.groupsLink_ne hgs3 U.ne, hgs2, hpok⟩,
            Link.use pos name args gs ps items' U.cw.ne (by rw [← e]; exact hgs3) hlink⟩
        · exact (firstTokTxtV_cw T.toTables name _ U.cw.ne U.cw.tw U.cw.special U.cw.nVerb).symm
        · intro hdr
          simp [droppable, isSpaceTok, cwTok] at hdr
      | disp _ body R items' hm hds hsub =>
        simp only [PlainDisplay.dispOk, Bool.and_eq_true] at hm
        obtain ⟨⟨⟨⟨⟨hdef, hopen⟩, hbody⟩, hamp⟩, helem⟩, hclose⟩ := hm
        have hn1 := PlainDisplay.nextToken_open T src pos (body ++ '\\' :: ']' :: R) hopen
        obtain ⟨k2, hk2, hn2⟩ := PlainDisplay.nextToken_close T src (pos + 2 + body.length) R hclose
        simp only [List.length_cons, List.length_append] at hf hn
        obtain ⟨bsteps, B, hrun⟩ := PlainDisplay.scanSteps_bodyrun T src '\\' (']' :: R) (by decide)
          body.length body (pos + 2) fuel (Nat.le_refl _) (by omega) hbody hamp
        have hBl := B.len
        obtain ⟨g, hg⟩ : ∃ g, fuel - bsteps.length = g + 1 := ⟨fuel - bsteps.length - 1, by omega⟩
        obtain ⟨i1, I⟩ := ih g (pos + (body.length + 4)) R items' (by omega) (by omega) hsub
        have hpos2 : pos + 2 + body.length + 2 = pos + (body.length + 4) := by omega
        have hsteps : scanSteps T.toTables src (fuel + 1) pos ('\\' :: '[' :: (body ++ '\\' :: ']' :: R))
            = (({ tok := { kind := .special, pos := pos, txt := PlainDisplay.sOpen }, len := 2 } ::
                (bsteps ++
                  [{ tok := { kind := k2, pos := pos + 2 + body.length, txt := PlainDisplay.sClose }, len := 2 }])) ++
                  (scanSteps T.toTables src g (pos + (body.length + 4)) R).1,
               (scanSteps T.toTables src g (pos + (body.length + 4)) R).2) := by
          simp only [scanSteps, hn1]
          rw [if_neg (by simp)]
          simp only [List.drop_succ_cons, List.drop_zero]
          rw [hrun, hg]
          simp only [scanSteps, hn2]
          rw [if_neg (by simp)]
          simp only [List.drop_succ_cons, List.drop_zero, hpos2]
          simp
        rw [hsteps]
        obtain ⟨el, hel1, hel2⟩ := PlainDisplay.elemPos_bodyToksOf T st.mathOperators body (pos + 2) helem
        have hbne : body.any (fun c => !isSpace c) = true := by
          obtain ⟨c, hc, hcs⟩ := List.any_eq_true.mp helem
          refine List.any_eq_true.mpr ⟨c, hc, ?_⟩
          simp only [PlainDisplay.elemChar, Bool.and_eq_true] at hcs
          exact hcs.1.1
        refine ⟨i1, ScanFacts.prepend I
          (.disp st.mathOperators { kind := .special, pos := pos, txt := PlainDisplay.sOpen }
            (bsteps.map (·.tok)) { kind := k2, pos := pos + 2 + body.length, txt := PlainDisplay.sClose })
          [.disp (fun ph => dispMarks T st.mathOperators ph pos 2 body) (body.length + 4)] _ _ ?_ ?_ ?_ ?_
          (by simp) ?_⟩
        · intro x hx
          simp only [List.mem_cons, List.mem_append, List.not_mem_nil, or_false] at hx
          rcases hx with rfl | hx | rfl
          · exact ⟨rfl, rfl⟩
          · exact ⟨(B.ok x hx).1, (B.ok x hx).2.1⟩
          · exact ⟨rfl, rfl⟩
        · simp [Piece.toks]
        · intro ps hflat hpok hlink
          refine ⟨⟨rfl, hdef, hds, ⟨rfl, rfl⟩, ?_, ?_, ⟨hk2, rfl⟩, hpok⟩,
            Link.disp _ _ _ _ _ _ _ _ ?_ (by simp only [List.length_map]; omega) hlink⟩
          · unfold PlainDisplay.HasElem
            rw [B.toks, hel1]; rfl
          · intro t ht
            obtain ⟨x, hx, rfl⟩ := List.mem_map.mp ht
            exact (B.ok x hx).2.2
          · intro ph
            rw [marksOf_dispOut]
            simp only [dispMarks, PlainDisplay.elemPos, B.toks, hel1, Option.map_some, Option.getD_some,
              hel2, PlainDisplay.bodyTxt_bodyToksOf, PlainDisplay.firstPos_bodyToksOf body (pos + 2) hbne,
              PlainMath.punctOf]
        · have hmt : matchSpecial T.toTables ('\\' :: ('[' :: [] ++ (body ++ '\\' :: ']' :: R)))
              = some ('\\' :: ['[']) := by
            simpa [PlainDisplay.openAt, PlainDisplay.sOpen] using hopen
          exact (firstTokTxtV_spec T.toTables '\\' ['['] _ (by decide) (by decide) hmt).symm
        · intro hdr
          simp [droppable, isSpaceTok] at hdr
      | beg _ name R items' hd hsub =>
        have D := PlainItem.begFacts hd
        have hname := List.length_pos_iff.mpr D.ne
        simp only [List.length_cons, List.length_append, PlainItem.nBegin] at hf hn
        obtain ⟨g, hg⟩ : ∃ g, fuel = g + 1 := ⟨fuel - 1, by omega⟩
        have hn1 := PlainItem.nextToken_begin T src pos _ D.special D.noverb
        have hn2 := nextToken_brace T src (pos + 6) '{' _ (Or.inl rfl) D.b1
        have hn3 := nextToken_brace T src (pos + 6 + 1 + name.length) '}' R (Or.inr rfl) D.b2
        obtain ⟨bsteps, B, hrun⟩ := PlainMacro.scanSteps_body T st src R name.length name (pos + 6 + 1) g
          (Nat.le_refl _) (by omega) D.inert
        have hBl := B.len
        obtain ⟨g', hg'⟩ : ∃ g', g - bsteps.length = g' + 1 := ⟨g - bsteps.length - 1, by omega⟩
        have hpos : pos + 6 + 1 + name.length + 1 = pos + (name.length + 8) := by omega
        obtain ⟨i1, I⟩ := ih g' (pos + (name.length + 8)) R items' (by omega) (by omega) hsub
        have hsteps : scanSteps T.toTables src (fuel + 1) pos
              ('\\' :: (PlainItem.nBegin ++ '{' :: (name ++ '}' :: R)))
            = (({ tok := PlainItem.begTok pos, len := 6 } ::
               ({ tok := { kind := .special, pos := pos + 6, txt := ['{'] }, len := 1 } ::
               (bsteps ++
                 [{ tok := { kind := .special, pos := pos + 6 + 1 + name.length, txt := ['}'] }, len := 1 }]))) ++
                 (scanSteps T.toTables src g' (pos + (name.length + 8)) R).1,
               (scanSteps T.toTables src g' (pos + (name.length + 8)) R).2) := by
          rw [scanSteps_step T.toTables src fuel pos _ _ _ hn1 (by simp),
            show ('\\' :: (PlainItem.nBegin ++ '{' :: (name ++ '}' :: R))).drop 6 = '{' :: (name ++ '}' :: R) from rfl]
          simp only []
          rw [hg, scanSteps_step T.toTables src g (pos + 6) _ _ _ hn2 (by simp)]
          simp only [List.drop_succ_cons, List.drop_zero]
          rw [hrun, hg', scanSteps_step T.toTables src g' _ _ _ _ hn3 (by simp)]
          simp only [List.drop_succ_cons, List.drop_zero, hpos]
          simp
        rw [hsteps]
        have hbt : bodyTxt (bsteps.map (·.tok)) = name := B.txt
        refine ⟨i1, ScanFacts.prepend I
          (.beg pos (pos + 6) (pos + 6 + 1 + name.length) (bsteps.map (·.tok)))
          [.stk (fun _ => PlainItem.envMarks (PlainItem.envOf st name) pos ++ [none])
            (fun stk => PlainItem.begStk st stk name) (fun _ => true) (name.length + 8)] _ _ ?_ ?_ ?_ ?_
          (by simp [PlainItem.begTok]) ?_⟩
        · intro x hx
          simp only [List.mem_cons, List.mem_append, List.not_mem_nil, or_false] at hx
          rcases hx with rfl | rfl | hx | rfl
          · exact ⟨rfl, rfl⟩
          · exact ⟨rfl, rfl⟩
          · exact ⟨(B.ok x hx).1, (B.ok x hx).2.1⟩
          · exact ⟨rfl, rfl⟩
        · simp [Piece.toks, lbr, rbr]
        · intro ps hflat hpok hlink
          exact ⟨⟨PlainItem.nameToks_of_bodyRun B D.ne, by rw [hbt]; exact D.env, hpok⟩,
            Link.beg pos _ _ name _ ps items' hbt (by simpa using hBl) hlink⟩
        · have htw : (PlainItem.nBegin ++ '{' :: (name ++ '}' :: R)).takeWhile macroChar = PlainItem.nBegin :=
            takeWhile_append_stop _ _ _ (by decide) rfl
          show sBegin = _
          rw [PlainItem.sBegin_eq]
          exact (firstTokTxtV_cw T.toTables PlainItem.nBegin _ (by decide) htw D.special (by decide)).symm
        · intro hdr
          simp [droppable, isSpaceTok, PlainItem.begTok] at hdr
      | item _ ws R items' hd hsub =>
        simp only [itemOkV, Bool.and_eq_true, bne_iff_ne, ne_eq, Bool.not_eq_true'] at hd
        obtain ⟨⟨⟨hd0, hpc⟩, hbr⟩, hblank⟩ := hd
        have D := PlainItem.itemFacts hd0
        simp only [List.length_cons, List.length_append, PlainItem.nItem] at hf hn
        have hn1 := PlainItem.nextToken_item T src pos _ D.special D.adj
        have hd1 : ('\\' :: (PlainItem.nItem ++ (ws ++ R))).drop 5 = ws ++ R := rfl
        have hfirst : (PlainItem.itemTok pos).txt
            = firstTokTxtV T.toTables ('\\' :: (PlainItem.nItem ++ (ws ++ R))) := by
          have htw : (PlainItem.nItem ++ (ws ++ R)).takeWhile macroChar = PlainItem.nItem :=
            takeWhile_append_stop _ _ _ (by decide) D.adj
          show sItem = _
          rw [PlainItem.sItem_eq]
          exact (firstTokTxtV_cw T.toTables PlainItem.nItem _ (by decide) htw D.special (by decide)).symm
        cases ws with
        | nil =>
          simp only [List.nil_append, List.length_nil, Nat.zero_add] at hsub hn1 hd1 hf hn hfirst ⊢
          obtain ⟨i1, I⟩ := ih fuel (pos + 5) R items' (by omega) (by omega) hsub
          rw [scanSteps_step T.toTables src fuel pos _ _ _ hn1 (by simp), hd1]
          refine ⟨i1, ScanFacts.prepend I (.item pos [])
            [.stk (itemMarks T pos) PlainItem.itemStk (fun stk => PlainItem.labelAt T st stk) (0 + 5)]
            _ [] ?_ rfl ?_ hfirst (by simp [PlainItem.itemTok]) ?_⟩
          · intro x hx
            simp only [List.mem_singleton] at hx
            subst hx; exact ⟨rfl, rfl⟩
          · intro ps hflat hpok hlink
            exact ⟨⟨by simp, headOk_of_scan I hflat hpok D.head hpc hbr, hblank, hpok⟩,
              Link.item pos [] _ ps items' (by omega) hlink⟩
          · intro hdr
            simp [droppable, isSpaceTok, PlainItem.itemTok] at hdr
        | cons w ws' =>
          have hbl := D.blank
          simp only [List.all_cons, Bool.and_eq_true] at hbl
          simp only [List.cons_append, List.length_cons] at hsub hn1 hd1 hf hn hfirst ⊢
          obtain ⟨g, hg⟩ : ∃ g, fuel = g + 1 := ⟨fuel - 1, by omega⟩
          have hn2 := PlainItem.nextToken_ws T src (pos + 5) w ws' R hbl.1 hbl.2 D.nls D.headNS
          have hd2 : (w :: (ws' ++ R)).drop (ws'.length + 1) = R := by simp
          have hpos : pos + 5 + (ws'.length + 1) = pos + (ws'.length + 1 + 5) := by omega
          obtain ⟨i1, I⟩ := ih g (pos + (ws'.length + 1 + 5)) R items' (by omega) (by omega) hsub
          rw [scanSteps_step T.toTables src fuel pos _ _ _ hn1 (by simp), hd1]
          simp only []
          rw [hg, scanSteps_step T.toTables src g (pos + 5) _ _ _ hn2 (by simp), hd2]
          simp only [hpos]
          refine ⟨i1, ScanFacts.prepend I
            (.item pos [{ kind := .space, pos := pos + 5, txt := w :: ws' }])
            [.stk (itemMarks T pos) PlainItem.itemStk (fun stk => PlainItem.labelAt T st stk)
              (ws'.length + 1 + 5)]
            _ [{ tok := { kind := .space, pos := pos + 5, txt := w :: ws' }, len := ws'.length + 1 }]
            ?_ rfl ?_ hfirst (by simp [PlainItem.itemTok]) ?_⟩
          · intro x hx
            simp only [List.mem_cons, List.not_mem_nil, or_false] at hx
            rcases hx with rfl | rfl
            · exact ⟨rfl, rfl⟩
            · exact ⟨rfl, rfl⟩
          · intro ps hflat hpok hlink
            exact ⟨⟨by simp, headOk_of_scan I hflat hpok D.head hpc hbr, hblank, hpok⟩,
              Link.item pos _ _ ps items' (by omega) hlink⟩
          · intro hdr
            simp [droppable, isSpaceTok, PlainItem.itemTok] at hdr
      | itemL _ ws label pc R items' hd hpin hsub =>
        simp only [itemLOkV, Bool.and_eq_true, Bool.not_eq_true'] at hd
        obtain ⟨⟨hd0, hblank⟩, hpu⟩ := hd
        have D := PlainItemL.itemLFacts hd0
        simp only [List.length_cons, List.length_append, PlainItem.nItem, List.length_nil] at hf hn
        have hn1 := PlainItem.nextToken_item T src pos _ D.special D.adj
        have hd1 : ('\\' :: (PlainItem.nItem ++ (ws ++ '[' :: (label ++ ']' :: R)))).drop 5
            = ws ++ '[' :: (label ++ ']' :: R) := rfl
        have hfirst : (PlainItem.itemTok pos).txt
            = firstTokTxtV T.toTables ('\\' :: (PlainItem.nItem ++ (ws ++ '[' :: (label ++ ']' :: R)))) := by
          have htw : (PlainItem.nItem ++ (ws ++ '[' :: (label ++ ']' :: R))).takeWhile macroChar = PlainItem.nItem :=
            takeWhile_append_stop _ _ _ (by decide) D.adj
          show sItem = _
          rw [PlainItem.sItem_eq]
          exact (firstTokTxtV_cw T.toTables PlainItem.nItem _ (by decide) htw D.special (by decide)).symm
        have hwl := PlainThm.wsSteps_len (pos + 5) ws
        have hrun := PlainItemL.scanSteps_wsI T src (pos + 5) fuel ws ('[' :: (label ++ ']' :: R)) D.blank D.nls
          (by simp; decide) (by omega)
        have hpos : pos + 5 + ws.length = pos + (ws.length + 5) := by omega
        rw [hpos] at hrun
        obtain ⟨ost, O, hrun2⟩ := PlainRef.scanSteps_note T st src (pos + (ws.length + 5))
          (fuel - (PlainThm.wsSteps (pos + 5) ws).length) label R (by omega) D.op.lb D.op.txt D.op.rb
        have hOl := O.len
        have hpos2 : pos + (ws.length + 5) + (label.length + 2) = pos + (ws.length + label.length + 7) := by
          omega
        rw [hpos2] at hrun2
        obtain ⟨i1, I⟩ := ih (fuel - (PlainThm.wsSteps (pos + 5) ws).length - ost.length - 2)
          (pos + (ws.length + label.length + 7)) R items' (by omega) (by omega) hsub
        have hall := PlainItemL.scanSteps_textTok T.toTables src (fuel - (PlainThm.wsSteps (pos + 5) ws).length)
          (pos + (ws.length + 5)) ('[' :: (label ++ ']' :: R))
        have hsubl : ∀ x ∈ ost, x ∈ (scanSteps T.toTables src (fuel - (PlainThm.wsSteps (pos + 5) ws).length)
            (pos + (ws.length + 5)) ('[' :: (label ++ ']' :: R))).1 := by
          intro x hx
          rw [hrun2]
          simp [hx]
        have A := PlainItemL.argFacts O hsubl hall
        have hopt := PlainFlows.optToks_of_run O D.op.nrb
        have hal : (PlainItemL.labArg (pos + (ws.length + 5)) (ost.map (·.tok))).length ≤ label.length + 1 := by
          unfold PlainItemL.labArg
          split
          · simp
          · simp only [List.length_map]; omega
        have hsteps : scanSteps T.toTables src (fuel + 1) pos
              ('\\' :: (PlainItem.nItem ++ (ws ++ '[' :: (label ++ ']' :: R))))
            = (({ tok := PlainItem.itemTok pos, len := 5 } ::
                (PlainThm.wsSteps (pos + 5) ws ++ { tok := PlainRef.chTok (pos + (ws.length + 5)) '[', len := 1 } ::
                  (ost ++ [{ tok := PlainRef.chTok (pos + (ws.length + 5) + 1 + label.length) ']', len := 1 }]))) ++
                (scanSteps T.toTables src (fuel - (PlainThm.wsSteps (pos + 5) ws).length - ost.length - 2)
                  (pos + (ws.length + label.length + 7)) R).1,
               (scanSteps T.toTables src (fuel - (PlainThm.wsSteps (pos + 5) ws).length - ost.length - 2)
                  (pos + (ws.length + label.length + 7)) R).2) := by
          rw [scanSteps_step T.toTables src fuel pos _ _ _ hn1 (by simp), hd1]
          simp only []
          rw [hrun, hrun2]
          simp
        rw [hsteps]
        have hsim : ∀ t ∈ PlainItemL.itemLOut pos (PlainItemL.labArg (pos + (ws.length + 5)) (ost.map (·.tok))) pc,
            Simple t := by
          refine PlainItemL.simple_itemLOut pos _ _ A.simple ?_
          intro t ht
          cases pc with
          | none => simp [PlainItemL.punctToks] at ht
          | some c =>
            simp only [PlainItemL.punctToks, List.mem_singleton] at ht
            subst ht
            have hin : T.itemPunctuation.contains [c] = true := by simpa [pcIn] using hpin
            have hlo : PlainItem.labOk T st [c] = true := by
              have := hpu
              simp only [PlainItemL.punctOk, List.all_eq_true] at this
              exact this [c] (by simpa using hin)
            exact PlainItem.simple_labTok _ [c] (PlainItem.labOk_facts hlo 0).2.2
        refine ⟨i1, ScanFacts.prepend I
          (.itemL pos ((PlainThm.wsSteps (pos + 5) ws).map (·.tok)) (pos + (ws.length + 5))
            (pos + (ws.length + 5) + 1 + label.length) (ost.map (·.tok)) pc)
          [.itemL (itemLMarks pos ws label pc) (ws.length + label.length + 7) pc label] _ _ ?_ ?_ ?_ hfirst
          (by simp [PlainItem.itemTok]) ?_⟩
        · intro x hx
          simp only [List.mem_cons, List.mem_append, List.not_mem_nil, or_false] at hx
          rcases hx with rfl | hx | rfl | hx | rfl
          · exact ⟨rfl, rfl⟩
          · exact ⟨(PlainThm.wsSteps_ok _ _ x hx).1, (PlainThm.wsSteps_ok _ _ x hx).2.1⟩
          · exact ⟨rfl, rfl⟩
          · exact ⟨(O.ok x hx).1, (O.ok x hx).2.1⟩
          · exact ⟨rfl, rfl⟩
        · simp [Piece.toks]
        · intro ps hflat hpok hlink
          refine ⟨⟨PlainItemL.wsSteps_space _ _, hopt, hblank, hpu, hpok⟩,
            Link.itemL pos _ _ _ _ pc _ _ label ps items' ?_ hsim A.pv (by omega) hlink⟩
          have := PlainItemL.marksOf_itemLOut pos (PlainItemL.labArg (pos + (ws.length + 5)) (ost.map (·.tok))) pc []
          rw [List.append_nil] at this
          rw [this, A.marks, A.last]
          simp [itemLMarks, marksOf]
        · intro hdr
          simp [droppable, isSpaceTok, PlainItem.itemTok] at hdr
      | ubeg _ name R items' hd hsub =>
        obtain ⟨hsp, hnv, D⟩ := PlainItemL.ubegFacts hd
        have hname := List.length_pos_iff.mpr D.ne
        simp only [List.length_cons, List.length_append, PlainItem.nBegin] at hf hn
        obtain ⟨g, hg⟩ : ∃ g, fuel = g + 1 := ⟨fuel - 1, by omega⟩
        have hn1 := PlainItem.nextToken_begin T src pos _ hsp hnv
        have hn2 := nextToken_brace T src (pos + 6) '{' _ (Or.inl rfl) D.b1
        have hn3 := nextToken_brace T src (pos + 6 + 1 + name.length) '}' R (Or.inr rfl) D.b2
        obtain ⟨bsteps, B, hrun⟩ := PlainMacro.scanSteps_body T st src R name.length name (pos + 6 + 1) g
          (Nat.le_refl _) (by omega) D.inert
        have hBl := B.len
        obtain ⟨g', hg'⟩ : ∃ g', g - bsteps.length = g' + 1 := ⟨g - bsteps.length - 1, by omega⟩
        have hpos : pos + 6 + 1 + name.length + 1 = pos + (name.length + 8) := by omega
        obtain ⟨i1, I⟩ := ih g' (pos + (name.length + 8)) R items' (by omega) (by omega) hsub
        have hsteps : scanSteps T.toTables src (fuel + 1) pos
              ('\\' :: (PlainItem.nBegin ++ '{' :: (name ++ '}' :: R)))
            = (({ tok := PlainItem.begTok pos, len := 6 } ::
               ({ tok := { kind := .special, pos := pos + 6, txt := ['{'] }, len := 1 } ::
               (bsteps ++
                 [{ tok := { kind := .special, pos := pos + 6 + 1 + name.length, txt := ['}'] }, len := 1 }]))) ++
                 (scanSteps T.toTables src g' (pos + (name.length + 8)) R).1,
               (scanSteps T.toTables src g' (pos + (name.length + 8)) R).2) := by
          rw [scanSteps_step T.toTables src fuel pos _ _ _ hn1 (by simp),
            show ('\\' :: (PlainItem.nBegin ++ '{' :: (name ++ '}' :: R))).drop 6 = '{' :: (name ++ '}' :: R) from rfl]
          simp only []
          rw [hg, scanSteps_step T.toTables src g (pos + 6) _ _ _ hn2 (by simp)]
          simp only [List.drop_succ_cons, List.drop_zero]
          rw [hrun, hg', scanSteps_step T.toTables src g' _ _ _ _ hn3 (by simp)]
          simp only [List.drop_succ_cons, List.drop_zero, hpos]
          simp
        rw [hsteps]
        have hbt : bodyTxt (bsteps.map (·.tok)) = name := B.txt
        refine ⟨i1, ScanFacts.prepend I
          (.ubeg pos (pos + 6) (pos + 6 + 1 + name.length) (bsteps.map (·.tok)))
          [.ubeg name (name.length + 8)] _ _ ?_ ?_ ?_ ?_
          (by simp [PlainItem.begTok]) ?_⟩
        · intro x hx
          simp only [List.mem_cons, List.mem_append, List.not_mem_nil, or_false] at hx
          rcases hx with rfl | rfl | hx | rfl
          · exact ⟨rfl, rfl⟩
          · exact ⟨rfl, rfl⟩
          · exact ⟨(B.ok x hx).1, (B.ok x hx).2.1⟩
          · exact ⟨rfl, rfl⟩
        · simp [Piece.toks, lbr, rbr]
        · intro ps hflat hpok hlink
          exact ⟨⟨PlainItem.nameToks_of_bodyRun B D.ne, by rw [hbt]; exact D.undecl, hpok⟩,
            Link.ubeg pos _ _ name _ _ ps items' hbt (by simp only [List.length_map]; omega) hlink⟩
        · have htw : (PlainItem.nBegin ++ '{' :: (name ++ '}' :: R)).takeWhile macroChar = PlainItem.nBegin :=
            takeWhile_append_stop _ _ _ (by decide) rfl
          show sBegin = _
          rw [PlainItem.sBegin_eq]
          exact (firstTokTxtV_cw T.toTables PlainItem.nBegin _ (by decide) htw hsp (by decide)).symm
        · intro hdr
          simp [droppable, isSpaceTok, PlainItem.begTok] at hdr
      | uen _ name R items' hd hsub =>
        obtain ⟨hsp, D⟩ := PlainItemL.uendFacts hd
        have hname := List.length_pos_iff.mpr D.ne
        simp only [List.length_cons, List.length_append, PlainItem.nEnd] at hf hn
        obtain ⟨g, hg⟩ : ∃ g, fuel = g + 1 := ⟨fuel - 1, by omega⟩
        have hn1 := PlainItem.nextToken_end T src pos _ hsp
        have hn2 := nextToken_brace T src (pos + 4) '{' _ (Or.inl rfl) D.b1
        have hn3 := nextToken_brace T src (pos + 4 + 1 + name.length) '}' R (Or.inr rfl) D.b2
        obtain ⟨bsteps, B, hrun⟩ := PlainMacro.scanSteps_body T st src R name.length name (pos + 4 + 1) g
          (Nat.le_refl _) (by omega) D.inert
        have hBl := B.len
        obtain ⟨g', hg'⟩ : ∃ g', g - bsteps.length = g' + 1 := ⟨g - bsteps.length - 1, by omega⟩
        have hpos : pos + 4 + 1 + name.length + 1 = pos + (name.length + 6) := by omega
        obtain ⟨i1, I⟩ := ih g' (pos + (name.length + 6)) R items' (by omega) (by omega) hsub
        have hsteps : scanSteps T.toTables src (fuel + 1) pos
              ('\\' :: (PlainItem.nEnd ++ '{' :: (name ++ '}' :: R)))
            = (({ tok := PlainItem.endTok pos, len := 4 } ::
               ({ tok := { kind := .special, pos := pos + 4, txt := ['{'] }, len := 1 } ::
               (bsteps ++
                 [{ tok := { kind := .special, pos := pos + 4 + 1 + name.length, txt := ['}'] }, len := 1 }]))) ++
                 (scanSteps T.toTables src g' (pos + (name.length + 6)) R).1,
               (scanSteps T.toTables src g' (pos + (name.length + 6)) R).2) := by
          rw [scanSteps_step T.toTables src fuel pos _ _ _ hn1 (by simp),
            show ('\\' :: (PlainItem.nEnd ++ '{' :: (name ++ '}' :: R))).drop 4 = '{' :: (name ++ '}' :: R) from rfl]
          simp only []
          rw [hg, scanSteps_step T.toTables src g (pos + 4) _ _ _ hn2 (by simp)]
          simp only [List.drop_succ_cons, List.drop_zero]
          rw [hrun, hg', scanSteps_step T.toTables src g' _ _ _ _ hn3 (by simp)]
          simp only [List.drop_succ_cons, List.drop_zero, hpos]
          simp
        rw [hsteps]
        have hbt : bodyTxt (bsteps.map (·.tok)) = name := B.txt
        refine ⟨i1, ScanFacts.prepend I
          (.uen pos (pos + 4) (pos + 4 + 1 + name.length) (bsteps.map (·.tok)))
          [.fix [none] (name.length + 6)] _ _ ?_ ?_ ?_ ?_
          (by simp [PlainItem.endTok]) ?_⟩
        · intro x hx
          simp only [List.mem_cons, List.mem_append, List.not_mem_nil, or_false] at hx
          rcases hx with rfl | rfl | hx | rfl
          · exact ⟨rfl, rfl⟩
          · exact ⟨rfl, rfl⟩
          · exact ⟨(B.ok x hx).1, (B.ok x hx).2.1⟩
          · exact ⟨rfl, rfl⟩
        · simp [Piece.toks, lbr, rbr]
        · intro ps hflat hpok hlink
          refine ⟨⟨PlainItem.nameToks_of_bodyRun B D.ne, by rw [hbt]; exact D.undecl, hpok⟩,
            Link.fix _ _ _ _ _ ?_ hlink⟩
          exact isFix_of T _ _ _ (2 + (bsteps.map (·.tok)).length) [mkAction pos] (fun _ _ _ => rfl) rfl
            (fun x hx => by simp only [List.mem_singleton] at hx; subst hx; exact simple_mkAction pos)
            (fun _ => rfl) (fun _ => trivial) (fun _ _ => rfl) (by simp only [List.length_map]; omega)
            (fun _ _ => rfl) (fun _ => rfl) (fun _ => rfl)
        · have htw : (PlainItem.nEnd ++ '{' :: (name ++ '}' :: R)).takeWhile macroChar = PlainItem.nEnd :=
            takeWhile_append_stop _ _ _ (by decide) rfl
          show sEnd = _
          rw [PlainItem.sEnd_eq]
          exact (firstTokTxtV_cw T.toTables PlainItem.nEnd _ (by decide) htw hsp (by decide)).symm
        · intro hdr
          simp [droppable, isSpaceTok, PlainItem.endTok] at hdr
      | en _ name R items' hd hsub =>
        have D := PlainItem.endFacts hd
        have hname := List.length_pos_iff.mpr D.ne
        simp only [List.length_cons, List.length_append, PlainItem.nEnd] at hf hn
        obtain ⟨g, hg⟩ : ∃ g, fuel = g + 1 := ⟨fuel - 1, by omega⟩
        have hn1 := PlainItem.nextToken_end T src pos _ D.special
        have hn2 := nextToken_brace T src (pos + 4) '{' _ (Or.inl rfl) D.b1
        have hn3 := nextToken_brace T src (pos + 4 + 1 + name.length) '}' R (Or.inr rfl) D.b2
        obtain ⟨bsteps, B, hrun⟩ := PlainMacro.scanSteps_body T st src R name.length name (pos + 4 + 1) g
          (Nat.le_refl _) (by omega) D.inert
        have hBl := B.len
        obtain ⟨g', hg'⟩ : ∃ g', g - bsteps.length = g' + 1 := ⟨g - bsteps.length - 1, by omega⟩
        have hpos : pos + 4 + 1 + name.length + 1 = pos + (name.length + 6) := by omega
        obtain ⟨i1, I⟩ := ih g' (pos + (name.length + 6)) R items' (by omega) (by omega) hsub
        have hsteps : scanSteps T.toTables src (fuel + 1) pos
              ('\\' :: (PlainItem.nEnd ++ '{' :: (name ++ '}' :: R)))
            = (({ tok := PlainItem.endTok pos, len := 4 } ::
               ({ tok := { kind := .special, pos := pos + 4, txt := ['{'] }, len := 1 } ::
               (bsteps ++
                 [{ tok := { kind := .special, pos := pos + 4 + 1 + name.length, txt := ['}'] }, len := 1 }]))) ++
                 (scanSteps T.toTables src g' (pos + (name.length + 6)) R).1,
               (scanSteps T.toTables src g' (pos + (name.length + 6)) R).2) := by
          rw [scanSteps_step T.toTables src fuel pos _ _ _ hn1 (by simp),
            show ('\\' :: (PlainItem.nEnd ++ '{' :: (name ++ '}' :: R))).drop 4 = '{' :: (name ++ '}' :: R) from rfl]
          simp only []
          rw [hg, scanSteps_step T.toTables src g (pos + 4) _ _ _ hn2 (by simp)]
          simp only [List.drop_succ_cons, List.drop_zero]
          rw [hrun, hg', scanSteps_step T.toTables src g' _ _ _ _ hn3 (by simp)]
          simp only [List.drop_succ_cons, List.drop_zero, hpos]
          simp
        rw [hsteps]
        have hbt : bodyTxt (bsteps.map (·.tok)) = name := B.txt
        refine ⟨i1, ScanFacts.prepend I
          (.en pos (pos + 4) (pos + 4 + 1 + name.length) (bsteps.map (·.tok)))
          [.stk (fun _ => PlainItem.envMarks (PlainItem.envOf st name) pos) PlainItem.endStk
            (fun _ => true) (name.length + 6)] _ _ ?_ ?_ ?_ ?_
          (by simp [PlainItem.endTok]) ?_⟩
        · intro x hx
          simp only [List.mem_cons, List.mem_append, List.not_mem_nil, or_false] at hx
          rcases hx with rfl | rfl | hx | rfl
          · exact ⟨rfl, rfl⟩
          · exact ⟨rfl, rfl⟩
          · exact ⟨(B.ok x hx).1, (B.ok x hx).2.1⟩
          · exact ⟨rfl, rfl⟩
        · simp [Piece.toks, lbr, rbr]
        · intro ps hflat hpok hlink
          exact ⟨⟨PlainItem.nameToks_of_bodyRun B D.ne, by rw [hbt]; exact D.env, hpok⟩,
            Link.en pos _ _ name _ ps items' hbt (by simpa using hBl) hlink⟩
        · have htw : (PlainItem.nEnd ++ '{' :: (name ++ '}' :: R)).takeWhile macroChar = PlainItem.nEnd :=
            takeWhile_append_stop _ _ _ (by decide) rfl
          show sEnd = _
          rw [PlainItem.sEnd_eq]
          exact (firstTokTxtV_cw T.toTables PlainItem.nEnd _ (by decide) htw D.special (by decide)).symm
        · intro hdr
          simp [droppable, isSpaceTok, PlainItem.endTok] at hdr
      | denv _ name body R items' hm hds hsub =>
        have D := PlainDisplay.envFacts hm
        have hname := List.length_pos_iff.mpr D.ne
        simp only [PlainDisplay.endSrc, List.length_cons, List.length_append, PlainItem.nBegin,
          PlainItem.nEnd] at hf hn
        obtain ⟨g1, hg1⟩ : ∃ g, fuel = g + 1 := ⟨fuel - 1, by omega⟩
        have hn1 := PlainItem.nextToken_begin T src pos _ D.special D.noverb
        have hn2 := nextToken_brace T src (pos + 6) '{' _ (Or.inl rfl) D.b1
        obtain ⟨s1, B1, hrun1⟩ := PlainMacro.scanSteps_body T st src (body ++ PlainDisplay.endSrc name R)
          name.length name (pos + 6 + 1) g1 (Nat.le_refl _) (by omega) D.inert
        have hB1 := B1.len
        obtain ⟨g2, hg2⟩ : ∃ g, g1 - s1.length = g + 1 := ⟨g1 - s1.length - 1, by omega⟩
        have hn3 := nextToken_brace T src (pos + 6 + 1 + name.length) '}' _ (Or.inr rfl) D.b2
        obtain ⟨bsteps, B, hrun⟩ := PlainDisplay.scanSteps_bodyrun T src '\\'
          (PlainItem.nEnd ++ '{' :: (name ++ '}' :: R))
          (by decide) body.length body (pos + 6 + 1 + name.length + 1) g2 (Nat.le_refl _) (by omega)
          D.bok D.amp
        have hBl := B.len
        obtain ⟨g3, hg3⟩ : ∃ g, g2 - bsteps.length = g + 1 := ⟨g2 - bsteps.length - 1, by omega⟩
        have hn4 := PlainItem.nextToken_end T src (pos + 6 + 1 + name.length + 1 + body.length) _ D.special2
        obtain ⟨g4, hg4⟩ : ∃ g, g3 = g + 1 := ⟨g3 - 1, by omega⟩
        have hn5 := nextToken_brace T src (pos + 6 + 1 + name.length + 1 + body.length + 4) '{' _
          (Or.inl rfl) D.b3
        obtain ⟨s2, B2, hrun2⟩ := PlainMacro.scanSteps_body T st src R name.length
          name (pos + 6 + 1 + name.length + 1 + body.length + 4 + 1) g4 (Nat.le_refl _) (by omega) D.inert
        have hB2 := B2.len
        obtain ⟨g5, hg5⟩ : ∃ g, g4 - s2.length = g + 1 := ⟨g4 - s2.length - 1, by omega⟩
        have hn6 := nextToken_brace T src (pos + 6 + 1 + name.length + 1 + body.length + 4 + 1 + name.length)
          '}' R (Or.inr rfl) D.b4
        have hpos : pos + 6 + 1 + name.length + 1 + body.length + 4 + 1 + name.length + 1
            = pos + (2 * name.length + body.length + 14) := by omega
        obtain ⟨i1, I⟩ := ih g5 (pos + (2 * name.length + body.length + 14)) R items' (by omega)
          (by omega) hsub
        have hsteps : scanSteps T.toTables src (fuel + 1) pos
              ('\\' :: (PlainItem.nBegin ++ '{' :: (name ++ '}' :: (body ++ PlainDisplay.endSrc name R))))
            = (({ tok := PlainItem.begTok pos, len := 6 } ::
               ({ tok := { kind := .special, pos := pos + 6, txt := ['{'] }, len := 1 } ::
               (s1 ++
                 { tok := { kind := .special, pos := pos + 6 + 1 + name.length, txt := ['}'] }, len := 1 } ::
                 (bsteps ++
                   { tok := PlainItem.endTok (pos + 6 + 1 + name.length + 1 + body.length), len := 4 } ::
                   { tok := { kind := .special, pos := pos + 6 + 1 + name.length + 1 + body.length + 4, txt := ['{'] }, len := 1 } ::
                   (s2 ++
                     [{ tok := { kind := .special, pos := pos + 6 + 1 + name.length + 1 + body.length + 4 + 1 + name.length, txt := ['}'] }, len := 1 }]))))) ++
                     (scanSteps T.toTables src g5 (pos + (2 * name.length + body.length + 14)) R).1,
               (scanSteps T.toTables src g5 (pos + (2 * name.length + body.length + 14)) R).2) := by
          rw [scanSteps_step T.toTables src fuel pos _ _ _ hn1 (by simp),
            show ('\\' :: (PlainItem.nBegin ++ '{' :: (name ++ '}' :: (body ++ PlainDisplay.endSrc name R)))).drop 6
              = '{' :: (name ++ '}' :: (body ++ PlainDisplay.endSrc name R)) from rfl]
          simp only []
          rw [hg1, scanSteps_step T.toTables src g1 (pos + 6) _ _ _ hn2 (by simp)]
          simp only [List.drop_succ_cons, List.drop_zero]
          rw [hrun1, hg2, scanSteps_step T.toTables src g2 _ _ _ _ hn3 (by simp)]
          simp only [List.drop_succ_cons, List.drop_zero]
          rw [show PlainDisplay.endSrc name R = '\\' :: (PlainItem.nEnd ++ '{' :: (name ++ '}' :: R)) from rfl,
            hrun, hg3, scanSteps_step T.toTables src g3 _ _ _ _ hn4 (by simp),
            show ('\\' :: (PlainItem.nEnd ++ '{' :: (name ++ '}' :: R))).drop 4 = '{' :: (name ++ '}' :: R) from rfl]
          simp only []
          rw [hg4, scanSteps_step T.toTables src g4 _ _ _ _ hn5 (by simp)]
          simp only [List.drop_succ_cons, List.drop_zero]
          rw [hrun2, hg5, scanSteps_step T.toTables src g5 _ _ _ _ hn6 (by simp)]
          simp only [List.drop_succ_cons, List.drop_zero, hpos]
          simp
        rw [hsteps]
        obtain ⟨el, hel1, hel2⟩ := PlainDisplay.elemPos_bodyToksOf T st.mathOperators body
          (pos + 6 + 1 + name.length + 1) D.elem
        have hbne : body.any (fun c => !isSpace c) = true := by
          obtain ⟨c, hc, hcs⟩ := List.any_eq_true.mp D.elem
          refine List.any_eq_true.mpr ⟨c, hc, ?_⟩
          simp only [PlainDisplay.elemChar, Bool.and_eq_true] at hcs
          exact hcs.1.1
        have hbt1 : bodyTxt (s1.map (·.tok)) = name := B1.txt
        have hbt2 : bodyTxt (s2.map (·.tok)) = name := B2.txt
        refine ⟨i1, ScanFacts.prepend I
          (.denv st.mathOperators pos (pos + 6) (pos + 6 + 1 + name.length) (s1.map (·.tok))
            (bsteps.map (·.tok)) (pos + 6 + 1 + name.length + 1 + body.length)
            (pos + 6 + 1 + name.length + 1 + body.length + 4)
            (pos + 6 + 1 + name.length + 1 + body.length + 4 + 1 + name.length) (s2.map (·.tok)))
          [.disp (fun ph => none :: none :: dispMarks T st.mathOperators ph pos (name.length + 8) body)
            (2 * name.length + body.length + 14)] _ _ ?_ ?_ ?_ ?_ (by simp [PlainItem.begTok]) ?_⟩
        · intro x hx
          simp only [List.mem_cons, List.mem_append, List.not_mem_nil, or_false] at hx
          rcases hx with rfl | rfl | hx | rfl | hx | rfl | rfl | hx | rfl
          · exact ⟨rfl, rfl⟩
          · exact ⟨rfl, rfl⟩
          · exact ⟨(B1.ok x hx).1, (B1.ok x hx).2.1⟩
          · exact ⟨rfl, rfl⟩
          · exact ⟨(B.ok x hx).1, (B.ok x hx).2.1⟩
          · exact ⟨rfl, rfl⟩
          · exact ⟨rfl, rfl⟩
          · exact ⟨(B2.ok x hx).1, (B2.ok x hx).2.1⟩
          · exact ⟨rfl, rfl⟩
        · simp [Piece.toks, lbr, rbr]
        · intro ps hflat hpok hlink
          refine ⟨⟨rfl, hds, PlainItem.nameToks_of_bodyRun B1 D.ne, PlainItem.nameToks_of_bodyRun B2 D.ne,
              by rw [hbt1, hbt2], by rw [hbt1]; exact D.env, by rw [hbt1]; exact D.n1,
              by rw [hbt1]; exact D.n2, ?_, ?_, hpok⟩,
            Link.denv _ _ _ _ _ _ _ _ _ _ _ _ _ _ ?_ (by simp only [List.length_map]; omega) hlink⟩
          · unfold PlainDisplay.HasElem
            rw [B.toks, hel1]; rfl
          · intro t ht
            obtain ⟨x, hx, rfl⟩ := List.mem_map.mp ht
            exact (B.ok x hx).2.2
          · intro ph
            rw [marksOf_cons, marksOf_cons, tokMarks_mkAction, marksOf_dispOut]
            have e1 : pos + 6 + 1 + name.length + 1 = pos + (name.length + 8) := by omega
            have hBt := B.toks
            rw [e1] at hBt hel1 hel2
            simp only [dispMarks, PlainDisplay.elemPos, hBt, hel1, Option.map_some, Option.getD_some,
              hel2, PlainDisplay.bodyTxt_bodyToksOf,
              PlainDisplay.firstPos_bodyToksOf body _ hbne, PlainMath.punctOf]
            rfl
        · have htw : (PlainItem.nBegin ++ '{' :: (name ++ '}' :: (body ++ PlainDisplay.endSrc name R))).takeWhile
              macroChar = PlainItem.nBegin := takeWhile_append_stop _ _ _ (by decide) rfl
          show sBegin = _
          rw [PlainItem.sBegin_eq]
          exact (firstTokTxtV_cw T.toTables PlainItem.nBegin _ (by decide) htw D.special (by decide)).symm
        · intro hdr
          simp [droppable, isSpaceTok, PlainItem.begTok] at hdr

end PlainMix4
end Yalafi
