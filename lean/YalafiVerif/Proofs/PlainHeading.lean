/-
  Proofs/PlainHeading.lean — C03/C04/C05 at headings, end to end on the model: "the title of
  `\section{…}` (also `\subsection`, `\chapter`, `\title`, …) is kept as text, on its line: a full
  stop is appended if the title does not end with a punctuation mark of `heading_punct`, so that the
  proofreader sees a sentence; the title characters map to their own source positions, the appended
  full stop maps into the heading (the position of the last token of the title argument)".

  Documents: sequences of inert text segments (cf. Proofs/Plain.lean, Proofs/PlainFootnote.lean) and
  headings `\name{title}`: no star, no optional argument, `{` directly behind the name; `\name` any
  macro that is declared as a heading macro in the initialised parser; the title inert, without
  line break, with a visible character.

  Model facts used (`parameters.py`: `Macro(self, '\\section', args='*OA', repl=hs.h_heading)`;
  `handlers.py`: `h_heading`).  `expandMacro` looks the macro up and calls `expandArguments`;
  `collectArgs` stores `[[], default, title tokens]` for `*OA` on `{title}`; there is no extraction
  text; the handler reads argument 2 only, expands it with `get_text_expanded` to inspect its last
  visible character, and returns the title tokens, plus a *position-counting* text token `.` at the
  position of the last title token; `expandArguments` puts an Action token (position of the macro)
  in front.  NO paragraph / line-break tokens are added: the heading yields exactly
  `Action, title tokens, [.]`.  These tokens are pushed back and expanded again by the loop (they
  are copied).  At the end `remove_pure_action_lines` runs; since the Action token stands on the
  line of the title, which has visible text, no line is deleted.

  `headDeclOk`, `stateOk`                 the hypotheses on the initialised parser (computable)
  `needsDot`, `lastVisible`, `needsDot_eq`   when the full stop is appended
  (1) `getTextExpanded_copy`              `get_text_expanded` on inert title tokens: their text,
                                          state unchanged
  (2) `callHandler_heading`               the handler step
  (3) `collectArgs_heading`, `expandArguments_heading`, `expandMacro_heading`
  (4) `seq_head_step`, `Piece`, `PiecesOk`, `outMain`, `cost`, `seq_heads`      the loop
      `Seg`, `render`, `headOk`, `segsOk`, `refOut`, `outText`, `lineS`, `lineS_safe`
      `scanSteps_segs`, `scan_segs`, `removeLines_outMain`, `parserWork_head`, `parse_head`
      `tex2txt_head_record`, `tex2txt_heading`                                  end to end

  Side conditions of `tex2txt_heading` (reasons)
    options / initialisation   as in `tex2txt_plain_text`: no --defs, --extr, --repl, --unkn,
        single-language mode, `st1` = state after `Parser.__init__`
    `stateOk T st1`   the empty string is no "active character" of the language settings (else the
        Action token would go to `expand_short_macro`), and neither is `.` (else the appended full
        stop would).  Holds for the real tables.
    `segsOk T st1 segs`
      text / title characters (`PlainFootnote.chrOk`, in the full right context): no "active
        character", and white space, or none of `% # \ $ { }` with no special sequence matching
        there (a lone `-` or `'` is fine); `PlainFootnote.textOk_of_inertChar` gives the
        per-character sufficient condition;
      what follows a text segment does not start with white space (the white-space token would
        span the segment boundary: merge the segments — no loss of generality);
      `headOk`: `name` is a non-empty string of macro characters, no special sequence matches at
        the backslash, `\name` is none of `\begin \end \item \verb \def` and no accent macro (the
        scanner yields one macro token, which the loop hands to `expandMacro`);
        `lookupMacro st1 \name = some m` with `m.args = "*OA"`, `m.handler = .heading`,
        `m.extract = []` (`headDeclOk`; `m.repl` and `m.defaults` are irrelevant: the replacement
        is not used when a handler is set, and the default of the optional argument becomes
        argument 1, which the handler never reads); both braces are scanned as brace tokens; the
        title is inert in front of `}` (hence brace-free: the `}` is the one that closes the
        argument), has no line break and is not blank (a blank title yields no full stop and the
        heading becomes a "pure action line", which is deleted with its line break:
        `"x\n\section{ }\ny"` yields `"x\ny"`; with a line break in the title the first line of the
        title could be such a line).
    no line condition is needed: `lineS_safe`.
    fuel   `(render segs).length + 4 ≤ fuel`: one unit for `parserWork`, at most one iteration per
        source character (a heading costs `|title tokens| + 3` iterations for
        `|name| + |title| + 3` characters), the final iteration, and two more: when the loop reaches
        a heading with `F + 1` units left, the handler's inner expansion of the title needs
        `|title tokens| + 5 ≤ F` (four nested calls `expandMacro`, `expandArguments`, `callHandler`,
        `getTextExpanded` and `|title tokens| + 1` iterations).  The title is expanded twice (by the
        handler, and as pushed-back tokens), but the first expansion happens *below* the loop and
        does not consume iterations of it.
  Positions: the full stop sits at the start of the *last token* of the title
  (`PlainFootnote.lastTokOff`): its last character, or the start of the run of white space the
  title ends with (`\subsection{Foo bar  }` yields `Foo bar  .` with the full stop at the position
  of the first of the two blanks).
  Observation (model and Python agree): `heading_punct = ['!', '?']` does not contain `.`, so a
  title that already ends with a full stop gets a second one (`\title{Done.}` yields `Done..`).
  Not covered: `\section*{…}`, `\section[short]{…}`, white space between the name and `{`, titles
  with macros / braces / maths / line breaks, blank titles, multi-language mode.
-/
import YalafiVerif.Proofs.Plain
import YalafiVerif.Proofs.PlainFootnote
namespace Yalafi
namespace PlainHeading

open M

/-! ### the declaration of a heading macro -/

/-- the declaration `Macro(parms, '\\section', args='*OA', repl=hs.h_heading)` as far as the
    expander looks at it: argument codes `*OA`, the handler `h_heading`, no extraction text.
    (The replacement text is not used when a handler is set; the default of the optional
    argument is stored as argument 1, which the handler never reads.) -/
def headDeclOk (m : MacroDef) : Bool :=
  m.args == ['*', 'O', 'A'] && m.handler == Handler.heading && m.extract.isEmpty

structure DeclFacts (m : MacroDef) : Prop where
  args : m.args = ['*', 'O', 'A']
  handler : m.handler = .heading
  extract : m.extract = []

theorem declFacts {m : MacroDef} (h : headDeclOk m = true) : DeclFacts m := by
  simp only [headDeclOk, Bool.and_eq_true, beq_iff_eq, List.isEmpty_iff] at h
  exact ⟨h.1.1, h.1.2, h.2⟩

/-- the form of the hypothesis in terms of the fields -/
theorem headDeclOk_of_fields (m : MacroDef) (ha : m.args = "*OA".toList) (hh : m.handler = .heading)
    (he : m.extract = []) : headDeclOk m = true := by
  have ha' : m.args = ['*', 'O', 'A'] := ha
  simp [headDeclOk, ha', hh, he]

/-! ### the full stop -/

/-- `h_heading` appends a full stop: the stripped title is not empty, `heading_punct` is not
    empty, and the last character of the stripped title is not in `heading_punct` -/
def needsDot (T : PTables) (title : Str) : Bool :=
  match (strip title).getLast? with
  | some c => !T.headingPunct.isEmpty && !T.headingPunct.contains [c]
  | none => false

/-- the token `h_heading` appends: a position-counting text token `.` at position `p` -/
def dotTok (p : Nat) : Tok := mkTok .text p ['.']

def dotToks (T : PTables) (title : Str) (p : Nat) : List Tok :=
  if needsDot T title then [dotTok p] else []

/-! ### (1) `getTextExpanded` on copied tokens -/

open PlainFootnote (CopyTok)

theorem plainSeq_of_copy {T : PTables} {st : PState} : ∀ (b : List Tok), (∀ t ∈ b, CopyTok T st t) →
    PlainSeq T st b
  | [], _ => trivial
  | t :: ts, h =>
    ⟨(h t (List.mem_cons_self ..)).plain, Or.inl (h t (List.mem_cons_self ..)).nact,
      plainSeq_of_copy ts (fun x hx => h x (List.mem_cons_of_mem _ hx))⟩

theorem getTextDirect_plain : ∀ (b : List Tok), (∀ t ∈ b, PlainTok t) →
    getTextDirect b = (getTxtPos b).1
  | [], _ => rfl
  | t :: ts, h => by
    have ih := getTextDirect_plain ts (fun x hx => h x (List.mem_cons_of_mem _ hx))
    have hk : (t.kind != .comment) = true := by
      simpa using (h t (List.mem_cons_self ..)).notComment
    simp only [getTextDirect, List.filter_cons, hk, if_true, List.flatMap_cons, getTxtPos] at ih ⊢
    rw [ih]

/-- **(1)** `get_text_expanded` on a list of copied tokens (inert title tokens): the text of the
    tokens; the state is unchanged.  Fuel: one unit for the call, one per token, one for the last
    iteration of the loop. -/
theorem getTextExpanded_copy (T : PTables) (st : PState) (b : List Tok) (fuel : Nat)
    (hb : ∀ t ∈ b, CopyTok T st t) (hf : b.length + 2 ≤ fuel) :
    getTextExpanded T fuel b st = .ok ((getTxtPos b).1, st) := by
  obtain ⟨f, rfl⟩ : ∃ f, fuel = f + 1 := ⟨fuel - 1, by omega⟩
  rw [getTextExpanded.eq_2]
  have hs := seq_plain_id T st none b f (by omega) (plainSeq_of_copy b hb)
    (fun t ht => (hb t ht).shape.1)
  refine (M.bind_ok _ _ _ _ _ hs).trans ?_
  show Outcome.ok _ = _
  rw [getTextDirect_plain b (fun t ht => (hb t ht).plain)]

/-! ### (2) the handler -/

/-- **(2) the handler step.**  On the arguments `[star, short title, title]` `h_heading` returns
    the title tokens, followed by a text token `.` at the position of the last title token iff
    the title needs a full stop; the state is unchanged. -/
theorem callHandler_heading (T : PTables) (fuel : Nat) (buf : Buf) (mac : MacroDef)
    (a0 a1 body : List Tok) (l : Tok) (pos : Nat) (st : PState)
    (hb : ∀ t ∈ body, CopyTok T st t) (hl : body.getLast? = some l) (hf : body.length + 3 ≤ fuel) :
    callHandler T fuel .heading buf mac [a0, a1, body] pos st
      = .ok (body ++ dotToks T (getTxtPos body).1 l.pos, st) := by
  obtain ⟨f, rfl⟩ : ∃ f, fuel = f + 1 := ⟨fuel - 1, by omega⟩
  rw [callHandler.eq_7]
  simp only [List.getElem?_cons_succ, List.getElem?_cons_zero]
  refine (M.bind_ok _ _ _ _ _ (rfl : (pure body : M (List Tok)) st = _)).trans ?_
  refine (M.bind_ok _ _ _ _ _ (getTextExpanded_copy T st body f hb (by omega))).trans ?_
  obtain hx | ⟨c, hx⟩ : (strip (getTxtPos body).1).getLast? = none ∨
      ∃ c, (strip (getTxtPos body).1).getLast? = some c := by
    cases (strip (getTxtPos body).1).getLast? <;> simp
  · simp only [hx, hl, dotToks, needsDot, Bool.false_eq_true, if_false, List.append_nil]; rfl
  · simp only [hx, hl, dotToks, needsDot]
    by_cases hc : (!T.headingPunct.isEmpty && !T.headingPunct.contains [c]) = true
    · rw [if_pos hc, if_pos hc]; rfl
    · rw [if_neg hc, if_neg hc, List.append_nil]; rfl

/-! ### (3) `collectArgs`, `expandArguments`, `expandMacro` for a heading -/

open PlainFootnote (BraceTok argBuffer_braced skipSpace_brace skippedLangs_brace)

/-- the value `collectArgs` stores for the missing optional argument (never read by the handler) -/
def optDflt (mac : MacroDef) (p : Nat) : List Tok :=
  match mac.defaults[1]? with
  | some d => d.map (fun t => { t with pos := p, fix := true })
  | none => []

/-- `*OA` on `{body}`: no star, no optional argument, the tokens between the braces -/
theorem collectArgs_heading (T : PTables) (mac : MacroDef) (lb rb : Tok) (body : List Tok)
    (rest : Buf) (start : Nat) (st : PState) (hlb : BraceTok '{' lb) (hrb : BraceTok '}' rb)
    (hb : ∀ t ∈ body, PlainTok t) (hne : body ≠ []) :
    collectArgs T mac ['*', 'O', 'A'] 0 (lb :: (body ++ rb :: rest)) start {} st
      = .ok (({ args := [[], optDflt mac lb.pos, body], extr := [[], [], body], langs := [] }, rest),
             st) := by
  have h0 : txtIsNV lb "*" = false := by simp [txtIsNV, hlb.txt]
  have h1 : txtIsNV lb "[" = false := by simp [txtIsNV, hlb.txt]
  have h2 : txtIsNV lb "}" = false := by simp [txtIsNV, hlb.txt]
  simp only [collectArgs, skipSpace_brace lb _ hlb, skippedLangs_brace lb _ hlb, List.head?_cons,
    h0, h1, h2, show ('*' == '*') = true by decide,
    show ('O' == '*') = false by decide, show ('O' == 'O') = true by decide,
    show ('A' == '*') = false by decide, show ('A' == 'O') = false by decide,
    show ('A' == 'A') = true by decide, Bool.false_eq_true, if_false, if_true, List.append_nil,
    List.nil_append]
  refine (M.bind_ok _ _ _ _ _ (argBuffer_braced T.toTables lb rb body rest lb.pos st hlb hrb hb hne)).trans ?_
  rfl

/-- **(3) `expand_arguments` for a heading**: an Action token at the position of the macro, the
    title tokens, the full stop (if any); the buffer behind the closing brace; the state is
    unchanged.  Fuel: four nested calls (`expandArguments`, `callHandler`, `getTextExpanded`,
    `expandSequence`), one iteration per title token and the final iteration. -/
theorem expandArguments_heading (T : PTables) (fuel : Nat) (mac : MacroDef) (lb rb : Tok)
    (body : List Tok) (l : Tok) (rest : Buf) (start : Nat) (st : PState) (hm : DeclFacts mac)
    (hlb : BraceTok '{' lb) (hrb : BraceTok '}' rb)
    (hb : ∀ t ∈ body, CopyTok T st t) (hl : body.getLast? = some l)
    (hf : body.length + 4 ≤ fuel) :
    expandArguments T fuel (lb :: (body ++ rb :: rest)) mac start st
      = .ok ((mkAction start :: (body ++ dotToks T (getTxtPos body).1 l.pos), rest), st) := by
  obtain ⟨f, rfl⟩ : ∃ f, fuel = f + 1 := ⟨fuel - 1, by omega⟩
  have hne : body ≠ [] := by
    intro e; rw [e] at hl; cases hl
  rw [expandArguments.eq_2, hm.args]
  refine (M.bind_ok _ _ _ _ _ (collectArgs_heading T mac lb rb body rest start st hlb hrb
    (fun x hx => (hb x hx).plain) hne)).trans ?_
  simp only [hm.extract, hm.handler, List.isEmpty_nil, Bool.not_true, Bool.false_eq_true, if_false,
    show (Handler.heading != Handler.none) = true by decide, if_true]
  refine (M.bind_ok _ _ _ _ _
    (callHandler_heading T f rest mac [] (optDflt mac lb.pos) body l start st hb hl (by omega))).trans ?_
  show Outcome.ok _ = _
  simp

theorem expandMacro_heading (T : PTables) (fuel : Nat) (mac : MacroDef) (hd lb rb : Tok)
    (body : List Tok) (l : Tok) (rest : Buf) (st : PState)
    (hmac : lookupMacro st hd.txt = some mac) (hm : DeclFacts mac)
    (hlb : BraceTok '{' lb) (hrb : BraceTok '}' rb)
    (hb : ∀ t ∈ body, CopyTok T st t) (hl : body.getLast? = some l)
    (hf : body.length + 5 ≤ fuel) :
    expandMacro T fuel (lb :: (body ++ rb :: rest)) hd false st
      = .ok ((mkAction hd.pos :: (body ++ dotToks T (getTxtPos body).1 l.pos), rest), st) := by
  obtain ⟨f, rfl⟩ : ∃ f, fuel = f + 1 := ⟨fuel - 1, by omega⟩
  have hsk : skipSpaceStopLangAct (lb :: (body ++ rb :: rest)) = lb :: (body ++ rb :: rest) := by
    simp [skipSpaceStopLangAct, hlb.notSpace]
  rw [expandMacro.eq_2]
  show M.bind' M.get _ st = _
  simp only [M.bind', M.get, hmac, hsk]
  exact expandArguments_heading T f mac lb rb body l rest hd.pos st hm hlb hrb hb hl (by omega)

/-! ### (4) the loop -/

/-- the macro token of a declared heading macro -/
structure HdTok (st : PState) (t : Tok) : Prop where
  kind : t.kind = .xmacro
  nDef : txtIs t "\\def" = false
  decl : ∃ m, lookupMacro st t.txt = some m ∧ headDeclOk m = true

/-- the conditions on the parser state: the empty string and `.` are no "active characters" of
    the language settings (otherwise the Action token, or the appended full stop, would be sent to
    `expand_short_macro`) -/
def stateOk (T : PTables) (st : PState) : Bool :=
  noEmptyActive T st && !(activeChars T st).contains ['.']

structure StateFacts (T : PTables) (st : PState) : Prop where
  nea : noEmptyActive T st = true
  dot : (activeChars T st).contains ['.'] = false

theorem stateFacts {T : PTables} {st : PState} (h : stateOk T st = true) : StateFacts T st := by
  simp only [stateOk, Bool.and_eq_true, Bool.not_eq_true'] at h
  exact ⟨h.1, h.2⟩

theorem copyTok_dot {T : PTables} {st : PState} (hs : StateFacts T st) (p : Nat) :
    CopyTok T st (dotTok p) :=
  ⟨plainTok_of_head _ '.' [] rfl (Or.inl rfl) (by decide), hs.dot,
    by simp [dotTok, mkTok], Or.inl ⟨rfl, (by decide : hasNl ['.'] = false)⟩⟩

theorem copyTok_dotToks {T : PTables} {st : PState} (hs : StateFacts T st) (title : Str) (p : Nat) :
    ∀ t ∈ dotToks T title p, CopyTok T st t := by
  intro t ht
  unfold dotToks at ht
  split at ht
  · rw [List.mem_singleton] at ht; subst ht; exact copyTok_dot hs p
  · cases ht

theorem dotToks_length (T : PTables) (title : Str) (p : Nat) : (dotToks T title p).length ≤ 1 := by
  unfold dotToks; split <;> simp

/-- one heading in the loop: the macro token is replaced by an Action token, the title tokens and
    the full stop, which are then copied; the state is unchanged -/
theorem seq_head_step (T : PTables) (fuel : Nat) (hd lb rb : Tok) (body : List Tok) (l : Tok)
    (rest : Buf) (envStop : Option Str) (out : List Tok) (st : PState) (hhd : HdTok st hd)
    (hs : StateFacts T st) (hlb : BraceTok '{' lb) (hrb : BraceTok '}' rb)
    (hb : ∀ t ∈ body, CopyTok T st t) (hl : body.getLast? = some l) :
    expandSequence T (fuel + body.length + 6) (hd :: lb :: (body ++ rb :: rest)) envStop out st
      = expandSequence T (fuel + 4 - (dotToks T (getTxtPos body).1 l.pos).length) rest envStop
          (out ++ mkAction hd.pos :: (body ++ dotToks T (getTxtPos body).1 l.pos)) st := by
  obtain ⟨mac, hmac, hmok⟩ := hhd.decl
  have hm := declFacts hmok
  have hdl := dotToks_length T (getTxtPos body).1 l.pos
  generalize hdots : dotToks T (getTxtPos body).1 l.pos = dots at hdl
  have hdc : ∀ t ∈ dots, CopyTok T st t := by
    rw [← hdots]; exact copyTok_dotToks hs _ _
  rw [expandSequence.eq_3]
  show M.bind' M.get _ st = _
  simp only [M.bind', M.get]
  simp only [hhd.kind, hhd.nDef, Bool.false_eq_true, if_false, if_true, reduceCtorEq, beq_iff_eq,
    beq_self_eq_true]
  refine (M.bind_ok _ _ _ _ _ (expandMacro_heading T (fuel + body.length + 5) mac hd lb rb body l rest
    st hmac hm hlb hrb hb hl (by omega))).trans ?_
  rw [hdots]
  obtain ⟨g, hg⟩ : ∃ g, fuel + body.length + 5 = ((g + dots.length) + body.length) + 1 := by
    refine ⟨fuel + 4 - dots.length, ?_⟩; omega
  have hg' : fuel + 4 - dots.length = g := by omega
  rw [hg, hg']
  simp only [List.cons_append, List.append_assoc]
  rw [seq_action_step T _ hd.pos _ envStop out st hs.nea,
    PlainFootnote.seq_copy_prefix T st envStop (dots ++ rest) body (g + dots.length) _ hb,
    PlainFootnote.seq_copy_prefix T st envStop rest dots g _ hdc]
  simp

/-- the pieces of a token buffer: a token that is copied, or `\name{title}` -/
inductive Piece where
  | tok (t : Tok)
  | head (hd lb : Tok) (body : List Tok) (rb : Tok)

def Piece.toks : Piece → List Tok
  | .tok t => [t]
  | .head hd lb b rb => hd :: lb :: (b ++ [rb])

/-- the token buffer -/
def flat : List Piece → List Tok
  | [] => []
  | p :: ps => p.toks ++ flat ps

def PiecesOk (T : PTables) (st : PState) : List Piece → Prop
  | [] => True
  | .tok t :: rest => CopyTok T st t ∧ PiecesOk T st rest
  | .head hd lb b rb :: rest =>
    HdTok st hd ∧ BraceTok '{' lb ∧ BraceTok '}' rb ∧ b ≠ [] ∧ (∀ t ∈ b, CopyTok T st t) ∧
    PiecesOk T st rest

/-- position of the last token of a list -/
def lastPos (b : List Tok) : Nat := (b.getLast?.map (·.pos)).getD 0

/-- what a heading leaves in the output before the blank-line removal: an Action token at the
    position of the macro, the title tokens, and the full stop at the position of the last title
    token -/
def headOut (T : PTables) (hd : Tok) (b : List Tok) : List Tok :=
  mkAction hd.pos :: (b ++ dotToks T (getTxtPos b).1 (lastPos b))

/-- what the loop emits before the blank-line removal -/
def outMain (T : PTables) : List Piece → List Tok
  | [] => []
  | .tok t :: rest => t :: outMain T rest
  | .head hd _ b _ :: rest => headOut T hd b ++ outMain T rest

/-- fuel: one unit per copied token; a heading costs three iterations (macro token, Action token,
    full stop) and one per title token -/
def cost : List Piece → Nat
  | [] => 0
  | .tok _ :: rest => 1 + cost rest
  | .head _ _ b _ :: rest => b.length + 3 + cost rest

/-- **(4) the loop on a buffer of copied tokens and headings**: the output is the blank-line
    removal applied to `outMain`; the state is unchanged.  Fuel: `cost` iterations, the final
    iteration, and two more units (when the loop reaches a heading, the handler needs
    `|title tokens| + 5` units below the current level, two more than the iterations the heading
    costs in the loop itself). -/
theorem seq_heads (T : PTables) (envStop : Option Str) (st : PState) (hs : StateFacts T st) :
    ∀ (ps : List Piece) (fuel : Nat) (out : List Tok),
      cost ps + 3 ≤ fuel → PiecesOk T st ps →
      expandSequence T fuel (flat ps) envStop out st
        = match removeLines (out ++ outMain T ps) with
          | some r => .ok ((r, []), st)
          | none => .outOfFuel := by
  intro ps
  induction ps with
  | nil =>
    intro fuel out hf _
    obtain ⟨f, rfl⟩ : ∃ f, fuel = f + 1 := ⟨fuel - 1, by omega⟩
    simp only [flat, outMain, List.append_nil]
    rw [expandSequence.eq_2]
    cases removeLines out <;> rfl
  | cons p ps ih =>
    intro fuel out hf hok
    cases p with
    | tok t =>
      simp only [cost] at hf
      obtain ⟨f, rfl⟩ : ∃ f, fuel = f + 1 := ⟨fuel - 1, by omega⟩
      show expandSequence T (f + 1) (t :: flat ps) envStop out st = _
      rw [seq_plain_step T f t (flat ps) envStop out st hok.1.plain (Or.inl hok.1.nact),
        ih f (out ++ [t]) (by omega) hok.2]
      simp only [outMain, List.append_assoc, List.singleton_append]
    | head hd lb b rb =>
      obtain ⟨hhd, hlb, hrb, hne, hb, hrest⟩ := hok
      simp only [cost] at hf
      obtain ⟨l, hl⟩ : ∃ l, b.getLast? = some l := by
        cases hx : b.getLast? with
        | none => rw [List.getLast?_eq_none_iff] at hx; exact absurd hx hne
        | some a => exact ⟨a, rfl⟩
      have hlp : lastPos b = l.pos := by simp [lastPos, hl]
      obtain ⟨f, rfl⟩ : ∃ f, fuel = f + b.length + 6 := ⟨fuel - b.length - 6, by omega⟩
      have hflat : flat (Piece.head hd lb b rb :: ps) = hd :: lb :: (b ++ rb :: flat ps) := by
        simp [flat, Piece.toks]
      have hdl := dotToks_length T (getTxtPos b).1 l.pos
      rw [hflat, seq_head_step T f hd lb rb b l (flat ps) envStop out st hhd hs hlb hrb hb hl,
        ih _ _ (by omega) hrest]
      simp only [outMain, headOut, hlp, List.append_assoc, List.cons_append]

/-! ### the documents -/

open PlainFootnote (lineC LinesOf lastTokOff TextRun braceAt)

/-- a segment of the source: a run of text, or a heading `\name{title}` -/
inductive Seg where
  | txt (s : Str)
  | head (name title : Str)
deriving Repr, DecidableEq

def Seg.render : Seg → Str
  | .txt s => s
  | .head name title => '\\' :: (name ++ '{' :: (title ++ ['}']))

/-- the source text -/
def render : List Seg → Str
  | [] => []
  | s :: rest => s.render ++ render rest

/-- `\name{title}`, followed by `R`:
    * `name` is a non-empty string of macro characters (ASCII letters and `@`); no special sequence
      of the tables matches at the backslash; `\name` is none of `\begin \end \item \verb` (for
      which `scan_macro` builds other tokens), no accent macro and not `\def` (which
      `expand_sequence` handles itself): the scanner yields the macro token `\name`, and the
      opening brace ends the name;
    * `\name` is declared as a heading macro in `st` (`headDeclOk`);
    * both braces are scanned as brace tokens;
    * the title is inert in front of `}` (in particular it contains no brace, no macro, no `%`:
      the closing brace is the one that ends the argument), contains no line break, and has a
      visible character (hence it is not empty) -/
def headOk (T : PTables) (st : PState) (name title R : Str) : Bool :=
  !name.isEmpty && name.all macroChar &&
  (matchSpecial T.toTables ('\\' :: (name ++ '{' :: (title ++ '}' :: R)))).isNone &&
  ('\\' :: name) != sBegin && ('\\' :: name) != sEnd && ('\\' :: name) != sItem &&
  ('\\' :: name) != sVerb && !T.toTables.isAccent ('\\' :: name) && ('\\' :: name) != sDef &&
  (match lookupMacro st ('\\' :: name) with | some m => headDeclOk m | none => false) &&
  braceAt T '{' (title ++ '}' :: R) && braceAt T '}' R &&
  PlainFootnote.textOk T st title ('}' :: R) && !hasNl title && !isBlank title

/-- well-formed documents: every segment is fine in front of the rendering of the following
    ones; what follows a text segment does not start with white space (a white-space token would
    span the boundary: merge the two text segments) -/
def segsOk (T : PTables) (st : PState) : List Seg → Bool
  | [] => true
  | .txt s :: rest =>
    PlainFootnote.textOk T st s (render rest) && (render rest).head?.all (fun d => !isSpace d) && segsOk T st rest
  | .head name title :: rest => headOk T st name title (render rest) && segsOk T st rest

/-! ### the expected result -/

/-- the characters of the output with their (0-based) source positions; `p` = offset of the first
    segment.  Text and title characters keep their own positions; the full stop appended to a
    title sits at the start of the last scanner token of the title (`lastTokOff`: the last
    character of the title, or the start of the run of white space the title ends with). -/
def refOut (T : PTables) : Nat → List Seg → List (Char × Nat)
  | _, [] => []
  | p, .txt s :: rest => posText p s ++ refOut T (p + s.length) rest
  | p, .head name title :: rest =>
    posText (p + name.length + 2) title ++
    (if needsDot T title then [('.', p + name.length + 2 + lastTokOff title)] else []) ++
    refOut T (p + (name.length + title.length + 3)) rest

/-- the output text: every heading replaced by its title, with a full stop where `h_heading`
    appends one -/
def outText (T : PTables) : List Seg → Str
  | [] => []
  | .txt s :: rest => s ++ outText T rest
  | .head _ title :: rest => title ++ (if needsDot T title then ['.'] else []) ++ outText T rest

theorem refOut_fst (T : PTables) : ∀ (p : Nat) (segs : List Seg),
    (refOut T p segs).map (·.1) = outText T segs
  | _, [] => rfl
  | p, .txt s :: rest => by simp [refOut, outText, posText_fst, refOut_fst T _ rest]
  | p, .head name title :: rest => by
    simp only [refOut, outText, List.map_append, posText_fst, refOut_fst T _ rest]
    split <;> rfl

/-- the line automaton of the blank-line removal on a document: the line of a heading has visible
    text (the title) -/
def lineS : Option Bool → List Seg → Option (Option Bool)
  | σ, [] => some σ
  | σ, .txt s :: rest =>
    match lineC σ s with
    | none => none
    | some σ' => lineS σ' rest
  | _, .head _ _ :: rest => lineS none rest

theorem lineC_safe : ∀ (s : Str) (σ : Option Bool), σ ≠ some true →
    ∃ σ', lineC σ s = some σ' ∧ σ' ≠ some true
  | [], σ, h => ⟨σ, rfl, h⟩
  | c :: cs, σ, h => by
    have hσ : (σ == some true) = false := by
      cases σ with
      | none => rfl
      | some a => cases a <;> simp_all
    simp only [lineC, hσ, Bool.false_eq_true, if_false]
    split
    · exact lineC_safe cs (some false) (by simp)
    · split
      · exact lineC_safe cs σ h
      · exact lineC_safe cs none (by simp)

/-- no line of the document is deleted: the automaton never meets a line of white space with an
    Action token -/
theorem lineS_safe : ∀ (segs : List Seg) (σ : Option Bool), σ ≠ some true →
    ∃ σ', lineS σ segs = some σ' ∧ σ' ≠ some true
  | [], σ, h => ⟨σ, rfl, h⟩
  | .txt s :: rest, σ, h => by
    obtain ⟨σ1, h1, h2⟩ := lineC_safe s σ h
    simp only [lineS, h1]
    exact lineS_safe rest σ1 h2
  | .head _ _ :: rest, σ, _ => by
    simp only [lineS]
    exact lineS_safe rest none (by simp)

/-! ### the scanner at `\name` -/

structure HeadFacts (T : PTables) (st : PState) (name title R : Str) : Prop where
  ne : name ≠ []
  all : name.all macroChar = true
  special : matchSpecial T.toTables ('\\' :: (name ++ '{' :: (title ++ '}' :: R))) = none
  nBegin : ('\\' :: name) ≠ sBegin
  nEnd : ('\\' :: name) ≠ sEnd
  nItem : ('\\' :: name) ≠ sItem
  nVerb : ('\\' :: name) ≠ sVerb
  nAccent : T.toTables.isAccent ('\\' :: name) = false
  nDef : ('\\' :: name) ≠ sDef
  decl : ∃ m, lookupMacro st ('\\' :: name) = some m ∧ headDeclOk m = true
  lb : braceAt T '{' (title ++ '}' :: R) = true
  rb : braceAt T '}' R = true
  text : PlainFootnote.textOk T st title ('}' :: R) = true
  noNl : hasNl title = false
  vis : isBlank title = false

theorem headFacts {T : PTables} {st : PState} {name title R : Str}
    (h : headOk T st name title R = true) : HeadFacts T st name title R := by
  simp only [headOk, Bool.and_eq_true, bne_iff_ne, ne_eq, Bool.not_eq_true',
    Option.isNone_iff_eq_none] at h
  obtain ⟨⟨⟨⟨⟨⟨⟨⟨⟨⟨⟨⟨⟨⟨h1, h2⟩, h3⟩, h4⟩, h5⟩, h6⟩, h7⟩, h8⟩, h9⟩, h10⟩, h11⟩, h12⟩, h13⟩, h14⟩, h15⟩ := h
  refine ⟨by simpa using h1, h2, h3, h4, h5, h6, h7, h8, h9, ?_, h11, h12, h13, h14, h15⟩
  cases hm : lookupMacro st ('\\' :: name) with
  | none => rw [hm] at h10; cases h10
  | some m => rw [hm] at h10; exact ⟨m, rfl, h10⟩

/-- the scanner turns `\name` in front of `{` into one macro token -/
theorem nextToken_name (T : PTables) (st : PState) (src : Str) (pos : Nat) (name title R : Str)
    (h : HeadFacts T st name title R) :
    nextToken T.toTables src pos ('\\' :: (name ++ '{' :: (title ++ '}' :: R)))
      = { tok := cwTok pos name, len := name.length + 1 } := by
  have facts : CwFacts T ({ macros := [] } : PState) name ('{' :: (title ++ '}' :: R)) :=
    ⟨h.ne, takeWhile_append_stop _ _ _ h.all rfl, h.special, h.nBegin, h.nEnd, h.nItem, h.nVerb,
      h.nAccent, h.nDef, rfl⟩
  exact nextToken_cw T _ src pos name _ facts

theorem hdTok_cwTok {T : PTables} {st : PState} {name title R : Str}
    (h : HeadFacts T st name title R) (pos : Nat) : HdTok st (cwTok pos name) := by
  refine ⟨rfl, ?_, h.decl⟩
  have := h.nDef
  simpa [txtIs, cwTok, sDef] using this

theorem scanSteps_step (T : Tables) (src : Str) (fuel pos : Nat) (c : Char) (cs : Str) (s : ScanStep)
    (h : nextToken T src pos (c :: cs) = s) (hl : s.len ≠ 0) :
    scanSteps T src (fuel + 1) pos (c :: cs)
      = (s :: (scanSteps T src fuel (pos + s.len) ((c :: cs).drop s.len)).1,
         (scanSteps T src fuel (pos + s.len) ((c :: cs).drop s.len)).2) := by
  simp only [scanSteps, h]
  rw [if_neg (by simpa using hl)]

/-! ### pieces of copied tokens -/

def tokPieces (toks : List Tok) : List Piece := toks.map Piece.tok

theorem flat_tokPieces (ps : List Piece) : ∀ toks : List Tok, flat (tokPieces toks ++ ps) = toks ++ flat ps
  | [] => rfl
  | t :: ts => by
    show [t] ++ flat (tokPieces ts ++ ps) = _
    rw [flat_tokPieces ps ts]; rfl

theorem outMain_tokPieces (T : PTables) (ps : List Piece) : ∀ toks : List Tok,
    outMain T (tokPieces toks ++ ps) = toks ++ outMain T ps
  | [] => rfl
  | t :: ts => by
    show t :: outMain T (tokPieces ts ++ ps) = _
    rw [outMain_tokPieces T ps ts]; rfl

theorem cost_tokPieces (ps : List Piece) : ∀ toks : List Tok,
    cost (tokPieces toks ++ ps) = toks.length + cost ps
  | [] => by simp [tokPieces]
  | t :: ts => by
    show 1 + cost (tokPieces ts ++ ps) = _
    rw [cost_tokPieces ps ts, List.length_cons]; omega

theorem PiecesOk_tokPieces {T : PTables} {st : PState} (ps : List Piece) (hps : PiecesOk T st ps) :
    ∀ toks : List Tok, (∀ t ∈ toks, CopyTok T st t) → PiecesOk T st (tokPieces toks ++ ps)
  | [], _ => hps
  | t :: ts, h =>
    ⟨h t (List.mem_cons_self ..),
      PiecesOk_tokPieces ps hps ts (fun x hx => h x (List.mem_cons_of_mem _ hx))⟩

/-! ### the scanner loop on a document -/

/-- what the scanner loop yields on a well-formed document that starts at `pos` -/
structure PieceFacts (T : PTables) (st : PState) (pos : Nat) (segs : List Seg) (ps : List Piece) :
    Prop where
  ok : PiecesOk T st ps
  main : getTxtPos (outMain T ps) = ((refOut T pos segs).map (·.1), (refOut T pos segs).map (·.2))
  cost : cost ps ≤ (render segs).length
  lines : ∀ σ tail, tail ≠ [] →
    lineRun σ (((outMain T ps).filter keepIn).map evalTok ++ tail) =
      match lineS σ segs with
      | none => false
      | some σ' => lineRun σ' tail

theorem PieceFacts_nil (T : PTables) (st : PState) (pos : Nat) : PieceFacts T st pos [] [] where
  ok := trivial
  main := rfl
  cost := Nat.le_refl _
  lines := by intro σ tail _; simp [outMain, lineS]

theorem PieceFacts_txt {T : PTables} {st : PState} {pos : Nat} {s : Str} {rest : List Seg}
    {steps : List ScanStep} {ps : List Piece} (B : TextRun T st pos s steps)
    (I : PieceFacts T st (pos + s.length) rest ps) :
    PieceFacts T st pos (.txt s :: rest) (tokPieces (steps.map (·.tok)) ++ ps) where
  ok := PiecesOk_tokPieces ps I.ok _ (by
    intro t ht
    obtain ⟨x, hx, rfl⟩ := List.mem_map.mp ht
    exact (B.ok x hx).2.2)
  main := by
    rw [outMain_tokPieces, getTxtPos_append, B.txt, I.main]
    simp [refOut, posText_fst, posText_snd]
  cost := by
    have h1 := B.len
    have h2 := I.cost
    rw [cost_tokPieces]
    simp only [render, Seg.render, List.length_append, List.length_map]
    omega
  lines := by
    intro σ tail ht
    have hc : ∀ t ∈ steps.map (·.tok), CopyTok T st t := by
      intro t ht
      obtain ⟨x, hx, rfl⟩ := List.mem_map.mp ht
      exact (B.ok x hx).2.2
    rw [outMain_tokPieces, List.filter_append, PlainFootnote.filter_keepIn_copy _ hc, List.map_append,
      List.append_assoc, B.lines σ _ (by simp [ht])]
    simp only [lineS]
    cases lineC σ s with
    | none => rfl
    | some σ' => exact I.lines σ' tail ht

theorem getTxtPos_dotToks (T : PTables) (title : Str) (p : Nat) :
    getTxtPos (dotToks T title p)
      = ((if needsDot T title then [('.', p)] else []).map (·.1),
         (if needsDot T title then [('.', p)] else []).map (·.2)) := by
  unfold dotToks
  split <;> simp [getTxtPos, tokPositions, dotTok, mkTok]

theorem filter_keepIn_dotToks (T : PTables) (title : Str) (p : Nat) :
    (dotToks T title p).filter keepIn = dotToks T title p := by
  unfold dotToks
  split
  · rfl
  · rfl

theorem lineRun_dotToks (T : PTables) (title : Str) (p : Nat) (tail : List LItem) (ht : tail ≠ []) :
    lineRun none ((dotToks T title p).map evalTok ++ tail) = lineRun none tail := by
  unfold dotToks
  split
  · simp only [List.map_cons, List.map_nil, List.cons_append, List.nil_append]
    rw [lineRun_txt (dotTok p) rfl (by decide : hasNl ['.'] = false) none tail ht]
    simp
  · rfl

theorem PieceFacts_head {T : PTables} {st : PState} {pos : Nat} {name title : Str} {rest : List Seg}
    {bsteps : List ScanStep} {ps : List Piece} (k1 k2 : Kind)
    (hk1 : k1 = Kind.special ∨ k1 = Kind.text) (hk2 : k2 = Kind.special ∨ k2 = Kind.text)
    (F : HeadFacts T st name title (render rest))
    (B : TextRun T st (pos + name.length + 2) title bsteps)
    (I : PieceFacts T st (pos + (name.length + title.length + 3)) rest ps) :
    PieceFacts T st pos (.head name title :: rest)
      (.head (cwTok pos name)
             { kind := k1, pos := pos + name.length + 1, txt := ['{'] } (bsteps.map (·.tok))
             { kind := k2, pos := pos + name.length + 2 + title.length, txt := ['}'] } :: ps) := by
  have hc : ∀ t ∈ bsteps.map (·.tok), CopyTok T st t := by
    intro t ht
    obtain ⟨x, hx, rfl⟩ := List.mem_map.mp ht
    exact (B.ok x hx).2.2
  have hne : title ≠ [] := by
    intro e
    have := F.vis
    rw [e] at this
    simp [isBlank] at this
  have hbne : bsteps.map (·.tok) ≠ [] := by
    intro e
    exact hne (B.nil_iff (by simpa using e))
  obtain ⟨l, hl⟩ : ∃ l, (bsteps.map (·.tok)).getLast? = some l := by
    cases hx : (bsteps.map (·.tok)).getLast? with
    | none => rw [List.getLast?_eq_none_iff] at hx; exact absurd hx hbne
    | some a => exact ⟨a, rfl⟩
  have hlp : lastPos (bsteps.map (·.tok)) = pos + name.length + 2 + lastTokOff title := by
    simp only [lastPos, hl, Option.map_some, Option.getD_some]
    exact B.last l hl
  have htxt : (getTxtPos (bsteps.map (·.tok))).1 = title := by rw [B.txt]
  refine ⟨?_, ?_, ?_, ?_⟩
  · exact ⟨hdTok_cwTok F pos, ⟨hk1, rfl⟩, ⟨hk2, rfl⟩, hbne, hc, I.ok⟩
  · simp only [outMain, headOut, refOut]
    rw [List.cons_append, PlainFootnote.getTxtPos_mkAction, getTxtPos_append, getTxtPos_append,
      B.txt, I.main, hlp, getTxtPos_dotToks]
    simp [posText_fst, posText_snd]
  · have h1 := B.len
    have h2 := I.cost
    simp only [cost, render, Seg.render, List.length_append, List.length_cons, List.length_map,
      List.length_nil]
    omega
  · intro σ tail ht
    have hk : keepIn (mkAction pos) = true := rfl
    simp only [outMain, headOut, lineS, cwTok, List.cons_append, List.filter_cons, hk, if_true,
      List.filter_append, PlainFootnote.filter_keepIn_copy _ hc, filter_keepIn_dotToks,
      List.map_cons, List.map_append, List.append_assoc]
    rw [lineRun_action (mkAction pos) rfl σ _ (by simp [ht]),
      B.lines _ _ (by simp [ht]), PlainFootnote.lineC_noNl title _ F.noNl, F.vis]
    simp only [Bool.false_eq_true, if_false]
    rw [lineRun_dotToks T _ _ _ (by simp [ht])]
    exact I.lines none tail ht

theorem render_head (name title : Str) (rest : List Seg) :
    render (.head name title :: rest) = '\\' :: (name ++ '{' :: (title ++ '}' :: render rest)) := by
  simp [render, Seg.render]

/-- the scanner loop on a well-formed document: complete, no diagnostics, the token buffer
    consists of copied tokens and headings -/
theorem scanSteps_segs (T : PTables) (st : PState) (src : Str) :
    ∀ (segs : List Seg) (fuel pos : Nat), (render segs).length ≤ fuel → segsOk T st segs = true →
      ∃ steps ps, scanSteps T.toTables src fuel pos (render segs) = (steps, true) ∧
        (∀ x ∈ steps, x.diag = none ∧ x.extra = []) ∧ steps.map (·.tok) = flat ps ∧
        PieceFacts T st pos segs ps := by
  intro segs
  induction segs with
  | nil =>
    intro fuel pos _ _
    exact ⟨[], [], by simp [render, scanSteps], by simp, rfl, PieceFacts_nil T st pos⟩
  | cons sg rest ih =>
    intro fuel pos hf hok
    cases sg with
    | txt s =>
      simp only [segsOk, Bool.and_eq_true] at hok
      obtain ⟨⟨htext, hhead⟩, hrest⟩ := hok
      have hlen : (render (.txt s :: rest)).length = s.length + (render rest).length := by
        simp [render, Seg.render]
      rw [hlen] at hf
      obtain ⟨bsteps, B, hrun⟩ := PlainFootnote.scanSteps_textrun T st src (render rest) hhead
        s.length s pos fuel (Nat.le_refl _) (by omega) htext
      have hBl := B.len
      obtain ⟨steps', ps', hsc, hok', hflat, I⟩ := ih (fuel - bsteps.length) (pos + s.length)
        (by omega) hrest
      refine ⟨bsteps ++ steps', tokPieces (bsteps.map (·.tok)) ++ ps', ?_, ?_, ?_, PieceFacts_txt B I⟩
      · show scanSteps T.toTables src fuel pos (s ++ render rest) = _
        rw [hrun, hsc]
      · intro x hx
        rcases List.mem_append.mp hx with hx | hx
        · exact ⟨(B.ok x hx).1, (B.ok x hx).2.1⟩
        · exact hok' x hx
      · rw [List.map_append, flat_tokPieces, hflat]
    | head name title =>
      simp only [segsOk, Bool.and_eq_true] at hok
      obtain ⟨hhead, hrest⟩ := hok
      have F := headFacts hhead
      have hlen : (render (.head name title :: rest)).length
          = name.length + title.length + 3 + (render rest).length := by
        rw [render_head]; simp; omega
      rw [hlen] at hf
      rw [render_head]
      have hn1 := nextToken_name T st src pos name title (render rest) F
      obtain ⟨k1, hk1, hn2⟩ := PlainFootnote.nextToken_brace T src (pos + (name.length + 1)) '{'
        (title ++ '}' :: render rest) (Or.inl rfl) F.lb
      obtain ⟨k2, hk2, hn3⟩ := PlainFootnote.nextToken_brace T src
        (pos + name.length + 2 + title.length) '}' (render rest) (Or.inr rfl) F.rb
      obtain ⟨f, rfl⟩ : ∃ f, fuel = f + 2 := ⟨fuel - 2, by omega⟩
      obtain ⟨bsteps, B, hrun⟩ := PlainFootnote.scanSteps_textrun T st src ('}' :: render rest)
        (by simp; decide) title.length title (pos + name.length + 2) f (Nat.le_refl _) (by omega) F.text
      have hBl := B.len
      obtain ⟨g, hg⟩ : ∃ g, f - bsteps.length = g + 1 := ⟨f - bsteps.length - 1, by omega⟩
      obtain ⟨steps', ps', hsc, hok', hflat, I⟩ := ih g (pos + (name.length + title.length + 3))
        (by omega) hrest
      have hpos2 : pos + name.length + 2 + title.length + 1 = pos + (name.length + title.length + 3) := by
        omega
      have hd1 : ('\\' :: (name ++ '{' :: (title ++ '}' :: render rest))).drop (name.length + 1)
          = '{' :: (title ++ '}' :: render rest) := by simp
      have hsteps : scanSteps T.toTables src (f + 2) pos
            ('\\' :: (name ++ '{' :: (title ++ '}' :: render rest)))
          = ({ tok := cwTok pos name, len := name.length + 1 } ::
              { tok := { kind := k1, pos := pos + (name.length + 1), txt := ['{'] }, len := 1 } ::
              (bsteps ++
                { tok := { kind := k2, pos := pos + name.length + 2 + title.length, txt := ['}'] },
                  len := 1 } :: steps'), true) := by
        rw [scanSteps_step T.toTables src (f + 1) pos _ _ _ hn1 (by simp)]
        simp only [hd1]
        rw [scanSteps_step T.toTables src f _ _ _ _ hn2 (by simp)]
        simp only [List.drop_succ_cons, List.drop_zero]
        rw [show pos + (name.length + 1) + 1 = pos + name.length + 2 by omega, hrun, hg]
        have hn3' := scanSteps_step T.toTables src g _ _ _ _ hn3 (by simp)
        simp only [List.drop_succ_cons, List.drop_zero, hpos2, hsc] at hn3'
        rw [hn3']
      refine ⟨_, .head (cwTok pos name) { kind := k1, pos := pos + (name.length + 1), txt := ['{'] }
            (bsteps.map (·.tok))
            { kind := k2, pos := pos + name.length + 2 + title.length, txt := ['}'] } :: ps',
        hsteps, ?_, ?_, ?_⟩
      · intro x hx
        simp only [List.mem_cons, List.mem_append] at hx
        rcases hx with rfl | rfl | hx | rfl | hx
        · exact ⟨rfl, rfl⟩
        · exact ⟨rfl, rfl⟩
        · exact ⟨(B.ok x hx).1, (B.ok x hx).2.1⟩
        · exact ⟨rfl, rfl⟩
        · exact hok' x hx
      · simp [flat, Piece.toks, hflat]
      · have := PieceFacts_head k1 k2 hk1 hk2 F B I
        rw [show pos + name.length + 1 = pos + (name.length + 1) by omega] at this
        exact this

/-! ### `scan`, `parserWork`, `parse`, `tex2txt` -/

theorem PiecesOk.notComment {T : PTables} {st : PState} : ∀ {ps : List Piece}, PiecesOk T st ps →
    ∀ t ∈ flat ps, t.kind ≠ .comment
  | [], _, _, h => by simp [flat] at h
  | .tok t :: rest, hok, x, hx => by
    simp only [flat, Piece.toks, List.singleton_append, List.mem_cons] at hx
    rcases hx with rfl | hx
    · exact hok.1.plain.notComment
    · exact PiecesOk.notComment hok.2 x hx
  | .head hd lb b rb :: rest, hok, x, hx => by
    obtain ⟨h1, h2, h3, _, hb, hrest⟩ := hok
    simp only [flat, Piece.toks, List.cons_append, List.append_assoc, List.mem_cons,
      List.mem_append, List.nil_append] at hx
    rcases hx with rfl | rfl | hx | rfl | hx
    · rw [h1.kind]; simp
    · rcases h2.kind with k | k <;> simp [k]
    · exact (hb x hx).plain.notComment
    · rcases h3.kind with k | k <;> simp [k]
    · exact PiecesOk.notComment hrest x hx

/-- `scan` on a well-formed document: no diagnostics; the token buffer consists of copied tokens
    and headings -/
theorem scan_segs (T : PTables) (st : PState) (segs : List Seg) (hok : segsOk T st segs = true) :
    (scan T.toTables (render segs)).diags = [] ∧
    ∃ ps, (scan T.toTables (render segs)).toks = flat ps ∧ PieceFacts T st 0 segs ps := by
  obtain ⟨steps, ps, hsc, hok', hflat, F⟩ := scanSteps_segs T st (render segs) segs
    (render segs).length 0 (Nat.le_refl _) hok
  have he := flatten_tok_extra steps (fun s hs => (hok' s hs).2)
  have hd := flatten_diag_nil steps (fun s hs => (hok' s hs).1)
  simp only [scan, hsc]
  rw [he, hd]
  exact ⟨rfl, ps, hflat, F⟩

/-- the blank-line removal drops nothing but the Action tokens of the headings: every Action token
    stands on a line with visible text (the title) -/
theorem removeLines_outMain {T : PTables} {st : PState} {segs : List Seg} {ps : List Piece}
    (F : PieceFacts T st 0 segs ps) :
    removeLines (outMain T ps) = some ((outMain T ps).filter keepOut) := by
  apply removeLines_safe_id
  apply lineRun_linesInit
  intro p
  rw [F.lines (some false) [lastItem p] (by simp)]
  obtain ⟨σ', h1, h2⟩ := lineS_safe segs (some false) (by simp)
  rw [h1]
  simp only []
  rw [lineRun_lastItem]
  simpa using h2

theorem segsOk_congr (T : PTables) (st st' : PState) (hm : st'.macros = st.macros)
    (hl : st'.langStack = st.langStack) : ∀ segs : List Seg, segsOk T st' segs = segsOk T st segs
  | [] => rfl
  | .txt s :: rest => by
    simp only [segsOk, PlainFootnote.textOk_congr T st st' hl, segsOk_congr T st st' hm hl rest]
  | .head n t :: rest => by
    simp only [segsOk, headOk, lookupMacro, hm, PlainFootnote.textOk_congr T st st' hl,
      segsOk_congr T st st' hm hl rest]

theorem stateOk_congr (T : PTables) (st st' : PState) (hl : st'.langStack = st.langStack) :
    stateOk T st' = stateOk T st := by
  simp only [stateOk, noEmptyActive_congr T st st' hl, activeChars_congr T st st' hl]

theorem HdTok.congr {st st' : PState} (hm : st'.macros = st.macros) {t : Tok} (h : HdTok st t) :
    HdTok st' t := by
  obtain ⟨m, h1, h2⟩ := h.decl
  exact ⟨h.kind, h.nDef, m, by simpa [lookupMacro, hm] using h1, h2⟩

theorem PiecesOk.congr {T : PTables} {st st' : PState} (hm : st'.macros = st.macros)
    (hl : st'.langStack = st.langStack) : ∀ {ps : List Piece}, PiecesOk T st ps → PiecesOk T st' ps
  | [], _ => trivial
  | .tok _ :: _, h => ⟨h.1.congr hl, PiecesOk.congr hm hl h.2⟩
  | .head _ _ _ _ :: _, h =>
    ⟨h.1.congr hm, h.2.1, h.2.2.1, h.2.2.2.1, fun t ht => (h.2.2.2.2.1 t ht).congr hl,
      PiecesOk.congr hm hl h.2.2.2.2.2⟩

/-- **`parserWork` on a well-formed document.**  The result tokens are `outMain` without the
    Action tokens of the headings; the state is unchanged (no hypothesis on `nest`, `extracted`, …). -/
theorem parserWork_head (T : PTables) (st : PState) (segs : List Seg) (fuel : Nat)
    (hf : (render segs).length + 4 ≤ fuel) (hs : stateOk T st = true)
    (hok : segsOk T st segs = true) :
    ∃ ps, PieceFacts T st 0 segs ps ∧
      parserWork T fuel (render segs) st = .ok ((outMain T ps).filter keepOut, st) := by
  obtain ⟨f, rfl⟩ : ∃ f, fuel = f + 1 := ⟨fuel - 1, by omega⟩
  obtain ⟨hd, ps, hflat, F⟩ := scan_segs T st segs hok
  refine ⟨ps, F, ?_⟩
  have hcost := F.cost
  have hsf' : StateFacts T { st with latex := render segs, nest := st.nest + 1 } :=
    stateFacts ((stateOk_congr T st { st with latex := render segs, nest := st.nest + 1 } rfl).trans hs)
  have hseq := seq_heads T none { st with latex := render segs, nest := st.nest + 1 } hsf' ps f []
    (by omega)
    (PiecesOk.congr (st := st) (st' := { st with latex := render segs, nest := st.nest + 1 }) rfl rfl F.ok)
  rw [List.nil_append, removeLines_outMain F] at hseq
  simp only [] at hseq
  rw [parserWork.eq_2]
  refine (M.bind_ok _ _ _ _ _ (rfl : M.get st = _)).trans ?_
  refine (M.bind_ok _ _ _ _ _ (rfl : M.modify _ _ = _)).trans ?_
  refine (M.bind_ok _ _ _ _ _ (rfl : M.modify _ _ = _)).trans ?_
  refine (M.bind_ok _ _ _ _ _ (rfl : M.get _ = _)).trans ?_
  simp only [hd, List.append_nil]
  rw [skipPass_nocomment _ _ _ (fun t ht' => F.ok.notComment t (by rw [← hflat]; exact ht'))]
  simp only []
  refine (M.bind_ok _ _ _ _ _ (rfl : (pure _ : M (List Tok)) _ = _)).trans ?_
  rw [hflat]
  refine (M.bind_ok _ _ _ _ _ hseq).trans ?_
  refine (M.bind_ok _ _ _ _ _ (rfl : M.modify _ _ = _)).trans ?_
  show Outcome.ok _ = _
  simp only [Nat.add_sub_cancel]

/-- **`parse` on a well-formed document** (no `--defs`, no `--extr`) -/
theorem parse_head (T : PTables) (st : PState) (segs : List Seg) (fuel : Nat)
    (hf : (render segs).length + 4 ≤ fuel) (hs : stateOk T st = true)
    (hok : segsOk T st segs = true) :
    ∃ ps, PieceFacts T st 0 segs ps ∧
      parse T fuel (render segs) [] [] st
        = .ok ((outMain T ps).filter keepOut,
               { st with extracted := [], unknowns := [], foreign := false, nest := 0 }) := by
  have hs' : stateOk T { st with extracted := [], unknowns := [], foreign := false, nest := 0 } = true :=
    (stateOk_congr T st { st with extracted := [], unknowns := [], foreign := false, nest := 0 }
      rfl).trans hs
  have hok' : segsOk T { st with extracted := [], unknowns := [], foreign := false, nest := 0 } segs
      = true :=
    (segsOk_congr T st { st with extracted := [], unknowns := [], foreign := false, nest := 0 } rfl rfl
      segs).trans hok
  obtain ⟨ps, F, hw⟩ := parserWork_head T
    { st with extracted := [], unknowns := [], foreign := false, nest := 0 } segs fuel hf hs' hok'
  refine ⟨ps, ⟨PiecesOk.congr
    (st := { st with extracted := [], unknowns := [], foreign := false, nest := 0 }) (st' := st)
    rfl rfl F.ok, F.main, F.cost, F.lines⟩, ?_⟩
  unfold parse
  simp only [List.isEmpty_nil, Bool.not_true, Bool.false_eq_true, if_false, if_true]
  refine (M.bind_ok _ _ _ _ _ (rfl : M.modify _ _ = _)).trans ?_
  refine (M.bind_ok _ _ _ _ _ (rfl : (pure _ : M (List Tok)) _ = _)).trans ?_
  refine (M.bind_ok _ _ _ _ _ (rfl : M.modify _ _ = _)).trans ?_
  refine (M.bind_ok _ _ _ _ _ hw).trans ?_
  refine (M.bind_ok _ _ _ _ _ (rfl : M.get _ = _)).trans ?_
  show Outcome.ok _ = _
  simp

/-- the result record of `tex2txt` on a well-formed document (no `--defs`, `--extr`, `--repl`,
    `--unkn`; single-language mode) -/
theorem tex2txt_head_record (T : PTables) (o : Options) (fs : FS) (thresh : Nat) (segs : List Seg)
    (fuel : Nat) (st1 : PState)
    (hdefs : o.defs = []) (hextr : o.extr = []) (hrepl : o.hasRepl = false) (hunkn : o.unkn = false)
    (hinit : initParser T fuel o (initialState T o false fs) = .ok ((), st1))
    (hst : stateOk T st1 = true) (hok : segsOk T st1 segs = true)
    (hf : (render segs).length + 4 ≤ fuel) :
    ∃ ps, PieceFacts T st1 0 segs ps ∧
      tex2txt T fuel (render segs) o false thresh fs
        = .ok { toks := (outMain T ps).filter keepOut,
                txt := (refOut T 0 segs).map (·.1),
                pos := ((refOut T 0 segs).map (·.2)).map (· + 1), parts := [], unknowns := [],
                diags := st1.diags, foreign := false } := by
  obtain ⟨ps, F, hp⟩ := parse_head T st1 segs fuel hf hst hok
  refine ⟨ps, F, ?_⟩
  have hrun : (initParser T fuel o >>= fun _ => parse T fuel (render segs) o.defs
        (if o.extr.isEmpty then [] else (splitOn ',' o.extr []).map (fun s => '\\' :: s)))
        (initialState T o false fs)
      = .ok ((outMain T ps).filter keepOut,
             { st1 with extracted := [], unknowns := [], foreign := false, nest := 0 }) := by
    refine (M.bind_ok _ _ _ _ _ hinit).trans ?_
    rw [hdefs, hextr]
    exact hp
  have htp : getTxtPos ((outMain T ps).filter keepOut)
      = ((refOut T 0 segs).map (·.1), (refOut T 0 segs).map (·.2)) := by
    rw [getTxtPos_filter_keepOut, F.main]
  unfold tex2txt
  simp only []
  rw [hrun]
  simp only [hrepl, hunkn, Bool.not_false, if_true, Bool.false_eq_true, if_false, htp]

/-- **C03/C04/C05 at headings, end to end.**  The document is a sequence of inert text segments and
    headings `\name{title}` (`segsOk`: `\name` declared in `st1` with argument codes `*OA` and the
    handler `h_heading`; no star, no optional argument, `{` directly behind the name; the title
    inert, without line break, with a visible character); `st1` is the state after
    `Parser.__init__`, in which neither the empty string nor `.` is an "active character"
    (`stateOk`); no `--defs`, `--extr`, `--repl`, `--unkn`; single-language mode.  With one unit of
    fuel per source character plus four, `tex2txt` succeeds and

    * the output text is the source in which every `\name{title}` is replaced by `title`, or by
      `title.` if the stripped title does not end with a character of `heading_punct` (and
      `heading_punct` is not empty): `outText`.  Nothing else changes; in particular no line is
      deleted (the Action token a heading leaves stands on the line of the title, which has
      visible text), so a heading that stands on a line of its own yields a line of its own;
    * every text and title character maps to its own source position (1-based); the appended full
      stop maps into the heading, to the start of the last scanner token of the title
      (`lastTokOff`: the last character of the title, or the start of the run of white space the
      title ends with): `refOut`;
    * nothing is reported as unknown, no diagnostic is added, the ghost flag `foreign` is unset. -/
theorem tex2txt_heading (T : PTables) (o : Options) (fs : FS) (thresh : Nat) (segs : List Seg)
    (fuel : Nat) (st1 : PState)
    (hdefs : o.defs = []) (hextr : o.extr = []) (hrepl : o.hasRepl = false) (hunkn : o.unkn = false)
    (hinit : initParser T fuel o (initialState T o false fs) = .ok ((), st1))
    (hst : stateOk T st1 = true) (hok : segsOk T st1 segs = true)
    (hf : (render segs).length + 4 ≤ fuel) :
    ∃ r, tex2txt T fuel (render segs) o false thresh fs = .ok r ∧
      r.txt = outText T segs ∧
      r.txt = (refOut T 0 segs).map (·.1) ∧
      r.pos = (refOut T 0 segs).map (fun cp => cp.2 + 1) ∧
      r.unknowns = [] ∧ r.diags = st1.diags ∧ r.foreign = false := by
  obtain ⟨ps, _, ht⟩ := tex2txt_head_record T o fs thresh segs fuel st1 hdefs hextr hrepl hunkn hinit
    hst hok hf
  refine ⟨_, ht, ?_, rfl, ?_, rfl, rfl, rfl⟩
  · exact refOut_fst T 0 segs
  · simp only [List.map_map]; rfl

/-! ### reading `needsDot`: the last visible character of the title -/

/-- the last character of `s` that is no white space -/
def lastVisible (s : Str) : Option Char := s.reverse.find? (fun c => !isSpace c)

theorem find_reverse_dropWhile (s : Str) :
    (s.dropWhile isSpace).reverse.find? (fun c => !isSpace c) = s.reverse.find? (fun c => !isSpace c) := by
  have hsplit : s = s.takeWhile isSpace ++ s.dropWhile isSpace := List.takeWhile_append_dropWhile.symm
  have hnone : (s.takeWhile isSpace).reverse.find? (fun c => !isSpace c) = none := by
    rw [List.find?_eq_none]
    intro c hc
    have := mem_takeWhile_imp isSpace s c (List.mem_reverse.mp hc)
    simp [this]
  conv => rhs; rw [hsplit, List.reverse_append, List.find?_append, hnone, Option.or_none]

/-- `txt.strip()[-1]` is the last visible character (if there is one) -/
theorem strip_getLast? (s : Str) : (strip s).getLast? = lastVisible s := by
  unfold strip rstrip lstrip lastVisible
  rw [List.getLast?_reverse, ← find_reverse_dropWhile s]
  generalize (s.dropWhile isSpace).reverse = l
  induction l with
  | nil => rfl
  | cons a l ih =>
    by_cases h : isSpace a = true
    · simp [h, ih]
    · simp [h]

/-- a full stop is appended iff the title has a visible character, `heading_punct` is not empty
    and the last visible character of the title is not in `heading_punct` -/
theorem needsDot_eq (T : PTables) (title : Str) :
    needsDot T title = match lastVisible title with
      | some c => !T.headingPunct.isEmpty && !T.headingPunct.contains [c]
      | none => false := by
  unfold needsDot
  rw [strip_getLast?]

/-! ### the hypotheses can be met -/

namespace HeadExample
open PlainExample

/-- declarations as in `parameters.py`: `Macro(self, '\\section', args='*OA', repl=hs.h_heading)` -/
def secDecl : MacroDef := { name := "\\section".toList, args := "*OA".toList, handler := .heading }
def titleDecl : MacroDef := { name := "\\title".toList, args := "*OA".toList, handler := .heading }

/-- `PlainExample.tinyT` with two heading macros and `heading_punct = ['!', '?']` -/
def tinyH : PTables :=
  { tinyT with macroDefsPython := [secDecl, titleDecl], headingPunct := [['!'], ['?']] }

/-- the state after `Parser.__init__` -/
def stH : PState := { initialState tinyH oEn false [] with macros := [secDecl, titleDecl] }

theorem initParser_tinyH : initParser tinyH 70 oEn (initialState tinyH oEn false []) = .ok ((), stH) := by
  with_unfolding_all rfl

theorem stH_ok : stateOk tinyH stH = true := by decide

/-- the hypothesis on the declaration, in the form of the fields -/
example : ∃ m, lookupMacro stH "\\section".toList = some m ∧ m.args = "*OA".toList ∧
    m.handler = .heading ∧ m.repl = [] ∧ m.extract = [] ∧ headDeclOk m = true :=
  ⟨secDecl, rfl, rfl, rfl, rfl, rfl, headDeclOk_of_fields _ rfl rfl rfl⟩

/-- `"\section{First title}\nSome text.\n\section{Is it so?}\nMore.\n"` -/
def segs : List Seg :=
  [.head "section".toList "First title".toList, .txt "\nSome text.\n".toList,
   .head "section".toList "Is it so?".toList, .txt "\nMore.\n".toList]

example : render segs
    = "\\section{First title}\nSome text.\n\\section{Is it so?}\nMore.\n".toList := by decide

theorem segs_ok : segsOk tinyH stH segs = true := by decide

theorem segs_ref : refOut tinyH 0 segs
    = ("First title.".toList.zip [9, 10, 11, 12, 13, 14, 15, 16, 17, 18, 19, 19])
      ++ ("\nSome text.\n".toList.zip [21, 22, 23, 24, 25, 26, 27, 28, 29, 30, 31, 32])
      ++ ("Is it so?".toList.zip [42, 43, 44, 45, 46, 47, 48, 49, 50])
      ++ ("\nMore.\n".toList.zip [52, 53, 54, 55, 56, 57, 58]) := by decide

/-- the end-to-end statement applies (59 characters, fuel 70): the first title gets a full stop
    (at the position of its last character), the second one ends with `?` and is kept as it is;
    both stay on lines of their own -/
example : ∃ r, tex2txt tinyH 70 (render segs) oEn false 0 [] = .ok r ∧
    r.txt = "First title.\nSome text.\nIs it so?\nMore.\n".toList ∧
    r.pos = [10, 11, 12, 13, 14, 15, 16, 17, 18, 19, 20, 20,
             22, 23, 24, 25, 26, 27, 28, 29, 30, 31, 32, 33,
             43, 44, 45, 46, 47, 48, 49, 50, 51,
             53, 54, 55, 56, 57, 58, 59] ∧
    r.unknowns = [] ∧ r.diags = [] ∧ r.foreign = false := by
  obtain ⟨r, h1, h2, _, h4, h5, h6, h7⟩ := tex2txt_heading tinyH oEn [] 0 segs 70 stH rfl rfl rfl rfl
    initParser_tinyH stH_ok segs_ok (by decide)
  refine ⟨r, h1, ?_, ?_, h5, h6, h7⟩
  · rw [h2]; decide
  · rw [h4, segs_ref]; decide

/-- the side conditions reject what they should (and accept what they should) -/
example : segsOk tinyH stH [.head "section".toList " ".toList] = false := by decide
example : segsOk tinyH stH [.head "section".toList [] ] = false := by decide
example : segsOk tinyH stH [.head "section".toList "a\nb".toList] = false := by decide
example : segsOk tinyH stH [.head "section".toList "a{b}".toList] = false := by decide
example : segsOk tinyH stH [.head "section".toList "a\\b".toList] = false := by decide
example : segsOk tinyH stH [.head "foo".toList "a".toList] = false := by decide
example : segsOk tinyH stH [.txt "x ".toList, .txt " y".toList] = false := by decide
example : segsOk tinyH stH [.txt "Intro ".toList, .head "title".toList "Foo bar  ".toList,
    .txt " tail\n\n".toList, .head "section".toList "x!".toList] = true := by decide
example : needsDot tinyH "Foo bar  ".toList = true := by decide
example : needsDot tinyH "Done.".toList = true := by decide
example : needsDot tinyH "x! ".toList = false := by decide
example : needsDot { tinyH with headingPunct := [] } "Foo".toList = false := by decide

end HeadExample

/-
  Recorded `#eval`s.

  * tiny tables: `tex2txt tinyH 70 (render segs) oEn false 0 []` gives the text and positions of the
    example above.
  * real tables (`import YalafiVerif.Generated.Tables`, `YalafiVerif.Generated.Init`;
    `T := Generated.theTables`, `st1 := Generated.stDefault`, default options):
    - `lookupMacro st1 "\\section"` = `{ args := "*OA", handler := .heading, repl := [],
      extract := [], defaults := [] }`; `headDeclOk` holds for `\chapter \part \section \subsection
      \subsubsection \title`; `T.headingPunct = ["!", "?"]`; `stateOk T st1 = true`.
    - `"\section{First title}\nSome text.\n\section{Is it so?}\nMore.\n"`: `segsOk`;
      `tex2txt T 3000 …` returns `"First title.\nSome text.\nIs it so?\nMore.\n"` with the positions of
      the example, no unknowns, no diagnostics, `foreign = false`  (= `outText`, `refOut`).
    - `"Intro \subsection{Foo bar  } tail\n\n\title{Done.}\chapter{x!}\n"`: `segsOk`; output
      `"Intro Foo bar  . tail\n\nDone..x!\n"`, positions
      `[1..6, 19..27, 26, 29..35, 43..47, 47, 58, 59, 61]` (= `refOut`): the full stop behind
      `Foo bar  ` sits at the start of the trailing white space, `Done.` gets a second full stop,
      `x!` none.  The Python implementation (`tex2txt.tex2txt`) returns the same text and positions
      for these two inputs.
    - rejected by `segsOk`: `\section{ }` (`"x\n\section{ }\ny"` yields `"x\ny"`, positions
      `[1, 2, 15]`: the line is deleted), `\section{a\nb}`, `\section{a{b}}`, `\textbf{a}` (not a
      heading macro), `\foo{a}` (undeclared).
    - fuel: `parserWork T f "\section{abc}" st1` is `ok` from `f = 10` on (bound: 17).
-/

end PlainHeading
end Yalafi
