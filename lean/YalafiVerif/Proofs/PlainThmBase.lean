/-
  Proofs/PlainThmBase.lean — first half of the development of Proofs/PlainThm.lean (see the header
  there): the environment `thmEnv` that `h_newtheorem` stores, the declaration `ntDeclOk` of
  `\newtheorem`, the tokens `thmToks` / `thmNToks` of `h_theorem(title)`, the expander level
  (`getEnvironmentName_copy`, `collectArgs_opt0`, `collectArgs_optN`, `beginEnvironment_thm0`,
  `beginEnvironment_thmN`, `endEnvironment_thm`, `callHandler_nt`, `collectArgs_nt`,
  `expandMacro_nt`), the steps of the loop (`seq_nt_step`, `seq_beg_step`, `seq_begN_step`,
  `seq_end_step`), the state as a function of the definitions so far (`Env`, `titleOf`, `stOf`,
  `lookupEnv_stOf`) and the loop on token buffers (`Piece`, `PiecesOk`, `outP`, `finalEnv`, `cost`,
  `seq_thm`).
-/
import YalafiVerif.Proofs.PlainRefBase
import YalafiVerif.Proofs.PlainHeading
import YalafiVerif.Proofs.PlainItem
namespace Yalafi
namespace PlainThm

open M
open PlainMacro
open PlainFootnote (CopyTok seq_copy_prefix lastTokOff)
open PlainRef (chTok collectArg_bracket argBuffer_bracket lastPos lastPos_of_getLast StateFacts
  plain_fixtext not_active_long)
open PlainItem (begTok endTok skipSpace_sp skippedLangs_sp)

/-! ### the declarations -/

/-- the environment `h_newtheorem` stores: one optional argument, the handler `h_theorem(title)` -/
def thmEnv (name title : Str) : MacroDef := { name := name, args := ['O'], handler := .theorem title }

/-- the declaration of `\newtheorem` the development relies on (as in the real tables):
    argument codes `AOAO`, the handler `h_newtheorem`, no extraction, no default values -/
def ntDeclOk (m : MacroDef) : Bool :=
  m.args == ['A', 'O', 'A', 'O'] && m.handler == .newtheorem && m.extract.isEmpty &&
  m.defaults.isEmpty

def ntName : Str := "newtheorem".toList

def NtOk (st : PState) : Prop := ∃ m, lookupMacro st ('\\' :: ntName) = some m ∧ ntDeclOk m = true

def ntOk (st : PState) : Bool :=
  match lookupMacro st ('\\' :: ntName) with
  | some m => ntDeclOk m
  | none => false

theorem NtOk_of_ntOk {st : PState} (h : ntOk st = true) : NtOk st := by
  unfold ntOk at h
  split at h
  · exact ⟨_, ‹_›, h⟩
  · cases h

structure NtDecl (m : MacroDef) : Prop where
  args : m.args = ['A', 'O', 'A', 'O']
  handler : m.handler = .newtheorem
  extract : m.extract = []
  defaults : m.defaults = []

theorem ntDecl {m : MacroDef} (h : ntDeclOk m = true) : NtDecl m := by
  simp only [ntDeclOk, Bool.and_eq_true, beq_iff_eq, List.isEmpty_iff] at h
  exact ⟨h.1.1.1, h.1.1.2, h.1.2, h.2⟩

/-- the text of a token list -/
def txtOf (ts : List Tok) : Str := (getTxtPos ts).1

/-- the tokens of a name or a title: copied by the loop, not empty -/
def NameToks (T : PTables) (st : PState) (nt : List Tok) : Prop :=
  nt ≠ [] ∧ ∀ t ∈ nt, CopyTok T st t

theorem NameToks.congr {T : PTables} {st st' : PState} (hl : st'.langStack = st.langStack)
    {nt : List Tok} (h : NameToks T st nt) : NameToks T st' nt :=
  ⟨h.1, fun t ht => (h.2 t ht).congr hl⟩

/-- the head of the buffer behind skipped white space: no further white space, no `[` -/
def HeadOk (rest : Buf) : Prop :=
  (∀ t, rest.head? = some t → isSpaceTok t = false) ∧ (∀ t, rest.head? = some t → txtIs t "[" = false)

/-- white-space tokens (what `skip_space` passes over) -/
def SpToks (sp : List Tok) : Prop := ∀ t ∈ sp, t.kind = .space

theorem SpToks.skip {sp : List Tok} (h : SpToks sp) :
    ∀ t ∈ sp, isSpaceTok t = true ∧ isLangK t = false := by
  intro t ht
  simp [isSpaceTok, isLangK, h t ht]

/-! ### the tokens the handler `h_theorem(title)` returns -/

def parTok (p : Nat) : Tok := mkFix .par p [nl, nl]

/-- without a note: `Title`, `.`, line break — all at the position of `\begin` -/
def thmToks (p : Nat) (title : Str) : List Tok :=
  [mkFix .text p title, mkFix .text p ['.'], mkFix .space p [nl]]

/-- with a note: `Title`, blank, `(` at the position of `\begin`, the note tokens, `).` and the
    line break at the position of the last note token -/
def thmNToks (p : Nat) (title : Str) (note : List Tok) : List Tok :=
  mkFix .text p title :: mkFix .space p [' '] :: mkFix .text p ['('] ::
    (note ++ [mkFix .text (lastPos note) [')', '.'], mkFix .space (lastPos note) [nl]])

theorem callHandler_thm0 (T : PTables) (fuel : Nat) (buf : Buf) (mac : MacroDef) (title : Str)
    (pos : Nat) (st : PState) :
    callHandler T (fuel + 1) (.theorem title) buf mac [[]] pos st = .ok (thmToks pos title, st) := by
  simp only [callHandler]
  rfl

theorem callHandler_thmN (T : PTables) (fuel : Nat) (buf : Buf) (mac : MacroDef) (title : Str)
    (note : List Tok) (hne : note ≠ []) (pos : Nat) (st : PState) :
    callHandler T (fuel + 1) (.theorem title) buf mac [note] pos st
      = .ok (thmNToks pos title note, st) := by
  obtain ⟨l, hl⟩ : ∃ l, note.getLast? = some l := by
    cases h : note.getLast? with
    | none => exact absurd (List.getLast?_eq_none_iff.mp h) hne
    | some l => exact ⟨l, rfl⟩
  simp only [callHandler]
  refine (M.bind_ok _ _ _ _ _ (rfl : (pure note : M (List Tok)) st = _)).trans ?_
  simp only [hl, thmNToks, lastPos_of_getLast hl]
  show Outcome.ok _ = _
  simp

/-! ### `getEnvironmentName` -/

theorem getEnvironmentName_copy (T : PTables) (fuel : Nat) (p q : Nat) (nt : List Tok) (rest : Buf)
    (tok : Tok) (st : PState) (h : NameToks T st nt) (hf : nt.length + 2 ≤ fuel) :
    getEnvironmentName T (fuel + 1) (lbr p :: (nt ++ rbr q :: rest)) tok st
      = .ok ((txtOf nt, rest), st) := by
  rw [getEnvironmentName.eq_2]
  refine (M.bind_ok _ _ _ _ _ (argBuffer_brace T.toTables p q nt rest tok.pos st
    (fun t ht => plainTok_noBrace (h.2 t ht).plain) h.1)).trans ?_
  refine (M.bind_ok _ _ _ _ _ (PlainHeading.getTextExpanded_copy T st nt fuel h.2 hf)).trans ?_
  rfl

/-! ### argument collection for the environment -/

/-- `collectArgs` for `O` without `[note]`: the white space is skipped, the empty default stored -/
theorem collectArgs_opt0 (T : PTables) (mac : MacroDef) (hd : mac.defaults = []) (sp rest : Buf)
    (start : Nat) (st : PState) (hsp : SpToks sp) (hh : HeadOk rest) :
    collectArgs T mac ['O'] 0 (sp ++ rest) start {} st
      = .ok (({ args := [[]], extr := [[]], langs := [] }, rest), st) := by
  have h1 := skipSpace_sp sp rest (fun t ht => (hsp.skip t ht).1) hh.1
  have h2 := skippedLangs_sp sp rest hsp.skip hh.1
  rw [collectArgs]
  simp only [h1, h2, show ('O' == '*') = false by decide, beq_self_eq_true, if_true,
    Bool.false_eq_true, if_false, List.append_nil, hd, List.getElem?_nil]
  rw [collectArgs]
  cases hhd : rest.head? with
  | none => rfl
  | some t =>
    have hnv : txtIsNV t "[" = false := by
      have := hh.2 t hhd
      simp only [txtIs] at this
      simp only [txtIsNV, this, Bool.and_false]
    simp only [hnv, Bool.false_eq_true, if_false]
    rfl

/-- `collectArgs` for `O` on `[note]` -/
theorem collectArgs_optN (T : PTables) (mac : MacroDef) (b1 b2 : Nat) (note : List Tok)
    (hnote : ∀ t ∈ note, NoBrace t ∧ t.txt ≠ [']']) (hne : note ≠ []) (rest : Buf) (start : Nat)
    (st : PState) :
    collectArgs T mac ['O'] 0 (chTok b1 '[' :: (note ++ chTok b2 ']' :: rest)) start {} st
      = .ok (({ args := [note], extr := [note], langs := [] }, rest), st) := by
  have hb : isSpaceTok (chTok b1 '[') = false := rfl
  have hn := argBuffer_bracket T.toTables b1 b2 note rest b1 st hnote hne
  rw [collectArgs]
  simp only [skippedLangs_cons_of_not _ _ hb, skipSpace_cons_of_not _ _ hb, List.append_nil,
    List.head?_cons, show ('O' == '*') = false by decide, beq_self_eq_true, if_true,
    show txtIsNV (chTok b1 '[') "[" = true by rfl]
  refine (M.bind_ok _ _ _ _ _ hn).trans ?_
  rw [collectArgs]
  rfl

theorem expandArguments_thm0 (T : PTables) (fuel : Nat) (name title : Str) (sp rest : Buf)
    (start : Nat) (st : PState) (hsp : SpToks sp) (hh : HeadOk rest) :
    expandArguments T (fuel + 2) (sp ++ rest) (thmEnv name title) start st
      = .ok ((mkAction start :: thmToks start title, rest), st) := by
  rw [expandArguments.eq_2]
  refine (M.bind_ok _ _ _ _ _ (collectArgs_opt0 T (thmEnv name title) rfl sp rest start st hsp hh)).trans ?_
  simp only [thmEnv, List.isEmpty_nil, Bool.not_true, Bool.false_eq_true, if_false,
    show (Handler.theorem title != Handler.none) = true by simp, if_true]
  refine (M.bind_ok _ _ _ _ _ (callHandler_thm0 T fuel rest _ title start st)).trans ?_
  show Outcome.ok _ = _
  simp

theorem expandArguments_thmN (T : PTables) (fuel : Nat) (name title : Str) (b1 b2 : Nat)
    (note : List Tok) (hnote : ∀ t ∈ note, NoBrace t ∧ t.txt ≠ [']']) (hne : note ≠ [])
    (rest : Buf) (start : Nat) (st : PState) :
    expandArguments T (fuel + 2) (chTok b1 '[' :: (note ++ chTok b2 ']' :: rest))
        (thmEnv name title) start st
      = .ok ((mkAction start :: thmNToks start title note, rest), st) := by
  rw [expandArguments.eq_2]
  refine (M.bind_ok _ _ _ _ _ (collectArgs_optN T (thmEnv name title) b1 b2 note hnote hne rest
    start st)).trans ?_
  simp only [thmEnv, List.isEmpty_nil, Bool.not_true, Bool.false_eq_true, if_false,
    show (Handler.theorem title != Handler.none) = true by simp, if_true]
  refine (M.bind_ok _ _ _ _ _ (callHandler_thmN T fuel rest _ title note hne start st)).trans ?_
  show Outcome.ok _ = _
  simp

/-! ### `beginEnvironment`, `endEnvironment` -/

/-- **`\begin{name}` of a theorem environment, no note**: paragraph break, Action token, title,
    full stop, line break; the white space behind `}` is skipped; the state is unchanged -/
theorem beginEnvironment_thm0 (T : PTables) (fuel : Nat) (p q : Nat) (nt : List Tok) (sp rest : Buf)
    (tok : Tok) (st : PState) (title : Str) (h : NameToks T st nt) (hf : nt.length + 2 ≤ fuel)
    (hl : lookupEnv st (txtOf nt) = some (thmEnv (txtOf nt) title)) (hsp : SpToks sp)
    (hh : HeadOk rest) :
    beginEnvironment T (fuel + 2) (lbr p :: (nt ++ rbr q :: (sp ++ rest))) tok false st
      = .ok ((parTok tok.pos :: mkAction tok.pos :: thmToks tok.pos title, rest), st) := by
  obtain ⟨f, rfl⟩ : ∃ f, fuel = f + 1 := ⟨fuel - 1, by omega⟩
  rw [beginEnvironment.eq_2]
  refine (M.bind_ok _ _ _ _ _ (getEnvironmentName_copy T (f + 1) p q nt (sp ++ rest) tok st h hf)).trans ?_
  refine (M.bind_ok _ _ _ _ _ (rfl : M.get st = _)).trans ?_
  simp only [hl]
  have e1 : (thmEnv (txtOf nt) title).items = none := rfl
  simp only [e1]
  refine (M.bind_ok _ _ _ _ _ (expandArguments_thm0 T f (txtOf nt) title sp rest tok.pos st hsp hh)).trans ?_
  show Outcome.ok _ = _
  simp [thmEnv, parTok]

/-- **`\begin{name}[note]` of a theorem environment** -/
theorem beginEnvironment_thmN (T : PTables) (fuel : Nat) (p q b1 b2 : Nat) (nt note : List Tok)
    (rest : Buf) (tok : Tok) (st : PState) (title : Str) (h : NameToks T st nt)
    (hf : nt.length + 2 ≤ fuel)
    (hl : lookupEnv st (txtOf nt) = some (thmEnv (txtOf nt) title))
    (hnote : ∀ t ∈ note, NoBrace t ∧ t.txt ≠ [']']) (hne : note ≠ []) :
    beginEnvironment T (fuel + 2)
        (lbr p :: (nt ++ rbr q :: chTok b1 '[' :: (note ++ chTok b2 ']' :: rest))) tok false st
      = .ok ((parTok tok.pos :: mkAction tok.pos :: thmNToks tok.pos title note, rest), st) := by
  obtain ⟨f, rfl⟩ : ∃ f, fuel = f + 1 := ⟨fuel - 1, by omega⟩
  rw [beginEnvironment.eq_2]
  refine (M.bind_ok _ _ _ _ _ (getEnvironmentName_copy T (f + 1) p q nt _ tok st h hf)).trans ?_
  refine (M.bind_ok _ _ _ _ _ (rfl : M.get st = _)).trans ?_
  simp only [hl]
  have e1 : (thmEnv (txtOf nt) title).items = none := rfl
  simp only [e1]
  refine (M.bind_ok _ _ _ _ _ (expandArguments_thmN T f (txtOf nt) title b1 b2 note hnote hne rest
    tok.pos st)).trans ?_
  show Outcome.ok _ = _
  simp [thmEnv, parTok]

/-- **`\end{name}` of a theorem environment**: a paragraph break; the state is unchanged -/
theorem endEnvironment_thm (T : PTables) (fuel : Nat) (p q : Nat) (nt : List Tok) (rest : Buf)
    (tok : Tok) (st : PState) (title : Str) (h : NameToks T st nt) (hf : nt.length + 2 ≤ fuel)
    (hl : lookupEnv st (txtOf nt) = some (thmEnv (txtOf nt) title)) :
    endEnvironment T (fuel + 2) (lbr p :: (nt ++ rbr q :: rest)) tok none st
      = .ok ((([parTok tok.pos], false), rest), st) := by
  rw [endEnvironment.eq_2]
  refine (M.bind_ok _ _ _ _ _ (getEnvironmentName_copy T fuel p q nt rest tok st h hf)).trans ?_
  refine (M.bind_ok _ _ _ _ _ (rfl : M.get st = _)).trans ?_
  simp only [hl]
  show Outcome.ok _ = _
  simp [thmEnv, parTok]

/-! ### `\newtheorem` -/

/-- the state after `\newtheorem{name}{title}` -/
def defSt (st : PState) (name title : Str) : PState :=
  { st with envs := setMacro st.envs (thmEnv name title) }

theorem callHandler_nt (T : PTables) (fuel : Nat) (buf : Buf) (mac : MacroDef)
    (nt a1 tt a3 : List Tok) (pos : Nat) (st : PState) (hn : NameToks T st nt)
    (ht : NameToks T st tt) (hf : nt.length + 2 ≤ fuel) (hf2 : tt.length + 2 ≤ fuel) :
    callHandler T (fuel + 1) .newtheorem buf mac [nt, a1, tt, a3] pos st
      = .ok ([], defSt st (txtOf nt) (txtOf tt)) := by
  simp only [callHandler]
  refine (M.bind_ok _ _ _ _ _ (rfl : (pure nt : M (List Tok)) st = _)).trans ?_
  refine (M.bind_ok _ _ _ _ _ (rfl : (pure tt : M (List Tok)) st = _)).trans ?_
  refine (M.bind_ok _ _ _ _ _ (PlainHeading.getTextExpanded_copy T st nt fuel hn.2 hf)).trans ?_
  refine (M.bind_ok _ _ _ _ _ (PlainHeading.getTextExpanded_copy T st tt fuel ht.2 hf2)).trans ?_
  rfl

/-- `collectArgs` on `{name}{title}` and white space for the signature `AOAO` -/
theorem collectArgs_nt (T : PTables) (mac : MacroDef) (hd : mac.defaults = [])
    (q1 q2 q3 q4 : Nat) (nt tt : List Tok) (hnt : ∀ t ∈ nt, NoBrace t) (hnne : nt ≠ [])
    (htt : ∀ t ∈ tt, NoBrace t) (htne : tt ≠ []) (sp rest : Buf) (hsp : SpToks sp)
    (hh : HeadOk rest) (start : Nat) (st : PState) :
    collectArgs T mac ['A', 'O', 'A', 'O'] 0
        (lbr q1 :: (nt ++ rbr q2 :: lbr q3 :: (tt ++ rbr q4 :: (sp ++ rest)))) start {} st
      = .ok (({ args := [nt, [], tt, []], extr := [nt, [], tt, []], langs := [] }, rest), st) := by
  have hl : ∀ p, isSpaceTok (lbr p) = false := fun _ => rfl
  have a1 := argBuffer_brace T.toTables q1 q2 nt (lbr q3 :: (tt ++ rbr q4 :: (sp ++ rest))) q1 st
    hnt hnne
  have a2 := argBuffer_brace T.toTables q3 q4 tt (sp ++ rest) q3 st htt htne
  have h1 := skipSpace_sp sp rest (fun t ht => (hsp.skip t ht).1) hh.1
  have h2 := skippedLangs_sp sp rest hsp.skip hh.1
  -- 'A'
  rw [collectArgs]
  simp only [skippedLangs_cons_of_not _ _ (hl q1), skipSpace_cons_of_not _ _ (hl q1), List.append_nil,
    List.head?_cons, show ('A' == '*') = false by decide, show ('A' == 'O') = false by decide,
    beq_self_eq_true, if_true, show txtIsNV (lbr q1) "}" = false by rfl, Bool.false_eq_true, if_false]
  refine (M.bind_ok _ _ _ _ _ a1).trans ?_
  -- 'O'
  rw [collectArgs]
  simp only [skippedLangs_cons_of_not _ _ (hl q3), skipSpace_cons_of_not _ _ (hl q3), List.append_nil,
    List.head?_cons, show ('O' == '*') = false by decide, beq_self_eq_true, if_true,
    show txtIsNV (lbr q3) "[" = false by rfl, Bool.false_eq_true, if_false, hd, List.getElem?_nil]
  -- 'A'
  rw [collectArgs]
  simp only [skippedLangs_cons_of_not _ _ (hl q3), skipSpace_cons_of_not _ _ (hl q3), List.append_nil,
    List.head?_cons, show ('A' == '*') = false by decide, show ('A' == 'O') = false by decide,
    beq_self_eq_true, if_true, show txtIsNV (lbr q3) "}" = false by rfl, Bool.false_eq_true, if_false]
  refine (M.bind_ok _ _ _ _ _ a2).trans ?_
  -- 'O'
  rw [collectArgs]
  simp only [h1, h2, show ('O' == '*') = false by decide, beq_self_eq_true, if_true,
    Bool.false_eq_true, if_false, List.append_nil, hd, List.getElem?_nil]
  rw [collectArgs]
  cases hhd : rest.head? with
  | none => rfl
  | some t =>
    have hnv : txtIsNV t "[" = false := by
      have := hh.2 t hhd
      simp only [txtIs] at this
      simp only [txtIsNV, this, Bool.and_false]
    simp only [hnv, Bool.false_eq_true, if_false]
    rfl

/-- **the definition step of `expandMacro`**: `\newtheorem` followed by `{name}{title}` and white
    space stores the environment, leaves an Action token at the position of `\newtheorem` and the
    buffer behind the white space -/
theorem expandMacro_nt (T : PTables) (fuel : Nat) (mac : MacroDef) (hmac : NtDecl mac)
    (q1 q2 q3 q4 : Nat) (nt tt : List Tok) (sp rest : Buf) (tok : Tok) (st : PState)
    (hn : NameToks T st nt) (ht : NameToks T st tt) (hsp : SpToks sp) (hh : HeadOk rest)
    (hl : lookupMacro st tok.txt = some mac)
    (hf : nt.length + 2 ≤ fuel) (hf2 : tt.length + 2 ≤ fuel) :
    expandMacro T (fuel + 3)
        (lbr q1 :: (nt ++ rbr q2 :: lbr q3 :: (tt ++ rbr q4 :: (sp ++ rest)))) tok false st
      = .ok (([mkAction tok.pos], rest), defSt st (txtOf nt) (txtOf tt)) := by
  rw [expandMacro.eq_2]
  refine (M.bind_ok _ _ _ _ _ (rfl : M.get st = _)).trans ?_
  simp only [hl, skipSpaceStopLang_cons_of_not _ _ (rfl : isSpaceTok (lbr q1) = false)]
  rw [expandArguments.eq_2, hmac.args]
  refine (M.bind_ok _ _ _ _ _ (collectArgs_nt T mac hmac.defaults q1 q2 q3 q4 nt tt
    (fun t h => plainTok_noBrace (hn.2 t h).plain) hn.1
    (fun t h => plainTok_noBrace (ht.2 t h).plain) ht.1 sp rest hsp hh tok.pos st)).trans ?_
  simp only [hmac.extract, hmac.handler, List.isEmpty_nil, Bool.not_true, Bool.false_eq_true, if_false,
    show (Handler.newtheorem != Handler.none) = true by decide, if_true]
  refine (M.bind_ok _ _ _ _ _ (callHandler_nt T fuel rest mac nt [] tt [] tok.pos st hn ht hf hf2)).trans ?_
  show Outcome.ok _ = _
  simp

/-! ### steps of `expandSequence` -/

theorem plain_parTok (p : Nat) : PlainTok (parTok p) :=
  plain_fixtext p _ (by decide) (by decide) (by decide) (by decide) (by decide) (by decide)
    (by decide) _ (Or.inr (Or.inr rfl)) true

theorem plain_dot (p : Nat) : PlainTok (mkFix .text p ['.']) :=
  plain_fixtext p _ (by decide) (by decide) (by decide) (by decide) (by decide) (by decide)
    (by decide) _ (Or.inl rfl) true

theorem plain_nlTok (p : Nat) : PlainTok (mkFix .space p [nl]) :=
  plain_fixtext p _ (by decide) (by decide) (by decide) (by decide) (by decide) (by decide)
    (by decide) _ (Or.inr (Or.inl rfl)) true

theorem plain_spTok (p : Nat) : PlainTok (mkFix .space p [' ']) :=
  plain_fixtext p _ (by decide) (by decide) (by decide) (by decide) (by decide) (by decide)
    (by decide) _ (Or.inr (Or.inl rfl)) true

theorem plain_lpar (p : Nat) : PlainTok (mkFix .text p ['(']) :=
  plain_fixtext p _ (by decide) (by decide) (by decide) (by decide) (by decide) (by decide)
    (by decide) _ (Or.inl rfl) true

theorem plain_rpar (p : Nat) : PlainTok (mkFix .text p [')', '.']) :=
  plain_fixtext p _ (by decide) (by decide) (by decide) (by decide) (by decide) (by decide)
    (by decide) _ (Or.inl rfl) true

/-- the conditions on the initialised parser state: the empty string, the blank, the line break,
    the paragraph break and `.` `(` are no "active characters" of the language settings (else the
    generated tokens would go to `expand_short_macro`) -/
def stateOk (T : PTables) (st : PState) : Bool :=
  noEmptyActive T st && !(activeChars T st).contains [' '] && !(activeChars T st).contains [nl] &&
  !(activeChars T st).contains ['.'] && !(activeChars T st).contains ['('] && ntOk st

structure StFacts (T : PTables) (st : PState) : Prop where
  ne : noEmptyActive T st = true
  sp : (activeChars T st).contains [' '] = false
  nl : (activeChars T st).contains [Yalafi.nl] = false
  dot : (activeChars T st).contains ['.'] = false
  lp : (activeChars T st).contains ['('] = false

theorem stFacts {T : PTables} {st : PState} (h : stateOk T st = true) : StFacts T st ∧ NtOk st := by
  simp only [stateOk, Bool.and_eq_true, Bool.not_eq_true'] at h
  obtain ⟨⟨⟨⟨⟨h1, h2⟩, h3⟩, h4⟩, h5⟩, h6⟩ := h
  exact ⟨⟨h1, h2, h3, h4, h5⟩, NtOk_of_ntOk h6⟩

theorem StFacts.congr {T : PTables} {st st' : PState} (hl : st'.langStack = st.langStack)
    (h : StFacts T st) : StFacts T st' :=
  ⟨(noEmptyActive_congr T st st' hl).trans h.ne, by rw [activeChars_congr T st st' hl]; exact h.sp,
   by rw [activeChars_congr T st st' hl]; exact h.nl,
   by rw [activeChars_congr T st st' hl]; exact h.dot,
   by rw [activeChars_congr T st st' hl]; exact h.lp⟩

/-- a title the loop copies as one generated text token: not empty, no line break, the first
    character no structural character, never "active" -/
structure TitleOk (T : PTables) (st : PState) (title : Str) : Prop where
  plain : ∀ p, PlainTok (mkFix .text p title)
  nact : (activeChars T st).contains title = false
  nonl : hasNl title = false

theorem TitleOk.congr {T : PTables} {st st' : PState} (hl : st'.langStack = st.langStack)
    {title : Str} (h : TitleOk T st title) : TitleOk T st' title :=
  ⟨h.plain, by rw [activeChars_congr T st st' hl]; exact h.nact, h.nonl⟩

/-- **`\newtheorem{name}{title}` in the loop**: the environment is stored, an Action token is
    left, the white space behind the closing brace is skipped -/
theorem seq_nt_step (T : PTables) (fuel : Nat) (p q1 q2 q3 q4 : Nat) (nt tt : List Tok)
    (sp rest : Buf) (envStop : Option Str) (out : List Tok) (st : PState)
    (hnt : NtOk st) (S : StFacts T st)
    (hn : NameToks T st nt) (ht : NameToks T st tt) (hsp : SpToks sp) (hh : HeadOk rest)
    (hf : nt.length + tt.length + 5 ≤ fuel) :
    expandSequence T (fuel + 1)
        (cwTok p ntName :: lbr q1 :: (nt ++ rbr q2 :: lbr q3 :: (tt ++ rbr q4 :: (sp ++ rest))))
        envStop out st
      = expandSequence T (fuel - 1) rest envStop (out ++ [mkAction p])
          (defSt st (txtOf nt) (txtOf tt)) := by
  obtain ⟨m, hm, hmd⟩ := hnt
  obtain ⟨f, rfl⟩ : ∃ f, fuel = f + 3 := ⟨fuel - 3, by omega⟩
  rw [PlainRef.cw_head T _ p ntName _ envStop out st (by decide)]
  refine (M.bind_ok _ _ _ _ _ (expandMacro_nt T f m (ntDecl hmd) q1 q2 q3 q4 nt tt sp rest
    (cwTok p ntName) st hn ht hsp hh hm (by omega) (by omega))).trans ?_
  simp only [List.cons_append, List.nil_append, show (cwTok p ntName).pos = p from rfl]
  rw [show f + 3 = (f + 2) + 1 by omega,
    seq_action_step T _ p _ envStop out (defSt st (txtOf nt) (txtOf tt))
      ((noEmptyActive_congr T st _ rfl).trans S.ne)]
  rfl

/-- **`\begin{name}` of a theorem environment in the loop, no note** -/
theorem seq_beg_step (T : PTables) (fuel : Nat) (p q1 q2 : Nat) (nt : List Tok) (sp rest : Buf)
    (envStop : Option Str) (out : List Tok) (st : PState) (title : Str)
    (S : StFacts T st) (h : NameToks T st nt)
    (hl : lookupEnv st (txtOf nt) = some (thmEnv (txtOf nt) title)) (hsp : SpToks sp)
    (hh : HeadOk rest) (ht : TitleOk T st title) (hf : nt.length + 5 ≤ fuel) :
    expandSequence T (fuel + 1) (begTok p :: lbr q1 :: (nt ++ rbr q2 :: (sp ++ rest))) envStop out st
      = expandSequence T (fuel - 5) rest envStop
          (out ++ parTok p :: mkAction p :: thmToks p title) st := by
  obtain ⟨f, rfl⟩ : ∃ f, fuel = f + 5 := ⟨fuel - 5, by omega⟩
  rw [expandSequence.eq_3]
  show M.bind' M.get _ st = _
  simp only [M.bind', M.get]
  have hk : (begTok p).kind = .xbegin := rfl
  simp only [hk, beq_self_eq_true, if_true]
  refine (M.bind_ok _ _ _ _ _ (beginEnvironment_thm0 T (f + 3) q1 q2 nt sp rest (begTok p) st title h
    (by omega) hl hsp hh)).trans ?_
  show expandSequence T (f + 4 + 1)
    (parTok p :: mkAction p :: (thmToks p title ++ rest)) envStop out st = _
  simp only [thmToks, List.cons_append, List.nil_append]
  rw [seq_plain_step T _ _ _ envStop _ st (plain_parTok p)
      (Or.inl (not_active_long T st _ (by simp [parTok, mkFix]))),
    seq_action_step T _ p _ envStop _ st S.ne,
    seq_plain_step T _ _ _ envStop _ st (ht.plain p) (Or.inl ht.nact),
    seq_plain_step T _ _ _ envStop _ st (plain_dot p) (Or.inl S.dot),
    seq_plain_step T _ _ _ envStop _ st (plain_nlTok p) (Or.inl S.nl)]
  simp

/-- **`\begin{name}[note]` of a theorem environment in the loop** -/
theorem seq_begN_step (T : PTables) (fuel : Nat) (p q1 q2 b1 b2 : Nat) (nt note : List Tok)
    (rest : Buf) (envStop : Option Str) (out : List Tok) (st : PState) (title : Str)
    (S : StFacts T st) (h : NameToks T st nt)
    (hl : lookupEnv st (txtOf nt) = some (thmEnv (txtOf nt) title))
    (hnote : ∀ t ∈ note, CopyTok T st t ∧ t.txt ≠ [']']) (hne : note ≠ [])
    (ht : TitleOk T st title) (hf : nt.length + note.length + 7 ≤ fuel) :
    expandSequence T (fuel + 1)
        (begTok p :: lbr q1 :: (nt ++ rbr q2 :: chTok b1 '[' :: (note ++ chTok b2 ']' :: rest)))
        envStop out st
      = expandSequence T (fuel - (7 + note.length)) rest envStop
          (out ++ parTok p :: mkAction p :: thmNToks p title note) st := by
  obtain ⟨f, rfl⟩ : ∃ f, fuel = f + (7 + note.length) := ⟨fuel - (7 + note.length), by omega⟩
  rw [expandSequence.eq_3]
  show M.bind' M.get _ st = _
  simp only [M.bind', M.get]
  have hk : (begTok p).kind = .xbegin := rfl
  simp only [hk, beq_self_eq_true, if_true]
  have hfe : f + (7 + note.length) = (f + 5 + note.length) + 2 := by omega
  rw [hfe]
  refine (M.bind_ok _ _ _ _ _ (beginEnvironment_thmN T (f + 5 + note.length) q1 q2 b1 b2 nt note rest
    (begTok p) st title h (by omega) hl
    (fun t ht => ⟨plainTok_noBrace (hnote t ht).1.plain, (hnote t ht).2⟩) hne)).trans ?_
  show expandSequence T (f + 5 + note.length + 2)
    (parTok p :: mkAction p :: (thmNToks p title note ++ rest)) envStop out st = _
  simp only [thmNToks, List.cons_append, List.nil_append, List.append_assoc]
  rw [show f + 5 + note.length + 2 = (f + 1 + 1 + note.length + 1 + 1 + 1 + 1) + 1 by omega,
    seq_plain_step T _ _ _ envStop _ st (plain_parTok p)
      (Or.inl (not_active_long T st _ (by simp [parTok, mkFix]))),
    seq_action_step T _ p _ envStop _ st S.ne,
    seq_plain_step T _ _ _ envStop _ st (ht.plain p) (Or.inl ht.nact),
    seq_plain_step T _ _ _ envStop _ st (plain_spTok p) (Or.inl S.sp),
    seq_plain_step T _ _ _ envStop _ st (plain_lpar p) (Or.inl S.lp),
    seq_copy_prefix T st envStop _ note _ _ (fun t ht => (hnote t ht).1),
    seq_plain_step T _ _ _ envStop _ st (plain_rpar _)
      (Or.inl (not_active_long T st _ (by simp [mkFix]))),
    seq_plain_step T _ _ _ envStop _ st (plain_nlTok _) (Or.inl S.nl)]
  simp
  congr 1
  omega

/-- **`\end{name}` of a theorem environment in the loop** -/
theorem seq_end_step (T : PTables) (fuel : Nat) (p q1 q2 : Nat) (nt : List Tok) (rest : Buf)
    (out : List Tok) (st : PState) (title : Str) (h : NameToks T st nt)
    (hl : lookupEnv st (txtOf nt) = some (thmEnv (txtOf nt) title))
    (hf : nt.length + 4 ≤ fuel) :
    expandSequence T (fuel + 1) (endTok p :: lbr q1 :: (nt ++ rbr q2 :: rest)) none out st
      = expandSequence T (fuel - 1) rest none (out ++ [parTok p]) st := by
  obtain ⟨f, rfl⟩ : ∃ f, fuel = f + 2 := ⟨fuel - 2, by omega⟩
  rw [expandSequence.eq_3]
  show M.bind' M.get _ st = _
  simp only [M.bind', M.get]
  have hk : (endTok p).kind = .xend := rfl
  simp only [hk, beq_self_eq_true, if_true, reduceCtorEq, beq_iff_eq, if_false]
  refine (M.bind_ok _ _ _ _ _ (endEnvironment_thm T f q1 q2 nt rest (endTok p) st title h
    (by omega) hl)).trans ?_
  simp only [Bool.false_eq_true, if_false]
  show expandSequence T (f + 1 + 1) (parTok p :: rest) none out st = _
  rw [seq_plain_step T _ _ _ none _ st (plain_parTok p)
      (Or.inl (not_active_long T st _ (by simp [parTok, mkFix])))]
  rfl

/-! ### the environments defined so far -/

/-- the theorem environments defined by the document so far: name and title, latest first -/
abbrev Env := List (Str × Str)

/-- the title of the latest definition of `name` -/
def titleOf (E : Env) (name : Str) : Option Str := (E.find? (·.1 == name)).map (·.2)

/-- the parser state after the definitions `E` (latest first) -/
def stOf (st : PState) : Env → PState
  | [] => st
  | e :: E => defSt (stOf st E) e.1 e.2

theorem stOf_lang (st : PState) : ∀ E : Env, (stOf st E).langStack = st.langStack
  | [] => rfl
  | _ :: E => stOf_lang st E

theorem stOf_macros (st : PState) : ∀ E : Env, (stOf st E).macros = st.macros
  | [] => rfl
  | _ :: E => stOf_macros st E

theorem lookupEnv_stOf (st : PState) : ∀ (E : Env) (n : Str),
    lookupEnv (stOf st E) n = match titleOf E n with
      | some t => some (thmEnv n t)
      | none => lookupEnv st n
  | [], n => rfl
  | e :: E, n => by
    have ih := lookupEnv_stOf st E n
    simp only [stOf, defSt, lookupEnv] at ih ⊢
    rw [find_setMacro]
    by_cases he : e.1 = n
    · subst he
      simp [thmEnv, titleOf]
    · have he' : (e.1 == n) = false := by simpa using he
      simp only [thmEnv, he', Bool.false_eq_true, if_false, titleOf, List.find?_cons]
      exact ih

theorem lookupEnv_stOf_some (st : PState) (E : Env) (n t : Str) (h : titleOf E n = some t) :
    lookupEnv (stOf st E) n = some (thmEnv n t) := by
  rw [lookupEnv_stOf, h]

/-! ### the token buffers -/

/-- the pieces of a token buffer: a token that is copied; `\newtheorem { name } { title }` and white
    space; `\begin { name }` and white space; `\begin { name } [ note ]`; `\end { name }` -/
inductive Piece where
  | tok (t : Tok)
  | newthm (p q1 q2 q3 q4 : Nat) (nt tt sp : List Tok)
  | beg (p q1 q2 : Nat) (nt sp : List Tok)
  | begN (p q1 q2 b1 b2 : Nat) (nt note : List Tok)
  | en (p q1 q2 : Nat) (nt : List Tok)

def Piece.toks : Piece → List Tok
  | .tok t => [t]
  | .newthm p q1 q2 q3 q4 nt tt sp =>
    cwTok p ntName :: lbr q1 :: (nt ++ rbr q2 :: lbr q3 :: (tt ++ rbr q4 :: sp))
  | .beg p q1 q2 nt sp => begTok p :: lbr q1 :: (nt ++ rbr q2 :: sp)
  | .begN p q1 q2 b1 b2 nt note =>
    begTok p :: lbr q1 :: (nt ++ rbr q2 :: chTok b1 '[' :: (note ++ [chTok b2 ']']))
  | .en p q1 q2 nt => endTok p :: lbr q1 :: (nt ++ [rbr q2])

/-- the token buffer -/
def flat : List Piece → List Tok
  | [] => []
  | p :: ps => p.toks ++ flat ps

/-- the title in force is fine -/
def TitleAt (T : PTables) (st : PState) (E : Env) (name : Str) : Prop :=
  ∃ t, titleOf E name = some t ∧ TitleOk T st t

def PiecesOk (T : PTables) (st : PState) : Env → List Piece → Prop
  | _, [] => True
  | E, .tok t :: rest => PlainTok t ∧ PassTok T st t (flat rest) ∧ PiecesOk T st E rest
  | E, .newthm _ _ _ _ _ nt tt sp :: rest =>
    NameToks T st nt ∧ NameToks T st tt ∧ SpToks sp ∧ HeadOk (flat rest) ∧
      PiecesOk T st ((txtOf nt, txtOf tt) :: E) rest
  | E, .beg _ _ _ nt sp :: rest =>
    NameToks T st nt ∧ TitleAt T st E (txtOf nt) ∧ SpToks sp ∧ HeadOk (flat rest) ∧
      PiecesOk T st E rest
  | E, .begN _ _ _ _ _ nt note :: rest =>
    NameToks T st nt ∧ TitleAt T st E (txtOf nt) ∧ note ≠ [] ∧
      (∀ t ∈ note, CopyTok T st t ∧ t.txt ≠ [']']) ∧ PiecesOk T st E rest
  | E, .en _ _ _ nt :: rest =>
    NameToks T st nt ∧ (titleOf E (txtOf nt)).isSome = true ∧ PiecesOk T st E rest

/-- the title in force, or nothing -/
def titleD (E : Env) (name : Str) : Str := (titleOf E name).getD []

/-- what `expandSequence` emits for the pieces before the blank-line removal -/
def outP : Env → List Piece → List Tok
  | _, [] => []
  | E, .tok t :: rest => t :: outP E rest
  | E, .newthm p _ _ _ _ nt tt _ :: rest => mkAction p :: outP ((txtOf nt, txtOf tt) :: E) rest
  | E, .beg p _ _ nt _ :: rest =>
    parTok p :: mkAction p :: (thmToks p (titleD E (txtOf nt)) ++ outP E rest)
  | E, .begN p _ _ _ _ nt note :: rest =>
    parTok p :: mkAction p :: (thmNToks p (titleD E (txtOf nt)) note ++ outP E rest)
  | E, .en p _ _ _ :: rest => parTok p :: outP E rest

/-- the definitions behind the pieces -/
def finalEnv : Env → List Piece → Env
  | E, [] => E
  | E, .newthm _ _ _ _ _ nt tt _ :: rest => finalEnv ((txtOf nt, txtOf tt) :: E) rest
  | E, _ :: rest => finalEnv E rest

/-- iterations of `expandSequence` (and of the nested calls that read names and titles) -/
def cost : List Piece → Nat
  | [] => 0
  | .tok _ :: rest => 1 + cost rest
  | .newthm _ _ _ _ _ nt tt _ :: rest => nt.length + tt.length + 6 + cost rest
  | .beg _ _ _ nt _ :: rest => nt.length + 6 + cost rest
  | .begN _ _ _ _ _ nt note :: rest => nt.length + note.length + 8 + cost rest
  | .en _ _ _ nt :: rest => nt.length + 5 + cost rest

/-- **the loop on a buffer of plain tokens, definitions and uses of theorem environments.**  The
    output is the blank-line removal applied to `outP`; the definitions are stored. -/
theorem seq_thm (T : PTables) (st1 : PState) (S : StFacts T st1) (hnt : NtOk st1) :
    ∀ (ps : List Piece) (fuel : Nat) (out : List Tok) (E : Env),
      cost ps + 1 ≤ fuel → PiecesOk T st1 E ps →
      expandSequence T fuel (flat ps) none out (stOf st1 E)
        = match removeLines (out ++ outP E ps) with
          | some r => .ok ((r, []), stOf st1 (finalEnv E ps))
          | none => .outOfFuel := by
  intro ps
  induction ps with
  | nil =>
    intro fuel out E hf _
    obtain ⟨f, rfl⟩ : ∃ f, fuel = f + 1 := ⟨fuel - 1, by omega⟩
    simp only [flat, outP, finalEnv, List.append_nil]
    rw [expandSequence.eq_2]
    cases removeLines out <;> rfl
  | cons pc ps ih =>
    intro fuel out E hf hok
    have hl := stOf_lang st1 E
    have S' : StFacts T (stOf st1 E) := S.congr hl
    cases pc with
    | tok t =>
      simp only [cost] at hf
      obtain ⟨f, rfl⟩ : ∃ f, fuel = f + 1 := ⟨fuel - 1, by omega⟩
      simp only [flat, Piece.toks, List.singleton_append]
      rw [seq_plain_step T f t (flat ps) none out _ hok.1 (PassTok_congr hl hok.2.1),
        ih f (out ++ [t]) E (by omega) hok.2.2]
      simp only [outP, finalEnv, List.append_assoc, List.singleton_append]
    | newthm p q1 q2 q3 q4 nt tt sp =>
      obtain ⟨hn, ht, hsp, hh, hrest⟩ := hok
      simp only [cost] at hf
      obtain ⟨f, rfl⟩ : ∃ f, fuel = f + 1 := ⟨fuel - 1, by omega⟩
      have hflat : flat (Piece.newthm p q1 q2 q3 q4 nt tt sp :: ps)
          = cwTok p ntName :: lbr q1 :: (nt ++ rbr q2 :: lbr q3 :: (tt ++ rbr q4 :: (sp ++ flat ps))) := by
        simp [flat, Piece.toks]
      have hnt' : NtOk (stOf st1 E) := by
        obtain ⟨m, hm, hd⟩ := hnt
        exact ⟨m, by simpa [lookupMacro, stOf_macros] using hm, hd⟩
      rw [hflat, seq_nt_step T f p q1 q2 q3 q4 nt tt sp (flat ps) none out _ hnt' S'
        (hn.congr hl) (ht.congr hl) hsp hh (by omega)]
      have := ih (f - 1) (out ++ [mkAction p]) ((txtOf nt, txtOf tt) :: E) (by omega) hrest
      simp only [stOf] at this
      rw [this]
      simp only [outP, finalEnv, List.append_assoc, List.singleton_append]
    | beg p q1 q2 nt sp =>
      obtain ⟨hn, ⟨title, htl, hto⟩, hsp, hh, hrest⟩ := hok
      simp only [cost] at hf
      obtain ⟨f, rfl⟩ : ∃ f, fuel = f + 1 := ⟨fuel - 1, by omega⟩
      have hflat : flat (Piece.beg p q1 q2 nt sp :: ps)
          = begTok p :: lbr q1 :: (nt ++ rbr q2 :: (sp ++ flat ps)) := by
        simp [flat, Piece.toks]
      rw [hflat, seq_beg_step T f p q1 q2 nt sp (flat ps) none out _ title S' (hn.congr hl)
        (lookupEnv_stOf_some st1 E _ _ htl) hsp hh (hto.congr hl) (by omega),
        ih (f - 5) _ E (by omega) hrest]
      simp only [outP, finalEnv, titleD, htl, Option.getD_some, List.append_assoc, List.cons_append]
    | begN p q1 q2 b1 b2 nt note =>
      obtain ⟨hn, ⟨title, htl, hto⟩, hne, hnote, hrest⟩ := hok
      simp only [cost] at hf
      obtain ⟨f, rfl⟩ : ∃ f, fuel = f + 1 := ⟨fuel - 1, by omega⟩
      have hflat : flat (Piece.begN p q1 q2 b1 b2 nt note :: ps)
          = begTok p :: lbr q1 :: (nt ++ rbr q2 :: chTok b1 '[' :: (note ++ chTok b2 ']' :: flat ps)) := by
        simp [flat, Piece.toks]
      rw [hflat, seq_begN_step T f p q1 q2 b1 b2 nt note (flat ps) none out _ title S' (hn.congr hl)
        (lookupEnv_stOf_some st1 E _ _ htl)
        (fun t ht => ⟨(hnote t ht).1.congr hl, (hnote t ht).2⟩) hne (hto.congr hl) (by omega),
        ih (f - (7 + note.length)) _ E (by omega) hrest]
      simp only [outP, finalEnv, titleD, htl, Option.getD_some, List.append_assoc, List.cons_append]
    | en p q1 q2 nt =>
      obtain ⟨hn, hsome, hrest⟩ := hok
      obtain ⟨title, htl⟩ := Option.isSome_iff_exists.mp hsome
      simp only [cost] at hf
      obtain ⟨f, rfl⟩ : ∃ f, fuel = f + 1 := ⟨fuel - 1, by omega⟩
      have hflat : flat (Piece.en p q1 q2 nt :: ps)
          = endTok p :: lbr q1 :: (nt ++ rbr q2 :: flat ps) := by
        simp [flat, Piece.toks]
      rw [hflat, seq_end_step T f p q1 q2 nt (flat ps) out _ title (hn.congr hl)
        (lookupEnv_stOf_some st1 E _ _ htl) (by omega),
        ih (f - 1) _ E (by omega) hrest]
      simp only [outP, finalEnv, List.append_assoc, List.cons_append, List.nil_append]

theorem NameToks.notComment {T : PTables} {st : PState} {nt : List Tok} (h : NameToks T st nt) :
    ∀ t ∈ nt, t.kind ≠ .comment := fun t ht => (h.2 t ht).plain.notComment

theorem PiecesOk.notComment {T : PTables} {st : PState} : ∀ {ps : List Piece} {E : Env},
    PiecesOk T st E ps → ∀ t ∈ flat ps, t.kind ≠ .comment
  | [], _, _, _, h => by simp [flat] at h
  | .tok t :: rest, E, hok, x, hx => by
    simp only [flat, Piece.toks, List.singleton_append, List.mem_cons] at hx
    rcases hx with rfl | hx
    · exact hok.1.notComment
    · exact PiecesOk.notComment hok.2.2 x hx
  | .newthm p q1 q2 q3 q4 nt tt sp :: rest, E, hok, x, hx => by
    obtain ⟨hn, ht, hsp, _, hrest⟩ := hok
    simp only [flat, Piece.toks, List.cons_append, List.append_assoc, List.mem_cons,
      List.mem_append] at hx
    rcases hx with rfl | rfl | hx | rfl | rfl | hx | rfl | hx | hx
    · simp [cwTok]
    · simp [lbr]
    · exact hn.notComment x hx
    · simp [rbr]
    · simp [lbr]
    · exact ht.notComment x hx
    · simp [rbr]
    · simp [hsp x hx]
    · exact PiecesOk.notComment hrest x hx
  | .beg p q1 q2 nt sp :: rest, E, hok, x, hx => by
    obtain ⟨hn, _, hsp, _, hrest⟩ := hok
    simp only [flat, Piece.toks, List.cons_append, List.append_assoc, List.mem_cons,
      List.mem_append] at hx
    rcases hx with rfl | rfl | hx | rfl | hx | hx
    · simp [begTok]
    · simp [lbr]
    · exact hn.notComment x hx
    · simp [rbr]
    · simp [hsp x hx]
    · exact PiecesOk.notComment hrest x hx
  | .begN p q1 q2 b1 b2 nt note :: rest, E, hok, x, hx => by
    obtain ⟨hn, _, _, hnote, hrest⟩ := hok
    simp only [flat, Piece.toks, List.cons_append, List.append_assoc, List.mem_cons,
      List.mem_append, List.nil_append] at hx
    rcases hx with rfl | rfl | hx | rfl | rfl | hx | rfl | hx
    · simp [begTok]
    · simp [lbr]
    · exact hn.notComment x hx
    · simp [rbr]
    · simp [chTok]
    · exact (hnote x hx).1.plain.notComment
    · simp [chTok]
    · exact PiecesOk.notComment hrest x hx
  | .en p q1 q2 nt :: rest, E, hok, x, hx => by
    obtain ⟨hn, _, hrest⟩ := hok
    simp only [flat, Piece.toks, List.cons_append, List.append_assoc, List.mem_cons,
      List.mem_append, List.nil_append] at hx
    rcases hx with rfl | rfl | hx | rfl | hx
    · simp [endTok]
    · simp [lbr]
    · exact hn.notComment x hx
    · simp [rbr]
    · exact PiecesOk.notComment hrest x hx

theorem TitleAt.congr {T : PTables} {st st' : PState} (hl : st'.langStack = st.langStack)
    {E : Env} {name : Str} (h : TitleAt T st E name) : TitleAt T st' E name := by
  obtain ⟨t, h1, h2⟩ := h
  exact ⟨t, h1, h2.congr hl⟩

/-- the conditions depend on the state only through the language stack -/
theorem PiecesOk.congr {T : PTables} {st st' : PState} (hl : st'.langStack = st.langStack) :
    ∀ {ps : List Piece} {E : Env}, PiecesOk T st E ps → PiecesOk T st' E ps
  | [], _, _ => trivial
  | .tok _ :: _, _, h => ⟨h.1, PassTok_congr hl h.2.1, PiecesOk.congr hl h.2.2⟩
  | .newthm _ _ _ _ _ _ _ _ :: _, _, h =>
    ⟨h.1.congr hl, h.2.1.congr hl, h.2.2.1, h.2.2.2.1, PiecesOk.congr hl h.2.2.2.2⟩
  | .beg _ _ _ _ _ :: _, _, h =>
    ⟨h.1.congr hl, h.2.1.congr hl, h.2.2.1, h.2.2.2.1, PiecesOk.congr hl h.2.2.2.2⟩
  | .begN _ _ _ _ _ _ _ :: _, _, h =>
    ⟨h.1.congr hl, h.2.1.congr hl, h.2.2.1,
      fun t ht => ⟨(h.2.2.2.1 t ht).1.congr hl, (h.2.2.2.1 t ht).2⟩, PiecesOk.congr hl h.2.2.2.2⟩
  | .en _ _ _ _ :: _, _, h => ⟨h.1.congr hl, h.2.1, PiecesOk.congr hl h.2.2⟩

end PlainThm
end Yalafi
