/-
  Proofs/NoEmptyHandlerA.lean — NoEmpty bundle: one lemma per handler of `callHandler`, part A:
  none, opaqueH, newcommand, theorem, newtheorem, heading, phantom, hspace, cite, loadDefs, loadModule.
-/
import YalafiVerif.Proofs.NoEmptyBase1
import YalafiVerif.Proofs.NoEmptyBase2
namespace Yalafi
namespace NoEmpty
open M
set_option linter.unusedVariables false

variable {T : PTables}

/-! ### helpers -/

theorem HRes_of_ANE {n : Nat} {h : Handler} {r : List Tok} (hr : ANE T n r) : HRes T n h r := by
  refine ⟨fun _ => hr, ?_⟩
  cases r with
  | nil => trivial
  | cons t ts => exact ⟨(hr t (by simp)).1, fun x hx => hr x (by simp [hx])⟩

private theorem hA_get_bind {β} (f : PState → M β) (st : PState) (R : β → PState → Prop)
    (h : Post' (f st st) R) : Post' ((M.get >>= f) st) R := by
  apply Post'_bind _ _ _ (fun a s => st = a ∧ st = s)
  · exact Post'_get _ _ ⟨rfl, rfl⟩
  · rintro _ _ ⟨rfl, rfl⟩
    exact h

private theorem hA_modifyPure {β} (f : PState → PState) (x : β) (st : PState) (R : β → PState → Prop)
    (h : R x (f st)) : Post' ((M.modify f >>= fun _ => (pure x : M β)) st) R := by
  apply Post'_bind _ _ _ (fun _ s => s = f st) _ (Post'_modify _ _ _ rfl)
  rintro _ s rfl
  exact Post'_pure _ _ _ h

/-- the local `arg k` of `callHandler`, bound to a continuation -/
private theorem hA_argBind {β} (args : List (List Tok)) (k : Nat) (f : List Tok → M β) (st : PState)
    (R : β → PState → Prop)
    (h : ∀ a ∈ args, args[k]? = some a → Post' (f a st) R) :
    Post' (((match args[k]? with
            | some a => pure a
            | none => M.crash "handler:args[k]" : M (List Tok)) >>= f) st) R := by
  apply Post'_bind _ _ _ (fun a s => s = st ∧ a ∈ args ∧ args[k]? = some a)
  · cases he : args[k]? with
    | none => exact Post'_crash _ _ _ (by decide)
    | some a => exact Post'_pure _ _ _ ⟨rfl, List.mem_of_getElem? he, rfl⟩
  · rintro a s ⟨rfl, ha, he⟩
    exact h a ha he

private theorem getLast?_mem' {α} {l : List α} {a : α} (h : l.getLast? = some a) : a ∈ l := by
  obtain ⟨ys, rfl⟩ := List.getLast?_eq_some_iff.mp h
  simp

private theorem W_fixText (n p : Nat) (txt : Str) (hp : p < n) : W T n (mkFix .text p txt) := by
  simp [W, MB, ctlEmpty, mkFix, hp]

private theorem NE_fix (n p : Nat) (txt : Str) (hp : p < n) (ht : txt ≠ []) : NE T n (mkFix .text p txt) := by
  simp [NE, W, NE0, MB, ctlEmpty, mkFix, hp, ht]

private theorem NE_fixSpace (n p : Nat) (txt : Str) (hp : p < n) : NE T n (mkFix .space p txt) := by
  simp [NE, W, NE0, MB, ctlEmpty, mkFix, hp]

private theorem NE_tokSpace (n p : Nat) (txt : Str) (hp : p < n) : NE T n (mkTok .space p txt) := by
  simp [NE, W, NE0, MB, ctlEmpty, mkTok, hp]

private theorem NE_tokSpecial (n p : Nat) (txt : Str) (hp : p < n) : NE T n (mkTok .special p txt) := by
  simp [NE, W, NE0, MB, ctlEmpty, mkTok, hp]

private theorem NE_tokText (n p : Nat) (txt : Str) (hp : p < n) (ht : txt ≠ []) : NE T n (mkTok .text p txt) := by
  simp [NE, W, NE0, MB, ctlEmpty, mkTok, hp, ht]

private theorem NE_action (n p : Nat) (hp : p < n) : NE T n (mkAction p) := by
  simp [NE, W, NE0, MB, ctlEmpty, mkAction, hp]

section steps
variable {fuel : Nat} (IH : AllSpecs T fuel)
include IH

private theorem text_sub {st s : PState} (h0 : Fr T st s) (toks : List Tok) (hb : ANE T st.latex.length toks) :
    Post' (getTextExpanded T fuel toks s) (fun _ s' => Fr T st s') := by
  apply Post'_mono _ _ _ (IH.text toks s h0.1 (Buf3_of_ANE (by rw [h0.len]; exact hb)))
  intro _ s' h1
  exact h0.trans h1

end steps

/-! ### the handlers -/

theorem handler_none (hne : tblOkB T = true) (hw : T.WFInv) (fuel : Nat) (IH : AllSpecs T fuel)
    (buf : Buf) (mac : MacroDef) (args : List (List Tok)) (pos : Nat) (st : PState) (hs : StOk T st)
    (ha : ∀ a ∈ args, ANE T st.latex.length a) (hp : pos < st.latex.length) :
    Post' (callHandler T (fuel + 1) .none buf mac args pos st)
      (fun r st' => Fr T st st' ∧ HRes T st.latex.length .none r) := by
  simp only [callHandler]
  exact Post'_pure _ _ _ ⟨Fr.refl hs, HRes_of_ANE (ANE_nil _)⟩

theorem handler_opaqueH (name : Str) (hne : tblOkB T = true) (hw : T.WFInv) (fuel : Nat) (IH : AllSpecs T fuel)
    (buf : Buf) (mac : MacroDef) (args : List (List Tok)) (pos : Nat) (st : PState) (hs : StOk T st)
    (ha : ∀ a ∈ args, ANE T st.latex.length a) (hp : pos < st.latex.length) :
    Post' (callHandler T (fuel + 1) (.opaqueH name) buf mac args pos st)
      (fun r st' => Fr T st st' ∧ HRes T st.latex.length (.opaqueH name) r) := by
  simp only [callHandler]
  exact Post'_crash _ _ _ (by decide)

theorem handler_theorem (title : Str) (hne : tblOkB T = true) (hw : T.WFInv) (fuel : Nat) (IH : AllSpecs T fuel)
    (buf : Buf) (mac : MacroDef) (args : List (List Tok)) (pos : Nat) (st : PState) (hs : StOk T st)
    (ha : ∀ a ∈ args, ANE T st.latex.length a) (hp : pos < st.latex.length) :
    Post' (callHandler T (fuel + 1) (.theorem title) buf mac args pos st)
      (fun r st' => Fr T st st' ∧ HRes T st.latex.length (.theorem title) r) := by
  simp only [callHandler]
  refine hA_argBind args 0 _ st _ (fun a0 h0 _ => ?_)
  have hA := ha a0 h0
  cases hl : a0.getLast? with
  | some l =>
    dsimp only
    have hlp : l.pos < st.latex.length := (hA l (getLast?_mem' hl)).1.1
    refine Post'_pure _ _ _ ⟨Fr.refl hs, ?_, ?_⟩
    · intro h; simp [isFront] at h
    · refine ⟨W_fixText _ _ _ hp, ?_⟩
      simp [NE_fix, NE_fixSpace, hp, hlp, hA]
  | none =>
    refine Post'_pure _ _ _ ⟨Fr.refl hs, ?_, ?_⟩
    · intro h; simp [isFront] at h
    · refine ⟨W_fixText _ _ _ hp, ?_⟩
      simp [NE_fix, NE_fixSpace, hp]

theorem handler_phantom (hne : tblOkB T = true) (hw : T.WFInv) (fuel : Nat) (IH : AllSpecs T fuel)
    (buf : Buf) (mac : MacroDef) (args : List (List Tok)) (pos : Nat) (st : PState) (hs : StOk T st)
    (ha : ∀ a ∈ args, ANE T st.latex.length a) (hp : pos < st.latex.length) :
    Post' (callHandler T (fuel + 1) .phantom buf mac args pos st)
      (fun r st' => Fr T st st' ∧ HRes T st.latex.length .phantom r) := by
  simp only [callHandler]
  refine hA_argBind args 0 _ st _ (fun a h0 _ => ?_)
  refine Post'_bind _ _ _ _ _ (text_sub IH (Fr.refl hs) a (ha a h0)) (fun txt s hfr => ?_)
  split
  · refine Post'_pure _ _ _ ⟨hfr, HRes_of_ANE ?_⟩
    simp [NE_tokSpecial, hp]
  · exact Post'_pure _ _ _ ⟨hfr, HRes_of_ANE (ANE_nil _)⟩

theorem handler_hspace (hne : tblOkB T = true) (hw : T.WFInv) (fuel : Nat) (IH : AllSpecs T fuel)
    (buf : Buf) (mac : MacroDef) (args : List (List Tok)) (pos : Nat) (st : PState) (hs : StOk T st)
    (ha : ∀ a ∈ args, ANE T st.latex.length a) (hp : pos < st.latex.length) :
    Post' (callHandler T (fuel + 1) .hspace buf mac args pos st)
      (fun r st' => Fr T st st' ∧ HRes T st.latex.length .hspace r) := by
  simp only [callHandler]
  refine hA_argBind args 1 _ st _ (fun a h0 _ => ?_)
  refine Post'_bind _ _ _ _ _ (text_sub IH (Fr.refl hs) a (ha a h0)) (fun txt s hfr => ?_)
  split
  · exact Post'_pure _ _ _ ⟨hfr, HRes_of_ANE (ANE_nil _)⟩
  · refine Post'_pure _ _ _ ⟨hfr, HRes_of_ANE ?_⟩
    simp [NE_tokSpace, hp]

theorem handler_cite (hne : tblOkB T = true) (hw : T.WFInv) (fuel : Nat) (IH : AllSpecs T fuel)
    (buf : Buf) (mac : MacroDef) (args : List (List Tok)) (pos : Nat) (st : PState) (hs : StOk T st)
    (ha : ∀ a ∈ args, ANE T st.latex.length a) (hp : pos < st.latex.length) :
    Post' (callHandler T (fuel + 1) .cite buf mac args pos st)
      (fun r st' => Fr T st st' ∧ HRes T st.latex.length .cite r) := by
  simp only [callHandler]
  refine hA_argBind args 0 _ st _ (fun a0 h0 _ => ?_)
  have hA := ha a0 h0
  cases hl : a0.getLast? with
  | some l =>
    dsimp only
    have hlp : l.pos < st.latex.length := (hA l (getLast?_mem' hl)).1.1
    refine Post'_pure _ _ _ ⟨Fr.refl hs, HRes_of_ANE ?_⟩
    simp [NE_fix, NE_fixSpace, NE_tokText, NE_action, hp, hlp, hA]
  | none =>
    refine Post'_pure _ _ _ ⟨Fr.refl hs, HRes_of_ANE ?_⟩
    simp [NE_fix, NE_action, hp]

theorem handler_heading (hne : tblOkB T = true) (hw : T.WFInv) (fuel : Nat) (IH : AllSpecs T fuel)
    (buf : Buf) (mac : MacroDef) (args : List (List Tok)) (pos : Nat) (st : PState) (hs : StOk T st)
    (ha : ∀ a ∈ args, ANE T st.latex.length a) (hp : pos < st.latex.length) :
    Post' (callHandler T (fuel + 1) .heading buf mac args pos st)
      (fun r st' => Fr T st st' ∧ HRes T st.latex.length .heading r) := by
  simp only [callHandler]
  refine hA_argBind args 2 _ st _ (fun a h0 _ => ?_)
  have hA := ha a h0
  refine Post'_bind _ _ _ _ _ (text_sub IH (Fr.refl hs) a hA) (fun txt s hfr => ?_)
  cases hc : (strip txt).getLast? with
  | none => exact Post'_pure _ _ _ ⟨hfr, HRes_of_ANE hA⟩
  | some c =>
    cases hl : a.getLast? with
    | none => exact Post'_crash _ _ _ (by decide)
    | some l =>
      dsimp only
      have hlp : l.pos < st.latex.length := (hA l (getLast?_mem' hl)).1.1
      split
      · refine Post'_pure _ _ _ ⟨hfr, HRes_of_ANE ?_⟩
        simp [NE_tokText, hlp, hA]
      · exact Post'_pure _ _ _ ⟨hfr, HRes_of_ANE hA⟩

theorem handler_newtheorem (hne : tblOkB T = true) (hw : T.WFInv) (fuel : Nat) (IH : AllSpecs T fuel)
    (buf : Buf) (mac : MacroDef) (args : List (List Tok)) (pos : Nat) (st : PState) (hs : StOk T st)
    (ha : ∀ a ∈ args, ANE T st.latex.length a) (hp : pos < st.latex.length) :
    Post' (callHandler T (fuel + 1) .newtheorem buf mac args pos st)
      (fun r st' => Fr T st st' ∧ HRes T st.latex.length .newtheorem r) := by
  simp only [callHandler]
  refine hA_argBind args 0 _ st _ (fun a0 h0 _ => ?_)
  refine hA_argBind args 2 _ st _ (fun a2 h2 _ => ?_)
  refine Post'_bind _ _ _ _ _ (text_sub IH (Fr.refl hs) a0 (ha a0 h0)) (fun name s hfr => ?_)
  refine Post'_bind _ _ _ _ _ (text_sub IH hfr a2 (ha a2 h2)) (fun title s' hfr' => ?_)
  refine hA_modifyPure _ _ _ _ ⟨⟨StOk_setEnv s' _ hfr'.1 ⟨⟨?_, ?_, ?_⟩, ?_, ?_, ?_⟩, hfr'.2⟩, HRes_of_ANE (ANE_nil _)⟩
  · exact ANE0_nil
  · intro d hd; cases hd
  · exact ANE0_nil
  · rfl
  · intro h; cases h
  · simp [envOk, handlerArity]

private theorem latexError_sub {st s : PState} (h0 : Fr T st s) (h : Handler) (err : Str) (pos : Nat)
    (hp : pos < st.latex.length) :
    Post' (latexError T.toTables err pos s) (fun r s' => Fr T st s' ∧ HRes T st.latex.length h r) := by
  apply Post'_mono _ _ _ (latexError_spec err pos s h0.1)
  intro r s' ⟨h1, _, h3⟩
  exact ⟨h0.trans h1, HRes_of_ANE (by rw [← h0.len]; exact h3 (by rw [h0.len]; exact hp))⟩

theorem handler_newcommand (hne : tblOkB T = true) (hw : T.WFInv) (fuel : Nat) (IH : AllSpecs T fuel)
    (buf : Buf) (mac : MacroDef) (args : List (List Tok)) (pos : Nat) (st : PState) (hs : StOk T st)
    (ha : ∀ a ∈ args, ANE T st.latex.length a) (hp : pos < st.latex.length) :
    Post' (callHandler T (fuel + 1) .newcommand buf mac args pos st)
      (fun r st' => Fr T st st' ∧ HRes T st.latex.length .newcommand r) := by
  simp only [callHandler]
  refine hA_argBind args 1 _ st _ (fun a1 h1 _ => ?_)
  refine hA_argBind args 2 _ st _ (fun a2 h2 _ => ?_)
  refine hA_argBind args 3 _ st _ (fun a3 h3 _ => ?_)
  refine hA_argBind args 4 _ st _ (fun a4 h4 _ => ?_)
  refine hA_get_bind _ st _ ?_
  split
  · exact Post'_pure _ _ _ ⟨Fr.refl hs, HRes_of_ANE (ANE_nil _)⟩
  · refine Post'_bind _ _ _ _ _ (text_sub IH (Fr.refl hs) a2 (ha a2 h2)) (fun ns s hfr => ?_)
    have hA3 := ha a3 h3
    have hA4 := ha a4 h4
    generalize (if (!List.isEmpty ns && _) = true then _ else 0) = nargs
    split
    · exact latexError_sub hfr _ _ _ hp
    generalize hf : List.find? _ a4 = o
    cases o with
    | some bad =>
      exact latexError_sub hfr _ _ _ (hA4 bad (List.mem_of_find?_eq_some hf)).1.1
    | none =>
      dsimp only
      split
      · split
        · cases hh' : a1.head? with
          | none => exact Post'_crash _ _ _ (by decide)
          | some t =>
            exact latexError_sub hfr _ _ _ (ha a1 h1 t (List.mem_of_mem_head? (by simp [hh']))).1.1
        · refine hA_modifyPure _ _ _ _ ⟨⟨StOk_setMacro s _ hfr.1 ⟨ANE_ANE0 hA4, ?_, ANE0_nil⟩ rfl, hfr.2⟩,
            HRes_of_ANE (ANE_nil _)⟩
          intro d hd
          simp only [List.mem_cons, List.not_mem_nil, or_false] at hd
          subst hd
          exact ANE_ANE0 hA3
      · refine hA_modifyPure _ _ _ _ ⟨⟨StOk_setMacro s _ hfr.1 ⟨ANE_ANE0 hA4, ?_, ANE0_nil⟩ rfl, hfr.2⟩,
          HRes_of_ANE (ANE_nil _)⟩
        intro d hd; cases hd

theorem handler_loadDefs (hne : tblOkB T = true) (hw : T.WFInv) (fuel : Nat) (IH : AllSpecs T fuel)
    (buf : Buf) (mac : MacroDef) (args : List (List Tok)) (pos : Nat) (st : PState) (hs : StOk T st)
    (ha : ∀ a ∈ args, ANE T st.latex.length a) (hp : pos < st.latex.length) :
    Post' (callHandler T (fuel + 1) .loadDefs buf mac args pos st)
      (fun r st' => Fr T st st' ∧ HRes T st.latex.length .loadDefs r) := by
  simp only [callHandler]
  refine hA_get_bind _ st _ ?_
  split
  · exact Post'_pure _ _ _ ⟨Fr.refl hs, HRes_of_ANE (ANE_nil _)⟩
  · refine hA_argBind args 0 _ st _ (fun a0 h0 _ => ?_)
    refine Post'_bind _ _ _ _ _ (text_sub IH (Fr.refl hs) a0 (ha a0 h0)) (fun file s hfr => ?_)
    refine hA_get_bind _ s _ ?_
    cases hf : List.find? (fun x => x.fst == file) s.fs with
    | none => exact latexError_sub hfr _ _ _ hp
    | some f =>
      dsimp only
      refine Post'_bind _ _ _ (fun _ s1 => s1 = { s with extracted := [] }) _ (Post'_modify _ _ _ rfl) ?_
      rintro _ s1 rfl
      have hs1 : StOk T { s with extracted := [] } := StOk_congr hfr.1 rfl rfl rfl
      refine Post'_bind _ _ _ _ _ (IH.work f.2 _ hs1) (fun toks s2 h2 => ?_)
      obtain ⟨hfr2, hanc⟩ := h2
      refine hA_modifyPure _ _ _ _ ⟨⟨StOk_congr hfr2.1 rfl rfl rfl, ?_⟩, HRes_of_ANE ?_⟩
      · exact (show s2.latex = s.latex from hfr2.2).trans hfr.2
      · exact (filterSetToks_lang _ pos toks hp hanc).1

section fold
variable {fuel : Nat} (IH : AllSpecs T fuel)
include IH

private theorem loadModule_fold (hne : tblOkB T = true) (cls : Bool) (options : List KeyVal) (pos : Nat)
    (st0 : PState) (names : List Str) (acc : List Tok) (s : PState) (hs : Fr T st0 s)
    (hacc : InjOk T st0.latex.length pos acc) :
    Post' (names.foldlM (m := M) (fun acc p => do
        let o ← initPackage T fuel p ((findModule T cls p).getD (emptyModule p)) false options pos
        pure (acc ++ o)) acc s) (fun r s' => Fr T st0 s' ∧ InjOk T st0.latex.length pos r) := by
  induction names generalizing acc s with
  | nil => exact Post'_pure _ _ _ ⟨hs, hacc⟩
  | cons p names ih =>
    rw [List.foldlM_cons]
    refine Post'_bind _ _ _ (fun r s' => Fr T st0 s' ∧ InjOk T st0.latex.length pos r) _ ?_
      (fun r s' h => ih r s' h.1 h.2)
    refine Post'_bind _ _ _ _ _ (IH.init p _ false options pos s hs.1 (findModule_ModOk hne cls p)) (fun o s' h => ?_)
    refine Post'_pure _ _ _ ⟨hs.trans h.1, InjOk_append hacc ?_⟩
    have h2 := h.2
    rw [hs.len] at h2
    exact h2

end fold

theorem handler_loadModule (cls : Bool) (hne : tblOkB T = true) (hw : T.WFInv) (fuel : Nat) (IH : AllSpecs T fuel)
    (buf : Buf) (mac : MacroDef) (args : List (List Tok)) (pos : Nat) (st : PState) (hs : StOk T st)
    (ha : ∀ a ∈ args, ANE T st.latex.length a) (hp : pos < st.latex.length) :
    Post' (callHandler T (fuel + 1) (.loadModule cls) buf mac args pos st)
      (fun r st' => Fr T st st' ∧ HRes T st.latex.length (.loadModule cls) r) := by
  simp only [callHandler]
  refine hA_argBind args 0 _ st _ (fun a0 h0 _ => ?_)
  refine hA_argBind args 1 _ st _ (fun a1 h1 _ => ?_)
  refine Post'_bind _ _ _ _ _ (IH.keyvals a0 [] st hs (ha a0 h0) (by intro kv hkv; cases hkv)) (fun kv s hk => ?_)
  obtain ⟨hfr, hkv⟩ := hk
  refine Post'_bind _ _ _ _ _ (IH.expandKv kv s hfr.1 (by rw [hfr.len]; exact hkv)) (fun options s2 hfr2 => ?_)
  have hfr2' := hfr.trans hfr2
  refine Post'_bind _ _ _ _ _ (text_sub IH hfr2' a1 (ha a1 h1)) (fun packs s3 hfr3 => ?_)
  refine Post'_bind _ _ _ _ _ (loadModule_fold IH hne cls options pos st _ [] s3 hfr3 (InjOk_nil T _ _))
    (fun out s4 hs4 => ?_)
  exact Post'_pure _ _ _ ⟨hs4.1, HRes_of_ANE (filterSetToks_false_ANE _ pos out hp (ANE_ANE0 (hs4.2.1 hp)) hs4.2.2)⟩

end NoEmpty
end Yalafi
