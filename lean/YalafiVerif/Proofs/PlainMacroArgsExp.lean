/-
  Proofs/PlainMacroArgsExp.lean — the expander level of Proofs/PlainMacroArgs.lean: token buffers that
  consist of plain tokens, definitions `\newcommand{\name}[n]{body}` and uses `\name{a1}…{am}`.

    `genCur`, `genOut`, `genRepl_eq`    `generate_replacements` as an explicit function of the body and
                                        the arguments (all references in range, no argument empty)
    `collectArgs_groups`                `expand_arguments` collects the first n brace groups
    `collectArgs_defN`, `callHandler_newcommandN`, `expandMacro_defN`, `seq_def_step`
                                        the definition: `h_newcommand` stores
                                        `{name, args := 'A'^n, repl := body}`
    `expandMacro_use`, `seq_copy_run`, `seq_groups`, `seq_use_step`   the use
    `Piece`, `PiecesOk`, `StOk`, `outP`, `finalSt`, `cost`, `seq_macro`   the loop
-/
import YalafiVerif.Proofs.PlainMacro
namespace Yalafi
namespace PlainMacroArgs

open M
open PlainMacro (lbr rbr NoBrace restamp argBuffer_brace skipSpace_cons_of_not skippedLangs_cons_of_not
  ncDeclOk ncDeclOk_facts skipSpaceStopLang_cons_of_not ncName seq_brace_step plainTok_noBrace
  plainTok_argRef cwTok_noBrace NcOk find_setMacro lookup_setMacro NameOk plainTok_restamp
  PassTok_congr)

/-! ### `generateReplacements`, explicitly -/

/-- the k-th actual argument (1-based) -/
def argAt (args : List (List Tok)) (k : Nat) : List Tok := (args[k - 1]?).getD []

/-- position of the first / last token -/
def headPos (a : List Tok) : Nat := match a.head? with | some h => h.pos | none => 0
def lastPos (a : List Tok) : Nat := match a.getLast? with | some l => l.pos | none => 0

/-- `cur_pos` after the first loop of `generate_replacements`: the start of the argument that is
    referenced last in the body, `cur` if there is no reference -/
def genCur (args : List (List Tok)) : List Tok → Nat → Nat
  | [], cur => cur
  | t :: ts, cur =>
    match argRef t with
    | some k => genCur args ts (headPos (argAt args k))
    | none => genCur args ts cur

/-- the result of the second loop: a body token is pinned at `cur`; `#k` is replaced by the k-th
    argument between two Action tokens, and `cur` moves to the last token of that argument -/
def genOut (args : List (List Tok)) : List Tok → Nat → List Tok
  | [], _ => []
  | t :: ts, cur =>
    match argRef t with
    | some k =>
      mkAction (headPos (argAt args k)) :: (argAt args k ++
        mkAction (lastPos (argAt args k)) :: genOut args ts (lastPos (argAt args k)))
    | none => restamp cur t :: genOut args ts cur

/-- every reference `#k` of the body has `1 ≤ k ≤ n` -/
def RefsOk (n : Nat) (b : List Tok) : Prop := ∀ t ∈ b, ∀ k, argRef t = some k → 1 ≤ k ∧ k ≤ n

theorem RefsOk.tail {n : Nat} {t : Tok} {ts : List Tok} (h : RefsOk n (t :: ts)) : RefsOk n ts :=
  fun x hx => h x (List.mem_cons_of_mem _ hx)

theorem pyIndex_argAt (args : List (List Tok)) (k : Nat) (h1 : 1 ≤ k) (h2 : k ≤ args.length) :
    pyIndex args k = some (argAt args k) ∧ argAt args k ∈ args := by
  have hk : (k == 0) = false := by simp; omega
  have hlt : k - 1 < args.length := by omega
  refine ⟨?_, ?_⟩
  · simp only [pyIndex, hk, Bool.false_eq_true, if_false, argAt, List.getElem?_eq_getElem hlt,
      Option.getD_some]
  · simp only [argAt, List.getElem?_eq_getElem hlt, Option.getD_some]
    exact List.getElem_mem hlt

theorem head?_of_ne {a : List Tok} (h : a ≠ []) : ∃ x, a.head? = some x ∧ headPos a = x.pos := by
  cases a with
  | nil => exact absurd rfl h
  | cons x xs => exact ⟨x, rfl, rfl⟩

theorem getLast?_of_ne {a : List Tok} (h : a ≠ []) : ∃ x, a.getLast? = some x ∧ lastPos a = x.pos := by
  cases hl : a.getLast? with
  | none => exact absurd (List.getLast?_eq_none_iff.mp hl) h
  | some x => exact ⟨x, rfl, by simp [lastPos, hl]⟩

theorem initCurPos_eq (args : List (List Tok)) (hne : ∀ a ∈ args, a ≠ []) :
    ∀ (b : List Tok) (cur : Nat), RefsOk args.length b →
      initCurPos args b cur = some (genCur args b cur)
  | [], _, _ => rfl
  | t :: ts, cur, h => by
    cases hk : argRef t with
    | none =>
      simp only [initCurPos, genCur, hk]
      exact initCurPos_eq args hne ts cur h.tail
    | some k =>
      obtain ⟨k1, k2⟩ := h t (List.mem_cons_self ..) k hk
      obtain ⟨hp, hmem⟩ := pyIndex_argAt args k k1 k2
      obtain ⟨x, hx, hxp⟩ := head?_of_ne (hne _ hmem)
      simp only [initCurPos, genCur, hk, hp, hx, hxp]
      exact initCurPos_eq args hne ts _ h.tail

theorem genReplLoop_eq (args : List (List Tok)) (hne : ∀ a ∈ args, a ≠ []) :
    ∀ (b : List Tok) (cur : Nat) (out : List Tok), RefsOk args.length b →
      genReplLoop args b cur out = some (out ++ genOut args b cur)
  | [], _, out, _ => by simp [genReplLoop, genOut]
  | t :: ts, cur, out, h => by
    cases hk : argRef t with
    | none =>
      simp only [genReplLoop, genOut, hk]
      rw [genReplLoop_eq args hne ts cur _ h.tail]
      simp [restamp]
    | some k =>
      obtain ⟨k1, k2⟩ := h t (List.mem_cons_self ..) k hk
      obtain ⟨hp, hmem⟩ := pyIndex_argAt args k k1 k2
      obtain ⟨x, hx, hxp⟩ := head?_of_ne (hne _ hmem)
      obtain ⟨l, hl, hlp⟩ := getLast?_of_ne (hne _ hmem)
      simp only [genReplLoop, genOut, hk, hp, hx, hl, hxp, hlp]
      rw [genReplLoop_eq args hne ts _ _ h.tail]
      simp

/-- **`generate_replacements`, explicitly** -/
theorem genRepl_eq (args : List (List Tok)) (hne : ∀ a ∈ args, a ≠ []) (b : List Tok) (start : Nat)
    (h : RefsOk args.length b) :
    generateReplacements args b start = some (genOut args b (genCur args b start)) := by
  simp only [generateReplacements, initCurPos_eq args hne b start h,
    genReplLoop_eq args hne b _ [] h, List.nil_append]

/-! ### brace groups -/

/-- `{ toks }` with the positions of the braces -/
structure Group where
  p : Nat
  toks : List Tok
  q : Nat

def Group.flat (g : Group) : List Tok := lbr g.p :: (g.toks ++ [rbr g.q])

def groupsFlat : List Group → List Tok
  | [] => []
  | g :: gs => g.flat ++ groupsFlat gs

/-- the tokens of a group can be collected as a braced argument -/
def GroupOk (g : Group) : Prop := g.toks ≠ [] ∧ ∀ t ∈ g.toks, NoBrace t

theorem groupsFlat_append (a b : List Group) : groupsFlat (a ++ b) = groupsFlat a ++ groupsFlat b := by
  induction a with
  | nil => rfl
  | cons g gs ih => simp [groupsFlat, ih]

/-- `collectArgs` for the signature `A…A` on as many brace groups -/
theorem collectArgs_groups (T : PTables) (mac : MacroDef) (rest : Buf) (st : PState) :
    ∀ (gs : List Group) (i : Nat) (pos0 : Nat) (acc : Args), (∀ g ∈ gs, GroupOk g) →
      collectArgs T mac (List.replicate gs.length 'A') i (groupsFlat gs ++ rest) pos0 acc st
        = .ok (({ acc with args := acc.args ++ gs.map (·.toks), extr := acc.extr ++ gs.map (·.toks) },
                rest), st)
  | [], i, pos0, acc, _ => by
    simp [collectArgs, groupsFlat]
    rfl
  | g :: gs, i, pos0, acc, h => by
    obtain ⟨hne, hnb⟩ := h g (List.mem_cons_self ..)
    have hl : isSpaceTok (lbr g.p) = false := rfl
    have a1 := argBuffer_brace T.toTables g.p g.q g.toks (groupsFlat gs ++ rest) g.p st hnb hne
    have hflat : groupsFlat (g :: gs) ++ rest = lbr g.p :: (g.toks ++ rbr g.q :: (groupsFlat gs ++ rest)) := by
      simp [groupsFlat, Group.flat]
    rw [hflat, List.length_cons, List.replicate_succ, collectArgs]
    simp only [skippedLangs_cons_of_not _ _ hl, skipSpace_cons_of_not _ _ hl, List.append_nil,
      List.head?_cons, show ('A' == '*') = false by decide, show ('A' == 'O') = false by decide,
      beq_self_eq_true, if_true, show txtIsNV (lbr g.p) "}" = false by rfl, Bool.false_eq_true, if_false]
    refine (M.bind_ok _ _ _ _ _ a1).trans ?_
    dsimp only [lbr]
    rw [collectArgs_groups T mac rest st gs (i + 1) g.p _ (fun x hx => h x (List.mem_cons_of_mem _ hx))]
    simp

/-! ### the definition -/

/-- a one-character text token -/
def txtTok (p : Nat) (c : Char) : Tok := { kind := .text, pos := p, txt := [c] }

/-- the macro stored by `\newcommand{\name}[n]{body}` -/
def userMacro (name : Str) (n : Nat) (body : List Tok) : MacroDef :=
  { name := name, args := List.replicate n 'A', repl := body }

/-- `[d]` is collected as an optional argument -/
theorem argBuffer_bracket (T : Tables) (p1 p2 p3 : Nat) (d : Char) (h1 : d ≠ ']') (h2 : d ≠ '{')
    (h3 : d ≠ '}') (rest : Buf) (start : Nat) (st : PState) :
    argBuffer T (txtTok p1 '[' :: txtTok p2 d :: txtTok p3 ']' :: rest) start false st
      = .ok (([txtTok p2 d], rest), st) := by
  have e : argBufferPure T.mark (txtTok p1 '[' :: txtTok p2 d :: txtTok p3 ']' :: rest) start false
      = { arg := [txtTok p2 d], buf := rest } := by
    simp [argBufferPure, skipSpace, isSpaceTok, txtTok, collectArg, txtIsNV, isVerb, h1, h2, h3]
  unfold argBuffer
  rw [e]
  rfl

/-- `collectArgs` on `{\name}[d]{body}` for the signature `*AOOA` -/
theorem collectArgs_defN (T : PTables) (mac : MacroDef) (hd : mac.defaults = [])
    (p1 p2 p3 p4 p5 p6 p7 : Nat) (nameTok : Tok) (hname : NoBrace nameTok) (d : Char)
    (h1 : d ≠ ']') (h2 : d ≠ '{') (h3 : d ≠ '}') (b : List Tok)
    (hb : ∀ t ∈ b, NoBrace t) (hbne : b ≠ []) (rest : Buf) (start : Nat) (st : PState) :
    collectArgs T mac ['*', 'A', 'O', 'O', 'A'] 0
        (lbr p1 :: nameTok :: rbr p2 :: txtTok p3 '[' :: txtTok p4 d :: txtTok p5 ']' :: lbr p6 ::
          (b ++ rbr p7 :: rest)) start {} st
      = .ok (({ args := [[], [nameTok], [txtTok p4 d], [], b],
                extr := [[], [nameTok], [txtTok p4 d], [], b], langs := [] }, rest), st) := by
  have hl : ∀ p, isSpaceTok (lbr p) = false := fun _ => rfl
  have hl' : isSpaceTok (txtTok p3 '[') = false := rfl
  have a1 := argBuffer_brace T.toTables p1 p2 [nameTok]
    (txtTok p3 '[' :: txtTok p4 d :: txtTok p5 ']' :: lbr p6 :: (b ++ rbr p7 :: rest)) p1 st
    (by simpa using hname) (by simp)
  have a2 := argBuffer_bracket T.toTables p3 p4 p5 d h1 h2 h3 (lbr p6 :: (b ++ rbr p7 :: rest)) p3 st
  have a3 := argBuffer_brace T.toTables p6 p7 b rest p6 st hb hbne
  simp only [List.cons_append, List.nil_append] at a1
  -- '*'
  rw [collectArgs]
  simp only [skippedLangs_cons_of_not _ _ (hl p1), skipSpace_cons_of_not _ _ (hl p1), List.append_nil,
    List.head?_cons, beq_self_eq_true, if_true, show txtIsNV (lbr p1) "*" = false by rfl,
    Bool.false_eq_true, if_false]
  -- 'A'
  rw [collectArgs]
  simp only [skippedLangs_cons_of_not _ _ (hl p1), skipSpace_cons_of_not _ _ (hl p1), List.append_nil,
    List.head?_cons, show ('A' == '*') = false by decide, show ('A' == 'O') = false by decide,
    beq_self_eq_true, if_true, show txtIsNV (lbr p1) "}" = false by rfl, Bool.false_eq_true, if_false]
  refine (M.bind_ok _ _ _ _ _ a1).trans ?_
  -- 'O': `[d]`
  rw [collectArgs]
  simp only [skippedLangs_cons_of_not _ _ hl', skipSpace_cons_of_not _ _ hl', List.append_nil,
    List.head?_cons, show ('O' == '*') = false by decide, beq_self_eq_true, if_true,
    show txtIsNV (txtTok p3 '[') "[" = true by rfl]
  refine (M.bind_ok _ _ _ _ _ a2).trans ?_
  -- 'O': no default
  rw [collectArgs]
  simp only [skippedLangs_cons_of_not _ _ (hl p6), skipSpace_cons_of_not _ _ (hl p6), List.append_nil,
    List.head?_cons, show ('O' == '*') = false by decide, beq_self_eq_true, if_true,
    show txtIsNV (lbr p6) "[" = false by rfl, Bool.false_eq_true, if_false, hd, List.getElem?_nil]
  -- 'A'
  rw [collectArgs]
  simp only [skippedLangs_cons_of_not _ _ (hl p6), skipSpace_cons_of_not _ _ (hl p6), List.append_nil,
    List.head?_cons, show ('A' == '*') = false by decide, show ('A' == 'O') = false by decide,
    beq_self_eq_true, if_true, show txtIsNV (lbr p6) "}" = false by rfl, Bool.false_eq_true, if_false]
  refine (M.bind_ok _ _ _ _ _ a3).trans ?_
  rw [collectArgs]
  rfl

/-- `get_text_expanded` on one plain token that is not active -/
theorem getTextExpanded_single (T : PTables) (fuel : Nat) (t : Tok) (st : PState) (hp : PlainTok t)
    (ha : (activeChars T st).contains t.txt = false) (hne : t.txt ≠ []) :
    getTextExpanded T (fuel + 3) [t] st = .ok (t.txt, st) := by
  rw [getTextExpanded.eq_2]
  have h := seq_plain_id T st none [t] (fuel + 2) (by simp) ⟨hp, Or.inl ha, trivial⟩
    (by simpa using hne)
  refine (M.bind_ok _ _ _ _ _ h).trans ?_
  have : getTextDirect [t] = t.txt := by simp [getTextDirect, hp.notComment]
  show Outcome.ok _ = _
  simp only [this]

/-- a decimal digit has a value of at most nine (so `h_newcommand` accepts the count) -/
theorem decimalValue_le9 (zeros : List Nat) (c : Char) (n : Nat) (h : decimalValue zeros c = some n) :
    n ≤ 9 := by
  unfold decimalValue at h
  cases hf : zeros.find? (fun z => decide (z ≤ c.toNat) && decide (c.toNat < z + 10)) with
  | none => simp [hf] at h
  | some z =>
    have := List.find?_some hf
    simp only [hf, Option.map_some, Option.some.injEq] at h
    simp only [Bool.and_eq_true, decide_eq_true_eq] at this
    omega

/-- **the handler step.**  On the arguments collected from `{\name}[d]{body}` (no star, the digit
    `d` with value `n`, no default) `h_newcommand` stores the macro with `n` mandatory arguments and
    returns no tokens. -/
theorem callHandler_newcommandN (T : PTables) (fuel : Nat) (buf : Buf) (mac : MacroDef) (nameTok : Tok)
    (hk : nameTok.kind ≠ .comment) (pd : Nat) (d : Char) (n : Nat)
    (hdv : decimalValue T.decimalZeros d = some n) (b : List Tok) (hb : RefsOk n b) (pos : Nat)
    (st : PState) (hdp : PlainTok (txtTok pd d))
    (hda : (activeChars T st).contains [d] = false)
    (hign : st.newcommandIgnore.contains nameTok.txt = false) :
    callHandler T (fuel + 4) .newcommand buf mac [[], [nameTok], [txtTok pd d], [], b] pos st
      = .ok ([], { st with macros := setMacro st.macros (userMacro nameTok.txt n b) }) := by
  have hname : getTextDirect [nameTok] = nameTok.txt := by
    simp [getTextDirect, hk]
  rw [callHandler.eq_4]
  simp only [List.getElem?_cons_succ, List.getElem?_cons_zero]
  refine (M.bind_ok _ _ _ _ _ (rfl : (pure [nameTok] : M (List Tok)) st = _)).trans ?_
  refine (M.bind_ok _ _ _ _ _ (rfl : (pure [txtTok pd d] : M (List Tok)) st = _)).trans ?_
  refine (M.bind_ok _ _ _ _ _ (rfl : (pure [] : M (List Tok)) st = _)).trans ?_
  refine (M.bind_ok _ _ _ _ _ (rfl : (pure b : M (List Tok)) st = _)).trans ?_
  refine (M.bind_ok _ _ _ _ _ (rfl : M.get st = _)).trans ?_
  simp only [hname, hign, Bool.false_eq_true, if_false]
  refine (M.bind_ok _ _ _ _ _ (getTextExpanded_single T fuel (txtTok pd d) st hdp hda (by simp [txtTok]))).trans ?_
  simp only [txtTok, List.isEmpty_cons, Bool.not_false, List.all_cons, List.all_nil, hdv,
    Option.isSome_some, Bool.and_self, if_true, List.foldl_cons, List.foldl_nil, Nat.zero_mul,
    Nat.zero_add, Option.getD_some, List.isEmpty_nil, Bool.not_true, Bool.false_eq_true, if_false]
  have hn9 : ¬ n > 9 := by have := decimalValue_le9 _ _ _ hdv; omega
  simp only [hn9, if_false]
  generalize hfd : List.find? _ b = r
  cases r with
  | some bad =>
    have h1 := List.mem_of_find?_eq_some hfd
    have h2 := List.find?_some hfd
    cases hr : argRef bad with
    | none => simp [hr] at h2
    | some k =>
      obtain ⟨k1, k2⟩ := hb bad h1 k hr
      simp [hr] at h2
      omega
  | none => rfl

theorem expandArguments_defN (T : PTables) (fuel : Nat) (mac : MacroDef) (hmac : ncDeclOk mac = true)
    (p1 p2 p3 p4 p5 p6 p7 : Nat) (nameTok : Tok) (hname : NoBrace nameTok) (hk : nameTok.kind ≠ .comment)
    (d : Char) (n : Nat) (h1 : d ≠ ']') (hdv : decimalValue T.decimalZeros d = some n)
    (b : List Tok) (hb : ∀ t ∈ b, NoBrace t) (hbr : RefsOk n b) (hbne : b ≠ [])
    (rest : Buf) (start : Nat) (st : PState) (hdp : PlainTok (txtTok p4 d))
    (hda : (activeChars T st).contains [d] = false)
    (hign : st.newcommandIgnore.contains nameTok.txt = false) :
    expandArguments T (fuel + 5)
        (lbr p1 :: nameTok :: rbr p2 :: txtTok p3 '[' :: txtTok p4 d :: txtTok p5 ']' :: lbr p6 ::
          (b ++ rbr p7 :: rest)) mac start st
      = .ok (([mkAction start], rest),
             { st with macros := setMacro st.macros (userMacro nameTok.txt n b) }) := by
  obtain ⟨ha, hh, hd, he⟩ := ncDeclOk_facts hmac
  have hnb := plainTok_noBrace hdp
  have h2 : d ≠ '{' := by
    intro e; have := hnb.1; simp [txtIsNV, txtTok, isVerb, e] at this
  have h3 : d ≠ '}' := by
    intro e; have := hnb.2; simp [txtIsNV, txtTok, isVerb, e] at this
  rw [expandArguments.eq_2, ha]
  refine (M.bind_ok _ _ _ _ _
    (collectArgs_defN T mac hd p1 p2 p3 p4 p5 p6 p7 nameTok hname d h1 h2 h3 b hb hbne rest start st)).trans ?_
  simp only [he, hh, List.isEmpty_nil, Bool.not_true, Bool.false_eq_true, if_false,
    show (Handler.newcommand != Handler.none) = true by decide, if_true]
  refine (M.bind_ok _ _ _ _ _
    (callHandler_newcommandN T fuel rest mac nameTok hk p4 d n hdv b hbr start st hdp hda hign)).trans ?_
  rfl

/-- **the definition step of `expandMacro`**: `\newcommand` followed by `{\name}[d]{body}` stores
    the macro, leaves an Action token at the position of `\newcommand` and the buffer behind the
    closing brace -/
theorem expandMacro_defN (T : PTables) (fuel : Nat) (mac : MacroDef) (hmac : ncDeclOk mac = true)
    (p1 p2 p3 p4 p5 p6 p7 : Nat) (nameTok : Tok) (hname : NoBrace nameTok) (hk : nameTok.kind ≠ .comment)
    (d : Char) (n : Nat) (h1 : d ≠ ']') (hdv : decimalValue T.decimalZeros d = some n)
    (b : List Tok) (hb : ∀ t ∈ b, NoBrace t) (hbr : RefsOk n b) (hbne : b ≠ [])
    (rest : Buf) (tok : Tok) (st : PState) (hdp : PlainTok (txtTok p4 d))
    (hda : (activeChars T st).contains [d] = false)
    (hl : lookupMacro st tok.txt = some mac)
    (hign : st.newcommandIgnore.contains nameTok.txt = false) :
    expandMacro T (fuel + 6)
        (lbr p1 :: nameTok :: rbr p2 :: txtTok p3 '[' :: txtTok p4 d :: txtTok p5 ']' :: lbr p6 ::
          (b ++ rbr p7 :: rest)) tok false st
      = .ok (([mkAction tok.pos], rest),
             { st with macros := setMacro st.macros (userMacro nameTok.txt n b) }) := by
  rw [expandMacro.eq_2]
  refine (M.bind_ok _ _ _ _ _ (rfl : M.get st = _)).trans ?_
  simp only [hl, skipSpaceStopLang_cons_of_not _ _ (rfl : isSpaceTok (lbr p1) = false)]
  exact expandArguments_defN T fuel mac hmac p1 p2 p3 p4 p5 p6 p7 nameTok hname hk d n h1 hdv b hb hbr hbne
    rest tok.pos st hdp hda hign

/-! ### the use -/

/-- **the use step of `expandMacro`**: a defined macro with `n` parameters in front of at least `n`
    brace groups returns an Action token and the body with the arguments substituted
    (`genOut`); the buffer continues behind the `n`-th group; the state is unchanged -/
theorem expandMacro_use (T : PTables) (fuel : Nat) (gs : List Group) (rest : Buf) (tok : Tok)
    (st : PState) (nm : Str) (n : Nat) (b : List Tok)
    (hl : lookupMacro st tok.txt = some (userMacro nm n b)) (hn : n ≤ gs.length) (hne : gs ≠ [])
    (hg : ∀ g ∈ gs, GroupOk g) (hr : RefsOk n b) :
    expandMacro T (fuel + 2) (groupsFlat gs ++ rest) tok false st
      = .ok ((mkAction tok.pos ::
                genOut ((gs.take n).map (·.toks)) b (genCur ((gs.take n).map (·.toks)) b tok.pos),
              groupsFlat (gs.drop n) ++ rest), st) := by
  have hskip : skipSpaceStopLangAct (groupsFlat gs ++ rest) = groupsFlat gs ++ rest := by
    cases gs with
    | nil => exact absurd rfl hne
    | cons g gs' => exact skipSpaceStopLang_cons_of_not _ _ (rfl : isSpaceTok (lbr g.p) = false)
  have hlen : (gs.take n).length = n := by simp; omega
  have hsplit : groupsFlat gs ++ rest = groupsFlat (gs.take n) ++ (groupsFlat (gs.drop n) ++ rest) := by
    rw [← List.append_assoc, ← groupsFlat_append, List.take_append_drop]
  have hc := collectArgs_groups T (userMacro nm n b) (groupsFlat (gs.drop n) ++ rest) st (gs.take n) 0
    tok.pos {} (fun g hg' => hg g (List.mem_of_mem_take hg'))
  rw [hlen] at hc
  rw [expandMacro.eq_2]
  refine (M.bind_ok _ _ _ _ _ (rfl : M.get st = _)).trans ?_
  simp only [hl, hskip]
  rw [expandArguments.eq_2]
  simp only [show (userMacro nm n b).args = List.replicate n 'A' from rfl]
  rw [hsplit]
  refine (M.bind_ok _ _ _ _ _ hc).trans ?_
  have hne' : ∀ a ∈ (gs.take n).map (·.toks), a ≠ [] := by
    intro a ha
    obtain ⟨g, hg', rfl⟩ := List.mem_map.mp ha
    exact (hg g (List.mem_of_mem_take hg')).1
  have hr' : RefsOk ((gs.take n).map (·.toks)).length b := by
    rw [List.length_map, hlen]; exact hr
  have hgen := genRepl_eq ((gs.take n).map (·.toks)) hne' b tok.pos hr'
  simp only [userMacro, List.isEmpty_nil, Bool.not_true, Bool.false_eq_true, if_false,
    show (Handler.none != Handler.none) = false by decide, List.nil_append, hgen, List.append_nil]
  rfl

/-- a token that `expandSequence` copies whatever follows: an Action token, or a plain token that is
    not active -/
def CopyTok (T : PTables) (st : PState) (t : Tok) : Prop :=
  (∃ p, t = mkAction p) ∨ (PlainTok t ∧ (activeChars T st).contains t.txt = false)

theorem seq_copy_run (T : PTables) (envStop : Option Str) (st : PState) (rest : Buf)
    (ha : noEmptyActive T st = true) :
    ∀ (pl : List Tok) (fuel : Nat) (out : List Tok), (∀ t ∈ pl, CopyTok T st t) →
      expandSequence T (fuel + pl.length) (pl ++ rest) envStop out st
        = expandSequence T fuel rest envStop (out ++ pl) st
  | [], fuel, out, _ => by simp
  | t :: ts, fuel, out, h => by
    rw [List.length_cons, ← Nat.add_assoc, List.cons_append]
    have ih := seq_copy_run T envStop st rest ha ts fuel (out ++ [t])
      (fun x hx => h x (List.mem_cons_of_mem _ hx))
    rcases h t (List.mem_cons_self ..) with ⟨p, rfl⟩ | ⟨h1, h2⟩
    · rw [seq_action_step T (fuel + ts.length) p (ts ++ rest) envStop out st ha, ih]
      simp
    · rw [seq_plain_step T (fuel + ts.length) t (ts ++ rest) envStop out st h1 (Or.inl h2), ih]
      simp

/-- what the loop emits for brace groups: the braces become Action tokens -/
def groupsOut : List Group → List Tok
  | [] => []
  | g :: gs => mkAction g.p :: (g.toks ++ mkAction g.q :: groupsOut gs)

/-- the tokens of a group are plain and never active -/
def GroupGood (T : PTables) (st : PState) (g : Group) : Prop :=
  g.toks ≠ [] ∧ ∀ t ∈ g.toks, PlainTok t ∧ (activeChars T st).contains t.txt = false

theorem GroupGood.ok {T : PTables} {st : PState} {g : Group} (h : GroupGood T st g) : GroupOk g :=
  ⟨h.1, fun t ht => plainTok_noBrace (h.2 t ht).1⟩

theorem groupsFlat_length : ∀ gs : List Group,
    (groupsFlat gs).length = (groupsOut gs).length
  | [] => rfl
  | g :: gs => by
    simp [groupsFlat, groupsOut, Group.flat, groupsFlat_length gs]

theorem seq_groups (T : PTables) (envStop : Option Str) (st : PState) (rest : Buf)
    (ha : noEmptyActive T st = true) :
    ∀ (gs : List Group) (fuel : Nat) (out : List Tok), (∀ g ∈ gs, GroupGood T st g) →
      expandSequence T (fuel + (groupsFlat gs).length) (groupsFlat gs ++ rest) envStop out st
        = expandSequence T fuel rest envStop (out ++ groupsOut gs) st
  | [], fuel, out, _ => by simp [groupsFlat, groupsOut]
  | g :: gs, fuel, out, h => by
    have hg := h g (List.mem_cons_self ..)
    have ih := seq_groups T envStop st rest ha gs fuel (out ++ mkAction g.p :: (g.toks ++ [mkAction g.q]))
      (fun x hx => h x (List.mem_cons_of_mem _ hx))
    have hflat : groupsFlat (g :: gs) ++ rest
        = lbr g.p :: (g.toks ++ (rbr g.q :: (groupsFlat gs ++ rest))) := by
      simp [groupsFlat, Group.flat]
    have hlen : fuel + (groupsFlat (g :: gs)).length
        = fuel + (groupsFlat gs).length + 1 + g.toks.length + 1 := by
      simp [groupsFlat, Group.flat]; omega
    rw [hflat, hlen,
      seq_brace_step T _ (lbr g.p) _ envStop out st rfl (Or.inl rfl),
      seq_copy_run T envStop st _ ha g.toks _ _ (fun t ht => Or.inr (hg.2 t ht)),
      seq_brace_step T _ (rbr g.q) _ envStop _ st rfl (Or.inr rfl)]
    have e : out ++ [mkAction (lbr g.p).pos] ++ g.toks ++ [mkAction (rbr g.q).pos]
        = out ++ mkAction g.p :: (g.toks ++ [mkAction g.q]) := by simp [lbr, rbr]
    rw [e, ih]
    simp [groupsOut]

/-! ### the token buffers -/

/-- the digit of the number of parameters -/
def digitChar (n : Nat) : Char := Char.ofNat (48 + n)

/-- the pieces of a token buffer: a token that is copied, a definition
    `\\newcommand { \name } [ n ] { body }`, a use `\name { a1 } … { am }` -/
inductive Piece where
  | tok (t : Tok)
  | defn (p q1 q2 q3 q4 q5 q6 q7 q8 : Nat) (name : Str) (n : Nat) (body : List Tok)
  | use (p : Nat) (name : Str) (gs : List Group)

def Piece.toks : Piece → List Tok
  | .tok t => [t]
  | .defn p q1 q2 q3 q4 q5 q6 q7 q8 name n body =>
    cwTok p ncName :: lbr q1 :: cwTok q2 name :: rbr q3 :: txtTok q4 '[' :: txtTok q5 (digitChar n) ::
      txtTok q6 ']' :: lbr q7 :: (body ++ [rbr q8])
  | .use p name gs => cwTok p name :: groupsFlat gs

/-- the token buffer -/
def flat : List Piece → List Tok
  | [] => []
  | p :: ps => p.toks ++ flat ps

/-- a token of a body: a plain token that is never active, or a reference `#k` with `1 ≤ k ≤ n` -/
def BodyTok (T : PTables) (st : PState) (n : Nat) (t : Tok) : Prop :=
  (PlainTok t ∧ (activeChars T st).contains t.txt = false) ∨
  (∃ k, argRef t = some k ∧ 1 ≤ k ∧ k ≤ n ∧ NoBrace t)

def GoodBody (T : PTables) (st : PState) (n : Nat) (b : List Tok) : Prop :=
  b ≠ [] ∧ ∀ t ∈ b, BodyTok T st n t

theorem GoodBody.refs {T : PTables} {st : PState} {n : Nat} {b : List Tok} (h : GoodBody T st n b) :
    RefsOk n b := by
  intro t ht k hk
  rcases h.2 t ht with ⟨hp, _⟩ | ⟨k', hk', h1, h2, _⟩
  · rw [plainTok_argRef hp] at hk; cases hk
  · rw [hk] at hk'; cases hk'; exact ⟨h1, h2⟩

theorem GoodBody.noBrace {T : PTables} {st : PState} {n : Nat} {b : List Tok} (h : GoodBody T st n b) :
    ∀ t ∈ b, NoBrace t := by
  intro t ht
  rcases h.2 t ht with ⟨hp, _⟩ | ⟨_, _, _, _, h4⟩
  · exact plainTok_noBrace hp
  · exact h4

/-- the digit `n` as it is needed: the tables give it the value `n`, it is no `]`, its token is
    plain and never active -/
structure DigitOk (T : PTables) (st : PState) (n : Nat) : Prop where
  val : decimalValue T.decimalZeros (digitChar n) = some n
  nBr : digitChar n ≠ ']'
  plain : ∀ p, PlainTok (txtTok p (digitChar n))
  nAct : (activeChars T st).contains [digitChar n] = false

def PiecesOk (T : PTables) (st1 : PState) : List Piece → Prop
  | [] => True
  | .tok t :: rest => PlainTok t ∧ PassTok T st1 t (flat rest) ∧ PiecesOk T st1 rest
  | .defn _ _ _ _ _ _ _ _ _ name n body :: rest =>
    NameOk st1 name ∧ DigitOk T st1 n ∧ GoodBody T st1 n body ∧ PiecesOk T st1 rest
  | .use _ name gs :: rest =>
    NameOk st1 name ∧ gs ≠ [] ∧ (∀ g ∈ gs, GroupGood T st1 g) ∧ PiecesOk T st1 rest

/-- the parser state while the document is expanded, relative to the initialised state `st1`:
    declared macros keep their meaning, every other macro is a user macro with a good body -/
structure StOk (T : PTables) (st1 st : PState) : Prop where
  lang : st.langStack = st1.langStack
  ign : st.newcommandIgnore = st1.newcommandIgnore
  decl : ∀ nm m, lookupMacro st1 nm = some m → lookupMacro st nm = some m
  user : ∀ nm m, lookupMacro st1 nm = none → lookupMacro st nm = some m →
    ∃ n b, m = userMacro nm n b ∧ GoodBody T st1 n b

theorem StOk.refl (T : PTables) (st1 : PState) : StOk T st1 st1 :=
  ⟨rfl, rfl, fun _ _ h => h, fun nm m h1 h2 => by rw [h1] at h2; cases h2⟩

/-- the state after a definition -/
def defSt (st : PState) (name : Str) (n : Nat) (body : List Tok) : PState :=
  { st with macros := setMacro st.macros (userMacro ('\\' :: name) n body) }

/-- the state after a use: an undefined name is recorded -/
def useSt (st : PState) (name : Str) : PState :=
  match lookupMacro st ('\\' :: name) with
  | some _ => st
  | none => { st with unknowns := addU st.unknowns ('\\' :: name) }

/-- the number of groups a use consumes: the number of parameters of the macro, 0 if undefined -/
def useN (st : PState) (name : Str) : Nat :=
  match lookupMacro st ('\\' :: name) with
  | some m => m.args.length
  | none => 0

/-- the tokens a use at position `p` in front of the groups `gs` inserts -/
def useBody (st : PState) (p : Nat) (name : Str) (gs : List Group) : List Tok :=
  match lookupMacro st ('\\' :: name) with
  | some m =>
    genOut ((gs.take m.args.length).map (·.toks)) m.repl
      (genCur ((gs.take m.args.length).map (·.toks)) m.repl p)
  | none => []

theorem StOk.defSt {T : PTables} {st1 st : PState} (h : StOk T st1 st) (name : Str) (n : Nat)
    (body : List Tok) (hn : NameOk st1 name) (hb : GoodBody T st1 n body) :
    StOk T st1 (defSt st name n body) := by
  refine ⟨h.lang, h.ign, ?_, ?_⟩
  · intro nm m hm
    rw [PlainMacroArgs.defSt, lookup_setMacro]
    have : (userMacro ('\\' :: name) n body).name ≠ nm := by
      intro e
      have : lookupMacro st1 nm = none := by rw [← e]; exact hn.undecl
      rw [this] at hm; cases hm
    rw [if_neg (by simpa using this)]
    exact h.decl nm m hm
  · intro nm m h1 h2
    rw [PlainMacroArgs.defSt, lookup_setMacro] at h2
    by_cases e : (userMacro ('\\' :: name) n body).name = nm
    · rw [if_pos (by simpa using e)] at h2
      cases h2
      exact ⟨n, body, by rw [← e]; rfl, hb⟩
    · rw [if_neg (by simpa using e)] at h2
      exact h.user nm m h1 h2

theorem StOk.useSt {T : PTables} {st1 st : PState} (h : StOk T st1 st) (name : Str) :
    StOk T st1 (useSt st name) := by
  unfold PlainMacroArgs.useSt
  split
  · exact h
  · exact ⟨h.lang, h.ign, h.decl, h.user⟩

/-- what `expandSequence` emits for the pieces before the blank-line removal -/
def outP : PState → List Piece → List Tok
  | _, [] => []
  | st, .tok t :: rest => t :: outP st rest
  | st, .defn p _ _ _ _ _ _ _ _ name n body :: rest => mkAction p :: outP (defSt st name n body) rest
  | st, .use p name gs :: rest =>
    mkAction p :: (useBody st p name gs ++ (groupsOut (gs.drop (useN st name)) ++ outP (useSt st name) rest))

/-- the state after the pieces -/
def finalSt : PState → List Piece → PState
  | st, [] => st
  | st, .tok _ :: rest => finalSt st rest
  | st, .defn _ _ _ _ _ _ _ _ _ name n body :: rest => finalSt (defSt st name n body) rest
  | st, .use _ name _ :: rest => finalSt (useSt st name) rest

/-- iterations of `expandSequence` -/
def cost : PState → List Piece → Nat
  | _, [] => 0
  | st, .tok _ :: rest => 1 + cost st rest
  | st, .defn _ _ _ _ _ _ _ _ _ name n body :: rest => 2 + cost (defSt st name n body) rest
  | st, .use p name gs :: rest =>
    2 + (useBody st p name gs).length + (groupsOut (gs.drop (useN st name))).length
      + cost (useSt st name) rest

/-- every use has at least as many groups as the macro in force has parameters -/
def ArityOk : PState → List Piece → Prop
  | _, [] => True
  | st, .tok _ :: rest => ArityOk st rest
  | st, .defn _ _ _ _ _ _ _ _ _ name n body :: rest => ArityOk (defSt st name n body) rest
  | st, .use _ name gs :: rest => useN st name ≤ gs.length ∧ ArityOk (useSt st name) rest

theorem noEmptyActive_of_StOk {T : PTables} {st1 st : PState} (h : StOk T st1 st)
    (ha : noEmptyActive T st1 = true) : noEmptyActive T st = true :=
  (noEmptyActive_congr T st1 st h.lang).trans ha

/-- **the definition step of `expandSequence`**: two iterations (the macro, then the Action token
    it leaves); the macro is stored, nothing but the Action token is emitted -/
theorem seq_def_step (T : PTables) (fuel : Nat) (p q1 q2 q3 q4 q5 q6 q7 q8 : Nat) (name : Str) (n : Nat)
    (body : List Tok) (rest : Buf) (envStop : Option Str) (out : List Tok) (st1 st : PState)
    (hst : StOk T st1 st) (hnc : NcOk st1) (hn : NameOk st1 name) (hd : DigitOk T st1 n)
    (hb : GoodBody T st1 n body) (ha : noEmptyActive T st1 = true) :
    expandSequence T (fuel + 7)
        (cwTok p ncName :: lbr q1 :: cwTok q2 name :: rbr q3 :: txtTok q4 '[' :: txtTok q5 (digitChar n) ::
          txtTok q6 ']' :: lbr q7 :: (body ++ rbr q8 :: rest))
        envStop out st
      = expandSequence T (fuel + 5) rest envStop (out ++ [mkAction p]) (defSt st name n body) := by
  obtain ⟨m, hm, hmd⟩ := hnc
  have hm' : lookupMacro st (cwTok p ncName).txt = some m := hst.decl _ _ hm
  have hign : st.newcommandIgnore.contains (cwTok q2 name).txt = false := by
    rw [hst.ign]; exact hn.nIgn
  have hda : (activeChars T st).contains [digitChar n] = false := by
    rw [activeChars_congr T st1 st hst.lang]; exact hd.nAct
  have hmac := expandMacro_defN T fuel m hmd q1 q3 q4 q5 q6 q7 q8 (cwTok q2 name) (cwTok_noBrace q2 name)
    (by simp [cwTok]) (digitChar n) n hd.nBr hd.val body hb.noBrace hb.refs hb.1
    rest (cwTok p ncName) st (hd.plain q5) hda hm' hign
  rw [expandSequence.eq_3]
  show M.bind' M.get _ st = _
  simp only [M.bind', M.get]
  have hk : (cwTok p ncName).kind = .xmacro := rfl
  have hdf : txtIs (cwTok p ncName) "\\def" = false := by
    have : ('\\' :: ncName) ≠ sDef := by decide
    simpa [txtIs, cwTok, sDef] using this
  simp only [hk, hdf, Bool.false_eq_true, if_false, if_true, reduceCtorEq, beq_iff_eq, beq_self_eq_true]
  refine (M.bind_ok _ _ _ _ _ hmac).trans ?_
  simp only [List.singleton_append]
  exact seq_action_step T (fuel + 5) p rest envStop out _
    (noEmptyActive_of_StOk (hst.defSt name n body hn hb) ha)

theorem argAt_mem_or_nil (args : List (List Tok)) (k : Nat) : argAt args k ∈ args ∨ argAt args k = [] := by
  unfold argAt
  cases h : args[k - 1]? with
  | none => exact Or.inr rfl
  | some a => exact Or.inl (List.mem_of_getElem? h)

/-- the tokens of an expansion are copied by the loop -/
theorem genOut_copy (T : PTables) (st : PState) (n : Nat) (args : List (List Tok))
    (hargs : ∀ a ∈ args, ∀ t ∈ a, PlainTok t ∧ (activeChars T st).contains t.txt = false) :
    ∀ (b : List Tok) (cur : Nat), (∀ t ∈ b, BodyTok T st n t) → ∀ t ∈ genOut args b cur, CopyTok T st t
  | [], _, _, t, ht => by simp [genOut] at ht
  | u :: us, cur, hb, t, ht => by
    have ih := fun c => genOut_copy T st n args hargs us c (fun x hx => hb x (List.mem_cons_of_mem _ hx))
    cases hk : argRef u with
    | none =>
      simp only [genOut, hk, List.mem_cons] at ht
      rcases ht with rfl | ht
      · rcases hb u (List.mem_cons_self ..) with ⟨h1, h2⟩ | ⟨k, hk', _⟩
        · exact Or.inr ⟨plainTok_restamp cur u h1, h2⟩
        · rw [hk] at hk'; cases hk'
      · exact ih _ t ht
    | some k =>
      simp only [genOut, hk, List.mem_cons, List.mem_append] at ht
      rcases ht with rfl | ht | rfl | ht
      · exact Or.inl ⟨_, rfl⟩
      · rcases argAt_mem_or_nil args k with hm | hm
        · exact Or.inr (hargs _ hm t ht)
        · rw [hm] at ht; simp at ht
      · exact Or.inl ⟨_, rfl⟩
      · exact ih _ t ht

theorem GroupGood.congr {T : PTables} {st st' : PState} (hl : st'.langStack = st.langStack)
    {g : Group} (h : GroupGood T st g) : GroupGood T st' g :=
  ⟨h.1, fun t ht => ⟨(h.2 t ht).1, by rw [activeChars_congr T st st' hl]; exact (h.2 t ht).2⟩⟩

theorem skip_groups (gs : List Group) (rest : Buf) (hne : gs ≠ []) :
    skipSpaceStopLangAct (groupsFlat gs ++ rest) = groupsFlat gs ++ rest := by
  cases gs with
  | nil => exact absurd rfl hne
  | cons g gs' => exact skipSpaceStopLang_cons_of_not _ _ (rfl : isSpaceTok (lbr g.p) = false)

/-- **the use step of `expandSequence`.**  A defined name: the macro token, the Action token, one
    iteration per token of the expansion, then the groups that are left.  An undefined name:
    recorded as unknown, an Action token, the groups. -/
theorem seq_use_step (T : PTables) (fuel : Nat) (p : Nat) (name : Str) (gs : List Group)
    (rest : Buf) (envStop : Option Str) (out : List Tok) (st1 st : PState)
    (hst : StOk T st1 st) (hn : NameOk st1 name) (ha : noEmptyActive T st1 = true)
    (hne : gs ≠ []) (hg : ∀ g ∈ gs, GroupGood T st1 g) (har : useN st name ≤ gs.length) :
    expandSequence T
        (fuel + (2 + (useBody st p name gs).length + (groupsOut (gs.drop (useN st name))).length))
        (cwTok p name :: (groupsFlat gs ++ rest)) envStop out st
      = expandSequence T fuel rest envStop
          (out ++ mkAction p :: (useBody st p name gs ++ groupsOut (gs.drop (useN st name))))
          (useSt st name) := by
  have ha' := noEmptyActive_of_StOk hst ha
  have hk : (cwTok p name).kind = .xmacro := rfl
  have hd : txtIs (cwTok p name) "\\def" = false := by
    simpa [txtIs, cwTok, sDef] using hn.nDef
  cases hl : lookupMacro st ('\\' :: name) with
  | none =>
    have e1 : useBody st p name gs = [] := by simp [useBody, hl]
    have e2 : useSt st name = { st with unknowns := addU st.unknowns ('\\' :: name) } := by
      simp [useSt, hl]
    have e3 : useN st name = 0 := by simp [useN, hl]
    rw [e1, e2, e3, List.drop_zero]
    have hf : fuel + (2 + ([] : List Tok).length + (groupsOut gs).length)
        = fuel + (groupsFlat gs).length + 2 := by
      rw [groupsFlat_length]; simp; omega
    have hs := seq_groups T envStop { st with unknowns := addU st.unknowns (cwTok p name).txt } rest
      ((noEmptyActive_congr T st _ rfl).trans ha') gs fuel (out ++ [mkAction (cwTok p name).pos])
      (fun g hg' => (hg g hg').congr hst.lang)
    rw [hf, seq_cw_step T _ (cwTok p name) _ envStop out st ⟨hk, hd, hl⟩ ha',
      skip_groups gs rest hne, hs]
    simp [cwTok]
  | some m =>
    obtain ⟨n, b, rfl, hb⟩ := hst.user _ m hn.undecl hl
    have e3 : useN st name = n := by simp [useN, hl, userMacro]
    rw [e3] at har ⊢
    have e1 : useBody st p name gs
        = genOut ((gs.take n).map (·.toks)) b (genCur ((gs.take n).map (·.toks)) b p) := by
      simp [useBody, hl, userMacro]
    have e2 : useSt st name = st := by simp [useSt, hl]
    rw [e1, e2]
    have hGpos : 1 ≤ (genOut ((gs.take n).map (·.toks)) b (genCur ((gs.take n).map (·.toks)) b p)).length := by
      have := hb.1
      cases b with
      | nil => exact absurd rfl this
      | cons u us => simp only [genOut]; split <;> simp
    generalize hG : genOut ((gs.take n).map (·.toks)) b (genCur ((gs.take n).map (·.toks)) b p) = G at hGpos
    obtain ⟨g, hg'⟩ : ∃ g, fuel + (2 + G.length + (groupsOut (gs.drop n)).length) = g + 2 + 1 :=
      ⟨fuel + G.length + (groupsOut (gs.drop n)).length - 1, by omega⟩
    rw [hg', expandSequence.eq_3]
    show M.bind' M.get _ st = _
    simp only [M.bind', M.get]
    simp only [hk, hd, Bool.false_eq_true, if_false, if_true, reduceCtorEq, beq_iff_eq,
      beq_self_eq_true]
    have hgst : ∀ x ∈ gs, GroupGood T st x := fun x hx => (hg x hx).congr hst.lang
    refine (M.bind_ok _ _ _ _ _ (expandMacro_use T g gs rest (cwTok p name) st _ n b hl har hne
      (fun x hx => (hgst x hx).ok) hb.refs)).trans ?_
    simp only [show (cwTok p name).pos = p from rfl, hG]
    have hcopy : ∀ t ∈ mkAction p :: G, CopyTok T st t := by
      intro t ht
      rcases List.mem_cons.mp ht with rfl | ht
      · exact Or.inl ⟨_, rfl⟩
      · rw [← hG] at ht
        refine genOut_copy T st n _ ?_ b _ ?_ t ht
        · intro a ha2 u hu
          obtain ⟨x, hx, rfl⟩ := List.mem_map.mp ha2
          exact (hgst x (List.mem_of_mem_take hx)).2 u hu
        · intro u hu
          rcases hb.2 u hu with ⟨h1, h2⟩ | h3
          · exact Or.inl ⟨h1, by rw [activeChars_congr T st1 st hst.lang]; exact h2⟩
          · exact Or.inr h3
    have hg2 : g + 2 = fuel + (groupsFlat (gs.drop n)).length + (mkAction p :: G).length := by
      rw [groupsFlat_length]; simp only [List.length_cons]; omega
    rw [hg2, seq_copy_run T envStop st _ ha' (mkAction p :: G) _ _ hcopy,
      seq_groups T envStop st rest ha' (gs.drop n) fuel _ (fun x hx => hgst x (List.mem_of_mem_drop hx))]
    simp

/-- **the loop on a buffer of plain tokens, definitions and uses.**  The output is the blank-line
    removal applied to `outP`; the state is `finalSt`.  Fuel: `cost` plus five (the handler of the
    last definition nests six calls deep). -/
theorem seq_macro (T : PTables) (envStop : Option Str) (st1 : PState) (hnc : NcOk st1)
    (ha : noEmptyActive T st1 = true) :
    ∀ (ps : List Piece) (fuel : Nat) (out : List Tok) (st : PState),
      cost st ps + 5 ≤ fuel → PiecesOk T st1 ps → ArityOk st ps → StOk T st1 st →
      expandSequence T fuel (flat ps) envStop out st
        = match removeLines (out ++ outP st ps) with
          | some r => .ok ((r, []), finalSt st ps)
          | none => .outOfFuel := by
  intro ps
  induction ps with
  | nil =>
    intro fuel out st hf _ _ _
    obtain ⟨f, rfl⟩ : ∃ f, fuel = f + 1 := ⟨fuel - 1, by omega⟩
    simp only [flat, outP, finalSt, List.append_nil]
    rw [expandSequence.eq_2]
    cases removeLines out <;> rfl
  | cons pc ps ih =>
    intro fuel out st hf hok har hst
    cases pc with
    | tok t =>
      simp only [cost] at hf
      obtain ⟨f, rfl⟩ : ∃ f, fuel = f + 1 := ⟨fuel - 1, by omega⟩
      simp only [flat, Piece.toks, List.singleton_append]
      rw [seq_plain_step T f t (flat ps) envStop out st hok.1 (PassTok_congr hst.lang hok.2.1),
        ih f (out ++ [t]) st (by omega) hok.2.2 har hst]
      simp only [outP, finalSt, List.append_assoc, List.singleton_append]
    | defn p q1 q2 q3 q4 q5 q6 q7 q8 name n body =>
      obtain ⟨hn, hd, hb, hrest⟩ := hok
      simp only [cost] at hf
      obtain ⟨f, rfl⟩ : ∃ f, fuel = f + 7 := ⟨fuel - 7, by omega⟩
      have hflat : flat (Piece.defn p q1 q2 q3 q4 q5 q6 q7 q8 name n body :: ps)
          = cwTok p ncName :: lbr q1 :: cwTok q2 name :: rbr q3 :: txtTok q4 '[' ::
            txtTok q5 (digitChar n) :: txtTok q6 ']' :: lbr q7 :: (body ++ rbr q8 :: flat ps) := by
        simp [flat, Piece.toks]
      rw [hflat, seq_def_step T f p q1 q2 q3 q4 q5 q6 q7 q8 name n body (flat ps) envStop out st1 st hst
        hnc hn hd hb ha, ih (f + 5) _ _ (by omega) hrest har (hst.defSt name n body hn hb)]
      simp only [outP, finalSt, List.append_assoc, List.singleton_append]
    | use p name gs =>
      obtain ⟨hn, hne, hg, hrest⟩ := hok
      obtain ⟨har1, har2⟩ := har
      simp only [cost] at hf
      obtain ⟨f, hf'⟩ : ∃ f, fuel = f + (2 + (useBody st p name gs).length
          + (groupsOut (gs.drop (useN st name))).length) :=
        ⟨fuel - (2 + (useBody st p name gs).length + (groupsOut (gs.drop (useN st name))).length), by omega⟩
      have hflat : flat (Piece.use p name gs :: ps) = cwTok p name :: (groupsFlat gs ++ flat ps) := by
        simp [flat, Piece.toks]
      rw [hflat, hf', seq_use_step T f p name gs (flat ps) envStop out st1 st hst hn ha hne hg har1,
        ih f _ _ (by omega) hrest har2 (hst.useSt name)]
      simp only [outP, finalSt, List.append_assoc, List.cons_append]

end PlainMacroArgs
end Yalafi
