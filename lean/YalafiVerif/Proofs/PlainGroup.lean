/-
  Proofs/PlainGroup.lean — C03 "every word in arguments of unknown or pass-through macros appears
  exactly once, in order; no markup is left" and C02 "arguments of unknown or pass-through macros
  carry the offset of that very character", end to end on the model, for documents of inert text,
  UNDECLARED CONTROL WORDS and BRACE GROUPS, nested arbitrarily:

      item ::= inert text | `{` items `}` | `\name`

  so that a call with braced arguments `\name{a}{b}` is the control word followed by two groups
  (`mac name [a, b]`), and `\textbf{bold \emph{and nested}}` is a control word and a group that holds
  text, a control word and a group.  (Undeclared control words WITHOUT groups: Proofs/PlainUnknown.lean,
  whose result is up to white space; here the output is exact.)

  What the model does (found with `#eval`, then proved): `expand_sequence` never recurses for these
  constructs.  The scanner yields one macro token for `\name` and one special token for each brace.
  The main loop hands an undeclared macro token to `expand_macro`, which skips the space token behind
  the name (`skip_space(stop_lang, stop_action)`: a run of white space with at most one line break;
  a run with two or more line breaks is a paragraph token and stays), records the name in `unknowns`
  and returns one Action token; `{` and `}` become one Action token each.  The arguments simply stay
  in the text flow.  `remove_pure_action_lines` then deletes every line that consists only of white
  space and Action tokens (at least one), together with its line break, and drops the text-less
  tokens.

  Documents
    `Item`, `render`           the recursive document type (nesting depth unbounded) and its source text
    `mac name args`            `\name{a1}…{an}` = `.cw name :: args.map .grp`
    `Atom`, `atoms`, `renderA` the document flattened: a character, `{`, `}`, a control word;
                               `render_eq : render doc = renderA (atoms doc)`.  Everything below the
                               statement lives on atoms — the braces need not even be balanced
                               (`tex2txt_atoms`), the nesting is only in `render` / `atoms`.
  Reference output
    `marksA`, `marks`          the source as a list of `PlainMacro.Mark`s: `some (c, pos)` for a text
                               character, `none` for a brace or a control word; behind a control word
                               `dropSp` drops the white space up to the next other mark unless it holds
                               two or more line breaks
    `namesA`, `names`          the control words (with backslash) in order of occurrence
    `PlainMacro.delLines`      the character-level model of `remove_pure_action_lines`
  Side conditions
    `atomsOk`, `docOk`, `DocOk` (computable, decidable)
  Expander level
    `GSeq`, `gErase`, `seq_grp`   the loop over the FLAT token list: plain tokens copied, macro token ↦
                               Action + skip, brace ↦ Action; names recorded
  Source level
    `OkSrc`, `scanSteps_grp`, `scan_grp`   the scanner, and what `gErase` of its tokens means
                               (`marksOf (gErase false toks) = marks`)
  Lifts
    `parserWork_grp`, `parse_grp`, `tex2txt_grp_src`, `tex2txt_atoms`, `tex2txt_groups`
  Readings (used by Properties/PlainGroupStmt.lean)
    `plain`                    the characters of the marks
    `marksA_src`               a character mark is the source character at its position
    `marksA_text`, `atomsOk_chr`, `not_markup`   … and a text character, hence no `\ { }`
    `delLines_sublist`, `marksA_sorted`, `delLines_sorted`   the output is a subsequence of the character
                               marks; its positions are strictly increasing
    `tight`, `textOf`, `plain_tight`   without white space behind control words `plain` = all text characters
  Simpler sufficient conditions
    `tablesOk`, `atomsOkSimple`, `docOkSimple`, `docOk_of_simple`   per character / per name; the only
                               context left is the character behind a control word

  The end-to-end statement `tex2txt_groups`.  `tex2txt` succeeds; text and (1-based) positions are
  `delLines (marks 0 doc)`: every text character — at whatever depth of groups / arguments — is copied
  with its own source position, in order, exactly once; braces and control words leave nothing; the
  white space directly behind a control word is dropped (at most one line break; `\foo {a}` gives
  `a`); then every line is deleted (with its line break) that consists of white space only and
  holds at least one brace or control word.  `unknowns` = the control words, each once, in order of
  first occurrence; no diagnostic is added.

  Side conditions (all in `DocOk T st1 doc`; `st1` = state after `Parser.__init__`)
    `noEmptyActive T st1`      the empty string is no "active character" (else the text-less Action
                               tokens would go to `expand_short_macro`); real tables: yes
    text characters            `okAt` of Proofs/PlainUnknown.lean, in their right context (the whole rest
                               of the source, across braces and control words): not active, or no short
                               macro with the next token; white space, or none of `% # \ $ { }` and no
                               special sequence of the tables matches there (real tables: `~ & _ ^` and the
                               sequences `-- --- '' `` ` are not inert; a single `-` or `'` is)
    braces                     `braceAt`: the scanner makes the one-character special token of it (real
                               tables: `{` and `}` are special sequences and no longer one starts with a
                               brace: `tablesOk`)
    control words              `cwOk` of Proofs/PlainUnknown.lean: a non-empty string of ASCII letters / `@`
                               that is not continued by the next character, no special sequence matches at
                               the backslash, none of `\begin \end \item \verb \def`, no accent macro
                               (`\u{x}`, `\v{x}`, `\c{x}` … are accents, not unknown macros), NOT DECLARED
                               in `st1`
    options                    no --defs, --extr, --repl, --unkn; single-language mode
    fuel                       `(render doc).length + 2 ≤ fuel`

  NOT covered: declared macros (pass-through macros like `\textbf` under `--pack` with a declaration
  `\textbf{#1}` go through `expand_arguments`, cf. Proofs/PlainMacroArgs.lean for user definitions);
  optional arguments in brackets (they would be plain text here: `[` `]` are inert characters, so
  `\foo[x]{y}` IS covered and yields `[x]y`, which is what the filter does for unknown macros);
  control symbols (`\,` `\%` …), `$`, `%`, `#`, `&`, `~`, `_`, `^` inside the groups; `--unkn`;
  multi-language mode.
-/
import YalafiVerif.Proofs.PlainVanish
namespace Yalafi
namespace PlainGroup

open M
open PlainMacro

/-! ### the documents -/

/-- an item of the source: a run of text, a brace group, or a control word `\name` -/
inductive Item where
  | txt (s : Str)
  | grp (body : List Item)
  | cw (name : Str)
deriving Repr

/-- `\name{a1}…{an}`: the control word, directly followed by `n` brace groups -/
def mac (name : Str) (args : List (List Item)) : List Item := .cw name :: args.map .grp

mutual
def Item.render : Item → Str
  | .txt s => s
  | .grp body => '{' :: (render body ++ ['}'])
  | .cw name => '\\' :: name
/-- the source text -/
def render : List Item → Str
  | [] => []
  | i :: rest => i.render ++ render rest
end

/-- the document without its nesting: a text character, an opening brace, a closing brace, a
    control word -/
inductive Atom where
  | chr (c : Char)
  | opn
  | cls
  | cw (name : Str)
deriving Repr, DecidableEq

mutual
def Item.atoms : Item → List Atom
  | .txt s => s.map .chr
  | .grp body => .opn :: (atoms body ++ [.cls])
  | .cw name => [.cw name]
/-- the flattened document -/
def atoms : List Item → List Atom
  | [] => []
  | i :: rest => i.atoms ++ atoms rest
end

def Atom.render : Atom → Str
  | .chr c => [c]
  | .opn => ['{']
  | .cls => ['}']
  | .cw name => '\\' :: name

/-- the source text of a flattened document -/
def renderA : List Atom → Str
  | [] => []
  | a :: r => a.render ++ renderA r

theorem renderA_append : ∀ (a b : List Atom), renderA (a ++ b) = renderA a ++ renderA b
  | [], _ => rfl
  | x :: a, b => by simp [renderA, renderA_append a b]

theorem renderA_chr : ∀ (s : Str), renderA (s.map .chr) = s
  | [] => rfl
  | c :: s => by simp [renderA, Atom.render, renderA_chr s]

mutual
theorem Item.render_eq : ∀ (i : Item), i.render = renderA i.atoms
  | .txt s => by simp [Item.render, Item.atoms, renderA_chr]
  | .grp body => by
    simp [Item.render, Item.atoms, renderA, Atom.render, renderA_append, render_eq body]
  | .cw name => by simp [Item.render, Item.atoms, renderA, Atom.render]
/-- flattening does not change the source text -/
theorem render_eq : ∀ (d : List Item), render d = renderA (atoms d)
  | [] => rfl
  | i :: rest => by simp [render, atoms, renderA_append, Item.render_eq i, render_eq rest]
end

/-! ### the reference output -/

/-- a mark that is a white-space character -/
def spMark : Mark → Bool
  | some cp => isSpace cp.1
  | none => false

/-- a mark that is a line break -/
def nlMark : Mark → Bool
  | some cp => cp.1 == nl
  | none => false

/-- what `skip_space` does behind a control word: the run of white space in front (up to the next
    visible character, brace or control word) is dropped if it holds at most one line break (a space
    token); with two or more line breaks it is a paragraph token and stays -/
def dropSp (ms : List Mark) : List Mark :=
  if (ms.takeWhile spMark).countP nlMark < 2 then ms.dropWhile spMark else ms

/-- **the reference**: the flattened document, which starts at position `p`, as a list of marks —
    a text character with its own position, `none` for a brace and for a control word; the white
    space behind a control word is dropped (`dropSp`) -/
def marksA : Nat → List Atom → List Mark
  | _, [] => []
  | p, .chr c :: r => some (c, p) :: marksA (p + 1) r
  | p, .opn :: r => none :: marksA (p + 1) r
  | p, .cls :: r => none :: marksA (p + 1) r
  | p, .cw name :: r => none :: dropSp (marksA (p + (name.length + 1)) r)

/-- the control words, with backslash, in order of occurrence -/
def namesA : List Atom → List Str
  | [] => []
  | .cw name :: r => ('\\' :: name) :: namesA r
  | _ :: r => namesA r

/-- the marks of a document that starts at position `p` -/
def marks (p : Nat) (d : List Item) : List Mark := marksA p (atoms d)

/-- the control words of a document -/
def names (d : List Item) : List Str := namesA (atoms d)

/-! ### the side conditions -/

/-- well-formed flattened documents: every atom is fine in front of the rendering of the following
    ones (`okAt`, `cwOk` of Proofs/PlainUnknown.lean, `braceAt` of Proofs/PlainMacro.lean) -/
def atomsOk (T : PTables) (st : PState) : List Atom → Bool
  | [] => true
  | .chr c :: r => okAt T st c (renderA r) && atomsOk T st r
  | .opn :: r => braceAt T '{' (renderA r) && atomsOk T st r
  | .cls :: r => braceAt T '}' (renderA r) && atomsOk T st r
  | .cw name :: r => cwOk T st name (renderA r) && atomsOk T st r

/-- well-formed documents -/
def docOk (T : PTables) (st : PState) (d : List Item) : Bool := atomsOk T st (atoms d)

/-- all side conditions on the tables, the initialised parser state and the document -/
def DocOk (T : PTables) (st : PState) (d : List Item) : Prop :=
  noEmptyActive T st = true ∧ docOk T st d = true

instance (T : PTables) (st : PState) (d : List Item) : Decidable (DocOk T st d) := by
  unfold DocOk; infer_instance

/-! ### `dropSp` -/

/-- the list does not start with a white-space mark -/
def NoSp (ms : List Mark) : Prop := ∀ m ms', ms = m :: ms' → spMark m = false

theorem dropSp_noSp {ms : List Mark} (h : NoSp ms) : dropSp ms = ms := by
  cases ms with
  | nil => simp [dropSp]
  | cons m ms' =>
    have := h m ms' rfl
    simp [dropSp, this]

theorem dropSp_none (ms : List Mark) : dropSp (none :: ms) = none :: ms :=
  dropSp_noSp (by intro m ms' e; cases e; rfl)

theorem takeWhile_run (W : List (Char × Nat)) (hW : ∀ cp ∈ W, isSpace cp.1 = true) (ms : List Mark)
    (h : NoSp ms) : (W.map some ++ ms).takeWhile spMark = W.map some := by
  induction W with
  | nil =>
    cases ms with
    | nil => rfl
    | cons m ms' => simp [h m ms' rfl]
  | cons cp W ih =>
    have h1 : spMark (some cp) = true := hW cp (List.mem_cons_self ..)
    simp only [List.map_cons, List.cons_append, List.takeWhile_cons, h1, if_true]
    rw [ih (fun x hx => hW x (List.mem_cons_of_mem _ hx))]

theorem dropWhile_run (W : List (Char × Nat)) (hW : ∀ cp ∈ W, isSpace cp.1 = true) (ms : List Mark)
    (h : NoSp ms) : (W.map some ++ ms).dropWhile spMark = ms := by
  induction W with
  | nil =>
    cases ms with
    | nil => rfl
    | cons m ms' => simp [h m ms' rfl]
  | cons cp W ih =>
    have h1 : spMark (some cp) = true := hW cp (List.mem_cons_self ..)
    simp only [List.map_cons, List.cons_append, List.dropWhile_cons, h1, if_true]
    exact ih (fun x hx => hW x (List.mem_cons_of_mem _ hx))

theorem countP_nlMark_posText : ∀ (w : Str) (p : Nat),
    ((posText p w).map some).countP nlMark = countNl w
  | [], _ => rfl
  | c :: w, p => by
    have ih := countP_nlMark_posText w (p + 1)
    simp only [posText, List.map_cons, List.countP_cons, ih, countNl, List.count_cons, nlMark]
    rfl

/-- `dropSp` on a run of white space `w` in front of something else -/
theorem dropSp_run (w : Str) (p : Nat) (hw : ∀ x ∈ w, isSpace x = true) (ms : List Mark) (h : NoSp ms) :
    dropSp ((posText p w).map some ++ ms)
      = if countNl w < 2 then ms else (posText p w).map some ++ ms := by
  have hW : ∀ cp ∈ posText p w, isSpace cp.1 = true := by
    intro cp hcp
    have : cp.1 ∈ (posText p w).map (·.1) := List.mem_map.mpr ⟨cp, hcp, rfl⟩
    rw [posText_fst] at this
    exact hw _ this
  unfold dropSp
  rw [takeWhile_run _ hW ms h, dropWhile_run _ hW ms h, countP_nlMark_posText]

theorem mem_dropSp {m : Mark} {ms : List Mark} (h : m ∈ dropSp ms) : m ∈ ms := by
  unfold dropSp at h
  split at h
  · exact (List.dropWhile_sublist _).subset h
  · exact h

/-! ### the token buffers -/

/-- a brace token of the scanner -/
structure BrTok (t : Tok) : Prop where
  kind : t.kind = .special
  txt : t.txt = ['{'] ∨ t.txt = ['}']

def isBraceTok (t : Tok) : Bool := t.kind == .special && (t.txt == ['{'] || t.txt == ['}'])

theorem BrTok.isBrace {t : Tok} (h : BrTok t) : isBraceTok t = true := by
  rcases h.txt with ht | ht <;> simp [isBraceTok, h.kind, ht]

theorem BrTok.notMacro {t : Tok} (h : BrTok t) : isMacroTok t = false := by
  simp [isMacroTok, h.kind]

theorem BrTok.notSpace {t : Tok} (h : BrTok t) : isSpaceTok t = false := by
  simp [isSpaceTok, h.kind]

theorem _root_.Yalafi.PlainTok.notBrace {t : Tok} (h : PlainTok t) : isBraceTok t = false := by
  unfold isBraceTok
  rcases h.kind with hk | hk | hk <;> simp [hk]

theorem _root_.Yalafi.CwTokOk.notBrace {st : PState} {t : Tok} (h : CwTokOk st t) : isBraceTok t = false := by
  simp [isBraceTok, h.kind]

/-- a buffer of plain tokens (copied by `expandSequence`), tokens of undeclared macros and braces -/
def GSeq (T : PTables) (st : PState) : List Tok → Prop
  | [] => True
  | t :: rest => ((PlainTok t ∧ PassTok T st t rest) ∨ CwTokOk st t ∨ BrTok t) ∧ GSeq T st rest

/-- what `expandSequence` makes of the buffer before the blank-line removal: a macro token becomes
    an Action token and the space token behind it is dropped (`skip` = directly behind a macro
    token); a brace becomes an Action token -/
def gErase : Bool → List Tok → List Tok
  | _, [] => []
  | skip, t :: rest =>
    if isMacroTok t then mkAction t.pos :: gErase true rest
    else if isBraceTok t then mkAction t.pos :: gErase false rest
    else if skip && (isSpaceTok t && !isLangK t && !(t.kind == .action)) then gErase true rest
    else t :: gErase false rest

theorem gErase_true : ∀ toks : List Tok, gErase true toks = gErase false (skipSpaceStopLangAct toks)
  | [] => rfl
  | t :: rest => by
    by_cases hm : isMacroTok t = true
    · have hk : t.kind = .xmacro := by simpa [isMacroTok] using hm
      have hs : isSpaceTok t = false := by simp [isSpaceTok, hk]
      simp [gErase, hm, skipSpaceStopLangAct, hs]
    · by_cases hb : isBraceTok t = true
      · have hk : t.kind = .special := by
          simp only [isBraceTok, Bool.and_eq_true, beq_iff_eq] at hb; exact hb.1
        have hs : isSpaceTok t = false := by simp [isSpaceTok, hk]
        simp [gErase, hm, hb, skipSpaceStopLangAct, hs]
      · by_cases hd : (isSpaceTok t && !isLangK t && !(t.kind == .action)) = true
        · have ih := gErase_true rest
          simp only [skipSpaceStopLangAct] at ih
          simp only [gErase, hm, hb, hd, skipSpaceStopLangAct, List.dropWhile_cons, Bool.and_self, if_true,
            Bool.false_eq_true, if_false]
          exact ih
        · simp only [gErase, hm, hb, hd, skipSpaceStopLangAct, List.dropWhile_cons, Bool.and_false,
            Bool.false_eq_true, if_false]

theorem GSeq.dropWhile {T : PTables} {st : PState} (p : Tok → Bool) :
    ∀ {toks : List Tok}, GSeq T st toks → GSeq T st (toks.dropWhile p)
  | [], h => h
  | t :: rest, h => by
    rw [List.dropWhile_cons]
    split
    · exact GSeq.dropWhile p h.2
    · exact h

theorem GSeq.congr {T : PTables} {st st' : PState} (hl : st'.langStack = st.langStack)
    (hm : st'.macros = st.macros) : ∀ {toks : List Tok}, GSeq T st toks → GSeq T st' toks
  | [], _ => trivial
  | t :: rest, hs => by
    refine ⟨?_, GSeq.congr hl hm hs.2⟩
    rcases hs.1 with ⟨h1, h2⟩ | h | h
    · exact Or.inl ⟨h1, PassTok_congr hl h2⟩
    · right; left
      exact ⟨h.kind, h.nDef, by have := h.undecl; simpa [lookupMacro, hm] using this⟩
    · exact Or.inr (Or.inr h)

theorem GSeq.notComment {T : PTables} {st : PState} : ∀ {toks : List Tok}, GSeq T st toks →
    ∀ t ∈ toks, t.kind ≠ .comment
  | [], _, _, h => nomatch h
  | _ :: _, hs, x, hx => by
    rcases List.mem_cons.mp hx with rfl | hx
    · rcases hs.1 with ⟨hp, _⟩ | hc | hb
      · exact hp.notComment
      · simp [hc.kind]
      · simp [hb.kind]
    · exact GSeq.notComment hs.2 x hx

/-! ### `expandSequence` -/

theorem seq_grp_nil (T : PTables) (envStop : Option Str) (fuel : Nat) (out : List Tok) (st : PState)
    (hf : 1 ≤ fuel) :
    expandSequence T fuel [] envStop out st
      = match removeLines (out ++ gErase false []) with
        | some r => .ok ((r, []), { st with unknowns := (macroNames []).foldl addU st.unknowns })
        | none => .outOfFuel := by
  obtain ⟨f, rfl⟩ : ∃ f, fuel = f + 1 := ⟨fuel - 1, by omega⟩
  rw [expandSequence.eq_2]
  simp only [gErase, List.append_nil, macroNames, List.filter_nil, List.map_nil, List.foldl_nil]
  cases removeLines out <;> rfl

/-- **the loop on the flat buffer** of plain tokens, undeclared macros and braces: the output is the
    blank-line removal applied to `gErase` of the buffer, the names of the macro tokens are recorded
    in order (each once), nothing else in the state changes.  The loop does not recurse: a brace
    is one iteration, a macro token two (`cost` of Proofs/PlainUnknown.lean). -/
theorem seq_grp (T : PTables) (envStop : Option Str) :
    ∀ (n : Nat) (toks : List Tok), toks.length ≤ n → ∀ (fuel : Nat) (out : List Tok) (st : PState),
      cost toks + 1 ≤ fuel → GSeq T st toks → noEmptyActive T st = true →
      expandSequence T fuel toks envStop out st
        = match removeLines (out ++ gErase false toks) with
          | some r => .ok ((r, []), { st with unknowns := (macroNames toks).foldl addU st.unknowns })
          | none => .outOfFuel := by
  intro n
  induction n with
  | zero =>
    intro toks hn fuel out st hf _ _
    cases toks with
    | nil => exact seq_grp_nil T envStop fuel out st (by omega)
    | cons => simp at hn
  | succ n ih =>
    intro toks hn fuel out st hf hseq ha
    cases toks with
    | nil => exact seq_grp_nil T envStop fuel out st (by omega)
    | cons t ts =>
      rcases hseq.1 with ⟨hp, hpass⟩ | hcw | hbr
      · -- a plain token
        have hm : isMacroTok t = false := hp.notMacro
        have hb : isBraceTok t = false := hp.notBrace
        simp only [cost, hm, Bool.false_eq_true, if_false] at hf
        obtain ⟨f, rfl⟩ : ∃ f, fuel = f + 1 := ⟨fuel - 1, by omega⟩
        rw [seq_plain_step T f t ts envStop out st hp hpass]
        rw [ih ts (by simpa using hn) f (out ++ [t]) st (by omega) hseq.2 ha]
        simp only [gErase, hm, hb, Bool.false_eq_true, if_false, Bool.false_and, macroNames,
          List.filter_cons, List.append_assoc, List.singleton_append]
      · -- an undeclared macro
        have hm : isMacroTok t = true := by simp [isMacroTok, hcw.kind]
        simp only [cost, hm, if_true] at hf
        obtain ⟨f, rfl⟩ : ∃ f, fuel = f + 2 := ⟨fuel - 2, by omega⟩
        rw [seq_cw_step T f t ts envStop out st hcw ha]
        have hlen : (skipSpaceStopLangAct ts).length ≤ n := by
          have : (skipSpaceStopLangAct ts).length ≤ ts.length :=
            (List.dropWhile_sublist _).length_le
          simp only [List.length_cons] at hn; omega
        have hcost : cost (skipSpaceStopLangAct ts) + 1 ≤ f := by
          have := cost_dropWhile (fun t => isSpaceTok t && !isLangK t && !(t.kind == .action)) ts
          simp only [skipSpaceStopLangAct]; omega
        have hseq' : GSeq T { st with unknowns := addU st.unknowns t.txt } (skipSpaceStopLangAct ts) :=
          GSeq.congr (st := st) (st' := { st with unknowns := addU st.unknowns t.txt }) rfl rfl
            (GSeq.dropWhile (fun t => isSpaceTok t && !isLangK t && !(t.kind == .action)) hseq.2)
        rw [ih (skipSpaceStopLangAct ts) hlen f (out ++ [mkAction t.pos])
          { st with unknowns := addU st.unknowns t.txt } hcost hseq'
          ((noEmptyActive_congr T st _ rfl).trans ha), macroNames_skip]
        simp only [gErase, hm, if_true, gErase_true, macroNames, List.filter_cons,
          List.map_cons, List.foldl_cons, List.append_assoc, List.singleton_append]
      · -- a brace
        have hm : isMacroTok t = false := hbr.notMacro
        have hb : isBraceTok t = true := hbr.isBrace
        simp only [cost, hm, Bool.false_eq_true, if_false] at hf
        obtain ⟨f, rfl⟩ : ∃ f, fuel = f + 1 := ⟨fuel - 1, by omega⟩
        rw [seq_brace_step T f t ts envStop out st hbr.kind hbr.txt]
        rw [ih ts (by simpa using hn) f (out ++ [mkAction t.pos]) st (by omega) hseq.2 ha]
        simp only [gErase, hm, hb, Bool.false_eq_true, if_false, if_true, macroNames,
          List.filter_cons, List.append_assoc, List.singleton_append]

/-! ### the source -/

/-- the same on the source text (which starts at position `p`), with the list of control words and
    the marks -/
inductive OkSrc (T : PTables) (st : PState) : Nat → Str → List Str → List Mark → Prop
  | nil (p : Nat) : OkSrc T st p [] [] []
  | chr (p : Nat) (c : Char) (cs : Str) (names : List Str) (ms : List Mark) :
      okAt T st c cs = true → OkSrc T st (p + 1) cs names ms →
      OkSrc T st p (c :: cs) names (some (c, p) :: ms)
  | br (p : Nat) (c : Char) (cs : Str) (names : List Str) (ms : List Mark) :
      (c = '{' ∨ c = '}') → braceAt T c cs = true → OkSrc T st (p + 1) cs names ms →
      OkSrc T st p (c :: cs) names (none :: ms)
  | cw (p : Nat) (name R : Str) (names : List Str) (ms : List Mark) :
      cwOk T st name R = true → OkSrc T st (p + (name.length + 1)) R names ms →
      OkSrc T st p ('\\' :: (name ++ R)) (('\\' :: name) :: names) (none :: dropSp ms)

theorem OkSrc_of_atomsOk (T : PTables) (st : PState) :
    ∀ (as : List Atom) (p : Nat), atomsOk T st as = true →
      OkSrc T st p (renderA as) (namesA as) (marksA p as)
  | [], p, _ => .nil p
  | .chr c :: r, p, h => by
    simp only [atomsOk, Bool.and_eq_true] at h
    exact .chr p c _ _ _ h.1 (OkSrc_of_atomsOk T st r _ h.2)
  | .opn :: r, p, h => by
    simp only [atomsOk, Bool.and_eq_true] at h
    exact .br p '{' _ _ _ (Or.inl rfl) h.1 (OkSrc_of_atomsOk T st r _ h.2)
  | .cls :: r, p, h => by
    simp only [atomsOk, Bool.and_eq_true] at h
    exact .br p '}' _ _ _ (Or.inr rfl) h.1 (OkSrc_of_atomsOk T st r _ h.2)
  | .cw name :: r, p, h => by
    simp only [atomsOk, Bool.and_eq_true] at h
    exact .cw p name _ _ _ h.1 (OkSrc_of_atomsOk T st r _ h.2)

/-- the conditions depend on the state only through the language stack and the macro table -/
theorem OkSrc.congr {T : PTables} {st st' : PState} (hl : st'.langStack = st.langStack)
    (hm : st'.macros = st.macros) {p : Nat} {s : Str} {names : List Str} {ms : List Mark}
    (h : OkSrc T st p s names ms) : OkSrc T st' p s names ms := by
  induction h with
  | nil p => exact .nil p
  | chr p c cs names ms hat _ ih =>
    refine .chr p c cs names ms ?_ ih
    rw [← hat]
    simp only [okAt, activeChars_congr T st st' hl, shortKeys_congr T st st' hl]
  | br p c cs names ms hc hb _ ih => exact .br p c cs names ms hc hb ih
  | cw p name R names ms hcw _ ih =>
    refine .cw p name R names ms ?_ ih
    rw [← hcw]
    simp only [cwOk, lookupMacro, hm]

/-- white space in front can be dropped -/
theorem OkSrc_drop_space (T : PTables) (st : PState) (names : List Str) :
    ∀ (k : Nat) (p : Nat) (s : Str) (ms : List Mark), k ≤ s.length → OkSrc T st p s names ms →
      (∀ x ∈ s.take k, isSpace x = true) →
      ∃ ms', ms = (posText p (s.take k)).map some ++ ms' ∧ OkSrc T st (p + k) (s.drop k) names ms'
  | 0, _, _, ms, _, h, _ => ⟨ms, rfl, h⟩
  | k + 1, _, [], _, hk, _, _ => by simp at hk
  | k + 1, p, c :: cs, _, hk, h, hsp => by
    have hc : isSpace c = true := hsp c (by simp)
    cases h with
    | chr _ _ _ _ ms0 _ h2 =>
      obtain ⟨ms', e, h3⟩ := OkSrc_drop_space T st names k (p + 1) cs ms0 (by simpa using hk) h2
        (fun x hx => hsp x (by simp [hx]))
      refine ⟨ms', by simp [posText, e], ?_⟩
      have e : p + (k + 1) = p + 1 + k := by omega
      rw [e]; exact h3
    | br _ _ _ _ _ hb _ _ => rcases hb with rfl | rfl <;> exact absurd hc (by decide)
    | cw _ name R names' _ _ _ => exact absurd hc (by decide)

/-- a source that does not start with white space has marks that do not start with white space -/
theorem OkSrc.noSp {T : PTables} {st : PState} {p : Nat} {s : Str} {names : List Str} {ms : List Mark}
    (h : OkSrc T st p s names ms) (hs : ∀ c cs, s = c :: cs → isSpace c = false) : NoSp ms := by
  intro m ms' e
  cases h with
  | nil => cases e
  | chr _ c cs _ _ _ _ => cases e; exact hs c cs rfl
  | br _ _ _ _ _ _ _ _ => cases e; rfl
  | cw _ _ _ _ _ _ _ => cases e; rfl

/-! ### the scanner -/

theorem nextToken_space (T : Tables) (src : Str) (pos : Nat) (c : Char) (cs : Str)
    (h : isSpace c = true) : nextToken T src pos (c :: cs) = scanSpace pos (c :: cs) := by
  simp [nextToken, h]

theorem drop_takeWhile_length {α} (p : α → Bool) : ∀ (l : List α),
    l.drop (l.takeWhile p).length = l.dropWhile p
  | [] => rfl
  | a :: l => by
    by_cases h : p a = true
    · simp [h, drop_takeWhile_length p l]
    · simp [h]

theorem dropWhile_head {α} (p : α → Bool) : ∀ (l : List α) (c : α) (cs : List α),
    l.dropWhile p = c :: cs → p c = false
  | [], _, _, h => by simp at h
  | a :: l, c, cs, h => by
    rw [List.dropWhile_cons] at h
    split at h
    · exact dropWhile_head p l c cs h
    · cases h; simpa using ‹¬ p a = true›

/-- what the scanner loop yields on a well-formed source, and what the token buffer means -/
structure ScanFacts (T : PTables) (st : PState) (rest : Str) (names : List Str) (ms : List Mark)
    (steps : List ScanStep) : Prop where
  ok : ∀ s ∈ steps, s.diag = none ∧ s.extra = []
  seq : GSeq T st (steps.map (·.tok))
  first : ∀ s ss, steps = s :: ss → s.tok.txt = firstTokTxtM rest
  names : macroNames (steps.map (·.tok)) = names
  cost : cost (steps.map (·.tok)) ≤ rest.length
  marks : marksOf (gErase false (steps.map (·.tok))) = ms
  skip : marksOf (gErase true (steps.map (·.tok))) = dropSp ms
  simple : ∀ t ∈ steps.map (·.tok), isMacroTok t = false → isBraceTok t = false → Simple t

theorem ScanFacts_nil (T : PTables) (st : PState) : ScanFacts T st [] [] [] [] :=
  ⟨by simp, trivial, by simp, rfl, by simp [cost], rfl, rfl, by simp⟩

/-- the scanner loop on a well-formed source -/
theorem scanSteps_grp (T : PTables) (st : PState) (src : Str) :
    ∀ (n fuel pos : Nat) (rest : Str) (names : List Str) (ms : List Mark),
    rest.length ≤ n → rest.length ≤ fuel → OkSrc T st pos rest names ms →
    (scanSteps T.toTables src fuel pos rest).2 = true ∧
    ScanFacts T st rest names ms (scanSteps T.toTables src fuel pos rest).1 := by
  intro n
  induction n with
  | zero =>
    intro fuel pos rest names ms hn _ hok
    cases rest with
    | nil => cases hok; exact ⟨by simp [scanSteps], by simpa [scanSteps] using ScanFacts_nil T st⟩
    | cons c cs => simp at hn
  | succ n ih =>
    intro fuel pos rest names ms hn hf hok
    cases rest with
    | nil => cases hok; exact ⟨by simp [scanSteps], by simpa [scanSteps] using ScanFacts_nil T st⟩
    | cons c cs =>
      obtain ⟨fuel, rfl⟩ : ∃ f, fuel = f + 1 := ⟨fuel - 1, by simp at hf; omega⟩
      have hok0 := hok
      cases hok with
      | chr _ _ _ _ ms' hat hsub0 =>
        have hsnd := okAt_snd hat
        obtain ⟨hp, hone⟩ := nextToken_text T src pos c cs hsnd
        generalize hs : nextToken T.toTables src pos (c :: cs) = s at hp hone
        have h1 := hp.len_pos
        have h2 := hp.len_le
        have hsub : ∃ ms1, some (c, pos) :: ms' = (posText pos ((c :: cs).take s.len)).map some ++ ms1 ∧
            OkSrc T st (pos + s.len) ((c :: cs).drop s.len) names ms1 := by
          by_cases hsp : isSpace c = true
          · refine OkSrc_drop_space T st names s.len pos (c :: cs) _ h2 hok0 ?_
            intro x hx
            rw [← hp.txt, hp.first] at hx
            simp only [firstTokTxt, hsp, if_true] at hx
            exact mem_takeWhile_imp _ _ _ hx
          · have := (hone (by simpa using hsp)).1
            rw [this]
            exact ⟨ms', rfl, hsub0⟩
        obtain ⟨ms1, hms1, hsub⟩ := hsub
        rw [scanSteps_step T.toTables src fuel pos c cs s hs (by omega)]
        have hl : ((c :: cs).drop s.len).length ≤ fuel := by
          simp only [List.length_drop]; simp only [List.length_cons] at hf h2 ⊢; omega
        have hl' : ((c :: cs).drop s.len).length ≤ n := by
          simp only [List.length_drop]; simp only [List.length_cons] at hn h2 ⊢; omega
        obtain ⟨i1, I⟩ := ih fuel (pos + s.len) ((c :: cs).drop s.len) names ms1 hl' hl hsub
        have hnm : isMacroTok s.tok = false := hp.tok.notMacro
        have hnb : isBraceTok s.tok = false := hp.tok.notBrace
        have hne : s.tok.txt ≠ [] := by
          rw [hp.txt]
          intro h0
          have := congrArg List.length h0
          simp only [List.length_take, List.length_nil] at this
          omega
        have hshape : Shape s.tok := by
          refine ⟨hne, ?_⟩
          intro hnl
          by_cases hsp : isSpace c = true
          · rw [hp.first]
            simp only [firstTokTxt, hsp, if_true, isBlank, List.all_eq_true]
            exact fun x hx => mem_takeWhile_imp _ _ _ hx
          · have hsp' : isSpace c = false := by simpa using hsp
            have := (hone hsp').1
            rw [hp.txt, this] at hnl
            simp only [List.take_succ_cons, List.take_zero] at hnl
            rw [hasNl_single c hsp'] at hnl; cases hnl
        have hmk : marksOf (s.tok :: gErase false ((scanSteps T.toTables src fuel (pos + s.len)
            ((c :: cs).drop s.len)).1.map (·.tok))) = some (c, pos) :: ms' := by
          rw [marksOf_cons, tokMarks_nonaction _ hp.tok.notAction, tokChars_nofix _ hp.fix, I.marks,
            hp.txt, hp.pos, hms1]
        refine ⟨i1, ?_, ?_, ?_, ?_, ?_, ?_, ?_, ?_⟩
        · intro x hx
          rcases List.mem_cons.mp hx with rfl | hx
          · exact ⟨hp.diag, hp.extra⟩
          · exact I.ok x hx
        · simp only [List.map_cons]
          refine ⟨Or.inl ⟨hp.tok, ?_⟩, I.seq⟩
          -- the short-macro branch
          have hact := hat
          simp only [okAt, Bool.and_eq_true, Bool.or_eq_true, Bool.not_eq_true'] at hact
          rcases hact.1 with hna | ⟨hns, hk⟩
          · left
            have : s.tok.txt = c :: (cs.take (s.len - 1)) := by
              rw [hp.txt]
              obtain ⟨k, hk⟩ : ∃ k, s.len = k + 1 := ⟨s.len - 1, by omega⟩
              rw [hk]; simp
            rw [this]
            exact not_active_cons T st c _ hna
          · right
            have hlen := (hone hns).1
            have htxt : s.tok.txt = [c] := by rw [hp.txt, hlen]; rfl
            have i4 := I.first
            rw [hlen] at i4 ⊢
            simp only [List.drop_succ_cons, List.drop_zero] at i4 ⊢
            cases hr : (scanSteps T.toTables src fuel (pos + 1) cs).1 with
            | nil => rfl
            | cons s2 ss =>
              simp only [List.map_cons]
              apply expandShortMacro_none
              rw [htxt, i4 s2 ss hr]
              rcases hk with hk | hk
              · cases cs with
                | nil => cases fuel <;> simp [scanSteps] at hr
                | cons => simp at hk
              · simpa using hk
        · intro s' ss' he
          simp only [List.cons.injEq] at he
          rw [← he.1, hp.first]
          refine (firstTokTxtM_of_text c cs ?_).symm
          rcases hsnd with h | h
          · exact Or.inl h
          · exact Or.inr h.1
        · simp only [List.map_cons, macroNames, List.filter_cons, hnm, Bool.false_eq_true, if_false]
          exact I.names
        · have := I.cost
          simp only [List.map_cons, Yalafi.cost, hnm, Bool.false_eq_true, if_false]
          simp only [List.length_drop, List.length_cons] at this h2 ⊢
          omega
        · simp only [List.map_cons, gErase, hnm, hnb, Bool.false_eq_true, if_false, Bool.false_and]
          exact hmk
        · -- behind a control word
          by_cases hsp : isSpace c = true
          · -- a run of white space
            have hs' := hs
            rw [nextToken_space T.toTables src pos c cs hsp] at hs'
            have hlen : s.len = ((c :: cs).takeWhile isSpace).length := by rw [← hs']; rfl
            have hkind : s.tok.kind
                = if countNl ((c :: cs).takeWhile isSpace) < 2 then .space else .par := by
              rw [← hs']; rfl
            have htake : (c :: cs).take s.len = (c :: cs).takeWhile isSpace := by
              rw [hlen]; exact ScannerAux.take_length_takeWhile _ _
            have hdrop : (c :: cs).drop s.len = (c :: cs).dropWhile isSpace := by
              rw [hlen]; exact drop_takeWhile_length _ _
            have hns : NoSp ms1 := hsub.noSp (by
              intro d ds e
              rw [hdrop] at e
              exact dropWhile_head _ _ _ _ e)
            have hrun := dropSp_run ((c :: cs).takeWhile isSpace) pos
              (fun x hx => mem_takeWhile_imp _ _ _ hx) ms1 hns
            rw [hms1, htake, hrun]
            by_cases hcnt : countNl ((c :: cs).takeWhile isSpace) < 2
            · have hk : s.tok.kind = .space := by rw [hkind, if_pos hcnt]
              have hsk : (isSpaceTok s.tok && !isLangK s.tok && !(s.tok.kind == .action)) = true := by
                simp [isSpaceTok, isLangK, hk]
              simp only [List.map_cons, gErase, hnm, hnb, hsk, Bool.false_eq_true, if_false,
                Bool.and_self, if_true, if_pos hcnt]
              rw [I.skip, dropSp_noSp hns]
            · have hk : s.tok.kind = .par := by rw [hkind, if_neg hcnt]
              have hsk : (isSpaceTok s.tok && !isLangK s.tok && !(s.tok.kind == .action)) = false := by
                simp [isSpaceTok, hk]
              simp only [List.map_cons, gErase, hnm, hnb, hsk, Bool.false_eq_true, if_false,
                Bool.and_false, if_neg hcnt]
              rw [hmk, hms1, htake]
          · have hsp' : isSpace c = false := by simpa using hsp
            have hk : s.tok.kind = .text := (hone hsp').2
            have hsk : (isSpaceTok s.tok && !isLangK s.tok && !(s.tok.kind == .action)) = false := by
              simp [isSpaceTok, hk]
            simp only [List.map_cons, gErase, hnm, hnb, hsk, Bool.false_eq_true, if_false,
              Bool.and_false]
            rw [hmk, dropSp_noSp (by intro m ms'' e; cases e; exact hsp')]
        · intro t ht hm hb
          simp only [List.map_cons, List.mem_cons] at ht
          rcases ht with rfl | ht
          · exact simple_of_plain hp.tok hshape
          · exact I.simple t ht hm hb
      | br _ _ _ _ ms' hc hbr hsub =>
        have hn1 := nextToken_brace T src pos c cs hc hbr
        rw [scanSteps_step T.toTables src fuel pos c cs _ hn1 (by simp)]
        simp only [List.drop_succ_cons, List.drop_zero]
        simp only [List.length_cons] at hn hf
        obtain ⟨i1, I⟩ := ih fuel (pos + 1) cs names ms' (by omega) (by omega) hsub
        have hB : BrTok { kind := .special, pos := pos, txt := [c] } :=
          ⟨rfl, by rcases hc with rfl | rfl <;> simp⟩
        have hnm := hB.notMacro
        have hnb := hB.isBrace
        have hmk : marksOf (gErase false ({ kind := .special, pos := pos, txt := [c] } ::
            (scanSteps T.toTables src fuel (pos + 1) cs).1.map (·.tok))) = none :: ms' := by
          simp only [gErase, hnm, hnb, Bool.false_eq_true, if_false, if_true]
          rw [marksOf_cons, tokMarks_mkAction, I.marks]; rfl
        refine ⟨i1, ?_, ?_, ?_, ?_, ?_, ?_, ?_, ?_⟩
        · intro x hx
          rcases List.mem_cons.mp hx with rfl | hx
          · exact ⟨rfl, rfl⟩
          · exact I.ok x hx
        · simp only [List.map_cons]
          exact ⟨Or.inr (Or.inr hB), I.seq⟩
        · intro s' ss' he
          simp only [List.cons.injEq] at he
          rw [← he.1]
          rcases hc with rfl | rfl <;> rfl
        · simp only [List.map_cons, macroNames, List.filter_cons, hnm, Bool.false_eq_true, if_false]
          exact I.names
        · have := I.cost
          simp only [List.map_cons, Yalafi.cost, hnm, Bool.false_eq_true, if_false, List.length_cons]
          omega
        · simp only [List.map_cons]; exact hmk
        · simp only [List.map_cons]
          rw [dropSp_none, ← hmk]
          simp only [gErase, hnm, hnb, Bool.false_eq_true, if_false, if_true]
        · intro t ht hm hb
          simp only [List.map_cons, List.mem_cons] at ht
          rcases ht with rfl | ht
          · rw [hnb] at hb; cases hb
          · exact I.simple t ht hm hb
      | cw _ name R names' ms' hcw hsub =>
        have facts := cwFacts hcw
        have hdrop : ('\\' :: (name ++ R)).drop (name.length + 1) = R := by simp
        simp only [List.length_cons, List.length_append] at hf hn
        rw [scanSteps_step T.toTables src fuel pos _ _ _ (nextToken_cw T st src pos name R facts) (by simp)]
        simp only [hdrop]
        obtain ⟨i1, I⟩ := ih fuel (pos + (name.length + 1)) R names' ms' (by omega) (by omega) hsub
        have hm : isMacroTok (cwTok pos name) = true := rfl
        have hmk : marksOf (gErase false (cwTok pos name ::
            (scanSteps T.toTables src fuel (pos + (name.length + 1)) R).1.map (·.tok)))
            = none :: dropSp ms' := by
          simp only [gErase, hm, if_true]
          rw [marksOf_cons, I.skip]; rfl
        refine ⟨i1, ?_, ?_, ?_, ?_, ?_, ?_, ?_, ?_⟩
        · intro x hx
          rcases List.mem_cons.mp hx with rfl | hx
          · exact ⟨rfl, rfl⟩
          · exact I.ok x hx
        · simp only [List.map_cons]
          exact ⟨Or.inr (Or.inl (cwTokOk_cwTok facts pos)), I.seq⟩
        · intro s' ss' he
          simp only [List.cons.injEq] at he
          rw [← he.1]
          simp [firstTokTxtM, cwTok, facts.tw, show isSpace '\\' = false by decide]
        · simp only [List.map_cons, macroNames, List.filter_cons, hm, if_true]
          have := I.names
          simp only [macroNames] at this
          rw [this]; rfl
        · have := List.length_pos_iff.mpr facts.ne
          have := I.cost
          simp only [List.map_cons, Yalafi.cost, hm, if_true, List.length_cons, List.length_append]
          omega
        · simp only [List.map_cons]; exact hmk
        · simp only [List.map_cons]
          rw [dropSp_none, ← hmk]
          simp only [gErase, hm, if_true]
        · intro t ht hm' hb
          simp only [List.map_cons, List.mem_cons] at ht
          rcases ht with rfl | ht
          · rw [hm] at hm'; cases hm'
          · exact I.simple t ht hm' hb

theorem mem_gErase : ∀ (toks : List Tok) (b : Bool) (t : Tok), t ∈ gErase b toks →
    (∃ p, t = mkAction p) ∨ (t ∈ toks ∧ isMacroTok t = false ∧ isBraceTok t = false)
  | [], _, _, h => by simp [gErase] at h
  | x :: rest, b, t, h => by
    have lift : ((∃ p, t = mkAction p) ∨ (t ∈ rest ∧ isMacroTok t = false ∧ isBraceTok t = false)) →
        ((∃ p, t = mkAction p) ∨ (t ∈ x :: rest ∧ isMacroTok t = false ∧ isBraceTok t = false)) := by
      rintro (h | ⟨h1, h2⟩)
      · exact Or.inl h
      · exact Or.inr ⟨List.mem_cons_of_mem _ h1, h2⟩
    unfold gErase at h
    split at h
    · rcases List.mem_cons.mp h with rfl | h
      · exact Or.inl ⟨_, rfl⟩
      · exact lift (mem_gErase rest true t h)
    · rename_i hm
      split at h
      · rcases List.mem_cons.mp h with rfl | h
        · exact Or.inl ⟨_, rfl⟩
        · exact lift (mem_gErase rest false t h)
      · rename_i hb
        split at h
        · exact lift (mem_gErase rest true t h)
        · rcases List.mem_cons.mp h with rfl | h
          · exact Or.inr ⟨List.mem_cons_self .., by simpa using hm, by simpa using hb⟩
          · exact lift (mem_gErase rest false t h)

/-- `scan` on a well-formed source: no diagnostics; the token buffer is one that `seq_grp` handles,
    its macro tokens are the control words, it costs at most one iteration per character, and
    `gErase` of it spells the marks of the source with simple tokens -/
theorem scan_grp (T : PTables) (st : PState) (src : Str) (names : List Str) (ms : List Mark)
    (h : OkSrc T st 0 src names ms) :
    (scan T.toTables src).diags = [] ∧
    GSeq T st (scan T.toTables src).toks ∧
    macroNames (scan T.toTables src).toks = names ∧
    cost (scan T.toTables src).toks ≤ src.length ∧
    marksOf (gErase false (scan T.toTables src).toks) = ms ∧
    (∀ t ∈ gErase false (scan T.toTables src).toks, Simple t) := by
  obtain ⟨_, F⟩ := scanSteps_grp T st src src.length src.length 0 src names ms (Nat.le_refl _)
    (Nat.le_refl _) h
  have he := flatten_tok_extra (scanSteps T.toTables src src.length 0 src).1 (fun s hs => (F.ok s hs).2)
  have hd := flatten_diag_nil (scanSteps T.toTables src src.length 0 src).1 (fun s hs => (F.ok s hs).1)
  simp only [scan]
  rw [he, hd]
  refine ⟨rfl, F.seq, F.names, F.cost, F.marks, ?_⟩
  intro t ht
  rcases mem_gErase _ _ t ht with ⟨p, rfl⟩ | ⟨h1, h2, h3⟩
  · exact simple_mkAction p
  · exact F.simple t h1 h2 h3

/-! ### `parserWork`, `parse`, `tex2txt` -/

/-- **`parserWork` on a well-formed source.**  The characters of the result tokens, with their
    positions, are the reference output: the marks of the source with the pure Action lines deleted.
    The control words are recorded in `unknowns`; nothing else in the state changes. -/
theorem parserWork_grp (T : PTables) (st : PState) (src : Str) (fuel : Nat) (names : List Str)
    (ms : List Mark) (hf : src.length + 2 ≤ fuel) (ha : noEmptyActive T st = true)
    (h : OkSrc T st 0 src names ms) :
    ∃ r, parserWork T fuel src st = .ok (r, { st with unknowns := names.foldl addU st.unknowns }) ∧
      charsOf r = delLines ms := by
  obtain ⟨f, rfl⟩ : ∃ f, fuel = f + 1 := ⟨fuel - 1, by omega⟩
  obtain ⟨hd, hseq, hnames, hcost, hmarks, hsimple⟩ := scan_grp T st src names ms h
  obtain ⟨r, hr, hchars⟩ := removeLines_simple _ hsimple
  rw [hmarks] at hchars
  refine ⟨r, ?_, hchars⟩
  rw [parserWork.eq_2]
  refine (M.bind_ok _ _ _ _ _ (rfl : M.get st = _)).trans ?_
  refine (M.bind_ok _ _ _ _ _ (rfl : M.modify _ _ = _)).trans ?_
  refine (M.bind_ok _ _ _ _ _ (rfl : M.modify _ _ = _)).trans ?_
  refine (M.bind_ok _ _ _ _ _ (rfl : M.get _ = _)).trans ?_
  simp only [hd, List.append_nil]
  rw [skipPass_nocomment _ _ _ (fun t ht' => hseq.notComment t ht')]
  simp only []
  refine (M.bind_ok _ _ _ _ _ (rfl : (pure _ : M (List Tok)) _ = _)).trans ?_
  have hseq' : GSeq T { st with latex := src, nest := st.nest + 1 } (scan T.toTables src).toks :=
    GSeq.congr (st := st) (st' := { st with latex := src, nest := st.nest + 1 }) rfl rfl hseq
  have hs := seq_grp T none _ (scan T.toTables src).toks (Nat.le_refl _) f []
    { st with latex := src, nest := st.nest + 1 } (by omega) hseq'
    ((noEmptyActive_congr T st _ rfl).trans ha)
  rw [List.nil_append, hr, hnames] at hs
  refine (M.bind_ok _ _ _ _ _ hs).trans ?_
  refine (M.bind_ok _ _ _ _ _ (rfl : M.modify _ _ = _)).trans ?_
  show Outcome.ok _ = _
  simp only [Nat.add_sub_cancel]

theorem parse_grp (T : PTables) (st : PState) (src : Str) (fuel : Nat) (names : List Str)
    (ms : List Mark) (hf : src.length + 2 ≤ fuel) (ha : noEmptyActive T st = true)
    (h : OkSrc T st 0 src names ms) :
    ∃ r, parse T fuel src [] [] st
        = .ok (r, { st with extracted := [], unknowns := names.eraseDups, foreign := false, nest := 0 }) ∧
      charsOf r = delLines ms := by
  have h' : OkSrc T { st with extracted := [], unknowns := [], foreign := false, nest := 0 } 0 src names ms :=
    OkSrc.congr (st := st)
      (st' := { st with extracted := [], unknowns := [], foreign := false, nest := 0 }) rfl rfl h
  obtain ⟨r, hw, hc⟩ := parserWork_grp T
    { st with extracted := [], unknowns := [], foreign := false, nest := 0 } src fuel names ms hf
    ((noEmptyActive_congr T st _ rfl).trans ha) h'
  refine ⟨r, ?_, hc⟩
  unfold parse
  simp only [List.isEmpty_nil, Bool.not_true, Bool.false_eq_true, if_false, if_true]
  refine (M.bind_ok _ _ _ _ _ (rfl : M.modify _ _ = _)).trans ?_
  refine (M.bind_ok _ _ _ _ _ (rfl : (pure _ : M (List Tok)) _ = _)).trans ?_
  refine (M.bind_ok _ _ _ _ _ (rfl : M.modify _ _ = _)).trans ?_
  refine (M.bind_ok _ _ _ _ _ hw).trans ?_
  refine (M.bind_ok _ _ _ _ _ (rfl : M.get _ = _)).trans ?_
  show Outcome.ok _ = _
  simp [foldl_addU_nil]

/-- the result record of `tex2txt` on a well-formed source (no `--defs`, `--extr`, `--repl`,
    `--unkn`; single-language mode) -/
theorem tex2txt_grp_src (T : PTables) (o : Options) (fs : FS) (thresh : Nat) (src : Str) (fuel : Nat)
    (st1 : PState) (names : List Str) (ms : List Mark)
    (hdefs : o.defs = []) (hextr : o.extr = []) (hrepl : o.hasRepl = false) (hunkn : o.unkn = false)
    (hinit : initParser T fuel o (initialState T o false fs) = .ok ((), st1))
    (ha : noEmptyActive T st1 = true) (h : OkSrc T st1 0 src names ms)
    (hf : src.length + 2 ≤ fuel) :
    ∃ toks, tex2txt T fuel src o false thresh fs
        = .ok { toks := toks, txt := (delLines ms).map (·.1),
                pos := (delLines ms).map (·.2 + 1), parts := [],
                unknowns := names.eraseDups, diags := st1.diags, foreign := false } := by
  obtain ⟨r, hp, hc⟩ := parse_grp T st1 src fuel names ms hf ha h
  refine ⟨r, ?_⟩
  have hrun : (initParser T fuel o >>= fun _ => parse T fuel src o.defs
        (if o.extr.isEmpty then [] else (splitOn ',' o.extr []).map (fun s => '\\' :: s)))
        (initialState T o false fs)
      = .ok (r, { st1 with extracted := [], unknowns := names.eraseDups, foreign := false, nest := 0 }) := by
    refine (M.bind_ok _ _ _ _ _ hinit).trans ?_
    rw [hdefs, hextr]
    exact hp
  unfold tex2txt
  simp only []
  rw [hrun]
  simp only [hrepl, hunkn, Bool.not_false, if_true, Bool.false_eq_true, if_false,
    getTxtPos_charsOf, hc, List.map_map]
  rfl

/-- **the end-to-end statement on flattened documents** (the braces need not be balanced) -/
theorem tex2txt_atoms (T : PTables) (o : Options) (fs : FS) (thresh : Nat) (as : List Atom)
    (fuel : Nat) (st1 : PState)
    (hdefs : o.defs = []) (hextr : o.extr = []) (hrepl : o.hasRepl = false) (hunkn : o.unkn = false)
    (hinit : initParser T fuel o (initialState T o false fs) = .ok ((), st1))
    (ha : noEmptyActive T st1 = true) (hok : atomsOk T st1 as = true)
    (hf : (renderA as).length + 2 ≤ fuel) :
    ∃ r, tex2txt T fuel (renderA as) o false thresh fs = .ok r ∧
      r.txt = (delLines (marksA 0 as)).map (·.1) ∧
      r.pos = (delLines (marksA 0 as)).map (·.2 + 1) ∧
      r.unknowns = (namesA as).eraseDups ∧ r.diags = st1.diags ∧ r.parts = [] := by
  have hsrc := OkSrc_of_atomsOk T st1 as 0 hok
  obtain ⟨toks, ht⟩ := tex2txt_grp_src T o fs thresh (renderA as) fuel st1 _ _ hdefs hextr hrepl hunkn
    hinit ha hsrc hf
  exact ⟨_, ht, rfl, rfl, rfl, rfl, rfl⟩

/-- **C03 / C02 end to end.**  The document consists of inert text, undeclared control words and
    brace groups, nested arbitrarily (`DocOk`: all side conditions); `st1` is the state after
    `Parser.__init__`; no `--defs`, `--extr`, `--repl`, `--unkn`; single-language mode.  With one
    unit of fuel per source character and two more, `tex2txt` succeeds and

    * the output text with its (1-based) positions is `delLines (marks 0 doc)`: every text
      character, at any depth, with its own position; nothing for a brace or a control word; the
      white space behind a control word dropped (unless it holds two line breaks); and then every
      line deleted (with its line break) that consists of white space only and holds at least one
      brace or control word (`remove_pure_action_lines`);
    * `unknowns` = the control words, each once, in order of first occurrence;
    * no diagnostic is added. -/
theorem tex2txt_groups (T : PTables) (o : Options) (fs : FS) (thresh : Nat) (doc : List Item)
    (fuel : Nat) (st1 : PState)
    (hdefs : o.defs = []) (hextr : o.extr = []) (hrepl : o.hasRepl = false) (hunkn : o.unkn = false)
    (hinit : initParser T fuel o (initialState T o false fs) = .ok ((), st1))
    (hok : DocOk T st1 doc) (hf : (render doc).length + 2 ≤ fuel) :
    ∃ r, tex2txt T fuel (render doc) o false thresh fs = .ok r ∧
      r.txt = (delLines (marks 0 doc)).map (·.1) ∧
      r.pos = (delLines (marks 0 doc)).map (·.2 + 1) ∧
      r.unknowns = (names doc).eraseDups ∧ r.diags = st1.diags ∧ r.parts = [] := by
  rw [render_eq] at hf ⊢
  exact tex2txt_atoms T o fs thresh (atoms doc) fuel st1 hdefs hextr hrepl hunkn hinit hok.1 hok.2 hf

/-! ### readings of the reference -/

/-- the characters of the marks: the text with the braces, the control words and the white space
    skipped behind control words cut out -/
def plain (p : Nat) (d : List Item) : List (Char × Nat) := (marks p d).filterMap id

/-- every character mark is a character of the source at its own position -/
theorem marksA_src {c : Char} {q : Nat} : ∀ {as : List Atom} {p : Nat}, some (c, q) ∈ marksA p as →
    p ≤ q ∧ (renderA as)[q - p]? = some c
  | [], _, h => by simp [marksA] at h
  | .chr d :: r, p, h => by
    simp only [marksA, List.mem_cons, Option.some.injEq, Prod.mk.injEq] at h
    rcases h with ⟨rfl, rfl⟩ | h
    · simp [renderA, Atom.render]
    · obtain ⟨h1, h2⟩ := marksA_src h
      refine ⟨by omega, ?_⟩
      obtain ⟨k, hk⟩ : ∃ k, q - p = k + 1 := ⟨q - p - 1, by omega⟩
      have : q - (p + 1) = k := by omega
      rw [this] at h2
      simp [renderA, Atom.render, hk, h2]
  | .opn :: r, p, h => by
    simp only [marksA, List.mem_cons, reduceCtorEq, false_or] at h
    obtain ⟨h1, h2⟩ := marksA_src h
    refine ⟨by omega, ?_⟩
    obtain ⟨k, hk⟩ : ∃ k, q - p = k + 1 := ⟨q - p - 1, by omega⟩
    have : q - (p + 1) = k := by omega
    rw [this] at h2
    simp [renderA, Atom.render, hk, h2]
  | .cls :: r, p, h => by
    simp only [marksA, List.mem_cons, reduceCtorEq, false_or] at h
    obtain ⟨h1, h2⟩ := marksA_src h
    refine ⟨by omega, ?_⟩
    obtain ⟨k, hk⟩ : ∃ k, q - p = k + 1 := ⟨q - p - 1, by omega⟩
    have : q - (p + 1) = k := by omega
    rw [this] at h2
    simp [renderA, Atom.render, hk, h2]
  | .cw name :: r, p, h => by
    simp only [marksA, List.mem_cons, reduceCtorEq, false_or] at h
    obtain ⟨h1, h2⟩ := marksA_src (mem_dropSp h)
    refine ⟨by omega, ?_⟩
    have e : q - p = (name.length + 1) + (q - (p + (name.length + 1))) := by omega
    have hl : ('\\' :: name).length = name.length + 1 := by simp
    rw [e]
    simp only [renderA, Atom.render]
    rw [← hl, List.getElem?_append_right (by omega)]
    simpa using h2

/-- every character mark is a text character of the document -/
theorem marksA_text {c : Char} {q : Nat} : ∀ {as : List Atom} {p : Nat}, some (c, q) ∈ marksA p as →
    Atom.chr c ∈ as
  | [], _, h => by simp [marksA] at h
  | .chr d :: r, p, h => by
    simp only [marksA, List.mem_cons, Option.some.injEq, Prod.mk.injEq] at h
    rcases h with ⟨rfl, rfl⟩ | h
    · simp
    · exact List.mem_cons_of_mem _ (marksA_text h)
  | .opn :: r, p, h => by
    simp only [marksA, List.mem_cons, reduceCtorEq, false_or] at h
    exact List.mem_cons_of_mem _ (marksA_text h)
  | .cls :: r, p, h => by
    simp only [marksA, List.mem_cons, reduceCtorEq, false_or] at h
    exact List.mem_cons_of_mem _ (marksA_text h)
  | .cw name :: r, p, h => by
    simp only [marksA, List.mem_cons, reduceCtorEq, false_or] at h
    exact List.mem_cons_of_mem _ (marksA_text (mem_dropSp h))

/-- a text character of a well-formed document is white space or no structural character -/
theorem atomsOk_chr {T : PTables} {st : PState} {c : Char} : ∀ {as : List Atom},
    atomsOk T st as = true → Atom.chr c ∈ as → isSpace c = true ∨ structuralChar c = false
  | [], _, h => by simp at h
  | .chr d :: r, hok, h => by
    simp only [atomsOk, Bool.and_eq_true] at hok
    simp only [List.mem_cons, Atom.chr.injEq] at h
    rcases h with rfl | h
    · rcases okAt_snd hok.1 with h | h
      · exact Or.inl h
      · exact Or.inr h.1
    · exact atomsOk_chr hok.2 h
  | .opn :: r, hok, h => by
    simp only [atomsOk, Bool.and_eq_true] at hok
    simp only [List.mem_cons, reduceCtorEq, false_or] at h
    exact atomsOk_chr hok.2 h
  | .cls :: r, hok, h => by
    simp only [atomsOk, Bool.and_eq_true] at hok
    simp only [List.mem_cons, reduceCtorEq, false_or] at h
    exact atomsOk_chr hok.2 h
  | .cw name :: r, hok, h => by
    simp only [atomsOk, Bool.and_eq_true] at hok
    simp only [List.mem_cons, reduceCtorEq, false_or] at h
    exact atomsOk_chr hok.2 h

/-- no markup character among the text characters -/
theorem not_markup {c : Char} (h : isSpace c = true ∨ structuralChar c = false) :
    c ≠ '\\' ∧ c ≠ '{' ∧ c ≠ '}' := by
  have hs : structuralChar c = false := by
    rcases h with h | h
    · exact structuralChar_of_isSpace c h
    · exact h
  simp only [structuralChar, Bool.or_eq_false_iff, beq_eq_false_iff_ne] at hs
  obtain ⟨⟨⟨⟨⟨_, _⟩, h3⟩, _⟩, h5⟩, h6⟩ := hs
  exact ⟨h3, h5, h6⟩

/-- the reference only deletes, and keeps the order: the output is a subsequence of the character marks -/
theorem delGo_sublist : ∀ (ms : List Mark) (cur : List (Char × Nat)) (b a : Bool),
    (delGo cur b a ms).Sublist (cur ++ ms.filterMap id)
  | [], cur, b, a => by
    simp only [delGo, List.filterMap_nil, List.append_nil]
    split
    · exact List.nil_sublist _
    · exact List.Sublist.refl _
  | none :: xs, cur, b, a => by
    simp only [delGo, List.filterMap_cons, id]
    exact delGo_sublist xs cur b true
  | some x :: xs, cur, b, a => by
    simp only [delGo, List.filterMap_cons, id]
    split
    · have h1 : (if (b && a) = true then [] else cur ++ [x]).Sublist (cur ++ [x]) := by
        split
        · exact List.nil_sublist _
        · exact List.Sublist.refl _
      have h2 := delGo_sublist xs [] true false
      have := List.Sublist.append h1 h2
      simpa using this
    · have := delGo_sublist xs (cur ++ [x]) (b && isSpace x.1) a
      simpa using this

theorem delLines_sublist (ms : List Mark) : (delLines ms).Sublist (ms.filterMap id) := by
  have := delGo_sublist ms [] true false
  simpa [delLines] using this

theorem dropSp_sublist (ms : List Mark) : (dropSp ms).Sublist ms := by
  unfold dropSp
  split
  · exact List.dropWhile_sublist _
  · exact List.Sublist.refl _

/-- the positions of the character marks are strictly increasing (and not below the start) -/
theorem marksA_sorted : ∀ (as : List Atom) (p : Nat),
    (((marksA p as).filterMap id).map (·.2)).Pairwise (· < ·) ∧
    ∀ q ∈ ((marksA p as).filterMap id).map (·.2), p ≤ q
  | [], _ => by simp [marksA]
  | .chr c :: r, p => by
    obtain ⟨h1, h2⟩ := marksA_sorted r (p + 1)
    simp only [marksA, List.filterMap_cons, id, List.map_cons, List.pairwise_cons, List.mem_cons]
    refine ⟨⟨fun q hq => ?_, h1⟩, ?_⟩
    · have := h2 q hq; omega
    · rintro q (rfl | hq)
      · exact Nat.le_refl _
      · have := h2 q hq; omega
  | .opn :: r, p => by
    obtain ⟨h1, h2⟩ := marksA_sorted r (p + 1)
    simp only [marksA, List.filterMap_cons, id]
    exact ⟨h1, fun q hq => by have := h2 q hq; omega⟩
  | .cls :: r, p => by
    obtain ⟨h1, h2⟩ := marksA_sorted r (p + 1)
    simp only [marksA, List.filterMap_cons, id]
    exact ⟨h1, fun q hq => by have := h2 q hq; omega⟩
  | .cw name :: r, p => by
    obtain ⟨h1, h2⟩ := marksA_sorted r (p + (name.length + 1))
    have hs : (((dropSp (marksA (p + (name.length + 1)) r)).filterMap id).map (·.2)).Sublist
        (((marksA (p + (name.length + 1)) r).filterMap id).map (·.2)) :=
      ((dropSp_sublist _).filterMap id).map _
    simp only [marksA, List.filterMap_cons, id]
    exact ⟨h1.sublist hs, fun q hq => by have := h2 q (hs.subset hq); omega⟩

/-- the output positions (0-based) are strictly increasing: no character is used twice, the order
    of the source is kept -/
theorem delLines_sorted (as : List Atom) (p : Nat) :
    ((delLines (marksA p as)).map (·.2)).Pairwise (· < ·) :=
  (marksA_sorted as p).1.sublist ((delLines_sublist _).map _)

/-- no white space directly behind a control word -/
def tightA : List Atom → Bool
  | [] => true
  | .cw _ :: r => (renderA r).head?.all (fun d => !isSpace d) && tightA r
  | _ :: r => tightA r

/-- the text characters with their positions: the source with every `{`, `}`, `\name` deleted -/
def textA : Nat → List Atom → List (Char × Nat)
  | _, [] => []
  | p, .chr c :: r => (c, p) :: textA (p + 1) r
  | p, .opn :: r => textA (p + 1) r
  | p, .cls :: r => textA (p + 1) r
  | p, .cw name :: r => textA (p + (name.length + 1)) r

theorem marksA_noSp : ∀ (as : List Atom) (p : Nat), (renderA as).head?.all (fun d => !isSpace d) = true →
    NoSp (marksA p as)
  | [], _, _ => by intro m ms' e; simp [marksA] at e
  | .chr c :: r, p, h => by
    intro m ms' e
    simp only [marksA, List.cons.injEq] at e
    rw [← e.1]
    simpa [renderA, Atom.render, spMark] using h
  | .opn :: r, p, _ => by intro m ms' e; simp only [marksA, List.cons.injEq] at e; rw [← e.1]; rfl
  | .cls :: r, p, _ => by intro m ms' e; simp only [marksA, List.cons.injEq] at e; rw [← e.1]; rfl
  | .cw _ :: r, p, _ => by intro m ms' e; simp only [marksA, List.cons.injEq] at e; rw [← e.1]; rfl

/-- without white space behind control words nothing but the markup is cut out of the marks -/
theorem marksA_tight : ∀ (as : List Atom) (p : Nat), tightA as = true →
    (marksA p as).filterMap id = textA p as
  | [], _, _ => rfl
  | .chr c :: r, p, h => by
    simp only [tightA] at h
    simp [marksA, textA, marksA_tight r (p + 1) h]
  | .opn :: r, p, h => by
    simp only [tightA] at h
    simp [marksA, textA, marksA_tight r (p + 1) h]
  | .cls :: r, p, h => by
    simp only [tightA] at h
    simp [marksA, textA, marksA_tight r (p + 1) h]
  | .cw name :: r, p, h => by
    simp only [tightA, Bool.and_eq_true] at h
    simp [marksA, textA, dropSp_noSp (marksA_noSp r _ h.1), marksA_tight r _ h.2]

/-- no white space directly behind a control word of the document -/
def tight (d : List Item) : Bool := tightA (atoms d)

/-- the text characters of the document with their positions -/
def textOf (p : Nat) (d : List Item) : List (Char × Nat) := textA p (atoms d)

theorem plain_tight (d : List Item) (p : Nat) (h : tight d = true) : plain p d = textOf p d :=
  marksA_tight (atoms d) p h

/-! ### simpler sufficient conditions

  `atomsOk` is context dependent; the following conditions on the tables, the characters and the
  names imply it.  The only context that remains is the character behind a control word. -/

/-- the conditions on the tables: no special sequence is a backslash followed by a letter
    (`specialsNoCW` of Proofs/PlainUnknown.lean); `{` and `}` are always scanned as such
    (`braceKey` of Proofs/PlainMacro.lean) -/
def tablesOk (T : PTables) : Bool :=
  specialsNoCW T.toTables && braceKey T.toTables '{' && braceKey T.toTables '}'

/-- text of inert characters (`inertChar` of Proofs/Plain.lean), control words with good names
    (`cwNameOk` of Proofs/PlainUnknown.lean) and no letter directly behind a control word -/
def atomsOkSimple (T : PTables) (st : PState) : List Atom → Bool
  | [] => true
  | .chr c :: r => inertChar T st c && atomsOkSimple T st r
  | .opn :: r => atomsOkSimple T st r
  | .cls :: r => atomsOkSimple T st r
  | .cw name :: r =>
    cwNameOk T st name && (renderA r).head?.all (fun d => !macroChar d) && atomsOkSimple T st r

theorem atomsOk_of_simple (T : PTables) (st : PState) (ht : tablesOk T = true) :
    ∀ as : List Atom, atomsOkSimple T st as = true → atomsOk T st as = true
  | [], _ => rfl
  | .chr c :: r, h => by
    simp only [atomsOkSimple, Bool.and_eq_true] at h
    simp only [atomsOk, Bool.and_eq_true]
    exact ⟨okAt_of_inertChar T st c _ h.1, atomsOk_of_simple T st ht r h.2⟩
  | .opn :: r, h => by
    simp only [tablesOk, Bool.and_eq_true] at ht
    simp only [atomsOkSimple] at h
    simp only [atomsOk, Bool.and_eq_true]
    exact ⟨braceAt_of_key T '{' ht.1.2 _, atomsOk_of_simple T st (by simp [tablesOk, ht]) r h⟩
  | .cls :: r, h => by
    simp only [tablesOk, Bool.and_eq_true] at ht
    simp only [atomsOkSimple] at h
    simp only [atomsOk, Bool.and_eq_true]
    exact ⟨braceAt_of_key T '}' ht.2 _, atomsOk_of_simple T st (by simp [tablesOk, ht]) r h⟩
  | .cw name :: r, h => by
    have ht' := ht
    simp only [tablesOk, Bool.and_eq_true] at ht'
    simp only [atomsOkSimple, Bool.and_eq_true] at h
    simp only [atomsOk, Bool.and_eq_true]
    exact ⟨cwOk_of_name T st ht'.1.1 name _ h.1.1 h.1.2, atomsOk_of_simple T st ht r h.2⟩

/-- the context-free conditions on a document -/
def docOkSimple (T : PTables) (st : PState) (d : List Item) : Bool := atomsOkSimple T st (atoms d)

theorem docOk_of_simple (T : PTables) (st : PState) (ht : tablesOk T = true) (d : List Item)
    (h : docOkSimple T st d = true) : docOk T st d = true :=
  atomsOk_of_simple T st ht (atoms d) h

end PlainGroup
end Yalafi
