/-
  Proofs/SystemML.lean — SYSTEM LEVEL, multi-language mode, grammar-free part: the shell's assembly of
  SEVERAL submitted pieces (`run_proofreader_options`: the loop over `plain_map[lang]`, `matches_tot`,
  `plain_tot`, `charmap_tot`, the delimiter `'\n\n'`; model `assembleNB` / `assembleStepNB` of
  Model/Shell.lean) composed with `map_match_position`, the report generators, the HTML highlight and
  the sort of the matches (Proofs/SystemWord.lean).  Everything here holds for ANY list of pieces with
  ANY answers of the proofreader; Proofs/SystemMLLang.lean instantiates it for the parts that
  `tex2txt … multi := true` returns on documents with `\selectlanguage`.

  Definitions
    `Sub`                   one request of the shell with its answer: `((txt, pos), matches)` — a piece
                            of plain text, its 1-based position map (natural numbers, as the filter
                            delivers them), the matches the proofreader returned for it
    `toPart`, `submit subs` the model's `assembleNB` on these pieces: `plainTot`, `charmapTot`, `hits`
    `shiftOf A`             `len(plain_tot)` after the pieces `A`: what the shell adds to the offsets of
                            the matches of the NEXT piece (`shiftOf_eq`: the sum of `|txt| + 2` over `A`)
    `totMap`                the total position map as natural numbers (`charmapTot_natMap`:
                            `charmapTot = natMap (totMap …)`): every piece's map followed by its last
                            entry twice (the delimiter)
  Theorems
    `totMap_split`          `totMap (A ++ pos :: B) = totMap A ++ pos ++ (two entries) ++ …`
    `submit_split`          text, map and hits of `submit (A ++ x :: B)` in terms of `submit A`, `x`
                            (from `assemble_append` = `C14_assemble_shift`, by induction)
    `assemble_run`          (1) a run `RunAt pos_i o l q` of piece number `i` is the run
                            `RunAt (totMap …) (o + shiftOf (pieces before i)) l q` of the total map,
                            and a map entry follows it
    `ml_run_reported`       (2) … hence (with `C14_run_reported` on the total map): the shifted match is
                            among `matches_tot`, `map_match_position` on the total map yields offset
                            `q`, length `l`; text report, JSON, XML, XML-b are `WordReported src q l`;
                            the HTML report accepts the match and highlights `src[q : q+l]`
    `ml_runs_sorted`        (4) of two flagged runs — in the same or in different pieces, whatever the
                            order of the pieces and of the answers — the one that stands first in the
                            LaTeX file is reported first after the shell's sort
  Side conditions and why
    `∀ y ∈ A, |y.txt| = |y.pos|`   the pieces IN FRONT of the flagged one have maps as long as their
                            texts (C01 / the filter theorems): the shell shifts offsets by the TEXT
                            length and indexes the MAP with them
    `1 ≤ l`, `RunAt … (q+1)`, `q + l ≤ |src|`, `¬ (l = 1 ∧ src[q] = '\\')`   as in `C14_run_reported`
  NOT covered: the rule options (`disa_thresh` / `disacat_thresh` for pieces of at most
  `ml_rule_threshold` words) and the language code of the request are not part of `assembleNB` (the
  language code of a piece is dealt with in Proofs/SystemMLLang.lean); the matches the shell creates
  itself; the skipping of blank pieces (`if not plain.strip(): continue`) is the caller's business
  here (`assembleStepNB` never skips): Proofs/SystemMLLang.lean filters them out before `submit`.
-/
import YalafiVerif.Proofs.SystemWord
import YalafiVerif.Proofs.Shell
namespace Yalafi
namespace SystemML

open SystemWord Reports Html

/-! ### the submitted pieces -/

/-- one request with its answer: `((txt, pos), matches)` -/
abbrev Sub := (Str × List Nat) × List RawMatch

/-- the piece as the model's `assembleNB` takes it: the map as Python ints -/
def toPart (x : Sub) : Part × List RawMatch := ({ plain := x.1.1, charmap := natMap x.1.2 }, x.2)

/-- what `run_proofreader_options` builds from the pieces and the answers, in the order of its loop -/
def submit (subs : List Sub) : Assembled := assembleNB (subs.map toPart)

/-- `len(plain_tot)` after the pieces `A` -/
def shiftOf (A : List Sub) : Nat := (submit A).plainTot.length

/-- one step of the total map: the piece's map, then its last entry twice (delimiter `'\n\n'`) -/
def totStep (acc pos : List Nat) : List Nat :=
  (acc ++ pos) ++ [((acc ++ pos).getLast?).getD 0, ((acc ++ pos).getLast?).getD 0]

/-- the total position map (`charmap_tot`) as natural numbers -/
def totMap (l : List (List Nat)) : List Nat := l.foldl totStep []

/-- the shell's shift of the offset of a match -/
def shiftMatch (s : Nat) (m : RawMatch) : RawMatch := { m with offset := m.offset + (s : Int) }

@[simp] theorem shiftMatch_offset (s : Nat) (m : RawMatch) : (shiftMatch s m).offset = m.offset + (s : Int) := rfl
@[simp] theorem shiftMatch_rest (s : Nat) (m : RawMatch) : (shiftMatch s m).rest = m.rest := rfl

/-! ### `natMap` -/

theorem natMap_append (a b : List Nat) : natMap (a ++ b) = natMap a ++ natMap b := by simp [natMap]

theorem natMap_length (a : List Nat) : (natMap a).length = a.length := by simp [natMap]

theorem natMap_getLast (l : List Nat) : ((natMap l).getLast?).getD 0 = (((l.getLast?).getD 0 : Nat) : Int) := by
  simp only [natMap, List.getLast?_map]
  cases l.getLast? <;> rfl

theorem natMap_totStep (acc pos : List Nat) :
    natMap (totStep acc pos) =
      (natMap acc ++ natMap pos) ++ [((natMap acc ++ natMap pos).getLast?).getD 0, ((natMap acc ++ natMap pos).getLast?).getD 0] := by
  rw [totStep, natMap_append, natMap_append, ← natMap_append acc pos, natMap_getLast]
  rfl

/-! ### the fold of the assembly -/

theorem assembleStep_eq (a : Assembled) (p : Part × List RawMatch) :
    assembleStepNB a p =
      { plainTot := a.plainTot ++ p.1.plain ++ ['\n', '\n'],
        charmapTot := (a.charmapTot ++ p.1.charmap) ++
          [((a.charmapTot ++ p.1.charmap).getLast?).getD 0, ((a.charmapTot ++ p.1.charmap).getLast?).getD 0],
        hits := a.hits ++ p.2.map (fun m => { m with offset := m.offset + (a.plainTot.length : Int) }) } := by
  simp [assembleStepNB]

/-- the assembly only appends -/
theorem foldl_assemble_ext : ∀ (ps : List (Part × List RawMatch)) (a : Assembled),
    ∃ P C H, ps.foldl assembleStepNB a =
      { plainTot := a.plainTot ++ P, charmapTot := a.charmapTot ++ C, hits := a.hits ++ H }
  | [], a => ⟨[], [], [], by simp⟩
  | p :: ps, a => by
    obtain ⟨P, C, H, h⟩ := foldl_assemble_ext ps (assembleStepNB a p)
    rw [List.foldl_cons, h, assembleStep_eq]
    exact ⟨_, _, _, by simp only [List.append_assoc]; rfl⟩

theorem foldl_totStep_ext : ∀ (l : List (List Nat)) (acc : List Nat),
    ∃ R, l.foldl totStep acc = acc ++ R
  | [], acc => ⟨[], by simp⟩
  | p :: l, acc => by
    obtain ⟨R, h⟩ := foldl_totStep_ext l (totStep acc p)
    rw [List.foldl_cons, h, totStep]
    exact ⟨_, by simp only [List.append_assoc]; rfl⟩

/-- the total map of the model is the total map in natural numbers -/
theorem foldl_charmap_natMap : ∀ (xs : List Sub) (a : Assembled) (acc : List Nat),
    a.charmapTot = natMap acc →
    ((xs.map toPart).foldl assembleStepNB a).charmapTot = natMap ((xs.map (·.1.2)).foldl totStep acc)
  | [], a, acc, h => by simpa using h
  | x :: xs, a, acc, h => by
    simp only [List.map_cons, List.foldl_cons]
    apply foldl_charmap_natMap xs
    rw [assembleStep_eq, natMap_totStep, h]
    rfl

theorem charmapTot_natMap (subs : List Sub) :
    (submit subs).charmapTot = natMap (totMap (subs.map (·.1.2))) :=
  foldl_charmap_natMap subs _ [] rfl

/-- text, map and matches of `A ++ x :: B` in terms of those of `A` and of the piece `x` -/
theorem submit_split (A B : List Sub) (x : Sub) :
    ∃ P C H, submit (A ++ x :: B) =
      { plainTot := (submit A).plainTot ++ (x.1.1 ++ ['\n', '\n'] ++ P),
        charmapTot := (submit A).charmapTot ++ natMap x.1.2 ++ C,
        hits := (submit A).hits ++ x.2.map (shiftMatch (shiftOf A)) ++ H } := by
  have h1 : submit (A ++ x :: B)
      = (B.map toPart).foldl assembleStepNB (assembleStepNB (submit A) (toPart x)) := by
    simp [submit, assembleNB, List.foldl_append]
  obtain ⟨P, C, H, h⟩ := foldl_assemble_ext (B.map toPart) (assembleStepNB (submit A) (toPart x))
  rw [h1, h, assembleStep_eq]
  refine ⟨P, [(((submit A).charmapTot ++ natMap x.1.2).getLast?).getD 0,
    (((submit A).charmapTot ++ natMap x.1.2).getLast?).getD 0] ++ C, H, ?_⟩
  simp only [toPart, List.append_assoc, shiftOf]
  rfl

theorem totMap_split (A B : List (List Nat)) (pos : List Nat) :
    ∃ R, totMap (A ++ pos :: B) = totMap A ++ pos ++ R ∧ 2 ≤ R.length := by
  obtain ⟨R, h⟩ := foldl_totStep_ext B (totStep (totMap A) pos)
  refine ⟨[((totMap A ++ pos).getLast?).getD 0, ((totMap A ++ pos).getLast?).getD 0] ++ R, ?_, by simp⟩
  simp only [totMap, List.foldl_append, List.foldl_cons] at h ⊢
  rw [h, totStep]
  simp only [List.append_assoc]

/-- the shift is the length of the map assembled so far -/
theorem shiftOf_totMap (A : List Sub) (hlen : ∀ y ∈ A, y.1.1.length = y.1.2.length) :
    shiftOf A = (totMap (A.map (·.1.2))).length := by
  have h := assemble_lengths (A.map toPart) (by
    intro p hp
    obtain ⟨y, hy, rfl⟩ := List.mem_map.mp hp
    simp only [toPart, natMap_length]
    exact hlen y hy)
  have h2 := charmapTot_natMap A
  unfold shiftOf
  unfold submit at h2 ⊢
  rw [h, h2, natMap_length]

theorem foldl_plain_length : ∀ (xs : List Sub) (a : Assembled),
    ((xs.map toPart).foldl assembleStepNB a).plainTot.length
      = a.plainTot.length + (xs.map (fun y => y.1.1.length + 2)).sum
  | [], a => by simp
  | x :: xs, a => by
    simp only [List.map_cons, List.foldl_cons, List.sum_cons]
    rw [foldl_plain_length xs, assembleStep_eq]
    simp only [toPart, List.length_append, List.length_cons, List.length_nil]
    omega

/-- the shift in plain words: the lengths of the texts in front, two characters of delimiter each -/
theorem shiftOf_eq (A : List Sub) : shiftOf A = (A.map (fun y => y.1.1.length + 2)).sum := by
  have := foldl_plain_length A { plainTot := [], charmapTot := [], hits := [] }
  simpa [shiftOf, submit, assembleNB] using this

/-! ### (1) a run of a piece is a run of the total map -/

theorem runAt_embed (pre pos R : List Nat) (o l q : Nat) (h : RunAt pos o l q) :
    RunAt (pre ++ pos ++ R) (o + pre.length) l q := by
  apply runAt_of_get
  intro i hi
  have h1 := h.get i hi
  have hlt : o + i < pos.length := by
    rcases Nat.lt_or_ge (o + i) pos.length with h3 | h3
    · exact h3
    · rw [List.getElem?_eq_none h3] at h1; cases h1
  rw [List.append_assoc, List.getElem?_append_right (by omega),
    show o + pre.length + i - pre.length = o + i by omega, List.getElem?_append_left hlt]
  exact h1

/-- **(1)** piece `x` stands behind the pieces `A`: a run of its map at offset `o` is a run of the
    total map at the shifted offset `o + shiftOf A`, and a map entry follows the run -/
theorem assemble_run (A B : List Sub) (x : Sub) (o l q : Nat)
    (hlen : ∀ y ∈ A, y.1.1.length = y.1.2.length) (hrun : RunAt x.1.2 o l q) :
    RunAt (totMap ((A ++ x :: B).map (·.1.2))) (o + shiftOf A) l q ∧
    (1 ≤ l → o + shiftOf A + l < (totMap ((A ++ x :: B).map (·.1.2))).length) := by
  obtain ⟨R, hR, hR2⟩ := totMap_split (A.map (·.1.2)) (B.map (·.1.2)) x.1.2
  have he : (A ++ x :: B).map (·.1.2) = A.map (·.1.2) ++ x.1.2 :: B.map (·.1.2) := by simp
  rw [he, hR, shiftOf_totMap A hlen]
  refine ⟨runAt_embed _ _ _ o l q hrun, ?_⟩
  intro hl
  rcases hrun.le with h0 | h0
  · omega
  · simp only [List.length_append]; omega

/-! ### (2) the reports of a match of one piece after the assembly -/

/-- **(2)** the proofreader flags, in the piece `x` that the shell submits after the pieces `A`, the
    `l ≥ 1` characters from offset `o`, and their map entries are `q+1, …, q+l`.  Then
    * every match `m` of the answer for `x` is among `matches_tot` with its offset shifted by
      `shiftOf A`;
    * the total map is `natMap (totMap …)`, the shifted offset has the same run there and an entry
      follows it;
    * `map_match_position` on the TOTAL map yields offset `q`, length `l`; all reports are those of
      the source word `src[q … q+l)` (`WordReported`), the HTML highlight is that word. -/
theorem ml_run_reported (src : Str) (A B : List Sub) (x : Sub) (o l q : Nat) (hl : 1 ≤ l)
    (hlen : ∀ y ∈ A, y.1.1.length = y.1.2.length)
    (hrun : RunAt x.1.2 o l (q + 1)) (hin : q + l ≤ src.length)
    (hbs : ¬ (l = 1 ∧ src[q]? = some '\\')) :
    (∀ m ∈ x.2, shiftMatch (shiftOf A) m ∈ (submit (A ++ x :: B)).hits) ∧
    (submit (A ++ x :: B)).charmapTot = natMap (totMap ((A ++ x :: B).map (·.1.2))) ∧
    RunAt (totMap ((A ++ x :: B).map (·.1.2))) (o + shiftOf A) l (q + 1) ∧
    o + shiftOf A + l < (submit (A ++ x :: B)).charmapTot.length ∧
    mapMatch (submit (A ++ x :: B)).charmapTot src ((o + shiftOf A : Nat) : Int) (some (.int l))
      = .ok ((q : Int), (l : Int)) ∧
    reportAll (submit (A ++ x :: B)).charmapTot src ((o + shiftOf A : Nat) : Int) (some (.int l))
      = .ok (locate src q l) ∧
    WordReported src q l (locate src q l) ∧
    HtmlWord src (submit (A ++ x :: B)).charmapTot (o + shiftOf A) l q := by
  obtain ⟨hr, hnext⟩ := assemble_run A B x o l (q + 1) hlen hrun
  have hcm := charmapTot_natMap (A ++ x :: B)
  have hcm' : (submit (A ++ x :: B)).charmapTot = natMap (totMap ((A ++ x :: B).map (·.1.2))) ++ [] := by
    rw [hcm, List.append_nil]
  refine ⟨?_, hcm, hr, ?_, ?_, ?_, locate_word src q l hl hin, ?_⟩
  · intro m hm
    obtain ⟨P, C, H, h⟩ := submit_split A B x
    rw [h]
    simp only [List.mem_append, List.mem_map]
    exact Or.inl (Or.inr ⟨m, hm, rfl⟩)
  · rw [hcm, natMap_length]; exact hnext hl
  · rw [hcm']; exact mapMatch_run src _ [] _ l q hl hr hbs
  · rw [hcm']; exact reportAll_run src _ [] _ l q hl hr hbs
  · rw [hcm']; exact html_run src _ [] _ l q hl hr hbs (by omega) (by simp)

/-! ### (4) the order of the reports across pieces -/

/-- **(4)** two flagged runs, in the pieces `x1` (behind `A1`) and `x2` (behind `A2`) of the same list
    of requests — the same piece or different ones, in any order —: after the shell's sort of
    `matches_tot` by the total map, the match whose word stands first in the LaTeX file comes first -/
theorem ml_runs_sorted (subs A1 B1 A2 B2 : List Sub) (x1 x2 : Sub)
    (h1 : subs = A1 ++ x1 :: B1) (h2 : subs = A2 ++ x2 :: B2)
    (hlen1 : ∀ y ∈ A1, y.1.1.length = y.1.2.length) (hlen2 : ∀ y ∈ A2, y.1.1.length = y.1.2.length)
    (m1 m2 : RawMatch) (hm1 : m1 ∈ x1.2) (hm2 : m2 ∈ x2.2) (o1 l1 q1 o2 l2 q2 : Nat)
    (ho1 : m1.offset = (o1 : Int)) (ho2 : m2.offset = (o2 : Int)) (hl1 : 1 ≤ l1) (hl2 : 1 ≤ l2)
    (hr1 : RunAt x1.1.2 o1 l1 (q1 + 1)) (hr2 : RunAt x2.1.2 o2 l2 (q2 + 1)) (hlt : q1 < q2)
    (out : List RawMatch) (hs : sortMatches (submit subs).charmapTot (submit subs).hits = .ok out) :
    ∃ X Y Z, out = X ++ shiftMatch (shiftOf A1) m1 :: (Y ++ shiftMatch (shiftOf A2) m2 :: Z) := by
  have hcm : (submit subs).charmapTot = natMap (totMap (subs.map (·.1.2))) ++ [] := by
    rw [charmapTot_natMap, List.append_nil]
  rw [hcm] at hs
  have g1 : shiftMatch (shiftOf A1) m1 ∈ (submit subs).hits := by
    obtain ⟨P, C, H, h⟩ := submit_split A1 B1 x1
    rw [h1, h]
    simp only [List.mem_append, List.mem_map]
    exact Or.inl (Or.inr ⟨m1, hm1, rfl⟩)
  have g2 : shiftMatch (shiftOf A2) m2 ∈ (submit subs).hits := by
    obtain ⟨P, C, H, h⟩ := submit_split A2 B2 x2
    rw [h2, h]
    simp only [List.mem_append, List.mem_map]
    exact Or.inl (Or.inr ⟨m2, hm2, rfl⟩)
  have r1 := (assemble_run A1 B1 x1 o1 l1 (q1 + 1) hlen1 hr1).1
  have r2 := (assemble_run A2 B2 x2 o2 l2 (q2 + 1) hlen2 hr2).1
  rw [← h1] at r1
  rw [← h2] at r2
  exact runs_sorted _ [] _ out hs _ _ g1 g2 (o1 + shiftOf A1) l1 q1 (o2 + shiftOf A2) l2 q2
    (by simp [ho1]) (by simp [ho2]) hl1 hl2 r1 r2 hlt

end SystemML
end Yalafi
