/-
  Generated/Init.lean — `Parser.__init__` for the default options, evaluated by the kernel on
  the tables translated from /repo (re-evaluated whenever Generated/Tables.lean changes).
  It discharges the hypothesis `hinit` of the end-to-end theorems (C03, C06, C19) for the
  current code: `initParser_default`.  (Hand-written file.)
-/
import YalafiVerif.Generated.Tables
import YalafiVerif.Model.Tex2txt
namespace Yalafi.Generated
open Yalafi

/-- `Options()` of tex2txt: language 'en', no packages, no document class -/
def defaultOptions : Options := {}

/-- fuel of the `_current` instances: sources of up to 999 998 characters -/
def bigFuel : Nat := 1000000

def initResult : Outcome (Unit × PState) :=
  initParser theTables bigFuel defaultOptions (initialState theTables defaultOptions false [])

theorem initResult_ok : (match initResult with | .ok _ => true | _ => false) = true := by
  decide +kernel

/-- the parser state after initialisation -/
def stDefault : PState :=
  match initResult with
  | .ok (_, s) => s
  | _ => initialState theTables defaultOptions false []

theorem initParser_default :
    initParser theTables bigFuel defaultOptions (initialState theTables defaultOptions false [])
      = .ok ((), stDefault) := by
  have h := initResult_ok
  show initResult = .ok ((), stDefault)
  unfold stDefault
  generalize initResult = r at h ⊢
  cases r with
  | ok p => obtain ⟨u, s⟩ := p; cases u; rfl
  | fatal m => simp at h
  | crash c => simp at h
  | outOfFuel => simp at h

end Yalafi.Generated
