/-
  Generated/WF.lean — the decidable well-formedness facts of the tables translated from
  /repo, decided by the kernel on every run (`decide +kernel`, no `native_decide`).
  (This file is hand-written; it is re-checked whenever Generated/Tables.lean changes.)
-/
import YalafiVerif.Generated.Tables
import YalafiVerif.Spec.Inv
namespace Yalafi.Generated
open Yalafi

theorem wfScan : theTables.toTables.WFScan where
  special_nonempty := by decide +kernel
  sorted := by decide +kernel
  keys := by
    have h1 : ∀ k ∈ theTables.toTables.specialSorted, k ∈ theTables.toTables.special.map (·.1) := by decide +kernel
    have h2 : ∀ k ∈ theTables.toTables.special.map (·.1), k ∈ theTables.toTables.specialSorted := by decide +kernel
    exact fun k => ⟨h1 k, h2 k⟩
  mark_nonempty := by decide +kernel

theorem wfInv : theTables.WFInv where
  scan := wfScan
  special_len := by decide +kernel
  special_small := by decide +kernel
  accent_len := by decide +kernel
  unicode_len := by decide +kernel
  macros_ok := by decide +kernel
  modules_ok := by decide +kernel
  envs_ok := by decide +kernel
  default_env := by decide +kernel
  accent_names := by decide +kernel
  special_hash := by decide +kernel
  lang_en := by decide +kernel
  langs_ok := by decide +kernel
  item_labels := by decide +kernel
  babel_english := by decide +kernel
  decimal_ascii := by decide +kernel

end Yalafi.Generated
