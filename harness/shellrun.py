"""Run `python -m yalafi.shell` as a subprocess with a fake proofreader."""
import os, sys, json, subprocess, tempfile, shutil
import impl

HERE = os.path.dirname(os.path.abspath(__file__))

def run_shell(case):
    """case: dict(files={name: text}, args=[...], spec={...}, main=[file names]); returns dict"""
    d = tempfile.mkdtemp(prefix='yv_')
    try:
        for name, text in case['files'].items():
            p = os.path.join(d, name)
            os.makedirs(os.path.dirname(p), exist_ok=True)
            with open(p, 'w', encoding='utf-8', newline='') as f:
                f.write(text)
        spec = os.path.join(d, 'spec.json')
        json.dump(case.get('spec') or {}, open(spec, 'w', encoding='utf-8'))
        cmd = ['/venv/bin/python', '-m', 'yalafi.shell', '--no-config', '--lt-command',
               '/venv/bin/python %s %s' % (os.path.join(HERE, 'fake_lt.py'), spec)] + list(case.get('args', [])) + list(case['main'])
        env = dict(os.environ, PYTHONPATH=impl.REPO, PYTHONHASHSEED=str(case.get('hashseed', 0)), PYTHONIOENCODING='utf-8')
        rc, out, err = -9, '', 'TIMEOUT'
        for limit in (case.get('timeout', 60), 240):       # a second, generous try: a busy machine must not look like a hang
            try:
                if os.path.exists(spec + '.log'):
                    os.remove(spec + '.log')
                p = subprocess.run(cmd, cwd=d, env=env, stdout=subprocess.PIPE, stderr=subprocess.PIPE, timeout=limit)
                rc, out, err = p.returncode, p.stdout.decode('utf-8', 'replace'), p.stderr.decode('utf-8', 'replace')
                break
            except subprocess.TimeoutExpired:
                pass
        log = []
        if os.path.exists(spec + '.log'):
            log = [json.loads(l) for l in open(spec + '.log', encoding='utf-8')]
        return {'rc': rc, 'stdout': out, 'stderr': err, 'log': log}
    finally:
        shutil.rmtree(d, ignore_errors=True)

def linecol(tex, off):
    return tex.count('\n', 0, off) + 1, off - (tex.rfind('\n', 0, off) + 1) + 1
