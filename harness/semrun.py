"""Well-formed AST documents with their reference semantics, run through the implementation."""
import re, random
import gen, sem, t2t

# a letter followed by a combining mark is the result of an accent macro glued to the word (\~{l} -> l + U+0303), not part of it
WORD = re.compile(r'Q(?:[a-z](?![\u0300-\u036f]))+')

def make_case(rng, profile=None, n=None, opts=None):
    ast, r = gen.make_doc(rng, profile, n)
    o = opts if opts is not None else {'lang': rng.choice(['', 'en', 'de', 'ru', 'en-GB']), 'pack': '*',
                                       'dcls': rng.choice(['', '', 'article', 'scrartcl'])}
    return {'src': r.src(), 'opts': o, 'multi': False, 'kind': 'sem', 'ast': ast, 'words': r.words, 'spans': r.spans, 'callspans': r.callspans}

def expected(case):
    """reference semantics; None if the document uses something the evaluator does not cover"""
    try:
        return sem.evaluate(case['ast'])
    except sem.Unsupported:
        return None

def run_cases(ctx, cases):
    slim = [{k: v for k, v in c.items() if k not in ('ast', 'words', 'spans', 'callspans')} for c in cases]
    return ctx.pmap(t2t.run_case, slim)

def out_words(txt):
    return [(m.group(0), m.start()) for m in WORD.finditer(txt)]


def crlf_variant(case):
    """the same document with CR LF line breaks (every offset recorded by the renderer is moved accordingly)"""
    src = case['src']
    import bisect
    nl = [i for i, ch in enumerate(src) if ch == '\n']
    def mv(off):
        return off + bisect.bisect_left(nl, off)
    c = dict(case)
    c['src'] = src.replace('\n', '\r\n')
    c['words'] = [dict(w, start=mv(w['start'])) if 'start' in w else w for w in case['words']]
    for w in c['words']:
        if 'end' in w:
            w['end'] = mv(w['end'])
    c['spans'] = [(t, mv(a), mv(b)) for (t, a, b) in case['spans']]
    c['callspans'] = [[nm, mv(a), mv(b)] for (nm, a, b) in case['callspans']]
    c['kind'] = case.get('kind', 'sem') + '+crlf'
    return c


def pack(case):
    """JSON-able copy of a generated case (stored in the replay file so that a replay can re-judge it)"""
    import json
    return json.loads(json.dumps({k: v for k, v in case.items() if k not in ('literal_markup',)}, default=list))

def unpack(d):
    """restore what JSON loses: one dict object per macro definition (calls refer to their definition by identity)"""
    import json
    c = dict(d)
    pool = {}
    def fix(n):
        if isinstance(n, dict):
            if 'm' in n and isinstance(n['m'], dict):
                key = json.dumps(n['m'], sort_keys=True)
                n['m'] = pool.setdefault(key, n['m'])
            for k, v in list(n.items()):
                if k != 'm':
                    fix(v)
        elif isinstance(n, list):
            for x in n:
                fix(x)
    if 'ast' in c:
        fix(c['ast'])
    for k in ('spans', 'callspans'):
        if k in c and c[k] is not None:
            c[k] = [tuple(x) if k == 'spans' else list(x) for x in c[k]]
    return c

def run_one(c):
    return t2t.run_case({k: v for k, v in c.items() if k not in ('ast', 'words', 'spans', 'callspans')})
