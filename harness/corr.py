"""Correspondence between leaf functions of the implementation and the Lean model."""
import copy, io, sys
import impl, proto, model

CLASS_OF_KIND = {v: k for k, v in proto.KIND_OF_CLASS.items()}

def obj_of_tok(m, t):
    kind, pos, fix, txt, extra = t
    d = m.defs
    if kind == 'verb':
        o = d.VerbatimToken(pos, txt, environ=(extra == '1'))
    elif kind == 'arg':
        o = d.ArgumentToken(pos, txt, int(extra))
    elif kind == 'action':
        o = d.ActionToken(pos)
    elif kind == 'void':
        o = d.VoidToken(pos)
    elif kind == 'lang':
        flags, l = extra.split(':')
        o = d.LanguageToken(pos, lang=proto.dec_str(l), back=flags[0] == '1', hard=flags[1] == '1', brk=flags[2] == '1')
    elif kind in ('text', 'space', 'par'):
        o = getattr(d, CLASS_OF_KIND[kind])(pos, txt, pos_fix=fix)
    elif kind == 'mathbegin':
        return None
    elif kind in ('mathelem', 'mathoper', 'mathspace'):
        o = getattr(d, CLASS_OF_KIND[kind])(pos, txt)
    else:
        o = getattr(d, CLASS_OF_KIND[kind])(pos, txt)
    o.pos_fix = fix
    return o

# ---- implementation sides (run in workers) ---------------------------------

def impl_scan(src):
    m = impl.load()
    def f():
        p = m.parameters.Parameters('')
        return [proto.tok_of_obj(t) for t in p.scanner.scan(src)]
    r = impl.guarded(f)
    return {'outcome': r['outcome'], 'toks': r['value'], 'diags': impl.parse_stderr(r['stderr']), 'exc': r.get('exc')}

_parser = {}
def get_parser(m):
    if 'p' not in _parser:
        _parser['p'] = m.parser.Parser(m.parameters.Parameters(''))
    return _parser['p']

def impl_lines(toks):
    m = impl.load()
    def f():
        objs = [obj_of_tok(m, t) for t in toks]
        out = get_parser(m).remove_pure_action_lines(objs)
        return [proto.tok_of_obj(t) for t in out]
    r = impl.guarded(f)
    return {'outcome': r['outcome'], 'toks': r['value'], 'exc': r.get('exc')}

def impl_txtpos(toks):
    m = impl.load()
    def f():
        t, p = m.utils.get_txt_pos([obj_of_tok(m, t) for t in toks])
        return (t, list(p))
    r = impl.guarded(f)
    return {'outcome': r['outcome'], 'value': r['value'], 'exc': r.get('exc')}

def impl_latexerr(args):
    err, pos, src, verbose = args
    m = impl.load()
    def f():
        p = m.parameters.Parameters('')
        p.mark_latex_error_verbose = verbose
        return [proto.tok_of_obj(t) for t in m.utils.latex_error(err, pos, src, p)]
    r = impl.guarded(f)
    return {'outcome': r['outcome'], 'toks': r['value'], 'diags': impl.parse_stderr(r['stderr']), 'exc': r.get('exc')}

def impl_ml(args):
    toks, main, thresh, lc = args
    m = impl.load()
    def f():
        p = m.parameters.Parameters(main)
        p.ml_continue_thresh = thresh
        for k, v in lc:
            p.parser_lang_settings[k].lang_change_repl[:] = v
        r = m.utils.get_txt_pos_ml([obj_of_tok(m, t) for t in toks], main, p)
        return ([(lang, [(x[0], list(x[1])) for x in ps]) for lang, ps in r.items()],
                [(k, list(v.lang_change_repl)) for k, v in p.parser_lang_settings.items()])
    r = impl.guarded(f)
    return {'outcome': r['outcome'], 'value': r['value'], 'exc': r.get('exc')}

def pmap_retry(ctx, fn, items):
    """a time-out of one of these small pure functions is a load artefact of the machine, not an outcome:
    the item is run again, alone, in this process"""
    items = list(items)
    res = ctx.pmap(fn, items)
    for i, r in enumerate(res):
        if isinstance(r, dict) and r.get('outcome') == 'timeout':
            ctx.count('impl_timeout_retried')
            res[i] = fn(items[i])
    return res

# ---- comparison ------------------------------------------------------------

def scan(ctx, srcs):
    if not ctx.model_ok:
        return
    res = pmap_retry(ctx, impl_scan, srcs)
    ans = model.run_batch([('SCAN', 'sc%d' % i, [proto.enc_str(s)]) for i, s in enumerate(srcs)])
    for i, (s, r) in enumerate(zip(srcs, res)):
        ctx.corr['cases'] += 1
        rd = proto.Reader(ans['sc%d' % i])
        if rd.next() != 'ok' or r['outcome'] != 'ok':
            ctx.disagree('scan: outcome', src=s, impl=r['outcome'], exc=r.get('exc')); continue
        complete = rd.bool(); mt = rd.toks(); md = rd.diags()
        if not complete:
            ctx.disagree('scan: model fuel exhausted', src=s); continue
        if mt != r['toks']:
            k = next((j for j in range(min(len(mt), len(r['toks']))) if mt[j] != r['toks'][j]), min(len(mt), len(r['toks'])))
            ctx.disagree('scan: token lists differ', src=s, index=k, impl=r['toks'][k:k + 2], model=mt[k:k + 2])
        elif md != r['diags']:
            ctx.disagree('scan: diagnostics differ', src=s, impl=r['diags'], model=md)

def lines(ctx, toklists):
    if not ctx.model_ok:
        return
    res = pmap_retry(ctx, impl_lines, toklists)
    ans = model.run_batch([('LINES', 'ln%d' % i, proto.enc_toks(t)) for i, t in enumerate(toklists)])
    for i, (t, r) in enumerate(zip(toklists, res)):
        ctx.corr['cases'] += 1
        rd = proto.Reader(ans['ln%d' % i])
        st = rd.next()
        if st != 'ok' or r['outcome'] != 'ok':
            ctx.disagree('remove_pure_action_lines: outcome', toks=t, impl=r['outcome'], model=st, exc=r.get('exc')); continue
        mt = rd.toks()
        if mt != r['toks']:
            ctx.disagree('remove_pure_action_lines: results differ', toks=t, impl=r['toks'], model=mt)

def txtpos(ctx, toklists):
    if not ctx.model_ok:
        return
    res = pmap_retry(ctx, impl_txtpos, toklists)
    ans = model.run_batch([('TXTPOS', 'tp%d' % i, proto.enc_toks(t)) for i, t in enumerate(toklists)])
    for i, (t, r) in enumerate(zip(toklists, res)):
        ctx.corr['cases'] += 1
        rd = proto.Reader(ans['tp%d' % i])
        if rd.next() != 'ok' or r['outcome'] != 'ok':
            ctx.disagree('get_txt_pos: outcome', toks=t, impl=r['outcome']); continue
        mv = rd.txtpos()
        if (mv[0], mv[1]) != (r['value'][0], r['value'][1]):
            ctx.disagree('get_txt_pos: results differ', toks=t, impl=r['value'], model=mv)

def latexerr(ctx, cases):
    if not ctx.model_ok:
        return
    res = pmap_retry(ctx, impl_latexerr, cases)
    ans = model.run_batch([('LATEXERR', 'le%d' % i, [proto.enc_str(c[0]), str(c[1]), proto.enc_str(c[2]), proto.enc_bool(c[3])])
                           for i, c in enumerate(cases)])
    for i, (c, r) in enumerate(zip(cases, res)):
        ctx.corr['cases'] += 1
        rd = proto.Reader(ans['le%d' % i])
        if rd.next() != 'ok' or r['outcome'] != 'ok':
            ctx.disagree('latex_error: outcome', case=c, impl=r['outcome']); continue
        mt = rd.toks(); md = rd.diag()
        if mt != r['toks'] or [md] != r['diags']:
            ctx.disagree('latex_error: results differ', case=c, impl=[r['toks'], r['diags']], model=[mt, md])

def ml(ctx, cases):
    """cases: (toks, main, thresh, lc) with lc = [(code, [placeholders])]"""
    if not ctx.model_ok:
        return
    res = pmap_retry(ctx, impl_ml, cases)
    reqs = []
    for i, (toks, main, thresh, lc) in enumerate(cases):
        f = proto.enc_toks(toks) + [proto.enc_str(main), str(thresh)]
        f += proto.enc_list(lc, lambda e: [proto.enc_str(e[0])] + proto.enc_list(e[1], lambda s: [proto.enc_str(s)]))
        reqs.append(('ML', 'ml%d' % i, f))
    ans = model.run_batch(reqs)
    for i, (c, r) in enumerate(zip(cases, res)):
        ctx.corr['cases'] += 1
        rd = proto.Reader(ans['ml%d' % i])
        st = rd.next()
        if st != 'ok' or r['outcome'] != 'ok':
            ctx.disagree('get_txt_pos_ml: outcome', case=c, impl=r['outcome'], model=st, exc=r.get('exc')); continue
        parts = rd.parts()
        lc2 = rd.list(lambda: (rd.str(), rd.list(rd.str)))
        if parts != r['value'][0]:
            ctx.disagree('get_txt_pos_ml: parts differ', case=c, impl=r['value'][0], model=parts)
        elif dict(lc2) != dict(r['value'][1]):
            ctx.disagree('get_txt_pos_ml: rotation state differs', case=c, impl=r['value'][1], model=lc2)

def in_range(n, tok):
    kind, pos, fix, txt, extra = tok
    if not txt:
        return True
    return pos < n and (fix or pos + len(txt) <= n)

def leaf_corr(ctx, cases, results, want=('scan', 'txtpos', 'lines', 'ml', 'latexerr'), limit=400):
    """correspondence of the leaf functions on material taken from end-to-end runs"""
    rng = ctx.rng
    idx = list(range(len(cases)))
    rng.shuffle(idx)
    idx = idx[:limit]
    if 'scan' in want:
        scan(ctx, [cases[i]['src'] for i in idx])
    tl = [results[i]['toks'] for i in idx if results[i].get('toks') and all(t[0] != 'mathbegin' and not t[0].startswith('other') for t in results[i]['toks'])]
    if 'txtpos' in want:
        txtpos(ctx, tl)
    if 'lines' in want:
        li = []
        for i in idx:
            for t in (results[i].get('lines_inputs') or []):
                if all(x[0] != 'mathbegin' and not x[0].startswith('other') for x in t):
                    li.append(t)
        lines(ctx, li[:limit * 2])
    if 'ml' in want:
        mc = []
        for i in idx:
            r, c = results[i], cases[i]
            if c.get('multi') and r.get('toks') is not None and r.get('lang_change') and r['outcome'] == 'ok':
                lc = list(r['lang_change'].items())
                mc.append((r['toks'], (c.get('opts') or {}).get('lang') or '', c.get('thresh') if c.get('thresh') is not None else 3,
                           [(k, v) for k, v in lc]))
        ml(ctx, mc)
    if 'latexerr' in want:
        le = []
        for _ in range(min(200, limit)):
            src = cases[rng.choice(idx)]['src'] if idx else 'ab'
            if not src:
                continue
            le.append((rng.choice(['missing end of maths', 'x', 'cannot find closing "}"']), rng.randrange(len(src)), src, rng.random() < 0.3))
            if rng.random() < 0.3:
                le[-1] = (le[-1][0], len(src) - 1 - min(len(src) - 1, rng.randint(0, 3)), src, le[-1][3])
        latexerr(ctx, le)

# ---- full expander: tex2txt on the model ------------------------------------

FUEL = 200000

def t2t_request(i, case):
    o = case.get('opts') or {}
    files = case.get('files') or {}
    repl = o.get('repl') or []
    f = [proto.enc_str(o.get('lang') or ''), proto.enc_str(o.get('pack') or ''), proto.enc_str(o.get('dcls') or ''),
         proto.enc_str(o.get('extr') or ''), proto.enc_bool(o.get('seqs')), proto.enc_bool(o.get('nosp')),
         proto.enc_bool(o.get('unkn')), proto.enc_str(o.get('defs') or ''),
         proto.enc_bool(case.get('multi')), str(case.get('thresh') if case.get('thresh') is not None else 3),
         proto.enc_bool(bool(repl))]
    f += proto.enc_list(list(repl), lambda l: [proto.enc_str(l)])
    # a file given by bytes that are not valid text is an unreadable file for the model
    f += proto.enc_list(sorted((k, v) for k, v in files.items() if isinstance(v, str)), lambda e: [proto.enc_str(e[0]), proto.enc_str(e[1])])
    f += [str(FUEL), proto.enc_str(case['src'])]
    return ('T2T', 't%d' % i, f)

def t2t_decode(ans):
    rd = proto.Reader(ans)
    st = rd.next()
    if st != 'ok':
        return {'outcome': st, 'detail': rd.rest()[:1]}
    toks = rd.toks(); txt, pos = rd.txtpos(); parts = rd.parts()
    unknowns = rd.list(rd.str); diags = rd.diags(); foreign = rd.bool()
    return {'outcome': 'ok', 'foreign': foreign, 'toks': toks, 'txt': txt, 'pos': pos, 'parts': parts, 'unknowns': unknowns, 'diags': diags}

def norm_diags(ds):
    """(line, col, message up to the first quote or line break): quoted parts go through Python's repr(); of a
    message of several lines (package cleveref) impl.parse_stderr keeps the first line (the complete text on stderr is
    compared by corr_cref.docs_corr)"""
    import re
    return [(d[0], d[1], re.split(r'[\'"\n]', d[2])[0]) for d in ds]

def cleveref_used(case):
    """(no longer used to exclude anything: package cleveref is part of the model; kept for statistics)"""
    s = case['src'] + ((case.get('opts') or {}).get('defs') or '') + ''.join(v for v in (case.get('files') or {}).values() if isinstance(v, str))
    o = case.get('opts') or {}
    return 'cleveref' in s or 'cleveref' in (o.get('pack') or '')

def t2t(ctx, cases, results, proj=('outcome', 'toks', 'text', 'diags', 'unknowns'), limit=None):
    """token-level correspondence of the whole filter; `proj` = projections compared"""
    if not ctx.model_ok:
        return
    idx = [i for i in range(len(cases)) if results[i]['outcome'] in ('ok', 'crash', 'fatal')]
    if limit and len(idx) > limit:
        must = [i for i in idx if cases[i].get('kind') in ('long', 'corpus')]
        rest = [i for i in idx if cases[i].get('kind') not in ('long', 'corpus')]
        idx = must + ctx.rng.sample(rest, max(0, limit - len(must)))
    ans = model.run_batch([t2t_request(i, cases[i]) for i in idx], timeout=1800)
    for i in idx:
        c, r = cases[i], results[i]
        m = t2t_decode(ans['t%d' % i])
        ctx.corr['cases'] += 1
        if cleveref_used(c):
            ctx.count('corr_cleveref_documents')
        info = dict(src=c['src'], opts=c.get('opts'), multi=c.get('multi'), files=c.get('files'), thresh=c.get('thresh'))
        if m['outcome'] == 'fuel':
            ctx.count('model_out_of_fuel'); continue
        if 'outcome' in proj and m['outcome'] != r['outcome']:
            ctx.disagree('tex2txt outcome: impl %s (%s) / model %s %s' % (r['outcome'], r.get('exc'), m['outcome'], m.get('detail')), **info)
            continue
        if r['outcome'] != 'ok':
            continue
        ctx.count('model_ok_foreign_true' if m.get('foreign') else 'model_ok_foreign_false')
        if 'toks' in proj and r.get('toks') is not None and m['toks'] != r['toks']:
            a, b = r['toks'], m['toks']
            k = next((j for j in range(min(len(a), len(b))) if a[j] != b[j]), min(len(a), len(b)))
            ctx.disagree('tex2txt final tokens differ at %d' % k, impl=a[max(0, k - 1):k + 3], model=b[max(0, k - 1):k + 3], **info)
            continue
        if 'text' in proj:
            if c.get('multi'):
                if m['parts'] != r.get('parts'):
                    ctx.disagree('tex2txt multi-language parts differ', impl=r.get('parts'), model=m['parts'], **info); continue
            elif (m['txt'], m['pos']) != (r.get('txt'), r.get('pos')):
                ctx.disagree('tex2txt text/positions differ', impl=[r.get('txt'), r.get('pos')], model=[m['txt'], m['pos']], **info); continue
        if 'diags' in proj and norm_diags(m['diags']) != norm_diags(impl.parse_stderr(r['stderr'])):
            ctx.disagree('tex2txt diagnostics differ', impl=impl.parse_stderr(r['stderr']), model=m['diags'], **info); continue
        if 'unknowns' in proj and r.get('unknowns') is not None and m['unknowns'] != r['unknowns']:
            ctx.disagree('tex2txt unknowns differ', impl=r['unknowns'], model=m['unknowns'], **info)
