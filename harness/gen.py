"""G-doc: type-directed random LaTeX documents as an AST with a renderer that records
where every literal word stands, plus G-mut / G-soup / G-edge derived streams.

A node is a dict {'t': type, ...}.  `render(node, R)` appends to R.out and records
word occurrences in R.words; the reference semantics lives in sem.py.
"""
import random, string

LET = 'abcdefghijklmnopqrstuvwxyz'

class Names:
    """unique literal words: 'Q' + 3 lower-case letters (never a macro name, placeholder,
    or LaTeX keyword), so that every occurrence in the output can be traced"""
    def __init__(self, rng):
        self.rng = rng
        self.used = set()
    def word(self):
        while True:
            w = 'Q' + ''.join(self.rng.choice(LET) for _ in range(self.rng.choice([2, 3, 3, 4])))
            if w not in self.used:
                self.used.add(w)
                return w

# --------------------------------------------------------------------------
# AST construction

UNKNOWN_MACROS = ['\\foo', '\\textbf', '\\emph', '\\zzz', '\\mycmd', '\\textit']
VANISH1 = ['\\label', '\\index', '\\input', '\\include', '\\pagestyle', '\\thispagestyle', '\\vphantom',
           '\\bibliographystyle', '\\pagenumbering']
HEADINGS = ['\\section', '\\subsection', '\\subsubsection', '\\chapter', '\\part', '\\title']
ACCENTS = ["\\'", '\\`', '\\^', '\\"', '\\~', '\\c', '\\v', '\\=', '\\.', '\\u', '\\H', '\\r', '\\k', '\\d', '\\b']
def _valid_accents():
    import unicodedata
    names = {"\\'": 'ACUTE', '\\`': 'GRAVE', '\\^': 'CIRCUMFLEX', '\\v': 'CARON', '\\~': 'TILDE', '\\"': 'DIAERESIS',
             '\\r': 'RING ABOVE', '\\=': 'MACRON', '\\b': 'LINE BELOW', '\\u': 'BREVE', '\\H': 'DOUBLE ACUTE',
             '\\.': 'DOT ABOVE', '\\d': 'DOT BELOW', '\\c': 'CEDILLA', '\\k': 'OGONEK'}
    out = []
    for a, nm in names.items():
        for ch in 'aeiouyAEIOUcnszrlCNSZ':
            try:
                unicodedata.lookup('LATIN %s LETTER %s WITH %s' % ('SMALL' if ch.islower() else 'CAPITAL', ch.upper(), nm))
                out.append((a, ch))
            except KeyError:
                pass
    return out
VALID_ACCENTS = _valid_accents()
SPECIALS = ['--', '---', '``', "''", '~', '\\,', '\\%', '\\&', '\\$', '\\#', '\\_', '\\{', '\\}', '\\ ', '\\;', '\\:', '\\!', '&']
SYMBOL_MACROS = ['\\AA', '\\ae', '\\ss', '\\S', '\\LaTeX', '\\TeX', '\\o', '\\L', '\\textbackslash', '\\textasciitilde',
                 '\\quad', '\\hfill', '\\newline', '\\nobreakspace', '\\textasciicircum']
MATH_ATOMS = ['\\sum_{\\substack{i<n \\\\ j<m}} a_{ij}', 'x', 'y', 'a', '1', '2', 'n', '\\alpha', '\\beta', '\\frac{a}{b}', 'f(x)', 'x^2', 'a_{i}', '\\sqrt{2}',
              '\\sum_{i=1}^n', '\\mathbb{R}', '\\xi']
MATH_OPS = ['+', '-', '=', '\\cdot', '\\le', '<', '\\to', '\\times', '/', ':=', '\\neq', '\\in']
MATH_SPACES = ['\\,', '\\;', '~', '\\ ', '\\quad', '\\qquad', '\\:']
PUNCT = ['.', ',', ';', ':']
EQ_ENVS = ['equation', 'equation*', 'align', 'align*', 'displaymath', 'eqnarray', 'eqnarray*', 'gather', 'alignat*',
           'flalign', 'gather*']
LANG_NAMES = ['german', 'english', 'russian', 'french', 'ngerman', 'american']

_odd = {}
def odd_macro_names():
    """names for user macros that lie next to the control words the parser treats specially (proper prefixes and inner
    parts of \\def, \\gdef, \\begin, \\end, \\item, \\verb, \\newcommand ...) and one-letter names; declared names, accents
    and the special control words themselves are left out"""
    if 'v' not in _odd:
        import impl
        m = impl.load()
        parms = m.parameters.Parameters('en')
        pr = m.parser.Parser(parms, m.tex2txt.get_packages('*', parms.package_modules), read_macros=None)
        # (also left out: the names the generators use as UNDECLARED macros)
        taken = (set(pr.the_macros) | set(ACCENTS) | set(parms.accent_macros) | {'\\' + k for k in pr.the_environments}
                 | set(UNKNOWN_MACROS) | {'\\zzz', '\\foo', '\\mycmd', '\\relax', '\\hl', '\\hm', '\\hk', '\\dd', '\\inc', '\\incb', '\\qq', '\\sw', '\\rx'})
        kws = ['def', 'gdef', 'begin', 'end', 'item', 'verb', 'newcommand', 'renewcommand', 'LTinput', 'par', 'text', 'mbox',
               'footnote', 'usepackage', 'documentclass', 'label', 'cite', 'ref']
        cand = set()
        for k in kws:
            for i in range(len(k)):
                for j in range(i + 1, len(k) + 1):
                    if (i, j) != (0, len(k)):
                        cand.add('\\' + k[i:j])
        cand |= {'\\' + c for c in 'gqwyzGQ'}
        _odd['v'] = sorted(n for n in cand if n not in taken and '\\' + n[1:] not in kws and n[1:] not in kws)
    return _odd['v']

class G:
    def __init__(self, rng, profile=None):
        self.rng = rng
        self.names = Names(rng)
        self.depth = 0
        self.macros = []       # user macros defined so far: dict(name,nargs,opt,body)
        self.profile = profile or {}
        self.in_heading = False

    def p(self, key, default):
        return self.profile.get(key, default)

    # ---- leaves
    def word(self):
        return {'t': 'word', 'w': self.names.word()}

    def ws(self):
        r = self.rng.random()
        if r < 0.6:
            s = ' '
        elif r < 0.75:
            s = '\n'
        elif r < 0.82:
            s = '  '
        elif r < 0.88:
            s = '\n  '
        elif r < 0.91:
            s = '\t'
        elif r < 0.96:
            return {'t': 'comment', 'pre': self.rng.choice(['', ' ', '\n']), 'hidden': self.names.word(),
                    'indent': self.rng.choice(['', '  ', '\t'])}
        else:
            s = ' \n '
        return {'t': 'ws', 's': s}

    def par(self):
        return {'t': 'par', 's': self.rng.choice(['\n\n', '\n\n', '\n \n', '\n\n\n', ' \n\n  ', '\n\\par\n', '\\par ', '\n\n% c\n'])}

    # ---- text sequences
    def seq(self, n=None, allow_par=True, ctx='text'):
        n = n if n is not None else self.rng.randint(1, 6)
        items = []
        for i in range(n):
            if i:
                if allow_par and self.rng.random() < 0.12:
                    items.append(self.par())
                elif self.rng.random() < 0.92 or items[-1].get('t') == 'imath':
                    items.append(self.ws())          # (two adjacent formulas would read `$$`)
            items.append(self.item(allow_par, ctx))
            if items[-1].get('t') == 'word' and self.p('punct', False) and self.rng.random() < 0.2:
                items.append({'t': 'rawword', 'w': self.rng.choice(['.', ':', ',', ';', '!', '?'])})
        return {'t': 'seq', 'items': items}

    def item(self, allow_par=True, ctx='text'):
        r = self.rng.random()
        deep = self.depth >= self.p('max_depth', 3)
        if r < 0.45 or deep:
            return self.word()
        self.depth += 1
        try:
            return self.construct(allow_par, ctx)
        finally:
            self.depth -= 1

    def construct(self, allow_par, ctx):
        rng = self.rng
        choices = [
            (8, self.c_group), (8, self.c_unknown), (6, self.c_vanish), (4, self.c_ref),
            (4, self.c_special), (3, self.c_symbol), (3, self.c_accent), (5, self.c_inline_math),
            (3, self.c_verb), (4, self.c_usermacro), (3, self.c_cite), (2, self.c_ltmacro),
            (2, self.c_foreign), (1, self.c_hspace), (1, self.c_linebreak), (1, self.c_def), (2, self.c_gls),
        ]
        if ctx in ('text', 'fn') or (ctx == 'heading' and self.p('heading_footnotes', True)):
            choices += [(4, self.c_footnote)]
        if allow_par and ctx == 'text' and not self.in_heading:
            choices += [(4, self.c_heading), (4, self.c_itemize), (4, self.c_display), (3, self.c_env_unknown),
                        (2, self.c_verbatim), (2, self.c_skip), (3, self.c_newcommand), (2, self.c_theorem),
                        (2, self.c_env_known), (1, self.c_selectlanguage), (1, self.c_otherlanguage),
                        (1, self.c_proof), (1, self.c_caption_fig), (1, self.c_usepackage)]
        if self.p('inspect', False):
            choices += [(6, self.c_inspect)]
        only = self.p('only', None)
        if only is not None:
            choices = [(w, f) for (w, f) in choices if f.__name__ in only]
            if not choices:
                return self.word()
        tot = sum(w for w, _ in choices)
        x = rng.random() * tot
        for w, f in choices:
            x -= w
            if x <= 0:
                return f()
        return self.word()

    def arg(self, n=None, allow_par=False):
        return self.seq(n if n is not None else self.rng.randint(1, 3), allow_par=allow_par, ctx='arg')

    def c_group(self):
        return {'t': 'group', 'body': self.arg()}

    def c_unknown(self):
        name = self.rng.choice(UNKNOWN_MACROS)
        return {'t': 'unknown', 'name': name, 'args': [self.arg() for _ in range(self.rng.choice([0, 1, 1, 1, 2]))],
                'sp': self.rng.choice(['', '', ' ', '\n'])}

    def c_vanish(self):
        return {'t': 'vanish', 'name': self.rng.choice(VANISH1), 'key': self.names.word(),
                'sp': self.rng.choice(['', '', ' '])}

    def c_ref(self):
        return {'t': 'ref', 'name': self.rng.choice(['\\ref', '\\pageref']), 'key': self.names.word()}

    def c_special(self):
        return {'t': 'special', 's': self.rng.choice(SPECIALS)}

    def c_symbol(self):
        n = {'t': 'symbol', 'name': self.rng.choice(SYMBOL_MACROS), 'term': self.rng.choice(['{}', ' ', '\\ ', '{} '])}
        if self.rng.random() < 0.12:
            # a control word ends at the first character that is no ASCII letter: \L directly followed by 'ó…'
            n['term'] = ''
            n['tail'] = self.rng.choice(['ó', 'é', 'ß', 'ж', 'ü'])
            n['tailword'] = self.names.word()
        return n

    def c_accent(self):
        name, letter = self.rng.choice(VALID_ACCENTS)
        n = {'t': 'accent', 'name': name, 'letter': letter, 'braced': self.rng.random() < 0.5}
        if n['braced'] and self.rng.random() < 0.06:
            # the accented letter inside a language switch (a language token is the first thing of the argument)
            n['letter'] = '\\foreignlanguage{german}{' + n['letter'] + '}'
        elif n['braced'] and self.p('accent_rest', False) and self.rng.random() < 0.35:
            # more than the accented letter inside the braces
            n['rest'] = self.rng.choice(['--xyz', '{bc}d', '\\,koda', '% c\n fgh', 'xy', ' z', '\\zzz{k}m', "''n"])
        return n

    def math_body(self, n=None):
        rng = self.rng
        parts = []
        for i in range(n or rng.randint(1, 4)):
            if i:
                parts.append(rng.choice(MATH_OPS + [' ', ' ']))
            parts.append(rng.choice(MATH_ATOMS) if rng.random() > 0.12 else rng.choice(['\\zzz', '\\foo', '\\mycmd']) + ' ')
            if rng.random() < 0.15:
                parts.append(rng.choice(MATH_SPACES))
        return ' '.join(parts) if rng.random() < 0.7 else ''.join(parts)

    def c_inline_math(self):
        rng = self.rng
        body = self.math_body()
        if rng.random() < 0.12:
            body = rng.choice(MATH_OPS + ['\\le', '=', ':', '\\ldots'])     # operator-only / degenerate formulas
        return {'t': 'imath', 'delim': rng.choice(['$', '$', '\\(']), 'body': body,
                'lead': rng.choice(['', '', '', '\\,', '~']), 'trail': rng.choice(['', '', '', '\\;', '\\ ']),
                'punct': rng.choice(['', '', '', '.', ',', ';', ':'])}

    def c_verb(self):
        delim = self.rng.choice('|+!/')
        body = ''.join(self.rng.choice('ABC XYZ\\{}$%&#_^~') for _ in range(self.rng.randint(0, 6)))
        body = body.replace(delim, 'D')
        return {'t': 'verb', 'delim': delim, 'body': body}

    def optarg(self):
        """content of an optional argument: plain words (a nested `]` would close it)"""
        items = []
        for i in range(self.rng.randint(1, 2)):
            if i:
                items.append({'t': 'ws', 's': ' '})
            items.append(self.word())
        return {'t': 'seq', 'items': items}

    def c_cite(self):
        return {'t': 'cite', 'key': self.names.word(), 'opt': self.optarg() if self.rng.random() < 0.4 else None}

    def c_ltmacro(self):
        k = self.rng.choice(['add', 'alter', 'skip'])
        return {'t': 'lt', 'k': k, 'a': self.arg(2), 'b': self.arg(2)}

    def c_foreign(self):
        body = self.arg(self.rng.randint(1, 5))
        if self.rng.random() < 0.2:
            # the argument ends with a macro that looks for a further (optional or missing) argument behind the closing brace
            body['items'].append({'t': 'rawword', 'w': self.rng.choice(['\\footnotemark', '\\footnotemark', '\\printbibliography', '\\footnotemark '])})
        return {'t': 'foreign', 'lang': self.rng.choice(LANG_NAMES), 'body': body}

    def c_hspace(self):
        return {'t': 'hspace', 'name': self.rng.choice(['\\hspace', '\\hspace*', '\\vspace', '\\vspace*']),
                'len': self.rng.choice(['1cm', '0pt', '0.0em', '2ex', '.5em', '\\fill', '0,0cm'])}

    def c_linebreak(self):
        return {'t': 'linebreak', 'opt': self.rng.choice(['', '', '[1ex]', ' [2mm]', '*'])}

    def c_footnote(self):
        return {'t': 'footnote', 'name': self.rng.choice(['\\footnote', '\\footnote', '\\footnotetext']),
                'opt': self.rng.choice([None, None, '1']), 'body': self.seq(self.rng.randint(1, 4), allow_par=False, ctx='fn')}

    def c_heading(self):
        self.in_heading = True
        try:
            body = self.seq(self.rng.randint(1, 4), allow_par=False, ctx='heading')
        finally:
            self.in_heading = False
        return {'t': 'heading', 'name': self.rng.choice(HEADINGS), 'star': self.rng.random() < 0.2,
                'opt': self.names.word() if self.rng.random() < 0.2 else None, 'body': body,
                'endp': self.rng.choice(['', '', '', '!', '?', '.'])}

    def c_itemize(self):
        env = self.rng.choice(['itemize', 'enumerate'])
        items = []
        for _ in range(self.rng.randint(1, 3)):
            lab = None
            if self.rng.random() < 0.25:
                lab = self.names.word()
            items.append({'label': lab, 'body': self.seq(self.rng.randint(1, 3), allow_par=False)})
        return {'t': 'itemize', 'env': env, 'items': items}

    def c_display(self):
        rng = self.rng
        env = rng.choice(EQ_ENVS + ['\\[', '$$'])
        rows = []
        for _ in range(rng.randint(1, 3)):
            secs = []
            for _ in range(rng.randint(1, 3)):
                sec = (rng.choice(MATH_OPS) + ' ' if rng.random() < 0.4 else '') + self.math_body()
                if rng.random() < 0.2:
                    sec += ' \\text{' + self.names.word() + '} ' + self.math_body(1)
                elif rng.random() < 0.15:
                    sec = rng.choice(MATH_OPS) + rng.choice(['', ' {}', ' '])        # a section that holds an operator only (any column)
                secs.append(sec)
            if len(secs) > 1 and rng.random() < 0.15:
                secs[0] = ''            # an empty first alignment section:  & = b
            rows.append(secs)
        return {'t': 'display', 'env': env, 'rows': rows, 'punct': rng.choice(['', '.', ',', ';']),
                'label': self.names.word() if rng.random() < 0.3 else None,
                'tail': rng.choice(['', '', ' \\nonumber', '\\,', ' \\notag']),
                'final': rng.choice(['', '', '', ' \\\\', ' \\\\[1ex]', ' &'])}

    def c_env_unknown(self):
        return {'t': 'env', 'name': self.rng.choice(['center', 'quote', 'myenv', 'abstract']), 'known': False,
                'body': self.seq(self.rng.randint(1, 4))}

    def c_env_known(self):
        name = self.rng.choice(['minipage', 'tabular', 'table', 'figure'])
        arg = {'minipage': '{5cm}', 'tabular': '{cc}', 'table': '[ht]', 'figure': '[h]'}[name]
        return {'t': 'env', 'name': name, 'known': True, 'arg': arg, 'body': self.seq(self.rng.randint(1, 4), allow_par=False)}

    def c_verbatim(self):
        body = '\n' + '\n'.join(''.join(self.rng.choice('AB XY\\{}$%&#_^~') for _ in range(self.rng.randint(0, 8)))
                                 for _ in range(self.rng.randint(1, 3))) + '\n'
        return {'t': 'verbatim', 'body': body}

    def c_skip(self):
        if getattr(self, 'in_skip', False):
            return self.word()
        self.in_skip = True
        try:
            return {'t': 'skip', 'body': self.seq(self.rng.randint(1, 3))}
        finally:
            self.in_skip = False

    def c_newcommand(self):
        rng = self.rng
        name = '\\m' + ''.join(rng.choice(LET) for _ in range(3))
        if rng.random() < 0.2:
            odd = [n for n in odd_macro_names() if n not in {mm['name'] for mm in self.macros}]
            if odd:
                short = [n for n in odd if len(n) <= 4]
                name = rng.choice(short if short and rng.random() < 0.7 else odd)
        nargs = rng.choice([0, 0, 1, 1, 2, 3])
        opt = nargs > 0 and rng.random() < 0.3
        body = []
        for _ in range(rng.randint(1, 4)):
            r = rng.random()
            if self.p('risky_body', False) and r < 0.75:
                r = 0.75 + r / 3
            if nargs and r < 0.5:
                body.append({'t': 'param', 'n': rng.randint(1, nargs)})
                if rng.random() < 0.12:
                    body[-1]['tail'] = rng.choice(['0', '2', '000', '15'])     # "#1" directly followed by digits
            elif r < 0.75:
                body.append(self.word())
            elif r < 0.85:
                body.append({'t': 'special', 's': rng.choice(['--', '~', '\\,', "''", '\\)', '\\]', '---', '\\&'])})
            elif r < 0.9:
                body.append(self.c_verb())
            elif r < 0.95:
                body.append(self.c_accent())
            else:
                body.append({'t': 'ws', 's': rng.choice(['   \n\n', '\n\n', ' \n', '          \n\n'])})
        m = {'name': name, 'nargs': nargs, 'opt': self.names.word() if opt else None, 'body': body,
             'cmd': rng.choice(['\\newcommand', '\\newcommand', '\\renewcommand', '\\newcommand*'])}
        self.macros.append(m)
        return {'t': 'newcommand', 'm': m}

    def c_def(self, force_delims=False):
        rng = self.rng
        name = '\\d' + ''.join(rng.choice(LET) for _ in range(3))
        nargs = rng.choice([0, 1, 2]) if not force_delims else rng.choice([1, 2, 2])
        body = []
        for _ in range(rng.randint(1, 3)):
            if nargs and rng.random() < 0.5:
                body.append({'t': 'param', 'n': rng.randint(1, nargs)})
            else:
                body.append(self.word())
        m = {'name': name, 'nargs': nargs, 'opt': None, 'body': body, 'cmd': '\\def'}
        if nargs and (force_delims or rng.random() < 0.3):
            # delimited parameters: \def\pair(#1,#2){...}, used as \pair({a},{b})
            m['delims'] = [rng.choice(['', '(', '[', '/']) if k == 0 else rng.choice([',', '/', ':', ';', ')', '|'])
                           for k in range(nargs + 1)]
        self.macros.append(m)
        return {'t': 'newcommand', 'm': m}

    def c_usermacro(self):
        if not self.macros:
            return self.c_unknown()
        m = self.rng.choice(self.macros)
        args = []
        for k in range(m['nargs']):
            if k == 0 and m['opt'] is not None:
                args.append(self.optarg() if self.rng.random() < 0.5 else None)
            else:
                args.append(self.arg(self.rng.randint(1, 2)))
        return {'t': 'call', 'm': m, 'args': args, 'single': self.rng.random() < 0.15,
                'sp': self.rng.choice(['', '', ' '])}

    def c_theorem(self):
        return {'t': 'theorem', 'env': 'thm' + self.rng.choice('abc'), 'title': self.names.word(),
                'opt': self.optarg() if self.rng.random() < 0.4 else None, 'body': self.seq(self.rng.randint(1, 3), allow_par=False)}

    def c_proof(self):
        return {'t': 'proof', 'opt': self.optarg() if self.rng.random() < 0.4 else None,
                'body': self.seq(self.rng.randint(1, 3), allow_par=False)}

    def c_selectlanguage(self):
        return {'t': 'selectlanguage', 'lang': self.rng.choice(LANG_NAMES)}

    def c_otherlanguage(self):
        return {'t': 'otherlanguage', 'lang': self.rng.choice(LANG_NAMES), 'star': self.rng.random() < 0.3,
                'body': self.seq(self.rng.randint(1, 4))}

    def c_caption_fig(self):
        return {'t': 'figure', 'body': self.seq(2, allow_par=False), 'caption': self.seq(self.rng.randint(1, 3), allow_par=False, ctx='fn')}

    def c_gls(self):
        rng = self.rng
        if not getattr(self, 'gls', None) or rng.random() < 0.4:
            lab = 'g' + ''.join(rng.choice(LET) for _ in range(2))
            self.gls = getattr(self, 'gls', []) + [lab]
            kind = rng.choice(['acr', 'entry', 'entry_nodesc'])
            first = rng.choice(['', '', 'ß', 'ŉ', 'ǆ', 'é'])
            return {'t': 'glsdef', 'kind': kind, 'label': lab, 'short': self.names.word(),
                    'desc': [{'t': 'word', 'w': first + self.names.word()} if not first else {'t': 'rawword', 'w': first + 'x'}] +
                            [self.word() for _ in range(rng.randint(0, 2))],
                    'endp': rng.choice(['', '', '.', '!'])}
        return {'t': 'gls', 'name': rng.choice(['\\gls', '\\Gls', '\\GLS', '\\glspl', '\\glsdesc', '\\Glsdesc', '\\glstext']),
                'label': rng.choice(self.gls)}

    def c_inspect(self):
        """a macro whose handler expands an argument only to look at its text, and then drops it"""
        rng = self.rng
        pre = rng.choice(['\\phantom', '\\hphantom', '\\hspace', '\\hspace*',
                          '\\newtheorem{th' + ''.join(rng.choice(LET) for _ in range(3)) + '}'])
        items = []
        for _ in range(rng.randint(1, 3)):
            items.append(rng.choice([self.c_unknown, self.c_unknown, self.word, self.c_usermacro])())
            items.append({'t': 'ws', 's': ' '})
        return {'t': 'inspect', 'pre': pre, 'body': {'t': 'seq', 'items': items[:-1]}}

    def c_usepackage(self):
        return {'t': 'usepackage', 'pkg': self.rng.choice(['babel', 'amsmath', 'xcolor', 'graphicx', 'hyperref', 'biblatex',
                                                            'amsthm', 'xspace', 'glossaries', 'unknownpkg']),
                'opt': self.rng.choice([None, None, 'german', 'english', 'russian', 'a4paper'])}

    def document(self, n=None):
        return self.seq(n or self.rng.randint(2, 10), allow_par=True)

# --------------------------------------------------------------------------
# rendering

class R:
    def __init__(self):
        self.out = []
        self.n = 0
        self.words = []      # dicts: w, start, role ('copy' | 'body' | 'hidden' | 'label')
        self.spans = []      # (node_type, start, end)
        self.callspans = []  # (name, start, end) of user macro calls / theorem environments
        self.role = ['copy']
    def emit(self, s):
        self.out.append(s)
        self.n += len(s)
    def word(self, w, role=None):
        self.words.append({'w': w, 'start': self.n, 'role': role or self.role[-1]})
        self.emit(w)
    def src(self):
        return ''.join(self.out)

def render(node, r):
    t = node['t']
    start = r.n
    f = RENDER[t]
    f(node, r)
    r.spans.append((t, start, r.n))

def with_role(r, role, fn):
    r.role.append(role)
    try:
        fn()
    finally:
        r.role.pop()

def r_seq(n, r):
    for it in n['items']:
        render(it, r)
def r_word(n, r):
    r.word(n['w'])
def r_ws(n, r):
    r.emit(n['s'])
def r_comment(n, r):
    r.emit(n['pre'] + '% ')
    r.word(n['hidden'], 'hidden')
    r.emit('\n' + n['indent'])
def r_par(n, r):
    r.emit(n['s'])
def r_group(n, r):
    r.emit('{'); render(n['body'], r); r.emit('}')
def r_unknown(n, r):
    r.emit(n['name'])
    if not n['args']:
        r.emit(n['sp'] if n['sp'] else '{}')
    for a in n['args']:
        r.emit('{'); render(a, r); r.emit('}')
def r_vanish(n, r):
    r.emit(n['name'] + n['sp'] + '{'); r.word(n['key'], 'hidden'); r.emit('}')
def r_ref(n, r):
    r.emit(n['name'] + '{'); r.word(n['key'], 'hidden'); r.emit('}')
def r_special(n, r):
    r.emit(n['s'])
def r_symbol(n, r):
    r.emit(n['name'] + n['term'])
    if n.get('tail'):
        r.emit(n['tail']); r.word(n['tailword'])
def r_accent(n, r):
    if n['braced']:
        r.emit(n['name'] + '{' + n['letter'] + n.get('rest', '') + '}')
    else:
        r.emit(n['name'] + (' ' if n['name'][-1].isalpha() else '') + n['letter'])
def r_imath(n, r):
    close = '$' if n['delim'] == '$' else '\\)'
    r.emit(n['delim'] + n['lead'] + n['body'] + n['punct'] + n['trail'] + close)
def r_verb(n, r):
    r.emit('\\verb' + n['delim'] + n['body'] + n['delim'])
def r_cite(n, r):
    r.emit('\\cite')
    if n['opt'] is not None:
        r.emit('['); render(n['opt'], r); r.emit(']')
    r.emit('{'); r.word(n['key'], 'hidden'); r.emit('}')
def r_lt(n, r):
    if n['k'] == 'add':
        r.emit('\\LTadd{'); render(n['a'], r); r.emit('}')
    elif n['k'] == 'skip':
        r.emit('\\LTskip{'); with_role(r, 'hidden', lambda: render(n['a'], r)); r.emit('}')
    else:
        r.emit('\\LTalter{'); with_role(r, 'hidden', lambda: render(n['a'], r)); r.emit('}{'); render(n['b'], r); r.emit('}')
def r_foreign(n, r):
    r.emit('\\foreignlanguage{' + n['lang'] + '}{'); render(n['body'], r); r.emit('}')
def r_hspace(n, r):
    r.emit(n['name'] + '{' + n['len'] + '}')
def r_linebreak(n, r):
    r.emit('\\\\' + n['opt'])
def r_footnote(n, r):
    r.emit(n['name'])
    if n['opt']:
        r.emit('[' + n['opt'] + ']')
    r.emit('{'); with_role(r, 'detached', lambda: render(n['body'], r)); r.emit('}')
def r_heading(n, r):
    r.emit(n['name'] + ('*' if n['star'] else ''))
    if n['opt']:
        r.emit('['); r.word(n['opt'], 'hidden'); r.emit(']')
    r.emit('{'); render(n['body'], r); r.emit(n['endp'] + '}')
def r_itemize(n, r):
    r.emit('\\begin{' + n['env'] + '}\n')
    for it in n['items']:
        r.emit('\\item')
        if it['label'] is not None:
            r.emit('['); r.word(it['label']); r.emit(']')
        r.emit(' '); render(it['body'], r); r.emit('\n')
    r.emit('\\end{' + n['env'] + '}')
def r_display(n, r):
    env = n['env']
    if env == '\\[':
        op, cl = '\\[', '\\]'
    elif env == '$$':
        op, cl = '$$', '$$'
    else:
        op, cl = '\\begin{' + env + '}' + ('{2}' if env.startswith('alignat') else ''), '\\end{' + env + '}'
    r.emit(op + '\n')
    rows = []
    first = True
    for ri, secs in enumerate(n['rows']):
        if ri:
            r.emit(' \\\\\n')
        for si, sec in enumerate(secs):
            if si:
                r.emit(' & ')
            # \text{Qxx} words are copied text
            i = sec.find('\\text{')
            if i >= 0:
                j = sec.index('}', i)
                r.emit(sec[:i + 6]); r.word(sec[i + 6:j]); r.emit(sec[j:])
            else:
                r.emit(sec)
    r.emit(n['punct'] + n['tail'])
    if n['label']:
        r.emit('\\label{'); r.word(n['label'], 'hidden'); r.emit('}')
    r.emit(n.get('final', ''))
    r.emit('\n' + cl)
def r_env(n, r):
    r.emit('\\begin{' + n['name'] + '}' + (n.get('arg') or '') + '\n'); render(n['body'], r); r.emit('\n\\end{' + n['name'] + '}')
def r_verbatim(n, r):
    r.emit('\\begin{verbatim}' + n['body'] + '\\end{verbatim}')
def r_skip(n, r):
    r.emit('%%% LT-SKIP-BEGIN\n'); with_role(r, 'hidden', lambda: render(n['body'], r)); r.emit('\n%%% LT-SKIP-END\n')
def r_param(n, r):
    r.emit('#' + str(n['n']) + n.get('tail', ''))
def r_newcommand(n, r):
    m = n['m']
    if m['cmd'] == '\\def':
        dl = m.get('delims') or [''] * (m['nargs'] + 1)
        r.emit('\\def' + m['name'] + dl[0] + ''.join('#%d' % (k + 1) + dl[k + 1] for k in range(m['nargs'])) + '{')
    else:
        r.emit(m['cmd'] + '{' + m['name'] + '}')
        if m['nargs']:
            r.emit('[%d]' % m['nargs'])
        if m['opt'] is not None:
            r.emit('['); r.word(m['opt'], 'body'); r.emit(']')
        r.emit('{')
    for i, b in enumerate(m['body']):
        if i:
            r.emit(' ')
        with_role(r, 'body', lambda: render(b, r))
    r.emit('}')
def r_call(n, r):
    m = n['m']
    r.callspans.append([m['name'], r.n, None])
    cs = r.callspans[-1]
    r.emit(m['name'])
    if not n['args']:
        if n['sp'] != 'bare':
            r.emit(n['sp'] if n['sp'] else '{}')
    n0 = r.n
    if m.get('delims'):
        r.emit(m['delims'][0])
        for k, a in enumerate(n['args']):
            r.emit('{'); render(a, r); r.emit('}' + m['delims'][k + 1])
        cs[2] = r.n
        return
    for k, a in enumerate(n['args']):
        if k == 0 and m['opt'] is not None:
            if a is not None:
                r.emit('['); render(a, r); r.emit(']')
        elif n.get('single') == 'risky':
            r.emit(' ' + 'rßeZ'[k % 4])
        else:
            r.emit('{'); render(a, r); r.emit('}')
    if n['args'] and r.n == n0 and n['sp'] != 'bare':
        r.emit('{}')        # only an omitted optional argument: keep the control word apart from a following letter
    cs[2] = r.n
def r_theorem(n, r):
    r.emit('\\newtheorem{' + n['env'] + '}{'); r.word(n['title'], 'body'); r.emit('}\n')
    r.callspans.append(['thm:' + n['title'], r.n, None]); cs = r.callspans[-1]
    r.emit('\\begin{' + n['env'] + '}')
    if n['opt'] is not None:
        r.emit('['); render(n['opt'], r); r.emit(']')
    r.emit('\n'); render(n['body'], r); r.emit('\n\\end{' + n['env'] + '}')
    cs[2] = r.n
def r_proof(n, r):
    r.emit('\\begin{proof}')
    if n['opt'] is not None:
        r.emit('['); render(n['opt'], r); r.emit(']')
    r.emit('\n'); render(n['body'], r); r.emit('\n\\end{proof}')
def r_selectlanguage(n, r):
    r.emit('\\selectlanguage{' + n['lang'] + '}')
def r_otherlanguage(n, r):
    e = 'otherlanguage' + ('*' if n['star'] else '')
    r.emit('\\begin{' + e + '}{' + n['lang'] + '}\n'); render(n['body'], r); r.emit('\n\\end{' + e + '}')
def r_figure(n, r):
    r.emit('\\begin{figure}\n'); render(n['body'], r); r.emit('\n\\caption{')
    with_role(r, 'detached', lambda: render(n['caption'], r)); r.emit('}\n\\end{figure}')
def r_rawword(n, r):
    r.emit(n['w'])
def r_glsdef(n, r):
    if n['kind'] == 'acr_single':
        r.emit('\\newacronym{' + n['label'] + '}{'); r.word(n['short'], 'hidden'); r.emit('}' + n['desc'][0]['w'][0]); return
    if n['kind'] == 'acr':
        r.emit('\\newacronym{' + n['label'] + '}{'); r.word(n['short'], 'hidden'); r.emit('}{')
    elif n['kind'] == 'entry':
        r.emit('\\newglossaryentry{' + n['label'] + '}{name='); r.word(n['short'], 'hidden'); r.emit(',description={')
    else:
        r.emit('\\newglossaryentry{' + n['label'] + '}{name='); r.word(n['short'], 'hidden'); r.emit(',description}'); return
    for i, b in enumerate(n['desc']):
        if i:
            r.emit(' ')
        render(b, r)
    r.emit(n['endp'] + ('}}' if n['kind'] == 'entry' else '}'))
def r_gls(n, r):
    r.emit(n['name'] + '{' + n['label'] + '}')
def r_inspect(n, r):
    r.emit(n['pre'] + '{')
    with_role(r, 'hidden', lambda: render(n['body'], r))
    r.emit('}')
def r_usepackage(n, r):
    r.emit('\\usepackage' + ('[' + n['opt'] + ']' if n['opt'] else '') + '{' + n['pkg'] + '}')

RENDER = {
    'seq': r_seq, 'word': r_word, 'ws': r_ws, 'comment': r_comment, 'par': r_par, 'group': r_group,
    'unknown': r_unknown, 'vanish': r_vanish, 'ref': r_ref, 'special': r_special, 'symbol': r_symbol,
    'accent': r_accent, 'imath': r_imath, 'verb': r_verb, 'cite': r_cite, 'lt': r_lt, 'foreign': r_foreign,
    'hspace': r_hspace, 'linebreak': r_linebreak, 'footnote': r_footnote, 'heading': r_heading,
    'itemize': r_itemize, 'display': r_display, 'env': r_env, 'verbatim': r_verbatim, 'skip': r_skip,
    'param': r_param, 'newcommand': r_newcommand, 'call': r_call, 'theorem': r_theorem, 'proof': r_proof,
    'selectlanguage': r_selectlanguage, 'otherlanguage': r_otherlanguage, 'figure': r_figure,
    'usepackage': r_usepackage, 'inspect': r_inspect, 'rawword': r_rawword, 'glsdef': r_glsdef, 'gls': r_gls,
}

def edge_docs(rng, k=1):
    """G-edge: every construct as the very last thing of the text (and as the only thing on
    its line), after some definitions — where range and blank-line bugs live"""
    out = []
    g = G(rng)
    names = [a for a in dir(g) if a.startswith('c_')] + ['c_usermacro'] * 8 + ['c_gls'] * 6
    for nm in names:
        for _ in range(k):
            g = G(rng, {'risky_body': rng.random() < 0.5})
            items = []
            for _ in range(rng.randint(1, 3)):
                items += [rng.choice([g.c_newcommand, g.c_newcommand, g.c_def, g.c_gls])(), {'t': 'ws', 's': '\n'}]
            items += [g.word(), {'t': 'ws', 's': rng.choice([' ', '\n', '\n\n'])}]
            last = getattr(g, nm)() if rng.random() < 0.5 else rng.choice([g.c_usermacro, g.c_gls])()
            if last['t'] == 'call':
                q = rng.random()
                if q < 0.35 and not last['args']:
                    last['sp'] = 'bare'
                elif q < 0.6:
                    last['single'] = 'risky'
            if last['t'] == 'glsdef' and last['kind'] == 'acr' and rng.random() < 0.4:
                last['kind'] = 'acr_single'
            items.append(last)
            if last['t'] in ('call', 'glsdef') and rng.random() < 0.8:
                pass
            elif rng.random() < 0.3:
                items.append({'t': 'ws', 's': rng.choice(['\n', ' ', '\n\n'])})
            r = R()
            render({'t': 'seq', 'items': items}, r)
            out.append(r)
    return out

GLS_MACROS = ['\\gls', '\\Gls', '\\GLS', '\\glspl', '\\Glspl', '\\glsdesc', '\\Glsdesc', '\\glstext', '\\Glstext', '\\glsname',
              '\\glsfirst', '\\acrshort', '\\acrlong', '\\acrfull', '\\glssymbol']

def gls_doc(rng):
    """G-gls: a glossary data base (.glsdefs, read with \\LTinput) whose fields contain tokens longer than one
    character (runs of blanks, indented continuation lines, \\verb, ligature sequences), and uses of the
    \\gls family, the last one at the very end of the text"""
    names = Names(rng)
    def field():
        parts = []
        for _ in range(rng.randint(1, 3)):
            parts.append(names.word())
            parts.append(rng.choice([' ', ' ', '\n        ', '     ', ' -- ', '~', ' \\verb|a b| ', " ``x'' ", ' \\"a', ' {\\bf ', ', ']))
        w = ''.join(parts).rstrip()
        return w + '}' * (w.count('{') - w.count('}'))
    labs = ['l%d' % k for k in range(rng.randint(1, 3))]
    lines = []
    for l in labs:
        first = rng.choice(['', '', 'ß', 'é'])
        lines.append('\\gls@defglossaryentry{%s}{name={%s},text={%s},plural={%s},description={%s},symbol={%s}}' % (
            l, field(), first + field(), field(), field(), field()))
    body = []
    for _ in range(rng.randint(1, 5)):
        body.append(names.word() + rng.choice([' ', '\n', ' ']))
        body.append(rng.choice(GLS_MACROS) + '{' + rng.choice(labs + ['nolab'] if rng.random() < 0.1 else labs) + '}' + rng.choice([' ', '', '\n']))
    src = '\\LTinput{g.glsdefs}\n' + ''.join(body)
    if rng.random() < 0.6:
        src = src.rstrip()
    return src, {'g.glsdefs': '\n'.join(lines) + '\n'}

def repeat_doc(rng):
    """one or two definitions (often with an optional default) and 2-5 uses of them, the option mostly omitted"""
    g = G(rng)
    items = []
    defs = [g.c_newcommand() for _ in range(rng.randint(1, 2))]
    while len({d['m']['name'] for d in defs}) < len(defs):
        defs = [g.c_newcommand() for _ in range(len(defs))]
    for d in defs:
        if d['m']['nargs'] and rng.random() < 0.7 and d['m']['opt'] is None:
            d['m']['opt'] = g.names.word()
        items += [d, {'t': 'ws', 's': '\n'}]
    for _ in range(rng.randint(2, 5)):
        m = rng.choice(defs)['m']
        args = []
        for k in range(m['nargs']):
            if k == 0 and m['opt'] is not None:
                args.append(g.optarg() if rng.random() < 0.3 else None)
            else:
                args.append(g.optarg())
        items += [g.word(), {'t': 'ws', 's': ' '}, {'t': 'call', 'm': m, 'args': args, 'single': False, 'sp': ''},
                  {'t': 'ws', 's': rng.choice([' ', '\n', '\n\n'])}]
    items.append(g.word())
    ast = {'t': 'seq', 'items': items}
    r = R(); render(ast, r)
    return ast, r

def delim_def_doc(rng):
    """a \\def with delimited parameters and a few uses of it between words (also inside a footnote)"""
    g = G(rng)
    d = g.c_def(force_delims=True)
    m = d['m']
    items = [d, {'t': 'ws', 's': '\n'}]
    for _ in range(rng.randint(1, 3)):
        call = {'t': 'call', 'm': m, 'args': [g.arg(rng.randint(1, 2)) for _ in range(m['nargs'])], 'single': False, 'sp': ''}
        items += [g.word(), {'t': 'ws', 's': ' '}]
        if rng.random() < 0.25:
            items += [{'t': 'footnote', 'name': '\\footnote', 'opt': None, 'body': {'t': 'seq', 'items': [g.word(), {'t': 'ws', 's': ' '}, call]}}]
        else:
            items += [call]
        items += [{'t': 'ws', 's': rng.choice([' ', '\n'])}]
    items.append(g.word())
    ast = {'t': 'seq', 'items': items}
    r = R()
    render(ast, r)
    return ast, r

def make_doc(rng, profile=None, n=None):
    g = G(rng, profile)
    ast = g.document(n)
    r = R()
    render(ast, r)
    return ast, r

# --------------------------------------------------------------------------
# derived streams

SOUP = (['#\u00b2', '#\u00b3 ', '#\u2460', '#\u2082', '#\u0663', '#\u00bd', '#10', '#1000', '#0', '\\\\ ', '\\\\  x', '\r\n', '\r', '\f', '\x0b', '\x1c', '\x85', '\u2028', '\u2029', '\\', '{', '}', '$', '$$', '%', '#', '#1', '#3', '&', '~', '^', '_', '[', ']', '*', ' ', '\n', '\n\n', '\t',
         'a', 'Z', '1', '.', ',', '-', '--', '``', "''", '"', '\u00a0', '\u2003', '\u0663', '\u00e4', '\u00df',
         '\\begin', '\\end', '\\item', '\\verb', '\\verb|', '\\begin{verbatim}', '\\end{verbatim}', '\\[', '\\]', '\\(', '\\)',
         '\\\\', '\\\\[', "\\'", '\\"', '\\c', '\\def', '\\newcommand', '\\renewcommand', '\\section', '\\footnote', '\\cite',
         '\\LTinput', '\\LTadd', '\\LTskip', '\\LTalter', '\\usepackage', '\\documentclass', '\\hspace', '\\phantom',
         '\\newtheorem', '\\foo', '\\text', '\\mbox', '\\label', '\\caption', '\\framebox', '\\par',
         '\\begin{itemize}', '\\end{itemize}', '\\begin{enumerate}', '\\begin{equation}', '\\end{equation}',
         '\\begin{align}', '\\end{align}', '\\begin{proof}', '\\end{proof}', '\\begin{figure}', '\\begin{tabular}',
         '\\begin{otherlanguage}', '\\end{otherlanguage}', '\\selectlanguage', '\\foreignlanguage', '{german}', '{english}',
         '%%% LT-SKIP-BEGIN\n', '%%% LT-SKIP-END\n', '\\gls', '\\newacronym', '\\newglossaryentry', '{description}',
         'description=', '\\Gls', '\\GLS', '\\cref', '\\eqref', '\\textcolor', '\\includegraphics', '\\href', '\\url',
         '\\substack{', '\\textcite[][', '\\cite[]', '\\def\\x#1{#2}', '\\def\\y#2{}', '\\lstinline|', '\\begin{lstlisting}', '\\begin{tikzpicture}', '\\end{tikzpicture}', '\\xspace', '\\qedhere', '\\theoremstyle', '\\DeclareMathOperator', '\\substack', '\\notag', '\\textcite', '\\footcite'])

def soup(rng, n=None):
    return ''.join(rng.choice(SOUP) for _ in range(n or rng.randint(1, 14)))

def tokens_of(src):
    """coarse tokenisation for G-mut (control words, single characters)"""
    import re
    return re.findall(r'\\[A-Za-z@]+|\\.|%[^\n]*\n?|\s+|.', src, flags=re.S)

def mutations(rng, src, k=6):
    """prefixes, single-token deletions and splices of a document (the malformed stream)"""
    toks = tokens_of(src)
    out = []
    if not toks:
        return out
    for _ in range(k):
        r = rng.random()
        if r < 0.4:
            cut = rng.randint(0, len(src))
            out.append(src[:cut])
            continue
        if r < 0.46:
            out.append(exotic_breaks(rng, src))
            continue
        if False:
            pass
        elif r < 0.75:
            i = rng.randrange(len(toks))
            out.append(''.join(toks[:i] + toks[i + 1:]))
        elif r < 0.9:
            i = rng.randrange(len(toks)); j = rng.randrange(len(toks))
            t2 = list(toks); t2[i], t2[j] = t2[j], t2[i]
            out.append(''.join(t2))
        else:
            i = rng.randrange(len(toks) + 1)
            out.append(''.join(toks[:i]) + rng.choice(SOUP) + ''.join(toks[i:]))
    return out

EXOTIC = ['\r\n', '\r', '\f', '\x0b', '\x1c', '\x1d', '\x1e', '\x85', '\u2028', '\u2029', '\u00a0', '\u2003']

def exotic_breaks(rng, src, all_crlf=None):
    """the same document with other line conventions: CR LF for every line break, or some white-space
    characters replaced by / followed by characters that str.splitlines() or \\s treat specially"""
    if all_crlf is None:
        all_crlf = rng.random() < 0.5
    if all_crlf:
        return src.replace('\n', '\r\n')
    out = []
    for ch in src:
        if ch in ' \n' and rng.random() < 0.15:
            x = rng.choice(EXOTIC)
            out.append(rng.choice([x, ch + x, x + ch]))
        else:
            out.append(ch)
    return ''.join(out)

LANGS = ['', 'en', 'de', 'ru', 'de-DE', 'en-GB', 'xx', 'fr']

def gen_options(rng):
    o = {'lang': rng.choice(LANGS), 'pack': rng.choice(['*', '*', '*', '', 'babel', 'amsmath,amsthm', 'glossaries', 'biblatex', 'xspace,xcolor']),
         'dcls': rng.choice(['', '', '', 'article', 'book', 'scrartcl', 'report', 'scrbook', 'scrreprt'])}
    if rng.random() < 0.15:
        o['seqs'] = True
    if rng.random() < 0.1:
        o['nosp'] = True
    if rng.random() < 0.1:
        o['extr'] = rng.choice(['footnote', 'section,caption', 'foo', 'input,include', 'textbf', 'LaTeX,item,footnote', 'cite,hspace'])
    return o
