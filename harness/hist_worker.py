#!/venv/bin/python
"""Run a sequence of tex2txt calls in ONE interpreter; results as JSON on stdout."""
import sys, json, os
sys.path.insert(0, os.path.dirname(os.path.abspath(__file__)))
import t2t
cases = json.load(sys.stdin)
out = []
for c in cases:
    c['want_toks'] = False
    r = t2t.run_case(c)
    out.append({k: r.get(k) for k in ('outcome', 'exc', 'txt', 'pos', 'parts', 'unknowns', 'stderr')})
json.dump(out, sys.stdout)
