"""Correspondence of the two regular-expression scans of yalafi/shell/checks.py (accept patterns of
--single-letters, --equation-punctuation) with the hand-written matchers of Model/Checks.lean.

The implementation is called unchanged; what its `re.finditer` calls deliver is recorded by replacing
the name `re` in the namespace of the module `checks` with a proxy whose `finditer` forwards to the real
one and notes the matches (so `hits` is the list the code builds, not a copy of its construction)."""
from corr import pmap_retry
import re as _re, types
import impl, proto, model

NB, NNB = ' ', ' '

def mods():
    impl.load()
    import importlib
    return importlib.import_module('yalafi.shell.checks'), importlib.import_module('yalafi.parameters')

class ReProxy:
    """stands for the module `re` inside checks.py"""
    def __init__(self):
        self.calls = []
    def __getattr__(self, name):
        return getattr(_re, name)
    def finditer(self, pattern, string, flags=0):
        ms = list(_re.finditer(pattern, string, flags))
        self.calls.append((pattern, [(m.start(0), m.end(0), (m.start(1), m.end(1)) if m.re.groups else None) for m in ms]))
        return iter(ms)

def with_proxy(fn):
    ch, pa = mods()
    old = ch.re
    px = ReProxy()
    ch.re = px
    try:
        r = impl.guarded(fn)
    finally:
        ch.re = old
    return r, px

def real_placeholders(lang):
    ch, pa = mods()
    lc = pa.Parameters(lang).lang_context
    return (list(lc.math_repl_display + lc.math_repl_display_vowel), list(lc.math_repl_inline + lc.math_repl_inline_vowel))

META = set('.^$*+?{}[]\\|()')

def impl_accept(args):
    plain, accept = args
    ch, pa = mods()
    cmd = types.SimpleNamespace(single_letters=accept)
    r, px = with_proxy(lambda: [(m['offset'], m['length']) for m in ch.create_single_letter_matches(plain, cmd)])
    hits = []
    for pat, ms in px.calls:
        if pat.startswith('(?='):
            hits += [m[2] for m in ms]
    r['hits'] = hits
    return r

def impl_eq(args):
    plain, repls = args
    ch, pa = mods()
    cmd = types.SimpleNamespace(equation_punctuation='all')
    s = '|'.join(repls)
    r, px = with_proxy(lambda: [(m['offset'], m['length']) for m in ch.create_equation_punct_messages(plain, cmd, 'x^', 'x^', s)])
    r['matches'] = [(m[0], m[1]) for pat, ms in px.calls for m in ms]
    r['ncalls'] = len(px.calls)
    return r

# ---- generators --------------------------------------------------------------------------------

LETTERS = ['a', 'b', 'B', 'z', 'I', 'x', 'A', 'ä', 'ß', 'я', 'Б', 'ǅ', 'ǆ', 'Ǆ', 'ª', 'ʰ', '中']
DIGITLIKE = ['1', '2', '0', '²', '٣', '½', '_', 'Ⅷ', 'ⅷ', 'ⓐ']
SPACES = [' ', ' ', ' ', '\t', '\n', NB, NNB, '\r', '\x0b', '\x1c', '\x1f', '\x85', ' ', '　', '​']
PUNCT = ['.', ',', ';', ':', '.', ',', '-', '(', ')', '!', '..', ',,', ', ;']
WORDS = ['word', 'Word', 'and', 'Next', 'über', 'Über', 'ǅx', 'ǆx', 'x1', '1x', 'a_b', '_a', 'ßa', 'ʰa', '中文', 'ⅷx', 'ⅷ', 'ⓐb', 'ªb', 'e.g.', 'i.e.', 'z.' + NNB + 'B.', 'S.' + NB + '3', 'z.~B.']
ACCEPTS = ['', 'a', 'a|b', 'I|a', 'z.~B.', 'z.\\,B.', 'S.~', 'e.g.', 'z.\\,B.|S.~', 'a b', 'a b|b c', 'a|a b', 'x||', 'a|', 'I||', '||', '|', '|a||b|',
           '.', 'a.', '.a', 'a+', '(a)', '[a]', 'a*b', 'a\\b', '\\', '\\,', '~', 'a~b', 'a\\,b', '\\\\,', '~\\,', 'a ', ' a', '-a-', 'ä', 'ß|я', 'ǅ', '²', 'a²', '٣a',
           '½', 'a_', '_a', 'a1', '1a', 'B-B-B', 'U-U-U|C-C-C', 'a.b', 'a b c', 'a\tb', 'x y|y z|z', 'aa', 'ab|ba', '^a', 'a$', 'a|b|B|z|I|x|A']
SYNTH_REPLS = [['A-A', 'A-A-A'], ['A-A-A', 'A-A'], ['x', 'x y'], ['x y', 'x'], [' A', 'A'], [',A', 'A-A'], ['-A-', 'A'], ['A', 'B', 'A B'], ['A-A', 'A'], ['A', 'A-A'],
               ['ab', 'a', 'b'], ['a', 'ab', 'b'], ['A,', 'A'], ['A ,', 'B'], ['1-1', 'A-1'], ['_', 'A'], ['A-', '-B', 'B'], ['A;B', 'A', 'B'], ['A'], ['Б-Б', 'Б'], ['ä', 'A-ä']]

def gen_plain(rng, phs, extra):
    n = rng.randint(0, 14)
    out = []
    for _ in range(n):
        r = rng.random()
        if r < 0.22 and phs:
            p = rng.choice(phs)
            q = rng.random()
            if q < 0.12:
                p = p[:rng.randint(1, len(p))]          # prefix of a placeholder
            elif q < 0.2:
                p = rng.choice(LETTERS + DIGITLIKE) + p  # glued to a word character
            elif q < 0.28:
                p = p + rng.choice(LETTERS + DIGITLIKE)
            out.append(p)
        elif r < 0.42:
            out.append(rng.choice(SPACES))
        elif r < 0.58:
            out.append(rng.choice(PUNCT))
        elif r < 0.72:
            out.append(rng.choice(LETTERS))
        elif r < 0.8:
            out.append(rng.choice(DIGITLIKE))
        elif r < 0.92:
            out.append(rng.choice(WORDS))
        else:
            out.append(rng.choice(extra) if extra else ' ')
    return ''.join(out)

def gen_after_placeholder(rng, phs):
    """a placeholder followed by every combination of white space, `. , ; :`, white space and a continuation"""
    p = rng.choice(phs)
    s1 = ''.join(rng.choice(SPACES) for _ in range(rng.choice([0, 0, 1, 1, 2])))
    pu = rng.choice(['', '', '.', ',', ';', ':', ',,', '.,', ',.', ';:', '-', '!'])
    s2 = ''.join(rng.choice(SPACES) for _ in range(rng.choice([0, 0, 1, 1, 2])))
    nxt = rng.choice(phs + WORDS + LETTERS + DIGITLIKE + ['', '', '.', ','])
    pre = rng.choice(['', '', ' ', 'x', 'x ', '1', '-', '.', '(', 'Word '])
    post = rng.choice(['', '', ' ', '.', ' and', '\n', 'x'])
    return pre + p + s1 + pu + s2 + nxt + post

def gen_accept(rng):
    r = rng.random()
    if r < 0.6:
        return rng.choice(ACCEPTS)
    if r < 0.8:
        return '|'.join(rng.choice(ACCEPTS) for _ in range(rng.randint(2, 3)))
    alph = ['a', 'b', 'B', 'z', 'I', 'x', '|', '|', '~', '\\', ',', '\\,', '.', ' ', '+', '*', '(', ')', '[', ']', 'ä', '²', '_', '1', '-', NB, NNB, '\t', '^', '$', '?', '{', '}']
    return ''.join(rng.choice(alph) for _ in range(rng.randint(0, 7)))

def checks_corr(ctx, n):
    """n cases of each scan: implementation against model"""
    rng = ctx.rng
    if not ctx.model_ok:
        return
    langs = {l: real_placeholders(l) for l in ('en', 'de', 'ru')}
    for l, (d, i) in langs.items():
        for p in d + i:
            assert p and not (set(p) & META), 'placeholder %r is empty or contains a regular-expression operator: not modelled' % p
    allph = sorted(set(p for d, i in langs.values() for p in d + i))

    # ---- accept patterns
    acases = []
    for _ in range(n):
        accept = gen_accept(rng)
        extra = [s.replace('~', NB).replace('\\,', NNB) for s in accept.split('|') if s]
        if rng.random() < 0.15:
            accept = accept + '||' + '|'.join(sorted(set(langs['en'][0] + langs['en'][1])))   # what shell.py appends for a trailing ||
        plain = gen_plain(rng, allph, extra + extra)
        acases.append((plain, accept))
    ares = pmap_retry(ctx, impl_accept, acases)
    reqs = []
    for k, (plain, accept) in enumerate(acases):
        reqs.append(('ACCEPTHITS', 'ah%d' % k, [proto.enc_str(accept), proto.enc_str(plain)]))
        reqs.append(('SINGLE', 'as%d' % k, [proto.enc_str(plain)] + proto.enc_list(ares[k].get('hits') or [], lambda h: [str(h[0]), str(h[1])])))
    ans = model.run_batch(reqs)
    for k, (c, r) in enumerate(zip(acases, ares)):
        ctx.corr['cases'] += 1
        ctx.count('accepthits_' + r['outcome'])
        a = ans['ah%d' % k]
        if r['outcome'] != 'ok' or a[0] != 'ok':
            ctx.disagree('accept scan: implementation %s %s / model %r' % (r['outcome'], r.get('exc'), a[:1]), plain=c[0], accept=c[1]); continue
        rd = proto.Reader(a[1:])
        got = [tuple(x) for x in rd.list(lambda: (rd.nat(), rd.nat()))]
        want = [tuple(h) for h in r['hits']]
        if got != want:
            ctx.disagree('accept scan: model hits %r / implementation %r' % (got, want), plain=c[0], accept=c[1]); continue
        if got:
            ctx.count('accepthits_nonempty')
        offs = proto.dec_nats(ans['as%d' % k][1])
        if offs != [o for o, l in r['value']] or any(l != 1 for o, l in r['value']):
            ctx.disagree('single letters (model scan on the hits): model %r / implementation %r' % (offs, r['value']), plain=c[0], accept=c[1])

    # ---- equation punctuation
    ecases = []
    for _ in range(n):
        r = rng.random()
        if r < 0.7:
            l = rng.choice(list(langs))
            d, i = langs[l]
            q = rng.random()
            repls = sorted(set(d)) if q < 0.2 else sorted(set(i)) if q < 0.4 else sorted(set(d + i)) if q < 0.8 else list(dict.fromkeys(rng.sample(d + i, rng.randint(1, 5))))
        else:
            repls = rng.choice(SYNTH_REPLS)
        use = repls if rng.random() < 0.85 else repls + allph[:3]
        if rng.random() < 0.5:
            plain = gen_plain(rng, use + use, [])
        else:
            plain = ''.join(gen_after_placeholder(rng, use) + rng.choice(['', ' ', '. ', '\n']) for _ in range(rng.randint(1, 3)))
        ecases.append((plain, repls))
    eres = pmap_retry(ctx, impl_eq, ecases)
    ans = model.run_batch([('EQPUNCT', 'eq%d' % k, proto.enc_list(c[1], lambda s: [proto.enc_str(s)]) + [proto.enc_str(c[0])]) for k, c in enumerate(ecases)])
    for k, (c, r) in enumerate(zip(ecases, eres)):
        ctx.corr['cases'] += 1
        ctx.count('eqpunct_' + r['outcome'])
        a = ans['eq%d' % k]
        if r['outcome'] != 'ok' or a[0] != 'ok':
            ctx.disagree('equation punctuation: implementation %s %s / model %r' % (r['outcome'], r.get('exc'), a[:1]), plain=c[0], repls=c[1]); continue
        rd = proto.Reader(a[1:])
        msgs = [tuple(x) for x in rd.list(lambda: (rd.nat(), rd.nat()))]
        mts = [tuple(x) for x in rd.list(lambda: (rd.nat(), rd.nat(), rd.bool()))]
        want = [tuple(x) for x in r['value']]
        if msgs != want:
            ctx.disagree('equation punctuation: model messages %r / implementation %r' % (msgs, want), plain=c[0], repls=c[1]); continue
        if [(s, e) for s, e, m in mts] != [tuple(x) for x in r['matches']] or r['ncalls'] != 1:
            ctx.disagree('equation punctuation: model matches %r / implementation %r' % (mts, r['matches']), plain=c[0], repls=c[1]); continue
        if msgs:
            ctx.count('eqpunct_with_message')
        if mts:
            ctx.count('eqpunct_with_match')
