"""Correspondence of the STRUCTURE of genhtml.generate_html with the Lean model (Model/Html.lean, driver op HTML).

The real function is run in-process, unchanged, with stub `vars`; what it does is observed from outside:
  * `tex` is handed over as a `str` subclass that logs every subscription (`tex[a:b]`, `tex[i]`) and otherwise
    behaves like `str` (all results are plain `str`);
  * `genhtml.generate_highlight` is replaced by a function returning the marker `\\x00H<index>\\x01<protected text>\\x02`
    (the tag itself is what the model abstracts from; the real function is judged end to end by props/C16.py);
  * `genhtml.protect_html`, `genhtml.add_line_numbers` and `tex2txt.get_line_starts` are wrapped by pass-through
    recorders (arguments logged, original called, result returned unchanged).
From the log and the returned page the regions (first/last line start, pieces, line numbers), the list of
overlapping messages, the per-match data (unsure, beg, end, line) and the number of table rows are reconstructed and
compared with the model's answer.  As a self-check the reconstructed pieces must rebuild the string that
`add_line_numbers` received, character by character.
"""
import re
import impl, proto, model
from corr import pmap_retry

def enc_ints(l):
    return ' '.join(str(int(x)) for x in l) if l else '-'

# alphabet of props/C16.py plus what the structure is sensitive to: backslashes with and without a macro name behind,
# letters / digits / underscore / non-ASCII letters and digits (the "end of the word" of an unsure match),
# line breaks, empty lines, characters str.splitlines() cuts at
ATOMS = ['<', '>', '&', '"', "'", '<script>', '</td>', '&amp;', '\t', '  ', ' ', 'x', 'word', 'ä', '€', '<br>', '">', '-->',
         '\\&', '\\%', 'x\\,y', '\\textbf{bold}', '\\emph', '\\', '\\\\', '\\a', 'Wort_1', 'ab2c', 'é²', 'ß٣x', '_', '9',
         '\x0c', 'a\x0bb', '\x1c', '\x1d', '\x1e', '\x85', 'a\u2028b', '\u2029', '\r', '\r\n',
         '\n', '\n', '\n', '\n\n', 'lorem', 'ipsum']

def gen_case(rng):
    mode = rng.random()
    if mode < 0.04:
        tex = ''
    elif mode < 0.08:
        tex = rng.choice(['\n', '\n\n', 'a', '\\', '\\a', 'a\n'])
    elif mode < 0.45:
        # many short lines: several regions
        tex = '\n'.join(' '.join(rng.choice(ATOMS[:40]) for _ in range(rng.choice([0, 0, 1, 2, 3]))) for _ in range(rng.randint(2, 14)))
    else:
        tex = ''.join(rng.choice(ATOMS) for _ in range(rng.randint(1, 14)))
    r = rng.random()
    if r < 0.6 and not tex.endswith('\n'):
        tex += '\n'             # what proofreader.py hands over; the rest: no final line break
    L = len(tex)
    # position map
    k = rng.randint(1, 30) if rng.random() < 0.5 else rng.randint(1, max(2, L))
    m = rng.random()
    if m < 0.5:
        # as the filter makes them: 1-based, increasing with jumps, padded with the last position
        cm, p = [], rng.randint(1, max(1, L // 3 + 1))
        for _ in range(k):
            cm.append(min(p, max(1, L)))
            p += rng.choice([1, 1, 1, 1, 2, 3, 7])
        cm += [cm[-1], cm[-1]]      # the '\n\n' the shell pads every part with
        k += 2
    elif m < 0.7:
        cm = [rng.randint(1, max(1, L)) for _ in range(k)]                      # not monotone
    elif m < 0.9:
        cm = [rng.choice([1, 1, -1]) * rng.randint(1, max(1, L)) for _ in range(k)]   # unsure positions
    else:
        cm = [rng.choice([1, 1, -1]) * rng.randint(0, L + 3) for _ in range(k)]       # zero, behind the end
    # matches
    ms = []
    for _ in range(rng.choice([0, 1, 1, 2, 3, 3, 5, 8])):
        if rng.random() < 0.95:
            o = rng.randrange(max(1, k - 1))
            l = rng.choice([0, 1, 1, 2, 5, 10, 30, -1])
            if rng.random() < 0.93:
                l = min(l, k - 2 - o)
        else:
            o = rng.randint(-2, k + 2)
            l = rng.randint(-3, k + 2)
        ms.append((o, l))
    if ms and rng.random() < 0.6:
        o, l = ms[0]        # overlapping / nested / adjacent on purpose
        ms.append((max(0, min(k - 2, o + rng.choice([0, 1, max(0, l) // 2, max(0, l)]))), rng.choice([0, 1, 3])))
    if rng.random() < 0.8:
        # the shell sorts by |charmap[offset]| (stable); out-of-range offsets would be fatal there already
        ms.sort(key=lambda m: abs(cm[m[0]]) if 0 <= m[0] < k else 0)
    ctx = rng.choice([-1, -1, 0, 0, 0, 1, 1, 2, 2, 5, 100, -7])
    return (tex, cm, ms, ctx)

def norm_context(c):
    # shell.py: if cmdline.context < 0: cmdline.context = int(1e8)
    return int(1e8) if c < 0 else c

FILE = 'd.tex'

def impl_html(case):
    tex, cm, ms, context = case
    import importlib
    m = impl.load()
    gh = importlib.import_module('yalafi.shell.genhtml')
    t2 = m.tex2txt
    log = []
    cap = {}
    class LogStr(str):
        def __getitem__(self, k):
            if isinstance(k, slice):
                log.append(('S', k.start, k.stop))
            else:
                log.append(('I', k))
            return str.__getitem__(self, k)
    class C: pass
    cmd = C(); cmd.context = norm_context(context); cmd.link = False; cmd.file = [FILE]; cmd.server = ''
    def json_get(dic, item, typ):
        if not isinstance(dic, dict) or not isinstance(dic.get(item), typ):
            raise SystemExit(1)
        return dic.get(item)
    v = C(); v.cmdline = cmd; v.json_get = json_get; v.highlight_style = 'hs'; v.number_style = 'ns'; v.msg_LT_server_html = ''
    v.highlight_style_unsure = 'hu'
    orig = (gh.generate_highlight, gh.protect_html, gh.add_line_numbers, t2.get_line_starts)
    saved = {k: getattr(gh, k, None) for k in ('json_get', 'cmdline', 'highlight_style', 'number_style', 'msg_LT_server_html')}
    def fake_highlight(mm, s, lin, unsure):
        log.append(('H', mm['idx'], str(s), lin, bool(unsure)))
        return '\x00H%d\x01' % mm['idx'] + orig[1](s) + '\x02'
    def ph(s):
        log.append(('P', str(s)))
        return orig[1](s)
    def aln(s, nums):
        cap['res_tot'] = s; cap['nums'] = list(nums)
        out = orig[2](s, nums)
        cap['table'] = out
        return out
    def gls(s):
        log.append(('STARTS',))
        return orig[3](s)
    def f():
        gh.init(v)
        matches = [{'offset': o, 'length': l, 'idx': i} for i, (o, l) in enumerate(ms)]
        (title, anchor, page, n) = gh.generate_html(LogStr(tex), list(cm), matches, FILE)
        return page
    gh.generate_highlight, gh.protect_html, gh.add_line_numbers, t2.get_line_starts = fake_highlight, ph, aln, gls
    try:
        r = impl.guarded(f)
    finally:
        gh.generate_highlight, gh.protect_html, gh.add_line_numbers, t2.get_line_starts = orig
        for k2, v2 in saved.items():
            if v2 is not None:
                setattr(gh, k2, v2)
    out = {'outcome': r['outcome'], 'exc': r.get('exc'), 'site': r.get('site')}
    if r['outcome'] != 'ok':
        return out
    page = r['value']
    try:
        out['value'] = reconstruct(tex, page, log, cap, orig[1], orig[3])
    except Exception as e:
        out['outcome'] = 'harness'
        out['exc'] = 'reconstruction failed: %s: %s' % (type(e).__name__, e)
    return out

TROW = re.compile(r'<tr>\n<td style="ns" align="right" valign="top">(\d*)&nbsp;&nbsp;</td>\n<td>(.*?)</td>\n</tr>\n', re.S)
MARK = re.compile('\x00H\\d+\x01|\x02')
OVROW = re.compile(r'<tr><td style="ns" align="right" valign="top">(\d+)&nbsp;&nbsp;</td><td>\x00H(\d+)\x01(.*?)\x02</td></tr>\n', re.S)

def reconstruct(tex, page, log, cap, protect, line_starts):
    table = cap.get('table', '')
    if table:
        assert page.count(table) == 1
        pre, post = page.split(table)
    else:
        pre, post = page, ''
        if 'overlapping message(s)</H3>' in page:
            k = page.index('<a id="' + FILE + '-@@@"></a>')
            pre, post = page[:k], page[k:]
    ov_rows = [(int(a), int(b), c) for a, b, c in OVROW.findall(post)]
    assert post.count('<tr>') == len(ov_rows), 'overlap table not understood'
    ov_ids = [b for _, b, _ in ov_rows]
    assert len(set(ov_ids)) == len(ov_ids)
    k = log.index(('STARTS',))
    head, ev = log[:k], log[k + 1:]
    # per-match data: what generate_highlight was called with, and the slice tex[h.beg:h.end] just before
    hd = {}
    regions, cur, first = [], None, None
    overlaps = []
    def new():
        return {'pieces': [], 'start': None, 'stop': None}
    i = 0
    while i < len(ev):
        e = ev[i]
        if e[0] == 'S' and i + 1 < len(ev) and ev[i + 1][0] == 'H':
            H = ev[i + 1]
            idx = H[1]
            assert idx not in hd
            hd[idx] = {'beg': e[1], 'end': e[2], 'lin': H[3], 'unsure': H[4], 'text': H[2]}
            if cur is None:
                cur = new()
            if idx in ov_ids:
                overlaps.append((idx, H[3], H[2]))
                i += 2
            else:
                S2, P = ev[i + 2], ev[i + 3]
                assert S2[0] == 'S' and P[0] == 'P' and S2[2] == e[1]
                if cur['start'] is None:
                    cur['start'] = S2[1]
                cur['pieces'] += [('p', 0, P[1]), ('h', idx, H[2])]
                i += 4
        elif e[0] == 'S' and i + 1 < len(ev) and ev[i + 1][0] == 'P':
            P = ev[i + 1]
            if cur is None:
                assert e[1] is None and first is None and not regions
                first = {'text': P[1], 'stop': e[2]}
            else:
                if cur['start'] is None:
                    cur['start'] = e[1]
                cur['stop'] = e[2]
                cur['pieces'].append(('p', 0, P[1]))
                regions.append(cur); cur = None
            i += 2
        elif e[0] == 'P' and e[1] == 'File "' + FILE + '":':
            i += 1
        else:
            raise AssertionError('unexpected event %r at %d' % (e, i))
    assert cur is None
    assert [(lin, idx, protect(t)) for idx, lin, t in overlaps] == ov_rows, 'overlap rows differ from the calls'
    nums = cap.get('nums', [])
    # line numbers per region: every region ends with -1
    if regions:
        parts, acc = [], []
        for x in nums:
            acc.append(x)
            if x == -1:
                parts.append(acc); acc = []
        assert not acc and len(parts) == len(regions), 'line numbers do not end with the separator'
        for g, p in zip(regions, parts):
            g['nums'] = p
        want = ''.join(''.join(protect(t) if kind == 'p' else '\x00H%d\x01%s\x02' % (ix, protect(t)) for kind, ix, t in g['pieces']) + '<br>\n'
                       for g in regions)
        assert want == cap['res_tot'], 'pieces do not rebuild the table text'
    else:
        assert first is not None
        first['nums'] = nums
        if nums:
            assert protect(first['text']) == cap['res_tot']
    starts = line_starts(tex)
    rows = [(a, MARK.sub('', b)) for a, b in TROW.findall(table)]
    assert len(rows) == table.count('<tr>') and ''.join(TROW.split(table)[::3]) == '<table cellspacing="0">\n</table>\n' * bool(table), 'table not understood'
    return {'hd': [hd[i] for i in sorted(hd)], 'regions': regions, 'overlaps': overlaps, 'first': first,
            'rows': rows, 'nnums': len(nums), 'starts': starts}

def read_model(a):
    rd = proto.Reader(a)
    st = rd.next()
    if st != 'ok':
        return st, None
    def ints():
        f = rd.next()
        return [] if f == '-' else [int(x) for x in f.split(' ')]
    hs = []
    for _ in range(rd.nat()):
        hs.append({'idx': rd.nat(), 'unsure': rd.bool(), 'beg': int(rd.next()), 'end': rd.nat(), 'beglin': rd.nat(), 'endlin': rd.nat(), 'lin': rd.nat()})
    regs = []
    for _ in range(rd.nat()):
        g = {'beglin': rd.nat(), 'endlin': rd.nat(), 'pieces': []}
        for _ in range(rd.nat()):
            g['pieces'].append((rd.next(), rd.nat(), rd.str()))
        g['nums'] = ints()
        g['overlaps'] = [(rd.nat(), rd.nat(), rd.str()) for _ in range(rd.nat())]
        g['rows'] = [rd.str() for _ in range(rd.nat())]
        regs.append(g)
    first = None
    if rd.bool():
        first = {'text': rd.str(), 'nums': ints(), 'rows': [rd.str() for _ in range(rd.nat())]}
    assert not rd.rest()
    return 'ok', {'hd': hs, 'regions': regs, 'first': first}

def compare(mv, iv):
    """list of differences between the model's report `mv` and the reconstructed real one `iv`"""
    d = []
    starts = iv['starts']
    if len(mv['hd']) != len(iv['hd']):
        return ['number of matches processed: model %d / impl %d' % (len(mv['hd']), len(iv['hd']))]
    for a, b in zip(mv['hd'], iv['hd']):
        if (a['beg'], a['end'], a['lin'] + 1, a['unsure']) != (b['beg'], b['end'], b['lin'], b['unsure']):
            d.append('match %d: model (beg,end,line,unsure) %r / impl %r' % (a['idx'], (a['beg'], a['end'], a['lin'] + 1, a['unsure']), (b['beg'], b['end'], b['lin'], b['unsure'])))
    if len(mv['regions']) != len(iv['regions']):
        d.append('regions: model %d / impl %d' % (len(mv['regions']), len(iv['regions'])))
        return d
    movl = []
    for k, (g, r) in enumerate(zip(mv['regions'], iv['regions'])):
        if not (g['beglin'] < len(starts) and g['endlin'] < len(starts)):
            d.append('region %d: model lines %d..%d outside starts (%d entries)' % (k, g['beglin'], g['endlin'], len(starts)))
            continue
        if starts[g['beglin']] != r['start'] or starts[g['endlin']] != r['stop']:
            d.append('region %d: model lines %d..%d = offsets %d..%d / impl offsets %r..%r' % (k, g['beglin'], g['endlin'], starts[g['beglin']], starts[g['endlin']], r['start'], r['stop']))
        if g['pieces'] != r['pieces']:
            d.append('region %d: pieces model %r / impl %r' % (k, g['pieces'], r['pieces']))
        if g['nums'] != r['nums']:
            d.append('region %d: line numbers model %r / impl %r' % (k, g['nums'], r['nums']))
        movl += g['overlaps']
    if movl != iv['overlaps']:
        d.append('overlaps: model %r / impl %r' % (movl, iv['overlaps']))
    if (mv['first'] is None) != (iv['first'] is None):
        d.append('"no problems" display: model %r / impl %r' % (mv['first'], iv['first']))
    elif mv['first'] is not None:
        if (mv['first']['text'], mv['first']['nums']) != (iv['first']['text'], iv['first']['nums']):
            d.append('"no problems" display: model %r / impl %r' % (mv['first'], iv['first']))
    # the table as add_line_numbers really wrote it: one row per model row, same text, the number of its line beside it
    mrows = [r for g in mv['regions'] for r in g['rows']] + (mv['first']['rows'] if mv['first'] and mv['first']['nums'] else [])
    mnums = [x for g in mv['regions'] for x in g['nums']] + (mv['first']['nums'] if mv['first'] else [])
    if len(mrows) != len(iv['rows']):
        d.append('table rows: model %d / impl %d' % (len(mrows), len(iv['rows'])))
    else:
        for j, (mr, (num, txt)) in enumerate(zip(mrows, iv['rows'])):
            want_num = '' if mnums[j] < 0 else str(mnums[j] + 1)
            if num != want_num or txt != iv['protect'](mr):
                d.append('table row %d: model (%r, %r) / impl (%r, %r)' % (j, want_num, iv['protect'](mr), num, txt)); break
    return d

def protect_real(s):
    import importlib
    impl.load()
    return importlib.import_module('yalafi.shell.genhtml').protect_html(s)

def html_corr(ctx, n):
    rng = ctx.rng
    cases = [gen_case(rng) for _ in range(n)]
    if not ctx.model_ok:
        return
    res = pmap_retry(ctx, impl_html, cases)
    reqs = []
    for i, (tex, cm, ms, c) in enumerate(cases):
        f = [proto.enc_str(tex), enc_ints(cm), str(len(ms))]
        for (o, l) in ms:
            f += [str(o), str(l)]
        f.append(str(c))
        reqs.append(('HTML', 'h%d' % i, f))
    ans = model.run_batch(reqs)
    for i, (c, r) in enumerate(zip(cases, res)):
        a = ans['h%d' % i]
        ctx.corr['cases'] += 1
        ctx.count('html_' + r['outcome'])
        if r['outcome'] == 'harness':
            ctx.disagree('generate_html: the report was not understood: %s' % r['exc'], case=c); continue
        try:
            st, mv = read_model(a)
        except Exception as e:
            ctx.disagree('generate_html: model answer not understood: %r %s' % (a[:3], e), case=c); continue
        if st != r['outcome']:
            ctx.disagree('generate_html: model %s / impl %s %s' % (st, r['outcome'], r.get('exc')), case=c); continue
        if st != 'ok':
            continue
        iv = r['value']
        ctx.count('html_regions', len(iv['regions'])); ctx.count('html_overlaps', len(iv['overlaps']))
        ctx.count('html_matches', len(iv['hd']))
        iv['protect'] = protect_real
        if len(iv['rows']) != iv['nnums']:
            # not a question of the model: the real table has a row without a line number entry (or vice versa)
            ctx.disagree('generate_html: %d table rows but %d line numbers' % (len(iv['rows']), iv['nnums']), case=c); continue
        diffs = compare(mv, iv)
        if diffs:
            ctx.disagree('generate_html: ' + diffs[0], case=c, all=diffs[:4])
