"""Run the compiled Lean model driver over a batch of request lines."""
import os, subprocess

VERIF = os.path.dirname(os.path.dirname(os.path.abspath(__file__)))
DRIVER = os.path.join(VERIF, 'lean', '.lake', 'build', 'bin', 'driver')

def run_batch(requests, timeout=600):
    """requests: list of (op, id, [fields]); returns dict id -> list of answer fields"""
    if not requests:
        return {}
    data = ''.join('\t'.join([op, str(i)] + list(fields)) + '\n' for op, i, fields in requests)
    p = subprocess.run([DRIVER], input=data.encode('utf-8'), stdout=subprocess.PIPE,
                       stderr=subprocess.PIPE, timeout=timeout)
    if p.returncode != 0:
        raise RuntimeError('model driver failed: ' + p.stderr.decode('utf-8', 'replace')[:2000])
    out = {}
    for line in p.stdout.decode('utf-8').split('\n'):
        if not line:
            continue
        f = line.split('\t')
        out[f[0]] = f[1:]
    if len(out) != len(requests):
        raise RuntimeError('model driver answered %d of %d requests' % (len(out), len(requests)))
    return out
