"""G-cref: documents using package cleveref ('poorman' sed file read with \\YYCleverefInput).

These documents are judged on the implementation by the direct oracles (range C01, totality C07, span of
generated text C04, independence of history C17); since cleveref.py is part of the Lean model
(Model/Cleveref.lean, handlers .readSed / .cref / .crefrange) they also go through the model
correspondence (corr.t2t; sed lines, sed files and irregular documents: corr_cref.py)."""

def _word(rng):
    return 'Q' + ''.join(rng.choice('abcdefghijklmnopqrstuvwxyz') for _ in range(rng.randint(3, 5)))

def make(rng, stale=False, name='main.sed'):
    """returns case dict with src, files, opts and `uses`: [(a, b, word or None)], one per reference in
    source order; word None = label unknown to the sed file (an error mark is expected instead)."""
    nlab = rng.randint(1, 3)
    labs = ['eq:%d' % (k + 1) for k in range(nlab)]
    words = {}
    sed = []
    known = set()
    for mac in ('\\cref', '\\Cref'):
        for star in ('', '*'):
            for l in labs:
                if stale and rng.random() < 0.4:
                    continue
                w = _word(rng)
                words[(mac, star, l)] = w
                known.add((mac, star, l))
                # (the text between name and number may hold tokens longer than one character: a run of blanks, a dash)
                join = rng.choice(['\\\\nobreakspace ', '\\\\nobreakspace ', '        ', ' -- ', '            '])
                sed.append('s/\\%s%s{%s}/%s%s\\\\textup {(\\\\ref {%s})}/g' % (mac, '\\*' if star else '', l, w, join, l))
    for mac in ('\\crefrange', '\\Crefrange'):
        for a in labs:
            for b in labs:
                if a < b and not (stale and rng.random() < 0.4):
                    w = _word(rng)
                    words[(mac, '', a, b)] = w
                    sed.append('s/\\%s{%s}{%s}/%s\\\\nobreakspace \\\\textup {(\\\\ref {%s})} to\\\\nobreakspace \\\\textup {(\\\\ref {%s})}/g' % (mac, a, b, w, a, b))
    rng.shuffle(sed)
    head = '\\usepackage[poorman]{cleveref}\n\\YYCleverefInput{%s}\n' % name
    parts = [head]
    uses = []
    pos = len(head)
    for _ in range(rng.randint(2, 7)):
        pre = _word(rng) + rng.choice([' ', '\n', '\n\n', ' '])
        parts.append(pre); pos += len(pre)
        if rng.random() < 0.75 or nlab < 2:
            mac = rng.choice(['\\cref', '\\Cref']); star = rng.choice(['', '', '*']); l = rng.choice(labs)
            call = '%s%s{%s}' % (mac, star, l)
            w = words.get((mac, star, l))
        else:
            mac = rng.choice(['\\crefrange', '\\Crefrange'])
            a, b = sorted(rng.sample(labs, 2))
            call = '%s{%s}{%s}' % (mac, a, b)
            w = words.get((mac, '', a, b))
        uses.append((pos, pos + len(call), w))
        parts.append(call); pos += len(call)
        sep = rng.choice([' ', '. ', '\n'])
        parts.append(sep); pos += len(sep)
    if rng.random() < 0.35:
        parts.pop()                  # the last reference is the very end of the text
    else:
        tail = _word(rng) + rng.choice(['', '\n'])
        parts.append(tail)
    return {'src': ''.join(parts), 'files': {name: '\n'.join(sed) + '\n'}, 'opts': {'lang': rng.choice(['en', 'de'])},
            'multi': False, 'kind': 'cref', 'words': None, 'uses': uses}

def judge_spans(case, res):
    """the i-th use of a reference receives its own generated word, mapped into its own span"""
    if res['outcome'] != 'ok' or len(res['txt']) != len(res['pos']):
        return []
    txt, pos = res['txt'], res['pos']
    import re
    byword = {}
    for (a, b, w) in case['uses']:
        if w is not None:
            byword.setdefault(w, []).append((a, b))
    for w, spans in byword.items():
        occ = [m.start() for m in re.finditer(re.escape(w) + r'(?![a-z])', txt)]     # (not as the beginning of a longer word)
        if len(occ) != len(spans):
            return ['cleveref: %d uses of the reference generating %r, but the word appears %d times' % (len(spans), w, len(occ))]
        for i, (a, b) in zip(occ, spans):
            ps = pos[i:i + len(w)]
            if not all(a + 1 <= p <= b for p in ps):
                return ['cleveref: generated word %r of the use at %d..%d maps to %r (text of another use is mapped here)' % (w, a + 1, b, sorted(set(ps)))]
    return []
