"""Correspondence of yalafi/packages/cleveref.py with Model/Cleveref.lean and the cleveref handlers of
Model/Expander.lean.

Three levels:
  * SEDLINE: one line of a sed file against the three regular expressions of the module (`re_ref`, `re_ref_range`,
    `re_command`, tried independently with `.match`) and `re_remove_escaped_symbols` of the replacement group;
  * SEDFILE: a whole sed text through the unchanged `h_read_sed` (parser object of the implementation with an empty
    macro table and a `read_macros` that returns the text): macros defined (name, argument string, scanned
    replacement), the dictionaries captured by the closures of the four reference macros, scanner messages,
    `utils.fatal`;
  * documents: tex2txt on documents that load the package (token list, text, positions, unknowns, and the COMPLETE
    text written to stderr, including the continuation lines of the multi-line messages of the module).

Stand-alone:  /venv/bin/python harness/corr_cref.py [n_lines] [n_files] [n_docs] [seed]
"""
import sys, os, io, re as _re
sys.path.insert(0, os.path.dirname(os.path.abspath(__file__)))
import impl, proto, model

def cmod():
    impl.load()
    import importlib
    return importlib.import_module('yalafi.packages.cleveref')

# ---- generators --------------------------------------------------------------------------------

BLANKS = ['', '', '', ' ', '  ', '\t', '\xa0', '\u2003', '\x1c', '\x85', '\u200b', '\u3000', '\x0b', '\r', ' \t ']
LABELS = ['eq:1', 'eq:2', 'fig:a', 'a b', 'sec 1', 'é', 'a,b', '.*', '.', '*', 'a\\.b', 'a/gb', 'a/b', 'x' * 12, '\\ref', '#1', '%', ' ', 'a%b', '$', 'Ωλ']
BADARGS = ['{}', '{a{b}', '{a}b}', '{a}}', '{{a}}', '{a', 'a}', '(a)', '[a]', '{a}{', '{a}{}']
NAMES_REF = ['\\cref', '\\Cref']
NAMES_RANGE = ['\\crefrange', '\\Crefrange']
NAMES_CMD = ['\\[cC]ref', '\\[cC]refname', '\\[cC]refmy', '\\foo', '\\foo@bar', '\\@x', '\\crefx', '\\cre', '\\Crefrangex', '\\label', '\\YYCleverefInput',
             '\\textbf', '\\item', '\\begin', '\\par', '\\[cC]page', '\\[cC]', '\\[cc]ref', '\\[cC][cC]ref', '\\x[cC]ref', '\\fooé', '\\Ωmega', '\\f1', '\\', '\\ foo',
             '\\cref', '\\Cref', '\\crefrange', '\\Crefrange', '\\[cC]ref@range', '\\nobreakspace', '\\[cC]refQa', '\\Qmac']
HEADS = ['s/\\'] * 14 + ['s/', 's/\\\\', 'S/\\', '', ' s/\\', 's\\', 's/\\\\\\', 'xs/\\']
STARS = [''] * 6 + ['\\*', '\\*', '\\*', '*', '\\', '\\\\*', '**', '\\**', '* ']
REPL_PIECES = ['Qword', 'Eq.', ' ', '\\\\nobreakspace ', '\\\\textup {(\\\\ref {eq:1})}', '\\.', '\\\\', '\\*', '\\\\\\.', '\\\\\\*', '\\\\\\\\', '/g', '/', 'g', '/g/g', '#1', '#2', '#3', '#0', '#',
               '{', '}', '{x}', 'é', '$x$', '%c', '\\\\verb|x|', '\\\\verb|x', '~', '--', '\\\\par ', '\\\\cref{eq:1}', 'to', '\\', '\\\\.', '.', '*', '\\\\begin{verbatim}', '\\\\item ', '\\\\[', "''",
               '\\\\foreignlanguage{german}{Qde}', '\\\\footnote{Qfn}', '\\\\"a', '\\\\label{x}', ' -- ', '        ']
ENDS = ['/g'] * 14 + ['', '/g/g', '/G', '/ g', '/g ', '/g\r', '/gx', '/', 'g', '//g', '/g/']

def gen_repl(rng):
    return ''.join(rng.choice(REPL_PIECES) for _ in range(rng.choice([0, 1, 1, 2, 2, 3, 4, 6])))

def gen_label(rng):
    if rng.random() < 0.1:
        return rng.choice(BADARGS)
    return '{' + rng.choice(LABELS) + '}'

def gen_line(rng, valid=0.5):
    """one sed line: the shapes cleveref's poorman mode writes, and near misses"""
    ok = rng.random() < valid
    head = 's/\\' if ok else rng.choice(HEADS)
    kind = rng.choice(['ref', 'ref', 'range', 'cmd', 'cmd'])
    if kind == 'ref':
        name = rng.choice(NAMES_REF)
        star = rng.choice(['', '', '\\*']) if ok else rng.choice(STARS)
        args = gen_label(rng) if not ok else '{' + rng.choice(LABELS[:8]) + '}'
        if not ok and rng.random() < 0.15:
            args += gen_label(rng)
    elif kind == 'range':
        name = rng.choice(NAMES_RANGE)
        star = rng.choice(['', '', '\\*']) if ok else rng.choice(STARS)
        if ok:
            args = '{' + rng.choice(LABELS[:8]) + '}{' + rng.choice(LABELS[:8]) + '}'
        else:
            args = ''.join(gen_label(rng) for _ in range(rng.choice([1, 2, 2, 2, 3])))
    else:
        name = rng.choice(NAMES_CMD[:12]) if ok else rng.choice(NAMES_CMD)
        star = '' if ok or rng.random() < 0.8 else rng.choice(STARS)
        k = rng.choice([0, 0, 1, 1, 2, 3, 10, 12])
        if ok or rng.random() < 0.7:
            args = '{.*}' * k
        else:
            args = ''.join(rng.choice(['{.*}', '{.*}', '{.}', '{*}', '{..*}', '{.*', '.*}', '{ .*}', '{.*} ', '{a}']) for _ in range(k))
        args += rng.choice(BLANKS) if not ok else rng.choice(['', '', ' ', '  ', '\t'])
    slash = '/' if ok or rng.random() < 0.85 else rng.choice(['', '//', ' /', '\\/'])
    end = '/g' if ok else rng.choice(ENDS)
    line = head + name + star + args + slash + gen_repl(rng) + end
    if not ok and rng.random() < 0.05:
        i = rng.randrange(len(line) + 1)
        line = line[:i] + '\n' + line[i:]
    if not ok and rng.random() < 0.1 and line:
        i = rng.randrange(len(line))
        line = line[:i] + line[i + 1:]            # one character lost
    return line

def gen_sed(rng, valid=0.8, nmax=14):
    lines = []
    for _ in range(rng.randint(0, nmax)):
        r = rng.random()
        if r < 0.08:
            lines.append('')
        elif r < 0.2 and lines:
            # same key again (dictionary: the later line wins) with another replacement
            old = rng.choice(lines)
            m = _re.match(r'(s/\\\\c?C?refr?a?n?g?e?(?:\\\*)?(?:\{[^}{]*\})+/)', old)
            lines.append(m.group(1) + gen_repl(rng) + '/g' if m else old)
        else:
            lines.append(gen_line(rng, valid))
    sep = '\r\n' if rng.random() < 0.05 else '\n'
    return sep.join(l.replace('\n', '') for l in lines) + rng.choice(['\n', '', '\n\n'])

# ---- implementation sides ------------------------------------------------------------------------

def impl_line(line):
    cm = cmod()
    def f():
        out = []
        m = cm.re_ref.match(line)
        out.append(None if not m else (m.group(1), m.group(2), m.group(3), m.group(4), cm.re_remove_escaped_symbols(m.group(4))))
        m = cm.re_ref_range.match(line)
        out.append(None if not m else (m.group(1), m.group(2), m.group(3), m.group(4), m.group(5), cm.re_remove_escaped_symbols(m.group(5))))
        m = cm.re_command.match(line)
        out.append(None if not m else (m.group(1), bool(m.group(2)), int((m.end(3) - m.start(3)) / 4), m.group(4),
                                       cm.re_remove_escaped_symbols(m.group(4))))
        return out
    r = impl.guarded(f)
    return {'outcome': r['outcome'], 'value': r['value'], 'exc': r.get('exc')}

def impl_file(sed):
    m = impl.load()
    cm = cmod()
    def f():
        parms = m.parameters.Parameters('')
        pr = m.parser.Parser(parms, read_macros=lambda file: (True, sed))
        pr.the_macros = {}
        ret = cm.h_read_sed(pr, None, None, [[m.defs.TextToken(0, 'f')]], None, 0)
        assert ret == []
        macs = []
        for name, mac in pr.the_macros.items():
            assert mac.name == name and mac.defaults == [] and mac.extract == []
            if callable(mac.repl):
                cells = dict(zip(mac.repl.__code__.co_freevars, [c.cell_contents for c in mac.repl.__closure__]))
                d = cells['cref']
                assert sorted(d) == ['', '*']
                macs.append((name, mac.args, None, (dict(d['']), dict(d['*']))))
            else:
                macs.append((name, mac.args, [proto.tok_of_obj(t) for t in mac.repl], None))
        return macs
    r = impl.guarded(f)
    return {'outcome': r['outcome'], 'value': r['value'], 'exc': r.get('exc'), 'stderr': r['stderr']}

def render_diags(ds):
    return ''.join('*** LaTeX error: line %d, column %d:\n*** %s\n' % (d[0], d[1], d[2]) for d in ds)

# ---- comparison ----------------------------------------------------------------------------------

def lines_corr(ctx, n):
    if not ctx.model_ok:
        return
    rng = ctx.rng
    lines = [gen_line(rng, valid=0.45) for _ in range(n)]
    lines += ['s/\\\\crefrange{.*}{.*}/X/g', 's/\\\\Crefrange{.*}{.*}/X#2/g', 's/\\\\cref{.*}/X/g', '', 's/\\\\cref{a}//g', 's/\\\\cref{a}/g',
              's/\\\\cref{a}/x/g/y/g', 's/\\\\cref\\{a}/x/g', 's/\\\\cref\\\\*{a}/x/g', 's/\\\\[cC]ref  /x/g', 's/\\\\[cC]ref{.*}{.*}{.*} \t/#3/g']
    from corr import pmap_retry
    res = pmap_retry(ctx, impl_line, lines)
    ans = model.run_batch([('SEDLINE', 'sl%d' % i, [proto.enc_str(l)]) for i, l in enumerate(lines)])
    for i, (l, r) in enumerate(zip(lines, res)):
        ctx.corr['cases'] += 1
        rd = proto.Reader(ans['sl%d' % i])
        if rd.next() != 'ok' or r['outcome'] != 'ok':
            ctx.disagree('sed line: outcome', line=l, impl=r['outcome'], exc=r.get('exc')); continue
        got = []
        got.append((rd.str(), rd.str(), rd.str(), rd.str(), rd.str()) if rd.bool() else None)
        got.append((rd.str(), rd.str(), rd.str(), rd.str(), rd.str(), rd.str()) if rd.bool() else None)
        got.append((rd.str(), rd.bool(), rd.nat(), rd.str(), rd.str()) if rd.bool() else None)
        want = r['value']
        key = ''.join('-' if w is None else k for k, w in zip('RGC', want))
        ctx.count('sedline_' + key)
        if got != want:
            ctx.disagree('sed line: model %r / implementation %r' % (got, want), line=l)

def norm_model_macros(rd):
    macs = []
    for _ in range(rd.nat()):
        name = rd.str(); args = rd.str(); repl = rd.toks(); tag = rd.next()
        if tag == 'n':
            macs.append((name, args, repl, None))
        elif tag == 'c':
            a = rd.list(lambda: (rd.str(), rd.str())); b = rd.list(lambda: (rd.str(), rd.str()))
            macs.append((name, args, None, (dict(a), dict(b))))
        elif tag == 'r':
            a = rd.list(lambda: ((rd.str(), rd.str()), rd.str())); b = rd.list(lambda: ((rd.str(), rd.str()), rd.str()))
            macs.append((name, args, None, (dict(a), dict(b))))
        else:
            macs.append((name, args, None, 'unknown handler'))
    return macs

def files_corr(ctx, n):
    if not ctx.model_ok:
        return
    rng = ctx.rng
    seds = [gen_sed(rng, valid=rng.choice([0.95, 0.8, 0.5])) for _ in range(n)]
    from corr import pmap_retry
    res = pmap_retry(ctx, impl_file, seds)
    ans = model.run_batch([('SEDFILE', 'sf%d' % i, [proto.enc_str(s)]) for i, s in enumerate(seds)])
    for i, (s, r) in enumerate(zip(seds, res)):
        ctx.corr['cases'] += 1
        rd = proto.Reader(ans['sf%d' % i])
        st = rd.next()
        ctx.count('sedfile_' + r['outcome'])
        if st != r['outcome']:
            ctx.disagree('sed file: outcome implementation %s %s / model %s' % (r['outcome'], r.get('exc'), st), sed=s); continue
        if st != 'ok':
            continue
        macs = norm_model_macros(rd)
        diags = rd.diags()
        if macs != r['value']:
            k = next((j for j in range(min(len(macs), len(r['value']))) if macs[j] != r['value'][j]), min(len(macs), len(r['value'])))
            ctx.disagree('sed file: macro tables differ at %d' % k, sed=s, impl=r['value'][k:k + 1], model=macs[k:k + 1]); continue
        if render_diags(diags) != r['stderr']:
            ctx.disagree('sed file: scanner messages differ', sed=s, impl=r['stderr'], model=render_diags(diags)); continue
        ctx.count('sedfile_macros_defined', sum(1 for m in macs if m[3] is None))
        ctx.count('sedfile_refs', sum(len(d) for m in macs if isinstance(m[3], tuple) for d in m[3]))

# ---- documents -----------------------------------------------------------------------------------

def _word(rng):
    return 'Q' + ''.join(rng.choice('abcdefghijklmnopqrstuvwxyz') for _ in range(rng.randint(3, 5)))

def make_doc(rng):
    """a document around package cleveref: regular use (harness/cref.py) and the irregular situations"""
    import cref
    kind = rng.choice(['plain', 'plain', 'stale', 'malformed', 'twice', 'missing', 'nopoorman', 'before', 'renew', 'cmds', 'fatal', 'optvalue',
                       'pack', 'odd-calls', 'scanmsg', 'twice-pkg', 'input', 'defs', 'multi', 'relabel'])
    c = cref.make(rng, stale=kind == 'stale')
    c.pop('uses', None)
    c['kind'] = 'cref-' + kind
    src, files = c['src'], dict(c['files'])
    name = next(iter(files))
    head = '\\usepackage[poorman]{cleveref}\n\\YYCleverefInput{%s}\n' % name
    assert src.startswith(head)
    body = src[len(head):]
    if kind == 'malformed':
        files[name] = gen_sed(rng, valid=rng.choice([0.3, 0.6, 0.9]), nmax=10) + files[name] * (rng.random() < 0.5)
    elif kind == 'twice':
        files['second.sed'] = gen_sed(rng, valid=0.9) if rng.random() < 0.5 else cref.make(rng, stale=True)['files'][name]
        cut = rng.randrange(len(body) + 1)
        while cut < len(body) and (body[cut - 1:cut].isalnum() or body[cut - 1:cut] in '\\{}:*'):
            cut += 1
        body = body[:cut] + '\\YYCleverefInput{second.sed}' + rng.choice(['', ' ', '\n']) + body[cut:]
        src = head + body
    elif kind == 'missing':
        src = '\\usepackage[poorman]{cleveref}\n\\YYCleverefInput{%s}\n' % rng.choice(['nofile.sed', '', 'a b.sed', 'it\'s.sed']) + body
    elif kind == 'nopoorman':
        opt = rng.choice(['', '[capitalise]', '[nameinlink,noabbrev]', '[xpoorman]', '[poormanx]', '[Poorman]', '[poor man]', '[ poorman ]', '[{poorman}]'])
        src = rng.choice(['', 'Qtext ', 'Qa\nQb\n']) + '\\usepackage%s{cleveref}\n\\YYCleverefInput{%s}\n' % (opt, name) + body
    elif kind == 'before':
        src = '\\usepackage[poorman]{cleveref}\n' + body + '\n\\YYCleverefInput{%s}\n' % name + body
    elif kind == 'renew':
        which = rng.choice(['\\cref', '\\Cref', '\\crefrange'])
        d = '\\renewcommand{%s}[%d]{%s}' % (which, 2 if 'range' in which else 1, rng.choice(['Qrenewed #1', 'Qr', '(#1)']))
        src = rng.choice([head + d + '\n' + body, '\\usepackage[poorman]{cleveref}\n' + d + '\n\\YYCleverefInput{%s}\n' % name + body])
    elif kind == 'cmds':
        defs = ['s/\\\\[cC]refQa{.*}/%s #1/g' % _word(rng), 's/\\\\Qmac{.*}{.*}/#2 %s\\. #1/g' % _word(rng), 's/\\\\Qnone /%s/g' % _word(rng),
                's/\\\\label{.*}/Qlabel/g', 's/\\\\textbf{.*}/Qbf/g', 's/\\\\[cC]ref{.*}/Qnever/g', 's/\\\\Qstar/a\\*b\\\\\\\\c/g']
        files[name] = '\n'.join(rng.sample(defs, rng.randint(1, len(defs)))) + '\n' + files[name]
        body += ' \\crefQa{x} \\CrefQa{y}, \\Qmac{u}{v} \\Qnone \\label{l} \\textbf{b} \\Qstar.\n'
        src = head + body
    elif kind == 'fatal':
        files[name] = files[name] + rng.choice(['s/\\\\Qmac/#1/g', 's/\\\\Qmac{.*}/#2/g', 's/\\\\[cC]refQa{.*}{.*}/#0/g', 's/\\\\Qmac{.*}/#1 #9/g']) + '\n'
    elif kind == 'optvalue':
        opt = rng.choice(['[x=poorman]', '[poorman=1]', '[poorman,capitalise]', '[capitalise, poorman]', '[x = poorman ]', '[x={poorman}]', '[poorman=]'])
        src = '\\usepackage%s{cleveref}\n\\YYCleverefInput{%s}\n' % (opt, name) + body
    elif kind == 'pack':
        c['opts'] = dict(c['opts'], pack=rng.choice(['cleveref', '*', 'cleveref,babel']))
        src = rng.choice(['\\YYCleverefInput{%s}\n' % name, '', head]) + body
    elif kind == 'odd-calls':
        body = body.replace('{eq:', rng.choice([' {eq:', '{ eq:', '{eq:%c\n', '{eq: ', '{\\relax eq:', '{{eq:']), 1)
        body += rng.choice([' \\cref', ' \\cref{', ' \\cref*', ' \\cref{}', ' \\crefrange{eq:1}', ' \\cref eq:1', ' \\cref*{eq:1} \\cref *{eq:1}', ' $\\cref{eq:1}$',
                            ' \\textbf{\\cref{eq:1}}', ' \\cref{eq:1,eq:2}', ' \\cref{\\cref{eq:1}}', ' \\footnote{\\cref{eq:1}}'])
        src = head + body
    elif kind == 'scanmsg':
        files[name] = files[name] + 's/\\\\cref{eq:1}/%s \\\\verb|x/g\ns/\\\\Qmac/\\\\verb+y/g\ns/\\\\Cref{eq:1}/a\\\\begin{verbatim}b/g\n' % _word(rng)
        body += ' \\Qmac.'
        src = head + body
    elif kind == 'twice-pkg':
        src = head + '\\usepackage%s{cleveref}\n' % rng.choice(['', '[poorman]', '[x]']) + body
    elif kind == 'input':
        files['inc.tex'] = head
        src = '\\LTinput{inc.tex}\n' + body
    elif kind == 'defs':
        c['opts'] = dict(c['opts'], defs=head)
        src = body
    elif kind == 'multi':
        c['multi'] = True
        c['thresh'] = rng.randint(0, 5)
        src = head + body + ' \\foreignlanguage{german}{Qde \\cref{eq:1} Qde}.'
    elif kind == 'relabel':
        files[name] = files[name] + files[name].replace('Q', 'Qz')
    c['src'], c['files'] = src, files
    return c

def docs_corr(ctx, n):
    """documents through the whole filter: token-level correspondence (corr.t2t) and the complete stderr text"""
    if not ctx.model_ok:
        return
    import corr, t2t
    rng = ctx.rng
    cases = [make_doc(rng) for _ in range(n)]
    res = ctx.pmap(t2t.run_case, cases)
    for c, r in zip(cases, res):
        ctx.count('crefdoc_%s_%s' % (c['kind'], r['outcome']))
    before = ctx.corr['disagreements']
    corr.t2t(ctx, cases, res)
    if ctx.corr['disagreements'] != before:
        return
    idx = [i for i in range(len(cases)) if res[i]['outcome'] == 'ok']
    ans = model.run_batch([corr.t2t_request(i, cases[i]) for i in idx], timeout=1800)
    for i in idx:
        m = corr.t2t_decode(ans['t%d' % i])
        ctx.corr['cases'] += 1
        if m['outcome'] != 'ok':
            continue
        want = res[i]['stderr']
        got = render_diags(m['diags'])
        # (file names and skip marks are quoted by Python's repr(): compared by the generic check up to the quote)
        if "could not read file" in want or 'closing LaTeX comment' in want:
            continue
        if got != want:
            ctx.disagree('cleveref document: text on stderr differs', src=cases[i]['src'], files=cases[i]['files'], opts=cases[i]['opts'],
                         impl=want, model=got)
        elif want:
            ctx.count('crefdoc_stderr_nonempty_equal')

def cref_corr(ctx, n_lines, n_files, n_docs):
    lines_corr(ctx, n_lines)
    files_corr(ctx, n_files)
    docs_corr(ctx, n_docs)

if __name__ == '__main__':
    import core, json
    a = [int(x) for x in sys.argv[1:]]
    n_lines, n_files, n_docs, seed = (a + [6000, 1500, 600, 1][len(a):])[:4]
    ctx = core.Ctx('C04', 'quick', seed)
    ctx.model_ok = True
    ctx.known, ctx.fixed = [], []
    cref_corr(ctx, n_lines, n_files, n_docs)
    print(json.dumps({'correspondence': ctx.corr, 'distribution': ctx.stats}, indent=1, default=str)[:6000])
    sys.exit(1 if ctx.corr['disagreements'] else 0)
