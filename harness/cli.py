import sys, os, argparse
sys.path.insert(0, os.path.dirname(os.path.abspath(__file__)))
import core
ap = argparse.ArgumentParser()
ap.add_argument('prop')
ap.add_argument('--tier', default=os.environ.get('VERIF_TIER', 'quick'), choices=['quick', 'thorough'])
ap.add_argument('--replay')
a = ap.parse_args()
seed = int(os.environ.get('VERIF_SEED', '1') or 1)
try:
    rc = core.main_check(a.prop, a.tier, seed, a.replay)
except Exception:
    import traceback
    traceback.print_exc()
    rc = 2
sys.exit(rc)
