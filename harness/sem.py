"""Reference semantics of the G-doc AST, written from the properties' wording (TeX-style
substitution), independent of the implementation and of the Lean model.

evaluate(ast) -> Result with
  .seq      : expected sequence of unique words in the output (main flow, then detached
              flows in order of extraction), each as (word, role) with role 'copy' | 'body'
  .hidden   : words that must not appear
  .mathn    : number of inline formulas / display equations met (for C10/C11 counting)
"""

class Env:
    def __init__(self):
        self.macros = {}      # name -> macro dict
        self.theorems = {}    # env name -> title word

class Result:
    def __init__(self):
        self.main = []
        self.flows = []
        self.hidden = set()
        self.nested = False
        self.unknowns = []      # undeclared names in order of first text-mode use
        self.formulas = []      # inline formulas in expansion order
    @property
    def seq(self):
        out = list(self.main)
        for f in self.flows:
            out += f
        return out

def evaluate(ast, pack_all=True):
    env = Env()
    res = Result()
    res.main = ev(ast, env, res)
    return res

def ev_args(node_args, env, res):
    return [None if a is None else a for a in node_args]

def ev(n, env, res):
    """returns list of (word, role) events for the flow this node stands in; detached flows are
    appended to res.flows at the moment the construct is expanded"""
    t = n['t']
    if t == 'seq':
        out = []
        for it in n['items']:
            out += ev(it, env, res)
        return out
    if t == 'word':
        return [(n['w'], 'copy')]
    if t == 'imath':
        res.formulas.append(n)
        return []
    if t == 'hspace':
        if n['name'].startswith('\\hspace') and n['len'].startswith('\\'):
            note_unknown(res, n['len'])     # \hspace inspects its argument: \fill is an undeclared macro used in text
        return []
    if t == 'symbol' and n.get('tailword'):
        return [(n['tailword'], 'copy')]
    if t in ('ws', 'par', 'special', 'symbol', 'accent', 'verb', 'linebreak', 'verbatim',
             'selectlanguage', 'usepackage', 'rawword', 'gls', 'param'):
        return []
    if t == 'comment':
        res.hidden.add(n['hidden'])
        return []
    if t == 'group':
        return ev(n['body'], env, res)
    if t == 'unknown':
        note_unknown(res, n['name'])
        out = []
        for a in n['args']:
            out += ev(a, env, res)
        return out
    if t in ('vanish', 'ref'):
        res.hidden.add(n['key'])
        return []
    if t == 'cite':
        res.hidden.add(n['key'])
        return ev(n['opt'], env, res) if n['opt'] is not None else []
    if t == 'lt':
        if n['k'] == 'add':
            return ev(n['a'], env, res)
        if n['k'] == 'skip':
            hide(n['a'], res)
            return []
        hide(n['a'], res)
        return ev(n['b'], env, res)
    if t == 'foreign':
        return ev(n['body'], env, res)
    if t == 'footnote':
        k = len(res.flows)
        flow = ev(n['body'], env, res)
        if len(res.flows) > k:
            res.nested = True       # a flow detached inside a detached flow
        res.flows.append(flow)
        return []
    if t == 'heading':
        if n['opt']:
            res.hidden.add(n['opt'])
        return ev(n['body'], env, res)
    if t == 'itemize':
        out = []
        for it in n['items']:
            if it['label'] is not None:
                out.append((it['label'], 'copy'))
            out += ev(it['body'], env, res)
        return out
    if t == 'display':
        out = []
        for secs in n['rows']:
            for sec in secs:
                i = sec.find('\\text{')
                if i >= 0:
                    j = sec.index('}', i)
                    out.append((sec[i + 6:j], 'copy'))
        if n['label']:
            res.hidden.add(n['label'])
        return out
    if t == 'env':
        if not n.get('known'):
            note_unknown(res, n['name'])
        return ev(n['body'], env, res)
    if t == 'skip':
        hide(n['body'], res)
        return []
    if t == 'inspect':
        # the handler expands the argument (in text mode) to look at it: undeclared names in it are used in text;
        # the text itself is dropped
        sub = Result()
        sub.unknowns = res.unknowns
        ev(n['body'], env, sub)
        hide(n['body'], res)
        return []
    if t == 'newcommand':
        m = n['m']
        env.macros[m['name']] = m
        return []
    if t == 'call':
        m = n['m']
        cur = env.macros.get(m['name'])
        if cur is None:
            # used before (or without) its definition: unknown macro, arguments stay
            note_unknown(res, m['name'])
            out = []
            for a in n['args']:
                if a is not None:
                    out += ev(a, env, res)
            return out
        if cur is not m:
            # redefined with another signature: the generator renders the call for `m`; only handle
            # the case of identical arity, otherwise give up on this document
            if cur['nargs'] != m['nargs'] or (cur['opt'] is None) != (m['opt'] is None):
                raise Unsupported('call of a macro redefined with a different signature')
        out = []
        for b in cur['body']:
            if b['t'] == 'param':
                k = b['n'] - 1
                a = n['args'][k]
                if a is None:
                    if cur['opt'] is not None and k == 0:
                        out.append((cur['opt'], 'body'))
                else:
                    out += ev(a, env, res)
            elif b['t'] == 'word':
                out.append((b['w'], 'body'))
        # arguments not referenced by the body are dropped; words in them never appear
        return out
    if t == 'theorem':
        env.theorems[n['env']] = n['title']
        out = [(n['title'], 'body')]
        if n['opt'] is not None:
            out += ev(n['opt'], env, res)
        return out + ev(n['body'], env, res)
    if t == 'proof':
        out = []
        if n['opt'] is not None:
            out += ev(n['opt'], env, res)
        return out + ev(n['body'], env, res)
    if t == 'otherlanguage':
        return ev(n['body'], env, res)
    if t == 'figure':
        out = ev(n['body'], env, res)
        k = len(res.flows)
        cap = ev(n['caption'], env, res)
        if len(res.flows) > k:
            res.nested = True
        res.flows.append(cap)
        return out
    if t == 'glsdef':
        res.hidden.add(n['short'])
        if n['kind'] in ('entry_nodesc', 'acr_single'):
            return []
        return [(b['w'], 'copy') for b in n['desc'] if b['t'] == 'word']
    raise Unsupported(t)

def note_unknown(res, name):
    if name not in res.unknowns:
        res.unknowns.append(name)

class Unsupported(Exception):
    pass

def hide(n, res):
    """all literal words below n are hidden text"""
    t = n.get('t')
    for k, v in n.items():
        if k == 'm':
            continue       # the definition a call refers to is not part of the hidden region
        if k in ('w', 'key', 'hidden', 'short', 'title') and isinstance(v, str) and v.startswith('Q'):
            res.hidden.add(v)
        elif k == 'label' and isinstance(v, str) and v.startswith('Q'):
            res.hidden.add(v)
        elif isinstance(v, dict):
            hide(v, res)
        elif isinstance(v, list):
            for x in v:
                if isinstance(x, dict):
                    hide(x, res)
                elif isinstance(x, list):
                    for y in x:
                        if isinstance(y, dict):
                            hide(y, res)

GENERATING = {'ref', 'cite', 'imath', 'display', 'heading', 'itemize', 'call', 'theorem', 'proof', 'footnote', 'figure',
              'env', 'otherlanguage', 'foreign', 'special', 'symbol', 'accent', 'verb', 'verbatim', 'linebreak', 'hspace',
              'gls', 'glsdef', 'lt', 'unknown', 'vanish', 'newcommand', 'skip', 'usepackage', 'selectlanguage', 'group',
              'comment', 'par'}

def unused_arg_words(ast):
    """words standing in arguments that a macro body does not reference are legitimately absent
    (handled by the evaluator); nothing to do here"""
    return set()
