"""Line protocol shared with lean/Driver.lean (DESIGN Appendix C)."""

def enc_str(s):
    return ' '.join(str(ord(c)) for c in s) if s else '-'

def dec_str(f):
    return '' if f == '-' else ''.join(chr(int(w)) for w in f.split(' '))

def enc_nats(l):
    return ' '.join(str(int(n)) for n in l) if l else '-'

def dec_nats(f):
    return [] if f == '-' else [int(w) for w in f.split(' ')]

def enc_bool(b):
    return '1' if b else '0'

def enc_list(items, enc_item):
    out = [str(len(items))]
    for it in items:
        out.extend(enc_item(it))
    return out

# a token is a tuple (kind, pos, fix, txt, extra)
def enc_tok(t):
    kind, pos, fix, txt, extra = t
    return [kind, str(pos), enc_bool(fix), enc_str(txt), extra]

def enc_toks(ts):
    return enc_list(ts, enc_tok)

class Reader:
    def __init__(self, fields):
        self.f = fields
        self.i = 0
    def next(self):
        v = self.f[self.i]
        self.i += 1
        return v
    def nat(self):
        return int(self.next())
    def bool(self):
        return self.next() != '0'
    def str(self):
        return dec_str(self.next())
    def nats(self):
        return dec_nats(self.next())
    def list(self, item):
        return [item() for _ in range(self.nat())]
    def tok(self):
        kind = self.next(); pos = self.nat(); fix = self.bool(); txt = self.str(); extra = self.next()
        return (kind, pos, fix, txt, extra)
    def toks(self):
        return self.list(self.tok)
    def diag(self):
        return (self.nat(), self.nat(), self.str())
    def diags(self):
        return self.list(self.diag)
    def txtpos(self):
        return (self.str(), self.nats())
    def parts(self):
        def part():
            lang = self.str()
            return (lang, self.list(self.txtpos))
        return self.list(part)
    def rest(self):
        return self.f[self.i:]

KIND_OF_CLASS = {
    'TextToken': 'text', 'SpaceToken': 'space', 'ParagraphToken': 'par', 'CommentToken': 'comment',
    'SpecialToken': 'special', 'MacroToken': 'macro', 'BeginToken': 'begin', 'EndToken': 'end',
    'ItemToken': 'item', 'AccentToken': 'accent', 'VerbatimToken': 'verb', 'ArgumentToken': 'arg',
    'ActionToken': 'action', 'VoidToken': 'void', 'LanguageToken': 'lang',
    'MathBeginToken': 'mathbegin', 'MathElemToken': 'mathelem', 'MathOperToken': 'mathoper',
    'MathSpaceToken': 'mathspace',
}

def tok_of_obj(t):
    """canonical tuple of an implementation token object"""
    cls = type(t).__name__
    kind = KIND_OF_CLASS.get(cls, 'other:' + cls)
    extra = '-'
    if kind == 'verb':
        extra = enc_bool(t.environ)
    elif kind == 'arg':
        extra = str(t.arg)
    elif kind == 'lang':
        extra = enc_bool(t.back) + enc_bool(t.hard) + enc_bool(t.brk) + ':' + enc_str(t.lang)
    elif kind == 'mathbegin':
        extra = enc_bool(t.environ.remove)
    return (kind, t.pos, bool(t.pos_fix), t.txt, extra)
