"""Adapters that run the real implementation (/repo working tree) in-process."""
import sys, os, io, signal, traceback, types

REPO = os.environ.get('YALAFI_REPO', '/repo')

_loaded = {}

def load():
    """import yalafi from REPO (once per process)"""
    if 'mods' in _loaded:
        return _loaded['mods']
    if REPO not in sys.path:
        sys.path.insert(0, REPO)
    for k in list(sys.modules):
        if k == 'yalafi' or k.startswith('yalafi.'):
            del sys.modules[k]
    import yalafi, yalafi.tex2txt, yalafi.utils, yalafi.parser, yalafi.defs, yalafi.parameters, yalafi.scanner
    assert os.path.abspath(yalafi.__file__).startswith(os.path.abspath(REPO)), yalafi.__file__
    m = types.SimpleNamespace(tex2txt=yalafi.tex2txt, utils=yalafi.utils, parser=yalafi.parser,
                              defs=yalafi.defs, parameters=yalafi.parameters, scanner=yalafi.scanner)
    _loaded['mods'] = m
    return m

class Timeout(Exception):
    pass

def _alarm(signum, frame):
    raise Timeout()

def crash_site(tb):
    """innermost frame inside yalafi/ as file:function"""
    site = None
    for fr in traceback.extract_tb(tb):
        fn = fr.filename.replace('\\', '/')
        if '/yalafi/' in fn:
            site = os.path.basename(fn) + ':' + fr.name
    return site or 'outside'

def guarded(fn, timeout=10):
    """run fn() capturing stderr, exceptions, SystemExit, timeouts"""
    try:
        return _guarded(fn, timeout)
    except Timeout:
        # the alarm went off while another outcome was being recorded (formatting a traceback on a loaded machine):
        # that is a time-out as well; _guarded has restored stderr and the signal handler in its finally clause
        signal.alarm(0)
        return {'outcome': 'timeout', 'value': None, 'site': None, 'exc': None, 'stderr': ''}

def _guarded(fn, timeout=10):
    old_err = sys.stderr
    sys.stderr = io.StringIO()
    old_handler = signal.signal(signal.SIGALRM, _alarm)
    signal.alarm(timeout)
    res = {'outcome': 'ok', 'value': None, 'site': None, 'exc': None}
    try:
        res['value'] = fn()
    except Timeout:
        res['outcome'] = 'timeout'
    except SystemExit as e:
        res['outcome'] = 'fatal'
        res['exc'] = 'SystemExit(%r)' % (e.code,)
    except RecursionError:
        res['outcome'] = 'recursion'
    except BaseException as e:
        res['outcome'] = 'crash'
        res['site'] = crash_site(e.__traceback__)
        res['exc'] = '%s: %s' % (type(e).__name__, e)
        res['trace'] = ''.join(traceback.format_exception(type(e), e, e.__traceback__)[-6:])
    finally:
        signal.alarm(0)
        signal.signal(signal.SIGALRM, old_handler)
        res['stderr'] = sys.stderr.getvalue()
        sys.stderr = old_err
    return res

def make_options(m, o):
    """o: dict with keys lang pack dcls defs extr seqs nosp repl unkn"""
    return m.tex2txt.Options(lang=o.get('lang') or None, pack=o.get('pack') or None,
                             dcls=o.get('dcls') or None, defs=o.get('defs') or None,
                             extr=o.get('extr') or None, seqs=bool(o.get('seqs')),
                             nosp=bool(o.get('nosp')), repl=o.get('repl') or None,
                             unkn=bool(o.get('unkn')), char=True, **({'ienc': o['ienc']} if o.get('ienc') else {}))

def run_tex2txt(latex, o=None, multi=False, files=None, thresh=None, timeout=10, cap_lines=0):
    """Run tex2txt; capture final token list, unknowns, extracted flows, stderr."""
    m = load()
    o = o or {}
    cap = {}
    orig_gtp, orig_ml, orig_parse = m.utils.get_txt_pos, m.utils.get_txt_pos_ml, m.parser.Parser.parse
    orig_open = getattr(m.tex2txt, 'open', None)
    files = files or {}
    def fake_open(file, *a, **k):
        if isinstance(file, str) and file in files:
            v = files[file]
            if isinstance(v, dict):
                # a file given by its bytes: decoded as open(file, encoding=...) would (may raise UnicodeDecodeError on read)
                return io.TextIOWrapper(io.BytesIO(bytes.fromhex(v['hex'])), encoding=k.get('encoding') or 'utf-8')
            return io.StringIO(v)
        raise FileNotFoundError(file)
    def gtp(toks):
        if 'toks' not in cap:
            cap['toks'] = list(toks)
        return orig_gtp(toks)
    def gml(toks, main_lang, parms):
        cap['toks'] = list(toks)
        cap['lang_change'] = {k: list(v.lang_change_repl) for k, v in parms.parser_lang_settings.items()}
        return orig_ml(toks, main_lang, parms)
    def parse(self, *a, **k):
        cap['parser'] = self
        cap['init_ids'] = {id(v) for v in self.the_macros.values()}
        return orig_parse(self, *a, **k)
    # how often is each macro expanded?  (a macro defined by the document itself that is expanded thousands of
    # times in a short text calls itself or multiplies its arguments: outside the claim of C07)
    orig_ea = m.parser.Parser.expand_arguments
    cap['count'] = {}
    def ea(self, buf, mac, start):
        k = (mac.name, id(mac) not in cap.get('init_ids', ()))
        cap['count'][k] = cap['count'].get(k, 0) + 1
        return orig_ea(self, buf, mac, start)
    m.parser.Parser.expand_arguments = ea
    orig_rpal = m.parser.Parser.remove_pure_action_lines
    cap['lines'] = []
    def rpal(self, tokens):
        if len(cap['lines']) < cap_lines and any(type(t).__name__ == 'ActionToken' for t in tokens):
            import proto
            try:
                cap['lines'].append([proto.tok_of_obj(t) for t in tokens])
            except Exception:
                pass
        return orig_rpal(self, tokens)
    if cap_lines:
        m.parser.Parser.remove_pure_action_lines = rpal
    def call():
        opts = make_options(m, o)
        mod = None
        if thresh is not None:
            def mod(parms):
                parms.ml_continue_thresh = thresh
        return m.tex2txt.tex2txt(latex, opts, multi_language=multi, modify_parms=mod)
    m.utils.get_txt_pos, m.utils.get_txt_pos_ml, m.parser.Parser.parse = gtp, gml, parse
    m.tex2txt.open = fake_open
    try:
        res = guarded(call, timeout)
    finally:
        m.utils.get_txt_pos, m.utils.get_txt_pos_ml, m.parser.Parser.parse = orig_gtp, orig_ml, orig_parse
        m.parser.Parser.remove_pure_action_lines = orig_rpal
        m.parser.Parser.expand_arguments = orig_ea
        if orig_open is None:
            del m.tex2txt.open
        else:
            m.tex2txt.open = orig_open
    res['toks'] = cap.get('toks')
    if cap['count']:
        (nm, docdef), cnt = max(cap['count'].items(), key=lambda kv: kv[1])
        res['hot'] = (nm, docdef, cnt)
    p = cap.get('parser')
    res['unknowns'] = list(p.unknowns) if p is not None and hasattr(p, 'unknowns') else None
    res['lang_change'] = cap.get('lang_change')
    res['lines_inputs'] = cap.get('lines')
    return res

def parse_stderr(text):
    """latex_error diagnostics as (line, col, message)"""
    import re
    out = []
    for mm in re.finditer(r'\*\*\* LaTeX error: line (\d+), column (\d+):\n\*\*\* (.*)\n', text):
        out.append((int(mm.group(1)), int(mm.group(2)), mm.group(3)))
    return out
