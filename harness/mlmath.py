"""Multi-language documents with maths in several languages (C10, C11): the placeholders of one
language are taken in turn from that language's own collection, so the sequence a language receives
does not depend on the formulas that stand in text of other languages.  Metamorphic oracle: the
per-language placeholder sequence of the full document equals that of the document in which the
formulas of all other languages are replaced by plain words."""
import re, impl

LANGS = {'en': ('en-GB', 'english'), 'de': ('de-DE', 'german'), 'ru': ('ru-RU', 'russian')}

_PH = {}
def placeholders(code):
    if code not in _PH:
        m = impl.load()
        p = m.parameters.Parameters(code)
        _PH[code] = (list(p.lang_context.math_repl_inline), list(p.lang_context.math_repl_display))
    return _PH[code]

def _word(rng):
    return 'Q' + ''.join(rng.choice('abcdefghijklmnopqrstuvwxyz') for _ in range(rng.randint(2, 4)))

def make(rng, display):
    main = rng.choice(list(LANGS))
    segs = []
    for _ in range(rng.randint(2, 5)):
        l = rng.choice(list(LANGS))
        items = []
        for _ in range(rng.randint(1, 4)):
            r = rng.random()
            if r < 0.45:
                items.append(('w', _word(rng)))
            elif display and r < 0.8:
                items.append(('d', rng.choice(['a = b', 'x + y = z.', 'a &= b \\\\ c &= d,', 'f(x)'])))
            else:
                items.append(('i', rng.choice(['x', 'a_1', 'x+y,', '\\alpha.', 'f(x)'])))
        segs.append((l, rng.choice(['other', 'other', 'foreign']) if l != main else 'main', items))
    return {'main': main, 'segs': segs, 'display': display}

def render(doc, keep=None):
    """keep = language whose formulas stay (None: all)"""
    out = ['\\usepackage{babel}\n']
    for (l, how, items) in doc['segs']:
        body = []
        for (t, x) in items:
            if t == 'w':
                body.append(x)
            elif keep is not None and l != keep:
                body.append('Qzz')
            elif t == 'i':
                body.append('$' + x + '$')
            else:
                env = 'align' if '&' in x else 'equation'
                if how == 'foreign':
                    body.append('$' + x.replace('&', '').replace('\\\\', '') + '$')
                else:
                    body.append('\n\\begin{%s}\n%s\n\\end{%s}\n' % (env, x, env))
        txt = ' '.join(body)
        if how == 'main':
            out.append(txt + '\n')
        elif how == 'foreign':
            out.append('\\foreignlanguage{%s}{%s}\n' % (LANGS[l][1], txt))
        else:
            out.append('\\begin{otherlanguage}{%s}\n%s\n\\end{otherlanguage}\n' % (LANGS[l][1], txt))
    return ''.join(out)

def sequences(res, doc):
    """per language: placeholders in the order of the parts"""
    seqs = {}
    if res['outcome'] != 'ok':
        return None
    for lang, parts in res['parts']:
        code = lang[:2].lower()
        if code not in LANGS:
            continue
        inl, dsp = placeholders(code)
        alts = sorted(set(inl + dsp), key=len, reverse=True)
        rx = re.compile('|'.join(re.escape(a) for a in alts))
        s = []
        for (t, p) in parts:
            s += rx.findall(t)
        seqs[code] = s
    return seqs

def cases_of(doc):
    base = {'opts': {'lang': LANGS[doc['main']][0], 'pack': '*'}, 'multi': True, 'thresh': 2, 'kind': 'mlmath', 'words': None}
    full = dict(base, src=render(doc))
    per = {l: dict(base, src=render(doc, keep=l)) for l in LANGS}
    return full, per

def judge(doc, rfull, rper):
    sf = sequences(rfull, doc)
    if sf is None:
        return []
    for l in LANGS:
        sl = sequences(rper[l], doc)
        if sl is None:
            continue
        a, b = sf.get(l, []), sl.get(l, [])
        if a != b:
            return ['multi-language: the %s text receives the placeholders %r; with the formulas of the other languages replaced by words it receives %r'
                    % (l, a, b)]
    return []
