"""Multi-language documents with maths in several languages (C10, C11): the placeholders of one
language are taken in turn from that language's own collection, so the sequence a language receives
does not depend on the formulas that stand in text of other languages.  Metamorphic oracle: the
per-language placeholder sequence of the full document equals that of the document in which the
formulas of all other languages are replaced by plain words."""
import re, impl

LANGS = {'en': ('en-GB', 'english'), 'de': ('de-DE', 'german'), 'ru': ('ru-RU', 'russian')}

_PH = {}
def placeholders(code):
    if code not in _PH:
        m = impl.load()
        p = m.parameters.Parameters(code)
        _PH[code] = (list(p.lang_context.math_repl_inline), list(p.lang_context.math_repl_display))
    return _PH[code]

def _word(rng):
    return 'Q' + ''.join(rng.choice('abcdefghijklmnopqrstuvwxyz') for _ in range(rng.randint(2, 4)))

def make(rng, display):
    main = rng.choice(list(LANGS))
    segs = []
    for _ in range(rng.randint(2, 5)):
        l = rng.choice(list(LANGS))
        items = []
        for _ in range(rng.randint(1, 4)):
            r = rng.random()
            if r < 0.12:
                # a detached flow inside the segment: its extraction issues a hard language token for the current language
                items.append(('f', _word(rng)))
            elif r < 0.45:
                items.append(('w', _word(rng)))
            elif display and r < 0.8:
                items.append(('d', rng.choice(['a = b', 'x + y = z.', 'a &= b \\\\ c &= d,', 'f(x)'])))
            else:
                items.append(('i', rng.choice(['x', 'a_1', 'x+y,', '\\alpha.', 'f(x)'])))
        segs.append((l, rng.choice(['other', 'other', 'foreign']) if l != main else 'main', items))
    return {'main': main, 'segs': segs, 'display': display}

def render(doc, keep=None):
    """keep = language whose formulas stay (None: all)"""
    out = ['\\usepackage{babel}\n']
    for (l, how, items) in doc['segs']:
        body = []
        for (t, x) in items:
            if t == 'w':
                body.append(x)
            elif t == 'f':
                body.append('Qfn\\footnote{' + x + '}')
            elif keep is not None and l != keep:
                body.append('Qzz')
            elif t == 'i':
                body.append('$' + x + '$')
            else:
                env = 'align' if '&' in x else 'equation'
                if how == 'foreign':
                    body.append('$' + x.replace('&', '').replace('\\\\', '') + '$')
                else:
                    body.append('\n\\begin{%s}\n%s\n\\end{%s}\n' % (env, x, env))
        txt = ' '.join(body)
        if how == 'main':
            out.append(txt + '\n')
        elif how == 'foreign':
            out.append('\\foreignlanguage{%s}{%s}\n' % (LANGS[l][1], txt))
        else:
            out.append('\\begin{otherlanguage}{%s}\n%s\n\\end{otherlanguage}\n' % (LANGS[l][1], txt))
    return ''.join(out)

def sequences(res, doc):
    """per language: placeholders in the order of the parts"""
    seqs = {}
    if res['outcome'] != 'ok':
        return None
    for lang, parts in res['parts']:
        code = lang[:2].lower()
        if code not in LANGS:
            continue
        inl, dsp = placeholders(code)
        alts = sorted(set(inl + dsp), key=len, reverse=True)
        rx = re.compile('|'.join(re.escape(a) for a in alts))
        # (neither the parts of one language nor the pieces joined into one part are in source order: order the
        #  placeholders by the position they are mapped to)
        occ = []
        for (t, p) in parts:
            occ += [(p[mm.start()], mm.group(0)) for mm in rx.finditer(t)]
        s = [ph for _, ph in sorted(occ, key=lambda e: e[0])]
        seqs[code] = s
    return seqs

def cases_of(doc):
    base = {'opts': {'lang': LANGS[doc['main']][0], 'pack': '*'}, 'multi': True, 'thresh': 2, 'kind': 'mlmath', 'words': None}
    full = dict(base, src=render(doc))
    per = {l: dict(base, src=render(doc, keep=l)) for l in LANGS}
    return full, per

def judge_direct(doc, rfull):
    """inline formulas only: the k-th formula standing in text of a language receives entry k mod n (k = 1, 2, ...) of that language's
    inline collection (the document starts with fresh collections)"""
    sf = sequences(rfull, doc)
    if sf is None or doc['display']:
        return []
    for l in LANGS:
        k = sum(1 for (ll, how, items) in doc['segs'] if ll == l for (t, x) in items if t == 'i')
        inl = placeholders(l)[0]
        want = [inl[(i + 1) % len(inl)] for i in range(k)]      # the collection is rotated before use
        if sf.get(l, []) != want:
            return ['multi-language: the %d inline formulas in %s text must be rendered as %r in turn, got %r' % (k, l, want, sf.get(l, []))]
    return []

def judge(doc, rfull, rper):
    sf = sequences(rfull, doc)
    if sf is None:
        return []
    f = judge_direct(doc, rfull)
    if f:
        return f
    for l in LANGS:
        sl = sequences(rper[l], doc)
        if sl is None:
            continue
        a, b = sf.get(l, []), sl.get(l, [])
        if a != b:
            return ['multi-language: the %s text receives the placeholders %r; with the formulas of the other languages replaced by words it receives %r'
                    % (l, a, b)]
    return []
