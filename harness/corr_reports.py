"""Correspondence of the POSITION ARITHMETIC of the report generators with the Lean model (Model/Reports.lean).

The real functions are run in-process, unchanged, with stub `vars` (as harness/corr_html.py does):
  * `gentext.output_text_report`, `genxml.output_xml_report` (character and byte mode), `genjson.output_json` on one
    match each; what they write is parsed (`Line L, column C`; the attributes `fromy fromx toy tox`; `offset`, `length`,
    `priv` of the JSON) and compared with the model's answer (driver op REPORTS = `map_match_position` followed by the
    arithmetic, op LOCATE = the arithmetic alone);
  * kinds of cases: `mapped` (random position maps: the composition with `map_match_position`), `identity`
    (map `1..len(tex)`: the mapping is the identity up to its clamping), `crafted` (a two-entry map that sends the match
    to a chosen offset >= -1 / end >= -1, also behind the end of the text: everything `map_match_position` can deliver),
    `patched` (`utils.map_match_position` replaced by the identity for the call: ANY int offset / length reaches the
    arithmetic of the generators, e.g. ends below -1);
  * `tex2txt.write_output` with in-memory files (op NUMS), `tex2txt.translate_numbers` (op TRANSNUM).
"""
import io, re, json, copy
import impl, proto, model
from corr import pmap_retry
from corr_shell import enc_ints, enc_j, py_j

# line breaks (frequent), empty lines, non-ASCII (2, 3 bytes), astral characters (4 bytes), characters that
# str.splitlines() cuts at but '\n'-counting does not (CR, U+2028, VT, FF, NEL), backslashes with / without a macro name
ATOMS = ['\n', '\n', '\n', '\n\n', 'a', 'b', ' ', 'word', '\xe4', '\xf6\xdf', '\u20ac', '\U0001d11e', '\U0001f600x', '\r', '\r\n', '\u2028', 'a\u2028b', '\x0b', '\x0c',
         '\x85', '\t', '\\', '\\alpha', '\\b ', '\\\\', '{', '}', '$', '%', '\x00', '\ud7ff', '\ue000', '\U0010ffff', '\xe9\xb2', '\x7f', '\x80', '\u07ff', '\u0800', '\uffff', '\U00010000']

def gen_tex(rng):
    m = rng.random()
    if m < 0.03:
        tex = ''
    elif m < 0.08:
        tex = rng.choice(['\n', '\n\n', 'a', 'abc', 'abc\n', '\xe4\n\u20ac', '\\', '\\a', '\U0001d11e'])
    else:
        tex = ''.join(rng.choice(ATOMS) for _ in range(rng.randint(1, 16)))
    if rng.random() < 0.5 and not tex.endswith('\n'):
        tex += '\n'         # what proofreader.py hands over; the rest: no final line break
    return tex

def gen_report_case(rng):
    tex = gen_tex(rng)
    L = len(tex)
    kind = rng.choice(['mapped', 'mapped', 'identity', 'crafted', 'patched'])
    ln = None
    if kind == 'identity':
        cm = list(range(1, L + 1)) or [1]
        off = rng.choice([0, L - 1, L, L + 2, -1, -3, rng.randint(0, max(0, L))])
        ln = rng.choice([0, 1, 1, 2, 5, L, L + 3, -1, -4, L - off])
    elif kind == 'mapped':
        k = rng.randint(1, 20)
        r = rng.random()
        if r < 0.4:
            # as the filter makes them: 1-based, increasing with jumps, padded with the last position
            cm, p = [], rng.randint(1, max(1, L // 2 + 1))
            for _ in range(k):
                cm.append(min(p, max(1, L)))
                p += rng.choice([1, 1, 1, 1, 2, 3, 7])
            cm += [cm[-1], cm[-1]]
        elif r < 0.6:
            cm = [rng.randint(1, max(1, L)) for _ in range(k)]
        elif r < 0.8:
            cm = [rng.choice([1, 1, -1]) * rng.randint(1, max(1, L)) for _ in range(k)]
        else:
            cm = [rng.choice([1, 1, -1]) * rng.randint(0, L + 3) for _ in range(k)]     # zero, behind the end
        if rng.random() < 0.02:
            cm = []
        off = rng.randint(-2, len(cm) + 2)
        ln = rng.choice([0, 0, 1, 1, 2, 3, len(cm), -1, -2, rng.randint(-3, len(cm) + 3)])
    elif kind == 'crafted':
        o = rng.choice([-1, 0, L - 1, L, L + 1, L + 5, rng.randint(-1, L + 2)])
        e = rng.choice([-1, 0, o - 1, o, o + 1, L - 1, L, L + 4, rng.randint(-1, L + 2)])
        e = max(e, -1)
        sg = rng.choice([1, 1, -1])
        cm = [sg * (o + 1), rng.choice([1, -1]) * (e + 1)]
        off, ln = 0, 2
    else:
        cm = [1]
        off = rng.choice([-1, -2, -L, -L - 1, -L - 5, 0, L, L + 3, rng.randint(-L - 3, L + 3), 10 ** 12, -10 ** 12])
        ln = rng.choice([0, 1, 2, -1, -2, -off, -off - 1, -off - L, L, rng.randint(-L - 3, L + 3), 10 ** 12])
    if kind != 'patched' and rng.random() < 0.05:
        lj = rng.choice(['missing', 'true', 'false'])       # other types are rejected by json_get before the call
    else:
        lj = ('int', ln)
    return (kind, tex, cm, off, lj)

FILE = 'd.tex'
LINE = re.compile(r'^1\.\) Line (-?\d+), column (-?\d+), Rule ID: R\n', re.M)
XERR = re.compile(r'<error fromy="(-?\d+)" fromx="(-?\d+)" toy="(-?\d+)" tox="(-?\d+)" ')

def setup():
    import importlib
    m = impl.load()
    mods = {n: importlib.import_module('yalafi.shell.' + n) for n in ('utils', 'gentext', 'genxml', 'genjson')}
    class C: pass
    cmd = C(); cmd.file = [FILE]; cmd.server = ''
    def json_get(dic, item, typ):
        if not isinstance(dic, dict) or not isinstance(dic.get(item), typ):
            raise SystemExit(1)
        return dic.get(item)
    v = C(); v.cmdline = cmd; v.json_get = json_get; v.msg_LT_server_txt = ''
    mods['gentext'].init(v); mods['genxml'].init(v)
    return m, mods, json_get

def impl_report(case):
    kind, tex, cm, off, lj = case
    m, mods, json_get = setup()
    su = mods['utils']
    def match():
        d = {'offset': off, 'message': 'M', 'rule': {'id': 'R', 'category': {'name': 'C'}}, 'replacements': [{'value': 'v'}],
             'context': {'text': 'ctx', 'offset': 0, 'length': 1}}
        if lj != 'missing':
            d['length'] = py_j(lj)
        return d
    orig = su.map_match_position
    if kind == 'patched':
        su.map_match_position = lambda mm, latex, charmap: mm
    def f():
        res = {}
        out = io.StringIO()
        mods['gentext'].output_text_report(tex, 'plain', list(cm), [match()], FILE, out)
        g = LINE.findall(out.getvalue())
        assert len(g) == 1, 'text report not understood: %r' % out.getvalue()[:200]
        res['text'] = [int(x) for x in g[0]]
        for byte in (False, True):
            out = io.StringIO()
            mods['genxml'].output_xml_report(tex, 'plain', list(cm), [match()], byte, FILE, out)
            g = XERR.findall(out.getvalue())
            assert len(g) == 1 and out.getvalue().count('<error ') == 1, 'xml report not understood: %r' % out.getvalue()[:200]
            res['xmlb' if byte else 'xml'] = [int(x) for x in g[0]]
        out = io.StringIO()
        mods['genjson'].output_json(tex, 'plain', list(cm), [match()], json_get, FILE, out)
        ms = json.loads(out.getvalue())['matches']
        assert len(ms) == 1
        p = ms[0]['priv']
        res['json'] = [p['fromy'], p['fromx'], p['toy'], p['tox']]
        res['ol'] = [ms[0]['offset'], ms[0]['length']]
        # the answer of the server emulation: map_match_position alone
        r = su.map_match_position(match(), tex, list(cm))
        res['server'] = [r['offset'], r['length']]
        return res
    try:
        return impl.guarded(f)
    finally:
        su.map_match_position = orig

def report_requests(cases, tag):
    reqs = []
    for i, (kind, tex, cm, off, lj) in enumerate(cases):
        if kind == 'patched':
            reqs.append(('LOCATE', '%s%d' % (tag, i), [proto.enc_str(tex), str(off), str(lj[1])]))
        else:
            reqs.append(('REPORTS', '%s%d' % (tag, i), [enc_ints(cm), proto.enc_str(tex), str(off)] + enc_j(lj)))
    return reqs

def compare_report(ctx, c, r, a):
    ctx.corr['cases'] += 1
    ctx.count('reports_%s_%s' % (c[0], r['outcome']))
    if a[0] == 'ok':
        if r['outcome'] != 'ok':
            ctx.disagree('reports: model ok / impl %s %s' % (r['outcome'], r.get('exc')), case=c); return
        v = [int(x) for x in a[1:]]
        mv = {'ol': v[0:2], 'server': v[0:2], 'text': v[2:4], 'json': v[4:8], 'xml': v[8:12], 'xmlb': v[12:16]}
        iv = r['value']
        for k in ('ol', 'server', 'text', 'json', 'xml', 'xmlb'):
            if mv[k] != list(iv[k]):
                ctx.disagree('reports: %s: model %r / impl %r' % (k, mv[k], iv[k]), case=c); return
    elif a[0] == 'crash':
        if r['outcome'] != 'crash':
            ctx.disagree('reports: model crash %s / impl %s %r' % (a[1:], r['outcome'], r.get('value')), case=c)
    elif a[0] == 'fatal':
        if r['outcome'] != 'fatal':
            ctx.disagree('reports: model fatal / impl %s' % r['outcome'], case=c)
    else:
        ctx.disagree('reports: model %r' % a[:3], case=c)

# ---- write_output ----------------------------------------------------------

def gen_nums(rng):
    k = rng.choice([0, 1, 2, 5, 12])
    return [rng.choice([0, 1, -1, 9, 10, -10, 99, 100, 12345, -10 ** 30, 10 ** 30, rng.randint(-200, 200)]) for _ in range(k)]

def impl_nums(nums):
    m = impl.load()
    def f():
        ft, fn = io.StringIO(), io.StringIO()
        txt = 'x' * len(nums)
        m.tex2txt.write_output((txt, list(nums)), ft, fn)
        assert ft.getvalue() == txt
        return fn.getvalue()
    return impl.guarded(f)

# ---- translate_numbers -----------------------------------------------------

def gen_trans(rng):
    tex = gen_tex(rng)
    plain = ''.join(rng.choice(['\n', '\n', 'a', 'b', ' ', '\xe4', '\U0001d11e', '\r', '\u2028', 'cd']) for _ in range(rng.randint(0, 12)))
    L, P = len(tex), len(plain)
    r = rng.random()
    if r < 0.6:
        cm = [rng.choice([1, 1, 1, -1]) * rng.randint(1, max(1, L)) for _ in range(P)]
    elif r < 0.8:
        cm = [rng.choice([1, -1]) * rng.randint(0, L + 2) for _ in range(rng.randint(0, P + 2))]
    else:
        cm = sorted(rng.randint(1, max(1, L)) for _ in range(P))
    if rng.random() < 0.85:
        starts = None           # get_line_starts(plain), what the callers pass
    else:
        starts = sorted(rng.randint(0, P + 2) for _ in range(rng.randint(0, 4)))
    nl = plain.count('\n') + 1
    if rng.random() < 0.6 and plain:
        # a character of the plain text (line break included: the column behind the line)
        p = rng.randrange(P)
        lin = plain.count('\n', 0, p) + 1
        col = p - (plain.rfind('\n', 0, p) + 1) + 1
    else:
        lin = rng.choice([0, -1, 1, nl, nl + 1, rng.randint(1, nl + 1)])
        col = rng.choice([0, -2, 1, 1, 2, 3, rng.randint(1, 8), P + 1])
    return (tex, plain, cm, starts, lin, col)

def impl_trans(case):
    tex, plain, cm, starts, lin, col = case
    m = impl.load()
    def f():
        st = m.tex2txt.get_line_starts(plain) if starts is None else list(starts)
        r = m.tex2txt.translate_numbers(tex, plain, list(cm), st, lin, col)
        if r is None:
            return [st, None]
        assert isinstance(r.flag, bool)
        return [st, [r.lin, r.col, r.flag]]
    return impl.guarded(f)

# ---- entry -----------------------------------------------------------------

def locate_corr(ctx, n):
    """the three reports (and the answer of the server emulation)"""
    cases = [gen_report_case(ctx.rng) for _ in range(n)]
    if not ctx.model_ok:
        return
    res = pmap_retry(ctx, impl_report, cases)
    ans = model.run_batch(report_requests(cases, 'r'))
    for i, (c, r) in enumerate(zip(cases, res)):
        compare_report(ctx, c, r, ans['r%d' % i])

def nums_corr(ctx, n):
    """--nums file"""
    nums = [gen_nums(ctx.rng) for _ in range(n)]
    if not ctx.model_ok:
        return
    res = pmap_retry(ctx, impl_nums, nums)
    ans = model.run_batch([('NUMS', 'n%d' % i, [enc_ints(c)]) for i, c in enumerate(nums)])
    for i, (c, r) in enumerate(zip(nums, res)):
        a = ans['n%d' % i]
        ctx.corr['cases'] += 1
        ctx.count('nums_' + r['outcome'])
        if a[0] != 'ok' or r['outcome'] != 'ok':
            ctx.disagree('write_output: model %r / impl %s %s' % (a[:1], r['outcome'], r.get('exc')), case=c); continue
        k = int(a[1])
        lines = [proto.dec_str(x) for x in a[2:2 + k]]
        fil = proto.dec_str(a[2 + k])
        want = r['value']
        if fil != want or ''.join(l + '\n' for l in lines) != want or k != len(c):
            ctx.disagree('write_output: model %r / impl %r' % (fil, want), case=c)

def trans_corr(ctx, n):
    """translate_numbers"""
    trs = [gen_trans(ctx.rng) for _ in range(n)]
    if not ctx.model_ok:
        return
    res = pmap_retry(ctx, impl_trans, trs)
    reqs = []
    for i, (c, r) in enumerate(zip(trs, res)):
        if r['outcome'] != 'ok':
            continue
        tex, plain, cm, starts, lin, col = c
        reqs.append(('TRANSNUM', 't%d' % i, [proto.enc_str(tex), proto.enc_str(plain), enc_ints(cm), proto.enc_nats(r['value'][0]), str(lin), str(col)]))
    ans = model.run_batch(reqs)
    for i, (c, r) in enumerate(zip(trs, res)):
        ctx.corr['cases'] += 1
        if r['outcome'] != 'ok':
            ctx.disagree('translate_numbers: impl %s %s' % (r['outcome'], r.get('exc')), case=c); continue
        a = ans['t%d' % i]
        want = r['value'][1]
        ctx.count('transnum_' + ('none' if want is None else 'some'))
        if a[0] != 'ok':
            ctx.disagree('translate_numbers: model %r' % a[:2], case=c)
        elif a[1] == 'none':
            if want is not None:
                ctx.disagree('translate_numbers: model None / impl %r' % (want,), case=c)
        else:
            got = [int(a[2]), int(a[3]), a[4] != '0']
            if want is None or got != want:
                ctx.disagree('translate_numbers: model %r / impl %r' % (got, want), case=c)

def reports_corr(ctx, n):
    n_nums = max(1, n // 10)
    n_tr = max(1, n // 5)
    locate_corr(ctx, max(1, n - n_nums - n_tr))
    nums_corr(ctx, n_nums)
    trans_corr(ctx, n_tr)
