"""C18 — extraction and inclusion tracking find exactly the included files, each once."""
import re, json, random
import t2t, corr, gen, shellrun, impl

OBLIGATIONS = ['Yalafi.C18_include_nodup', 'Yalafi.C18_include_closed', 'Yalafi.C18_include_reachable', 'Yalafi.C18_addTex',
               'Yalafi.C18_extract_e2e', 'Yalafi.C18_extract_exact', 'Yalafi.C18_extract_listed', 'Yalafi.C18_extract_decls', 'Yalafi.C18_extract_footnote_current', 'Yalafi.C18_extract_foo_current', 'Yalafi.C18_extract_mixed_current', 'Yalafi.C18_extract_foo_example_current', 'Yalafi.C18_extract_footnote_example_current',
               'Yalafi.C18_include_terminates', 'Yalafi.C18_include_bfs', 'Yalafi.C18_include_order_unique', 'Yalafi.C18_includes_of_document', 'Yalafi.C18_inclList', 'Yalafi.C18_include_system', 'Yalafi.C18_include_files_current', 'Yalafi.C18_include_system_current', 'Yalafi.C18_include_example_current', 'Yalafi.C18_include_skip_example_current', 'Yalafi.C18_include_blank_current', 'Yalafi.C18_include_system_example_current']

# ---- extraction ---------------------------------------------------------------

def gen_extract_doc(rng):
    """words, unknown macros, groups, comments, skipped regions, verbatim; listed macros \\inc / \\incb in all of them"""
    names = gen.Names(rng)
    out = []
    expect = []
    def arg(depth):
        n = rng.randint(1, 3)
        parts = []
        for _ in range(n):
            r = rng.random()
            if r < 0.6 or depth > 2:
                parts.append(names.word())
            elif r < 0.75:
                parts.append('\\zzz{' + arg(depth + 1) + '}')
            elif r < 0.85:
                parts.append('{' + arg(depth + 1) + '}')
            else:
                parts.append(listed(depth + 1))
        return ' '.join(parts)
    cur = {'v': None}
    def listed(depth):
        name = rng.choice(['\\inc', '\\incb'])
        # the argument of a listed macro: plain words (a nested listed macro is reported as well, after it),
        # possibly through a helper macro that is redefined later in the document
        w = [names.word() for _ in range(rng.randint(1, 2))]
        if cur['v'] is not None and rng.random() < 0.5:
            expect.append(w + [cur['v']])
            return name + '{' + ' '.join(w) + ' \\dd}'
        expect.append(w)
        return name + '{' + ' '.join(w) + '}'
    hidden = []
    for _ in range(rng.randint(2, 9)):
        r = rng.random()
        if rng.random() < 0.2:
            cur['v'] = names.word()
            out.append('\\def\\dd{' + cur['v'] + '}\n')
        if r < 0.3:
            out.append(names.word())
        elif r < 0.55:
            out.append(listed(0))
        elif r < 0.7:
            out.append('\\zzz{' + arg(0) + '}')
        elif r < 0.78:
            w = names.word(); hidden.append(w)
            out.append('% \\inc{' + w + '}\n')
        elif r < 0.86:
            w = names.word(); hidden.append(w)
            out.append('%%% LT-SKIP-BEGIN\n\\inc{' + w + '}\n%%% LT-SKIP-END\n')
        elif r < 0.9:
            # inside an environment: a list, a float, an environment whose body is removed from the text (tikzpicture,
            # circuitikz: the package modules are loaded with --pack *), an undeclared one -- a listed macro is reported all the same
            env = rng.choice(['itemize', 'figure', 'tikzpicture', 'tikzpicture', 'circuitikz', 'quote', 'zzzenv', 'center', 'table'])
            out.append('\\begin{%s}%s%s %s\\end{%s}' % (env, '\\item ' if env == 'itemize' else rng.choice([' ', '\n']), listed(0),
                                                       names.word() if env not in ('tikzpicture', 'circuitikz') else '\\draw (0,0);', env))
        elif r < 0.95:
            w = names.word(); hidden.append(w)
            out.append(rng.choice(['\\verb|\\inc{' + w + '}|', '\\begin{verbatim}\n\\inc{' + w + '}\n\\end{verbatim}']))
        else:
            out.append('{' + arg(0) + '}')
        out.append(rng.choice([' ', '\n', '\n\n', ' ']))
    return ''.join(out), expect, hidden

def judge_extract(case, res):
    if res['outcome'] == 'crash':
        return ['extraction ends in %s' % res.get('exc')]
    if res['outcome'] != 'ok':
        return []
    txt = res['txt']
    got = re.findall(r'Q[a-z]+', txt)
    want = [w for ws in case['expect'] for w in ws]
    fails = []
    leak = [w for w in got if w in case['hidden']]
    if leak:
        fails.append('an occurrence in a comment / skipped region / verbatim material / the definitions text is reported: %r' % leak[:3])
    if got != want:
        fails.append('extraction gives %r, the first mandatory arguments of the listed macros are %r' % (got[:10], want[:10]))
    return fails

# ---- --include ------------------------------------------------------------------

def gen_graph(rng, nmax):
    n = rng.randint(1, nmax)
    names = ['f%d' % i for i in range(n)]
    if rng.random() < 0.3:
        names[rng.randrange(n)] = 'sub/g'
    if rng.random() < 0.3:
        names[rng.randrange(n)] = rng.choice(['chap.1', 'sec-1.2', 'v2.intro'])
    files = {}
    edges = {}
    for nm in names:
        inc = [rng.choice(names + ['missing' if False else names[0]]) for _ in range(rng.choice([0, 1, 1, 2, 3]))]
        edges[nm] = inc
        body = 'Text of ' + nm + '.\n'
        for x in inc:
            form = rng.choice(['\\input{%s}', '\\include{%s}', '\\input{%s.tex}', '\\input {%s}'])
            body += form % x + '\n'
        if rng.random() < 0.3:
            body += '% \\input{' + names[0] + 'x}\n'
        files[nm + '.tex'] = body
    roots = [rng.choice(names) + rng.choice(['.tex', '.tex'])]
    if rng.random() < 0.3:
        roots.append(rng.choice(names) + '.tex')
    skip = rng.choice([None, None, names[-1] + '\\.tex', 'sub/.*', 'f[12]\\.tex'])
    return files, edges, roots, skip

def ref_include(edges, roots, skip):
    """breadth-first discovery order, each file once, without skipped files"""
    def sk(f):
        return skip is not None and re.search(r'\A' + skip + r'\Z', f) is not None
    done, todo = [], list(roots)
    while todo:
        f = todo.pop(0)
        if f in done or sk(f):
            continue
        done.append(f)
        for x in edges.get(f[:-4], []):
            g = x if x.endswith('.tex') else x + '.tex'
            if g not in done and g not in todo and not sk(g):
                todo.append(g)
    return done

def run_include(case):
    args = ['--include', '--output', 'plain']
    if case['skip']:
        args += ['--skip', case['skip']]
    return shellrun.run_shell({'files': case['files'], 'main': case['roots'], 'args': args, 'spec': {}})

def judge_include(case, r):
    if r['rc'] != 0:
        return ['shell --include failed with exit status %d: %s' % (r['rc'], r['stderr'][-200:])]
    m = re.search(r'=== checking for file inclusions \.\.\. (.*)\n', r['stderr'])
    got = [x for x in m.group(1).split(', ') if x] if m else None
    want = ref_include(case['edges'], case['roots'], case['skip'])
    checked = re.findall(r'^=== (.*)$', r['stderr'], flags=re.M)
    checked = [c for c in checked if not c.startswith('checking for')]
    fails = []
    if got != want:
        fails.append('--include works on %r, the files reachable in discovery order are %r' % (got, want))
    elif checked != want:
        fails.append('files actually checked %r differ from the work list %r' % (checked, want))
    return fails

def impl_include_model(ctx, cases):
    import model, proto
    if not ctx.model_ok:
        return
    reqs = []
    for i, c in enumerate(cases):
        g = []
        allf = set(c['roots'])
        for f, inc in c['edges'].items():
            allf.add(f + '.tex')
            for x in inc:
                allf.add(x if x.endswith('.tex') else x + '.tex')
        graph = []
        for f in sorted(allf):
            inc = [x if x.endswith('.tex') else x + '.tex' for x in c['edges'].get(f[:-4], [])]
            graph.append((f, inc))
        skipped = [f for f in sorted(allf) if c['skip'] and re.search(r'\A' + c['skip'] + r'\Z', f)]
        fl = proto.enc_list(graph, lambda e: [proto.enc_str(e[0])] + proto.enc_list(e[1], lambda s: [proto.enc_str(s)]))
        fl += proto.enc_list(skipped, lambda s: [proto.enc_str(s)]) + proto.enc_list(c['roots'], lambda s: [proto.enc_str(s)])
        reqs.append(('INCLUDE', 'i%d' % i, fl))
    ans = model.run_batch(reqs)
    for i, c in enumerate(cases):
        a = ans['i%d' % i]
        ctx.corr['cases'] += 1
        want = ref_include(c['edges'], c['roots'], c['skip'])
        if a[0] != 'ok':
            ctx.disagree('include model: %r' % a[:1], case=c['roots']); continue
        got = [proto.dec_str(x) for x in a[2:]]
        r = c.get('_res')
        implgot = None
        if r is not None:
            m = re.search(r'=== checking for file inclusions \.\.\. (.*)\n', r['stderr'])
            implgot = [x for x in m.group(1).split(', ') if x] if m else None
        if implgot is not None and got != implgot:
            ctx.disagree('include work list: model %r / implementation %r' % (got, implgot), roots=c['roots'], edges=c['edges'], skip=c['skip'])

def run(ctx):
    rng = ctx.rng
    # extraction
    ecases = []
    for _ in range(ctx.scale(700, 20000)):
        src, expect, hidden = gen_extract_doc(rng)
        opts = {'pack': rng.choice(['*', '']), 'extr': 'inc,incb'}
        if rng.random() < 0.2:
            # a definitions text that uses a listed macro itself: what it names belongs to the definitions, not to the document
            hw = gen.Names(rng).word() + 'def'
            opts['defs'] = '\\newcommand{\\zq}{z}\n\\inc{' + hw + '}\n'
            hidden = hidden + [hw]
        if rng.random() < 0.25:
            # listed macros that have no mandatory argument at all: nothing of them is reported
            hw = gen.Names(rng).word() + 'opt'
            src = src + rng.choice([' ', '\n']) + rng.choice(['\\LaTeX{} ', '\\footnotemark[' + hw + '] ', '\\TeX{} \\footnotemark[' + hw + ']'])
            opts['extr'] = 'inc,incb,LaTeX,TeX,footnotemark'
            hidden = hidden + [hw]
        ecases.append({'src': src, 'opts': opts, 'multi': False, 'kind': 'extract',
                       'expect': expect, 'hidden': hidden})
    ctx.stats['_rule'] = ('(a) documents with listed and unlisted macros in text, arguments of unknown macros, groups, comments, skipped regions, '
                          'verbatim material, run with an extraction list; (b) inclusion graphs over 1-%d files with cycles, self-inclusion, duplicates, '
                          '.tex present/absent, sub-directories, comment lines and --skip patterns, materialised in a temp directory and run through '
                          '`yalafi.shell --include`; reference = breadth-first discovery; non-trivial = graph with at least 2 files / at least one listed macro'
                          % ctx.scale(5, 7))
    res = ctx.pmap(t2t.run_case, [{k: v for k, v in c.items() if k not in ('expect', 'hidden')} for c in ecases])
    for c, r in zip(ecases, res):
        ctx.case(c['src'], nontrivial=len(c['expect']) > 0)
        ctx.count('extract_' + r['outcome']); ctx.count('listed_uses', len(c['expect']))
        fails = judge_extract(c, r)
        if fails:
            ctx.violation(fails[0], src=c['src'], opts=c['opts'], expect=c['expect'], hidden=c['hidden'], kind='extract')
    corr.t2t(ctx, ecases, res, proj=('outcome', 'toks', 'text'), limit=ctx.scale(700, 10000))
    # inclusion graphs
    icases = []
    for _ in range(ctx.scale(60, 1500)):
        files, edges, roots, skip = gen_graph(rng, ctx.scale(5, 7))
        icases.append({'files': files, 'edges': edges, 'roots': roots, 'skip': skip})
    ires = ctx.pmap(run_include, icases, chunksize=1)
    for c, r in zip(icases, ires):
        c['_res'] = r
        ctx.case(json.dumps([c['edges'], c['roots'], c['skip']], sort_keys=True), nontrivial=len(c['files']) >= 2)
        ctx.count('graphs'); ctx.count('graph_files', len(c['files']))
        fails = judge_include(c, r)
        if fails:
            ctx.violation(fails[0], files=c['files'], edges=c['edges'], roots=c['roots'], skip=c['skip'], kind='include')
        if len(ctx.samples) < 3:
            ctx.sample({'edges': c['edges'], 'roots': c['roots'], 'skip': c['skip'], 'checked': ref_include(c['edges'], c['roots'], c['skip'])})
    impl_include_model(ctx, icases)

def judge_witness(w):
    if w.get('kind') == 'include':
        return judge_include(w, run_include(w))
    c = {'src': w['src'], 'opts': w['opts'], 'multi': False, 'expect': w['expect'], 'hidden': w['hidden']}
    return judge_extract(c, t2t.run_case({k: v for k, v in c.items() if k not in ('expect', 'hidden')}))

def replay(data):
    f = judge_witness(data['violation'])
    print('\n'.join(f) if f else 'ok')
    return not f
