"""C05 — text flow is preserved: no paragraph break invented or lost, no words glued."""
import re
import t2t, corr, gen

OBLIGATIONS = ['Yalafi.C05_scanSpace_kind', 'Yalafi.C05_removeLines_noaction_id', 'Yalafi.C05_removeLines_nonblank',
               'Yalafi.C05_removeLines_sublist',
               'Yalafi.C05_vanish_e2e', 'Yalafi.C05_vanish_kept', 'Yalafi.C05_vanish_same_line', 'Yalafi.C05_vanish_no_par',
               'Yalafi.C03_vanish_no_key', 'Yalafi.C05_vanish_e2e_current', 'Yalafi.C05_vanish_example_current',
               'Yalafi.C05_vanish_example_ref', 'Yalafi.C05_vanish_example_eval',
               'Yalafi.C05_mix_nothing_added', 'Yalafi.C05_mix_lines', 'Yalafi.C05_mix_last_line', 'Yalafi.C05_mix_kept',
               'Yalafi.C05_mix2_lines', 'Yalafi.C05_mix2_last_line', 'Yalafi.C05_mix2_nothing_added', 'Yalafi.C05_mix2_kept',
               'Yalafi.C05_paragraph_relation', 'Yalafi.C05_same_paragraph', 'Yalafi.C05_paragraph_relation_current', 'Yalafi.C05_para_example_current', 'Yalafi.C05_para_example_ref', 'Yalafi.C05_para_example_eval', 'Yalafi.C05_par_e2e', 'Yalafi.C05_par_break', 'Yalafi.C05_par_origin', 'Yalafi.C05_par_e2e_current', 'Yalafi.C05_par_break_current', 'Yalafi.C05_par_example_current', 'Yalafi.C05_par_example_ref', 'Yalafi.C05_par_example_eval', 'Yalafi.C05_par_quote_eval',
               'Yalafi.C05_mix3_nothing_added', 'Yalafi.C05_mix3_lines', 'Yalafi.C05_mix3_last_line', 'Yalafi.C05_mix3_kept',
               'Yalafi.C05_paragraph_relation_mix3', 'Yalafi.C05_paragraph_iff_mix3', 'Yalafi.C05_same_paragraph_mix3', 'Yalafi.C05_paragraph_relation_mix3_current', 'Yalafi.C05_same_paragraph_mix3_current', 'Yalafi.C05_para3_example_current', 'Yalafi.C05_para3_example_ref', 'Yalafi.C05_para3_example_eval', 'Yalafi.C05_para3_exception',
               "Yalafi.C05_mix4_nothing_added", "Yalafi.C05_mix4_lines", "Yalafi.C05_mix4_last_line", "Yalafi.C05_mix4_kept"]

# separator atoms: (text, class).  class: 'ws' white space that counts, 'par' paragraph break,
# 'cw' control word (eats following blanks, as in TeX), 'none' vanishing construct, 'cmt' comment
ATOMS = [
    (' ', 'ws'), (' ', 'ws'), ('\n', 'ws'), ('\t', 'ws'), ('  ', 'ws'), ('\n  ', 'ws'), (' \n', 'ws'),
    ('\n\n', 'par'), ('\n \n', 'par'), ('\n\n\n', 'par'), (' \n\t\n ', 'par'),
    ('\\label{k}', 'none'), ('\\index{k}', 'none'), ('\\label {k}', 'none'), ('{}', 'none'), ('\\zzz{}', 'none'),
    ('\\foo', 'cw'), ('\\zzz', 'cw'), ('\\pagestyle{k}', 'none'), ('\\vphantom{k}', 'none'),
    ('% c\n', 'cmt'), ('% c\n  ', 'cmt'), ('%\n', 'cmt'),
    ('%%% LT-SKIP-BEGIN\nhidden \\foo\n\nmore\n%%% LT-SKIP-END\n', 'skip'),
    ('\\begin{comment}', 'none0'),
]
ATOMS = [a for a in ATOMS if a[1] != 'none0']

def gen_sep(rng):
    """a separator between two words with its expected relation, computed by reading it as TeX does"""
    n = rng.choice([1, 1, 2, 2, 3, 4, 5])
    atoms = [rng.choice(ATOMS) for _ in range(n)]
    # make the sequence lexically safe: a control word must not be followed by a letter
    txt = ''
    rel = 'glue'
    eat = False           # directly after a control word: blanks (not blank lines) are skipped
    after_cmt = False     # directly after a comment: the line end and the indentation of the next line are swallowed
    for (s, cl) in atoms:
        if cl == 'cw' and False:
            pass
        if txt and txt[-1].isalpha() and s[:1].isalpha():
            txt += ' '
            if not eat and rel == 'glue':
                rel = 'ws'
        txt += s
        if cl == 'ws':
            if not eat and not after_cmt and rel == 'glue':
                rel = 'ws'
        elif cl == 'par':
            rel = 'par'
            eat = False; after_cmt = False
            continue
        elif cl == 'cw':
            eat = True; after_cmt = False
            continue
        elif cl in ('cmt', 'skip'):
            after_cmt = True; eat = False
            continue
        if cl != 'ws':
            eat = False; after_cmt = False
    return txt, rel, atoms

def relation(between):
    if re.search(r'\n[ \t]*\n', between):
        return 'par'
    if between and between.strip(' \t\n\u00a0') == '' or re.search(r'\s', between):
        return 'ws'
    return 'glue'

def make_case(rng):
    k = rng.randint(2, 7)
    names = gen.Names(rng)
    words = [names.word() for _ in range(k)]
    src = rng.choice(['', '', ' ', '\n', '\\label{k}\n', '% c\n'])
    rels = []
    seps = []
    for i, w in enumerate(words):
        src += w
        if i + 1 < k:
            s, rel, atoms = gen_sep(rng)
            # the next word starts with 'Q': if the separator ends in a control word put the blank TeX needs
            if s and s[-1].isalpha():
                s += ' '
            src += s
            rels.append(rel); seps.append(s)
    src += rng.choice(['', '\n', ' \\label{k}', '\n\\label{k}\n', '\n\n'])
    return {'src': src, 'opts': {'pack': '*', 'lang': rng.choice(['', 'de'])}, 'multi': False, 'kind': 'flow',
            'words': words, 'rels': rels, 'seps': seps}

def make_detached_case(rng):
    """the same word sequences inside a flow that is detached from the main text: the argument of \\footnote,
    \\footnotetext, \\caption, or of a macro named in the extraction list"""
    c = make_case(rng)
    a, b = 'Xhead', 'Xtail'        # (no word of the case may be a part of the words around the detached flow)
    body = c['src'].strip('\n') if rng.random() < 0.5 else c['src']
    k = rng.randrange(4)
    if k == 0:
        c['src'] = a + '\\footnote{' + body + '} ' + b
    elif k == 1:
        c['src'] = a + ' \\footnotetext{' + body + '} ' + b
    elif k == 2:
        c['src'] = a + '\n\\begin{figure}\n\\caption{' + body + '}\n\\end{figure}\n' + b
    else:
        c['src'] = a + ' \\zzextr{' + body + '} ' + b
        c['opts'] = dict(c['opts'], extr='zzextr')
    c['kind'] = 'flow-detached'
    return c

def make_arg_case(rng):
    """words inside the argument of a macro that passes its argument on, with the closing brace on a line of its own"""
    names = gen.Names(rng)
    w = [names.word() for _ in range(5)]
    pre, op = rng.choice([('\\newcommand{\\hl}[1]{#1}\n', '\\hl{'), ('\\newcommand{\\hm}[2]{#2 #1}\n', '\\hm{x}{'), ('', '\\framebox{'),
                          ('', '\\textcolor{red}{'), ('', '\\LTalter{x}{'), ('', '\\emph{'), ('', '{')])
    s01 = rng.choice([' ', '\n', '\n\n']) + op
    s12 = rng.choice([' ', '\n', '  '])
    s23 = rng.choice(['\n', ' \n', '\n  ', '', ' ']) + '}' + rng.choice(['\n', ' ', '\n\n', ' \n', '\n \n'])
    if rng.random() < 0.3:
        # the argument ends with a control word: the blank behind the closing brace does not follow the control word
        s23 = rng.choice(['\\zzz', ' \\zzz', '\\foo', '\\relax']) + '}' + rng.choice([' ', '\n', ' \n', '  '])
    s34 = rng.choice([' ', '\n'])
    src = pre + w[0] + s01 + w[1] + s12 + w[2] + s23 + w[3] + s34 + w[4] + rng.choice(['', '\n'])
    if pre and op == '\\hm{x}{':
        pass
    return {'src': src, 'opts': {'pack': '*', 'lang': ''}, 'multi': False, 'kind': 'flow-arg', 'words': w, 'rels': [], 'seps': [s01, s12, s23, s34]}

def make_body_case(rng):
    """a macro of the document whose body ENDS with a control word, called with a braced argument and followed by white space
    (recorded known finding: the blank behind the call is swallowed by the control word of the body)"""
    names = gen.Names(rng)
    w = [names.word() for _ in range(4)]
    cw = rng.choice(['\\zzz', '\\relax', '\\foo'])
    pre = rng.choice(['\\newcommand{\\hk}[1]{#1%s}\n' % cw, '\\newcommand{\\hk}[1]{#1 %s}\n' % cw, '\\def\\hk#1{#1%s}\n' % cw])
    s12 = rng.choice([' ', '\n'])
    src = pre + w[0] + ' \\hk{' + w[1] + '}' + s12 + w[2] + ' ' + w[3]
    return {'src': src, 'opts': {'pack': '*', 'lang': ''}, 'multi': False, 'kind': 'flow-body', 'words': w, 'rels': [],
            'seps': [' \\hk{', '}' + s12, ' ']}

def body_final_cw_class(src):
    """class of the known finding, decided from the source alone: a definition whose body ends with a control word, and a call
    of that macro with a braced argument that is followed by white space"""
    for m in re.finditer(r'\\(?:newcommand\*?\{?(\\[A-Za-z]+)\}?(?:\[\d\])?(?:\[[^\]]*\])?|def(\\[A-Za-z]+)[^{]*)\{([^{}]*)\}', src):
        name = m.group(1) or m.group(2)
        body = m.group(3)
        if re.search(r'\\[A-Za-z]+\s*$', body) and re.search(re.escape(name) + r'(?:\{[^{}]*\})+\s', src[m.end():]):
            return True
    return False

def expected_rel(sep):
    """read a separator the way TeX does (independent second computation used by judge)"""
    i = 0; n = len(sep)
    rel = 'glue'
    eat = False
    while i < n:
        c = sep[i]
        if c == '%':
            # comment: to end of line; the line end and the following indentation are swallowed,
            # unless the next line is blank
            j = sep.find('\n', i)
            if j < 0:
                break
            if sep.startswith('%%% LT-SKIP-BEGIN', i):
                e = sep.find('%%% LT-SKIP-END', i)
                j = sep.find('\n', e)
                if j < 0:
                    break
            k = j + 1
            while k < n and sep[k] in ' \t':
                k += 1
            if k < n and sep[k] == '\n':
                # next line blank -> paragraph break, handled by the white-space branch
                i = j
                # the newline at j starts the blank-line run
                m = j
                run = re.match(r'[ \t\n]+', sep[m:])
                if run and run.group(0).count('\n') >= 2:
                    rel = 'par'
                i = m + (len(run.group(0)) if run else 1)
            else:
                i = k
            eat = False
            continue
        if c in ' \t\n':
            run = re.match(r'[ \t\n]+', sep[i:]).group(0)
            if run.count('\n') >= 2:
                rel = 'par'
            elif not eat and rel == 'glue':
                rel = 'ws'
            i += len(run)
            eat = False
            continue
        if c == '\\':
            m = re.match(r'\\[A-Za-z]+', sep[i:])
            name = m.group(0)
            i += len(name)
            # optional blanks, then a braced argument for the declared one-argument macros
            m2 = re.match(r'[ ]*\{[^{}]*\}', sep[i:])
            if name in ('\\label', '\\index', '\\pagestyle', '\\vphantom') and m2:
                i += len(m2.group(0)); eat = False
            elif sep.startswith('{}', i):
                i += 2; eat = False
            else:
                eat = True
            continue
        if sep.startswith('{}', i):
            i += 2; eat = False
            continue
        i += 1; eat = False
    return rel

def judge(case, res):
    if res['outcome'] != 'ok':
        return []
    txt = res['txt']
    fails = []
    last = 0
    idx = []
    for w in case['words']:
        j = txt.find(w, last)
        if j < 0:
            return ['word %r lost' % w]
        idx.append(j); last = j + len(w)
    for k in range(len(case['words']) - 1):
        between = txt[idx[k] + len(case['words'][k]):idx[k + 1]]
        got = relation(between)
        want = expected_rel(case['seps'][k])
        if got != want:
            what = {('ws', 'par'): 'a paragraph break is invented', ('glue', 'par'): 'a paragraph break is invented',
                    ('par', 'ws'): 'a paragraph break is lost', ('par', 'glue'): 'a paragraph break is lost',
                    ('ws', 'glue'): 'two words are glued', ('glue', 'ws'): 'white space is invented'}[(want, got)]
            fails.append('%s between %r and %r: source separator %r, output %r' % (what, case['words'][k], case['words'][k + 1],
                                                                                case['seps'][k], between))
            break
    return fails

def run(ctx):
    n = ctx.scale(3000, 60000)
    rng = ctx.rng
    cases = [make_case(rng) for _ in range(n)]
    cases += [make_arg_case(rng) for _ in range(max(300, n // 8))]
    cases += [make_body_case(rng) for _ in range(20)]
    cases += [make_detached_case(rng) for _ in range(max(600, n // 5))]
    ctx.stats['_rule'] = ('sequences of unique words separated by random layouts of blanks, tabs, line breaks, blank lines, comment lines, '
                          'vanishing constructs (labels, index entries, unknown macros, skipped regions); expected relation glued / same paragraph / '
                          'blank line computed by reading the separator as TeX does; non-trivial = at least one vanishing construct or comment')
    results = ctx.pmap(t2t.run_case, [{k: v for k, v in c.items() if k not in ('words', 'rels', 'seps')} for c in cases])
    for c, r in zip(cases, results):
        ctx.case(c['src'], nontrivial=('\\' in c['src'] or '%' in c['src']))
        ctx.count('outcome_' + r['outcome'])
        for s in c['seps']:
            ctx.count('rel_' + expected_rel(s))
        fails = judge(c, r)
        if fails:
            if body_final_cw_class(c['src']) and any(k['id'] == 'body-final-control-word' for k in ctx.known):
                ctx.known_hits.setdefault('body-final-control-word', {'what': next(k['line'] for k in ctx.known if k['id'] == 'body-final-control-word'), 'count': 0})['count'] += 1
                continue
            ctx.violation(fails[0], src=c['src'], opts=c['opts'], words=c['words'], seps=c['seps'])
        if len(ctx.samples) < 4:
            ctx.sample({'src': c['src'], 'out': r.get('txt')})
    corr.t2t(ctx, cases, results, proj=('outcome', 'toks', 'text'), limit=ctx.scale(2500, 40000))
    corr.leaf_corr(ctx, [dict(c, cap_lines=0) for c in cases], results, want=('scan',), limit=ctx.scale(300, 3000))
    # blank-line removal itself, on the inputs it gets in real runs
    c2 = [dict({k: v for k, v in c.items() if k not in ('words', 'rels', 'seps')}, cap_lines=2) for c in cases[:ctx.scale(300, 3000)]]
    r2 = ctx.pmap(t2t.run_case, c2)
    corr.leaf_corr(ctx, c2, r2, want=('lines',), limit=len(c2))

def judge_witness(w):
    c = {'src': w['src'], 'opts': w.get('opts') or {}, 'multi': False, 'words': w['words'], 'seps': w['seps']}
    return judge(c, t2t.run_case(c))

def replay(data):
    f = judge_witness(data['violation'])
    print('\n'.join(f) if f else 'ok')
    return not f
