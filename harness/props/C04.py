"""C04 — generated text maps into the source span of the construct that generated it."""
import re, random
import t2t, corr, semrun, sem, cref

OBLIGATIONS = ['Yalafi.C04_latexError_anchor', 'Yalafi.C04_restamp', 'Yalafi.C04_genRepl_anchor',
               'Yalafi.C04_heading_e2e', 'Yalafi.C04_items_e2e', 'Yalafi.C04_heading_current',
               'Yalafi.C04_ref_cite_e2e', 'Yalafi.C04_ref_span', 'Yalafi.C03_ref_no_key', 'Yalafi.C04_ref_cite_e2e_current', 'Yalafi.C04_ref_example_current', 'Yalafi.C04_ref_example_eval', 'Yalafi.C04_theorem_e2e', 'Yalafi.C04_theorem_kept', 'Yalafi.C04_theorem_span', 'Yalafi.C04_theorem_e2e_current', 'Yalafi.C04_theorem_example_current', 'Yalafi.C04_theorem_example_eval',
               'Yalafi.C04_labelled_items_e2e', 'Yalafi.C04_labelled_items_origin', 'Yalafi.C04_labelled_items_current', 'Yalafi.C04_labelled_items_example_current', 'Yalafi.C04_labelled_items_doc1_eval', 'Yalafi.C04_labelled_items_doc2_eval',
               'Yalafi.cref_call', 'Yalafi.cref_tokens_fixed', 'Yalafi.crefrange_tokens_fixed', 'Yalafi.cref_loop', 'Yalafi.cref_loop_example_current']

def judge(case, res):
    fails = []
    if res['outcome'] != 'ok':
        return fails
    if case.get('kind') == 'cref':
        return cref.judge_spans(case, res)
    src, txt, pos = case['src'], res['txt'], res['pos']
    if len(txt) != len(pos):
        return fails
    # (1) text of a macro body / theorem title maps into the span of a use of that macro
    bodyw = {}
    for w in case['words']:
        if w['role'] == 'body':
            bodyw[w['w']] = w
    owner = {}
    def collect(n):
        if isinstance(n, dict):
            if n.get('t') == 'newcommand':
                for b in n['m']['body']:
                    if b['t'] == 'word':
                        owner[b['w']] = n['m']['name']
                if n['m']['opt']:
                    owner[n['m']['opt']] = n['m']['name']
            if n.get('t') == 'theorem':
                owner[n['title']] = 'thm:' + n['title']
            for k, v in n.items():
                if k != 'm':
                    collect(v)
        elif isinstance(n, list):
            for x in n:
                collect(x)
    collect(case['ast'])
    spans = {}
    for name, a, b in case['callspans']:
        spans.setdefault(name, []).append((a, b))
    for w, i in semrun.out_words(txt):
        if w in owner:
            ps = set(pos[i:i + len(w)])
            ok = any(all(a + 1 <= p <= b for p in ps) for (a, b) in spans.get(owner[w], []))
            if not ok:
                fails.append('generated word %r (body of %s) maps to %r, outside every use %r' % (
                    w, owner[w], sorted(ps), [(a + 1, b) for a, b in spans.get(owner[w], [])][:4]))
                break
    # (1b) controlled documents with repeated uses: each use must receive exactly its own generated words
    if case.get('kind') == 'repeat':
        calls = [x for x in case['ast']['items'] if x.get('t') == 'call']
        cs = [c for c in case['callspans']]
        for node, (name, a, b) in zip(calls, cs):
            m = node['m']
            expect = {}
            for bb in m['body']:
                if bb['t'] == 'word':
                    expect[bb['w']] = expect.get(bb['w'], 0) + 1
                elif bb['t'] == 'param' and bb['n'] == 1 and m['opt'] is not None and node['args'][0] is None:
                    expect[m['opt']] = expect.get(m['opt'], 0) + 1
            got = {}
            for w, i in semrun.out_words(txt):
                if w in owner and all(a + 1 <= p <= b for p in pos[i:i + len(w)]):
                    got[w] = got.get(w, 0) + 1
            if got != expect:
                fails.append('use of %s at %d..%d received generated words %r, expected %r (text of another use is mapped here or missing)' % (name, a + 1, b, got, expect))
                break
    # (2) every position-fixed character maps into the span of some generating construct (never onto plain text)
    gen_spans = [(a, b) for (t, a, b) in case['spans'] if t in sem.GENERATING and b > a]
    ok_pos = set()
    for a, b in gen_spans:
        ok_pos.update(range(a, b))
    if res.get('toks') and not res['stderr']:      # error marks are C08's subject (the tail of a split mark maps to the end of the text)
        for (kind, p, fix, t, extra) in res['toks']:
            if fix and t and p not in ok_pos:
                fails.append('generated text %r maps to offset %d (%r), which belongs to no construct' % (t, p + 1, src[max(0, p - 5):p + 6]))
                break
    return fails

def end_cases(rng):
    macs, envs = t2t.signatures()
    out = []
    def arg(kind, opt=None):
        w = 'Q' + ''.join(rng.choice('abcdefghijklmnopqrstuvwxyz') for _ in range(3))
        return {'A': '{%s}' % w, 'O': '[%s]' % w if opt else '', '*': rng.choice(['', '*'])}.get(kind, '')
    for lang in ('en', 'de', 'ru'):
        for nm, args in macs:
            if not nm.startswith('\\') or not nm[1:].isalpha():
                continue
            for opt in ((False, True) if 'O' in args else (False,)):
                body = nm + ''.join(arg(a, opt) for a in args)
                for tail in ('', ' Qpost'):
                    out.append({'src': 'Qpre ' + body + tail, 'opts': {'pack': '*', 'lang': lang}, 'multi': False, 'kind': 'end', 'span': (5, 5 + len(body))})
        for nm, args in envs:
            for opt in ((False, True) if 'O' in args else (False,)):
                body = '\\begin{%s}' % nm + ''.join(arg(a, opt) for a in args)
                for tail in ('', ' Qin\\end{%s}' % nm, '\nQpost'):
                    b2 = body + tail if tail.startswith(' Qin') else body
                    out.append({'src': 'Qpre ' + body + tail, 'opts': {'pack': '*', 'lang': lang}, 'multi': False, 'kind': 'end', 'span': (5, 5 + len(b2))})
    return out
def heading_tail_cases(rng):
    """headings whose argument ends with a token longer than one character (\\LaTeX, --, an accent, a formula), in the text, in the
    body of a user macro (everything then maps into the call) and as a single token without braces: the full stop the heading
    appends (and everything else it generates) maps into the construct"""
    heads = ['\\section', '\\subsection', '\\subsubsection', '\\chapter', '\\part', '\\title', '\\section*', '\\paragraph', '\\subparagraph']
    lasts = ['\\LaTeX', '\\TeX', '--', '---', "''", '\\dots', '\\ss', 'Qlast', '\\"a', '\\LaTeX{}', '\\textbf{Qbold}', '$x$', '\\S', '!', '\\,']
    out = []
    for h in heads:
        for l in lasts:
            w = 'Q' + ''.join(rng.choice('abcdefghijklmnopqrstuvwxyz') for _ in range(4))
            # (a) the heading comes from the body of a user macro: everything it prints maps into the call
            for name in ('\\t', '\\tool', '\\averylongmacroname'):
                d = '\\newcommand{%s}{%s{Working with %s}}\n\n' % (name, h, l)
                for post in (' Qpost Qtext', '\nQpost', '', '\n\nQpost'):
                    src = d + 'Qpre\n\n' + name + post
                    a = len(d) + 6
                    out.append({'src': src, 'opts': {'pack': '*', 'lang': 'en'}, 'multi': False, 'kind': 'headtail', 'span': (a, a + len(name)),
                                'genwords': True})
            # (b) braced heading in the text
            body = '%s{%s %s}' % (h, w, l)
            for post in (' Qpost', '\nQpost', '', '\n\nQpost'):
                out.append({'src': 'Qpre\n\n' + body + post, 'opts': {'pack': '*', 'lang': 'en'}, 'multi': False, 'kind': 'headtail', 'span': (6, 6 + len(body))})
        # (c) single-token argument without braces
        for tokn in ('A', '7', '\\LaTeX', '\\S'):
            if h.endswith('*'):
                continue
            body = '%s %s' % (h, tokn)
            for post in (' Qpost', '\nQpost', '', 'Qpost' if not tokn[-1].isalpha() or not tokn.startswith('\\') else ' Qpost'):
                out.append({'src': 'Qpre\n\n' + body + post, 'opts': {'pack': '*', 'lang': 'en'}, 'multi': False, 'kind': 'headtail', 'span': (6, 6 + len(body))})
    return out
def ltinput_flow_cases(rng, n):
    """detached flows (footnote, caption, footnotetext) of the main document behind an \\LTinput whose file has flows of its own:
    everything a flow of the main document adds (the paragraph break in front of it, the line break behind it) maps into
    the span of its own macro call"""
    out = []
    for _ in range(n):
        def w():
            return 'Q' + ''.join(rng.choice('abcdefghijklmnopqrstuvwxyz') for _ in range(4))
        fl = lambda: rng.choice(['\\footnote{%s}', '\\caption{%s}', '\\footnotetext{%s}', '\\footnote[2]{%s}'])
        ftxt = ' '.join([w()] + [(fl() % (w() + ' ' + w())) + ' ' + w() for _ in range(rng.randint(1, 3))])
        parts = [w() + ' ']
        pos = len(parts[0])
        spans = []
        def add(s):
            nonlocal pos
            parts.append(s); pos += len(s)
        for _ in range(rng.randint(0, 2)):
            body = w() + ' ' + w(); call = fl() % body
            spans.append((pos, pos + len(call), body)); add(call); add(' ' + w() + ' ')
        add(rng.choice(['\\LTinput{f1.tex}', '\\LTinput{f1.tex}\n\n', '\\LTinput{f1.tex} \\LTinput{f1.tex} ']))
        for _ in range(rng.randint(1, 3)):
            add(w() + ' ')
            body = w() + ' ' + w(); call = fl() % body
            spans.append((pos, pos + len(call), body)); add(call); add(' ')
        add(w() + '.\n')
        out.append({'src': ''.join(parts), 'opts': {'pack': '*', 'lang': 'en'}, 'multi': rng.random() < 0.3, 'files': {'f1.tex': ftxt},
                    'kind': 'ltinput-flow', 'flowspans': spans})
    return out
def judge_ltinput_flow(c, r):
    if r['outcome'] != 'ok' or r.get('stderr'):
        return []
    import t2t as _t
    for lang, txt, pos in _t.all_parts(r, c):
        for (a, b, body) in c['flowspans']:
            i = txt.find(body)
            if i < 0:
                continue
            k = i
            while k > 0 and txt[k - 1] == '\n':
                k -= 1
            bad = [(j, pos[j]) for j in range(k, i) if not (a < pos[j] <= b)]
            # the first of the line breaks in front of a flow may be the end of the preceding text (own position)
            bad = [x for x in bad if x[0] > k]
            if bad and i - k >= 3:
                return ['the paragraph break in front of the detached text %r maps to offset %d, outside its macro call at %d..%d (text %r)' % (body, bad[0][1], a + 1, b, txt[max(0, k - 10):i + len(body)])]
    return []
def judge_end(c, r):
    if r['outcome'] != 'ok' or r['stderr']:
        return []
    txt, pos = r['txt'], r['pos']
    a, b = c['span']
    copied = set()
    for m in semrun.WORD.finditer(txt):
        copied.update(range(m.start(), m.end()))
    for i, (ch, p) in enumerate(zip(txt, pos)):
        if ch.isspace() or i in copied:
            continue
        if not (a < p <= b):
            return ['generated character %r of %r maps to offset %d, outside the construct at %d..%d (text %r, positions %r)' % (ch, c['src'], p, a + 1, b, txt, pos)]
    return []

def run(ctx):
    n = ctx.scale(900, 25000)
    rng = ctx.rng
    cases = [semrun.make_case(rng, profile={'punct': True} if i % 2 else None) for i in range(n)]
    # repeated uses of one definition, on purpose (this is where shared mutable tokens bite)
    import gen
    for _ in range(n // 3):
        g = gen.G(rng)
        items = []
        defs = [g.c_newcommand() for _ in range(rng.randint(1, 2))]
        while len({d['m']['name'] for d in defs}) < len(defs):      # two definitions of one name: the later one wins (C09's subject)
            defs = [g.c_newcommand() for _ in range(len(defs))]
        for d in defs:
            if d['m']['nargs'] and rng.random() < 0.7 and d['m']['opt'] is None:
                d['m']['opt'] = g.names.word()
            items += [d, {'t': 'ws', 's': '\n'}]
        for _ in range(rng.randint(2, 5)):
            m = rng.choice(defs)['m']
            args = []
            for k in range(m['nargs']):
                if k == 0 and m['opt'] is not None:
                    args.append(g.optarg() if rng.random() < 0.3 else None)
                else:
                    args.append(g.optarg())
            # a call without any visible argument may end with the control word itself (followed by white space) or with {}
            bare = all(a is None for a in args) and rng.random() < 0.6
            items += [g.word(), {'t': 'ws', 's': ' '}, {'t': 'call', 'm': m, 'args': args, 'single': False, 'sp': 'bare' if bare else ''},
                      {'t': 'ws', 's': rng.choice([' ', '\n', '\n\n'])}]
        items.append(g.word())
        ast = {'t': 'seq', 'items': items}
        r = gen.R(); gen.render(ast, r)
        cases.append({'src': r.src(), 'opts': {'pack': '*', 'lang': rng.choice(['', 'de'])}, 'multi': False, 'kind': 'repeat',
                      'ast': ast, 'words': r.words, 'spans': r.spans, 'callspans': r.callspans})
    crefs = [cref.make(rng) for _ in range(n // 10)]
    ctx.stats['_rule'] = ('well-formed G-doc documents; words of macro bodies / optional defaults / theorem titles must map into the span of a use of '
                          'that very macro (repeated uses are generated on purpose); every position-fixed character must map into the source span of a '
                          'construct; non-trivial = output contains generated text')
    results = semrun.run_cases(ctx, cases)
    # package cleveref: repeated references to one label, judged on the implementation by the direct oracle,
    # and compared with the model (documents, sed lines, sed files: corr_cref)
    cres = ctx.pmap(t2t.run_case, crefs)
    corr.t2t(ctx, [{k: v for k, v in c.items() if k != 'uses'} for c in crefs], cres)
    import corr_cref
    corr_cref.cref_corr(ctx, ctx.scale(6000, 60000), ctx.scale(1200, 12000), ctx.scale(500, 5000))
    for c, r in zip(crefs, cres):
        ctx.case(c['src'], nontrivial=True); ctx.count('cleveref_docs'); ctx.count('cleveref_outcome_' + r['outcome'])
        fails = judge(c, r)
        if fails:
            ctx.violation(fails[0], src=c['src'], opts=c['opts'], files=c['files'], uses=c['uses'], kind='cref', case=c)
    for c, r in zip(cases, results):
        ngen = sum(1 for t in (r.get('toks') or []) if t[2] and t[3])
        ctx.case(c['src'], nontrivial=ngen > 0)
        ctx.count('outcome_' + r['outcome']); ctx.count('fixed_tokens', ngen); ctx.count('macro_uses', len(c['callspans']))
        fails = judge(c, r)
        if fails:
            ctx.violation(fails[0], src=c['src'], opts=c['opts'], all=fails[:3], case=c)
        if len(ctx.samples) < 3 and c['callspans']:
            ctx.sample({'src': c['src'][:300], 'uses': c['callspans'][:5]})
    # every declared macro / environment by signature as the last thing of the text and followed by text, en/de/ru:
    # whatever it generates maps into its own span
    ecs = end_cases(rng) + heading_tail_cases(rng)
    eres = ctx.pmap(t2t.run_case, ecs)
    for c, r in zip(ecs, eres):
        ctx.case(c['src']); ctx.count('construct_at_end')
        f = judge_end(c, r)
        if f:
            ctx.violation(f[0], src=c['src'], opts=c['opts'], end_span=list(c['span']))
    lcs = ltinput_flow_cases(rng, ctx.scale(150, 3000))
    lres = ctx.pmap(t2t.run_case, lcs)
    for c, r in zip(lcs, lres):
        ctx.case(c['src'], nontrivial=True); ctx.count('flows_behind_ltinput')
        f = judge_ltinput_flow(c, r)
        if f:
            ctx.violation(f[0], src=c['src'], opts=c['opts'], files=c['files'], multi=c['multi'], flowspans=[list(x) for x in c['flowspans']])
    corr.t2t(ctx, cases, results, proj=('outcome', 'toks'), limit=ctx.scale(900, 20000))
    corr.t2t(ctx, lcs, lres, proj=('outcome', 'toks'), limit=ctx.scale(100, 1000))

def judge_witness(w):
    if w.get('flowspans'):
        c = {'src': w['src'], 'opts': w.get('opts') or {}, 'multi': w.get('multi', False), 'files': w.get('files'),
             'flowspans': [tuple(x) for x in w['flowspans']]}
        return judge_ltinput_flow(c, t2t.run_case({k: v for k, v in c.items() if k != 'flowspans'}))
    if w.get('end_span'):
        c = {'src': w['src'], 'opts': w.get('opts') or {}, 'multi': False, 'span': tuple(w['end_span'])}
        return judge_end(c, t2t.run_case(c))
    if 'body_word' not in w:
        return []
    c = {'src': w['src'], 'opts': w.get('opts') or {}, 'multi': False, 'files': w.get('files')}
    r = t2t.run_case(c)
    if r['outcome'] != 'ok':
        return []
    i = r['txt'].find(w['body_word'])
    if i < 0:
        return ['generated word missing']
    ps = r['pos'][i:i + len(w['body_word'])]
    a, b = w['span']
    return [] if all(a + 1 <= p <= b for p in ps) else ['generated word %r maps to %r outside its use %r' % (w['body_word'], ps, (a + 1, b))]

def replay(data):
    v = data['violation']
    c = v.get('case')
    if v.get('end_span') or v.get('flowspans'):
        f = judge_witness(v)
        print('\n'.join(f) if f else 'ok')
        return not f
    if not c:
        print('no stored case; violation was:', v.get('what'))
        return True
    if 'uses' in c:
        c['uses'] = [tuple(u) for u in c['uses']]
    r = semrun.run_cases_plain([c])[0] if hasattr(semrun, 'run_cases_plain') else t2t.run_case({k: x for k, x in c.items() if k not in ('ast', 'words', 'spans', 'callspans')})
    fails = judge(c, r)
    print('\n'.join(fails) if fails else 'ok: %s' % r['outcome'])
    return not fails
