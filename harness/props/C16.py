"""C16 — HTML report: faithful source, each match once, content cannot break the markup."""
import re, html, json
from html.parser import HTMLParser
import shellrun

OBLIGATIONS = ['Yalafi.C16_protect_no_quote', 'Yalafi.C16_protect_lt_count', 'Yalafi.C16_protect_append',
               # structure of generate_html (Model/Html.lean, correspondence: corr_html.py)
               'Yalafi.C16_region_text', 'Yalafi.C16_line_numbers', 'Yalafi.C16_rows', 'Yalafi.C16_no_problems', 'Yalafi.C16_each_match_once',
               'Yalafi.C16_highlight_text', 'Yalafi.C16_overlap_text', 'Yalafi.C16_no_overlaps', 'Yalafi.C16_regions_ordered', 'Yalafi.C16_regions_disjoint',
               'Yalafi.C16_whole_file', 'Yalafi.C16_whole_file_negative',
               'Yalafi.C16ex.run0', 'Yalafi.C16ex.runNeg', 'Yalafi.C16_region_text_needs_final_newline',
               # the text of the report (Model/HtmlText.lean, correspondence: corr_htmltext.py)
               'Yalafi.C16_protect_title_chars', 'Yalafi.C16_title_safe', 'Yalafi.C16_href_safe', 'Yalafi.C16_tags_from_templates', 'Yalafi.C16_tags_shape',
               'Yalafi.C16_text_roundtrip', 'Yalafi.C16_text_roundtrip_no_tab', 'Yalafi.C16_tab_not_invertible',
               'Yalafi.C16_highlight_pieces', 'Yalafi.C16_generate_highlight', 'Yalafi.C16_regex_on_protected',
               'Yalafi.C16ex.varsOk', 'Yalafi.C16ex.hostile_title', 'Yalafi.C16ex.hostile_tag', 'Yalafi.C16ex.hostile_tag_tokens', 'Yalafi.C16ex.hostile_report',
               'Yalafi.C16ex.file_name_becomes_markup', 'Yalafi.C16ex.unsure_crashes']

ALLOWED = {'html', 'head', 'meta', 'body', 'table', 'tr', 'td', 'span', 'a', 'br', 'h3', 'h2', 'ul', 'li', 'hr'}
HOSTILE = ['<', '>', '&', '"', "'", '<script>', '</td>', '&amp;', '\t', '  ', 'x', 'word', 'ä', '€', '<br>', '">', '-->', '<!--',
           # characters that str.splitlines() treats as line boundaries although the file has no line break there
           # control symbols and control words (a match on a single backslash is extended to the macro name it starts)
           '\\&', '\\%', 'x\\,y', '\\textbf{bold}', '\\emph', '\\',
           '\x0c', 'a\x0bb', '\x1c', '\x1d', '\x1e', '\x85', 'a\u2028b', '\u2029']

def gen_doc(rng):
    nlines = rng.randint(1, 14)
    lines = []
    for _ in range(nlines):
        k = rng.choice([0, 0, 1, 3, 6, 12, 40])
        lines.append(' '.join(rng.choice(HOSTILE + ['lorem', 'ipsum', 'dolor']) for _ in range(k)))
    doc = '\n'.join(lines) + '\n'
    if not doc.strip():
        doc = 'word' + doc          # a blank text is not submitted to the proofreader at all
    return doc

def gen_matches(rng, doc):
    n = len(doc)
    ms = []
    for _ in range(rng.choice([0, 1, 1, 2, 3, 5])):
        o = rng.randrange(max(1, n - 1))
        l = rng.choice([0, 1, 1, 2, 5, 10, 30, 80])
        l = min(l, n - 1 - o)
        ms.append((o, l))
    # overlapping / adjacent / nested pairs on purpose
    if ms and rng.random() < 0.5:
        o, l = ms[0]
        ms.append((min(n - 2, o + rng.choice([0, 1, l // 2, l])), rng.choice([0, 1, 3])))
        ms[-1] = (max(0, ms[-1][0]), min(ms[-1][1], n - 1 - ms[-1][0]))
    for k, ch in enumerate(doc[:-1]):
        if ch == '\\' and rng.random() < 0.5 and len(ms) < 6:
            ms.append((k, rng.choice([1, 1, 0])))
    return sorted(set(ms))      # the shell sorts by position anyway

class P(HTMLParser):
    def __init__(self):
        super().__init__(convert_charrefs=False)
        self.tags = []; self.rows = []; self.cur = None; self.cell = None
        self.spans = []; self.spanstack = []
        self.bad = []
    def handle_starttag(self, tag, attrs):
        self.tags.append(tag)
        if tag not in ALLOWED:
            self.bad.append(tag)
        if tag == 'tr':
            self.cur = []
        if tag == 'td':
            self.cell = []
        if tag == 'span':
            self.spanstack.append([dict(attrs).get('title', ''), []])
    def handle_endtag(self, tag):
        if tag == 'td' and self.cur is not None:
            self.cur.append(''.join(self.cell or [])); self.cell = None
        if tag == 'tr' and self.cur is not None:
            self.rows.append(self.cur); self.cur = None
        if tag == 'span' and self.spanstack:
            t, parts = self.spanstack.pop()
            self.spans.append((t, ''.join(parts)))
    def text(self, s):
        if self.cell is not None:
            self.cell.append(s)
        for sp in self.spanstack:
            sp[1].append(s)
    def handle_data(self, d):
        self.text(d)
    def handle_entityref(self, name):
        self.text({'ensp': ' ', 'nbsp': ' '}.get(name, html.unescape('&' + name + ';')))
    def handle_charref(self, name):
        self.text(html.unescape('&#' + name + ';'))

def judge(case, r):
    fails = []
    if r['rc'] != 0:
        return ['html report failed with exit status %d: %s' % (r['rc'], r['stderr'][-200:])]
    doc = case['doc']
    src_lines = doc.split('\n')[:-1]
    p = P()
    try:
        p.feed(r['stdout']); p.close()
    except Exception as e:
        return ['html report cannot be parsed: %s' % e]
    if p.bad:
        fails.append('content became markup: unexpected tag(s) %r' % p.bad[:3])
    # line cells: rows of the main table are (number, content); overlap table rows likewise
    main_rows = []
    for row in p.rows:
        if len(row) == 2:
            main_rows.append(row)
    seen_lines = {}
    body, overlap = r['stdout'].split('overlapping message(s)</H3>')[0], None
    pb = P(); pb.feed(body); pb.close()
    for num, content in [x for x in pb.rows if len(x) == 2]:
        num = num.replace(' ', '').strip()
        if num == '':
            continue
        k = int(num)
        if not (1 <= k <= len(src_lines)):
            fails.append('line number %d outside the file' % k); continue
        want = src_lines[k - 1].replace('\t', ' ' * 8)
        if content.rstrip('\n') != want:
            fails.append('line %d of the report %r differs from the source line %r' % (k, content[:60], want[:60])); break
        seen_lines[k] = seen_lines.get(k, 0) + 1
    if case['context'] < 0 and sorted(seen_lines) != list(range(1, len(src_lines) + 1)):
        fails.append('negative context: lines %r shown, file has %d lines' % (sorted(seen_lines)[:10], len(src_lines)))
    dup = [k for k, v in seen_lines.items() if v > 1]
    if dup:
        fails.append('source line(s) %r shown more than once' % dup[:3])
    # every match highlighted exactly once, with the source span it maps to
    by = {}
    for t, txt in p.spans:
        m = re.match(r'(M\d+)', t)
        if m:
            by.setdefault(m.group(1), []).append(txt)
    for i, (o, l) in enumerate(case['matches']):
        ell = max(1, l)
        if ell == 1 and doc[o:o + 1] == '\\':
            mm = re.match(r'\\[A-Za-z]+', doc[o:])      # documented: a match on a lone backslash also marks the macro name it starts
            if mm:
                ell = len(mm.group(0))
        want = doc[o:o + ell].replace('\t', ' ' * 8)
        got = by.get('M%d' % i)
        if got is None:
            fails.append('match %d at (%d,%d) is not highlighted at all' % (i, o, l)); break
        joined = ''.join(got)
        # the pieces of one highlight, joined with the line breaks it spans, give the source span
        if joined.replace('\n', '') != want.replace('\n', ''):
            fails.append('match %d: highlighted text %r is not the source span %r (once)' % (i, joined[:60], want[:60])); break
    return fails

def one(case):
    return shellrun.run_shell({'files': {'d.tex': case['doc']}, 'main': ['d.tex'],
                               'args': ['--output', 'html', '--plain-input', '--context', str(case['context'])] + (['--link'] if case.get('link') else []),
                               'spec': {'spans': case['matches'], 'message': case['msg'], 'suggestions': case['sugg'],
                                        'mutations': ([{'op': 'set', 'path': ['matches', 0, 'rule', 'urls', 0, 'value'], 'value': case['url']}] if case.get('url') else [])}})

def swap_case(rng):
    """LaTeX input whose plain text is not in source order (a macro that swaps its arguments, a footnote in mid-sentence):
    a match that covers words from both sides maps to a position list that is not monotone"""
    def w():
        return 'Q' + ''.join(rng.choice('abcdefghijklmnopqrstuvwxyz') for _ in range(rng.randint(3, 5)))
    lines = ['\\newcommand{\\sw}[2]{#2 #1}']
    flags = []
    for _ in range(rng.randint(1, 4)):
        a, b, c, d = w(), w(), w(), w()
        k = rng.randrange(3)
        if k == 0:
            lines.append('%s \\sw{%s}{%s} %s.' % (a, b, c, d)); flags.append(c + ' ' + b)
        elif k == 1:
            lines.append('%s \\sw{%s}{%s} %s <&> %s.' % (a, b, c, d, w())); flags.append(b + ' ' + d); flags.append(a)
        else:
            lines.append('%s %s %s.' % (a, b, c)); flags.append(b)
    return {'doc': '\n'.join(lines) + '\n', 'flags': flags, 'context': rng.choice([-1, 0, 1, 2]), 'matches': []}

def one_tex(case):
    return shellrun.run_shell({'files': {'d.tex': case['doc']}, 'main': ['d.tex'],
                               'args': ['--output', 'html', '--context', str(case['context'])],
                               'spec': {'flag_words': case['flags']}})

def judge_tex(case, r):
    fails = judge(case, r)                       # faithful rows, each source line at most once, no foreign tag
    if fails or r['rc'] != 0:
        return fails
    p = P(); p.feed(r['stdout']); p.close()
    for f in case['flags']:
        key = 'flag ' + f
        hit = [txt for t, txt in p.spans if re.sub(r'\s', ' ', t).startswith(key)]
        if not any(h.strip() for h in hit):
            fails.append('the match on %r is highlighted nowhere (neither in place nor among the overlapping messages)' % f); break
    return fails

def nested_cases(rng, n):
    """a long multi-line match that contains / overlaps later matches near its beginning (the region must extend to the
    end of the LONGEST match, not of the last one)"""
    out = []
    for _ in range(n):
        nl = rng.randint(8, 16)
        lines = [' '.join(rng.choice(['lorem', 'ipsum', 'dolor', 'sit', 'amet', '<b>', 'a&b']) for _ in range(rng.randint(1, 6))) for _ in range(nl)]
        doc = '\n'.join(lines) + '\n'
        starts = [0]
        for l in lines:
            starts.append(starts[-1] + len(l) + 1)
        ctxl = rng.choice([0, 1, 2, 2, 5])
        a = rng.randint(0, nl - 5)
        span = rng.randint(ctxl + 2, max(ctxl + 2, nl - a - 1))
        b = min(nl - 1, a + span)
        o1 = starts[a] + rng.randint(0, max(0, len(lines[a]) - 1))
        e1 = starts[b] + rng.randint(1, max(1, len(lines[b])))
        ms = [(o1, e1 - o1)]
        for _ in range(rng.randint(1, 2)):
            la = rng.randint(a, min(b, a + 1))
            o2 = max(o1 + rng.randint(0, 1), starts[la] + rng.randint(0, max(0, len(lines[la]) - 1)))
            ms.append((o2, rng.choice([1, 2, 4])))
        if rng.random() < 0.4:
            lz = rng.randint(b, nl - 1)
            ms.append((starts[lz] + rng.randint(0, max(0, len(lines[lz]) - 1)), 1))
        ms = sorted(set((o, min(l, len(doc) - 1 - o)) for o, l in ms if o < len(doc) - 1))
        out.append({'doc': doc, 'matches': ms, 'context': ctxl, 'msg': 'M x', 'sugg': [], 'link': False, 'url': None})
    return out
def run(ctx):
    rng = ctx.rng
    cases = []
    for _ in range(ctx.scale(120, 3000)):
        doc = gen_doc(rng)
        cases.append({'doc': doc, 'matches': gen_matches(rng, doc), 'context': rng.choice([-1, 0, 1, 2, 2, 5]),
                      'msg': 'M ' + rng.choice(HOSTILE), 'sugg': [rng.choice(HOSTILE) for _ in range(rng.randint(0, 3))],
                      'link': rng.random() < 0.5, 'url': rng.choice([None, 'http://x/' + rng.choice(HOSTILE), 'u"><script>x</script>', 'http://x/<br>\ny'])})
    cases += nested_cases(rng, ctx.scale(40, 800))
    ctx.stats['_rule'] = ('plain-input files with HTML-special characters, empty lines, tabs, long lines x sets of in-range matches incl. overlapping, '
                          'adjacent, nested, multi-line and zero-length ones, long multi-line matches with later matches near their beginning x context -1/0/1/2/5, hostile text in messages and suggestions '
                          '(subprocess --output html); report parsed with html.parser; non-trivial = at least 2 matches')
    results = ctx.pmap(one, cases, chunksize=1)
    for c, r in zip(cases, results):
        ctx.case((c['doc'], tuple(c['matches']), c['context']), nontrivial=len(c['matches']) >= 2)
        ctx.count('matches', len(c['matches'])); ctx.count('context_%d' % c['context'])
        fails = judge(c, r)
        if fails:
            ctx.violation(fails[0], doc=c['doc'], matches=c['matches'], context=c['context'], msg=c['msg'], sugg=c['sugg'], link=c.get('link'), url=c.get('url'), all=fails[:3])
        if len(ctx.samples) < 3:
            ctx.sample({'doc': c['doc'][:120], 'matches': c['matches'], 'context': c['context']})
    tcases = [swap_case(rng) for _ in range(ctx.scale(24, 400))]
    for c, r in zip(tcases, ctx.pmap(one_tex, tcases, chunksize=1)):
        ctx.case((c['doc'], tuple(c['flags']), c['context'])); ctx.count('latex_input_non_monotone_map')
        f = judge_tex(c, r)
        if f:
            ctx.violation(f[0], doc=c['doc'], flags=c['flags'], context=c['context'], matches=[], tex=True)
    protect_corr(ctx)
    if ctx.model_ok:
        import corr_html
        corr_html.html_corr(ctx, ctx.scale(6000, 60000))
        import corr_htmltext
        corr_htmltext.htmltext_corr(ctx, ctx.scale(24000, 120000))

def impl_protect(s):
    import impl, importlib
    impl.load()
    gh = importlib.import_module('yalafi.shell.genhtml')
    return gh.protect_html(s)

def protect_corr(ctx):
    import model, proto
    if not ctx.model_ok:
        return
    rng = ctx.rng
    ss = [''.join(rng.choice(['<', '>', '&', '"', ' ', '\t', '\n', 'a', 'ä', "'", ';', '&amp;']) for _ in range(rng.randint(0, 30))) for _ in range(ctx.scale(600, 10000))]
    res = ctx.pmap(impl_protect, ss)
    ans = model.run_batch([('PROTECT', 'p%d' % i, [proto.enc_str(s)]) for i, s in enumerate(ss)])
    for i, (s, r) in enumerate(zip(ss, res)):
        ctx.corr['cases'] += 1
        if proto.dec_str(ans['p%d' % i][1]) != r:
            ctx.disagree('protect_html differs', s=s, impl=r, model=proto.dec_str(ans['p%d' % i][1]))

def judge_witness(w):
    if w.get('tex'):
        return judge_tex(w, one_tex(w))
    return judge(w, one(w))

def replay(data):
    v = data['violation']
    if v.get('tex'):
        f = judge_witness(v)
        print('\n'.join(f) if f else 'ok')
        return not f
    f = judge_witness({'doc': v['doc'], 'matches': [tuple(x) for x in v['matches']], 'context': v['context'], 'msg': v['msg'], 'sugg': v['sugg'],
                       'link': v.get('link'), 'url': v.get('url')})
    print('\n'.join(f) if f else 'ok')
    return not f
