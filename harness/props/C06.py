"""C06 — plain prose is a fixed point; special sequences follow the documented table."""
import itertools
import t2t, impl, corr

OBLIGATIONS = ['Yalafi.C06_longest_match', 'Yalafi.C06_no_match', 'Yalafi.C06_scan_text_char', 'Yalafi.C06_tables_documented',
               'Yalafi.C06_plain_fixed_point', 'Yalafi.C06_plain_fixed_point_text',
               'Yalafi.C06_specials_follow_table', 'Yalafi.C06_specials_tables_current',
               'Yalafi.C06_plain_fixed_point_current', 'Yalafi.C06_inert_ascii_current', 'Yalafi.C06_specials_follow_table_current', 'Yalafi.C06_specials_example_current']

# the documented table of the property statement (README), independent of the code
DOCUMENTED = {'--': '–', '---': '—', '``': '“', "''": '”', '~': ' ', '\\,': ' ',
              '\\%': '%', '\\&': '&', '\\$': '$', '\\#': '#', '\\_': '_', '\\{': '{', '\\}': '}', '\\\\': ' ', '&': ' '}
ALPHA = ['\\\\', '&', 'a', 'B', ' ', '\n', '.', ',', '-', '`', "'", '~', '\\,', '\\%', '\\&', '\\_', '\\{', '\\}', '\\$', '\\#',
         '!', '?', '(', ')', '"', 'é', 'ß', '1', ';', ':', '/', '*', '=', '+', '<', '>', '|', '@']
INERT = [c for c in ALPHA if len(c) == 1 and c not in '-`\'~']

def reference(src):
    """longest match over the documented table; every other character copied (0-based positions)"""
    keys = sorted(DOCUMENTED, key=lambda k: -len(k))
    out, pos, i = [], [], 0
    while i < len(src):
        for k in keys:
            if src.startswith(k, i):
                v = DOCUMENTED[k]
                out.append(v); pos += [i + j for j in range(len(v))]
                i += len(k)
                break
        else:
            out.append(src[i]); pos.append(i); i += 1
    return ''.join(out), [p + 1 for p in pos]

def excluded(src):
    """C05's case: a special sequence on an otherwise blank line (the line is tokenised left to right by longest
    match, as the property states); `\\\\` and `&` eat nothing but interact with following blanks / options"""
    keys = sorted(DOCUMENTED, key=lambda k: -len(k))
    for line in src.split('\n'):
        i, has_special, inert = 0, False, False
        while i < len(line):
            for k in keys:
                if line.startswith(k, i):
                    has_special = True; i += len(k); break
            else:
                if not line[i].isspace():
                    inert = True
                i += 1
        if has_special and not inert:
            return True
    return False

def judge(case, res):
    if res['outcome'] != 'ok':
        return ['filter raised %s' % res.get('exc')]
    exp = reference(case['src'])
    got = (res['txt'], res['pos'])
    if got != exp:
        k = next((i for i in range(min(len(got[0]), len(exp[0]))) if got[0][i] != exp[0][i] or got[1][i] != exp[1][i]),
                 min(len(got[0]), len(exp[0])))
        return ['output differs from the documented table at index %d: got %r %r, expected %r %r' % (
            k, got[0][max(0, k - 3):k + 4], got[1][max(0, k - 3):k + 4], exp[0][max(0, k - 3):k + 4], exp[1][max(0, k - 3):k + 4])]
    return []

def gen(ctx):
    rng = ctx.rng
    srcs = set()
    # exhaustive short strings
    L = ctx.scale(2, 3)
    for n in range(1, L + 1):
        for tup in itertools.product(ALPHA, repeat=n):
            srcs.add(''.join(tup))
    # adjacency around dashes / quotes exhaustively to length 5
    for n in range(1, ctx.scale(5, 7)):
        for tup in itertools.product(['-', '`', "'", 'a', ' '], repeat=n):
            srcs.add('x' + ''.join(tup) + 'y')
    # random longer prose
    for _ in range(ctx.scale(800, 20000)):
        n = rng.randint(4, 60)
        srcs.add(''.join(rng.choice(ALPHA) for _ in range(n)))
    # pure inert prose: identity
    for _ in range(ctx.scale(300, 5000)):
        srcs.add(''.join(rng.choice(INERT + ['a', 'b', ' ', 'c']) for _ in range(rng.randint(1, 80))))
    out = []
    for s in sorted(srcs):
        if excluded(s):
            continue
        # a backslash must belong to one of the documented sequences
        ok = True
        i = 0
        while i < len(s):
            if s[i] == '\\':
                if s[i:i + 2] not in DOCUMENTED:
                    ok = False; break
                i += 2
            else:
                i += 1
        if ok and not any(ch in s for ch in '$#{}%_^"') or ok and all(s[j - 1] == '\\' and (j < 2 or s[j - 2] != '\\' or s[j - 3:j - 1] == '\\\\') for j, ch in enumerate(s) if ch in '$#{}%_' and j > 0) and not any(ch in s for ch in '^"') and not (s[:1] in '$#{}%_'):
            out.append(s)
    return out

FRAMES = ['{%s}', '\\textbf{%s}', '\\emph{%s}', '\\section{%s}', '\\subsection*{%s}', '\\chapter{%s}', '\\title{%s}', '\\paragraph{%s}',
          '\\footnote{%s}', '\\caption{%s}', '\\textcolor{red}{%s}', '\\begin{itemize}\\item[%s] Qz\\end{itemize}', '\\begin{quote}%s\\end{quote}',
          '\\framebox{%s}', '\\LTadd{%s}', '\\newcommand{\\qq}[1]{#1}\\qq{%s}', '\\begin{theorem}[%s] Qz\\end{theorem}']

def framed_cases(rng):
    """the documented sequences inside arguments: headings, footnotes, captions, item labels, pass-through and user macros"""
    import impl
    sp = dict(impl.load().parameters.Parameters('en').special_tokens)
    out = []
    for k in DOCUMENTED:
        if k not in sp:
            continue
        for fr in FRAMES:
            a = 'Q' + ''.join(rng.choice('abcdefgh') for _ in range(3)); b = 'Q' + ''.join(rng.choice('klmnopqr') for _ in range(3))
            inner = a + rng.choice([' ', '']) + k + (' ' if k[-1:].isalpha() else rng.choice([' ', ''])) + b
            out.append({'src': 'Qpre ' + fr % inner + ' Qpost', 'opts': {'pack': '*', 'lang': 'en'}, 'multi': False, 'kind': 'framed',
                        'seq': k, 'repl': sp[k], 'a': a, 'b': b})
    return out

def judge_framed(c, r):
    if r['outcome'] != 'ok':
        return []
    t = r['txt']
    i, j = t.find(c['a']), t.find(c['b'])
    if i < 0 or j < 0 or j < i:
        return ['special sequence %r inside %r: the words around it are lost or reordered: %r' % (c['seq'], c['src'], t)]
    between = t[i + len(c['a']):j].strip(' \n\t')
    if between != c['repl'].strip(' '):
        return ['special sequence %r inside %r is rendered %r, the table says %r (output %r)' % (c['seq'], c['src'], between, c['repl'], t)]
    return []

def run(ctx):
    srcs = gen(ctx)
    cases = [{'src': s, 'opts': {'pack': ctx.rng.choice(['*', ''])}, 'multi': False, 'kind': 'prose'} for s in srcs]
    ctx.stats['_rule'] = ('all strings up to length %d over a %d-symbol alphabet of letters, blanks, line breaks, punctuation and the special '
                          'sequences; all strings up to length %d over {-,`,\',a,blank} between two letters; random longer strings; '
                          'excluded: special sequence on an otherwise blank line (C05); non-trivial = contains a special sequence'
                          % (ctx.scale(2, 3), len(ALPHA), ctx.scale(4, 6)))
    # plain prose stays a fixed point under every option that does not concern it (--no-specials, languages, packages)
    rng = ctx.rng
    for _ in range(ctx.scale(300, 5000)):
        t = ''.join(rng.choice(INERT + ['a', 'b', ' ', 'c', 'x', 'x', 'LT', 'S', 'K', 'I', 'P', ' x ', '\n']) for _ in range(rng.randint(1, 60)))
        if not excluded(t):
            cases.append({'src': t, 'opts': {'pack': rng.choice(['*', '']), 'nosp': rng.random() < 0.7, 'lang': rng.choice(['', 'en', 'ru']),
                                             'dcls': rng.choice(['', 'article'])}, 'multi': False, 'kind': 'prose-opts'})
    results = ctx.pmap(t2t.run_case, cases)
    for c, r in zip(cases, results):
        ctx.case(c['src'], nontrivial=any(k in c['src'] for k in DOCUMENTED))
        ctx.count('outcome_' + r['outcome'])
        fails = judge(c, r)
        if fails:
            ctx.violation(fails[0], src=c['src'], opts=c['opts'])
        if len(ctx.samples) < 5 and len(c['src']) > 20:
            ctx.sample({'src': c['src'], 'out': r.get('txt')})
    fc = framed_cases(rng)
    fres = ctx.pmap(t2t.run_case, fc)
    for c, r in zip(fc, fres):
        ctx.case(c['src']); ctx.count('sequence_in_argument')
        f = judge_framed(c, r)
        if f:
            ctx.violation(f[0], src=c['src'], opts=c['opts'], framed={k: c[k] for k in ('seq', 'repl', 'a', 'b')})
    corr.t2t(ctx, cases + fc, results + fres, limit=ctx.scale(1500, 20000) + len(fc))
    corr.scan(ctx, [c['src'] for c in cases[:ctx.scale(500, 5000)]])

def judge_witness(w):
    if w.get('framed'):
        c = dict({'src': w['src'], 'opts': w.get('opts') or {}, 'multi': False}, **w['framed'])
        return judge_framed(c, t2t.run_case(c))
    c = {'src': w['src'], 'opts': w.get('opts') or {}, 'multi': False}
    return judge(c, t2t.run_case(c))

def replay(data):
    f = judge_witness(data['violation'])
    print('\n'.join(f) if f else 'ok')
    return not f
