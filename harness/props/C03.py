"""C03 — prose is conserved: typeset words appear once, in order; hidden text never leaks."""
import re
import t2t, corr, semrun, sem

OBLIGATIONS = ['Yalafi.C03_kinds', 'Yalafi.C03_removeLines_kinds', 'Yalafi.C03_comments_dropped', 'Yalafi.C03_comment_positions_outside',
               'Yalafi.C03_comments_dropped_current', 'Yalafi.C03_comments_example_current',
               'Yalafi.C03_footnote_detached', 'Yalafi.C03_footnote_current',
               'Yalafi.C03_vanish_no_key',
               'Yalafi.C03_unknown_args_e2e', 'Yalafi.C03_unknown_args_text', 'Yalafi.C03_unknown_args_text_tight', 'Yalafi.C03_unknown_args_once', 'Yalafi.C03_no_markup', 'Yalafi.C03_unknown_args_e2e_current', 'Yalafi.C03_unknown_args_example_current', 'Yalafi.C03_unknown_args_example_eval', 'Yalafi.C03_unknown_args_example2_eval', 'Yalafi.C03_mix_e2e', 'Yalafi.C03_mix_words', 'Yalafi.C03_mix_e2e_current', 'Yalafi.C03_mix_example_current', 'Yalafi.C03_mix_example_eval',
               'Yalafi.C03_mix2_e2e', 'Yalafi.C03_mix2_words', 'Yalafi.C03_mix2_e2e_current', 'Yalafi.C03_mix2_example_current', 'Yalafi.C03_mix2_example_ref', 'Yalafi.C03_mix2_example_eval',
               'Yalafi.C03_skip_region_e2e', 'Yalafi.C03_skip_no_leak', 'Yalafi.C19_skip_not_listed', 'Yalafi.C03_skip_source_e2e', 'Yalafi.C03_skip_region_e2e_current', 'Yalafi.C03_skip_markers_current', 'Yalafi.C03_skip_example_current', 'Yalafi.C03_skip_example_ref', 'Yalafi.C03_skip_example_eval', 'Yalafi.C03_skip_source_example_current', 'Yalafi.C03_ltmacros_e2e', 'Yalafi.C03_ltmacros_no_leak', 'Yalafi.C03_ltmacros_e2e_current', 'Yalafi.C03_ltmacros_sel_current', 'Yalafi.C03_ltmacros_example_current', 'Yalafi.C03_ltmacros_example_ref', 'Yalafi.C03_ltmacros_example_eval',
               'Yalafi.C03_mix3_e2e', 'Yalafi.C03_mix3_words', 'Yalafi.C03_mix3_e2e_current', 'Yalafi.C03_mix3_example_current', 'Yalafi.C03_mix3_example_fuel', 'Yalafi.C03_mix3_example_ref', 'Yalafi.C03_mix3_example_eval',
               'Yalafi.C03_detached_flows_e2e', 'Yalafi.C03_flows_order', 'Yalafi.C03_flows_complete', 'Yalafi.C03_optional_hidden', 'Yalafi.C03_flow_macros_current', 'Yalafi.C03_detached_flows_current', 'Yalafi.C03_detached_flows_example_current', 'Yalafi.C03_detached_flows_doc1_ref', 'Yalafi.C03_detached_flows_doc1_eval', 'Yalafi.C03_detached_flows_doc2_eval', 'Yalafi.C03_detached_flows_doc3_eval', 'Yalafi.C03_footnotemark_eval',
               "Yalafi.C03_mix4_e2e", "Yalafi.C03_mix4_words", "Yalafi.C03_mix4_e2e_current", "Yalafi.C03_mix4_example_current", "Yalafi.C03_mix4_example_fuel", "Yalafi.C03_mix4_example_ref", "Yalafi.C03_mix4_example_eval"]

MARKUP = re.compile(r'\\[A-Za-z@]+')

def judge(case, res, exp):
    fails = []
    if res['outcome'] != 'ok':
        return fails
    txt = res['txt']
    got = [w for w, _ in semrun.out_words(txt)]
    want = [w for w, _ in exp.seq]
    hidden = exp.hidden
    leak = [w for w in got if w in hidden]
    if leak:
        fails.append('hidden text appears in the output: %r' % leak[:3])
    got2 = [w for w in got if w not in hidden]
    if got2 != want:
        from collections import Counter
        cg, cw = Counter(got2), Counter(want)
        if cg != cw:
            d = [(w, cw[w], cg[w]) for w in set(cg) | set(cw) if cg[w] != cw[w]][:4]
            fails.append('word multiplicity differs (word, expected, got): %r' % d)
        elif not exp.nested:
            k = next(i for i in range(len(want)) if got2[i] != want[i])
            fails.append('word order differs at %d: expected %r got %r' % (k, want[k:k + 4], got2[k:k + 4]))
        else:
            # nested detached flows: the order *between* flows is not prescribed; each flow must be contiguous and in order
            joined = ' '.join(got2)
            for f in [exp.main] + exp.flows:
                ws = ' '.join(w for w, _ in f)
                if ws and ws not in joined:
                    fails.append('flow %r is not contiguous / in order in the output' % ws[:60]); break
    # no markup left: control sequences / grouping braces / $ only from literal contexts
    if not case.get('literal_markup'):
        m = MARKUP.search(txt)
        if m:
            fails.append('control sequence %r left in the output' % m.group(0))
    return fails

def has_literal_markup(case):
    """documents where a backslash, brace or $ may legitimately appear in the text"""
    s = case['src']
    return ('\\verb' in s or 'verbatim' in s or '\\textbackslash' in s or '\\{' in s or '\\}' in s or '\\$' in s)

def heading_class(node):
    """known finding #9 class (decided from the AST alone): a heading / \\phantom-like argument that is
    expanded twice, containing something whose expansion is not idempotent"""
    found = []
    def walk(n, inside):
        if isinstance(n, dict):
            t = n.get('t')
            if inside and t in ('footnote', 'imath', 'itemize', 'newcommand', 'figure', 'theorem', 'display', 'call', 'cite', 'gls', 'glsdef'):
                found.append(t)
            ins = inside or t == 'heading'
            for v in n.values():
                walk(v, ins)
        elif isinstance(n, list):
            for x in n:
                walk(x, inside)
    walk(node, False)
    return found

GLS_PAIRS = [('\\gls', '\\GLS'), ('\\glspl', '\\GLSpl'), ('\\glsdesc', '\\GLSdesc'), ('\\glstext', '\\GLStext'),
             ('\\gls', '\\Gls'), ('\\glspl', '\\Glspl'), ('\\glsdesc', '\\Glsdesc'), ('\\glstext', '\\Glstext')]

def gls_markup_cases(rng):
    """glossary entries whose fields contain declared macros (symbols, pass-through macros with a hidden first
    argument, vanishing macros with a key), used through the plain, the capitalised and the all-capitals forms:
    the capitalised forms typeset the same words (compared without case), and keys / colour names never appear"""
    out = []
    def w():
        return 'Q' + ''.join(rng.choice('abcdefghijklmnopqrstuvwxyz') for _ in range(4))
    for _ in range(6):
        vis, hid = [], []
        def field():
            parts = []
            for _ in range(rng.randint(1, 3)):
                k = rng.randrange(8)
                if k == 0:
                    parts.append('\\LaTeX{}'); vis.append('LaTeX')
                elif k == 1:
                    parts.append('\\TeX{}'); vis.append('TeX')
                elif k == 2:
                    a = w(); parts.append(a + '\\ss{}'); vis.append(a)
                elif k == 3:
                    h, a = w(), w(); parts.append('\\textcolor{' + h + '}{' + a + '}'); hid.append(h); vis.append(a)
                elif k == 4:
                    h, a = w(), w(); parts.append(a + '\\index{' + h + '}'); hid.append(h); vis.append(a)
                elif k == 5:
                    h, a = w(), w(); parts.append(a + '\\label{' + h + '}'); hid.append(h); vis.append(a)
                elif k == 6:
                    a = w(); parts.append('\\emph{' + a + '}'); vis.append(a)
                else:
                    a = w(); parts.append(a); vis.append(a)
            return ' '.join(parts)
        lab = 'l' + str(rng.randrange(10))
        defs = '\\gls@defglossaryentry{%s}{name={%s},text={%s},plural={%s},description={%s}}\n' % (lab, field(), field(), field(), field())
        a, b = w(), w()
        for lo, up in GLS_PAIRS:
            srcs = ['\\LTinput{g.glsdefs}\n%s %s{%s} %s' % (a, m, lab, b) for m in (lo, up)]
            out.append({'kind': 'glsmarkup', 'pair': (lo, up), 'srcs': srcs, 'files': {'g.glsdefs': defs}, 'hidden': list(hid),
                        'opts': {'pack': rng.choice(['*', 'glossaries,xcolor']), 'lang': rng.choice(['en', 'de'])}})
    return out

def run_gls_markup(c):
    return [t2t.run_case({'src': s, 'opts': c['opts'], 'files': c['files'], 'multi': False, 'want_toks': False}) for s in c['srcs']]

def judge_gls_markup(c, rs):
    fails = []
    if any(r['outcome'] != 'ok' for r in rs):
        return fails
    lo, up = rs[0]['txt'], rs[1]['txt']
    for h in c['hidden']:
        for t, m in ((lo, c['pair'][0]), (up, c['pair'][1])):
            if h.upper() in t.upper():
                fails.append('key / colour name %r of a glossary field appears in the output of %s: %r' % (h, m, t))
    for t, m in ((lo, c['pair'][0]), (up, c['pair'][1])):
        mm = MARKUP.search(t)
        if mm:
            fails.append('control sequence %r left in the output of %s' % (mm.group(0), m))
    if re.sub(r'\s+', ' ', lo.upper()) != re.sub(r'\s+', ' ', up.upper()):
        fails.append('%s and %s of one entry typeset different words: %r / %r' % (c['pair'][0], c['pair'][1], lo, up))
    return fails

def escaped_special_cases(rng):
    """escaped special characters \\$ \\{ \\} \\% \\& \\# \\_ inside the arguments of text macros (headings, fonts, footnote,
    caption, plain group): each is one character of text, once; the words around it stay; no error mark"""
    wraps = ['\\section{%s}', '\\subsection*{%s}', '\\chapter{%s}', '\\title{%s}', '\\textbf{%s}', '\\emph{%s}', '\\footnote{%s}',
             '\\caption{%s}', '\\paragraph{%s}', '\\mbox{%s}', '{%s}', '\\section[opt]{%s}', '\\part{%s}', '\\subsubsection{%s}',
             '\\textit{\\textbf{%s}}']
    specs = [('\\$', '$'), ('\\{', '{'), ('\\}', '}'), ('\\%', '%'), ('\\&', '&'), ('\\#', '#'), ('\\_', '_')]
    out = []
    for w in wraps:
        for s, ch in specs:
            for two in (False, True):
                ws = ['Q' + ''.join(rng.choice('abcdefghijklmnopqrstuvwxyz') for _ in range(5)) for _ in range(6)]
                if len(set(ws)) < 6:
                    continue
                inner = '%s %s %s %s' % (ws[1], s, ws[2], (s + ' ' + ws[3]) if two else ws[3])
                src = '%s\n\n%s\n\n%s %s %s.\n' % (ws[0], w % inner, ws[4], s if rng.random() < 0.5 else '', ws[5])
                out.append({'src': src, 'opts': {'lang': 'en', 'pack': '*'}, 'multi': False, 'kind': 'escspec',
                            'escspec': {'words': ws, 'ch': ch, 'nch': src.count(s)}})
    return out

def judge_escaped(c, r):
    if r['outcome'] != 'ok':
        return []
    e = c['escspec']
    txt = r['txt']
    got = re.findall(r'Q[a-z]{5}', txt)
    f = []
    if sorted(got) != sorted(e['words']):
        f.append('words of the document %r, words of the output %r' % (e['words'], got))
    if txt.count(e['ch']) != e['nch']:
        f.append('%d escaped %r in the source, %d in the output %r' % (e['nch'], e['ch'], txt.count(e['ch']), txt))
    if 'LATEXXXERROR' in txt:
        f.append('error mark in the output of a correct document')
    return f

def run(ctx):
    n = ctx.scale(900, 25000)
    rng = ctx.rng
    cases = [semrun.make_case(rng) for _ in range(n)]
    import gen
    for _ in range(max(30, n // 20)):        # \def with delimited parameters, on purpose
        ast, r = gen.delim_def_doc(rng)
        cases.append({'src': r.src(), 'opts': {'lang': '', 'pack': '*', 'dcls': ''}, 'multi': False, 'kind': 'sem', 'ast': ast,
                      'words': r.words, 'spans': r.spans, 'callspans': r.callspans})
    ctx.stats['_rule'] = ('well-formed G-doc documents with unique literal words (Qxyz); reference word sequence (main flow, then detached '
                          'flows) and hidden-word set computed from the AST by TeX-style substitution; non-trivial = at least 3 expected words')
    results = semrun.run_cases(ctx, cases)
    for c, r in zip(cases, results):
        exp = semrun.expected(c)
        if exp is None:
            ctx.count('unsupported'); continue
        c['literal_markup'] = has_literal_markup(c)
        ctx.case(c['src'], nontrivial=len(exp.seq) >= 3)
        ctx.count('outcome_' + r['outcome'])
        ctx.count('flows', len(exp.flows)); ctx.count('hidden_words', len(exp.hidden))
        fails = judge(c, r, exp)
        if fails:
            hc = heading_class(c['ast'])
            if hc and any(k['id'] == 'heading-double-expansion' for k in ctx.known):
                ctx.known_hits.setdefault('heading-double-expansion', {'what': next(k['line'] for k in ctx.known if k['id'] == 'heading-double-expansion'), 'count': 0})['count'] += 1
                continue
            ctx.violation(fails[0], src=c['src'], opts=c['opts'], all=fails[:4], case=semrun.pack(c))
        if len(ctx.samples) < 3:
            ctx.sample({'src': c['src'][:300], 'expected_words': [w for w, _ in exp.seq][:20], 'hidden': sorted(exp.hidden)[:10]})
    gm = [c for _ in range(ctx.scale(2, 20)) for c in gls_markup_cases(rng)]
    for c, rs in zip(gm, ctx.pmap(run_gls_markup, gm)):
        ctx.case(c['srcs'][1]); ctx.count('gls_markup_pairs')
        f = judge_gls_markup(c, rs)
        if f:
            ctx.violation(f[0], src=c['srcs'][1], opts=c['opts'], files=c['files'], glsmarkup={k: c[k] for k in ('pair', 'srcs', 'files', 'hidden', 'opts')})
    es = [c for _ in range(ctx.scale(1, 10)) for c in escaped_special_cases(rng)]
    es_res = ctx.pmap(t2t.run_case, es)
    for c, r in zip(es, es_res):
        ctx.case(c['src'], nontrivial=True); ctx.count('escaped_special_docs')
        f = judge_escaped(c, r)
        if f:
            ctx.violation(f[0], src=c['src'], opts=c['opts'], escspec=c['escspec'])
    corr.t2t(ctx, cases, results, proj=('outcome', 'toks', 'text'), limit=ctx.scale(900, 20000))
    corr.t2t(ctx, es, es_res, proj=('outcome', 'text'), limit=ctx.scale(100, 1000))

def judge_witness(w):
    if w.get('glsmarkup'):
        c = w['glsmarkup']
        return judge_gls_markup(c, run_gls_markup(c))
    c = {'src': w['src'], 'opts': w.get('opts') or {}, 'multi': False}
    r = t2t.run_case(c)
    if w.get('escspec'):
        c['escspec'] = w['escspec']
        return judge_escaped(c, r)
    if r['outcome'] != 'ok':
        return []
    fails = []
    m = MARKUP.search(r['txt'])
    if m:
        fails.append('control sequence %r left in the output' % m.group(0))
    if 'expect_words' in w:
        got = [x for x, _ in semrun.out_words(r['txt'])]
        if got != w['expect_words']:
            fails.append('words %r, expected %r' % (got, w['expect_words']))
    return fails

def rejudge(c):
    exp = semrun.expected(c)
    if exp is None:
        return []
    c['literal_markup'] = has_literal_markup(c)
    return judge(c, semrun.run_one(c), exp)

def replay(data):
    v = data['violation']
    if v.get('glsmarkup'):
        f = judge_witness(v)
        print('\n'.join(f) if f else 'ok')
        return not f
    if v.get('case'):
        f = rejudge(semrun.unpack(v['case']))
        print('\n'.join(f) if f else 'ok')
        return not f
    f = judge_witness(v)
    c = {'src': v['src'], 'opts': v.get('opts') or {}, 'multi': False}
    print(repr(t2t.run_case(c).get('txt')))
    print('\n'.join(f) if f else 'no markup left; word-level oracle needs the AST (see all=%r)' % v.get('all'))
    return not f
