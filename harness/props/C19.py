"""C19 — the unknowns list names exactly the undeclared macros/environments used in text."""
import t2t, corr, semrun

OBLIGATIONS = ['Yalafi.C19_addUnknown_spec', 'Yalafi.C19_addUnknown_nodup', 'Yalafi.C19_addUnknown_math', 'Yalafi.C19_addUnknown_prefix',
               'Yalafi.C19_tex2txt_nodup', 'Yalafi.C19_tex2txt_nodup_current', 'Yalafi.C19_unknowns_complete',
               'Yalafi.C19_unknowns_complete_current', 'Yalafi.C19_example_current',
               'Yalafi.C19_unknowns_e2e', 'Yalafi.C19_declared_never_listed', 'Yalafi.C19_maths_not_listed', 'Yalafi.C19_each_once_in_order', 'Yalafi.C19_unknowns_e2e_current', 'Yalafi.C19_e2e_example_current', 'Yalafi.C19_e2e_example_output', 'Yalafi.C19_e2e_example_eval',
               'Yalafi.C19_unkn_commutes', 'Yalafi.C19_unkn_output', 'Yalafi.C19_unkn_output_mix3', 'Yalafi.C19_unkn_output_mix3_current', 'Yalafi.C19_unkn_output_mix3_example']

def judge(case, res, exp):
    if res['outcome'] != 'ok':
        return []
    want = exp.unknowns
    # observed through the documented interface: text of the --unkn run, one name per line
    got = res['txt'].split('\n')
    if got and got[-1] == '':
        got.pop()
    if got == [''] or got == []:
        got = []
    fails = []
    if len(set(got)) != len(got):
        fails.append('a name is listed twice: %r' % got)
    if got != want:
        miss = [x for x in want if x not in got]; extra = [x for x in got if x not in want]
        if miss or extra:
            fails.append('unknowns list %r: missing %r, not expected %r' % (got, miss, extra))
        else:
            fails.append('unknowns in order %r, expected order of first use %r' % (got, want))
    return fails

def run(ctx):
    n = ctx.scale(900, 25000)
    rng = ctx.rng
    cases = []
    for _ in range(n):
        c = semrun.make_case(rng, profile={'inspect': True} if rng.random() < 0.5 else None,
                             opts={'lang': rng.choice(['', 'de', 'en']), 'pack': '*', 'unkn': True})
        if rng.random() < 0.3:
            # a replacement file is for the text of the document: it must not touch the list of names
            c['opts']['repl'] = ['mycmd & xx', 'textbf & yy yy', 'zzz & q', 'foo & bar', 'emph & ']
        cases.append(c)
    ctx.stats['_rule'] = ('well-formed G-doc documents mixing declared and undeclared names in text, maths, arguments, footnotes, comments, '
                          'skipped regions, uses before definitions; run with --unkn; expected list = undeclared names in order of first text-mode '
                          'expansion, from the AST; non-trivial = at least one unknown name expected')
    results = semrun.run_cases(ctx, cases)
    for c, r in zip(cases, results):
        exp = semrun.expected(c)
        if exp is None:
            ctx.count('unsupported'); continue
        ctx.case(c['src'], nontrivial=len(exp.unknowns) > 0)
        ctx.count('outcome_' + r['outcome']); ctx.count('unknown_names', len(exp.unknowns))
        fails = judge(c, r, exp)
        if fails:
            ctx.violation(fails[0], src=c['src'], opts=c['opts'], expected=exp.unknowns)
        if len(ctx.samples) < 3 and exp.unknowns:
            ctx.sample({'src': c['src'][:300], 'expected_unknowns': exp.unknowns})
    corr.t2t(ctx, cases, results, proj=('outcome', 'unknowns', 'text'), limit=ctx.scale(900, 20000))
    shell_cases(ctx)

def shell_list(case):
    """the shell's --list-unknown prints the list of the library, one name per line"""
    import shellrun
    r = shellrun.run_shell({'files': {'d.tex': case['src']}, 'main': ['d.tex'], 'args': ['--list-unknown', '--packages', '*'] + list(case.get('extra') or []), 'spec': {}})
    a = t2t.run_case({'src': case['src'], 'opts': {'pack': '*', 'unkn': True}, 'multi': False, 'want_toks': False})
    return r, a

def shell_cases(ctx):
    rng = ctx.rng
    import gen
    names = gen.Names(rng)
    cases = []
    for _ in range(ctx.scale(12, 200)):
        envs = rng.sample(['my remark', 'proof of claim', 'claim', 'remarque', 'long env name here', 'x y'], 2)
        src = '%s \\mycmd{%s} \\begin{%s} %s \\end{%s}\n\\foo %s \\begin{%s}\n%s \\zzz\n\\end{%s} $\\mathonly$ %s\n' % (
            names.word(), names.word(), envs[0], names.word(), envs[0], names.word(), envs[1], names.word(), envs[1], names.word())
        cases.append({'src': src, 'extra': rng.choice([[], ['--multi-language'], ['--output', 'html'], ['--single-letters', 'a'], ['--multi-language', '--language', 'de-DE']])})
    for c, (r, a) in zip(cases, ctx.pmap(shell_list, cases)):
        ctx.case(('shell', c['src'])); ctx.count('shell_list_cases')
        if r['rc'] != 0 or a['outcome'] != 'ok':
            continue
        got = [l for l in r['stdout'].split('\n') if l != '' and not l.startswith('===')]
        want = [l for l in a['txt'].split('\n') if l != '']
        if got != want:
            ctx.violation('yalafi.shell --list-unknown %s prints %r, the list of the library is %r' % (' '.join(c['extra']), got, want), src=c['src'], opts={}, kind='shell-list', extra=c['extra'])

def judge_witness(w):
    c = {'src': w['src'], 'opts': dict(w.get('opts') or {}, unkn=True), 'multi': False}
    r = t2t.run_case(c)
    class E: pass
    e = E(); e.unknowns = w.get('expect', [])
    return judge(c, r, e)

def replay(data):
    v = data['violation']
    if v.get('kind') == 'shell-list':
        r, a = shell_list({'src': v['src'], 'extra': v.get('extra')})
        got = [l for l in r['stdout'].split('\n') if l != '' and not l.startswith('===')]
        want = [l for l in (a.get('txt') or '').split('\n') if l != '']
        print('ok' if got == want else 'shell prints %r, library %r' % (got, want))
        return got == want
    f = judge_witness({'src': v['src'], 'opts': v.get('opts'), 'expect': v.get('expected', [])})
    print('\n'.join(f) if f else 'ok')
    return not f
