"""C09 — user macro definitions expand by TeX substitution, in order, from any source."""
import t2t, corr, semrun, sem, gen

OBLIGATIONS = ['Yalafi.C09_genRepl_nil', 'Yalafi.C09_setMacro_lookup', 'Yalafi.C09_setMacro_other', 'Yalafi.C09_pyIndex', 'Yalafi.C09_genRepl_subst',
               'Yalafi.C09_newcommand_e2e', 'Yalafi.C09_newcommand_example_current',
               'Yalafi.C09_newcommand_args_e2e', 'Yalafi.C09_newcommand_args_kept_e2e', 'Yalafi.C09_newcommand_args_current',
               'Yalafi.C09_newcommand_args_simple_current', 'Yalafi.C09_newcommand_args_current_ref', 'Yalafi.C09_newcommand_args_current_e2e',
               'Yalafi.C09_defs_route_e2e', 'Yalafi.C09_defs_vs_document', 'Yalafi.C09_defs_route_current', 'Yalafi.C09_defs_vs_document_current', 'Yalafi.C09_defs_vs_document_current_e2e', 'Yalafi.C09_defs_vs_document_current_eval', 'Yalafi.C09_defs_vs_document_variant_eval', 'Yalafi.C09_renewcommand_default_e2e', 'Yalafi.C09_renewcommand_default_current', 'Yalafi.C09_renewcommand_default_current_e2e', 'Yalafi.C09_renewcommand_default_current_eval',
               'Yalafi.C09_def_e2e', 'Yalafi.C09_def_current', 'Yalafi.C09_def_current_ref', 'Yalafi.C09_def_current_e2e', 'Yalafi.C09_def_current_eval', 'Yalafi.C09_nested_uses_e2e', 'Yalafi.C09_nested_uses_machine', 'Yalafi.C09_nested_uses_current', 'Yalafi.C09_nested_uses_current_ref', 'Yalafi.C09_nested_uses_current_e2e', 'Yalafi.C09_nested_uses_current_eval', 'Yalafi.C09_single_token_args_e2e', 'Yalafi.C09_single_token_args_machine', 'Yalafi.C09_single_token_args_current', 'Yalafi.C09_single_token_args_current_ref', 'Yalafi.C09_single_token_args_current_e2e', 'Yalafi.C09_single_token_args_current_eval']

BODY_ONLY = {'c_group', 'c_unknown', 'c_vanish', 'c_ref', 'c_usermacro', 'c_cite', 'c_inline_math', 'c_itemize', 'c_footnote',
             'c_newcommand', 'c_def', 'c_env_unknown'}

def make_case(rng):
    """definitions D (only definitions and line breaks) and a document X that uses them"""
    g = gen.G(rng, {'only': BODY_ONLY, 'heading_footnotes': False})
    defs = []
    for _ in range(rng.randint(1, 4)):
        d = rng.choice([g.c_newcommand, g.c_newcommand, g.c_def])()
        # keep bodies to words and parameters: verbatim / specials are covered elsewhere
        d['m']['body'] = [b for b in d['m']['body'] if b['t'] in ('word', 'param')] or [g.word()]
        defs += [d, {'t': 'ws', 's': '\n'}]
    dast = {'t': 'seq', 'items': defs}
    rd = gen.R(); gen.render(dast, rd)
    xast = {'t': 'seq', 'items': [g.word(), {'t': 'ws', 's': ' '}] + g.document(rng.randint(2, 6))['items']}
    rx = gen.R(); gen.render(xast, rx)
    full = {'t': 'seq', 'items': defs + xast['items']}
    return {'D': rd.src(), 'X': rx.src(), 'ast': full, 'opts': {'pack': '*', 'lang': rng.choice(['', 'de'])}}

def runs(case):
    D, X, o = case['D'], case['X'], case['opts']
    inp = '\\LTinput{d.tex}\n'
    return [
        {'src': D + X, 'opts': o, 'multi': False, 'want_toks': False},
        {'src': X, 'opts': dict(o, defs=D), 'multi': False, 'want_toks': False},
        {'src': inp + X, 'opts': o, 'multi': False, 'want_toks': False,
         'files': {'d.tex': {'hex': D.encode(case['enc']).hex()} if case.get('enc') else D}},
    ]

def enc_cases(rng):
    """the input encoding of the run applies to every file the filter reads: definitions holding non-ASCII characters,
    supplied in the document, as --defs text, and in an \\LTinput file stored in that encoding"""
    out = []
    for enc in ('latin-1', 'cp1252', 'iso-8859-15', 'utf-8', 'utf-16'):
        for _ in range(3):
            w = ['Q' + ''.join(rng.choice('abcdefghijklmnop') for _ in range(4)) for _ in range(4)]
            body = rng.choice(['Stra\u00dfe', 'caf\u00e9', '\u00fcber', 'na\u00efve', 'A\u00f1o'])
            D = rng.choice(['\\newcommand{\\zzenc}[1]{%s %s #1}\n', '\\def\\zzenc#1{#1 %s %s}\n']) % (w[0], body)
            X = '%s \\zzenc{%s} %s\n' % (w[1], w[2], w[3])
            out.append({'D': D, 'X': X, 'ast': None, 'enc': enc, 'opts': {'pack': '*', 'lang': rng.choice(['', 'de']), 'ienc': enc}})
    return out

def odd_name_cases(rng):
    """a definition and a use for every macro name that lies next to a control word the parser treats specially
    (\\g, \\gd, \\de, \\beg, \\ite, \\ver, \\newc ...): expands like any other name, from every source"""
    out = []
    for nm in gen.odd_macro_names():
        w = ['Q' + ''.join(rng.choice('abcdefghijklmnop') for _ in range(4)) for _ in range(5)]
        D = rng.choice(['\\newcommand{%s}[1]{%s #1 %s}\n', '\\def%s#1{%s #1 %s}\n', '\\newcommand%s[1]{%s #1 %s}\n']) % (nm, w[0], w[1])
        X = '%s %s{%s} %s\n' % (w[2], nm, w[3], w[4])
        out.append({'D': D, 'X': X, 'ast': None, 'opts': {'pack': '*', 'lang': ''}, 'expect': [w[2], w[0], w[3], w[1], w[4]], 'odd': nm})
    return out

def run_one(case):
    return [t2t.run_case(c) for c in runs(case)]

def judge(case, rs):
    fails = []
    if any(r['outcome'] != 'ok' for r in rs):
        return fails
    a, b, c = rs
    dl, il = len(case['D']), len('\\LTinput{d.tex}\n')
    def norm(r, shift):
        t = r['txt']
        k = len(t) - len(t.lstrip('\n'))
        return t[k:], [p - shift for p in r['pos'][k:]]
    na, nb, nc = norm(a, dl), norm(b, 0), norm(c, il)
    if na[0] != nb[0] or nc[0] != nb[0]:
        fails.append('text differs between the supply routes: in-document %r / --defs %r / \\LTinput %r' % (na[0][:80], nb[0][:80], nc[0][:80]))
    elif na[1] != nb[1]:
        fails.append('positions are not shifted by the constant %d between in-document definitions and --defs' % dl)
    elif nc[1] != nb[1]:
        fails.append('positions are not shifted by the constant %d between \\LTinput and --defs' % il)
    # the definition lines leave no text: nothing but line breaks before the first word
    if a['txt'].strip() and not a['txt'].lstrip('\n').startswith(b['txt'].lstrip('\n')[:5]):
        fails.append('definition lines leave text')
    # substitution semantics
    if case.get('expect') is not None and not fails:
        got = [w for w, _ in semrun.out_words(b['txt'])]
        if got != case['expect']:
            fails.append('macro %s: expansion gives the words %r, TeX substitution gives %r (text %r)' % (case.get('odd'), got, case['expect'], b['txt']))
    if case.get('ast') is None:
        return fails
    try:
        exp = sem.evaluate(case['ast'])
    except sem.Unsupported:
        return fails
    got = [w for w, _ in semrun.out_words(b['txt'])]
    want = [w for w, _ in exp.seq]
    got = [w for w in got if w not in exp.hidden]
    if got != want and not exp.nested:
        fails.append('expansion differs from TeX substitution: expected words %r, got %r' % (want[:12], got[:12]))
    return fails

def run(ctx):
    n = ctx.scale(500, 12000)
    rng = ctx.rng
    cases = [make_case(rng) for _ in range(n)] + enc_cases(rng) + odd_name_cases(rng)
    ctx.stats['_rule'] = ('sets of 1-4 non-recursive definitions (\\newcommand/\\renewcommand with 0-3 parameters and optional default, \\def) and '
                          'documents using them at any nesting depth, before and after the definitions; three supply routes (in document, --defs, '
                          '\\LTinput); non-trivial = at least one use of a defined macro')
    results = ctx.pmap(run_one, cases)
    flat_c, flat_r = [], []
    for c, rs in zip(cases, results):
        uses = c['X'].count('\\m') + c['X'].count('\\d') + c['X'].count('\\zzenc')
        ctx.case((c['D'], c['X']), nontrivial=uses > 0)
        ctx.count('outcome_' + '/'.join(r['outcome'] for r in rs))
        fails = judge(c, rs)
        if fails:
            ctx.violation(fails[0], D=c['D'], X=c['X'], opts=c['opts'], src=c['D'] + c['X'], enc=c.get('enc'), expect=c.get('expect'), odd=c.get('odd'))
        if len(ctx.samples) < 3:
            ctx.sample({'D': c['D'], 'X': c['X'][:200], 'out': rs[1].get('txt', '')[:200]})
        for cc, rr in zip(runs(c), rs):
            if c.get('enc'):
                ctx.count('input_encoding_' + c['enc'])
                cc = dict(cc, files={'d.tex': c['D']} if cc.get('files') else None)     # the model reads decoded text
            flat_c.append(cc); flat_r.append(rr)
    corr.t2t(ctx, flat_c, flat_r, proj=('outcome', 'text'), limit=ctx.scale(1200, 20000))
    # uses before the definition are unknown; a (re)definition affects later uses only
    oc = []
    for _ in range(ctx.scale(400, 8000)):
        g = gen.G(rng, {'only': BODY_ONLY, 'heading_footnotes': False})
        d1 = g.c_newcommand(); d1['m']['body'] = [b for b in d1['m']['body'] if b['t'] in ('word', 'param')] or [g.word()]
        m = d1['m']
        def call():
            args = []
            for k in range(m['nargs']):
                if k == 0 and m['opt'] is not None:
                    args.append(g.optarg() if rng.random() < 0.5 else None)
                else:
                    args.append(g.optarg())
            return {'t': 'call', 'm': m, 'args': args, 'single': False, 'sp': ''}
        items = [g.word(), {'t': 'ws', 's': ' '}]
        if m['opt'] is None:       # an unknown macro does not take [..]: keep the early use to braced arguments
            items += [call(), {'t': 'ws', 's': ' '}, g.word(), {'t': 'ws', 's': '\n'}]
        items += [d1, {'t': 'ws', 's': '\n'}, g.word(), {'t': 'ws', 's': ' '}, call(), {'t': 'ws', 's': ' '}]
        if rng.random() < 0.5:
            d2 = g.c_newcommand(); d2['m']['name'] = m['name']; d2['m']['nargs'] = m['nargs']; d2['m']['opt'] = m['opt']
            d2['m']['cmd'] = '\\renewcommand'
            d2['m']['body'] = [b for b in d2['m']['body'] if b['t'] == 'word' or (b['t'] == 'param' and b['n'] <= m['nargs'])] or [g.word()]
            m2 = d2['m']
            items += [d2, {'t': 'ws', 's': '\n'}, g.word(), {'t': 'ws', 's': ' '},
                      {'t': 'call', 'm': m2, 'args': [g.optarg() if not (k == 0 and m2['opt'] is not None) or rng.random() < 0.5 else None for k in range(m2['nargs'])], 'single': False, 'sp': ''}]
        items += [{'t': 'ws', 's': ' '}, g.word()]
        ast = {'t': 'seq', 'items': items}
        r = gen.R(); gen.render(ast, r)
        oc.append({'src': r.src(), 'opts': {'pack': '*'}, 'multi': False, 'ast': ast, 'want_toks': False})
    ors = ctx.pmap(t2t.run_case, [{k: v for k, v in c.items() if k != 'ast'} for c in oc])
    for c, r in zip(oc, ors):
        ctx.case(c['src']); ctx.count('order_cases')
        if r['outcome'] != 'ok':
            continue
        try:
            exp = sem.evaluate(c['ast'])
        except sem.Unsupported:
            continue
        got = [w for w, _ in semrun.out_words(r['txt']) if w not in exp.hidden]
        want = [w for w, _ in exp.seq]
        if got != want:
            ctx.violation('use before / after (re)definition: expected words %r, got %r' % (want, got), src=c['src'], opts=c['opts'],
                          D='', X=c['src'], case=semrun.pack(c))
    reload_cases(ctx)
    # repeated uses of one definition with the optional argument omitted: every use gets the default
    rc = []
    for _ in range(ctx.scale(150, 3000)):
        ast, r = gen.repeat_doc(rng)
        rc.append({'src': r.src(), 'opts': {'pack': '*'}, 'multi': False, 'ast': ast, 'want_toks': False})
    rr = ctx.pmap(t2t.run_case, [{k: v for k, v in c.items() if k != 'ast'} for c in rc])
    for c, r in zip(rc, rr):
        ctx.case(c['src']); ctx.count('repeat_cases')
        if r['outcome'] != 'ok':
            continue
        try:
            exp = sem.evaluate(c['ast'])
        except sem.Unsupported:
            continue
        got = [w for w, _ in semrun.out_words(r['txt']) if w not in exp.hidden]
        want = [w for w, _ in exp.seq]
        if got != want:
            ctx.violation('repeated uses of a definition: expected words %r, got %r' % (want, got), src=c['src'], opts=c['opts'],
                          D='', X=c['src'], case=semrun.pack(c))

def reload_cases(ctx):
    """the same definition file read twice with a redefinition in between: every \\LTinput reads the file again
    (metamorphic: the document with the file's text pasted in gives the same words)"""
    rng = ctx.rng
    names = gen.Names(rng)
    out = []
    for _ in range(ctx.scale(40, 800)):
        w = [names.word() for _ in range(12)]
        k = rng.choice([0, 1])
        filetext = ('\\def\\rx#1{(%s#1)}\n' % w[0]) if k else ('\\newcommand{\\rx}[1]{%s #1}\n' % w[0])
        redef = rng.choice(['\\def\\rx#1{(%s#1)}', '\\renewcommand{\\rx}[1]{%s #1}']) % w[1]
        parts = ['@IN@', '%s \\rx{%s}.\n' % (w[2], w[3]), redef + '\n', '%s \\rx{%s}.\n' % (w[4], w[5]), '@IN@', '%s \\rx{%s}, \\rx %s.\n' % (w[6], w[7], w[8][1])]
        if rng.random() < 0.4:
            parts += [redef + '\n', '@IN@', '%s \\rx{%s}' % (w[9], w[10])]
        a = ''.join(p if p != '@IN@' else '\\LTinput{rx.tex}\n' for p in parts)
        b = ''.join(p if p != '@IN@' else filetext for p in parts)
        out.append(({'src': a, 'files': {'rx.tex': filetext}, 'opts': {'pack': '*'}, 'multi': False, 'want_toks': False},
                    {'src': b, 'opts': {'pack': '*'}, 'multi': False, 'want_toks': False}))
    flat = [c for pair in out for c in pair]
    res = ctx.pmap(t2t.run_case, flat)
    for i, (ca, cb) in enumerate(out):
        ra, rb = res[2 * i], res[2 * i + 1]
        ctx.case(ca['src']); ctx.count('reload_cases')
        if ra['outcome'] != 'ok' or rb['outcome'] != 'ok':
            continue
        wa = [x for x, _ in semrun.out_words(ra['txt'])]; wb = [x for x, _ in semrun.out_words(rb['txt'])]
        if wa != wb:
            ctx.violation('a definition file read again with \\LTinput after a redefinition: words %r, with the file pasted in place %r' % (wa, wb),
                          src=ca['src'], opts=ca['opts'], files=ca['files'], pasted=cb['src'], kind='reload', D='', X=ca['src'])
    corr.t2t(ctx, [c for c, _ in out], [res[2 * i] for i in range(len(out))], proj=('outcome', 'text'), limit=len(out))

def judge_witness(w):
    if w.get('kind') == 'reload':
        ra = t2t.run_case({'src': w['src'], 'files': w['files'], 'opts': w['opts'], 'multi': False, 'want_toks': False})
        rb = t2t.run_case({'src': w['pasted'], 'opts': w['opts'], 'multi': False, 'want_toks': False})
        if ra['outcome'] == 'ok' and rb['outcome'] == 'ok':
            wa = [x for x, _ in semrun.out_words(ra['txt'])]; wb = [x for x, _ in semrun.out_words(rb['txt'])]
            return [] if wa == wb else ['words %r, with the file pasted in place %r' % (wa, wb)]
        return []
    c = {'D': w['D'], 'X': w['X'], 'opts': w.get('opts') or {}, 'ast': {'t': 'seq', 'items': []}, 'enc': w.get('enc'), 'expect': w.get('expect'), 'odd': w.get('odd')}
    return [f for f in judge(c, run_one(c)) if 'substitution' not in f]

def replay(data):
    v = data['violation']
    if v.get('case'):
        c = semrun.unpack(v['case'])
        r = t2t.run_case({k: x for k, x in c.items() if k != 'ast'})
        f = []
        if r['outcome'] == 'ok':
            try:
                exp = sem.evaluate(c['ast'])
                got = [w for w, _ in semrun.out_words(r['txt']) if w not in exp.hidden]
                want = [w for w, _ in exp.seq]
                if got != want:
                    f = ['use before / after (re)definition: expected words %r, got %r' % (want, got)]
            except sem.Unsupported:
                pass
        print('\n'.join(f) if f else 'ok')
        return not f
    f = judge_witness(v)
    print('\n'.join(f) if f else 'ok (route equivalence; the substitution oracle needs the AST)')
    return not f
