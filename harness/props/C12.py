"""C12 — multi-language mode assigns every word to exactly one part of the right language."""
import t2t, corr, semrun, gen, impl

OBLIGATIONS = ['Yalafi.C12_sections_conserve', 'Yalafi.C12_sections_wf', 'Yalafi.C12_stack', 'Yalafi.C12_parts', 'Yalafi.C12_langs_nodup',
               'Yalafi.C12_total', 'Yalafi.C12_removeLines_lang',
               'Yalafi.Generated.initParser_babel', 'Yalafi.PlainLang.C12_selectlanguage_e2e', 'Yalafi.PlainLang.C12_word_one_part', 'Yalafi.PlainLang.C12_part_language', 'Yalafi.PlainLang.C12_textChars_source', 'Yalafi.PlainLang.C12_selectlanguage_e2e_current',
               'Yalafi.PlainForeign.C12_foreignlanguage_e2e', 'Yalafi.PlainForeign.C12_short_insertion_one_placeholder', 'Yalafi.PlainForeign.C12_foreign_words_own_part', 'Yalafi.PlainForeign.C12_main_words_main_part', 'Yalafi.PlainForeign.C12_foreignlanguage_e2e_current',
               'Yalafi.PlainLangMix.C12_mixed_languages_e2e', 'Yalafi.PlainLangMix.C12_mix_word_language', 'Yalafi.PlainLangMix.C12_mix_word_once', 'Yalafi.PlainLangMix.C12_mix_nesting', 'Yalafi.PlainLangMix.C12_mix_textChars_source', 'Yalafi.PlainLangMix.C12_mixed_languages_e2e_current']

ONLY = {'c_group', 'c_unknown', 'c_vanish', 'c_foreign', 'c_otherlanguage', 'c_selectlanguage', 'c_footnote', 'c_ref'}

_MAP = {}
def lang_map():
    if not _MAP:
        impl.load()
        import importlib
        b = importlib.import_module('yalafi.packages.babel')
        _MAP.update(b.language_map)
    return _MAP

def word_langs(ast, main):
    """language in force at every literal word, by the documented commands (reference)"""
    lm = lang_map()
    out = {}
    flows = []
    def tr(name):
        return lm.get(name, lm['english'])
    def ev(n, stack):
        t = n['t']
        if t == 'seq':
            for it in n['items']:
                ev(it, stack)
        elif t == 'word':
            out[n['w']] = stack[-1]
        elif t in ('group',):
            ev(n['body'], stack)
        elif t == 'unknown':
            for a in n['args']:
                ev(a, stack)
        elif t in ('foreign', 'otherlanguage'):
            stack.append(tr(n['lang']))
            ev(n['body'], stack)
            stack.pop()
        elif t == 'selectlanguage':
            stack[-1] = tr(n['lang'])
        elif t == 'footnote':
            ev(n['body'], [stack[-1]])
    ev(ast, [main])
    return out

def has_same_lang_nesting(ast, main):
    """class of the recorded finding: a language switch to the language already in force"""
    lm = lang_map()
    found = []
    def tr(name):
        return lm.get(name, lm['english'])
    def ev(n, stack):
        t = n.get('t')
        if t == 'seq':
            for it in n['items']:
                ev(it, stack)
        elif t in ('group',):
            ev(n['body'], stack)
        elif t == 'unknown':
            for a in n['args']:
                ev(a, stack)
        elif t in ('foreign', 'otherlanguage'):
            if tr(n['lang']) == stack[-1]:
                found.append(1)
            stack.append(tr(n['lang'])); ev(n['body'], stack); stack.pop()
        elif t == 'selectlanguage':
            stack[-1] = tr(n['lang'])
        elif t == 'footnote':
            ev(n['body'], [stack[-1]])
    ev(ast, [main])
    return bool(found)

def judge(case, res, single):
    fails = []
    if res['outcome'] != 'ok':
        return fails
    main = case.get('main_lang', case['opts'].get('lang') or '')
    want = word_langs(case['ast'], main)
    where = {w['w']: w['start'] for w in case['words'] if w['role'] in ('copy', 'detached')}
    seen = {}
    for lang, parts in res['parts']:
        for (t, p) in parts:
            if len(t) != len(p):
                fails.append('part with unequal lengths'); return fails
            for w, i in semrun.out_words(t):
                seen.setdefault(w, []).append((lang, p[i:i + len(w)]))
    for w, lang in want.items():
        occ = seen.get(w, [])
        if len(occ) != 1:
            fails.append('word %r appears in %d parts (expected exactly one)' % (w, len(occ))); break
        l, ps = occ[0]
        if l != lang:
            fails.append('word %r is labelled %r, language in force is %r' % (w, l, lang)); break
        st = where.get(w)
        if st is not None and ps != list(range(st + 1, st + 1 + len(w))):
            fails.append('word %r at offset %d maps to %r' % (w, st + 1, ps)); break
    # together the parts contain the same words as the single-language run
    if single and single['outcome'] == 'ok':
        a = sorted(w for w, _ in semrun.out_words(single['txt']))
        b = sorted(w for w in seen for _ in seen[w])
        if a != b:
            fails.append('words of all parts %r differ from the single-language run %r' % (b[:8], a[:8]))
    return fails

_LC = {}
def change_collection(code):
    if code not in _LC:
        m = impl.load()
        _LC[code] = list(m.parameters.Parameters(code[:2]).lang_context.lang_change_repl)
    return _LC[code]

def insertion_cases(rng, n):
    """short foreign insertions inside sentences of en / de / ru text, the document ending in yet another language: the
    insertion is represented, in the surrounding part, by exactly one placeholder of the language-change collection of
    the language of that part"""
    L = {'en-GB': 'english', 'de-DE': 'german', 'ru-RU': 'russian'}
    out = []
    for _ in range(n):
        used = set()
        def w():
            while True:                 # unique words of one length: none is a prefix of another
                x = 'Q' + ''.join(rng.choice('abcdefghijklmnopqrstuvwxyz') for _ in range(4))
                if x not in used:
                    used.add(x); return x
        main = rng.choice(list(L))
        cur = main
        parts = ['\\usepackage{babel}\n']
        exp = []          # (language of the surrounding part, word before, word after)
        thresh = rng.choice([1, 2, 3, 5])
        def w2():
            # a "word" of the insertion is what stands between white space: hyphenated compounds, apostrophes and
            # abbreviation dots do not make it several words
            k = rng.random()
            if k < 0.55:
                return w()
            if k < 0.75:
                return '-'.join(w() for _ in range(rng.randint(2, 4)))
            if k < 0.9:
                return w() + "'" + w()[1:]
            return w() + '.' + w()[1:] + '.'
        for _ in range(rng.randint(1, 3)):
            other = rng.choice([l for l in L if l != cur])
            a, b, c2 = w(), w(), w()
            ins = ' '.join(w2() for _ in range(rng.randint(1, thresh)))
            form = rng.choice(['\\foreignlanguage{%s}{%s}', '\\begin{otherlanguage*}{%s}%s\\end{otherlanguage*}'])
            parts.append('%s %s %s %s %s.\n' % (a, b, form % (L[other], ins), c2, w()))
            exp.append((cur, b, c2))
            if rng.random() < 0.6:
                cur = rng.choice(list(L))
                parts.append('\\selectlanguage{%s}\n' % L[cur])
                parts.append('%s %s.\n' % (w(), w()))
        out.append({'src': ''.join(parts), 'opts': {'lang': main, 'pack': '*'}, 'multi': True, 'thresh': thresh, 'kind': 'insertion', 'exp': exp})
    return out

def scope_end_cases(rng):
    """a construct that looks ahead for an optional argument (\\\\, \\item, a macro with trailing optional argument) as the LAST thing inside
    a language scope, and a bracket behind the scope: the words behind the scope carry the language in force there"""
    L = {'en-GB': 'english', 'de-DE': 'german', 'ru-RU': 'russian'}
    out = []
    for main in L:
        for other in L:
            if other == main:
                continue
            for form in ['\\foreignlanguage{%s}{%s}', '\\begin{otherlanguage*}{%s}%s\\end{otherlanguage*}', '\\begin{otherlanguage}{%s}%s\\end{otherlanguage}']:
                for last in ['\\\\', '\\\\ ', '\\\\\n', ' \\\\']:
                    for gap in [' ', '', '\n']:
                        for nw in (1, 4):
                            ws = ['Q' + ''.join(rng.choice('abcdefghijklmnopqrstuvwxyz') for _ in range(4)) for _ in range(nw + 5)]
                            if len(set(ws)) < len(ws):
                                continue
                            inner = ' '.join(ws[:nw]) + last
                            src = '\\usepackage{babel}\n%s %s%s[%s] %s %s.\n' % (ws[nw], form % (L[other], inner), gap, ws[nw + 1], ws[nw + 2], ws[nw + 3])
                            exp = {ws[nw]: main, ws[nw + 2]: main, ws[nw + 3]: main}
                            for x in ws[:nw]:
                                exp[x] = other
                            out.append({'src': src, 'opts': {'lang': main, 'pack': '*'}, 'multi': True, 'thresh': 3, 'kind': 'scope-end', 'expect_lang': exp})
    return out
def judge_scope_end(c, r):
    if r['outcome'] != 'ok':
        return []
    lab = {}
    for lang, parts in r['parts']:
        for (t, p) in parts:
            for x, _ in semrun.out_words(t):
                lab.setdefault(x, []).append(lang)
    return ['word %r labelled %r, expected %r (a look-ahead at the end of a language scope)' % (x, lab.get(x), l)
            for x, l in c['expect_lang'].items() if lab.get(x) != [l]]

def judge_insertion(c, r):
    if r['outcome'] != 'ok':
        return []
    for (lang, before, after) in c['exp']:
        coll = change_collection(lang)
        found = None
        for l, ps in r['parts']:
            for (t, p) in ps:
                i = t.find(before + ' ')
                j = t.find(after)
                if i >= 0 and j > i:
                    found = (l, t[i + len(before):j].strip())
        if found is None:
            return ['the sentence around the insertion between %r and %r is not kept in one part: %r' % (before, after, [(l, [t for t, _ in ps]) for l, ps in r['parts']])]
        if found[0] != lang:
            return ['the sentence with %r stands in a part labelled %r, language in force is %r' % (before, found[0], lang)]
        if found[1] not in coll:
            return ['a short foreign insertion in %s text is represented by %r; the language-change collection of that language is %r' % (lang, found[1], coll)]
    return []

def run_pair(c):
    slim = {k: v for k, v in c.items() if k not in ('ast', 'words', 'spans', 'callspans')}
    return t2t.run_case(slim), t2t.run_case(dict(slim, multi=False, want_toks=False))

def run(ctx):
    n = ctx.scale(900, 25000)
    rng = ctx.rng
    cases = []
    for _ in range(n):
        c = semrun.make_case(rng, profile={'only': ONLY, 'heading_footnotes': False, 'max_depth': 4},
                             opts={'lang': rng.choice(['en-GB', 'de-DE', 'ru-RU', 'fr', 'en-US', '']), 'pack': '*'})
        c['multi'] = True
        c['thresh'] = rng.randint(0, 5)
        cases.append(c)
    # a scope for the language that is already in force, nested in another scope, followed by a detached flow (on purpose)
    import gen
    SAME = {'german': ['german', 'ngerman'], 'russian': ['russian'], 'french': ['french'], 'english': ['english', 'american']}
    for _ in range(max(40, n // 15)):
        g = gen.G(rng, {'only': ONLY, 'heading_footnotes': False, 'max_depth': 2})
        outer = rng.choice(list(SAME))
        inner = {'t': 'foreign', 'lang': rng.choice(SAME[outer]), 'body': {'t': 'seq', 'items': [g.word(), {'t': 'ws', 's': ' '}, g.word()]}}
        if rng.random() < 0.4:
            inner = {'t': 'otherlanguage', 'lang': rng.choice(SAME[outer]), 'star': rng.random() < 0.3, 'body': inner['body']}
        fn = {'t': 'footnote', 'name': '\\footnote', 'opt': None, 'body': {'t': 'seq', 'items': [g.word(), {'t': 'ws', 's': ' '}, g.word()]}}
        body = {'t': 'seq', 'items': [g.word(), {'t': 'ws', 's': ' '}, inner, {'t': 'ws', 's': ' '}, g.word(), fn, {'t': 'ws', 's': ' '}, g.word()]}
        scope = ({'t': 'otherlanguage', 'lang': outer, 'star': False, 'body': body} if rng.random() < 0.6
                 else {'t': 'foreign', 'lang': outer, 'body': body})
        ast = {'t': 'seq', 'items': [g.word(), {'t': 'ws', 's': '\n'}, scope, {'t': 'ws', 's': '\n'}, g.word(), {'t': 'ws', 's': ' '}, g.word()]}
        r = gen.R(); gen.render(ast, r)
        cases.append({'src': r.src(), 'opts': {'lang': rng.choice(['en-GB', 'de-DE', 'ru-RU', '']), 'pack': '*'}, 'multi': True,
                      'thresh': rng.randint(0, 5), 'kind': 'sem', 'ast': ast, 'words': r.words, 'spans': r.spans, 'callspans': r.callspans})
    # a language switch inside a detached flow: the words in front of it belong to the language in force at the footnote
    for _ in range(max(40, n // 15)):
        g = gen.G(rng, {'only': ONLY, 'heading_footnotes': False, 'max_depth': 2})
        sw = {'t': 'selectlanguage', 'lang': rng.choice(['english', 'german', 'russian', 'french'])}
        fn = {'t': 'footnote', 'name': rng.choice(['\\footnote', '\\footnotetext']), 'opt': None,
              'body': {'t': 'seq', 'items': [g.word(), {'t': 'ws', 's': ' '}, g.word(), {'t': 'ws', 's': ' '}, sw, {'t': 'ws', 's': ' '},
                                             g.word(), {'t': 'ws', 's': ' '}, g.word()]}}
        items = [g.word(), {'t': 'ws', 's': ' '}, g.word(), fn]
        if rng.random() < 0.5:
            items = [{'t': 'selectlanguage', 'lang': rng.choice(['german', 'russian'])}, {'t': 'ws', 's': '\n'}] + items
        ast = {'t': 'seq', 'items': items}
        r = gen.R(); gen.render(ast, r)
        cases.append({'src': r.src(), 'opts': {'lang': rng.choice(['en-GB', 'de-DE', 'ru-RU']), 'pack': '*'}, 'multi': True,
                      'thresh': rng.randint(0, 5), 'kind': 'sem', 'ast': ast, 'words': r.words, 'spans': r.spans, 'callspans': r.callspans})
    # language options given to \\documentclass and to \\usepackage{babel}: the last language of class options + package options
    # is the language of the text (the initial language if neither names one)
    CLS = ['ngerman', 'english', 'russian', 'french', 'a4paper', '12pt', 'german', 'american']
    for _ in range(max(60, n // 10)):
        g = gen.G(rng, {'only': ONLY, 'heading_footnotes': False, 'max_depth': 2})
        co = rng.sample(CLS, rng.randint(0, 3)); po = rng.sample(CLS, rng.randint(0, 3))
        pre = ''
        if rng.random() < 0.85:
            pre += '\\documentclass' + ('[' + ','.join(co) + ']' if co else '') + '{' + rng.choice(['article', 'scrartcl', 'book']) + '}\n'
        else:
            co = []
        pre += '\\usepackage' + ('[' + ','.join(po) + ']' if po else '') + '{babel}\n'
        opts = {'lang': rng.choice(['en-GB', 'de-DE', 'ru-RU']), 'pack': rng.choice(['*', '', 'amsmath'])}
        lm = lang_map()
        named = [o for o in co + po if o in lm]
        main = lm[named[-1]] if named else opts['lang']
        ast = {'t': 'seq', 'items': [{'t': 'rawword', 'w': pre}] + g.document(rng.randint(2, 5))['items']}
        r = gen.R(); gen.render(ast, r)
        cases.append({'src': r.src(), 'opts': opts, 'multi': True, 'main_lang': main,
                      'thresh': rng.randint(0, 5), 'kind': 'sem', 'ast': ast, 'words': r.words, 'spans': r.spans, 'callspans': r.callspans})
    ctx.stats['_rule'] = ('documents of words, groups, unknown macros, footnotes mixed with \\selectlanguage, \\foreignlanguage and otherlanguage '
                          'environments in any nesting; thresholds 0..5; main languages en-GB/de-DE/ru-RU/fr/en-US/none; reference language per word '
                          'from a push/pop/replace-top reading of the AST; non-trivial = at least two languages expected')
    results = ctx.pmap(run_pair, cases)
    for c, (r, single) in zip(cases, results):
        main = c.get('main_lang', c['opts'].get('lang') or '')
        want = word_langs(c['ast'], main)
        ctx.case(c['src'], nontrivial=len(set(want.values())) >= 2)
        ctx.count('outcome_' + r['outcome']); ctx.count('languages', len(set(want.values())))
        fails = judge(c, r, single)
        if fails:
            if has_same_lang_nesting(c['ast'], main) and any(k['id'] == 'ml-same-language-push' for k in ctx.known):
                ctx.known_hits.setdefault('ml-same-language-push', {'what': next(k['line'] for k in ctx.known if k['id'] == 'ml-same-language-push'), 'count': 0})['count'] += 1
                continue
            ctx.violation(fails[0], src=c['src'], opts=c['opts'], thresh=c['thresh'], multi=True, case=semrun.pack(c))
        if len(ctx.samples) < 3 and len(set(want.values())) >= 2:
            ctx.sample({'src': c['src'][:300], 'parts': [(l, [t for t, _ in ps]) for l, ps in (r.get('parts') or [])]})
    ic = insertion_cases(rng, ctx.scale(200, 4000))
    ires = ctx.pmap(t2t.run_case, [{k: v for k, v in c.items() if k != 'exp'} for c in ic])
    for c, r in zip(ic, ires):
        ctx.case(c['src']); ctx.count('short_insertions', len(c['exp']))
        f = judge_insertion(c, r)
        if f:
            ctx.violation(f[0], src=c['src'], opts=c['opts'], thresh=c['thresh'], multi=True, insertion=c['exp'])
    corr.t2t(ctx, ic, ires, proj=('outcome', 'toks', 'text'), limit=len(ic))
    sc = scope_end_cases(rng)
    if ctx.tier != 'thorough':
        sc = rng.sample(sc, 150)
    sres = ctx.pmap(t2t.run_case, [{k: v for k, v in c.items() if k != 'expect_lang'} for c in sc])
    for c, r in zip(sc, sres):
        ctx.case(c['src']); ctx.count('look_ahead_at_scope_end')
        f = judge_scope_end(c, r)
        if f:
            ctx.violation(f[0], src=c['src'], opts=c['opts'], thresh=c['thresh'], multi=True, expect_lang=c['expect_lang'])
    corr.t2t(ctx, sc, sres, proj=('outcome', 'toks', 'text'), limit=len(sc))
    rs = [r for r, _ in results]
    corr.t2t(ctx, cases, rs, proj=('outcome', 'toks', 'text'), limit=ctx.scale(900, 20000))
    corr.leaf_corr(ctx, cases, rs, want=('ml',), limit=ctx.scale(400, 5000))

def judge_witness(w):
    if w.get('insertion'):
        c = {'src': w['src'], 'opts': w.get('opts') or {}, 'multi': True, 'thresh': w.get('thresh', 3), 'exp': [tuple(e) for e in w['insertion']]}
        return judge_insertion(c, t2t.run_case({k: v for k, v in c.items() if k != 'exp'}))
    c = {'src': w['src'], 'opts': w.get('opts') or {}, 'multi': True, 'thresh': w.get('thresh', 3)}
    r = t2t.run_case(c)
    if r['outcome'] != 'ok':
        return []
    lab = {}
    for lang, parts in r['parts']:
        for (t, p) in parts:
            for x, _ in semrun.out_words(t):
                lab.setdefault(x, []).append(lang)
    return ['word %r labelled %r, expected %r' % (x, lab.get(x), l) for x, l in w.get('expect_lang', {}).items() if lab.get(x) != [l]]

def rejudge(c):
    r, single = run_pair(c)
    return judge(c, r, single)

def replay(data):
    v = data['violation']
    if v.get('insertion'):
        f = judge_witness(v)
        print('\n'.join(f) if f else 'ok')
        return not f
    if not v.get('case'):
        print('no stored case; violation was:', v.get('what')); return True
    f = rejudge(semrun.unpack(v['case']))
    print('\n'.join(f) if f else 'ok')
    return not f
