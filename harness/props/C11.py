"""C11 — displayed equations follow the documented scheme and keep their punctuation."""
import re
import t2t, corr, semrun, gen, impl, mlmath

OBLIGATIONS = ['Yalafi.C11_rot_length', 'Yalafi.C11_detectParts_tok', 'Yalafi.C11_display_tokens',
               'Yalafi.C11_display_e2e', 'Yalafi.C11_display_single_e2e', 'Yalafi.C11_display_text', 'Yalafi.C11_display_span', 'Yalafi.C11_display_punct', 'Yalafi.C11_display_punct_kept', 'Yalafi.C11_display_punct_none', 'Yalafi.C11_current_facts', 'Yalafi.C11_display_example_current', 'Yalafi.C11_display_ref_current', 'Yalafi.C11_display_e2e_current',
               'Yalafi.C11_display_rows_e2e', 'Yalafi.C11_rows_one_line_per_row', 'Yalafi.C11_rows_span', 'Yalafi.C11_rows_no_source', 'Yalafi.C11_rows_punct', 'Yalafi.C11_rows_opword', 'Yalafi.C11_rows_first_noword', 'Yalafi.C11_rows_advance', 'Yalafi.C11_rows_current_facts', 'Yalafi.C11_display_rows_example_current', 'Yalafi.C11_display_rows_ref_current', 'Yalafi.C11_display_rows_e2e_current', 'Yalafi.C11_display_rows_eval_current', 'Yalafi.C11_rows_eqnarray_current', 'Yalafi.C11_rows_equation_current', 'Yalafi.C11_rows_eqnarray_eval_current']

ONLY = {'c_group', 'c_unknown', 'c_display', 'c_footnote', 'c_env_unknown'}

_P = {}
def params(lang):
    if lang not in _P:
        m = impl.load()
        p = m.parameters.Parameters(lang)
        lc = p.lang_context
        _P[lang] = {'display': list(lc.math_repl_display), 'op_text': dict(lc.math_op_text), 'punct': list(p.math_punctuation)}
    return _P[lang]

OPS = {'+', '-', '\\cdot', '\\times', '/', '=', '\\eq', '\\ne', '\\neq', '<', '>', '\\le', '\\leq', '\\ge', '\\geq', ':', '\\to',
       '\\cap', '\\cup', '\\Rightarrow', '\\Leftarrow', '\\Leftrightarrow', '\\subset', '\\subseteq', '\\supset', '\\supseteq', '\\stackrel'}
SPACES = {'~', '\\ ', '\\:', '\\,', '\\;', '\\quad', '\\qquad'}
IGNORE = {'{', '}', '\\!', '\\nonumber', '\\notag'}

def mtokens(s):
    """maths tokens of a section string: (class, text) with class elem | op | sp | ign"""
    out = []
    for m in re.finditer(r'\\[A-Za-z]+|\\.|\s+|.', s, flags=re.S):
        t = m.group(0)
        if t.isspace():
            continue
        if t in SPACES:
            out.append(('sp', ' '))
        elif t in IGNORE:
            continue
        elif t in OPS:
            out.append(('op', t))
        else:
            out.append(('elem', t))
    return out

class Ref:
    """the rewriting scheme of README.md, 'Parser for maths material'"""
    def __init__(self, lang):
        self.p = params(lang)
        self.repl = list(self.p['display'])
        self.next_repl = True
    def rotate(self):
        self.repl = self.repl[1:] + self.repl[:1]
    def part(self, toks, first_in_section, section_first_on_line):
        punct = self.p['punct']
        if all(c == 'sp' for c, _ in toks):
            return ' '
        out = ''
        if toks[0][0] == 'sp':
            out += ' '
        nonsp = [x for x in toks if x[0] != 'sp']
        op = nonsp[0] if nonsp[0][0] == 'op' else None
        elem = any(c == 'elem' and t not in punct for c, t in toks)
        lead = op is not None and first_in_section and not section_first_on_line
        if lead:
            out += ' ' + self.p['op_text'].get(op[1], self.p['op_text'][None]) + ' '
        if (self.next_repl or lead) and elem:
            self.rotate()
        if elem:
            out += self.repl[0]
        self.next_repl = False
        last = nonsp[-1][1][-1]
        if last in punct:
            out += last
            self.next_repl = True
        if op is not None and not elem:
            self.next_repl = True
        if toks[-1][0] == 'sp':
            out += ' '
        return out
    def section(self, sec, section_first_on_line):
        # split at \text{...}
        out = ''
        first = True
        pos = 0
        for m in re.finditer(r'\\text\{([^{}]*)\}', sec):
            mt = mtokens(sec[pos:m.start()])
            if mt:
                out += self.part(mt, first, section_first_on_line)
            out += m.group(1)
            if m.group(1).strip():
                first = False
                self.next_repl = True
            pos = m.end()
        mt = mtokens(sec[pos:])
        if mt:
            out += self.part(mt, first, section_first_on_line)
        return out
    def equation(self, node):
        rows = node['rows']
        lines = []
        self.next_repl = True        # every equation starts with a fresh placeholder
        tail = node['punct'] + node['tail']
        for ri, secs in enumerate(rows):
            parts = []
            for si, sec in enumerate(secs):
                s = sec
                if ri == len(rows) - 1 and si == len(secs) - 1:
                    s = sec + tail
                parts.append(self.section(s, si == 0))
            lines.append(' '.join(parts))
        out = '  ' + '\n  '.join(lines)
        fin = node.get('final', '')
        if fin.startswith(' \\\\'):
            out += '\n  '          # a final row separator opens an (empty) output line
        elif fin == ' &':
            out += ' '
        return out

def simple_ref(node, lang):
    p = params(lang)
    tail = node['punct']
    out = '  ' + p['display'][0]
    if tail and tail in p['punct']:
        out += tail
    return out

def judge(case, res):
    fails = []
    if res['outcome'] != 'ok':
        return fails
    if res['stderr']:
        return ['diagnostic on a well-formed document: %r' % res['stderr'][:100]]
    src, txt, pos = case['src'], res['txt'], res['pos']
    lang = case['opts'].get('lang') or ''
    spans = sorted((a, b) for (t, a, b) in case['spans'] if t == 'display')
    nodes = []
    def collect(n):
        if isinstance(n, dict):
            if n.get('t') == 'display':
                nodes.append(n)
            for k, v in n.items():
                if k != 'm':
                    collect(v)
        elif isinstance(n, list):
            for x in n:
                collect(x)
    collect(case['ast'])
    ref = Ref(lang)
    simple = bool(case['opts'].get('seqs'))
    for nd, (a, b) in zip(nodes, spans):
        got = ''.join(txt[i] for i, p in enumerate(pos) if a + 1 <= p <= b)
        if simple:
            # one placeholder of the display collection (which one is not prescribed) plus the final punctuation mark
            p = params(lang)
            tail = nd['punct'] if nd['punct'] in p['punct'] else ''
            ok = any(got.strip('\n') == '  ' + ph + tail for ph in p['display'])      # also with a final \\ or & behind the mark
            if not ok:
                fails.append('simple mode: equation %r is rendered %r, expected one placeholder plus %r' % (src[a:b], got, tail))
                break
            continue
        want = ref.equation(nd)
        # a detached flow anchored in the equation adds its separators: ignore line breaks at both ends
        g2, w2 = got.strip('\n'), want
        if nd.get('final', '').startswith(' \\\\'):
            g2, w2 = got.rstrip(' \n').lstrip('\n'), want.rstrip(' \n')     # the empty last line is trimmed by blank-line removal
        if g2 != w2 and any(not l.strip() for l in w2.split('\n')):
            # a row without visible output (an operator alone in the first column) leaves a line of blanks, which blank-line
            # removal may take away: compare the visible lines
            g2 = '\n'.join(l for l in g2.split('\n') if l.strip()); w2 = '\n'.join(l for l in w2.split('\n') if l.strip())
        if g2 != w2:
            fails.append('equation %r is rendered %r, the documented scheme gives %r' % (src[a:b], got, want))
            break
    for bad in ('\\alpha', '\\frac', '\\sqrt', '\\sum', 'f(x)', '\\mathbb', '\\beta', '\\xi', '^2', '_{', '\\label', '\\nonumber'):
        if bad in txt:
            fails.append('maths source %r appears in the output' % bad); break
    return fails

def no_nested_flows(ast):
    return True

def run(ctx):
    n = ctx.scale(900, 25000)
    rng = ctx.rng
    cases = []
    for _ in range(n):
        o = {'lang': rng.choice(['', 'en', 'de', 'ru']), 'pack': '*'}
        if rng.random() < 0.25:
            o['seqs'] = True
        c = semrun.make_case(rng, profile={'only': ONLY, 'heading_footnotes': False}, opts=o)
        cases.append(c)
    ctx.stats['_rule'] = ('documents with displayed equations in every equation environment of the tables, \\[..\\] and $$..$$: 1-3 rows, 1-3 alignment '
                          'sections, leading operators, \\text parts, maths spaces, trailing punctuation followed by \\label/\\nonumber/\\notag/maths space; '
                          'languages en/de/ru; simple mode on/off; expected rendering from a transcription of the README rules; non-trivial = an equation present')
    results = semrun.run_cases(ctx, cases)
    for c, r in zip(cases, results):
        neq = sum(1 for (t, a, b) in c['spans'] if t == 'display')
        ctx.case(c['src'], nontrivial=neq > 0)
        ctx.count('outcome_' + r['outcome']); ctx.count('equations', neq)
        fails = judge(c, r)
        if fails:
            ctx.violation(fails[0], src=c['src'], opts=c['opts'], case=semrun.pack(c))
        if len(ctx.samples) < 3 and neq:
            ctx.sample({'src': c['src'][:300], 'out': (r.get('txt') or '')[:200]})
    corr.t2t(ctx, cases, results, proj=('outcome', 'toks', 'text', 'diags'), limit=ctx.scale(900, 20000))
    # the operators an aligned section may start with (pinned list): operators with the same spoken word render alike
    OPS = ['+', '-', '\\cdot', '\\times', '/', '=', '\\eq', '\\ne', '\\neq', '<', '>', '\\le', '\\leq', '\\ge', '\\geq', ':', ':=', '\\to',
           '\\cap', '\\cup', '\\Rightarrow', '\\Leftarrow', '\\Leftrightarrow', '\\subset', '\\subseteq', '\\supset', '\\supseteq']
    WORDCLASS = {'+': 'plus', '-': 'minus', '\\cdot': 'times', '\\times': 'times', '/': 'over'}
    ocases = [{'src': 'Qa\n\\begin{align}\n a &%s b \\\\\n c &%s d, \\\\\n &%s e.\n\\end{align}\nQb' % (op, op, op), 'opts': {'pack': '*', 'lang': lang},
               'multi': False, 'kind': 'optable', 'op': op} for lang in ('en', 'de', 'ru') for op in OPS]
    ores = ctx.pmap(t2t.run_case, ocases)
    groups = {}
    for c, r in zip(ocases, ores):
        ctx.case(c['src'], nontrivial=True); ctx.count('operator_table_cases')
        if r['outcome'] == 'ok':
            groups.setdefault((c['opts']['lang'], WORDCLASS.get(c['op'], 'default')), []).append((c, r['txt']))
    for (lang, cls), lst in sorted(groups.items()):
        ref = max(set(t for _, t in lst), key=lambda t: sum(1 for _, u in lst if u == t))
        for c, t in lst:
            if t != ref:
                ctx.violation('an aligned section that starts with the operator %s is rendered %r, with the other operators of the same kind %r'
                              % (c['op'], t, ref), src=c['src'], opts=c['opts'], kind='optable', ref=ref)
                break
    corr.t2t(ctx, ocases, ores, proj=('outcome', 'toks', 'text'), limit=len(ocases))
    # several languages in one document: each language rotates its own collection
    docs = [mlmath.make(ctx.rng, display=True) for _ in range(ctx.scale(60, 1500))]
    flat, index = [], []
    for d in docs:
        full, per = mlmath.cases_of(d)
        index.append((len(flat), sorted(per)))
        flat += [full] + [per[l] for l in sorted(per)]
    res = ctx.pmap(t2t.run_case, flat)
    for d, (k, ls) in zip(docs, index):
        ctx.case(flat[k]['src'], nontrivial=True); ctx.count('multi_language_docs')
        fails = mlmath.judge(d, res[k], {l: res[k + 1 + j] for j, l in enumerate(ls)})
        if fails:
            ctx.violation(fails[0], src=flat[k]['src'], opts=flat[k]['opts'], multi=True, thresh=2, mlmath=d)
    corr.t2t(ctx, flat, res, proj=('outcome', 'toks', 'text'), limit=ctx.scale(300, 5000))

def judge_witness(w):
    return []

def rejudge(c):
    return judge(c, semrun.run_one(c))

def replay(data):
    v = data['violation']
    f = None
    if v.get('kind') == 'optable':
        r = t2t.run_case({'src': v['src'], 'opts': v['opts'], 'multi': False})
        f = [] if r.get('txt') == v['ref'] else ['rendered %r, the other operators of the same kind %r' % (r.get('txt'), v['ref'])]
    elif v.get('mlmath'):
        d = v['mlmath']; d['segs'] = [(l, how, [tuple(i) for i in items]) for (l, how, items) in d['segs']]
        full, per = mlmath.cases_of(d)
        f = mlmath.judge(d, t2t.run_case(full), {l: t2t.run_case(per[l]) for l in per})
    elif v.get('case'):
        f = rejudge(semrun.unpack(v['case']))
    if f is None:
        print('no stored case; violation was:', v.get('what')); return True
    print('\n'.join(f) if f else 'ok')
    return not f
