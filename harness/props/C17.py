"""C17 — results do not depend on what was processed before."""
import json, os, subprocess, random
import gen, semrun, impl, t2t, corr, cref

OBLIGATIONS = ['Yalafi.C17_globals_accounted', 'Yalafi.C17_writers_accounted', 'Yalafi.C17_initialState_fresh']

HERE = os.path.dirname(os.path.dirname(os.path.abspath(__file__)))

def worker(cases):
    env = dict(os.environ, YALAFI_REPO=impl.REPO, PYTHONHASHSEED='0')
    p = None
    for limit in (120, 600):           # a second, generous try on a busy machine
        try:
            p = subprocess.run(['/venv/bin/python', os.path.join(HERE, 'hist_worker.py')], input=json.dumps(cases).encode(),
                               stdout=subprocess.PIPE, stderr=subprocess.PIPE, timeout=limit, env=env)
            break
        except subprocess.TimeoutExpired:
            p = None
    if p is None:
        return [{'outcome': 'worker-failed', 'exc': 'no answer within 600 s'}] * len(cases)
    if p.returncode != 0:
        return [{'outcome': 'worker-failed', 'exc': p.stderr.decode('utf-8', 'replace')[-300:]}] * len(cases)
    return json.loads(p.stdout.decode())

GLSDEFS = ('\\gls@defglossaryentry{%(l)s}{name={%(n)s},text={%(t)s},plural={%(t)ss},description={%(d)s}}\n')

def gen_doc(rng, k, kind=None):
    """documents that define / observe state: macros, glossary, languages, packages, placeholders, item counters"""
    names = gen.Names(rng)
    kind = kind or rng.choice(['define', 'use', 'gls-def', 'gls-use', 'lang', 'math', 'items', 'pkg', 'plain', 'theorem', 'cref', 'cref', 'lang-unknown', 'lang-option', 'theorem', 'theorem-use', 'theorem-use', 'pkg-dcls', 'pkg-dcls'])
    if kind == 'cref':
        # package cleveref with a sed file that may lack labels the document uses (a stale file)
        c = cref.make(rng, stale=rng.random() < 0.6)
        c.pop('uses', None)
        return c
    o = {'pack': rng.choice(['*', '*', 'glossaries', 'babel,amsmath']), 'lang': rng.choice(['', 'en', 'de'])}
    files = None
    if kind == 'define':
        src = '\\newcommand{\\shared}[1]{%s #1 %s}\n\\shared{%s} \\def\\other{%s}' % (names.word(), names.word(), names.word(), names.word())
    elif kind == 'use':
        src = '%s \\shared{%s} \\other{} %s' % (names.word(), names.word(), names.word())
    elif kind == 'gls-def':
        files = {'g.glsdefs': GLSDEFS % {'l': 'lab', 'n': names.word(), 't': names.word(), 'd': names.word()}}
        src = '\\LTinput{g.glsdefs}\n%s \\gls{lab} %s \\Gls{lab} \\glspl{lab}' % (names.word(), names.word())
        o['pack'] = '*'
    elif kind == 'gls-use':
        src = '%s \\gls{lab} %s \\gls{lab}' % (names.word(), names.word())
        o['pack'] = '*'
    elif kind == 'lang-unknown':
        src = '\\usepackage{babel} %s \\foreignlanguage{latin}{%s} \\selectlanguage{klingon} %s \\begin{otherlanguage}{elvish} %s \\end{otherlanguage}' % (
            names.word(), names.word(), names.word(), names.word())
    elif kind == 'lang-option':
        src = '\\usepackage[%s]{babel}\nDies ist ein %s Satz.\n' % (rng.choice(['latin', 'klingon', 'elvish', 'ngerman,latin']), names.word())
        o['lang'] = 'de'
    elif kind == 'lang':
        src = '\\usepackage[german]{babel} %s "a "o \\selectlanguage{english} %s' % (names.word(), names.word())
    elif kind == 'math':
        src = ' '.join('$x_%d$ %s' % (i, names.word()) for i in range(rng.randint(1, 4))) + '\n\\begin{equation} a = b. \\end{equation}'
    elif kind == 'items':
        src = '\\begin{enumerate}\\item %s\\item %s\\begin{enumerate}\\item %s\\end{enumerate}\\end{enumerate}' % (names.word(), names.word(), names.word())
    elif kind == 'pkg':
        src = '\\usepackage{%s} %s \\textcolor{red}{%s} \\eqref{x}' % (rng.choice(['xcolor', 'amsmath', 'biblatex', 'hyperref']), names.word(), names.word())
        o['pack'] = rng.choice(['', 'babel'])
    elif kind == 'pkg-dcls':
        # the same document class with different package lists: what one call loads must not be loaded for the next
        src = '%s \\eqref{eq:%s} \\textcolor{red}{%s} \\autoref{%s} %s' % (names.word(), names.word(), names.word(), names.word(), names.word())
        o['dcls'] = rng.choice(['article', 'article', 'book', 'scrartcl'])
        o['pack'] = rng.choice(['amsmath', 'xcolor', '', 'hyperref', 'amsmath,xcolor', 'babel'])
    elif kind == 'theorem-use':
        # uses theorem environments that THIS document does not declare (an earlier document may have)
        src = '\\begin{thm} %s \\end{thm} \\begin{lemma} %s \\end{lemma} %s' % (names.word(), names.word(), names.word())
        o['pack'] = rng.choice(['*', 'geometry', ''])
        o['dcls'] = rng.choice(['article', 'book', 'scrartcl', ''])
        if rng.random() < 0.5:
            o['unkn'] = True
    elif kind == 'theorem':
        src = '\\newtheorem{thm}{%s}\\newtheorem{lemma}[thm]{%s}\\begin{thm} %s \\end{thm} \\begin{proof} %s \\end{proof}' % (names.word(), names.word(), names.word(), names.word())
    else:
        ast, r = gen.make_doc(rng, n=rng.randint(2, 5))
        src = r.src()
    c = {'src': src, 'opts': o, 'multi': rng.random() < 0.25, 'kind': kind}
    if c['multi']:
        c['thresh'] = 2
    if files:
        c['files'] = files
    return c

def same(a, b):
    keys = ('outcome', 'txt', 'pos', 'parts', 'unknowns')
    return all(a.get(k) == b.get(k) for k in keys) and (a.get('stderr') or '') == (b.get('stderr') or '')

def run_seq(seq):
    together = worker(seq)
    alone = [worker([c])[0] for c in seq]
    twice = worker([seq[-1], seq[-1]])
    return together, alone, twice

def run(ctx):
    rng = ctx.rng
    seqs = []
    for _ in range(ctx.scale(40, 800)):
        k = rng.randint(2, 6)
        seqs.append([gen_doc(rng, i) for i in range(k)])
    # every (definer, observer) pair of the stateful kinds at least once, in both orders
    for a, b in [('define', 'use'), ('gls-def', 'gls-use'), ('lang-unknown', 'lang-option'), ('theorem', 'theorem-use'), ('cref', 'cref'),
                 ('math', 'math'), ('items', 'items'), ('lang', 'plain'), ('pkg', 'use'),
                 ('pkg-dcls', 'pkg-dcls'), ('pkg-dcls', 'pkg-dcls'), ('pkg-dcls', 'pkg-dcls')]:
        seqs.append([gen_doc(rng, 0, a), gen_doc(rng, 1, b)])
        seqs.append([gen_doc(rng, 0, a), gen_doc(rng, 1, 'plain'), gen_doc(rng, 2, b), gen_doc(rng, 3, b)])
    ctx.stats['_rule'] = ('sequences of 2-6 (document, options) calls in one interpreter (subprocess), built so that earlier documents define macros, '
                          'glossary entries (.glsdefs), languages, packages, theorem environments, rotate placeholders and advance item counters that later '
                          'ones would observe; each result compared with the same call made alone in a fresh interpreter, and with itself repeated; '
                          'non-trivial = sequence of length >= 2')
    results = ctx.pmap(run_seq, seqs, chunksize=1)
    for seq, (together, alone, twice) in zip(seqs, results):
        ctx.case(json.dumps([(c['src'], c['opts'], c['multi']) for c in seq], sort_keys=True))
        ctx.count('sequences'); ctx.count('calls', len(seq))
        for c in seq:
            ctx.count('kind_' + c['kind'])
        bad = None
        for i, (a, b) in enumerate(zip(together, alone)):
            if a.get('outcome') == 'worker-failed' or b.get('outcome') == 'worker-failed':
                bad = ('worker failed: %s' % (a.get('exc') or b.get('exc')), i); break
            if not same(a, b):
                bad = ('call %d of the sequence gives %r (%s), the same call alone in a fresh interpreter gives %r (%s)' % (
                    i + 1, (a.get('txt') or a.get('parts')), a.get('outcome'), (b.get('txt') or b.get('parts')), b.get('outcome')), i)
                break
        if bad is None and not same(twice[0], twice[1]):
            bad = ('the same call repeated gives %r then %r' % (twice[0].get('txt'), twice[1].get('txt')), len(seq) - 1)
        if bad:
            if gls_class(seq[:bad[1] + 1]) and any(k['id'] == 'glossary-module-state' for k in ctx.known):
                ctx.known_hits.setdefault('glossary-module-state', {'what': next(k['line'] for k in ctx.known if k['id'] == 'glossary-module-state'), 'count': 0})['count'] += 1
                continue
            ctx.violation(bad[0], sequence=[{k: v for k, v in c.items()} for c in seq[:bad[1] + 1]])
        if len(ctx.samples) < 2:
            ctx.sample({'sequence': [(c['kind'], c['src'][:80]) for c in seq]})
    options_history(ctx)
    server_history(ctx)
    # the model is a function of its arguments: correspondence on the same calls ties the implementation to it
    flat = [c for seq in seqs for c in seq][:ctx.scale(150, 3000)]
    res = ctx.pmap(t2t.run_case, flat)
    corr.t2t(ctx, flat, res, proj=('outcome', 'text', 'unknowns'), limit=len(flat))

# ---- one Options object (replacement / definition files read once) used for several documents --------

def options_reuse(args):
    """what the command-line tools do: the --repl and --defs files are read once (tex2txt.read_replacements,
    read_definitions), the resulting Options object serves every document of the run"""
    rules, defs, docs = args
    import tempfile, shutil
    m = impl.load()
    d = tempfile.mkdtemp(prefix='yvr_')
    try:
        fr, fd = os.path.join(d, 'repl.txt'), os.path.join(d, 'defs.tex')
        open(fr, 'w', encoding='utf-8').write(''.join(l + '\n' for l in rules))
        open(fd, 'w', encoding='utf-8').write(defs)
        def options():
            return m.tex2txt.Options(lang='en', pack='*', repl=m.tex2txt.read_replacements(fr, 'utf-8'),
                                     defs=m.tex2txt.read_definitions(fd, 'utf-8'))
        def shared():
            o = options()
            return [(lambda r: (r[0], list(r[1])))(m.tex2txt.tex2txt(x, o)) for x in docs]
        def fresh():
            return [(lambda r: (r[0], list(r[1])))(m.tex2txt.tex2txt(x, options())) for x in docs]
        a, b = impl.guarded(shared, 60), impl.guarded(fresh, 60)
        return {'shared': (a['outcome'], a['value'], a.get('exc')), 'fresh': (b['outcome'], b['value'], b.get('exc'))}
    finally:
        shutil.rmtree(d, ignore_errors=True)

def options_history(ctx):
    rng = ctx.rng
    cases = []
    W = ['so', 'dass', 'teh', 'alpha', 'beta', 'gamma', 'Word', 'z.', 'B.', 'and', 'the', 'end']
    for _ in range(ctx.scale(24, 400)):
        rules = [rng.choice(['so dass & sodass', 'teh & the', 'alpha beta & ab', 'z. B. & zum Beispiel', '# comment', '', 'gamma & ', 'the end & finis'])
                 for _ in range(rng.randint(1, 4))]
        defs = rng.choice(['', '\\newcommand{\\dd}[1]{teh #1 end}\n', '\\def\\dd#1{alpha #1}\n\\newcommand{\\ee}{so dass}\n'])
        docs = [' '.join(rng.choice(W + ['\\dd{x}', '\\ee{}', '$x$', '\\item']) for _ in range(rng.randint(4, 12))) + '.' for _ in range(rng.randint(2, 3))]
        docs.append(docs[0])
        cases.append((rules, defs, docs))
    for c, r in zip(cases, ctx.pmap(options_reuse, cases)):
        ctx.case(('options-reuse', tuple(c[0]), c[1], tuple(c[2]))); ctx.count('options_reuse_' + r['shared'][0])
        if r['shared'] != r['fresh']:
            k = 0
            if r['shared'][1] and r['fresh'][1]:
                k = next((i for i, (x, y) in enumerate(zip(r['shared'][1], r['fresh'][1])) if x != y), 0)
            ctx.violation('document %d of a run that reads its --repl / --defs files once gives %r; processed on its own with the same files it gives %r'
                          % (k + 1, str((r['shared'][1] or [r['shared'][2]])[k])[:160], str((r['fresh'][1] or [r['fresh'][2]])[k])[:160]),
                          kind='options-reuse', rules=c[0], defs=c[1], docs=c[2])

# ---- consecutive requests to one --as-server process ---------------------------------

def free_port():
    import socket
    s = socket.socket(); s.bind(('localhost', 0)); p = s.getsockname()[1]; s.close()
    return p

def server_session(requests, lt_options):
    """start one server, send the requests in order; returns [(response, [argv of every proofreader call])].
    A connection-level failure (the port taken by a concurrent session between choosing and binding it, a start slower than
    the waiting loop on a loaded machine) says nothing about the shell: the whole session is run again, up to three times."""
    out = []
    for attempt in range(3):
        out = server_session_once(requests, lt_options)
        if not any(rep.startswith('ERROR ') and ('onnection' in rep or 'timed out' in rep or 'refused' in rep) for rep, _ in out):
            break
    return out

def server_session_once(requests, lt_options):
    import tempfile, shutil, time, urllib.request, urllib.parse
    d = tempfile.mkdtemp(prefix='yvs_')
    spec = os.path.join(d, 'spec.json')
    json.dump({'flag_words': ['teh', 'Fheler']}, open(spec, 'w'))
    port = free_port()
    cmd = ['/venv/bin/python', '-m', 'yalafi.shell', '--no-config', '--as-server', str(port), '--lt-command',
           '/venv/bin/python %s %s' % (os.path.join(HERE, 'fake_lt.py'), spec)]
    if lt_options:
        cmd += ['--lt-options', '~' + lt_options]
    env = dict(os.environ, PYTHONPATH=impl.REPO, PYTHONHASHSEED='0')
    p = subprocess.Popen(cmd, cwd=d, env=env, stdout=subprocess.PIPE, stderr=subprocess.PIPE)
    out = []
    try:
        for _ in range(60):
            try:
                import socket
                socket.create_connection(('localhost', port), timeout=0.2).close(); break
            except OSError:
                time.sleep(0.1)
        for rq in requests:
            nlog = len(open(spec + '.log').read().split('\n')) - 1 if os.path.exists(spec + '.log') else 0
            data = urllib.parse.urlencode(rq).encode('ascii')
            try:
                rep = urllib.request.urlopen(urllib.request.Request('http://localhost:%d/v2/check' % port, data=data), timeout=20).read().decode()
            except Exception as e:
                rep = 'ERROR %s' % e
            lines = open(spec + '.log').read().split('\n')[:-1] if os.path.exists(spec + '.log') else []
            # how the proofreader was called AND the plain text it was given (the filter's output for this request)
            calls = [[json.loads(l)['argv'], json.loads(l).get('plain')] for l in lines[nlog:]]
            out.append((rep, calls))
    finally:
        p.kill(); p.wait()
        shutil.rmtree(d, ignore_errors=True)
    return out

def gen_request(rng):
    # (texts whose plain text depends on the language of the request: "a is an umlaut in German only, the placeholders of
    # formulas and the word for \\begin{proof} are chosen by language)
    words = ['Here is teh text.', 'Ein Fheler hier.', 'Plain words only.', 'Some $x$ maths and teh end.', '\\section{Head} body teh',
             'He typed "a" and teh rest.', '\\begin{proof} It is teh case. \\end{proof}', 'Formula $x$ and $y$ then teh end.']
    rq = {'language': rng.choice(['en-GB', 'de-DE', 'ru-RU']), 'text': rng.choice(words)}
    for f, v in [('disabledRules', 'UPPERCASE_SENTENCE_START'), ('enabledRules', 'X_RULE'), ('disabledCategories', 'CAT'), ('enabledCategories', 'CAT2')]:
        if rng.random() < 0.3:
            rq[f] = v
    if rng.random() < 0.15:
        rq['enabledOnly'] = 'true'
    return rq

def server_case(args):
    reqs, lt_options = args
    together = server_session(reqs, lt_options)
    alone = [server_session([r], lt_options)[0] for r in reqs]
    return together, alone

def server_history(ctx):
    rng = ctx.rng
    cases = []
    for _ in range(ctx.scale(8, 120)):
        reqs = [gen_request(rng) for _ in range(rng.randint(2, 4))]
        cases.append((reqs, rng.choice(['', '--disable WHITESPACE_RULE', '--enable A_RULE --disablecategories TYPOS', '--disable R1 -eo'])))
    res = ctx.pmap(server_case, cases, chunksize=1)
    for (reqs, lto), (together, alone) in zip(cases, res):
        ctx.case(json.dumps([reqs, lto], sort_keys=True)); ctx.count('server_sequences'); ctx.count('server_requests', len(reqs))
        for i, (a, b) in enumerate(zip(together, alone)):
            if a != b:
                ctx.violation('server: request %d answered %r with proofreader options %r after the earlier requests, but %r with %r when asked alone' % (
                    i + 1, a[0][:80], a[1], b[0][:80], b[1]), requests=reqs[:i + 1], lt_options=lto, server=True)
                break

def gls_class(seq):
    return False

def judge_witness(w):
    if w.get('kind') == 'options-reuse':
        r = options_reuse((w['rules'], w['defs'], w['docs']))
        return ['documents of one run differ from the documents processed alone'] if r['shared'] != r['fresh'] else []
    if w.get('server'):
        together, alone = server_case((w['requests'], w['lt_options']))
        return ['server request differs'] if together != alone else []
    together, alone, twice = run_seq(w['sequence'])
    for i, (a, b) in enumerate(zip(together, alone)):
        if not same(a, b):
            return ['call %d differs from the same call alone' % (i + 1)]
    return []

def replay(data):
    f = judge_witness(data['violation'])
    print('\n'.join(f) if f else 'ok')
    return not f
