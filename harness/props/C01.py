"""C01 — every output character has exactly one source position, inside the source."""
import os, subprocess, tempfile, sys
import t2t, gen, impl, corr

OBLIGATIONS = [
    'Yalafi.C01_getTxtPos_length', 'Yalafi.C01_getTxtPos_range', 'Yalafi.C01_scan_inRange',
    'Yalafi.C01_latexError_inRange', 'Yalafi.C01_removeLines_inRange', 'Yalafi.C01_ml_parts',
    'Yalafi.C01_substitute_positions', 'Yalafi.C01_pipeline_partial', 'Yalafi.C01_tex2txt', 'Yalafi.C01_tex2txt_current',
    # --nums file of the command line (Model/Reports.lean, correspondence: corr_reports.py)
    'Yalafi.C01_nums_lines', 'Yalafi.C01_write_output',
]

def judge(case, res):
    fails = []
    if res['outcome'] != 'ok':
        return fails       # totality is C07
    n = len(case['src'])
    unkn = bool((case.get('opts') or {}).get('unkn'))
    for lang, t, p in t2t.all_parts(res, case):
        if len(t) != len(p):
            fails.append('text and position list differ in length (%d vs %d)' % (len(t), len(p)))
        elif not unkn:
            bad = [(i, x) for i, x in enumerate(p) if not (1 <= x <= n)]
            if bad:
                i, x = bad[0]
                fails.append('position %d at output index %d (%r) is outside 1..%d' % (x, i, t[max(0, i - 8):i + 8], n))
    return fails

def ml_end_cases(rng, n):
    """multi-language documents that END with (or right behind) a short inclusion in another language: the placeholder
    of the inclusion is the last thing in the main part, its characters must still lie inside the source"""
    out = []
    incls = ['\\foreignlanguage{german}{%s}', '\\foreignlanguage{french}{%s}', '\\begin{otherlanguage*}{german}%s\\end{otherlanguage*}',
             '{\\selectlanguage{german}%s}', '\\foreignlanguage{german}{%s', '\\foreignlanguage{russian}{%s}']
    words = ['ja', 'x', 'Wort', 'ein Wort', 'a b c', 'a b c d e', '\u00df', '$x$', 'so.']
    tails = ['', '\n', ' ', '.', ' z', '\n\n', '}', '%']
    for inc in incls:
        for w in words:
            for tl in tails:
                for pre in ['Some text ', '', 'A\n\n']:
                    for th in (0, 2, 3, 5):
                        out.append({'src': pre + (inc % w) + tl, 'opts': {'pack': 'babel', 'lang': 'en'}, 'multi': True,
                                    'thresh': th, 'kind': 'mlend', 'words': None})
    rng.shuffle(out)
    return out[:n]

def classify(case):
    """known-finding classes, decided from the input alone"""
    return None

def run(ctx):
    n = ctx.scale(700, 20000)
    cases = t2t.doc_cases(ctx, n)
    cases += ml_end_cases(ctx.rng, ctx.scale(900, 6000))
    for c in cases:
        c['cap_lines'] = 3
    ctx.stats['_rule'] = ('G-doc AST documents over the construct catalogue, G-edge prefixes ending at a construct, '
                          'G-mut prefixes/deletions/swaps, G-soup token soup; random options incl. defs files, \\LTinput files, '
                          'multi-language; documents ending with a short foreign-language inclusion; non-trivial = produces non-empty output')
    results = ctx.pmap(t2t.run_case, cases)
    for c, r in zip(cases, results):
        nontriv = r['outcome'] == 'ok' and any(t for _, t, _ in t2t.all_parts(r, c))
        ctx.case((c['src'], repr(sorted((c.get('opts') or {}).items())), c.get('multi')), nontriv)
        ctx.count('kind_' + c['kind']); ctx.count('outcome_' + r['outcome'])
        fails = judge(c, r)
        if fails:
            ctx.violation(fails[0], src=c['src'], opts=c.get('opts'), multi=c.get('multi'), files=c.get('files'),
                          thresh=c.get('thresh'), kind=c['kind'])
        if len(ctx.samples) < 4 and c['kind'] == 'doc':
            ctx.sample({'src': c['src'][:300], 'opts': c.get('opts'), 'multi': c.get('multi')})
    corr.leaf_corr(ctx, cases, results, limit=ctx.scale(300, 3000))
    corr.t2t(ctx, cases, results, limit=ctx.scale(2500, 40000))
    cli(ctx)
    if ctx.model_ok:
        import corr_reports
        corr_reports.nums_corr(ctx, ctx.scale(1500, 15000))

def cli(ctx):
    """--nums file has one number per character written to standard output"""
    rng = ctx.rng
    env = dict(os.environ, PYTHONPATH=impl.REPO, PYTHONHASHSEED='0')
    for i in range(ctx.scale(6, 80)):
        ast, r = gen.make_doc(rng)
        src = r.src()
        with tempfile.TemporaryDirectory() as d:
            f = os.path.join(d, 'in.tex'); nums = os.path.join(d, 'nums')
            open(f, 'w', encoding='utf-8').write(src)
            p = subprocess.run(['/venv/bin/python', '-m', 'yalafi', '--nums', nums, f], cwd=d, env=env,
                               stdout=subprocess.PIPE, stderr=subprocess.PIPE, timeout=60)
            ctx.case(('cli', src))
            ctx.count('cli_rc_%d' % p.returncode)
            if p.returncode != 0:
                continue
            out = p.stdout.decode('utf-8')
            lines = open(nums).read().split('\n')
            if lines and lines[-1] == '':
                lines.pop()
            if len(lines) != len(out):
                ctx.violation('--nums file has %d lines for %d characters on stdout' % (len(lines), len(out)), src=src, cli=True)
                continue
            # the file is read in text mode: '\r' handling can shorten it; compare against what Python read
            n = len(open(f, encoding='utf-8').read())
            bad = [x for x in lines if not (x.rstrip('+').isdigit() and 1 <= int(x.rstrip('+')) <= n)]
            if bad:
                ctx.violation('--nums entry %r outside 1..%d' % (bad[0], n), src=src, cli=True)

def replay(data):
    v = data['violation']
    c = {'src': v['src'], 'opts': v.get('opts') or {}, 'multi': v.get('multi', False), 'files': v.get('files'),
         'thresh': v.get('thresh'), 'want_toks': False}
    r = t2t.run_case(c)
    fails = judge(c, r)
    print('\n'.join(fails) if fails else 'ok: %s' % r['outcome'])
    return not fails

def judge_witness(w):
    c = {'src': w['src'], 'opts': w.get('opts') or {}, 'multi': w.get('multi', False), 'files': w.get('files'),
         'thresh': w.get('thresh'), 'want_toks': False}
    return judge(c, t2t.run_case(c))
